package query

// C27 translation-validation harness: for every generated pattern p the three ASTs
//   a0 = syntax.Parse(p, regexpFlags)            (what RegexpQuery parses)
//   a1 = syntax.Parse(RegexpString(a0), regexpFlags)   (print, parse again: proto / gob round trip, newRegexpMatchTree)
//   a2 = OptimizeRegexp(a0, regexpFlags)         (capture removal + Simplify)
// are exported as Coq terms of Model/Regex.v's [re]; the Coq side decides norm a0 = norm a1 = norm a2
// (a proof of language equality for ALL subjects, by norm_sound).  The Go side evaluates the property
// itself on bounded subjects: a reference end-set matcher over the three ASTs (vfReEnds), and the real
// engine (regexp.MustCompile, as index/matchtree.go compiles the printed form) on the original pattern,
// the printed a0 and the printed a2 (FindAllStringIndex must agree).
// Mapped into /repo/query by `go test -overlay`.

import (
	"fmt"
	"os"
	"regexp"
	"regexp/syntax"
	"sort"
	"strings"
	"testing"
	"unicode"
	"unicode/utf8"

	"github.com/sourcegraph/zoekt/internal/syntaxutil"
)

// ---------------------------------------------------------------- AST -> Coq

func vfC27Runes(rs []rune) string {
	if len(rs) == 0 {
		return "(@nil N)"
	}
	ss := make([]string, len(rs))
	for i, r := range rs {
		ss[i] = fmt.Sprint(int(r))
	}
	return "[" + strings.Join(ss, ";") + "]"
}

func vfC27Coq(re *syntax.Regexp) string {
	subs := func() string {
		if len(re.Sub) == 0 {
			return "(@nil re)"
		}
		ss := make([]string, len(re.Sub))
		for i, s := range re.Sub {
			ss[i] = vfC27Coq(s)
		}
		return "[" + strings.Join(ss, "; ") + "]"
	}
	switch re.Op {
	case syntax.OpNoMatch:
		return "RNoMatch"
	case syntax.OpEmptyMatch:
		return "REmpty"
	case syntax.OpLiteral:
		return fmt.Sprintf("(RLit %v %s)", re.Flags&syntax.FoldCase != 0, vfC27Runes(re.Rune))
	case syntax.OpCharClass:
		if len(re.Rune) == 0 {
			return "(RClass [])"
		}
		var ss []string
		for i := 0; i+1 < len(re.Rune); i += 2 {
			ss = append(ss, fmt.Sprintf("(%d,%d)", re.Rune[i], re.Rune[i+1]))
		}
		return "(RClass [" + strings.Join(ss, ";") + "])"
	case syntax.OpAnyCharNotNL:
		return "RAnyNotNL"
	case syntax.OpAnyChar:
		return "RAny"
	case syntax.OpBeginLine:
		return "RBeginLine"
	case syntax.OpEndLine:
		return "REndLine"
	case syntax.OpBeginText:
		return "RBeginText"
	case syntax.OpEndText:
		return "REndText"
	case syntax.OpWordBoundary:
		return "RWordB"
	case syntax.OpNoWordBoundary:
		return "RNoWordB"
	case syntax.OpCapture:
		return "(RCapture " + vfC27Coq(re.Sub[0]) + ")"
	case syntax.OpStar:
		return "(RStar " + vfC27Coq(re.Sub[0]) + ")"
	case syntax.OpPlus:
		return "(RPlus " + vfC27Coq(re.Sub[0]) + ")"
	case syntax.OpQuest:
		return "(RQuest " + vfC27Coq(re.Sub[0]) + ")"
	case syntax.OpRepeat:
		mx := "None"
		if re.Max >= 0 {
			mx = fmt.Sprintf("(Some %d%%nat)", re.Max)
		}
		return fmt.Sprintf("(RRepeat %d%%nat %s %s)", re.Min, mx, vfC27Coq(re.Sub[0]))
	case syntax.OpConcat:
		return "(RConcat " + subs() + ")"
	case syntax.OpAlternate:
		return "(RAlt " + subs() + ")"
	}
	return fmt.Sprintf("(RInvalidOp%d)", re.Op) // does not type-check: a new op breaks the run loudly
}

func vfC27Size(re *syntax.Regexp) int {
	n := 1 + len(re.Rune)
	for _, s := range re.Sub {
		n += vfC27Size(s)
	}
	return n
}

// ---------------------------------------------------------------- reference matcher (Go-side oracle)

type vfIntSet map[int]bool

func vfFoldEq(fold bool, r, c rune) bool {
	if r == c {
		return true
	}
	if !fold {
		return false
	}
	for x := unicode.SimpleFold(r); x != r; x = unicode.SimpleFold(x) {
		if x == c {
			return true
		}
	}
	return false
}

func vfIsWord(t []rune, i int) bool {
	return i >= 0 && i < len(t) && syntax.IsWordChar(t[i])
}

// vfReEnds: the set of end positions of matches of re in t that start at i (rune indexes).
func vfReEnds(re *syntax.Regexp, t []rune, i int) vfIntSet {
	out := vfIntSet{}
	one := func(ok func(c rune) bool) {
		if i < len(t) && ok(t[i]) {
			out[i+1] = true
		}
	}
	closure := func(sub *syntax.Regexp, from vfIntSet) vfIntSet {
		seen := vfIntSet{}
		var work []int
		for k := range from {
			seen[k] = true
			work = append(work, k)
		}
		for len(work) > 0 {
			k := work[len(work)-1]
			work = work[:len(work)-1]
			for j := range vfReEnds(sub, t, k) {
				if !seen[j] {
					seen[j] = true
					work = append(work, j)
				}
			}
		}
		return seen
	}
	stepAll := func(sub *syntax.Regexp, from vfIntSet) vfIntSet {
		n := vfIntSet{}
		for k := range from {
			for j := range vfReEnds(sub, t, k) {
				n[j] = true
			}
		}
		return n
	}
	switch re.Op {
	case syntax.OpNoMatch:
	case syntax.OpEmptyMatch:
		out[i] = true
	case syntax.OpLiteral:
		k := i
		ok := true
		for _, r := range re.Rune {
			if k >= len(t) || !vfFoldEq(re.Flags&syntax.FoldCase != 0, r, t[k]) {
				ok = false
				break
			}
			k++
		}
		if ok {
			out[k] = true
		}
	case syntax.OpCharClass:
		one(func(c rune) bool {
			for k := 0; k+1 < len(re.Rune); k += 2 {
				if re.Rune[k] <= c && c <= re.Rune[k+1] {
					return true
				}
			}
			return false
		})
	case syntax.OpAnyCharNotNL:
		one(func(c rune) bool { return c != '\n' })
	case syntax.OpAnyChar:
		one(func(c rune) bool { return true })
	case syntax.OpBeginLine:
		if i == 0 || t[i-1] == '\n' {
			out[i] = true
		}
	case syntax.OpEndLine:
		if i == len(t) || t[i] == '\n' {
			out[i] = true
		}
	case syntax.OpBeginText:
		if i == 0 {
			out[i] = true
		}
	case syntax.OpEndText:
		if i == len(t) {
			out[i] = true
		}
	case syntax.OpWordBoundary:
		if vfIsWord(t, i-1) != vfIsWord(t, i) {
			out[i] = true
		}
	case syntax.OpNoWordBoundary:
		if vfIsWord(t, i-1) == vfIsWord(t, i) {
			out[i] = true
		}
	case syntax.OpCapture:
		return vfReEnds(re.Sub[0], t, i)
	case syntax.OpStar:
		return closure(re.Sub[0], vfIntSet{i: true})
	case syntax.OpPlus:
		return closure(re.Sub[0], vfReEnds(re.Sub[0], t, i))
	case syntax.OpQuest:
		out = vfReEnds(re.Sub[0], t, i)
		out[i] = true
	case syntax.OpRepeat:
		cur := vfIntSet{i: true}
		for k := 0; k < re.Min; k++ {
			cur = stepAll(re.Sub[0], cur)
		}
		if re.Max < 0 {
			return closure(re.Sub[0], cur)
		}
		if re.Max < re.Min {
			return out
		}
		for k := range cur {
			out[k] = true
		}
		for k := re.Min; k < re.Max; k++ {
			cur = stepAll(re.Sub[0], cur)
			for j := range cur {
				out[j] = true
			}
		}
	case syntax.OpConcat:
		cur := vfIntSet{i: true}
		for _, s := range re.Sub {
			cur = stepAll(s, cur)
		}
		return cur
	case syntax.OpAlternate:
		for _, s := range re.Sub {
			for j := range vfReEnds(s, t, i) {
				out[j] = true
			}
		}
	}
	return out
}

func vfSetStr(s vfIntSet) string {
	ks := make([]int, 0, len(s))
	for k := range s {
		ks = append(ks, k)
	}
	sort.Ints(ks)
	return fmt.Sprint(ks)
}

// ---------------------------------------------------------------- pattern generator

var vfC27Lits = []string{"a", "b", "c", "A", "B", "k", "K", "s", "S", "x", "z", "0", "9", "_", " ", "-",
	"é", "É", "σ", "ς", "Σ", "ſ", "K", "İ", "ı", "ǅ", "ß", "ẞ", "世", "😀", " ", "́",
	`\.`, `\*`, `\+`, `\?`, `\(`, `\)`, `\|`, `\[`, `\]`, `\{`, `\}`, `\^`, `\$`, `\\`, `\-`,
	`\n`, `\t`, `\r`, `\f`, `\v`, `\a`, `\x01`, `\x7f`, `\x{80}`, `\x{10ffff}`, `\x{fffd}`, `\000`, `\Q.*\E`, "#", "/", ":", "\"", "'", "~", "&", "!", "@", ",", "<", ">", "="}

var vfC27ClassItems = []string{"a", "b", "c", "a-c", "A-C", "x-z", "0-9", "k", "K", "s", "S", "é", "σ", "Σ", "ς", "ſ", "K", "\\n", "\\t", "\\-", "\\]", "\\\\", "\\^", "^", "-", ".", "*", "$", "|", "(", ")",
	`\d`, `\w`, `\s`, `\D`, `\W`, `\S`, `[:alpha:]`, `[:^alpha:]`, `[:digit:]`, `[:space:]`, `[:word:]`, `[:punct:]`, `[:upper:]`, `[:lower:]`, `\x00-\x{10FFFF}`, `\x00-\x09`, `\x0b-\x{10FFFF}`, `\x{80}-\x{ff}`, `à-ÿ`, `α-ω`, `\pN`, `\p{Greek}`, `\PL`, `\p{Lu}`, `世-界`, `\x{1F600}-\x{1F64F}`, "İ", "ı", "ǅ", "ǆ", "Ǆ", "́"}

func vfC27GenClass(r *vfRand) string {
	var b strings.Builder
	b.WriteByte('[')
	if r.Chance(30) {
		b.WriteByte('^')
	}
	n := 1 + r.Intn(4)
	for i := 0; i < n; i++ {
		b.WriteString(r.Pick(vfC27ClassItems))
	}
	b.WriteByte(']')
	return b.String()
}

// vfC27MetaShape: literal text containing a metacharacter of regexp/syntax at a position where printing it UNESCAPED would
// change the parse (a literal that looks like a counted repeat, a postfix operator, an alternation bar, a group, a class,
// an anchor, an escape sequence ...), for every metacharacter of `\.+*?()|[]{}^$`.
func vfC27MetaShape(r *vfRand) string {
	atom := func() string {
		return r.Pick([]string{"a", "b", "foo", "ab", "x", "é", `\d`, `\w`, "[a-c]", "(ab)", "(?:a|b)", ".", "0", "k"})
	}
	n := func() string { return fmt.Sprint(r.Intn(4)) }
	switch r.Intn(24) {
	case 0:
		return atom() + `\{` + n() + `\}`
	case 1:
		return atom() + `\{` + n() + `,\}`
	case 2:
		a := r.Intn(3)
		return atom() + `\{` + fmt.Sprint(a) + "," + fmt.Sprint(a+r.Intn(3)) + `\}`
	case 3:
		return atom() + `{` + n() + `\}` + r.Pick([]string{"", "x"}) // only one brace needs the escape
	case 4:
		return atom() + r.Pick([]string{`\*`, `\+`, `\?`, `\*\?`, `\+\?`, `\?\?`}) + r.Pick([]string{"", "b"})
	case 5:
		return atom() + `\|` + atom()
	case 6:
		return `\(` + atom() + `\)` + r.Pick([]string{"", `\*`, "*", "+"})
	case 7:
		return `\(` + atom() + `\|` + atom() + `\)`
	case 8:
		return `\(\?:` + atom() + `\)`
	case 9:
		return `\(\?i\)` + atom()
	case 10:
		return `\[` + r.Pick([]string{"a", "abc", "a-c", "^a", "^a-c", "[:alpha:]", "\\]"}) + `\]` + r.Pick([]string{"", "+", "*"})
	case 11:
		return r.Pick([]string{`\^`, `\$`, `\^\$`}) + atom()
	case 12:
		return atom() + r.Pick([]string{`\$`, `\^`})
	case 13:
		return atom() + `\.` + atom()
	case 14:
		return `\\` + r.Pick([]string{"d", "w", "s", "b", "B", "A", "z", "pL", "x41", "n", "Q", "E", "1", "."}) + atom()
	case 15:
		return `\Q` + r.Pick([]string{"a{2}", "(a|b)*", "[a-c]+", "a.b", "^a$", "a\\d", "x{1,2}y", "a|b", "?", "*"}) + `\E` + r.Pick([]string{"", "+", "{2}"})
	case 16:
		return "[" + r.Pick([]string{`\]a`, `a\]`, `\^a`, `a\-c`, `\\d`, `\[:alpha:\]`, `a\^`, `\-`, `\\`, `{}`, `\{2\}`, `.*+?|()$`}) + "]" + r.Pick([]string{"", "+", "{2}"})
	case 17:
		return atom() + `\{` + n() + `\}` + `\{` + n() + `\}`
	case 18:
		return "(" + atom() + `)\{` + n() + `\}`
	case 19:
		return atom() + `\{,` + n() + `\}`
	case 20:
		return atom() + `\{` + r.Pick([]string{"a", "", " 2", "2 ", "-1", "1001", "2,1"}) + `\}`
	case 21:
		return `\{` + n() + `\}` + atom()
	case 22:
		return atom() + `\-` + atom() + `\#` + `\ ` + `\/` // punctuation that needs no escape
	default:
		return `\*` + atom() + `\+` + `\?` + `\|` + `\(` + `\)` + `\[` + `\]` + `\{` + `\}` + `\^` + `\$` + `\.` + `\\`
	}
}

func vfC27Gen(r *vfRand, depth int) string {
	if r.Chance(12) {
		return vfC27MetaShape(r)
	}
	k := r.Intn(100)
	if depth <= 0 && k >= 45 {
		k = r.Intn(45)
	}
	switch {
	case k < 22: // literal run
		n := 1 + r.Intn(3)
		var b strings.Builder
		for i := 0; i < n; i++ {
			b.WriteString(r.Pick(vfC27Lits))
		}
		return b.String()
	case k < 30:
		return vfC27GenClass(r)
	case k < 34:
		return r.Pick([]string{".", "(?s:.)", "(?-s:.)", `\d`, `\w`, `\s`, `\W`, `\pL`, `\p{Greek}`, `[[:alpha:]]`})
	case k < 41:
		return r.Pick([]string{"^", "$", `\A`, `\z`, `\b`, `\B`, "(?m:^)", "(?m:$)", "(?-m:^)", "(?-m:$)", "(?-m)$", "(?-m)^"})
	case k < 45:
		return r.Pick([]string{"", "(?:)", "()", "(?i)", "(?s)", "(?U)", "(?i-s)", "(?-i)"})
	case k < 60: // repetition
		sub := vfC27Gen(r, depth-1)
		if r.Chance(50) {
			sub = "(?:" + sub + ")"
		} else if r.Chance(40) {
			sub = "(" + sub + ")"
		}
		var op string
		switch r.Intn(12) {
		case 0, 1:
			op = "*"
		case 2, 3:
			op = "+"
		case 4, 5:
			op = "?"
		case 6:
			op = fmt.Sprintf("{%d}", r.Intn(4))
		case 7:
			op = fmt.Sprintf("{%d,}", r.Intn(4))
		case 8, 9:
			a := r.Intn(3)
			op = fmt.Sprintf("{%d,%d}", a, a+r.Intn(4))
		case 10:
			op = r.Pick([]string{"**", "*+", "+?", "??", "*?", "+*", "?*", "{2}{3}", "{1,2}*", "{0,1}+", "{2,}?", "{1,3}?"})
		default:
			op = "{1}"
			if r.Chance(4) {
				op = fmt.Sprintf("{%d,%d}", r.Intn(3), 40+r.Intn(3)) // large counted repetition
			}
		}
		return sub + op
	case k < 72: // group
		sub := vfC27Gen(r, depth-1)
		switch r.Intn(8) {
		case 0, 1, 2:
			return "(" + sub + ")"
		case 3:
			return "(?P<n" + fmt.Sprint(r.Intn(3)) + ">" + sub + ")"
		case 4:
			return "(?i:" + sub + ")"
		case 5:
			return "(?" + r.Pick([]string{"s", "m", "U", "i", "-s", "-m", "is", "im", "i-s", "-i", "sU"}) + ":" + sub + ")"
		case 6:
			return "(?<m" + fmt.Sprint(r.Intn(3)) + ">" + sub + ")"
		default:
			return "(?:" + sub + ")"
		}
	case k < 88: // concatenation
		n := 2 + r.Intn(3)
		var b strings.Builder
		for i := 0; i < n; i++ {
			b.WriteString(vfC27Gen(r, depth-1))
		}
		return b.String()
	default: // alternation
		n := 2 + r.Intn(3)
		var parts []string
		for i := 0; i < n; i++ {
			if r.Chance(8) {
				parts = append(parts, "")
			} else if r.Chance(35) { // shared prefixes / suffixes: exercises the parser's factoring
				parts = append(parts, r.Pick([]string{"ab", "ac", "abc", "abd", "a", "b", "A", "xb", "Ab", "k", "K", "abcx", "[a-c]", "[b-d]", "."}))
			} else {
				parts = append(parts, vfC27Gen(r, depth-1))
			}
		}
		s := strings.Join(parts, "|")
		if r.Chance(70) {
			return "(?:" + s + ")"
		}
		return s
	}
}

// subjects: all strings of length <= 3 over (up to 6) runes taken from the pattern's ASTs + fixed ones,
// then some longer random ones over the same alphabet.
func vfC27Alphabet(r *vfRand, res ...*syntax.Regexp) []rune {
	seen := map[rune]bool{}
	var cand []rune
	add := func(c rune) {
		if c >= 0 && c <= unicode.MaxRune && !(c >= 0xD800 && c <= 0xDFFF) && !seen[c] {
			seen[c] = true
			cand = append(cand, c)
		}
	}
	var walk func(re *syntax.Regexp)
	walk = func(re *syntax.Regexp) {
		switch re.Op {
		case syntax.OpLiteral:
			for _, c := range re.Rune {
				add(c)
				if re.Flags&syntax.FoldCase != 0 {
					add(unicode.SimpleFold(c))
				}
			}
		case syntax.OpCharClass:
			for i, c := range re.Rune {
				if i < 8 {
					add(c)
					if i%2 == 0 {
						add(c - 1)
					} else {
						add(c + 1)
					}
				}
			}
		}
		for _, s := range re.Sub {
			walk(s)
		}
	}
	for _, re := range res {
		walk(re)
	}
	// shuffle candidates deterministically, keep 4, add newline and 'a'
	for i := len(cand) - 1; i > 0; i-- {
		j := r.Intn(i + 1)
		cand[i], cand[j] = cand[j], cand[i]
	}
	if len(cand) > 4 {
		cand = cand[:4]
	}
	seen = map[rune]bool{}
	out := []rune{}
	for _, c := range append(cand, '\n', 'a', ' ') {
		if !seen[c] {
			seen[c] = true
			out = append(out, c)
		}
	}
	if len(out) > 6 {
		out = out[:6]
	}
	return out
}

func vfC27Subjects(r *vfRand, alpha []rune, maxLen int, extra int) [][]rune {
	var out [][]rune
	var rec func(cur []rune)
	rec = func(cur []rune) {
		out = append(out, append([]rune(nil), cur...))
		if len(cur) == maxLen {
			return
		}
		for _, c := range alpha {
			rec(append(cur, c))
		}
	}
	rec(nil)
	for i := 0; i < extra; i++ {
		n := maxLen + 1 + r.Intn(5)
		s := make([]rune, n)
		for k := range s {
			s[k] = alpha[r.Intn(len(alpha))]
		}
		out = append(out, s)
	}
	return out
}

// vfC27Witness derives a string from an AST by a random walk (alternative choice, min..min+2 repetitions, a rune of a class,
// the literal itself or a fold partner): mostly a string the AST matches, so that a language difference between two ASTs
// shows up as a subject one of them matches and the other does not.
func vfC27Witness(r *vfRand, re *syntax.Regexp, depth int) []rune {
	var out []rune
	rep := func(sub *syntax.Regexp, min, max int) {
		k := min + r.Intn(3)
		if max >= 0 && k > max {
			k = max
		}
		if depth > 6 && k > min {
			k = min
		}
		for i := 0; i < k && len(out) < 40; i++ {
			out = append(out, vfC27Witness(r, sub, depth+1)...)
		}
	}
	switch re.Op {
	case syntax.OpLiteral:
		for _, c := range re.Rune {
			if re.Flags&syntax.FoldCase != 0 && r.Chance(40) {
				c = unicode.SimpleFold(c)
			}
			out = append(out, c)
		}
	case syntax.OpCharClass:
		if n := len(re.Rune) / 2; n > 0 {
			k := r.Intn(n)
			lo, hi := re.Rune[2*k], re.Rune[2*k+1]
			c := lo
			if hi > lo && r.Chance(50) {
				c = hi
			}
			if c >= 0xD800 && c <= 0xDFFF {
				c = 'a'
			}
			out = append(out, c)
		}
	case syntax.OpAnyCharNotNL, syntax.OpAnyChar:
		out = append(out, []rune{'a', 'z', '{', '2', '}', 'é', ' '}[r.Intn(7)])
	case syntax.OpCapture:
		out = vfC27Witness(r, re.Sub[0], depth+1)
	case syntax.OpStar:
		rep(re.Sub[0], 0, -1)
	case syntax.OpPlus:
		rep(re.Sub[0], 1, -1)
	case syntax.OpQuest:
		rep(re.Sub[0], 0, 1)
	case syntax.OpRepeat:
		rep(re.Sub[0], re.Min, re.Max)
	case syntax.OpConcat:
		for _, s := range re.Sub {
			out = append(out, vfC27Witness(r, s, depth+1)...)
		}
	case syntax.OpAlternate:
		if len(re.Sub) > 0 {
			out = vfC27Witness(r, re.Sub[r.Intn(len(re.Sub))], depth+1)
		}
	}
	if len(out) > 40 {
		out = out[:40]
	}
	return out
}

func vfC27RuneIdx(s string, byteOff int) int { return utf8.RuneCountInString(s[:byteOff]) }

type vfC27Diff struct {
	what    string
	subject string
	detail  string
}

// vfC27Hunt evaluates the property on bounded subjects. Returns the first difference per kind.
func vfC27Hunt(r *vfRand, p string, a0, a1, a2, a3 *syntax.Regexp, maxLen, extra int) (diffs []vfC27Diff, nsub int, engineSamples [][2]string) {
	alpha := vfC27Alphabet(r, a0, a1, a2)
	subs := vfC27Subjects(r, alpha, maxLen, extra)
	for _, x := range []*syntax.Regexp{a0, a1, a2, a3} {
		if x == nil {
			continue
		}
		for k := 0; k < 6; k++ {
			w := vfC27Witness(r, x, 0)
			subs = append(subs, w)
			if k%3 == 2 {
				subs = append(subs, append(append([]rune{'a'}, w...), '\n'))
			}
		}
	}
	nsub = len(subs)
	e0, err0 := regexp.Compile("(?m)" + p)
	e1, err1 := regexp.Compile(syntaxutil.RegexpString(a0))
	e2, err2 := regexp.Compile(syntaxutil.RegexpString(a2))
	seen := map[string]bool{}
	rep := func(what string, t []rune, detail string) {
		if !seen[what] {
			seen[what] = true
			diffs = append(diffs, vfC27Diff{what, string(t), detail})
		}
	}
	if err0 != nil {
		return nil, 0, nil
	}
	if err1 != nil {
		rep("printed-form-does-not-compile", nil, err1.Error())
	}
	if err2 != nil {
		rep("optimised-printed-form-does-not-compile", nil, err2.Error())
	}
	for _, t := range subs {
		for i := 0; i <= len(t); i++ {
			s0 := vfSetStr(vfReEnds(a0, t, i))
			if s1 := vfSetStr(vfReEnds(a1, t, i)); s1 != s0 {
				rep("print-parse-changes-language", t, fmt.Sprintf("start %d: ends(a0)=%s ends(parse(print a0))=%s", i, s0, s1))
			}
			if s2 := vfSetStr(vfReEnds(a2, t, i)); s2 != s0 {
				rep("optimize-changes-language", t, fmt.Sprintf("start %d: ends(a0)=%s ends(optimize a0)=%s", i, s0, s2))
			}
			if a3 != nil {
				if s2, s3 := vfSetStr(vfReEnds(a2, t, i)), vfSetStr(vfReEnds(a3, t, i)); s3 != s2 {
					rep("print-parse-of-optimised-changes-language", t, fmt.Sprintf("start %d: ends(a2)=%s ends(parse(print a2))=%s", i, s2, s3))
				}
			}
		}
		s := string(t)
		m0 := fmt.Sprint(e0.FindAllStringIndex(s, -1))
		if err1 == nil {
			if m1 := fmt.Sprint(e1.FindAllStringIndex(s, -1)); m1 != m0 {
				rep("engine-printed-form-matches-differ", t, fmt.Sprintf("original %s printed %s (printed form %q)", m0, m1, syntaxutil.RegexpString(a0)))
			}
		}
		if err2 == nil {
			if m2 := fmt.Sprint(e2.FindAllStringIndex(s, -1)); m2 != m0 {
				rep("engine-optimised-matches-differ", t, fmt.Sprintf("original %s optimised %s (optimised form %q)", m0, m2, syntaxutil.RegexpString(a2)))
			}
		}
	}
	return diffs, nsub, nil
}

func vfC27Class(a0 *syntax.Regexp) []string {
	seen := map[string]bool{}
	var walk func(re *syntax.Regexp)
	walk = func(re *syntax.Regexp) {
		switch re.Op {
		case syntax.OpLiteral:
			if re.Flags&syntax.FoldCase != 0 {
				seen["foldlit"] = true
			} else {
				seen["lit"] = true
			}
			for _, c := range re.Rune {
				if c >= 0x80 {
					seen["nonascii"] = true
				}
				if !unicode.IsPrint(c) {
					seen["nonprint"] = true
				}
			}
		case syntax.OpCharClass:
			seen["class"] = true
			if len(re.Rune) > 2 && re.Rune[0] == 0 && re.Rune[len(re.Rune)-1] == unicode.MaxRune {
				seen["negclass"] = true
			}
		case syntax.OpCapture:
			seen["capture"] = true
		case syntax.OpRepeat:
			seen["repeat"] = true
		case syntax.OpStar, syntax.OpPlus, syntax.OpQuest:
			seen["star/plus/quest"] = true
			if re.Flags&syntax.NonGreedy != 0 {
				seen["nongreedy"] = true
			}
		case syntax.OpAlternate:
			seen["alt"] = true
		case syntax.OpConcat:
			seen["concat"] = true
		case syntax.OpBeginLine, syntax.OpEndLine, syntax.OpBeginText, syntax.OpEndText, syntax.OpWordBoundary, syntax.OpNoWordBoundary:
			seen["anchor"] = true
		case syntax.OpAnyChar, syntax.OpAnyCharNotNL:
			seen["any"] = true
		case syntax.OpEmptyMatch:
			seen["empty"] = true
		}
		for _, s := range re.Sub {
			walk(s)
		}
	}
	walk(a0)
	var out []string
	for k := range seen {
		out = append(out, k)
	}
	sort.Strings(out)
	return out
}

func vfC27Trunc(s string) string {
	if len(s) > 400 {
		return s[:200] + "...[" + fmt.Sprint(len(s)-400) + " bytes]..." + s[len(s)-200:]
	}
	return s
}

func vfC27One(r *vfRand, p string, maxLen, extra int, hunting bool) bool {
	a0, err := syntax.Parse(p, regexpFlags)
	if err != nil {
		return false
	}
	printed := syntaxutil.RegexpString(a0)
	a1, err1 := syntax.Parse(printed, regexpFlags)
	if err1 != nil {
		vfOracleFail("printed-form-does-not-parse", "RegexpString(Parse(p)) is rejected by Parse: "+err1.Error(), map[string]any{"pattern": p, "printed": printed})
		return false
	}
	// OptimizeRegexp's uncapture mutates in place only copies; a0 is reparsed afterwards to be safe.
	a2 := OptimizeRegexp(a0, regexpFlags)
	a0b, _ := syntax.Parse(p, regexpFlags)
	if !a0b.Equal(a0) {
		vfOracleFail("optimize-mutates-its-argument", "OptimizeRegexp changed the regexp it was given", map[string]any{"pattern": p})
		a0 = a0b
	}
	if vfC27Size(a0)+vfC27Size(a1)+2*vfC27Size(a2) > 3000 {
		// too large to export: only check that the forms zoekt compiles (index/matchtree.go: regexp.MustCompile of the
		// printed query regexp) are accepted
		for _, x := range []struct {
			key string
			re  *syntax.Regexp
		}{{"printed-form-does-not-compile", a0}, {"optimised-printed-form-does-not-compile", a2}} {
			if _, err := regexp.Compile(syntaxutil.RegexpString(x.re)); err != nil {
				vfOracleFail(x.key, x.key+": "+vfC27Trunc(err.Error()), map[string]any{"pattern": p, "detail": vfC27Trunc(err.Error())})
			}
		}
		return false
	}
	a3h, _ := syntax.Parse(syntaxutil.RegexpString(a2), regexpFlags)
	diffs, nsub, _ := vfC27Hunt(r, p, a0, a1, a2, a3h, maxLen, extra)
	for _, d := range diffs {
		vfOracleFail(d.what, d.what+": "+vfC27Trunc(d.detail), map[string]any{"pattern": p, "subject": d.subject, "subject_runes": []rune(d.subject),
			"printed": vfC27Trunc(printed), "optimised_printed": vfC27Trunc(syntaxutil.RegexpString(a2)), "detail": vfC27Trunc(d.detail)})
	}
	// engine samples for the model's semantics: leftmost-longest match of the ORIGINAL pattern (Go engine) on 4 subjects
	alpha := vfC27Alphabet(r, a0)
	var samples []string
	eng, err := regexp.Compile("(?m)" + p)
	if err == nil {
		eng.Longest()
		for k := 0; k < 3; k++ {
			n := r.Intn(7)
			t := make([]rune, n)
			for i := range t {
				t[i] = alpha[r.Intn(len(alpha))]
			}
			s := string(t)
			loc := eng.FindStringIndex(s)
			res := "None"
			if loc != nil {
				res = fmt.Sprintf("(Some (%d%%nat,%d%%nat))", vfC27RuneIdx(s, loc[0]), vfC27RuneIdx(s, loc[1]))
			}
			samples = append(samples, "("+vfC27Runes(t)+", "+res+")")
		}
	}
	ss := "[]"
	if len(samples) > 0 {
		ss = "[" + strings.Join(samples, "; ") + "]"
	}
	// equal ASTs are shared through a let (Coq's front end is slow on large literal terms)
	a3, err3 := syntax.Parse(syntaxutil.RegexpString(a2), regexpFlags)
	if err3 != nil {
		vfOracleFail("optimised-printed-form-does-not-parse", "RegexpString(OptimizeRegexp(Parse(p))) is rejected by Parse: "+vfC27Trunc(err3.Error()), map[string]any{"pattern": p})
		return false
	}
	c0, c1, c2, c3 := vfC27Coq(a0), vfC27Coq(a1), vfC27Coq(a2), vfC27Coq(a3)
	if c3 == c2 {
		c3 = "a2"
	} else if c3 == c0 {
		c3 = "a0"
	} else if c3 == c1 {
		c3 = "a1"
	}
	if c1 == c0 {
		c1 = "a0"
	}
	if c2 == c0 {
		c2 = "a0"
	} else if c2 == c1 {
		c2 = "a1"
	}
	coq := "(let a0 := " + c0 + " in\n let a1 := " + c1 + " in\n let a2 := " + c2 + " in\n (a0, a1, a2, " + c3 + ",\n " + ss + "))"
	cls := vfC27Class(a0)
	nontrivial := len(cls) >= 3 || !a0.Equal(a2)
	vfCase(coq, p, nontrivial, cls, map[string]any{"pattern": p, "printed": vfC27Trunc(printed), "optimised": vfC27Trunc(syntaxutil.RegexpString(a2)), "subjects_enumerated": nsub, "hunt": hunting})
	return true
}

func TestVerifC27(t *testing.T) {
	r := vfNewRand(vfSeed())
	// hunt mode: the check passes the patterns the checker could not certify; enumerate more subjects
	if hp := os.Getenv("VERIF_C27_HUNT"); hp != "" {
		b, err := os.ReadFile(hp)
		if err != nil {
			t.Fatal(err)
		}
		for _, p := range strings.Split(string(b), "\x00") {
			if p != "" || true {
				vfC27One(r, p, 4, 400, true)
			}
		}
		return
	}
	if rp := vfReplay(); rp != nil {
		if inner, ok := rp["replay"].(map[string]any); ok {
			if p, ok := inner["pattern"].(string); ok {
				vfC27One(r, p, 4, 400, true)
				return
			}
		}
	}
	n := vfN(1500)
	fixed := []string{`a`, `(a)`, `(a|b)c`, `x|(ab|cd)`, `(ab)*`, `a{2,3}`, `(a{2,}){2}`, `(?i)k`, `[Aa]`, `A|a`, `z(?:abc|abd)`, `a|ab`, `(?i)σ`, `[^a]|a`,
		`\bfoo\b`, `^a$`, `(?-m)^a$`, `(?s).`, `.`, `[^\n]`, `(?U)a+`, `a+?`, `()`, `(|a)`, `a**`, `(?:a+)?`, `(?:(?:a){0}){3}`, `(a*)+`, `[[:^alpha:]]`, `\pN+`, `\x{10ffff}`, `\Q+|*\E`, `(?i)İ`, `(?i)[k-l]`, `(?i)ǆ`, `-`, `[a\-z]`, `[\^]`, `\^`,
		// one literal per metacharacter, placed where the unescaped form would parse differently
		`a\{2\}`, `foo\{3\}`, `\d\{3\}`, `x\{1,2\}`, `(ab)\{2\}`, `a\{2,\}`, `a\*`, `a\+b`, `a\?`, `a\|b`, `\(a\)`, `\(a\|b\)\*`, `\[a\]`, `\[a-c\]+`, `\^a`, `a\$`, `a\.b`, `\\d`, `\\ba`, `[\]a]`, `[\^a]`, `[\\d]`, `\Qa{2}\E`, `\Q(a|b)*\E`}
	done := 0
	seen := map[string]bool{}
	for _, p := range fixed {
		if done < n && !seen[p] && vfC27One(r, p, 3, 20, false) {
			seen[p] = true
			done++
		}
	}
	for _, p := range []string{`a{2,1000}`, `(?:ab){0,600}`, `.{0,501}x`, `[a-c]{1,400}`, `a{1000}`, `(a{2,300}){2,3}`} {
		vfC27One(r, p, 3, 20, false) // large counted repetitions: the optimised form nests deeply
	}
	tries := 0
	for done < n && tries < 50*n {
		tries++
		p := vfC27Gen(r, 1+r.Intn(4))
		if r.Chance(15) {
			p = r.Pick([]string{"(?i)", "(?i)", "(?U)", "(?is)", "(?i-m)"}) + p // whole-pattern flags: folded literals/classes, lazy repeats
		}
		if len(p) > 120 || seen[p] {
			continue
		}
		seen[p] = true
		if vfC27One(r, p, 3, 20, false) {
			done++
		}
	}
	vfInfo(map[string]any{"generated": tries, "accepted_by_parse": done})
}
