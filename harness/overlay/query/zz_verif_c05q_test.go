package query

// C05, package-internal part: evalConstants, one round of flatten (with its `changed` flag) and
// stripCaseScopes (parse.go) on generated trees that also contain the parse-time kinds caseQ and
// caseScopeQ.  Observable = output tree as a Coq term of Model/Query.v's Q.  Oracle = evaluation of
// original and rewritten tree under random valuations of the atoms (an atom is a boolean variable;
// the three laws the rewrites rely on are built in: empty substring pattern, OpEmptyMatch regexp
// and empty non-exact branch pattern are true; sets/bitmaps are disjunctions over their elements).

import (
	"fmt"
	"hash/fnv"
	"math"
	"os"
	"regexp/syntax"
	"strings"
	"testing"
	"time"

	"github.com/RoaringBitmap/roaring/v2"
	"github.com/grafana/regexp"
)

var (
	vfC05qPatterns = []string{"", "a", "foo", "Foo", "bar"}
	vfC05qRegexps  = []string{"", "a", "fo+", "(?i)foo", "a|b", "()", "(?:)", "x*"}
	vfC05qNames    = []string{"foo", "bar", "", "x/y"}
)

func vfC05qSyntax(p string) *syntax.Regexp {
	re, err := syntax.Parse(p, syntax.Perl)
	if err != nil {
		panic(err)
	}
	return re
}

func vfC05qBitmap(r *vfRand) *roaring.Bitmap {
	bm := roaring.New()
	for i, n := 0, r.Intn(3); i < n; i++ {
		bm.Add(uint32(1 + r.Intn(5)))
	}
	return bm
}

func vfC05qAtom(r *vfRand) Q {
	switch r.Intn(18) {
	case 0, 1:
		return &Const{Value: r.Bool()}
	case 2, 3:
		return &Substring{Pattern: r.Pick(vfC05qPatterns), CaseSensitive: r.Bool(), FileName: r.Chance(35), Content: r.Chance(35)}
	case 4, 5:
		return &Regexp{Regexp: vfC05qSyntax(r.Pick(vfC05qRegexps)), CaseSensitive: r.Bool(), FileName: r.Chance(35), Content: r.Chance(35)}
	case 6:
		inner := Q(&Substring{Pattern: r.Pick(vfC05qPatterns)})
		if r.Chance(30) {
			inner = &caseScopeQ{Child: inner} // a scope below Symbol is NOT stripped (Symbol is not descended)
		}
		return &Symbol{Expr: inner}
	case 7:
		return &Language{Language: r.Pick([]string{"Go", "C", ""})}
	case 8:
		return &Repo{Regexp: regexp.MustCompile(r.Pick([]string{"foo", "", "^x"}))}
	case 9:
		return &RepoRegexp{Regexp: regexp.MustCompile(r.Pick([]string{"foo", "", "^x"}))}
	case 10:
		br := &BranchesRepos{}
		for i, n := 0, r.Intn(3); i < n; i++ {
			br.List = append(br.List, BranchRepos{Branch: r.Pick([]string{"HEAD", "main", ""}), Repos: vfC05qBitmap(r)})
		}
		return br
	case 11:
		return &RepoIDs{Repos: vfC05qBitmap(r)}
	case 12:
		rs := &RepoSet{Set: map[string]bool{}}
		for i, n := 0, r.Intn(3); i < n; i++ {
			rs.Set[r.Pick(vfC05qNames)] = !r.Chance(12)
		}
		return rs
	case 13:
		fs := &FileNameSet{Set: map[string]struct{}{}}
		for i, n := 0, r.Intn(3); i < n; i++ {
			fs.Set[r.Pick(vfC05qNames)] = struct{}{}
		}
		return fs
	case 14:
		return &Branch{Pattern: r.Pick([]string{"", "HEAD", "main"}), Exact: r.Chance(40)}
	case 15:
		return &Meta{Field: r.Pick([]string{"k", "team"}), Value: regexp.MustCompile(r.Pick([]string{"foo", ""}))}
	case 16:
		return RawConfig(r.Intn(64) | (r.Intn(2) << 8))
	default:
		return &caseQ{Flavor: r.Pick([]string{"yes", "no", "auto"})}
	}
}

// every float64 bit pattern can arrive as a Boost weight (proto double): ordinary weights plus NaN (two payloads),
// +-Inf, +-0, negative, huge, denormal; trees are compared by their Coq rendering (float bits), never by ==
var vfC05qBoostWeights = []float64{0.5, 1, 2, 0.5, 1, 2, 1.5, 20,
	math.NaN(), math.Float64frombits(0xfff8000000000000), math.Inf(1), math.Inf(-1), 0, math.Copysign(0, -1), -1, math.MaxFloat64, 5e-324}

func vfC05qTree(r *vfRand, depth int) Q {
	if depth <= 0 || r.Chance(25) {
		return vfC05qAtom(r)
	}
	switch r.Intn(12) {
	case 0, 1, 2:
		return &And{Children: vfC05qChildren(r, depth)}
	case 3, 4, 5:
		return &Or{Children: vfC05qChildren(r, depth)}
	case 6, 7:
		return &Not{Child: vfC05qTree(r, depth-1)}
	case 8:
		return &Type{Type: uint8(r.Intn(3)), Child: vfC05qTree(r, depth-1)}
	case 9:
		return &Boost{Boost: vfC05qBoostWeights[r.Intn(len(vfC05qBoostWeights))], Child: vfC05qTree(r, depth-1)}
	default:
		return &caseScopeQ{Child: vfC05qTree(r, depth-1)}
	}
}

func vfC05qChildren(r *vfRand, depth int) []Q {
	n := r.Intn(4)
	if r.Chance(15) {
		n = 1
	}
	if n == 0 && r.Bool() {
		return nil
	}
	cs := make([]Q, 0, n)
	for i := 0; i < n; i++ {
		cs = append(cs, vfC05qTree(r, depth-1))
	}
	return cs
}

func vfC05qList(qs []Q) string {
	if len(qs) == 0 {
		return "[]"
	}
	ss := make([]string, len(qs))
	for i, q := range qs {
		ss[i] = vfC05qCoq(q)
	}
	return cList(ss)
}

func vfC05qIds(bm *roaring.Bitmap) string {
	var ids []uint64
	if bm != nil {
		for _, x := range bm.ToArray() {
			ids = append(ids, uint64(x))
		}
	}
	return cNList(ids)
}

func vfC05qCoq(q Q) string {
	switch s := q.(type) {
	case *Const:
		return cApp("QConst", cBool(s.Value))
	case *Substring:
		return cApp("QSubstring", cStr(s.Pattern), cBool(s.CaseSensitive), cBool(s.FileName), cBool(s.Content))
	case *Regexp:
		return cApp("QRegexp", "{| rx_src := "+cStr(s.Regexp.String())+"; rx_op := "+cN(uint64(s.Regexp.Op))+" |}",
			cBool(s.CaseSensitive), cBool(s.FileName), cBool(s.Content))
	case *Symbol:
		return cApp("QSymbol", vfC05qCoq(s.Expr))
	case *caseQ:
		return cApp("QCase", cStr(s.Flavor))
	case *caseScopeQ:
		return cApp("QCaseScope", vfC05qCoq(s.Child))
	case *Language:
		return cApp("QLanguage", cStr(s.Language))
	case *Repo:
		return cApp("QRepo", cStr(s.Regexp.String()))
	case *RepoRegexp:
		return cApp("QRepoRegexp", cStr(s.Regexp.String()))
	case *BranchesRepos:
		if len(s.List) == 0 {
			return "(QBranchesRepos [])"
		}
		var l []string
		for _, br := range s.List {
			l = append(l, cPair(cStr(br.Branch), vfC05qIds(br.Repos)))
		}
		return cApp("QBranchesRepos", cList(l))
	case *RepoIDs:
		return cApp("QRepoIDs", vfC05qIds(s.Repos))
	case *RepoSet:
		if len(s.Set) == 0 {
			return "(QRepoSet [])"
		}
		var l []string
		for _, k := range vfSortedKeys(s.Set) {
			l = append(l, cPair(cStr(k), cBool(s.Set[k])))
		}
		return cApp("QRepoSet", cList(l))
	case *FileNameSet:
		if len(s.Set) == 0 {
			return "(QFileNameSet [])"
		}
		var l []string
		for _, k := range vfSortedKeys(s.Set) {
			l = append(l, cStr(k))
		}
		return cApp("QFileNameSet", cList(l))
	case *Type:
		return cApp("QType", cN(uint64(s.Type)), vfC05qCoq(s.Child))
	case *Boost:
		return cApp("QBoost", cN(math.Float64bits(s.Boost)), vfC05qCoq(s.Child))
	case *Branch:
		return cApp("QBranch", cStr(s.Pattern), cBool(s.Exact))
	case *Meta:
		return cApp("QMeta", cStr(s.Field), cStr(s.Value.String()))
	case RawConfig:
		return cApp("QRawConfig", cN(uint64(s)))
	case *And:
		return cApp("QAnd", vfC05qList(s.Children))
	case *Or:
		return cApp("QOr", vfC05qList(s.Children))
	case *Not:
		return cApp("QNot", vfC05qCoq(s.Child))
	}
	return fmt.Sprintf("(QUNKNOWN_%T)", q)
}

// ---- valuation oracle

func vfC05qVar(seed uint64, parts ...any) bool {
	h := fnv.New64a()
	fmt.Fprint(h, seed, "|", fmt.Sprint(parts...))
	return h.Sum64()>>17&1 == 1
}

func vfC05qSel(f func(name bool) bool, fileName, content bool) bool {
	if fileName == content {
		return f(true) || f(false)
	}
	return f(fileName)
}

func vfC05qEval(q Q, seed uint64) bool {
	switch s := q.(type) {
	case *Const:
		return s.Value
	case *Substring:
		if s.Pattern == "" {
			return true
		}
		return vfC05qSel(func(n bool) bool { return vfC05qVar(seed, "substr", s.Pattern, s.CaseSensitive, n) }, s.FileName, s.Content)
	case *Regexp:
		if s.Regexp.Op == syntax.OpEmptyMatch {
			return true
		}
		return vfC05qSel(func(n bool) bool { return vfC05qVar(seed, "regexp", s.Regexp.String(), s.CaseSensitive, n) }, s.FileName, s.Content)
	case *Branch:
		if s.Pattern == "" && !s.Exact {
			return true
		}
		return vfC05qVar(seed, "branch", s.Pattern, s.Exact)
	case *BranchesRepos:
		for _, br := range s.List {
			if !vfC05qVar(seed, "onbranch", br.Branch) {
				continue
			}
			for _, id := range br.Repos.ToArray() {
				if vfC05qVar(seed, "repoid", id) {
					return true
				}
			}
		}
		return false
	case *RepoIDs:
		for _, id := range s.Repos.ToArray() {
			if vfC05qVar(seed, "repoid", id) {
				return true
			}
		}
		return false
	case *RepoSet:
		for k, v := range s.Set {
			if v && vfC05qVar(seed, "reponame", k) {
				return true
			}
		}
		return false
	case *FileNameSet:
		for k := range s.Set {
			if vfC05qVar(seed, "filename", k) {
				return true
			}
		}
		return false
	case *Type:
		return vfC05qEval(s.Child, seed)
	case *Boost:
		return vfC05qEval(s.Child, seed)
	case *caseScopeQ:
		return vfC05qEval(s.Child, seed)
	case *And:
		for _, c := range s.Children {
			if !vfC05qEval(c, seed) {
				return false
			}
		}
		return true
	case *Or:
		for _, c := range s.Children {
			if vfC05qEval(c, seed) {
				return true
			}
		}
		return false
	case *Not:
		return !vfC05qEval(s.Child, seed)
	case *Symbol:
		return vfC05qVar(seed, "symbol", vfC05qCoq(s.Expr))
	default:
		return vfC05qVar(seed, "atom", vfC05qCoq(q))
	}
}

func vfC05qVerdicts(q Q, seed0 uint64) string {
	var sb strings.Builder
	for k := uint64(0); k < 12; k++ {
		if vfC05qEval(q, seed0+k) {
			sb.WriteByte('1')
		} else {
			sb.WriteByte('0')
		}
	}
	return sb.String()
}

func vfC05qCount(q Q) int {
	n := 1
	switch s := q.(type) {
	case *And:
		for _, c := range s.Children {
			n += vfC05qCount(c)
		}
	case *Or:
		for _, c := range s.Children {
			n += vfC05qCount(c)
		}
	case *Not:
		n += vfC05qCount(s.Child)
	case *Type:
		n += vfC05qCount(s.Child)
	case *Boost:
		n += vfC05qCount(s.Child)
	case *caseScopeQ:
		n += vfC05qCount(s.Child)
	}
	return n
}

func TestVerifC05Q(t *testing.T) {
	r := vfNewRand(vfNewRand(vfSeed() + 7777).U64()) // hashed: consecutive seeds of the shared PRNG are one draw apart
	n := vfN(100)
	type rewrite struct {
		name string
		f    func(Q) (Q, string)
	}
	rewrites := []rewrite{
		{"evalConstants", func(q Q) (Q, string) { o := evalConstants(q); return o, cApp("CEvalConst", vfC05qCoq(q), vfC05qCoq(o)) }},
		{"flatten", func(q Q) (Q, string) {
			o, ch := flatten(q)
			return o, cApp("CFlatten", vfC05qCoq(q), vfC05qCoq(o), cBool(ch))
		}},
		{"stripCaseScopes", func(q Q) (Q, string) { o := stripCaseScopes(q); return o, cApp("CStrip", vfC05qCoq(q), vfC05qCoq(o)) }},
	}
	for i := 0; i < n; i++ {
		q := vfC05qTree(r, 1+r.Intn(4))
		for k := 0; k < 3 && vfC05qCount(q) < 3 && r.Chance(85); k++ {
			q = vfC05qTree(r, 3)
		}
		qCoq := vfC05qCoq(q)
		size := vfC05qCount(q)
		seed0 := r.U64()
		for _, rw := range rewrites {
			before := vfC05qVerdicts(q, seed0)
			wd := time.AfterFunc(90*time.Second, func() { // see vfC05Watchdog in package index
				vfOracleFail(rw.name+":does-not-terminate", rw.name+" did not return within 90 s on "+q.String(),
					map[string]any{"rewrite": rw.name, "query": q.String(), "query_coq": qCoq, "seed": vfSeed(), "n": n, "iteration": i})
				os.Exit(3)
			})
			out, coq := rw.f(q)
			wd.Stop()
			after := vfC05qVerdicts(out, seed0)
			if again := vfC05qCoq(q); again != qCoq {
				vfOracleFail(rw.name+":mutates-input", rw.name+" modified the tree it was given",
					map[string]any{"rewrite": rw.name, "query": q.String(), "before": qCoq, "after": again, "seed": vfSeed(), "n": n, "iteration": i})
			}
			if before != after {
				vfOracleFail(rw.name+":valuation", rw.name+" changes the truth value of the query under some valuation of its atoms: "+q.String()+" => "+out.String(),
					map[string]any{"rewrite": rw.name, "query": q.String(), "query_coq": qCoq, "rewritten": out.String(),
						"valuation_seeds_from": seed0, "verdicts_before": before, "verdicts_after": after, "seed": vfSeed(), "n": n, "iteration": i})
			}
			outCoq := vfC05qCoq(out)
			changed := outCoq != qCoq
			class := []string{rw.name, fmt.Sprintf("%s:changed=%v", rw.name, changed)}
			if strings.Contains(qCoq, "(QBoost 9221120237041090561%N") || strings.Contains(qCoq, "(QBoost 18444492273895866368%N") {
				class = append(class, "boost=nan")
			} else if strings.Contains(qCoq, "(QBoost 9218868437227405312%N") || strings.Contains(qCoq, "(QBoost 18442240474082181120%N") {
				class = append(class, "boost=inf")
			}
			vfCase(coq, vfKey(rw.name, coq), changed && size >= 3, class,
				map[string]any{"rewrite": rw.name, "query": q.String(), "out": out.String()})
		}
	}
}
