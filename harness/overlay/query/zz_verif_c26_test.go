package query

// C26 (FileNameSet and BranchesRepos halves): correspondence + oracle for stringSetEncode/Decode and
// branchesReposEncode/Decode via MarshalBinary / UnmarshalBinary. Mapped into /repo/query by `go test -overlay`.
// Decoding of arbitrary bytes runs in a watchdog'd child process (zz_verif_c26_wd_test.go).

import (
	"encoding/binary"
	"fmt"
	"math"
	"sort"
	"strings"
	"testing"

	"github.com/RoaringBitmap/roaring/v2"
)

func vfC26Decode(codec string, b []byte) (any, error) {
	if codec == "stringset" {
		var q FileNameSet
		if err := (&q).UnmarshalBinary(b); err != nil {
			return nil, err
		}
		return q.Set, nil
	}
	var q BranchesRepos
	if err := (&q).UnmarshalBinary(b); err != nil {
		return nil, err
	}
	return q.List, nil
}

func vfC26Term(codec string, val any) string {
	if codec == "stringset" {
		return vfC26SetTerm(val.(map[string]struct{}))
	}
	return vfC26BRTerm(val.([]BranchRepos))
}

func vfC26SetTerm(set map[string]struct{}) string {
	ks := make([]string, 0, len(set))
	for k := range set {
		ks = append(ks, k)
	}
	sort.Strings(ks)
	if len(ks) == 0 {
		return "(VSet (@nil bytes))"
	}
	ts := make([]string, len(ks))
	for i, k := range ks {
		ts[i] = cStr(k)
	}
	return "(VSet " + cList(ts) + ")"
}

// vfC26Elems: the elements of a bitmap (opaque to the model, which only passes them through); large
// bitmaps are summarised as [2^40; cardinality; min; max; checksum].
func vfC26Elems(bm *roaring.Bitmap) string {
	if bm.GetCardinality() > 64 {
		var h uint64 = 1469598103934665603
		it := bm.Iterator()
		for it.HasNext() {
			h = (h ^ uint64(it.Next())) * 1099511628211
		}
		return cNList([]uint64{1 << 40, bm.GetCardinality(), uint64(bm.Minimum()), uint64(bm.Maximum()), h >> 16})
	}
	arr := bm.ToArray()
	xs := make([]uint64, len(arr))
	for i, a := range arr {
		xs[i] = uint64(a)
	}
	return cNList(xs)
}

func vfC26BRTerm(l []BranchRepos) string {
	if len(l) == 0 {
		return "(VBR (@nil (bytes * list N)))"
	}
	ts := make([]string, len(l))
	for i, br := range l {
		ts[i] = cTuple(cStr(br.Branch), vfC26Elems(br.Repos))
	}
	return "(VBR " + cList(ts) + ")"
}

// vfC26Table: independent walk over the BranchesRepos framing; every embedded blob is given to the real
// roaring FromBuffer and the result recorded (the model takes FromBuffer as a parameter).
func vfC26Table(codec string, b []byte) (out string) {
	if codec != "branchesrepos" {
		return "[]"
	}
	var rows []string
	defer func() {
		if r := recover(); r != nil {
			rows = append(rows, "(* roaring panicked: "+strings.ReplaceAll(fmt.Sprint(r), "*", "")+" *)")
		}
		if len(rows) == 0 {
			out = "[]"
		} else {
			out = cList(rows)
		}
	}()
	if len(b) < 1 {
		return
	}
	rest := b[1:]
	uv := func() (uint64, bool) {
		x, n := binary.Uvarint(rest)
		if n <= 0 {
			return 0, false
		}
		rest = rest[n:]
		return x, true
	}
	cnt, ok := uv()
	if !ok {
		return
	}
	seen := map[string]bool{}
	for i := uint64(0); i < cnt && i < uint64(len(b)); i++ {
		for k := 0; k < 2; k++ {
			l, ok := uv()
			if !ok || l > uint64(len(rest)) {
				return
			}
			blob := rest[:l]
			rest = rest[l:]
			if k == 1 && !seen[string(blob)] {
				seen[string(blob)] = true
				bm := roaring.New()
				cp := append([]byte(nil), blob...)
				if _, err := bm.FromBuffer(cp); err != nil {
					rows = append(rows, cTuple(cBytes(blob), "None"))
				} else {
					rows = append(rows, cTuple(cBytes(blob), cSome(vfC26Elems(bm))))
				}
			}
		}
	}
	return
}

var vfC26Names = []string{"", "HEAD", "main", "dev", "é", "release/1.2", "a", "\x00\xff", strings.Repeat("v", 130), "cmd/zoekt/main.go", "README.md"}

func vfC26GenSet(r *vfRand) map[string]struct{} {
	if r.Chance(8) {
		return nil
	}
	n := r.Intn(7)
	if r.Chance(5) {
		n = 130 + r.Intn(10) // count needs a two-byte varint
	}
	set := map[string]struct{}{}
	for i := 0; i < n; i++ {
		if r.Chance(60) {
			set[r.Pick(vfC26Names)] = struct{}{}
		} else {
			set[fmt.Sprintf("%s/%d", r.Pick(vfC26Names), r.Intn(1000))] = struct{}{}
		}
	}
	return set
}

func vfC26GenBitmap(r *vfRand) *roaring.Bitmap {
	bm := roaring.New()
	switch r.Intn(8) {
	case 0: // empty
	case 1, 2, 3:
		for k := r.Intn(6); k >= 0; k-- {
			bm.Add(uint32(r.Intn(1000)))
		}
	case 4:
		for k := r.Intn(5); k >= 0; k-- {
			bm.Add(uint32(r.U64()))
		}
	case 5:
		lo := uint64(r.Intn(100000))
		bm.AddRange(lo, lo+uint64(1+r.Intn(300)))
		bm.RunOptimize()
	case 6:
		bm.Add(math.MaxUint32)
		bm.Add(0)
	default:
		if r.Chance(15) { // bitmap container (8 KiB blob)
			for x := uint32(0); x < 9000; x += 2 {
				bm.Add(x)
			}
		} else {
			bm.AddRange(65530, 65545)
		}
	}
	return bm
}

func vfC26GenBR(r *vfRand) []BranchRepos {
	n := r.Intn(5)
	var l []BranchRepos
	for i := 0; i < n; i++ {
		l = append(l, BranchRepos{Branch: r.Pick(vfC26Names), Repos: vfC26GenBitmap(r)})
	}
	return l
}

// vfC26Safe runs an encoder under recover(): a panic inside MarshalBinary is an observation (oracle failure with the
// value), not the end of the harness.
func vfC26Safe(f func() ([]byte, error)) (enc []byte, err error, pan string) {
	defer func() {
		if x := recover(); x != nil {
			pan = fmt.Sprint(x)
		}
	}()
	enc, err = f()
	return
}

func vfC26Abbr(s string) any {
	if len(s) <= 64 {
		return s
	}
	return map[string]any{"len": len(s), "prefix": s[:16]}
}

func vfC26SetReplay(set map[string]struct{}) map[string]any {
	ks := vfSortedKeys(set)
	var out []any
	for i, k := range ks {
		if i >= 40 {
			break
		}
		out = append(out, vfC26Abbr(k))
	}
	return map[string]any{"codec": "FileNameSet.MarshalBinary (stringSetEncode)", "nil_set": set == nil, "n_keys": len(ks), "keys": out}
}

func vfC26BRReplay(l []BranchRepos) map[string]any {
	var out []any
	for i, br := range l {
		if i >= 40 {
			break
		}
		e := map[string]any{"Branch": vfC26Abbr(br.Branch)}
		if br.Repos != nil {
			e["cardinality"] = br.Repos.GetCardinality()
			e["serialized_size"] = br.Repos.GetSerializedSizeInBytes()
			if br.Repos.GetCardinality() <= 16 {
				e["repos"] = br.Repos.ToArray()
			}
		}
		out = append(out, e)
	}
	return map[string]any{"codec": "BranchesRepos.MarshalBinary (branchesReposEncode)", "n": len(l), "list": out}
}

// directed values, part of every run: key / branch-name lengths and element counts crossing the 1- and 2-byte varint
// boundaries; bitmap blobs whose serialized size crosses 127/128 (array container: 16 + 2*cardinality bytes).
func vfC26DirectedSets() []map[string]struct{} {
	var out []map[string]struct{}
	for _, l := range []int{127, 128, 16383, 16384} {
		out = append(out, map[string]struct{}{strings.Repeat("k", l): {}, "x": {}})
	}
	for _, n := range []int{127, 128, 129, 16383, 16384} {
		set := map[string]struct{}{}
		for j := 0; j < n; j++ {
			set[fmt.Sprintf("f%d", j)] = struct{}{}
		}
		out = append(out, set)
	}
	out = append(out, nil, map[string]struct{}{}, map[string]struct{}{"": {}})
	return out
}

func vfC26DirectedBRs() [][]BranchRepos {
	bmN := func(k int) *roaring.Bitmap {
		bm := roaring.New()
		for j := 0; j < k; j++ {
			bm.Add(uint32(j * 3))
		}
		return bm
	}
	var out [][]BranchRepos
	for _, l := range []int{127, 128, 16383, 16384} {
		out = append(out, []BranchRepos{{Branch: strings.Repeat("b", l), Repos: bmN(2)}})
	}
	for _, k := range []int{0, 55, 56, 57} { // serialized size 126 / 128 / 130
		out = append(out, []BranchRepos{{Branch: "HEAD", Repos: bmN(k)}})
	}
	for _, n := range []int{127, 128, 129} {
		var l []BranchRepos
		for j := 0; j < n; j++ {
			l = append(l, BranchRepos{Branch: fmt.Sprintf("r%d", j), Repos: bmN(j % 3)})
		}
		out = append(out, l)
	}
	out = append(out, nil, []BranchRepos{})
	return out
}

func vfC26RefEncodeSet(keys []string, countOverride int64) []byte {
	out := []byte{1}
	if countOverride >= 0 {
		out = binary.AppendUvarint(out, uint64(countOverride))
	} else {
		out = binary.AppendUvarint(out, uint64(len(keys)))
	}
	for _, k := range keys {
		out = binary.AppendUvarint(out, uint64(len(k)))
		out = append(out, k...)
	}
	return out
}

func vfC26Mutate(r *vfRand, b []byte) []byte {
	b = append([]byte(nil), b...)
	big := []uint64{math.MaxInt64, math.MaxUint64, 1 << 40, 1 << 32, 1 << 31, 1 << 63, uint64(len(b)), uint64(len(b)) + 1, 70000, 300}
	switch r.Intn(8) {
	case 0: // flip a byte
		if len(b) > 0 {
			b[r.Intn(len(b))] ^= byte(1 << r.Intn(8))
		}
	case 1: // truncate
		if len(b) > 0 {
			b = b[:r.Intn(len(b))]
		}
	case 2: // overwrite a byte with a varint-significant value
		if len(b) > 0 {
			b[r.Intn(len(b))] = []byte{0x80, 0xff, 0x7f, 0x00, 0x01}[r.Intn(5)]
		}
	case 3, 4: // splice a big varint somewhere (often right after the version byte: the count)
		pos := 1
		if r.Chance(50) && len(b) > 0 {
			pos = r.Intn(len(b) + 1)
		}
		if pos > len(b) {
			pos = len(b)
		}
		v := binary.AppendUvarint(nil, big[r.Intn(len(big))])
		drop := 0
		if r.Bool() && pos < len(b) {
			drop = 1
		}
		b = append(append(append([]byte(nil), b[:pos]...), v...), b[pos+drop:]...)
	case 5: // append junk
		for k := r.Intn(4) + 1; k > 0; k-- {
			b = append(b, byte(r.U64()))
		}
	case 6: // duplicate a tail segment
		if len(b) > 3 {
			p := 1 + r.Intn(len(b)-1)
			b = append(b, b[p:]...)
		}
	default: // overlong varint 0x80.. padding
		pos := r.Intn(len(b) + 1)
		pad := []byte{0x80, 0x80, 0x00}
		b = append(append(append([]byte(nil), b[:pos]...), pad...), b[pos:]...)
	}
	return b
}


func vfC26Hostile() [][]byte {
	uv := func(x uint64) []byte { return binary.AppendUvarint(nil, x) }
	cat := func(xs ...[]byte) []byte {
		var o []byte
		for _, x := range xs {
			o = append(o, x...)
		}
		return o
	}
	v := []byte{1}
	return [][]byte{
		cat(v, uv(math.MaxInt64)),                            // the 10-byte input of DESIGN §6: count 2^63-1
		cat(v, uv(1<<40)),                                    // count 2^40, nothing behind it
		cat(v, uv(1<<31), []byte{1, 'a'}),
		cat(v, uv(math.MaxUint64)),                           // count -1
		cat(v, uv(1<<63)),                                    // count MinInt
		cat(v, uv(1), uv(math.MaxUint64), []byte("ab")),      // string length -1
		cat(v, uv(1), uv(1<<63), []byte("ab")),               // string length MinInt
		cat(v, uv(1), uv(3), []byte("ab")),                   // string longer than the rest
		cat(v, uv(2), uv(1), []byte("a"), uv(math.MaxUint64)), // second length -1 (for BranchesRepos: blob length)
		cat(v, uv(1), uv(1), []byte("a"), uv(1<<62)),
		cat(v, uv(3)),                                        // truncated after the count
		cat(v, []byte{0x80}),                                 // truncated varint
		cat(v, []byte{0xff, 0xff, 0xff, 0xff, 0xff, 0xff, 0xff, 0xff, 0xff, 0x7f}), // overflowing varint
		v,
		nil,
	}
}

type vfC26Pending struct {
	codec  string
	kind   int
	in     []byte
	class  string
	expSet map[string]struct{}
	expBR  []BranchRepos
	hasExp bool
}

func vfC26EqSet(a, b map[string]struct{}) bool {
	if len(a) != len(b) {
		return false
	}
	for k := range a {
		if _, ok := b[k]; !ok {
			return false
		}
	}
	return true
}

func vfC26EqBR(a, b []BranchRepos) bool {
	if len(a) != len(b) {
		return false
	}
	for i := range a {
		if a[i].Branch != b[i].Branch || a[i].Repos == nil || b[i].Repos == nil || !a[i].Repos.Equals(b[i].Repos) {
			return false
		}
	}
	return true
}

func TestVerifC26(t *testing.T) {
	r := vfNewRand(vfSeed() + 7)
	n := vfN(300)
	var ps []vfC26Pending
	addGarbage := func(codec string, kind int, base []byte) {
		for k := 0; k < 2; k++ {
			mu := vfC26Mutate(r, base)
			if r.Chance(25) {
				mu = vfC26Mutate(r, mu)
			}
			ps = append(ps, vfC26Pending{codec: codec, kind: kind, in: mu, class: "mutated"})
		}
		if r.Chance(20) {
			l := r.Intn(12)
			b := make([]byte, l)
			for k := range b {
				b[k] = byte(r.U64())
			}
			if l > 0 && r.Chance(70) {
				b[0] = 1
			}
			ps = append(ps, vfC26Pending{codec: codec, kind: kind, in: b, class: "random"})
		}
	}
	dSets, dBRs := vfC26DirectedSets(), vfC26DirectedBRs()
	nd := len(dSets)
	if len(dBRs) > nd {
		nd = len(dBRs)
	}
	encPanics := 0
	for i := 0; i < nd+n; i++ {
		// ---- FileNameSet
		var set map[string]struct{}
		cls := "valid"
		haveSet := true
		if i < nd {
			cls = "directed"
			if i < len(dSets) {
				set = dSets[i]
			} else {
				haveSet = false
			}
		} else {
			set = vfC26GenSet(r)
		}
		if haveSet {
			fs := FileNameSet{Set: set}
			enc, err, pan := vfC26Safe((&fs).MarshalBinary)
			if pan != "" {
				encPanics++
				if encPanics <= 12 {
					rp := vfC26SetReplay(set)
					rp["panic"] = pan
					vfOracleFail("stringset:encode:panic", "FileNameSet.MarshalBinary panics on a valid value: "+pan, rp)
				}
				ref := vfC26RefEncodeSet(vfSortedKeys(set), -1)
				if len(ref) <= 2500 { // kind 20: the model's checked encoder (generated capacity) must panic too
					vfCase(cTuple(cN(20), "(@nil N)", "[]", cSome(vfC26SetTerm(set))), fmt.Sprintf("20:%x", ref), true, []string{"stringset/encode-panic"},
						map[string]any{"codec": "stringset", "value": vfC26SetReplay(set), "class": "encode-panic"})
				}
				ps = append(ps, vfC26Pending{codec: "stringset", kind: 0, in: ref, class: "ref", expSet: set, hasExp: true})
				addGarbage("stringset", 0, ref)
			} else if err != nil {
				rp := vfC26SetReplay(set)
				rp["err"] = err.Error()
				vfOracleFail("stringset:encode-error", "MarshalBinary returned an error", rp)
			} else {
				ps = append(ps, vfC26Pending{codec: "stringset", kind: 10, in: enc, class: cls, expSet: set, hasExp: true})
				addGarbage("stringset", 0, enc)
				if r.Chance(30) { // duplicates and boundary counts from the reference encoder
					ks := vfSortedKeys(set)
					ks = append(ks, ks...)
					ps = append(ps, vfC26Pending{codec: "stringset", kind: 0, in: vfC26RefEncodeSet(ks, -1), class: "valid-dup", expSet: set, hasExp: true})
					body := vfC26RefEncodeSet(ks, -1)
					ps = append(ps, vfC26Pending{codec: "stringset", kind: 0, in: vfC26RefEncodeSet(ks, int64(len(body)-2+r.Intn(3)-1)), class: "count-boundary"})
				}
			}
		}
		// ---- BranchesRepos
		var l []BranchRepos
		if i < nd {
			if i >= len(dBRs) {
				continue
			}
			l = dBRs[i]
		} else {
			l = vfC26GenBR(r)
		}
		br := BranchesRepos{List: l}
		enc, err, pan := vfC26Safe(br.MarshalBinary)
		if pan != "" {
			encPanics++
			if encPanics <= 12 {
				rp := vfC26BRReplay(l)
				rp["panic"] = pan
				vfOracleFail("branchesrepos:encode:panic", "BranchesRepos.MarshalBinary panics on a valid value: "+pan, rp)
			}
		} else if err != nil {
			rp := vfC26BRReplay(l)
			rp["err"] = err.Error()
			vfOracleFail("branchesrepos:encode-error", "MarshalBinary returned an error", rp)
		} else {
			ps = append(ps, vfC26Pending{codec: "branchesrepos", kind: 12, in: enc, class: cls, expBR: l, hasExp: true})
			if len(enc) < 400 {
				addGarbage("branchesrepos", 2, enc)
			}
		}
	}
	for _, h := range vfC26Hostile() {
		ps = append(ps, vfC26Pending{codec: "stringset", kind: 0, in: h, class: "hostile"})
		ps = append(ps, vfC26Pending{codec: "branchesrepos", kind: 2, in: h, class: "hostile"})
	}
	for x := 0; x < 256; x++ {
		for _, c := range []string{"stringset", "branchesrepos"} {
			kind := 0
			if c == "branchesrepos" {
				kind = 2
			}
			ps = append(ps, vfC26Pending{codec: c, kind: kind, in: []byte{byte(x)}, class: "short"})
			if x%8 == int(vfSeed()%8) || vfTier() == "thorough" {
				ps = append(ps, vfC26Pending{codec: c, kind: kind, in: []byte{1, byte(x)}, class: "short"})
				ps = append(ps, vfC26Pending{codec: c, kind: kind, in: []byte{1, byte(x), byte(r.U64())}, class: "short"})
			}
		}
	}

	ins := make([]vfWDInput, len(ps))
	for i, p := range ps {
		ins[i] = vfWDInput{Codec: p.codec, B: p.in}
	}
	res := vfWDRun(t, ins)
	seen := map[string]bool{}
	classes := map[string]int{}
	for i, p := range ps {
		rs := res[i]
		fn := map[string]string{"stringset": "FileNameSet.UnmarshalBinary (stringSetDecode)", "branchesrepos": "BranchesRepos.UnmarshalBinary (branchesReposDecode)"}[p.codec]
		replay := map[string]any{"codec": fn, "input_hex": fmt.Sprintf("%x", p.in), "class": rs.Class, "msg": rs.Msg, "alloc": rs.Alloc}
		switch rs.Class {
		case "unconfirmed-hang":
			vfWDUnconfirmed(fn, p.in, rs.Msg)
			classes[p.codec+"/"+p.class+"/unconfirmed-hang"]++
			continue
		case "hang":
			vfOracleFail(p.codec+":decode-hang", fn+" does not return within the deadline on a "+fmt.Sprint(len(p.in))+"-byte input (loop driven by a count read from the input)", replay)
			continue
		case "panic":
			vfOracleFail(p.codec+":decode-panic", fn+" panics: "+vfC26PanicKind(rs.Msg), replay)
			continue
		case "crash":
			vfOracleFail(p.codec+":decode-crash", fn+" kills the process: "+rs.Msg, replay)
			continue
		}
		if rs.Alloc > 512*uint64(len(p.in))+32768 {
			vfOracleFail(p.codec+":decode-alloc", fmt.Sprintf("%s allocates %d bytes for a %d-byte input", fn, rs.Alloc, len(p.in)), replay)
		}
		if p.hasExp { // round trip: the property itself, checked in-process (the input is a valid encoding)
			val, err := vfC26Decode(p.codec, p.in)
			good := err == nil
			if good && p.codec == "stringset" {
				good = vfC26EqSet(p.expSet, val.(map[string]struct{}))
			} else if good {
				good = vfC26EqBR(p.expBR, val.([]BranchRepos))
			}
			if !good {
				vfOracleFail(p.codec+":roundtrip:"+p.class, "decode(encode(v)) differs from v", map[string]any{"codec": fn, "input_hex": fmt.Sprintf("%x", p.in), "err": fmt.Sprint(err)})
			}
		}
		obs := "None"
		if rs.Class == "ok" {
			obs = cSome(rs.Out)
		}
		key := fmt.Sprintf("%d:%x", p.kind, p.in)
		if len(p.in) > 2500 { // bitmap-container blobs: Go-side oracle only (the Coq term would be ~100 kB)
			classes[p.codec+"/"+p.class+"/oracle-only"]++
			continue
		}
		if seen[key] {
			continue
		}
		seen[key] = true
		classes[p.codec+"/"+p.class+"/"+rs.Class]++
		tbl := rs.Tbl
		if tbl == "" {
			tbl = "[]"
		}
		coq := cTuple(cN(uint64(p.kind)), cBytes(p.in), tbl, obs)
		hex := fmt.Sprintf("%x", p.in)
		if len(hex) > 200 {
			hex = hex[:200] + "..."
		}
		vfCase(coq, key, len(p.in) > 3, []string{p.codec + "/" + p.class + "/" + rs.Class}, map[string]any{"codec": p.codec, "input_hex": hex, "class": rs.Class})
	}
	vfInfo(map[string]any{"query_classes": classes, "query_directed_values": len(dSets) + len(dBRs), "query_encode_panics": encPanics})
}

func vfC26PanicKind(msg string) string {
	for _, k := range []string{"slice bounds out of range", "makeslice", "index out of range", "nil pointer"} {
		if strings.Contains(msg, k) {
			return k
		}
	}
	return msg
}
