package zoekt

// C26 (ReposMap half): correspondence + oracle for reposMapEncode / reposMapDecode via
// ReposMap.MarshalBinary / UnmarshalBinary. Mapped into /repo (package zoekt) by `go test -overlay`.
// Decoding of arbitrary bytes runs in a watchdog'd child process (zz_verif_c26_wd_test.go).

import (
	"encoding/binary"
	"fmt"
	"math"
	"sort"
	"strings"
	"testing"
)

func vfC26Decode(codec string, b []byte) (any, error) {
	var m ReposMap
	err := (&m).UnmarshalBinary(b)
	if err != nil {
		return nil, err
	}
	return m, nil
}

func vfC26Table(codec string, b []byte) string { return "[]" }

func vfC26Term(codec string, val any) string { return vfC26ReposTerm(val.(ReposMap)) }

func vfC26ReposTerm(m ReposMap) string {
	if m == nil {
		return "(VRepos None)"
	}
	ids := make([]uint32, 0, len(m))
	for id := range m {
		ids = append(ids, id)
	}
	sort.Slice(ids, func(i, j int) bool { return ids[i] < ids[j] })
	var es []string
	for _, id := range ids {
		e := m[id]
		var bs []string
		for _, b := range e.Branches {
			bs = append(bs, cTuple(cStr(b.Name), cStr(b.Version)))
		}
		bl := "(@nil branch)"
		if len(bs) > 0 {
			bl = cList(bs)
		}
		es = append(es, cTuple(cN(uint64(id)), cTuple(cBool(e.HasSymbols), cZ(e.IndexTimeUnix), bl)))
	}
	l := "(@nil (N * rentry))"
	if len(es) > 0 {
		l = cList(es)
	}
	return "(VRepos (Some " + l + "))"
}

type vfC26Entry struct {
	ID uint32
	E  MinimalRepoListEntry
}

// reference encoder (independent of the code under test); version 1 omits IndexTimeUnix
func vfC26RefEncode(version byte, es []vfC26Entry, countOverride, ablOverride int64) []byte {
	var out []byte
	uv := func(x uint64) { out = binary.AppendUvarint(out, x) }
	str := func(s string) { uv(uint64(len(s))); out = append(out, s...) }
	out = append(out, version)
	if countOverride >= 0 {
		uv(uint64(countOverride))
	} else {
		uv(uint64(len(es)))
	}
	abl := 0
	for _, e := range es {
		abl += len(e.E.Branches)
	}
	if ablOverride >= 0 {
		uv(uint64(ablOverride))
	} else {
		uv(uint64(abl))
	}
	for _, e := range es {
		uv(uint64(e.ID))
		if e.E.HasSymbols {
			out = append(out, 1)
		} else {
			out = append(out, 0)
		}
		if version >= 2 {
			uv(uint64(e.E.IndexTimeUnix))
		}
		uv(uint64(len(e.E.Branches)))
		for _, b := range e.E.Branches {
			str(b.Name)
			str(b.Version)
		}
	}
	return out
}

var vfC26Names = []string{"", "HEAD", "main", "dev", "é", "release/1.2", "a", "\x00\xff", strings.Repeat("v", 130), "c301e5c82b6e1632dce5c39902691c359559852e"}

func vfC26GenEntries(r *vfRand) []vfC26Entry {
	n := r.Intn(6)
	if r.Chance(5) {
		n = 20 + r.Intn(20)
	}
	var es []vfC26Entry
	for i := 0; i < n; i++ {
		var id uint32
		switch r.Intn(5) {
		case 0:
			id = uint32(r.Intn(4))
		case 1:
			id = math.MaxUint32 - uint32(r.Intn(2))
		case 2:
			id = uint32(120 + r.Intn(20)) // around the one/two byte varint boundary
		default:
			id = uint32(r.U64())
		}
		var it int64
		switch r.Intn(6) {
		case 0:
			it = 0
		case 1:
			it = -1 - int64(r.Intn(3))
		case 2:
			it = math.MaxInt64
		case 3:
			it = math.MinInt64
		default:
			it = 1700000000 + int64(r.Intn(1000))
		}
		nb := r.Intn(4)
		var bs []RepositoryBranch
		if nb == 0 && r.Bool() {
			bs = []RepositoryBranch{}
		}
		for j := 0; j < nb; j++ {
			bs = append(bs, RepositoryBranch{Name: r.Pick(vfC26Names), Version: r.Pick(vfC26Names)})
		}
		es = append(es, vfC26Entry{ID: id, E: MinimalRepoListEntry{HasSymbols: r.Bool(), IndexTimeUnix: it, Branches: bs}})
	}
	return es
}

// vfC26SafeMarshal runs the encoder under recover(): a panic inside ReposMap.MarshalBinary (e.g. binary.PutUvarint
// indexing past a too small scratch buffer) is an observation, not the end of the harness.
func vfC26SafeMarshal(m *ReposMap) (enc []byte, err error, pan string) {
	defer func() {
		if x := recover(); x != nil {
			pan = fmt.Sprint(x)
		}
	}()
	enc, err = m.MarshalBinary()
	return
}

// vfC26ValueReplay: the VALUE given to the encoder, field by field (long names abbreviated to length + prefix).
func vfC26ValueReplay(es []vfC26Entry, nilMap bool) map[string]any {
	abbr := func(s string) any {
		if len(s) <= 64 {
			return s
		}
		return map[string]any{"len": len(s), "prefix": s[:16]}
	}
	var ents []map[string]any
	for i, e := range es {
		if i >= 40 {
			break
		}
		var bs []map[string]any
		for j, b := range e.E.Branches {
			if j >= 8 {
				break
			}
			bs = append(bs, map[string]any{"Name": abbr(b.Name), "Version": abbr(b.Version)})
		}
		ents = append(ents, map[string]any{"id": e.ID, "HasSymbols": e.E.HasSymbols, "IndexTimeUnix": e.E.IndexTimeUnix,
			"IndexTimeUnix_as_uint64": fmt.Sprint(uint64(e.E.IndexTimeUnix)), "n_branches": len(e.E.Branches), "branches": bs})
	}
	return map[string]any{"codec": "ReposMap.MarshalBinary (reposMapEncode)", "nil_map": nilMap, "n_entries": len(es), "entries": ents}
}

// vfC26Directed: values that are ALWAYS part of the run (every tier, every seed): IndexTimeUnix at the sign and at the
// varint-width boundaries (2^35 = first value that needs 6 varint bytes, negative = uint64 >= 2^63 = 10 bytes), repo ids at
// the varint boundaries, branch names / branch counts / entry counts whose length crosses the 1- and 2-byte varint boundaries.
func vfC26Directed() [][]vfC26Entry {
	one := func(id uint32, it int64, bs []RepositoryBranch) []vfC26Entry {
		return []vfC26Entry{{ID: id, E: MinimalRepoListEntry{HasSymbols: id%2 == 1, IndexTimeUnix: it, Branches: bs}}}
	}
	head := []RepositoryBranch{{Name: "HEAD", Version: "c301e5c8"}}
	var out [][]vfC26Entry
	for _, it := range []int64{-1, -62135596800 /* time.Time{}.Unix() */, math.MinInt64, 0, 1<<31 - 1, 1 << 31, 1 << 32, 1<<35 - 1, 1 << 35, 1<<35 + 1,
		1<<42 - 1, 1 << 42, 1<<56 - 1, 1 << 56, 1<<62 + 12345, math.MaxInt64} {
		out = append(out, one(7, it, head))
	}
	for _, id := range []uint32{0, 127, 128, 16383, 16384, 1 << 28, 1<<28 - 1, math.MaxUint32} {
		out = append(out, one(id, 1700000000, head))
	}
	for _, l := range []int{127, 128, 16383, 16384} {
		out = append(out, one(3, 1700000000, []RepositoryBranch{{Name: strings.Repeat("n", l), Version: "v"}, {Name: "b", Version: strings.Repeat("w", l)}}))
	}
	for _, nb := range []int{127, 128, 129} { // branch count of ONE entry crosses the 1-byte varint boundary
		var bs []RepositoryBranch
		for j := 0; j < nb; j++ {
			bs = append(bs, RepositoryBranch{Name: fmt.Sprintf("b%d", j), Version: "v"})
		}
		out = append(out, one(5, -1, bs))
	}
	for _, ne := range []int{127, 128, 16383, 16384} { // entry count (and allBranchesLen) crosses the 1- and 2-byte varint boundaries
		var es []vfC26Entry
		for j := 0; j < ne; j++ {
			es = append(es, vfC26Entry{ID: uint32(j) * 262147, E: MinimalRepoListEntry{HasSymbols: j%3 == 0, IndexTimeUnix: int64(j) << 20, Branches: []RepositoryBranch{{Name: "m", Version: ""}}}})
		}
		out = append(out, es)
	}
	// all the extreme IndexTimeUnix values in ONE map
	var mix []vfC26Entry
	for j, it := range []int64{math.MinInt64, -62135596800, -1, 0, 1 << 35, math.MaxInt64} {
		mix = append(mix, vfC26Entry{ID: uint32(j) + 126, E: MinimalRepoListEntry{HasSymbols: j%2 == 0, IndexTimeUnix: it}})
	}
	out = append(out, mix)
	return out
}

func vfC26ToMap(es []vfC26Entry) ReposMap {
	m := ReposMap{}
	for _, e := range es {
		m[e.ID] = e.E
	}
	return m
}

func vfC26EqRepos(a, b ReposMap) bool {
	if (a == nil) != (b == nil) || len(a) != len(b) {
		return false
	}
	for k, x := range a {
		y, ok := b[k]
		if !ok || x.HasSymbols != y.HasSymbols || x.IndexTimeUnix != y.IndexTimeUnix || len(x.Branches) != len(y.Branches) {
			return false
		}
		for i := range x.Branches {
			if x.Branches[i] != y.Branches[i] {
				return false
			}
		}
	}
	return true
}

func vfC26Mutate(r *vfRand, b []byte) []byte {
	b = append([]byte(nil), b...)
	big := []uint64{math.MaxInt64, math.MaxUint64, 1 << 40, 1 << 32, 1 << 31, 1 << 63, uint64(len(b)), uint64(len(b)) + 1, 70000, 300}
	switch r.Intn(8) {
	case 0: // flip a byte
		if len(b) > 0 {
			b[r.Intn(len(b))] ^= byte(1 << r.Intn(8))
		}
	case 1: // truncate
		if len(b) > 0 {
			b = b[:r.Intn(len(b))]
		}
	case 2: // overwrite a byte with a varint-significant value
		if len(b) > 0 {
			b[r.Intn(len(b))] = []byte{0x80, 0xff, 0x7f, 0x00, 0x01}[r.Intn(5)]
		}
	case 3, 4: // splice a big varint somewhere (often right after the version byte: the count)
		pos := 1
		if r.Chance(50) && len(b) > 0 {
			pos = r.Intn(len(b) + 1)
		}
		if pos > len(b) {
			pos = len(b)
		}
		v := binary.AppendUvarint(nil, big[r.Intn(len(big))])
		drop := 0
		if r.Bool() && pos < len(b) {
			drop = 1
		}
		b = append(append(append([]byte(nil), b[:pos]...), v...), b[pos+drop:]...)
	case 5: // append junk
		for k := r.Intn(4) + 1; k > 0; k-- {
			b = append(b, byte(r.U64()))
		}
	case 6: // duplicate a tail segment
		if len(b) > 3 {
			p := 1 + r.Intn(len(b)-1)
			b = append(b, b[p:]...)
		}
	default: // overlong varint 0x80.. padding
		pos := r.Intn(len(b) + 1)
		pad := []byte{0x80, 0x80, 0x00}
		b = append(append(append([]byte(nil), b[:pos]...), pad...), b[pos:]...)
	}
	return b
}

func vfC26Hostile(version byte) [][]byte {
	uv := func(x uint64) []byte { return binary.AppendUvarint(nil, x) }
	cat := func(xs ...[]byte) []byte {
		var o []byte
		for _, x := range xs {
			o = append(o, x...)
		}
		return o
	}
	v := []byte{version}
	return [][]byte{
		cat(v, uv(math.MaxInt64)),              // count 2^63-1: the loop is driven by the decoded count
		cat(v, uv(1<<40), uv(0)),               // count 2^40
		cat(v, uv(1), uv(math.MaxInt64)),       // allBranchesLen 2^63-1 -> make cap
		cat(v, uv(1), uv(math.MaxUint64)),      // allBranchesLen -1
		cat(v, uv(math.MaxUint64), uv(0)),      // count -1
		cat(v, uv(1), uv(0), uv(5), []byte{1}, uv(7), uv(math.MaxUint64)),                     // lb = -1
		cat(v, uv(1), uv(1), uv(5), []byte{1}, uv(7), uv(1), uv(math.MaxUint64), []byte("ab")), // string length -1
		cat(v, uv(1), uv(1), uv(5), []byte{1}, uv(7), uv(1), uv(1<<63), []byte("ab")),
		cat(v, uv(1), uv(1), uv(5), []byte{1}, uv(7), uv(1<<33)),                              // lb 2^33 with nothing behind it
		cat(v, uv(3)),                          // truncated after the count
		cat(v, []byte{0x80}),                   // truncated varint
		cat(v, []byte{0xff, 0xff, 0xff, 0xff, 0xff, 0xff, 0xff, 0xff, 0xff, 0x7f}), // overflowing varint
		v,
	}
}

func TestVerifC26(t *testing.T) {
	r := vfNewRand(vfSeed())
	n := vfN(300)
	type pending struct {
		kind   int
		in     []byte
		class  string
		expect *ReposMap // when set: the decode must succeed with this value (round-trip / v1 compatibility)
	}
	var ps []pending
	// ---- (a) encoder side + round trip, (b) v1 encodings, (c) mutated, (d) hostile, (e) short exhaustive
	directed := vfC26Directed()
	encPanics := 0
	for i := 0; i < len(directed)+n; i++ {
		var es []vfC26Entry
		v2class := "valid-v2"
		if i < len(directed) {
			es = directed[i]
			v2class = "directed-v2"
		} else {
			es = vfC26GenEntries(r)
		}
		var m ReposMap
		if len(es) > 0 || r.Chance(70) {
			m = vfC26ToMap(es)
		}
		enc, err, pan := vfC26SafeMarshal(&m)
		if pan != "" {
			// the encoder must be total on ReposMap values: report the VALUE and carry on with the reference encoding
			encPanics++
			if encPanics <= 12 {
				rp := vfC26ValueReplay(es, m == nil)
				rp["panic"] = pan
				vfOracleFail("reposmap:encode:panic", "ReposMap.MarshalBinary panics on a valid value: "+pan, rp)
			}
			enc = nil
			if m != nil {
				enc = vfC26RefEncode(2, es, -1, -1)
			}
			if len(enc) <= 2500 { // kind 21: "the encoder panicked on this value" — the model's checked encoder (generated capacity) must panic too
				vfCase(cTuple(cN(21), "(@nil N)", "[]", cSome(vfC26ReposTerm(m))), fmt.Sprintf("21:%x", enc), true, []string{"reposmap/encode-panic"},
					map[string]any{"codec": "reposmap", "value": vfC26ValueReplay(es, m == nil), "class": "encode-panic"})
			}
		} else if err != nil {
			rp := vfC26ValueReplay(es, m == nil)
			rp["err"] = err.Error()
			vfOracleFail("reposmap:encode-error", "MarshalBinary returned an error", rp)
			continue
		}
		mm := m
		if pan == "" {
			ps = append(ps, pending{kind: 11, in: enc, class: v2class, expect: &mm})
		} else { // the reference encoding of the same value must still decode to it
			ps = append(ps, pending{kind: 1, in: enc, class: "ref-v2", expect: &mm})
		}
		if r.Chance(40) {
			v1 := vfC26RefEncode(1, es, -1, -1)
			exp := ReposMap{}
			for _, e := range es {
				e.E.IndexTimeUnix = 0
				exp[e.ID] = e.E
			}
			ps = append(ps, pending{kind: 1, in: v1, class: "valid-v1", expect: &exp})
		}
		if r.Chance(30) { // duplicate ids, written by the reference encoder: the later entry wins
			d := append(append([]vfC26Entry(nil), es...), es...)
			for k := range d[len(es):] {
				d[len(es)+k].E.HasSymbols = !d[len(es)+k].E.HasSymbols
			}
			exp := vfC26ToMap(d)
			ps = append(ps, pending{kind: 1, in: vfC26RefEncode(2, d, -1, -1), class: "valid-dup-ids", expect: &exp})
		}
		base := enc
		if len(base) == 0 || r.Chance(30) {
			base = vfC26RefEncode(byte(1+r.Intn(2)), es, -1, -1)
		}
		for k := 0; k < 2; k++ {
			mu := vfC26Mutate(r, base)
			if r.Chance(25) {
				mu = vfC26Mutate(r, mu)
			}
			ps = append(ps, pending{kind: 1, in: mu, class: "mutated"})
		}
		if r.Chance(30) { // boundary counts: count / allBranchesLen equal to, or one more than, what follows
			body := vfC26RefEncode(2, es, -1, -1)
			rest := int64(len(body) - 3)
			ps = append(ps, pending{kind: 1, in: vfC26RefEncode(2, es, rest+int64(r.Intn(3))-1, -1), class: "count-boundary"})
			ps = append(ps, pending{kind: 1, in: vfC26RefEncode(2, es, -1, rest+int64(r.Intn(3))-1), class: "count-boundary"})
		}
		if r.Chance(20) {
			l := r.Intn(12)
			b := make([]byte, l)
			for k := range b {
				b[k] = byte(r.U64())
			}
			if l > 0 && r.Chance(70) {
				b[0] = byte(1 + r.Intn(2))
			}
			ps = append(ps, pending{kind: 1, in: b, class: "random"})
		}
	}
	for _, v := range []byte{1, 2} {
		for _, h := range vfC26Hostile(v) {
			ps = append(ps, pending{kind: 1, in: h, class: "hostile"})
		}
	}
	ps = append(ps, pending{kind: 1, in: nil, class: "short"})
	for x := 0; x < 256; x++ {
		ps = append(ps, pending{kind: 1, in: []byte{byte(x)}, class: "short"})
	}
	for _, v := range []byte{1, 2} {
		for x := r.Intn(6); x < 256; x += 1 + r.Intn(11) {
			ps = append(ps, pending{kind: 1, in: []byte{v, byte(x)}, class: "short"})
			ps = append(ps, pending{kind: 1, in: []byte{v, byte(x), byte(r.U64())}, class: "short"})
		}
	}
	if vfTier() == "thorough" { // all two-byte strings with a supported version byte
		for _, v := range []byte{1, 2} {
			for x := 0; x < 256; x++ {
				ps = append(ps, pending{kind: 1, in: []byte{v, byte(x)}, class: "short"})
			}
		}
	}

	ins := make([]vfWDInput, len(ps))
	for i, p := range ps {
		ins[i] = vfWDInput{Codec: "reposmap", B: p.in}
	}
	res := vfWDRun(t, ins)
	seen := map[string]bool{}
	classes := map[string]int{}
	for i, p := range ps {
		rs := res[i]
		replay := map[string]any{"codec": "ReposMap.UnmarshalBinary", "input_hex": fmt.Sprintf("%x", p.in), "class": rs.Class, "msg": rs.Msg, "alloc": rs.Alloc}
		switch rs.Class {
		case "unconfirmed-hang":
			vfWDUnconfirmed("ReposMap.UnmarshalBinary", p.in, rs.Msg)
			classes[p.class+"/unconfirmed-hang"]++
			continue
		case "hang":
			vfOracleFail("reposmap:decode-hang", "reposMapDecode does not return within the deadline on a "+fmt.Sprint(len(p.in))+"-byte input (loop driven by a count read from the input)", replay)
			continue
		case "panic":
			vfOracleFail("reposmap:decode-panic", "reposMapDecode panics: "+vfC26PanicKind(rs.Msg), replay)
			continue
		case "crash":
			vfOracleFail("reposmap:decode-crash", "reposMapDecode kills the process: "+rs.Msg, replay)
			continue
		}
		if rs.Alloc > 512*uint64(len(p.in))+16384 {
			vfOracleFail("reposmap:decode-alloc", fmt.Sprintf("reposMapDecode allocates %d bytes for a %d-byte input", rs.Alloc, len(p.in)), replay)
		}
		if p.expect != nil {
			// round trip (the property itself): decode in-process, it is a valid encoding
			var got ReposMap
			err := (&got).UnmarshalBinary(p.in)
			if err != nil || !vfC26EqRepos(*p.expect, got) {
				vfOracleFail("reposmap:roundtrip:"+p.class, "decode(encode(v)) differs from v", map[string]any{"codec": "ReposMap", "input_hex": fmt.Sprintf("%x", p.in), "want": fmt.Sprint(*p.expect), "got": fmt.Sprint(got), "err": fmt.Sprint(err)})
			}
		}
		obs := "None"
		if rs.Class == "ok" {
			obs = cSome(rs.Out)
		}
		key := fmt.Sprintf("%d:%x", p.kind, p.in)
		if len(p.in) > 2500 { // Go-side oracle only (the Coq term would be > 100 kB)
			classes[p.class+"/oracle-only"]++
			continue
		}
		if seen[key] {
			continue
		}
		seen[key] = true
		classes[p.class+"/"+rs.Class]++
		coq := cTuple(cN(uint64(p.kind)), cBytes(p.in), "[]", obs)
		vfCase(coq, key, len(p.in) > 3, []string{"reposmap/" + p.class + "/" + rs.Class}, map[string]any{"codec": "reposmap", "input_hex": fmt.Sprintf("%x", p.in), "class": rs.Class})
	}
	vfInfo(map[string]any{"reposmap_classes": classes, "reposmap_directed_values": len(directed), "reposmap_encode_panics": encPanics})
}

func vfC26PanicKind(msg string) string {
	for _, k := range []string{"slice bounds out of range", "makeslice", "index out of range", "nil pointer"} {
		if strings.Contains(msg, k) {
			return k
		}
	}
	return msg
}
