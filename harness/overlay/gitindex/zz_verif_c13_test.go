package gitindex

// C13 — delta builds expose the same per-branch content as full builds.
// Mapped into /repo/gitindex by `go test -overlay`; never copied into /repo.
//
// One case = one generated history over 1-3 git branches, whose steps add / modify / delete / rename files, revert a
// branch to an earlier tree, copy a file from another branch, sync a branch to another branch's tree, move a file between
// branches, swap two files — interleaved with gitindex.IndexGitRepo runs (full or delta requested; the list of indexed
// branches, the index options and ShardMax may change between runs; some histories set DeltaShardNumberFallbackThreshold).
// ALL histories of a run live in ONE real bare git repository: every commit of every history is written up front by a
// single `git fast-import`, the ground truth (commit -> files with blob ids) is read back by a single
// `git fast-export --all --full-tree --no-data`, and a step of a history just points refs/heads/<branch> at its commits
// (loose ref files) — no process is spawned per history.  After EVERY run:
//   * Go oracle (the property): for every branch, Search(branch:<b>, Whole) over the index directory
//     (search.NewDirectorySearcher) must return exactly one document per file of `git ls-tree -r <b>` with that blob's
//     content (git blob id recomputed from the returned content), and nothing else;
//   * which kind of build actually happened (observed from the shards: a delta build keeps every old shard, a normal build
//     replaces them all) is compared with the fallback decision of Model/DeltaDecide.v;
//   * correspondence: the stack of layers (shards grouped by the build that wrote them: raw documents with their branch
//     sets, read WITHOUT the sidecar, + FileTombstones of the sidecar/metadata) is compared with Model/Delta.v.

import (
	"bufio"
	"bytes"
	"context"
	"crypto/sha1"
	"encoding/hex"
	"fmt"
	"io"
	"os"
	"os/exec"
	"path/filepath"
	"runtime"
	"runtime/debug"
	"sort"
	"strings"
	"testing"

	"github.com/sourcegraph/zoekt"
	"github.com/sourcegraph/zoekt/index"
	"github.com/sourcegraph/zoekt/query"
	"github.com/sourcegraph/zoekt/search"
)

var c13Paths = []string{"a.txt", "b.go", "dir/c.txt", "dir/sub/d.md", "e"}

// the ignore file of a branch: a normal build does not index the files it excludes (here: everything under dir/), a delta
// build must not either; a change of the ignore file itself makes a delta build fall back.  Path number 0 in the model.
const c13IgnorePath = ".sourcegraph/ignore"
const c13IgnoreContent = "dir/\n"

func c13Ignored(t c13Tree, p string) bool {
	_, has := t[c13IgnorePath]
	return has && strings.HasPrefix(p, "dir/")
}

var c13Pool = []string{"alpha\n", "beta\nbeta\n", "gamma content\nsecond line\n", "delta words here\n"}

type c13Gen struct {
	r        *vfRand
	contents []string       // id-1 -> content
	cid      map[string]int // content -> id
	pid      map[string]int // path -> id
	ignoreFiles bool        // the history has .sourcegraph/ignore files
}

func (g *c13Gen) content(s string) int {
	if id, ok := g.cid[s]; ok {
		return id
	}
	g.contents = append(g.contents, s)
	g.cid[s] = len(g.contents)
	return len(g.contents)
}

type c13Tree map[string]int // path -> content id

func (t c13Tree) clone() c13Tree {
	o := c13Tree{}
	for k, v := range t {
		o[k] = v
	}
	return o
}
func (t c13Tree) paths() []string {
	ps := make([]string, 0, len(t))
	for p := range t {
		ps = append(ps, p)
	}
	sort.Strings(ps)
	return ps
}
func (t c13Tree) equal(o c13Tree) bool {
	if len(t) != len(o) {
		return false
	}
	for k, v := range t {
		if ov, ok := o[k]; !ok || ov != v {
			return false
		}
	}
	return true
}

func c13Git(t *testing.T, dir string, stdin string, args ...string) string {
	cmd := exec.Command("git", args...)
	cmd.Dir = dir
	cmd.Env = append(os.Environ(), "GIT_CONFIG_GLOBAL=/dev/null", "GIT_CONFIG_SYSTEM=/dev/null", "GIT_CONFIG_NOSYSTEM=1")
	if stdin != "" {
		cmd.Stdin = strings.NewReader(stdin)
	}
	out, err := cmd.CombinedOutput()
	if err != nil {
		t.Fatalf("git %v: %v\n%s", args, err, out)
	}
	return string(out)
}

func c13BlobID(content []byte) string {
	h := sha1.New()
	fmt.Fprintf(h, "blob %d\x00", len(content))
	h.Write(content)
	return hex.EncodeToString(h.Sum(nil))
}

func c13TreeTerm(g *c13Gen, t c13Tree) string {
	if len(t) == 0 {
		return "(@nil (N * N))"
	}
	var xs []string
	for _, p := range t.paths() {
		if t[p] < 0 {
			continue // a gitlink (submodule entry): not a file, never indexed without Options.Submodules
		}
		if c13Ignored(t, p) {
			continue // excluded by the branch's ignore file: never indexed
		}
		xs = append(xs, cTuple(cN(uint64(g.pid[p])), cN(uint64(t[p]))))
	}
	if len(xs) == 0 {
		return "(@nil (N * N))"
	}
	return cList(xs)
}

// c13Mutate applies 0-3 random edits to the branch trees; hist = earlier snapshots (for reverts).
func c13Mutate(g *c13Gen, trees []c13Tree, hist [][]c13Tree, classes map[string]bool) {
	r := g.r
	nb := len(trees)
	pick := func(t c13Tree) (string, bool) {
		var ps []string
		for _, p := range t.paths() {
			if p != c13IgnorePath {
				ps = append(ps, p)
			}
		}
		if len(ps) == 0 {
			return "", false
		}
		return ps[r.Intn(len(ps))], true
	}
	newContent := func() int {
		if r.Chance(60) {
			return g.content(r.Pick(c13Pool))
		}
		return g.content(fmt.Sprintf("unique text %d\nof the history\n", len(g.contents)))
	}
	// in histories with ignore files half of the edits go to the paths the ignore file excludes
	pickPath := func() string {
		if g.ignoreFiles && r.Chance(50) {
			return r.Pick([]string{"dir/c.txt", "dir/sub/d.md"})
		}
		return r.Pick(c13Paths)
	}
	ne := r.Intn(4)
	if r.Chance(10) {
		ne = 0
	}
	for e := 0; e < ne; e++ {
		b := r.Intn(nb)
		t := trees[b]
		kindOfEdit := r.Intn(11)
		if g.ignoreFiles && r.Chance(8) {
			kindOfEdit = 11
		}
		if r.Chance(30) {
			// replace a submodule entry by a file again
			for _, p := range t.paths() {
				if t[p] < 0 {
					t[p] = newContent()
					classes["gitlink-to-file"] = true
					kindOfEdit = -1
					break
				}
			}
		}
		switch kindOfEdit {
		case 10: // a submodule entry (gitlink) at a path: replaces a file there, may later be replaced by a file again
			p := r.Pick(c13Paths)
			if v, ok := t[p]; ok && v > 0 {
				classes["file-to-gitlink"] = true
			} else {
				classes["add-gitlink"] = true
			}
			t[p] = -(1 + r.Intn(3))
		case 0, 1: // add / modify
			p := pickPath()
			if v, ok := t[p]; ok && v < 0 {
				classes["gitlink-to-file"] = true
			} else if ok {
				classes["modify"] = true
			} else {
				classes["add"] = true
			}
			t[p] = newContent()
		case 2: // delete
			if p, ok := pick(t); ok {
				delete(t, p)
				classes["delete"] = true
			}
		case 3: // rename
			if p, ok := pick(t); ok {
				q := r.Pick(c13Paths)
				if q != p {
					t[q] = t[p]
					delete(t, p)
					classes["rename"] = true
				}
			}
		case 4: // revert the branch to an earlier tree
			if len(hist) > 0 {
				trees[b] = hist[r.Intn(len(hist))][b].clone()
				classes["revert"] = true
			}
		case 5: // copy a file from another branch (same blob on several branches)
			if nb > 1 {
				b2 := (b + 1 + r.Intn(nb-1)) % nb
				if p, ok := pick(trees[b2]); ok {
					t[p] = trees[b2][p]
					classes["copy-from-branch"] = true
				}
			}
		case 6: // sync the branch to another branch's tree (merge / fast-forward)
			if nb > 1 {
				b2 := (b + 1 + r.Intn(nb-1)) % nb
				trees[b] = trees[b2].clone()
				classes["sync-branch"] = true
			}
		case 7: // move a file to another branch
			if nb > 1 {
				b2 := (b + 1 + r.Intn(nb-1)) % nb
				if p, ok := pick(t); ok {
					trees[b2][p] = t[p]
					delete(t, p)
					classes["move-between-branches"] = true
				}
			}
		case 8: // swap two files
			p, ok1 := pick(t)
			q, ok2 := pick(t)
			if ok1 && ok2 && p != q {
				t[p], t[q] = t[q], t[p]
				classes["swap"] = true
			}
		case 11: // the ignore file appears / disappears on the branch (a delta build falls back)
			if _, has := t[c13IgnorePath]; has {
				delete(t, c13IgnorePath)
				classes["ignore-file-removed"] = true
			} else {
				t[c13IgnorePath] = g.content(c13IgnoreContent)
				classes["ignore-file-added"] = true
			}
		case 9: // same path, different content on every branch
			p := pickPath()
			for i := range trees {
				trees[i][p] = newContent()
			}
			classes["all-branches-modify"] = true
		}
	}
}

type c13ShardObs struct {
	file  string
	id    string
	docs  []string // coq odoc terms, sorted
	tombs []int
}

// one indexing run of a history
type c13Step struct {
	trees    []c13Tree // per git branch of the history (universe), at the time of the run
	marks    []int     // per git branch: fast-import mark of its commit
	idx      []string  // the indexed branches (Options.Branches), in order; "HEAD" -> main
	optV     int       // variant of the index options (see c13ApplyOpts)
	shardMax int
	par      int  // index.Options.Parallelism
	delta    bool // IsDelta requested
	orphan   bool // plant a ".meta" without shard at the next shard number before the run
}

type c13Hist struct {
	g         *c13Gen
	names     []string // git branches of the history
	threshold int      // Options.DeltaShardNumberFallbackThreshold (0 = off)
	steps     []c13Step
	classes   map[string]bool
}

var c13BranchID = map[string]uint64{"HEAD": 0, "main": 1, "dev": 2, "rel": 3}

// index options that take part in Options.GetHash (stored as Repository.IndexOptions) but do not change what is indexed
// for the generated (tiny, text) files; variant numbers are the model's option ids
func c13ApplyOpts(v int, o *index.Options) {
	switch v {
	case 1:
		o.SizeMax = 1 << 20
	case 2:
		o.TrigramMax = 19000
	case 3:
		o.LargeFiles = []string{"*.nomatch"}
	}
}

func c13GenHistory(r *vfRand) *c13Hist {
	allNames := []string{"main", "dev", "rel"}
	g := &c13Gen{r: r, cid: map[string]int{}, pid: map[string]int{}}
	for i, p := range c13Paths {
		g.pid[p] = i + 1
	}
	g.pid[c13IgnorePath] = 0
	nb := 1 + r.Intn(3)
	if r.Chance(50) {
		nb = 2
	}
	h := &c13Hist{g: g, names: allNames[:nb], classes: map[string]bool{}}
	// the indexed branches: usually all of them; sometimes HEAD (-> main) in addition: one commit under two branch names
	idx := append([]string(nil), h.names...)
	if nb > 1 && r.Chance(20) {
		idx = idx[:1+r.Intn(nb-1)]
	}
	if r.Chance(25) {
		idx = append([]string{"HEAD"}, idx...)
	}
	shardMax := 0
	if r.Chance(30) {
		shardMax = 40 + r.Intn(60) // several shards per build
	}
	if r.Chance(20) {
		h.threshold = 1 + r.Intn(3)
	}
	optV := 0
	if r.Chance(20) {
		optV = r.Intn(4)
	}
	trees := make([]c13Tree, nb)
	for i := range trees {
		trees[i] = c13Tree{}
		for _, p := range c13Paths {
			if r.Chance(45) {
				trees[i][p] = g.content(r.Pick(c13Pool))
			}
		}
	}
	if nb > 1 && r.Chance(25) {
		// every branch is cut from the first one: all of them start at ONE commit (see c13RunChunk: branches with equal
		// trees share the commit), then diverge — per-branch work keyed by the last indexed commit must not be shared
		for i := 1; i < nb; i++ {
			trees[i] = trees[0].clone()
		}
		h.classes["branches-cut-from-one-commit"] = true
	}
	if r.Chance(20) {
		trees[r.Intn(nb)][r.Pick(c13Paths)] = -1 // starts with a submodule entry somewhere
	}
	if r.Chance(30) {
		g.ignoreFiles = true
		h.classes["ignore-files"] = true
		with := 0
		for i := range trees {
			if r.Chance(60) {
				trees[i][c13IgnorePath] = g.content(c13IgnoreContent)
				with++
			}
			for _, p := range []string{"dir/c.txt", "dir/sub/d.md"} {
				if r.Chance(50) {
					trees[i][p] = g.content(r.Pick(c13Pool)) // excluded on the branches with the ignore file, indexed on the others
				}
			}
		}
		// one branch with and one without the ignore file
		if nb > 1 && with == 0 {
			trees[r.Intn(nb)][c13IgnorePath] = g.content(c13IgnoreContent)
		} else if nb > 1 && with == nb {
			delete(trees[r.Intn(nb)], c13IgnorePath)
		}
	}
	var hist [][]c13Tree
	nsteps := 2 + r.Intn(5)
	for step := 0; step < nsteps; step++ {
		if step > 0 {
			c13Mutate(g, trees, hist, h.classes)
			// ---- the request changes: list of indexed branches, index options, ShardMax
			if r.Chance(14) {
				old := fmt.Sprint(idx)
				idx = append([]string(nil), idx...)
				// "HEAD" stays in front: a query `branch:HEAD` means "the first indexed branch" (index/matchtree.go), whatever its name
				lo := 0
				if idx[0] == "HEAD" {
					lo = 1
				}
				switch r.Intn(4) {
				case 0: // index one more branch
					var cand []string
					for _, nm := range h.names {
						found := false
						for _, x := range idx {
							found = found || x == nm
						}
						if !found {
							cand = append(cand, nm)
						}
					}
					if len(cand) > 0 {
						at := lo + r.Intn(len(idx)-lo+1)
						idx = append(idx[:at], append([]string{r.Pick(cand)}, idx[at:]...)...)
					}
				case 1: // stop indexing a branch
					if len(idx)-lo > 1 {
						at := lo + r.Intn(len(idx)-lo)
						idx = append(idx[:at], idx[at+1:]...)
					}
				case 2: // same set, other order
					if len(idx)-lo > 1 {
						i, j := lo+r.Intn(len(idx)-lo), lo+r.Intn(len(idx)-lo)
						idx[i], idx[j] = idx[j], idx[i]
					}
				case 3: // HEAD alias on / off
					if lo == 1 {
						idx = idx[1:]
					} else {
						idx = append([]string{"HEAD"}, idx...)
					}
				}
				if fmt.Sprint(idx) != old {
					h.classes["branch-list-change"] = true
				}
			}
			if r.Chance(8) {
				if v := r.Intn(4); v != optV {
					optV = v
					h.classes["index-options-change"] = true
				}
			}
			if r.Chance(8) {
				if shardMax == 0 {
					shardMax = 40 + r.Intn(60)
				} else {
					shardMax = 0
				}
				h.classes["shardmax-change"] = true // not part of the options hash: no fallback
			}
		}
		snap := make([]c13Tree, nb)
		for i := range trees {
			snap[i] = trees[i].clone()
		}
		hist = append(hist, snap)
		delta := step > 0 && r.Chance(75)
		if step == 0 && r.Chance(15) {
			delta = true // requested delta without an index: falls back to a full build
		}
		par := 1
		if r.Chance(25) {
			par = 4
		}
		h.steps = append(h.steps, c13Step{par: par, trees: snap, idx: append([]string(nil), idx...), optV: optV, shardMax: shardMax,
			delta: delta, orphan: step > 0 && r.Chance(15)})
	}
	return h
}

// c13ReadTruth parses `git fast-export --all --full-tree --no-data --show-original-ids`: commit id -> (path -> blob id) for the
// file entries (submodule entries have mode 160000 and are skipped, like `git ls-tree` type "commit").
func c13ReadTruth(t *testing.T, out string) map[string]map[string]string {
	truth := map[string]map[string]string{}
	rd := bufio.NewReader(strings.NewReader(out))
	var cur map[string]string
	for {
		line, err := rd.ReadString('\n')
		if err == io.EOF && line == "" {
			break
		}
		line = strings.TrimSuffix(line, "\n")
		switch {
		case strings.HasPrefix(line, "data "):
			var n int
			fmt.Sscanf(line, "data %d", &n)
			if _, err := io.CopyN(io.Discard, rd, int64(n)); err != nil {
				t.Fatalf("fast-export: short data: %v", err)
			}
		case strings.HasPrefix(line, "commit "):
			cur = nil
		case strings.HasPrefix(line, "original-oid "):
			cur = map[string]string{}
			truth[strings.TrimPrefix(line, "original-oid ")] = cur
		case strings.HasPrefix(line, "M "):
			f := strings.SplitN(line, " ", 4)
			if len(f) != 4 || cur == nil {
				t.Fatalf("fast-export: unexpected line %q", line)
			}
			if f[1] != "160000" {
				cur[f[3]] = f[2]
			}
		}
		if err == io.EOF {
			break
		}
	}
	return truth
}

func TestVerifC13(t *testing.T) {
	r := vfNewRand(vfSeed())
	n := vfN(25)
	// every shard builder allocates 2 x 16 MiB pointer tables; with the default GOGC most of the time goes into rescanning them
	// (and a build allocates at least four of them: NewBuilder's probe shard builder is thrown away). Collect rarely, keep
	// the freed spans resident: no GC until the heap reaches the memory limit.
	if os.Getenv("C13_GC") == "" {
		defer debug.SetGCPercent(debug.SetGCPercent(-1))
		defer debug.SetMemoryLimit(debug.SetMemoryLimit(1 << 30))
	} else {
		defer debug.SetGCPercent(debug.SetGCPercent(1000))
	}
	root, err := os.MkdirTemp(os.Getenv("VERIF_TMP"), "c13-")
	if err != nil {
		t.Fatal(err)
	}
	defer os.RemoveAll(root)

	// ---- all histories, then one repository per 50 histories with all their commits
	all := make([]*c13Hist, n)
	for i := range all {
		all[i] = c13GenHistory(r)
	}
	for base := 0; base < n; base += 50 {
		c13RunChunk(t, root, all[base:min(base+50, n)], base)
	}
}

func c13RunChunk(t *testing.T, root string, hists []*c13Hist, base int) {
	repoDir := filepath.Join(root, fmt.Sprintf("all%d.git", base))
	defer os.RemoveAll(repoDir)
	c13Git(t, root, "", "init", "-q", "--bare", repoDir)
	if err := os.WriteFile(filepath.Join(repoDir, "HEAD"), []byte("ref: refs/heads/main\n"), 0o644); err != nil {
		t.Fatal(err)
	}
	var fi bytes.Buffer
	nmarks := 0
	for hi, h := range hists {
		committed := make([]c13Tree, len(h.names))
		last := make([]int, len(h.names))
		for si := range h.steps {
			st := &h.steps[si]
			st.marks = make([]int, len(h.names))
			for i, name := range h.names {
				if committed[i] != nil && committed[i].equal(st.trees[i]) {
					st.marks[i] = last[i]
					continue
				}
				// fast-forward / branch cut: a branch whose new tree is the tree another branch is at in this run moves to
				// THAT commit (two indexed branches with one last-indexed commit; they may diverge again later)
				shared := false
				for j := range h.names {
					if j == i || !st.trees[j].equal(st.trees[i]) {
						continue
					}
					mj := 0
					if j < i {
						mj = st.marks[j]
					} else if committed[j] != nil && committed[j].equal(st.trees[j]) {
						mj = last[j]
					}
					if mj != 0 {
						st.marks[i], last[i], committed[i] = mj, mj, st.trees[i]
						h.classes["branches-at-one-commit"] = true
						shared = true
						break
					}
				}
				if shared {
					continue
				}
				nmarks++
				msg := fmt.Sprintf("h%d s%d %s", hi, si, name)
				fmt.Fprintf(&fi, "commit refs/verif/c%d\nmark :%d\ncommitter V <v@example.com> %d +0000\ndata %d\n%s\n", nmarks, nmarks, 1700000000+si*100+i, len(msg), msg)
				if committed[i] != nil {
					fmt.Fprintf(&fi, "from :%d\n", last[i])
				}
				fi.WriteString("deleteall\n")
				for _, p := range st.trees[i].paths() {
					if v := st.trees[i][p]; v < 0 {
						fmt.Fprintf(&fi, "M 160000 %040x %s\n", -v, p)
						continue
					}
					c := h.g.contents[st.trees[i][p]-1]
					fmt.Fprintf(&fi, "M 100644 inline %s\ndata %d\n%s\n", p, len(c), c)
				}
				fi.WriteString("\n")
				committed[i] = st.trees[i]
				last[i] = nmarks
				st.marks[i] = nmarks
			}
		}
	}
	marksFile := filepath.Join(root, fmt.Sprintf("marks%d", base))
	c13Git(t, repoDir, fi.String(), "fast-import", "--quiet", "--force", "--export-marks="+marksFile)
	shaOf := make([]string, nmarks+1)
	mb, err := os.ReadFile(marksFile)
	if err != nil {
		t.Fatal(err)
	}
	for _, l := range strings.Split(strings.TrimSpace(string(mb)), "\n") {
		var m int
		var sha string
		if _, err := fmt.Sscanf(l, ":%d %s", &m, &sha); err != nil || m < 1 || m > nmarks {
			t.Fatalf("marks file: %q", l)
		}
		shaOf[m] = sha
	}
	// the ground truth of the oracle: what git itself says the commits contain
	truth := c13ReadTruth(t, c13Git(t, repoDir, "", "fast-export", "--all", "--full-tree", "--no-data", "--show-original-ids"))
	for hi, h := range hists {
		for si, st := range h.steps {
			for i := range h.names {
				tr, ok := truth[shaOf[st.marks[i]]]
				if !ok {
					t.Fatalf("history %d step %d branch %d: commit %s missing from git fast-export", hi, si, i, shaOf[st.marks[i]])
				}
				nfiles := 0
				for p, v := range st.trees[i] {
					if v < 0 {
						continue
					}
					nfiles++
					if tr[p] != c13BlobID([]byte(h.g.contents[v-1])) {
						t.Fatalf("history %d step %d branch %d: git has %q at %s, generated %q", hi, si, i, tr[p], p, h.g.contents[v-1])
					}
				}
				if nfiles != len(tr) {
					t.Fatalf("history %d step %d branch %d: git lists %d files, generated %d", hi, si, i, len(tr), nfiles)
				}
			}
		}
	}

	refsHeads := filepath.Join(repoDir, "refs", "heads")
	os.MkdirAll(refsHeads, 0o755)
	for ci, h := range hists {
		ci += base
		g := h.g
		classes := h.classes
		indexDir := filepath.Join(root, fmt.Sprintf("h%d.idx", ci))
		scratch := filepath.Join(root, fmt.Sprintf("h%d.raw", ci))
		os.MkdirAll(indexDir, 0o755)
		os.MkdirAll(scratch, 0o755)
		for _, nm := range []string{"main", "dev", "rel"} {
			os.Remove(filepath.Join(refsHeads, nm))
		}
		var runTerms, obsTerms []string
		var runDesc []map[string]any
		ndelta := 0
		failed := false
		rawDocs := map[string][]string{} // shard file + build id -> raw documents (a shard never changes, only its sidecar)
		var prev []c13ShardObs             // the shards before the run
		// what the last build recorded (for the class labels only; the model computes the decision itself)
		var metaIdx string
		metaOpt := -1
		lastTrees := map[string]c13Tree{}
		for step := range h.steps {
			st := &h.steps[step]
			// ---- the branches move to the commits of this step
			shaOfBranch := map[string]string{}
			for i, name := range h.names {
				sha := shaOf[st.marks[i]]
				shaOfBranch[name] = sha
				if err := os.WriteFile(filepath.Join(refsHeads, name), []byte(sha+"\n"), 0o644); err != nil {
					t.Fatal(err)
				}
			}
			shaOfBranch["HEAD"] = shaOfBranch["main"]
			idxNames := st.idx
			treeOf := func(name string) c13Tree {
				if name == "HEAD" {
					name = "main"
				}
				for i, nm := range h.names {
					if nm == name {
						return st.trees[i]
					}
				}
				t.Fatalf("no branch %s", name)
				return nil
			}
			opts := Options{
				RepoDir:                           repoDir,
				Branches:                          append([]string(nil), idxNames...),
				DeltaShardNumberFallbackThreshold: uint64(h.threshold),
				BuildOptions: index.Options{
					IndexDir:              indexDir,
					RepositoryDescription: zoekt.Repository{Name: "repo", ID: 5},
					IsDelta:               st.delta,
					DisableCTags:          true,
					ShardMax:              st.shardMax,
					Parallelism:           st.par,
				},
			}
			if opts.BuildOptions.ShardMax == 0 {
				// not the default of 100 MiB: the builder sizes its ngram maps by ShardMax (not part of the options hash)
				opts.BuildOptions.ShardMax = 1 << 20
			}
			c13ApplyOpts(st.optV, &opts.BuildOptions)
			var treeTerms, brTerms []string
			treeDesc := map[string]map[string]int{}
			for _, nm := range idxNames {
				treeTerms = append(treeTerms, c13TreeTerm(g, treeOf(nm)))
				treeDesc[nm] = map[string]int(treeOf(nm).clone())
				brTerms = append(brTerms, cN(c13BranchID[nm]))
			}
			kind := "Full"
			if st.delta {
				kind = "Delta"
			}
			over := h.threshold > 0 && len(prev) > h.threshold
			// expected decision, for the class labels
			if st.delta {
				switch {
				case len(prev) == 0:
					classes["fallback:no-shards"] = true
				case over:
					classes["fallback:shard-threshold"] = true
				case metaIdx != fmt.Sprint(idxNames):
					classes["fallback:branch-list"] = true
				case metaOpt != st.optV:
					classes["fallback:index-options"] = true
				default:
					for _, nm := range idxNames {
						_, was := lastTrees[nm][c13IgnorePath]
						_, is := treeOf(nm)[c13IgnorePath]
						if was != is {
							classes["fallback:ignore-file"] = true
						}
					}
				}
			}
			runTerms = append(runTerms, cTuple(cList(treeTerms), kind, cList(brTerms), cN(uint64(st.optV)), cBool(over)))
			runDesc = append(runDesc, map[string]any{"requested": kind, "branches": idxNames, "options_variant": st.optV, "shard_max": st.shardMax,
				"shards_before": len(prev), "trees(branch->path->content id)": treeDesc})
			replay := func() map[string]any {
				return map[string]any{"git_branches": h.names, "delta_shard_number_fallback_threshold": h.threshold, "paths(id-1)": c13Paths, "ignore_file(path 0)": c13IgnorePath,
					"contents(id-1)": g.contents, "runs": runDesc,
					"options_variants": "0 default, 1 SizeMax=1<<20, 2 TrigramMax=19000, 3 LargeFiles=[*.nomatch]",
					"how": "props/C13/NOTES.md (replay): commit the listed trees per run with git fast-import, call gitindex.IndexGitRepo with the run's Branches / IsDelta / options"}
			}
			// sometimes a ".meta" sidecar WITHOUT shard waits at the next shard number (left by a run killed between removing a
			// shard and its sidecar): it tombstones every path and carries old branch versions. The build must not let its new
			// shard be read through it (Builder.Finish removes it first, fix b31ad3a).
			if st.orphan && len(prev) > 0 {
				if repos, _, err := index.ReadMetadataPath(prev[0].file); err == nil && len(repos) == 1 {
					orphan := *repos[0]
					orphan.FileTombstones = map[string]struct{}{}
					for _, p := range c13Paths {
						orphan.FileTombstones[p] = struct{}{}
					}
					shard := filepath.Join(indexDir, fmt.Sprintf("repo_v%d.%05d.zoekt", index.IndexFormatVersion, len(prev)))
					if tmp, final, err := index.JsonMarshalRepoMetaTemp(shard, &orphan); err == nil {
						os.Rename(tmp, final)
						classes["orphan-sidecar"] = true
					}
				}
			}
			if _, err := IndexGitRepo(opts); err != nil {
				vfOracleFail("index-error", "IndexGitRepo returned an error: "+err.Error(), replay())
				failed = true
				break
			}
			metaIdx, metaOpt = fmt.Sprint(idxNames), st.optV
			lastTrees = map[string]c13Tree{}
			for _, nm := range idxNames {
				lastTrees[nm] = treeOf(nm)
			}
			if os.Getenv("C13_GC") == "" {
				runtime.GC() // the builder's tables are garbage now: the next build reuses their (resident) pages
			}
			// ---- Go oracle: per-branch view vs git's listing of the branch's commit
			ss, err := search.NewDirectorySearcher(indexDir)
			if err != nil {
				t.Fatal(err)
			}
			for _, name := range idxNames {
				all := truth[shaOfBranch[name]]
				want := map[string]string{}
				_, hasIgnore := all[c13IgnorePath]
				for p, id := range all {
					if hasIgnore && strings.HasPrefix(p, "dir/") {
						continue // the branch's own ignore file ("dir/") excludes it: a normal build does not index it
					}
					want[p] = id
				}
				res, err := ss.Search(context.Background(), &query.Branch{Pattern: name, Exact: true}, &zoekt.SearchOptions{Whole: true})
				if err != nil {
					t.Fatal(err)
				}
				got := map[string][]string{}
				for _, f := range res.Files {
					got[f.FileName] = append(got[f.FileName], c13BlobID(f.Content))
				}
				for p, ids := range got {
					w, ok := want[p]
					_, inHead := all[p]
					switch {
					case !ok && inHead:
						vfOracleFail("ignored-file-found", fmt.Sprintf("run %d (%s): branch %s finds %s, which the branch's %s excludes (a normal build does not index it)", step, kind, name, p, c13IgnorePath), replay())
					case !ok:
						vfOracleFail("stale-doc:path-absent-from-head", fmt.Sprintf("run %d (%s): branch %s finds %s which is not in its head commit", step, kind, name, p), replay())
					case len(ids) > 1:
						vfOracleFail("duplicate-doc", fmt.Sprintf("run %d (%s): branch %s finds %d documents for %s", step, kind, name, len(ids), p), replay())
					case ids[0] != w:
						vfOracleFail("stale-doc:old-content", fmt.Sprintf("run %d (%s): branch %s finds %s with content that is not the head's", step, kind, name, p), replay())
					}
				}
				for p := range want {
					if _, ok := got[p]; !ok {
						vfOracleFail("missing-doc", fmt.Sprintf("run %d (%s): branch %s does not find %s of its head commit", step, kind, name, p), replay())
					}
				}
			}
			// a branch that is not (or no longer) indexed finds nothing
			for _, name := range []string{"main", "dev", "rel"} {
				indexed := false
				for _, x := range idxNames {
					indexed = indexed || x == name
				}
				if indexed {
					continue
				}
				res, err := ss.Search(context.Background(), &query.Branch{Pattern: name, Exact: true}, &zoekt.SearchOptions{Whole: true})
				if err != nil {
					t.Fatal(err)
				}
				if len(res.Files) > 0 {
					vfOracleFail("stale-doc:branch-not-indexed", fmt.Sprintf("run %d (%s): branch %s is not in the list of indexed branches but finds %s", step, kind, name, res.Files[0].FileName), replay())
				}
			}
			ss.Close()
			// ---- correspondence: the shard stack
			fns, _ := filepath.Glob(filepath.Join(indexDir, "*.zoekt"))
			sort.Strings(fns)
			var shards []c13ShardObs
			for _, fn := range fns {
				repos, md, err := index.ReadMetadataPath(fn)
				if err != nil || len(repos) != 1 {
					t.Fatalf("ReadMetadataPath(%s): %v", fn, err)
				}
				so := c13ShardObs{file: fn, id: md.ID}
				for p := range repos[0].FileTombstones {
					so.tombs = append(so.tombs, g.pid[p])
				}
				sort.Ints(so.tombs)
				if docs, ok := rawDocs[fn+" "+md.ID]; ok {
					so.docs = docs
					shards = append(shards, so)
					continue
				}
				// raw documents: the shard read without its sidecar
				raw := filepath.Join(scratch, filepath.Base(fn))
				b, _ := os.ReadFile(fn)
				os.WriteFile(raw, b, 0o644)
				f, err := os.Open(raw)
				if err != nil {
					t.Fatal(err)
				}
				inf, err := index.NewIndexFile(f)
				if err != nil {
					t.Fatal(err)
				}
				s, err := index.NewSearcher(inf)
				if err != nil {
					t.Fatal(err)
				}
				res, err := s.Search(context.Background(), &query.Const{Value: true}, &zoekt.SearchOptions{Whole: true})
				if err != nil {
					t.Fatal(err)
				}
				// the branch names of a raw document are those of the build that wrote the shard
				rawRepos, _, err := index.ReadMetadataPath(raw)
				if err != nil || len(rawRepos) != 1 {
					t.Fatalf("ReadMetadataPath(%s): %v", raw, err)
				}
				for _, fm := range res.Files {
					var bs []int
					for _, bn := range fm.Branches {
						for i, rb := range rawRepos[0].Branches {
							if rb.Name == bn {
								bs = append(bs, i)
							}
						}
					}
					sort.Ints(bs)
					so.docs = append(so.docs, cTuple(cN(uint64(g.pid[fm.FileName])), cN(uint64(g.cid[string(fm.Content)])), cNatList(bs)))
				}
				s.Close() // only now: file names / contents of the result point into the mapped shard
				os.Remove(raw)
				sort.Strings(so.docs)
				if so.docs == nil {
					so.docs = []string{}
				}
				rawDocs[fn+" "+md.ID] = so.docs
				shards = append(shards, so)
			}
			// ---- which kind of build happened: a delta build keeps every old shard, a normal build replaces them all
			kept, gone := 0, 0
			for _, o := range prev {
				found := false
				for _, s := range shards {
					found = found || (s.file == o.file && s.id == o.id)
				}
				if found {
					kept++
				} else {
					gone++
				}
			}
			wasDelta := len(prev) > 0 && gone == 0
			if kept > 0 && gone > 0 {
				vfOracleFail("mixed-build", fmt.Sprintf("run %d (%s): %d old shards kept, %d replaced", step, kind, kept, gone), replay())
			}
			if wasDelta {
				ndelta++
			}
			runDesc[len(runDesc)-1]["observed"] = map[bool]string{true: "delta build", false: "normal build"}[wasDelta]
			prev = shards
			// group consecutive shards of one build into a layer
			var layers []string
			for i := 0; i < len(shards); {
				j := i
				docs := []string{}
				for j < len(shards) && shards[j].id == shards[i].id {
					if fmt.Sprint(shards[j].tombs) != fmt.Sprint(shards[i].tombs) {
						vfOracleFail("layer-tombstones-differ", "shards written by one build carry different FileTombstones", replay())
					}
					docs = append(docs, shards[j].docs...)
					j++
				}
				dt := "(@nil odoc)"
				if len(docs) > 0 {
					dt = cList(docs)
				}
				var ts []uint64
				for _, x := range shards[i].tombs {
					ts = append(ts, uint64(x))
				}
				layers = append(layers, cTuple(dt, cNList(ts)))
				i = j
			}
			lt := "(@nil olayer)"
			if len(layers) > 0 {
				lt = cList(layers)
			}
			obsTerms = append(obsTerms, cTuple(cBool(wasDelta), lt))
		}
		if failed || len(runTerms) == 0 {
			continue
		}
		coq := cTuple(cList(runTerms), cList(obsTerms))
		var cl []string
		for k := range classes {
			cl = append(cl, k)
		}
		sort.Strings(cl)
		cl = append(cl, fmt.Sprintf("git-branches=%d", len(h.names)), fmt.Sprintf("delta-builds=%d", ndelta))
		if h.threshold > 0 {
			cl = append(cl, "shard-threshold")
		}
		vfCase(coq, vfKey(coq), ndelta >= 1 && len(classes) >= 1, cl, map[string]any{"git_branches": h.names, "threshold": h.threshold, "runs": runDesc})
		os.RemoveAll(indexDir)
		os.RemoveAll(scratch)
	}
}
