package gitindex

// C13 — delta builds expose the same per-branch content as full builds.
// Mapped into /repo/gitindex by `go test -overlay`; never copied into /repo.
//
// One case = one generated history: a real git repository (git CLI: init --bare + fast-import, one commit per changed
// branch and step) over 1-3 branches, whose steps add / modify / delete / rename files, revert a branch to an earlier
// tree, copy a file from another branch, sync a branch to another branch's tree, move a file between branches, swap two
// files — interleaved with gitindex.IndexGitRepo runs (full or delta).  After EVERY run:
//   * Go oracle (the property): for every branch, Search(branch:<b>, Whole) over the index directory
//     (search.NewDirectorySearcher) must return exactly one document per file of `git ls-tree -r <b>` with that blob's
//     content (git blob id recomputed from the returned content), and nothing else;
//   * correspondence: the stack of layers (shards grouped by the build that wrote them: raw documents with their branch
//     sets, read WITHOUT the sidecar, + FileTombstones of the sidecar/metadata) is compared with Model/Delta.v.

import (
	"bytes"
	"context"
	"crypto/sha1"
	"encoding/hex"
	"fmt"
	"os"
	"os/exec"
	"path/filepath"
	"runtime/debug"
	"sort"
	"strings"
	"testing"

	"github.com/sourcegraph/zoekt"
	"github.com/sourcegraph/zoekt/index"
	"github.com/sourcegraph/zoekt/query"
	"github.com/sourcegraph/zoekt/search"
)

var c13Paths = []string{"a.txt", "b.go", "dir/c.txt", "dir/sub/d.md", "e"}
var c13Pool = []string{"alpha\n", "beta\nbeta\n", "gamma content\nsecond line\n", "delta words here\n"}

type c13Gen struct {
	r        *vfRand
	contents []string       // id-1 -> content
	cid      map[string]int // content -> id
	pid      map[string]int // path -> id
}

func (g *c13Gen) content(s string) int {
	if id, ok := g.cid[s]; ok {
		return id
	}
	g.contents = append(g.contents, s)
	g.cid[s] = len(g.contents)
	return len(g.contents)
}

type c13Tree map[string]int // path -> content id

func (t c13Tree) clone() c13Tree {
	o := c13Tree{}
	for k, v := range t {
		o[k] = v
	}
	return o
}
func (t c13Tree) paths() []string {
	ps := make([]string, 0, len(t))
	for p := range t {
		ps = append(ps, p)
	}
	sort.Strings(ps)
	return ps
}
func (t c13Tree) equal(o c13Tree) bool {
	if len(t) != len(o) {
		return false
	}
	for k, v := range t {
		if ov, ok := o[k]; !ok || ov != v {
			return false
		}
	}
	return true
}

func c13Git(t *testing.T, dir string, stdin string, args ...string) string {
	cmd := exec.Command("git", args...)
	cmd.Dir = dir
	cmd.Env = append(os.Environ(), "GIT_CONFIG_GLOBAL=/dev/null", "GIT_CONFIG_SYSTEM=/dev/null", "GIT_CONFIG_NOSYSTEM=1")
	if stdin != "" {
		cmd.Stdin = strings.NewReader(stdin)
	}
	out, err := cmd.CombinedOutput()
	if err != nil {
		t.Fatalf("git %v: %v\n%s", args, err, out)
	}
	return string(out)
}

func c13BlobID(content []byte) string {
	h := sha1.New()
	fmt.Fprintf(h, "blob %d\x00", len(content))
	h.Write(content)
	return hex.EncodeToString(h.Sum(nil))
}

func c13TreeTerm(g *c13Gen, t c13Tree) string {
	if len(t) == 0 {
		return "(@nil (N * N))"
	}
	var xs []string
	for _, p := range t.paths() {
		if t[p] < 0 {
			continue // a gitlink (submodule entry): not a file, never indexed without Options.Submodules
		}
		xs = append(xs, cTuple(cN(uint64(g.pid[p])), cN(uint64(t[p]))))
	}
	if len(xs) == 0 {
		return "(@nil (N * N))"
	}
	return cList(xs)
}

// c13Mutate applies 0-3 random edits to the branch trees; hist = earlier snapshots (for reverts).
func c13Mutate(g *c13Gen, trees []c13Tree, hist [][]c13Tree, classes map[string]bool) {
	r := g.r
	nb := len(trees)
	pick := func(t c13Tree) (string, bool) {
		ps := t.paths()
		if len(ps) == 0 {
			return "", false
		}
		return ps[r.Intn(len(ps))], true
	}
	newContent := func() int {
		if r.Chance(60) {
			return g.content(r.Pick(c13Pool))
		}
		return g.content(fmt.Sprintf("unique text %d\nof the history\n", len(g.contents)))
	}
	ne := r.Intn(4)
	if r.Chance(10) {
		ne = 0
	}
	for e := 0; e < ne; e++ {
		b := r.Intn(nb)
		t := trees[b]
		kindOfEdit := r.Intn(11)
		if r.Chance(30) {
			// replace a submodule entry by a file again
			for _, p := range t.paths() {
				if t[p] < 0 {
					t[p] = newContent()
					classes["gitlink-to-file"] = true
					kindOfEdit = -1
					break
				}
			}
		}
		switch kindOfEdit {
		case 10: // a submodule entry (gitlink) at a path: replaces a file there, may later be replaced by a file again
			p := r.Pick(c13Paths)
			if v, ok := t[p]; ok && v > 0 {
				classes["file-to-gitlink"] = true
			} else {
				classes["add-gitlink"] = true
			}
			t[p] = -(1 + r.Intn(3))
		case 0, 1: // add / modify
			p := r.Pick(c13Paths)
			if v, ok := t[p]; ok && v < 0 {
				classes["gitlink-to-file"] = true
			} else if ok {
				classes["modify"] = true
			} else {
				classes["add"] = true
			}
			t[p] = newContent()
		case 2: // delete
			if p, ok := pick(t); ok {
				delete(t, p)
				classes["delete"] = true
			}
		case 3: // rename
			if p, ok := pick(t); ok {
				q := r.Pick(c13Paths)
				if q != p {
					t[q] = t[p]
					delete(t, p)
					classes["rename"] = true
				}
			}
		case 4: // revert the branch to an earlier tree
			if len(hist) > 0 {
				trees[b] = hist[r.Intn(len(hist))][b].clone()
				classes["revert"] = true
			}
		case 5: // copy a file from another branch (same blob on several branches)
			if nb > 1 {
				b2 := (b + 1 + r.Intn(nb-1)) % nb
				if p, ok := pick(trees[b2]); ok {
					t[p] = trees[b2][p]
					classes["copy-from-branch"] = true
				}
			}
		case 6: // sync the branch to another branch's tree (merge / fast-forward)
			if nb > 1 {
				b2 := (b + 1 + r.Intn(nb-1)) % nb
				trees[b] = trees[b2].clone()
				classes["sync-branch"] = true
			}
		case 7: // move a file to another branch
			if nb > 1 {
				b2 := (b + 1 + r.Intn(nb-1)) % nb
				if p, ok := pick(t); ok {
					trees[b2][p] = t[p]
					delete(t, p)
					classes["move-between-branches"] = true
				}
			}
		case 8: // swap two files
			p, ok1 := pick(t)
			q, ok2 := pick(t)
			if ok1 && ok2 && p != q {
				t[p], t[q] = t[q], t[p]
				classes["swap"] = true
			}
		case 9: // same path, different content on every branch
			p := r.Pick(c13Paths)
			for i := range trees {
				trees[i][p] = newContent()
			}
			classes["all-branches-modify"] = true
		}
	}
}

type c13ShardObs struct {
	id    string
	docs  []string // coq odoc terms, sorted
	tombs []int
}

func TestVerifC13(t *testing.T) {
	r := vfNewRand(vfSeed())
	n := vfN(25)
	// every shard builder allocates 2 x 16 MiB pointer tables; with the default GOGC most of the time goes into rescanning them
	defer debug.SetGCPercent(debug.SetGCPercent(1000))
	root, err := os.MkdirTemp(os.Getenv("VERIF_TMP"), "c13-")
	if err != nil {
		t.Fatal(err)
	}
	defer os.RemoveAll(root)
	allNames := []string{"main", "dev", "rel"}
	for ci := 0; ci < n; ci++ {
		g := &c13Gen{r: r, cid: map[string]int{}, pid: map[string]int{}}
		for i, p := range c13Paths {
			g.pid[p] = i + 1
		}
		nb := 1 + r.Intn(3)
		if r.Chance(50) {
			nb = 2
		}
		names := allNames[:nb]
		// sometimes index HEAD (-> main) as an additional branch: one commit under two branch names
		withHead := r.Chance(25)
		idxNames := append([]string(nil), names...)
		if withHead {
			idxNames = append([]string{"HEAD"}, names...)
		}
		shardMax := 0
		if r.Chance(30) {
			shardMax = 40 + r.Intn(60) // several shards per build
		}
		repoDir := filepath.Join(root, fmt.Sprintf("h%d.git", ci))
		indexDir := filepath.Join(root, fmt.Sprintf("h%d.idx", ci))
		scratch := filepath.Join(root, fmt.Sprintf("h%d.raw", ci))
		os.MkdirAll(indexDir, 0o755)
		os.MkdirAll(scratch, 0o755)
		c13Git(t, root, "", "init", "-q", "--bare", repoDir)
		c13Git(t, repoDir, "", "symbolic-ref", "HEAD", "refs/heads/main")
		trees := make([]c13Tree, nb)
		committed := make([]c13Tree, nb)
		for i := range trees {
			trees[i] = c13Tree{}
		}
		// initial content
		for i := range trees {
			for _, p := range c13Paths {
				if r.Chance(45) {
					trees[i][p] = g.content(r.Pick(c13Pool))
				}
			}
		}
		if r.Chance(20) {
			trees[r.Intn(nb)][r.Pick(c13Paths)] = -1 // starts with a submodule entry somewhere
		}
		var hist [][]c13Tree
		nsteps := 2 + r.Intn(5)
		var runTerms, obsTerms []string
		var runDesc []map[string]any
		classes := map[string]bool{}
		ndelta := 0
		failed := false
		for step := 0; step < nsteps && !failed; step++ {
			if step > 0 {
				c13Mutate(g, trees, hist, classes)
			}
			// ---- commit the changed branches
			var fi bytes.Buffer
			for i, name := range names {
				if committed[i] != nil && committed[i].equal(trees[i]) {
					continue
				}
				fmt.Fprintf(&fi, "commit refs/heads/%s\ncommitter V <v@example.com> %d +0000\ndata 5\nstep\n\n", name, 1700000000+step*100+i)
				if committed[i] != nil {
					fmt.Fprintf(&fi, "from refs/heads/%s^0\n", name)
				}
				fi.WriteString("deleteall\n")
				for _, p := range trees[i].paths() {
					if v := trees[i][p]; v < 0 {
						fmt.Fprintf(&fi, "M 160000 %040x %s\n", -v, p)
						continue
					}
					c := g.contents[trees[i][p]-1]
					fmt.Fprintf(&fi, "M 100644 inline %s\ndata %d\n%s\n", p, len(c), c)
				}
				fi.WriteString("\n")
				committed[i] = trees[i].clone()
			}
			if fi.Len() > 0 {
				c13Git(t, repoDir, fi.String(), "fast-import", "--quiet", "--force")
			}
			snapCopy := make([]c13Tree, nb)
			for i := range trees {
				snapCopy[i] = trees[i].clone()
			}
			hist = append(hist, snapCopy)
			// ---- index
			delta := step > 0 && r.Chance(75)
			if step == 0 && r.Chance(15) {
				delta = true // requested delta without an index: falls back to a full build
			}
			if delta {
				ndelta++
			}
			opts := Options{
				RepoDir:  repoDir,
				Branches: append([]string(nil), idxNames...),
				BuildOptions: index.Options{
					IndexDir:              indexDir,
					RepositoryDescription: zoekt.Repository{Name: "repo", ID: 5},
					IsDelta:               delta,
					DisableCTags:          true,
					ShardMax:              shardMax,
				},
			}
			// the trees the indexed branches point at (HEAD mirrors main)
			idxTrees := trees
			if withHead {
				idxTrees = append([]c13Tree{trees[0]}, trees...)
			}
			var treeTerms []string
			var treeDesc []map[string]int
			for i := range idxTrees {
				treeTerms = append(treeTerms, c13TreeTerm(g, idxTrees[i]))
				treeDesc = append(treeDesc, map[string]int(idxTrees[i].clone()))
			}
			kind := "Full"
			if delta {
				kind = "Delta"
			}
			runTerms = append(runTerms, cTuple(cList(treeTerms), kind))
			runDesc = append(runDesc, map[string]any{"kind": kind, "trees(path->content id)": treeDesc})
			replay := func() map[string]any {
				return map[string]any{"branches": idxNames, "shard_max": shardMax, "paths(id-1)": c13Paths, "contents(id-1)": g.contents, "runs": runDesc,
					"how": "props/C13/NOTES.md (replay): commit the listed trees per run with git fast-import, call gitindex.IndexGitRepo with IsDelta per kind"}
			}
			// sometimes a ".meta" sidecar WITHOUT shard waits at the next shard number (left by a run killed between removing a
			// shard and its sidecar): it tombstones every path and carries old branch versions. The build must not let its new
			// shard be read through it (Builder.Finish removes it first, fix b31ad3a).
			if step > 0 && r.Chance(15) {
				old, _ := filepath.Glob(filepath.Join(indexDir, "*.zoekt"))
				if len(old) > 0 {
					sort.Strings(old)
					if repos, _, err := index.ReadMetadataPath(old[0]); err == nil && len(repos) == 1 {
						orphan := *repos[0]
						orphan.FileTombstones = map[string]struct{}{}
						for _, p := range c13Paths {
							orphan.FileTombstones[p] = struct{}{}
						}
						shard := filepath.Join(indexDir, fmt.Sprintf("repo_v%d.%05d.zoekt", index.IndexFormatVersion, len(old)))
						if tmp, final, err := index.JsonMarshalRepoMetaTemp(shard, &orphan); err == nil {
							os.Rename(tmp, final)
							classes["orphan-sidecar"] = true
						}
					}
				}
			}
			if _, err := IndexGitRepo(opts); err != nil {
				vfOracleFail("index-error", "IndexGitRepo returned an error: "+err.Error(), replay())
				failed = true
				break
			}
			// ---- Go oracle: per-branch view vs git tree
			ss, err := search.NewDirectorySearcher(indexDir)
			if err != nil {
				t.Fatal(err)
			}
			for _, name := range idxNames {
				want := map[string]string{}
				ref := "refs/heads/" + name
				if name == "HEAD" {
					ref = "HEAD"
				}
				for _, l := range strings.Split(strings.TrimSpace(c13Git(t, repoDir, "", "ls-tree", "-r", ref)), "\n") {
					if l == "" {
						continue
					}
					tab := strings.IndexByte(l, '\t')
					f := strings.Fields(l[:tab])
					if f[1] != "blob" {
						continue // gitlink
					}
					want[l[tab+1:]] = f[2]
				}
				res, err := ss.Search(context.Background(), &query.Branch{Pattern: name, Exact: true}, &zoekt.SearchOptions{Whole: true})
				if err != nil {
					t.Fatal(err)
				}
				got := map[string][]string{}
				for _, f := range res.Files {
					got[f.FileName] = append(got[f.FileName], c13BlobID(f.Content))
				}
				for p, ids := range got {
					w, ok := want[p]
					switch {
					case !ok:
						vfOracleFail("stale-doc:path-absent-from-head", fmt.Sprintf("run %d (%s): branch %s finds %s which is not in its head commit", step, kind, name, p), replay())
					case len(ids) > 1:
						vfOracleFail("duplicate-doc", fmt.Sprintf("run %d (%s): branch %s finds %d documents for %s", step, kind, name, len(ids), p), replay())
					case ids[0] != w:
						vfOracleFail("stale-doc:old-content", fmt.Sprintf("run %d (%s): branch %s finds %s with content that is not the head's", step, kind, name, p), replay())
					}
				}
				for p := range want {
					if _, ok := got[p]; !ok {
						vfOracleFail("missing-doc", fmt.Sprintf("run %d (%s): branch %s does not find %s of its head commit", step, kind, name, p), replay())
					}
				}
			}
			ss.Close()
			// ---- correspondence: the shard stack
			fns, _ := filepath.Glob(filepath.Join(indexDir, "*.zoekt"))
			sort.Strings(fns)
			var shards []c13ShardObs
			for _, fn := range fns {
				repos, md, err := index.ReadMetadataPath(fn)
				if err != nil || len(repos) != 1 {
					t.Fatalf("ReadMetadataPath(%s): %v", fn, err)
				}
				so := c13ShardObs{id: md.ID}
				for p := range repos[0].FileTombstones {
					so.tombs = append(so.tombs, g.pid[p])
				}
				sort.Ints(so.tombs)
				// raw documents: the shard read without its sidecar
				raw := filepath.Join(scratch, filepath.Base(fn))
				b, _ := os.ReadFile(fn)
				os.WriteFile(raw, b, 0o644)
				f, err := os.Open(raw)
				if err != nil {
					t.Fatal(err)
				}
				inf, err := index.NewIndexFile(f)
				if err != nil {
					t.Fatal(err)
				}
				s, err := index.NewSearcher(inf)
				if err != nil {
					t.Fatal(err)
				}
				res, err := s.Search(context.Background(), &query.Const{Value: true}, &zoekt.SearchOptions{Whole: true})
				if err != nil {
					t.Fatal(err)
				}
				for _, fm := range res.Files {
					var bs []int
					for _, bn := range fm.Branches {
						for i, nm := range idxNames {
							if nm == bn {
								bs = append(bs, i)
							}
						}
					}
					sort.Ints(bs)
					so.docs = append(so.docs, cTuple(cN(uint64(g.pid[fm.FileName])), cN(uint64(g.cid[string(fm.Content)])), cNatList(bs)))
				}
				s.Close() // only now: file names / contents of the result point into the mapped shard
				os.Remove(raw)
				sort.Strings(so.docs)
				shards = append(shards, so)
			}
			// group consecutive shards of one build into a layer
			var layers []string
			for i := 0; i < len(shards); {
				j := i
				docs := []string{}
				for j < len(shards) && shards[j].id == shards[i].id {
					if fmt.Sprint(shards[j].tombs) != fmt.Sprint(shards[i].tombs) {
						vfOracleFail("layer-tombstones-differ", "shards written by one build carry different FileTombstones", replay())
					}
					docs = append(docs, shards[j].docs...)
					j++
				}
				dt := "(@nil odoc)"
				if len(docs) > 0 {
					dt = cList(docs)
				}
				var ts []uint64
				for _, x := range shards[i].tombs {
					ts = append(ts, uint64(x))
				}
				layers = append(layers, cTuple(dt, cNList(ts)))
				i = j
			}
			lt := "(@nil olayer)"
			if len(layers) > 0 {
				lt = cList(layers)
			}
			obsTerms = append(obsTerms, lt)
		}
		if failed || len(runTerms) == 0 {
			continue
		}
		coq := cTuple(cNat(len(idxNames)), cList(runTerms), cList(obsTerms))
		var cl []string
		for k := range classes {
			cl = append(cl, k)
		}
		sort.Strings(cl)
		cl = append(cl, fmt.Sprintf("branches=%d", len(idxNames)), fmt.Sprintf("deltas=%d", ndelta))
		if withHead {
			cl = append(cl, "HEAD-alias")
		}
		if shardMax > 0 {
			cl = append(cl, "multi-shard-builds")
		}
		vfCase(coq, vfKey(coq), ndelta >= 1 && len(classes) >= 1, cl, map[string]any{"branches": idxNames, "shard_max": shardMax, "runs": runDesc})
		os.RemoveAll(repoDir)
		os.RemoveAll(indexDir)
		os.RemoveAll(scratch)
	}
}
