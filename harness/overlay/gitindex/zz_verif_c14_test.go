package gitindex

// C14 correspondence + oracles, three parts (record keys are prefixed "cat:", "slab:", "git:"):
//   cat:  the real catfileReader driven in-process over synthetic `cat-file --batch` response streams with
//         random read plans (full reads, partial reads, skips, reads past EOF, truncated/malformed streams)
//   slab: the real contentSlab.alloc on random size sequences (aliasing oracle + offset arithmetic)
//   git:  repositories generated with the git CLI (plumbing: hash-object / update-index / write-tree /
//         commit-tree), indexed with IndexGitRepo through the go-git path and the cat-file path, shards read
//         back, compared with an oracle built from `git ls-tree -r` / `git cat-file`, with the Coq model and
//         with each other.
// Mapped into /repo/gitindex by `go test -overlay`.

import (
	"bufio"
	"bytes"
	"context"
	"fmt"
	"io"
	"os"
	"os/exec"
	"path/filepath"
	"sort"
	"strconv"
	"strings"
	"testing"
	"time"

	"github.com/gobwas/glob"

	"github.com/sourcegraph/zoekt"
	"github.com/sourcegraph/zoekt/ignore"
	"github.com/sourcegraph/zoekt/index"
	"github.com/sourcegraph/zoekt/query"
)

// ---------------------------------------------------------------- part 1: catfile reader

type vfC14Chunk struct {
	data []byte
	r    *vfRand
	max  int
}

func (c *vfC14Chunk) Read(p []byte) (int, error) {
	if len(c.data) == 0 {
		return 0, io.EOF
	}
	n := 1 + c.r.Intn(c.max)
	if n > len(p) {
		n = len(p)
	}
	if n > len(c.data) {
		n = len(c.data)
	}
	copy(p, c.data[:n])
	c.data = c.data[n:]
	return n, nil
}

type vfC14Resp struct {
	kind    int // 0 present, 1 missing, 2 excluded
	content []byte
}

func vfC14GenContent(r *vfRand) []byte {
	switch c := r.Intn(100); {
	case c < 12:
		return nil
	case c < 20:
		return []byte("\n")
	case c < 30:
		return []byte("0123456789abcdef0123456789abcdef01234567 missing\n")
	case c < 38:
		return []byte("x blob 3\nabc\n")
	case c < 46:
		b := make([]byte, 40+r.Intn(120))
		for i := range b {
			b[i] = "ab \n\x00z"[r.Intn(6)]
		}
		return b
	}
	words := []string{"foo", "bar\n", " ", "é", "\n\n", "package main", " excluded"}
	var sb strings.Builder
	for i := 0; i < 1+r.Intn(6); i++ {
		sb.WriteString(r.Pick(words))
	}
	return []byte(sb.String())
}

func vfC14Code(err error) int {
	switch {
	case err == nil:
		return 0
	case err == io.EOF:
		return 1
	}
	return 2
}

func vfC14CatfilePart(r *vfRand, n int) {
	for i := 0; i < n; i++ {
		nresp := 1 + r.Intn(5)
		if r.Chance(8) {
			nresp = 0
		}
		var resps []vfC14Resp
		var stream []byte
		for j := 0; j < nresp; j++ {
			oid := fmt.Sprintf("%040x", r.U64())
			switch c := r.Intn(100); {
			case c < 12:
				resps = append(resps, vfC14Resp{kind: 1})
				stream = append(stream, []byte(oid+" missing\n")...)
			case c < 22:
				resps = append(resps, vfC14Resp{kind: 2})
				stream = append(stream, []byte(oid+" excluded\n")...)
			default:
				content := vfC14GenContent(r)
				resps = append(resps, vfC14Resp{kind: 0, content: content})
				stream = append(stream, []byte(fmt.Sprintf("%s blob %d\n", oid, len(content)))...)
				stream = append(stream, content...)
				stream = append(stream, '\n')
			}
		}
		wellFormed := true
		class := "well-formed"
		if r.Chance(22) && len(stream) > 0 {
			wellFormed = false
			switch r.Intn(5) {
			case 0:
				stream = stream[:r.Intn(len(stream))]
				class = "truncated"
			case 1:
				stream = append([]byte("garbage-without-space\n"), stream...)
				class = "header-without-space"
			case 2:
				stream = append([]byte("0123 blob 12x\nabc\n"), stream...)
				class = "non-numeric-size"
			case 3:
				stream = append([]byte("0123 blob 99999999999999999999\n"), stream...)
				class = "size-overflow"
			default:
				stream = append([]byte("0123 blob 7\nabc\n"), stream...)
				class = "size-larger-than-content"
			}
		}
		bufSize := 16 + r.Intn(48)
		if r.Chance(20) {
			bufSize = 512 * 1024
		}
		cr := &catfileReader{reader: bufio.NewReaderSize(&vfC14Chunk{data: append([]byte(nil), stream...), r: r, max: 1 + r.Intn(40)}, bufSize)}
		var ops, outs []string
		var opsReplay []string
		// oracle bookkeeping
		entry := -1 // index of the response the last successful Next reported
		var delivered []byte
		sawEOF := false
		fails := map[string]bool{}
		checkEntry := func() {
			if !wellFormed || entry < 0 || entry >= len(resps) || resps[entry].kind != 0 {
				return
			}
			c := resps[entry].content
			if !bytes.HasPrefix(c, delivered) {
				fails["cat:wrong-bytes"] = true
			}
			if sawEOF && !bytes.Equal(c, delivered) {
				fails["cat:eof-before-all-content"] = true
			}
		}
		nops := 3 + r.Intn(4*(nresp+2))
		for k := 0; k < nops; k++ {
			if r.Chance(30) {
				checkEntry()
				size, missing, excluded, err := cr.Next()
				ops = append(ops, "ONext")
				opsReplay = append(opsReplay, "Next")
				var out string
				switch {
				case err == io.EOF:
					out = "NEOF"
				case err != nil:
					out = "NErr"
				case missing:
					out = "NMissing"
				case excluded:
					out = "NExcluded"
				default:
					out = "(NEntry " + cZ(int64(size)) + ")"
				}
				outs = append(outs, "(OutNext "+out+")")
				delivered, sawEOF = nil, false
				if wellFormed {
					entry++
					switch {
					case entry >= len(resps):
						if err != io.EOF {
							fails["cat:no-eof-after-last-entry"] = true
						}
					case err != nil:
						fails["cat:next-error-on-well-formed-stream"] = true
					case missing != (resps[entry].kind == 1) || excluded != (resps[entry].kind == 2):
						fails["cat:wrong-entry-kind"] = true
					case resps[entry].kind == 0 && size != len(resps[entry].content):
						fails["cat:wrong-size"] = true
					}
				}
				continue
			}
			want := r.Intn(24)
			if r.Chance(10) {
				want = 200
			}
			if r.Chance(4) {
				want = 0
			}
			p := make([]byte, want)
			m, err := cr.Read(p)
			ops = append(ops, fmt.Sprintf("(ORead %d %d)", want, max(m, 1)))
			opsReplay = append(opsReplay, fmt.Sprintf("Read(%d)", want))
			outs = append(outs, "(OutRead "+cBytes(p[:m])+" "+[]string{"RNil", "REOF", "RErr"}[vfC14Code(err)]+")")
			delivered = append(delivered, p[:m]...)
			if err == io.EOF {
				sawEOF = true
			}
			if wellFormed && err != nil && err != io.EOF {
				fails["cat:read-error-on-well-formed-stream"] = true
			}
			checkEntry()
		}
		for key := range fails {
			vfOracleFail(key, "catfileReader does not deliver the blob bytes in order under this read plan", map[string]any{
				"stream": string(stream), "bufio_size": bufSize, "ops": opsReplay,
				"how": "catfileReader{reader: bufio.NewReaderSize(chunked reader over stream, bufio_size)}; apply ops; compare Next results and concatenated Read data with the responses in the stream"})
		}
		opsT, outsT := "[]", "[]"
		if len(ops) > 0 {
			opsT, outsT = cList(ops), cList(outs)
		}
		vfCase(cTuple(cBytes(stream), opsT, outsT), "cat:"+vfKey(stream, ops), nresp >= 2 && len(ops) >= 4,
			[]string{"cat:" + class, fmt.Sprintf("cat:resps=%d", nresp), fmt.Sprintf("cat:ops=%d", min(len(ops)/4*4, 16))},
			map[string]any{"part": "catfile", "stream_len": len(stream), "responses": nresp, "ops": len(ops), "class": class})
	}
}

// ---------------------------------------------------------------- part 2: content slab

func vfC14SlabPart(r *vfRand, n int) {
	for i := 0; i < n; i++ {
		capN := 8 + r.Intn(56)
		s := newContentSlab(capN)
		na := 1 + r.Intn(14)
		var sizes, obs []string
		var slices [][]byte
		for k := 0; k < na; k++ {
			var sz int
			switch c := r.Intn(100); {
			case c < 8:
				sz = 0
			case c < 16:
				sz = capN
			case c < 26:
				sz = capN + 1 + r.Intn(20)
			default:
				sz = 1 + r.Intn(capN/2)
			}
			b := s.alloc(sz)
			for j := range b {
				b[j] = byte(k + 1)
			}
			if len(b) != sz || cap(b) != sz {
				vfOracleFail("slab:len-cap", "alloc(n) does not return a slice with len = cap = n", map[string]any{"cap": capN, "n": sz, "len": len(b), "capOf": cap(b)})
			}
			sizes = append(sizes, strconv.Itoa(sz))
			obs = append(obs, cPair(cN(uint64(len(b))), cN(uint64(cap(b)))))
			slices = append(slices, b)
			if r.Chance(25) && len(slices) > 0 { // appending to a returned slice must not clobber a neighbour
				v := slices[r.Intn(len(slices))]
				_ = append(v, 0xEE, 0xEE, 0xEE)
			}
		}
		for k, b := range slices {
			for _, c := range b {
				if c != byte(k+1) {
					vfOracleFail("slab:alias", "a slice returned by alloc was overwritten through another one", map[string]any{"cap": capN, "sizes": sizes, "victim": k})
					break
				}
			}
		}
		vfCase(cTuple(cN(uint64(capN)), "["+strings.Join(sizes, ";")+"]%N", cList(obs)), "slab:"+vfKey(capN, sizes), na >= 3,
			[]string{"slab:allocs"}, map[string]any{"part": "slab", "cap": capN, "sizes": strings.Join(sizes, ",")})
	}
}

// ---------------------------------------------------------------- part 3: repositories through IndexGitRepo

type vfC14Entry struct {
	Path    string
	Mode    string // 100644 100755 120000 160000
	Content []byte // blob content (link target for 120000); nil for gitlinks
}

type vfC14Doc struct {
	Name     string
	Branches []string
	Content  []byte
}

func vfC14Git(t *testing.T, dir string, stdin []byte, env []string, args ...string) string {
	cmd := exec.Command("git", args...)
	cmd.Dir = dir
	cmd.Env = append(os.Environ(), "GIT_CONFIG_GLOBAL=/dev/null", "GIT_CONFIG_SYSTEM=/dev/null",
		"GIT_AUTHOR_NAME=v", "GIT_AUTHOR_EMAIL=v@example.com", "GIT_COMMITTER_NAME=v", "GIT_COMMITTER_EMAIL=v@example.com",
		"GIT_AUTHOR_DATE=2024-01-01T00:00:00Z", "GIT_COMMITTER_DATE=2024-01-01T00:00:00Z")
	cmd.Env = append(cmd.Env, env...)
	if stdin != nil {
		cmd.Stdin = bytes.NewReader(stdin)
	}
	out, err := cmd.Output()
	if err != nil {
		msg := ""
		if ee, ok := err.(*exec.ExitError); ok {
			msg = string(ee.Stderr)
		}
		t.Fatalf("git %v: %v %s", args, err, msg)
	}
	return string(out)
}

var vfC14Dirs = []string{"", "", "src/", "src/lib/", "docs/", "a b/", "vendor/x/", "gen/"}
var vfC14Files = []string{"main.go", "util.go", "README.md", "é.txt", "data.big", "x", "run.sh", "link", "notes.tmp", "c#.txt"}

func vfC14GenBlob(r *vfRand, sizeMax int) []byte {
	words := []string{"foo", "bar", "func", "main", "é", "x", "package", "\t", "return 1"}
	switch c := r.Intn(100); {
	case c < 6:
		return []byte{}
	case c < 11:
		return []byte(strings.Repeat("a", 1+r.Intn(2)))
	case c < 19:
		b := []byte("bin" + r.Pick(words))
		b = append(b, 0)
		return append(b, []byte(r.Pick(words))...)
	case c < 33:
		n := sizeMax - 2 + r.Intn(6)
		b := make([]byte, n)
		for i := range b {
			b[i] = "abcdefg \n"[r.Intn(9)]
		}
		return b
	case c < 37:
		return []byte{0xff, 0xfe, 'a', 'b', 0x80, '\n', 'c'}
	case c < 50: // a small pool, so that identical blobs show up at several paths
		return []byte(r.Pick([]string{"shared content one\n", "shared content two\n", "package main\n"}))
	}
	var sb strings.Builder
	nl := 1 + r.Intn(3)
	for i := 0; i < nl; i++ {
		for j := 0; j < 1+r.Intn(4); j++ {
			sb.WriteString(r.Pick(words))
			sb.WriteByte(' ')
		}
		sb.WriteByte('\n')
	}
	return []byte(sb.String())
}

func vfC14GenEntry(r *vfRand, path string, sizeMax int) vfC14Entry {
	switch c := r.Intn(100); {
	case c < 68:
		return vfC14Entry{Path: path, Mode: "100644", Content: vfC14GenBlob(r, sizeMax)}
	case c < 78:
		return vfC14Entry{Path: path, Mode: "100755", Content: vfC14GenBlob(r, sizeMax)}
	case c < 88:
		return vfC14Entry{Path: path, Mode: "120000", Content: []byte(r.Pick([]string{"main.go", "../README.md", "/etc/hostname", "shared content one\n", "x"}))}
	}
	return vfC14Entry{Path: path, Mode: "160000"}
}

// vfC14SubtreeSnapshot: the entries below directory src, with their paths relative to it.
func vfC14SubtreeSnapshot(tr map[string]vfC14Entry, src string) (rels []string, ents []vfC14Entry) {
	var ps []string
	for p := range tr {
		if strings.HasPrefix(p, src+"/") {
			ps = append(ps, p)
		}
	}
	sort.Strings(ps)
	for _, p := range ps {
		rels = append(rels, p[len(src):])
		ents = append(ents, tr[p])
	}
	return
}

// vfC14PlaceSubtree puts a snapshot at dst, replacing whatever is there: same names, modes and blobs => the same tree object.
func vfC14PlaceSubtree(tr map[string]vfC14Entry, dst string, rels []string, ents []vfC14Entry) {
	for p := range tr {
		if p == dst || strings.HasPrefix(p, dst+"/") {
			delete(tr, p)
		}
	}
	for i, rel := range rels {
		e := ents[i]
		e.Path = dst + rel
		tr[e.Path] = e
	}
}

// vfC14CopySubtree copies an existing directory of the tree to another place (a sibling, a vendored copy, below itself, ...).
func vfC14CopySubtree(r *vfRand, tr map[string]vfC14Entry) {
	dirSet := map[string]bool{}
	for p := range tr {
		for i := 0; i < len(p); i++ {
			if p[i] == '/' {
				dirSet[p[:i]] = true
			}
		}
	}
	if len(dirSet) == 0 {
		return
	}
	dirs := vfSortedKeys(dirSet)
	src := dirs[r.Intn(len(dirs))]
	base := src[strings.LastIndex(src, "/")+1:]
	dst := r.Pick([]string{"copy", "vendor/x", "third_party/" + base, src + ".bak", src + "/inner", "pkg/a/testdata", "pkg/b/testdata",
		"src/lib/dup", "a b/" + base, "gen/" + base})
	if dst == src || strings.HasPrefix(src+"/", dst+"/") {
		return
	}
	rels, ents := vfC14SubtreeSnapshot(tr, src)
	vfC14PlaceSubtree(tr, dst, rels, ents)
}

// vfC14Fixtures puts one small directory (possibly with a subdirectory) at two or three places.
func vfC14Fixtures(r *vfRand, tr map[string]vfC14Entry, sizeMax int) {
	names := []string{"/golden.txt", "/input.json", "/sub/case1.txt", "/sub/deeper/x", "/sub/run.sh", "/é.txt"}
	var rels []string
	var ents []vfC14Entry
	used := map[string]bool{}
	for k := 0; k < 1+r.Intn(4); k++ {
		rel := r.Pick(names)
		if used[rel] {
			continue
		}
		used[rel] = true
		rels = append(rels, rel)
		ents = append(ents, vfC14GenEntry(r, rel, sizeMax))
	}
	places := []string{"pkg/a/testdata", "pkg/b/testdata", "testdata", "lib/x", "vendor/x", "src/testdata", "src/lib/testdata"}
	n := 2 + r.Intn(2)
	for k := 0; k < n; k++ {
		vfC14PlaceSubtree(tr, places[r.Intn(len(places))], rels, ents)
	}
}

// vfC14NameRejected: the entry names go-git's tree walker refuses (pathutil.ValidTreePath; only used to classify a finding).
func vfC14NameRejected(name string) bool {
	for i := 0; i < len(name); i++ {
		if name[i] < 0x20 || name[i] == 0x7f {
			return true
		}
	}
	parts := strings.FieldsFunc(name, func(c rune) bool { return c == '\\' || c == '/' })
	if len(parts) == 0 {
		return true
	}
	for _, q := range parts {
		if l := strings.ToLower(q); q == "." || q == ".." || l == ".git" || l == "git~1" {
			return true
		}
	}
	return false
}

func vfC14PathRejected(p string) bool {
	for _, c := range strings.Split(p, "/") {
		if vfC14NameRejected(c) {
			return true
		}
	}
	return false
}

type vfC14Ls struct{ mode, typ, sha, path string }

// vfC14Forest renders the entries of `git ls-tree -r -t` (a directory right before its content) below prefix as a
// Model/GitWalk.v gforest term; id gives the object number of a sha.
func vfC14Forest(ents []vfC14Ls, pos *int, prefix string, id func(string) int) string {
	var items []string
	for *pos < len(ents) && strings.HasPrefix(ents[*pos].path, prefix) {
		e := ents[*pos]
		*pos++
		mode := "GOtherMode"
		switch {
		case e.typ == "tree":
			mode = "GDir"
		case e.typ == "commit":
			mode = "GSubmodule"
		case e.mode == "100644":
			mode = "GRegular"
		case e.mode == "100755":
			mode = "GExec"
		case e.mode == "120000":
			mode = "GSymlink"
		}
		ch := "GNil"
		if e.typ == "tree" {
			ch = vfC14Forest(ents, pos, e.path+"/", id)
		}
		items = append(items, "GCons "+cStr(e.path[len(prefix):])+" (GNode "+mode+" "+cN(uint64(id(e.sha)))+" "+ch+")")
	}
	out := "GNil"
	for i := len(items) - 1; i >= 0; i-- {
		out = "(" + items[i] + " " + out + ")"
	}
	return out
}

func vfC14ReadShards(dir string) ([]vfC14Doc, error) {
	fs, err := filepath.Glob(filepath.Join(dir, "*.zoekt"))
	if err != nil {
		return nil, err
	}
	sort.Strings(fs)
	var docs []vfC14Doc
	for _, fn := range fs {
		f, err := os.Open(fn)
		if err != nil {
			return nil, err
		}
		inf, err := index.NewIndexFile(f)
		if err != nil {
			f.Close()
			return nil, err
		}
		s, err := index.NewSearcher(inf)
		if err != nil {
			inf.Close()
			return nil, err
		}
		res, err := s.Search(context.Background(), &query.Const{Value: true}, &zoekt.SearchOptions{
			Whole: true, ShardMaxMatchCount: 1 << 30, TotalMaxMatchCount: 1 << 30, MaxDocDisplayCount: 1 << 30,
		})
		if err != nil {
			s.Close()
			return nil, err
		}
		for _, fm := range res.Files { // copy before Close: the content aliases the mmapped shard
			d := vfC14Doc{Name: strings.Clone(fm.FileName), Content: append([]byte(nil), fm.Content...)}
			for _, b := range fm.Branches {
				d.Branches = append(d.Branches, strings.Clone(b))
			}
			docs = append(docs, d)
		}
		s.Close()
	}
	return docs, nil
}

func vfC14View(content []byte, sizeMax int, allowLarge bool) []byte {
	switch {
	case len(content) > sizeMax && !allowLarge:
		return []byte("NOT-INDEXED: exceeds the maximum size limit")
	case len(content) == 0:
		return content
	case len(content) < 3:
		return []byte("NOT-INDEXED: contains too few trigrams")
	case bytes.IndexByte(content, 0) >= 0:
		return []byte("NOT-INDEXED: contains binary content")
	}
	return content
}

func vfC14SameCounts(a, b map[string]int) bool {
	if len(a) != len(b) {
		return false
	}
	for k, c := range a {
		if b[k] != c {
			return false
		}
	}
	return true
}

func vfC14DocKey(d vfC14Doc) string {
	return d.Name + "\x00" + strings.Join(d.Branches, ",") + "\x00" + string(d.Content)
}

func vfC14CoqDocs(ds []vfC14Doc) string {
	if len(ds) == 0 {
		return "[]"
	}
	xs := make([]string, len(ds))
	for i, d := range ds {
		bs := "[]"
		if len(d.Branches) > 0 {
			b := make([]string, len(d.Branches))
			for j, x := range d.Branches {
				b[j] = cStr(x)
			}
			bs = cList(b)
		}
		xs[i] = cTuple(cStr(d.Name), bs, cBytes(d.Content))
	}
	return cList(xs)
}

// vfC14IgnorePatterns: the documented reading of an ignore file, written independently of ignore.ParseIgnoreFile.
func vfC14IgnorePatterns(content string) []string {
	lines := strings.Split(content, "\n")
	if len(lines) > 0 && lines[len(lines)-1] == "" {
		lines = lines[:len(lines)-1]
	}
	var out []string
	for _, l := range lines {
		l = strings.Trim(l, " \t\r\n\v\f")
		if l == "" || l[0] == '#' {
			continue
		}
		l = strings.TrimPrefix(l, "/")
		if !strings.ContainsAny(l, ".][*?") {
			l += "**"
		}
		out = append(out, l)
	}
	return out
}

func vfC14GitPart(t *testing.T, r *vfRand, n int, tmp string) {
	for i := 0; i < n; i++ {
		caseDir, err := os.MkdirTemp(tmp, "c14g-")
		if err != nil {
			t.Fatal(err)
		}
		repo := filepath.Join(caseDir, "repo")
		os.MkdirAll(repo, 0o755)
		vfC14Git(t, repo, nil, nil, "init", "-q", "-b", "main", ".")
		sizeMax := 30 + r.Intn(40)
		// ---- base tree and per-branch variations
		base := map[string]vfC14Entry{}
		nfiles := 1 + r.Intn(8)
		for j := 0; j < nfiles; j++ {
			p := r.Pick(vfC14Dirs) + r.Pick(vfC14Files)
			base[p] = vfC14GenEntry(r, p, sizeMax)
		}
		if r.Chance(50) { // identical directories at several paths (copies of copies, copies below the original)
			for k := 0; k < 1+r.Intn(3); k++ {
				vfC14CopySubtree(r, base)
			}
		}
		if r.Chance(30) {
			vfC14Fixtures(r, base, sizeMax)
		}
		if r.Chance(10) { // names that git accepts (fsck --strict is silent) and go-git's walker refuses
			for k := 0; k < 1+r.Intn(2); k++ {
				p := r.Pick([]string{"Icon\r", "tab\there.txt", "src/del\x7f.go", "we\tird/f.txt", "we\tird/sub/g.txt", "back\\..", "docs/nl\nname", "\\"})
				base[p] = vfC14GenEntry(r, p, sizeMax)
			}
		}
		patterns := []string{"vendor", "docs/", "*.tmp", "**/*.tmp", "src/lib", "gen/", "# comment", "", "README.md", "**/x", "/a b", "src/*.go", "*.md"}
		branchNames := []string{"main", "dev", "release/1.0"}[:1+r.Intn(3)]
		trees := map[string]map[string]vfC14Entry{}
		for bi, bn := range branchNames {
			tr := map[string]vfC14Entry{}
			for p, e := range base {
				tr[p] = e
			}
			if bi > 0 && !r.Chance(15) { // 15%: identical to the base tree
				nm := 1 + r.Intn(4)
				var ps []string
				for p := range tr {
					ps = append(ps, p)
				}
				sort.Strings(ps)
				for j := 0; j < nm; j++ {
					switch r.Intn(6) {
					case 4: // a directory copied on this branch only
						vfC14CopySubtree(r, tr)
					case 5:
						if r.Chance(40) {
							vfC14Fixtures(r, tr, sizeMax)
						}
					case 0: // change content at an existing path
						if len(ps) > 0 {
							p := ps[r.Intn(len(ps))]
							tr[p] = vfC14GenEntry(r, p, sizeMax)
						}
					case 1: // delete
						if len(ps) > 0 {
							delete(tr, ps[r.Intn(len(ps))])
						}
					case 2: // same blob, other mode
						if len(ps) > 0 {
							p := ps[r.Intn(len(ps))]
							if e, ok := tr[p]; ok && e.Mode == "100644" {
								e.Mode = "100755"
								tr[p] = e
							}
						}
					default: // add
						p := r.Pick(vfC14Dirs) + r.Pick(vfC14Files)
						tr[p] = vfC14GenEntry(r, p, sizeMax)
					}
				}
			}
			if r.Chance(55) { // an ignore file, different per branch
				var lines []string
				var ps []string
				for p := range tr {
					ps = append(ps, p)
				}
				sort.Strings(ps)
				for j := 0; j < 1+r.Intn(3); j++ {
					if len(ps) > 0 && r.Chance(60) {
						p := ps[r.Intn(len(ps))]
						switch r.Intn(4) {
						case 0:
							lines = append(lines, p)
						case 1:
							if k := strings.LastIndex(p, "/"); k >= 0 {
								lines = append(lines, p[:k]+"/")
							} else {
								lines = append(lines, "/"+p)
							}
						case 2:
							lines = append(lines, "**/"+p[strings.LastIndex(p, "/")+1:])
						default:
							if k := strings.LastIndex(p, "."); k > 0 {
								lines = append(lines, "**/*"+p[k:])
							} else {
								lines = append(lines, p+"*")
							}
						}
					} else {
						lines = append(lines, r.Pick(patterns))
					}
				}
				mode := "100644"
				if r.Chance(10) {
					mode = "120000" // go-git reads the link's target text as patterns
				}
				tr[".sourcegraph/ignore"] = vfC14Entry{Path: ".sourcegraph/ignore", Mode: mode, Content: []byte(strings.Join(lines, "\n") + "\n")}
			}
			// drop directory/file conflicts (a path that is a prefix directory of another)
			for p := range tr {
				for q := range tr {
					if p != q && strings.HasPrefix(q, p+"/") {
						delete(tr, p)
					}
				}
			}
			trees[bn] = tr
		}
		// ---- write the objects with git plumbing
		gitlink := "1234567890123456789012345678901234567890"
		shaOf := map[string]string{}
		{ // all distinct blobs with one `git hash-object -w --stdin-paths`
			var contents []string
			seen := map[string]bool{}
			for _, bn := range branchNames {
				var ps []string
				for p := range trees[bn] {
					ps = append(ps, p)
				}
				sort.Strings(ps)
				for _, p := range ps {
					if e := trees[bn][p]; e.Mode != "160000" && !seen[string(e.Content)] {
						seen[string(e.Content)] = true
						contents = append(contents, string(e.Content))
					}
				}
			}
			if len(contents) > 0 {
				var paths bytes.Buffer
				for j, c := range contents {
					fn := filepath.Join(caseDir, "blob-"+strconv.Itoa(j))
					os.WriteFile(fn, []byte(c), 0o644)
					paths.WriteString(fn + "\n")
				}
				shas := strings.Fields(vfC14Git(t, repo, paths.Bytes(), nil, "hash-object", "-w", "--stdin-paths"))
				if len(shas) != len(contents) {
					t.Fatalf("hash-object returned %d ids for %d blobs", len(shas), len(contents))
				}
				for j, c := range contents {
					shaOf[c] = shas[j]
				}
			}
		}
		for _, bn := range branchNames {
			var ps []string
			for p := range trees[bn] {
				ps = append(ps, p)
			}
			sort.Strings(ps)
			var info bytes.Buffer
			for _, p := range ps {
				e := trees[bn][p]
				sha := gitlink
				if e.Mode != "160000" {
					sha = shaOf[string(e.Content)]
				}
				fmt.Fprintf(&info, "%s %s\t%s\x00", e.Mode, sha, p)
			}
			idx := filepath.Join(caseDir, "index-tmp")
			os.Remove(idx)
			env := []string{"GIT_INDEX_FILE=" + idx}
			vfC14Git(t, repo, info.Bytes(), env, "update-index", "-z", "--index-info")
			tree := strings.TrimSpace(vfC14Git(t, repo, nil, env, "write-tree"))
			commit := strings.TrimSpace(vfC14Git(t, repo, []byte("c\n"), nil, "commit-tree", tree))
			vfC14Git(t, repo, nil, nil, "update-ref", "refs/heads/"+bn, commit)
			os.Remove(idx)
		}
		// ---- index through both blob-reading paths
		largeFiles := []string{"*.big", "**/*.big"}
		if r.Chance(20) {
			largeFiles = nil // then the cat-file path needs --filter (git >= 2.50) or falls back to go-git
		}
		run := func(disableCatfile string) ([]vfC14Doc, string) {
			indexDir, _ := os.MkdirTemp(caseDir, "idx-")
			t.Setenv("ZOEKT_DISABLE_CATFILE_BATCH", disableCatfile)
			shardMax := 1 << 14
			if r.Chance(15) {
				shardMax = 80 + r.Intn(100)
			}
			opts := Options{RepoDir: repo, Branches: append([]string(nil), branchNames...), BranchPrefix: "refs/heads",
				BuildOptions: index.Options{IndexDir: indexDir, SizeMax: sizeMax, ShardMax: shardMax, DisableCTags: true, Parallelism: 1 + r.Intn(2),
					LargeFiles: largeFiles, RepositoryDescription: zoekt.Repository{Name: "repo"}}}
			var msg string
			func() {
				defer func() {
					if p := recover(); p != nil {
						msg = "panic: " + fmt.Sprint(p)
					}
				}()
				if _, err := IndexGitRepo(opts); err != nil {
					msg = "error: " + err.Error()
				}
			}()
			if msg != "" {
				return nil, msg
			}
			docs, err := vfC14ReadShards(indexDir)
			if err != nil {
				t.Fatalf("case %d: reading shards: %v", i, err)
			}
			return docs, ""
		}
		docsGoGit, msgA := run("true")
		docsCatfile, msgB := run("false")
		// ---- oracle from the repository itself: git ls-tree -r -t / cat-file
		bopts := index.Options{LargeFiles: largeFiles}
		type okey struct{ path, sha string }
		wantBranches := map[okey][]string{}
		var order []okey
		contentOf := map[string][]byte{}
		idOf := map[string]int{}
		var coqBranches []string
		var globTab []string
		globSeen := map[string]bool{}
		nEntries, nGitlinks, nIgnored, nRejected, nDupBranches := 0, 0, 0, 0, 0
		nestedDup := false
		var blobShas []string
		lsOf := map[string][]vfC14Ls{}
		var allShas bytes.Buffer
		for _, bn := range branchNames {
			out := vfC14Git(t, repo, nil, nil, "ls-tree", "-r", "-t", "-z", "refs/heads/"+bn)
			for _, rec := range strings.Split(out, "\x00") {
				if rec == "" {
					continue
				}
				meta, p, _ := strings.Cut(rec, "\t")
				f := strings.Fields(meta)
				lsOf[bn] = append(lsOf[bn], vfC14Ls{f[0], f[1], f[2], p})
				if f[1] == "blob" {
					allShas.WriteString(f[2] + "\n")
				}
			}
		}
		blobOf := map[string][]byte{} // one `git cat-file --batch` for all blobs; "<sha> blob <size>\n<content>\n"
		if allShas.Len() > 0 {
			out := []byte(vfC14Git(t, repo, allShas.Bytes(), nil, "cat-file", "--batch"))
			for len(out) > 0 {
				nl := bytes.IndexByte(out, '\n')
				f := strings.Fields(string(out[:nl]))
				sz, _ := strconv.Atoi(f[2])
				blobOf[f[0]] = append([]byte(nil), out[nl+1:nl+1+sz]...)
				out = out[nl+1+sz+1:]
			}
		}
		for _, bn := range branchNames {
			ents := lsOf[bn]
			matcher := &ignore.Matcher{}
			for _, e := range ents {
				if e.path == ".sourcegraph/ignore" && e.typ == "blob" {
					matcher, err = ignore.ParseIgnoreFile(bytes.NewReader(blobOf[e.sha]))
					if err != nil {
						t.Fatalf("case %d: generator produced an invalid ignore pattern: %v", i, err)
					}
					// verdicts of the real glob engine for the harness' own reading of the ignore blob
					for _, pat := range vfC14IgnorePatterns(string(blobOf[e.sha])) {
						g, gerr := glob.Compile(pat, '/')
						if gerr != nil {
							t.Fatalf("case %d: pattern %q does not compile: %v", i, pat, gerr)
						}
						for _, e2 := range append([]vfC14Ls{{path: ""}}, ents...) {
							if k := pat + "\x00" + e2.path; g.Match(e2.path) && !globSeen[k] {
								globSeen[k] = true
								globTab = append(globTab, cPair(cStr(pat), cStr(e2.path)))
							}
						}
					}
				}
			}
			treeCount := map[string]int{}
			for _, e := range ents {
				if e.typ == "tree" {
					treeCount[e.sha]++
				}
			}
			dupHere := false
			for _, e := range ents {
				if e.typ == "tree" && treeCount[e.sha] >= 2 {
					dupHere = true
					for _, e2 := range ents {
						if e2.typ == "tree" && strings.HasPrefix(e2.path, e.path+"/") {
							nestedDup = true
						}
					}
				}
				if vfC14PathRejected(e.path) {
					nRejected++
				}
			}
			if dupHere {
				nDupBranches++
			}
			for _, e := range ents {
				if e.typ == "commit" {
					nGitlinks++
				}
				if _, ok := idOf[e.sha]; !ok { // one numbering for blobs, trees and gitlinks: the walker's seen test is on the hash alone
					idOf[e.sha] = len(idOf) + 1
				}
				if e.typ == "blob" {
					if _, ok := contentOf[e.sha]; !ok {
						contentOf[e.sha] = blobOf[e.sha]
						blobShas = append(blobShas, e.sha)
					}
					nEntries++
				}
				if matcher.Match(e.path) && e.typ == "blob" {
					nIgnored++
				}
				if e.typ != "blob" || matcher.Match(e.path) {
					continue
				}
				k := okey{e.path, e.sha}
				if _, ok := wantBranches[k]; !ok {
					order = append(order, k)
				}
				wantBranches[k] = append(wantBranches[k], bn)
			}
			pos := 0
			coqBranches = append(coqBranches, cPair(cStr(bn), vfC14Forest(ents, &pos, "", func(sha string) int { return idOf[sha] })))
			if pos != len(ents) {
				t.Fatalf("case %d: ls-tree output of %s is not in tree order", i, bn)
			}
		}
		want := map[string]int{}
		var largePaths []string
		seenLarge := map[string]bool{}
		for _, k := range order {
			allow := bopts.IgnoreSizeMax(k.path)
			if allow && !seenLarge[k.path] {
				seenLarge[k.path] = true
				largePaths = append(largePaths, cStr(k.path))
			}
			want[vfC14DocKey(vfC14Doc{k.path, wantBranches[k], vfC14View(contentOf[k.sha], sizeMax, allow)})]++
		}
		var rtrees []map[string]any
		for _, bn := range branchNames {
			var es []map[string]any
			var ps []string
			for p := range trees[bn] {
				ps = append(ps, p)
			}
			sort.Strings(ps)
			for _, p := range ps {
				e := trees[bn][p]
				es = append(es, map[string]any{"path": p, "mode": e.Mode, "content": string(e.Content)})
			}
			rtrees = append(rtrees, map[string]any{"branch": bn, "entries": es})
		}
		replay := map[string]any{"branches": rtrees, "size_max": sizeMax, "large_files": largeFiles, "gitlink_sha": gitlink,
			"how": "build each branch with git hash-object -w / update-index --index-info / write-tree / commit-tree / update-ref; IndexGitRepo(Options{RepoDir, Branches, BranchPrefix: refs/heads, BuildOptions{SizeMax, LargeFiles, DisableCTags}}) with ZOEKT_DISABLE_CATFILE_BATCH=true and =false; read the shards with index.NewSearcher + Search(Const true, Whole)"}
		check := func(which string, docs []vfC14Doc, msg string) {
			if msg != "" {
				replay["message"] = msg
				key := "git:" + which + ":error"
				if strings.HasPrefix(msg, "panic") {
					key = "git:" + which + ":panic"
				}
				vfOracleFail(key, "IndexGitRepo fails on a well-formed repository: "+msg, replay)
				return
			}
			got := map[string]int{}
			for _, d := range docs {
				got[vfC14DocKey(d)]++
			}
			want := want
			if nRejected > 0 && !vfC14SameCounts(want, got) {
				// paths with a component go-git's TreeWalker refuses (the walker CollectFiles used up to /repo 39be1f9: a file
				// there was indexed under the name "", a directory was not descended into).  A discrepancy confined to such
				// paths is reported under its own key; everything else must still be exact.
				wantClean, gotClean := map[string]int{}, map[string]int{}
				for k, c := range want {
					if name, _, _ := strings.Cut(k, "\x00"); !vfC14PathRejected(name) {
						wantClean[k] = c
					} else {
						replay["expected_document"] = k
					}
				}
				for k, c := range got {
					if name, _, _ := strings.Cut(k, "\x00"); name != "" {
						gotClean[k] = c
					}
				}
				vfOracleFail("git:"+which+":rejected-entry-name", "an entry whose name go-git's TreeWalker rejects (control character, '\\\\' with a dot part): a file is indexed under the empty name, a directory is not walked", replay)
				delete(replay, "expected_document")
				want, got = wantClean, gotClean
			}
			for k, c := range want {
				if got[k] < c {
					replay["expected_document"] = k
					vfOracleFail("git:"+which+":missing-or-wrong-document", "no document with this (path, branches, content) although the branch trees contain it", replay)
					break
				}
			}
			for k, c := range got {
				if want[k] < c {
					replay["unexpected_document"] = k
					name, _, _ := strings.Cut(k, "\x00")
					onlyGitlink := false
					for _, bn := range branchNames {
						if e, ok := trees[bn][name]; ok {
							if e.Mode != "160000" {
								onlyGitlink = false
								break
							}
							onlyGitlink = true
						}
					}
					if onlyGitlink {
						vfOracleFail("git:"+which+":submodule-document", "a document for a submodule link", replay)
						break
					}
					vfOracleFail("git:"+which+":extra-document", "a document whose (path, branches, content) is not in the branch trees (ignored path, wrong branch list, wrong content, submodule)", replay)
					break
				}
			}
		}
		check("go-git", docsGoGit, msgA)
		check("cat-file", docsCatfile, msgB)
		if msgA == "" && msgB == "" {
			a, b := map[string]int{}, map[string]int{}
			for _, d := range docsGoGit {
				a[vfC14DocKey(d)]++
			}
			for _, d := range docsCatfile {
				b[vfC14DocKey(d)]++
			}
			same := len(a) == len(b)
			for k, c := range a {
				if b[k] != c {
					same = false
				}
			}
			if !same {
				vfOracleFail("git:paths-disagree", "the go-git and the cat-file reading paths produce different documents", replay)
			}
		}
		// ---- correspondence record
		var cblobs []string
		for _, s := range blobShas {
			cblobs = append(cblobs, cPair(cN(uint64(idOf[s])), cBytes(contentOf[s])))
		}
		cb, cl := "[]", "[]"
		if len(cblobs) > 0 {
			cb = cList(cblobs)
		}
		if len(largePaths) > 0 {
			cl = cList(largePaths)
		}
		ct := "[]"
		if len(globTab) > 0 {
			ct = cList(globTab)
		}
		coq := cTuple(cN(uint64(sizeMax)), cl, cb, cList(coqBranches), ct, vfC14CoqDocs(docsGoGit), vfC14CoqDocs(docsCatfile))
		catfileUsed := largeFiles != nil
		dupClass := "none"
		switch {
		case nDupBranches == len(branchNames):
			dupClass = "all-branches"
		case nDupBranches > 0:
			dupClass = "some-branches"
		}
		vfCase(coq, "git:"+vfKey(coq), len(branchNames) >= 2 && nEntries >= 3,
			[]string{fmt.Sprintf("git:branches=%d", len(branchNames)), fmt.Sprintf("git:docs=%d", min(len(docsGoGit)/3*3, 12)),
				fmt.Sprintf("git:gitlinks=%v", nGitlinks > 0), fmt.Sprintf("git:ignored=%v", nIgnored > 0), fmt.Sprintf("git:catfile-path-used=%v", catfileUsed),
				"git:same-tree-at-several-paths=" + dupClass, fmt.Sprintf("git:nested-duplicate=%v", nestedDup), fmt.Sprintf("git:rejected-names=%v", nRejected > 0)},
			map[string]any{"part": "git", "branches": len(branchNames), "blob_entries": nEntries, "gitlinks": nGitlinks, "ignored": nIgnored, "docs": len(docsGoGit),
				"branches_with_duplicate_trees": nDupBranches, "rejected_names": nRejected})
		os.RemoveAll(caseDir)
	}
}

// vfC14DeepPart: one branch with 1024 nested directories (the deepest tree CollectFiles accepts: both files must be indexed)
// and one with 1025 (refused with an error by the current code; IndexGitRepo must come back — with the two documents or
// with an error).  Run under a watchdog because up to /repo 8664339 the second one did not return.
func vfC14DeepPart(t *testing.T, tmp string) {
	for _, depth := range []int{1024, 1025} {
		caseDir, err := os.MkdirTemp(tmp, "c14d-")
		if err != nil {
			t.Fatal(err)
		}
		repo := filepath.Join(caseDir, "repo")
		os.MkdirAll(repo, 0o755)
		vfC14Git(t, repo, nil, nil, "init", "-q", "-b", "main", ".")
		fn := filepath.Join(caseDir, "blob")
		os.WriteFile(fn, []byte("deep content\n"), 0o644)
		sha := strings.TrimSpace(vfC14Git(t, repo, []byte(fn+"\n"), nil, "hash-object", "-w", "--stdin-paths"))
		deep := strings.Repeat("d/", depth) + "f.txt"
		idx := filepath.Join(caseDir, "index-tmp")
		env := []string{"GIT_INDEX_FILE=" + idx}
		vfC14Git(t, repo, []byte(fmt.Sprintf("100644 %s\t%s\x00100644 %s\ttop.txt\x00", sha, deep, sha)), env, "update-index", "-z", "--index-info")
		tree := strings.TrimSpace(vfC14Git(t, repo, nil, env, "write-tree"))
		commit := strings.TrimSpace(vfC14Git(t, repo, []byte("c\n"), nil, "commit-tree", tree))
		vfC14Git(t, repo, nil, nil, "update-ref", "refs/heads/main", commit)
		indexDir := filepath.Join(caseDir, "idx")
		os.MkdirAll(indexDir, 0o755)
		t.Setenv("ZOEKT_DISABLE_CATFILE_BATCH", "true")
		opts := Options{RepoDir: repo, Branches: []string{"main"}, BranchPrefix: "refs/heads",
			BuildOptions: index.Options{IndexDir: indexDir, SizeMax: 1000, DisableCTags: true, RepositoryDescription: zoekt.Repository{Name: "repo"}}}
		replay := map[string]any{"nested_directories": depth, "paths": []string{fmt.Sprintf("d/ x %d + f.txt", depth), "top.txt"},
			"how": "one branch with the files top.txt and d/d/.../d/f.txt, built with update-index --index-info / write-tree / commit-tree; IndexGitRepo(Options{RepoDir, Branches: [main], BranchPrefix: refs/heads}) with ZOEKT_DISABLE_CATFILE_BATCH=true"}
		type res struct {
			err  error
			docs []vfC14Doc
		}
		done := make(chan res, 1)
		go func() {
			defer func() {
				if p := recover(); p != nil {
					done <- res{err: fmt.Errorf("panic: %v", p)}
				}
			}()
			_, err := IndexGitRepo(opts)
			var docs []vfC14Doc
			if err == nil {
				docs, err = vfC14ReadShards(indexDir)
			}
			done <- res{err, docs}
		}()
		wait := 180 * time.Second // generous: only a hanging indexer ever waits this long, a loaded machine must not look like one
		select {
		case r := <-done:
			switch {
			case r.err != nil && strings.HasPrefix(r.err.Error(), "panic"):
				replay["message"] = r.err.Error()
				vfOracleFail("git:deep-tree-panic", "IndexGitRepo panics on a deep tree", replay)
			case r.err != nil && depth <= 1024:
				replay["message"] = r.err.Error()
				vfOracleFail("git:deep-tree-refused-within-limit", "IndexGitRepo fails on a tree with 1024 nested directories (the documented limit)", replay)
			case r.err == nil:
				names := map[string]bool{}
				for _, d := range r.docs {
					names[d.Name] = true
				}
				if len(r.docs) != 2 || !names["top.txt"] || !names[deep] {
					vfOracleFail("git:deep-tree-missing-document", "IndexGitRepo reports success on a deep tree but the documents are not the two files", replay)
				}
			}
			os.RemoveAll(caseDir)
		case <-time.After(wait):
			replay["waited_seconds"] = int(wait / time.Second)
			vfOracleFail("git:deep-tree-hang", "IndexGitRepo does not return on a tree with this many nested directories", replay)
			return // the indexer goroutine keeps running: leave its files alone
		}
	}
}

func TestVerifC14(t *testing.T) {
	r := vfNewRand(vfSeed())
	n := vfN(100)
	tmp := os.Getenv("VERIF_TMP")
	if tmp == "" {
		tmp = t.TempDir()
	}
	vfC14CatfilePart(r, n*3)
	vfC14SlabPart(r, n)
	vfC14GitPart(t, r, n, tmp)
	vfC14DeepPart(t, tmp) // last: a hanging indexer keeps spinning until the test binary exits
}
