package hybridre2

// C28 correspondence (dispatch): the decisions of Compile / useRE2 under the ZOEKT_RE2_THRESHOLD_BYTES value of THIS
// process (the value is read once, so the check starts one process per setting), exported for Model/HybridRe.v.
// Also the oracle of the dispatch itself: for generated valid-UTF-8 inputs (incl. U+FFFD, BOM, U+2028, noncharacters,
// U+10FFFF, control characters) of lengths straddling every threshold, several patterns and several match limits,
// Regexp.FindAllIndex must return exactly what the engine selected by the model returns ON THE SAME BYTES AND LIMIT,
// and must leave the input untouched. Mapped into /repo/internal/hybridre2 by `go test -overlay`.

import (
	"bytes"
	"fmt"
	"math/big"
	"os"
	"testing"
	"unicode/utf8"
)

var vfC28DPieces = []string{"needle", "aab", "ab", "a", "b", "x", " ", " ", "\n", "\n", "\t", "func needle() {}", "K", "k", "\u00e9", "\u4e16\u754c", "\U0001f600",
	"\ufffd", "J\ufffdrgen", "\ufffdneedle", "needle\ufffd", "nee\ufffddle", "\ufeff", "\u2028", "\u2029", "\ufffe", "\uffff", "\U0010ffff", "\U00010000",
	"\ud7ff", "\ue000", "\x01", "\x1f", "\x7f", "\u0085", "\u00a0", "e\u0301", "\u200b", "\r\n", "\u212a", "\u017f"}

var vfC28DPatterns = []string{`a+b?`, `needle`, `(?i)NEEDLE\W`, `\w+`, `[^\n]+`, `\x{FFFD}`, `[^\x{FFFD}]+`, `.`, `(?s).+`, `\pC`, `[\x{FFFE}-\x{10FFFF}]`, `\b`, `$`, `(?m)^.`, `x*`}

// valid UTF-8 of exactly n bytes
func vfC28DInput(r *vfRand, n int, special bool) []byte {
	var b bytes.Buffer
	for b.Len() < n {
		p := r.Pick(vfC28DPieces)
		if !special && r.Chance(70) {
			p = r.Pick(vfC28DPieces[:17])
		}
		if b.Len()+len(p) > n {
			p = r.Pick([]string{"x", "\n", " ", "a", "\n"})
		}
		b.WriteString(p)
	}
	return b.Bytes()
}

func TestVerifC28D(t *testing.T) {
	r := vfNewRand(vfSeed())
	// the environment as the model sees it: unset / set to a text that is not the decimal form of an int64 / a number.
	// Independent reading of the setting (harness side): optional sign, decimal digits, must fit int64.
	envTerm := "EnvUnset"
	rawEnv, isSet := os.LookupEnv("ZOEKT_RE2_THRESHOLD_BYTES")
	if isSet {
		envTerm = "EnvBad"
		ok := rawEnv != ""
		for i, c := range rawEnv {
			if !(c >= '0' && c <= '9') && !(i == 0 && (c == '+' || c == '-') && len(rawEnv) > 1) {
				ok = false
			}
		}
		if ok {
			if v, ok2 := new(big.Int).SetString(rawEnv, 10); ok2 && v.IsInt64() {
				envTerm = "(EnvInt " + cZ(v.Int64()) + ")"
			}
		}
	}
	envShown := rawEnv
	if !isSet {
		envShown = "(unset)"
	}
	probe := MustCompile(`a+b?`)
	res := make([]*Regexp, len(vfC28DPatterns))
	for i, p := range vfC28DPatterns {
		res[i] = MustCompile(p)
	}
	lens := []int{0, 1, 2, 3, 63, 64, 65, 4095, 4096, 4097, 100000}
	for i := 0; i < vfN(40); i++ {
		switch {
		case i%4 == 0:
			lens = append(lens, r.Intn(130))
		case i%4 == 1:
			lens = append(lens, 4000+r.Intn(200))
		default:
			lens = append(lens, r.Intn(6000))
		}
	}
	limits := []int{-1, -1, 1, 2, 5, 0}
	for li, n := range lens {
		used := useRE2(n)
		coq := cTuple(envTerm, cNat(n), cBool(probe.re2 != nil), cBool(used))
		vfCase(coq, vfKey(envTerm, n), n > 0, []string{"env=" + envShown, fmt.Sprint("used=", used)},
			map[string]any{"env": envShown, "len": n, "re2_compiled": probe.re2 != nil, "use_re2": used})
		// the dispatching FindAllIndex must return what the selected engine returns on the same bytes and limit
		in := vfC28DInput(r, n, li%2 == 0)
		if !utf8.Valid(in) || len(in) != n {
			t.Fatalf("generator: invalid input (len %d, want %d)", len(in), n)
		}
		keep := append([]byte(nil), in...)
		for k := 0; k < 4; k++ {
			pi := (li + k*7 + r.Intn(3)) % len(res)
			re := res[pi]
			lim := limits[(li+k)%len(limits)]
			got := fmt.Sprint(re.FindAllIndex(in, lim))
			selected := "grafana"
			want := fmt.Sprint(re.grafana.FindAllIndex(keep, lim))
			if used && re.re2 != nil {
				selected = "re2"
				want = fmt.Sprint(re.re2.FindAllIndex(keep, lim))
			}
			if !bytes.Equal(in, keep) {
				vfOracleFail("dispatch-mutates-input", "FindAllIndex changed the caller's bytes",
					map[string]any{"env": envShown, "len": n, "pattern": vfC28DPatterns[pi], "limit": lim, "content": string(keep)})
				copy(in, keep)
			}
			if got != want {
				rp := map[string]any{"env": envShown, "len": n, "pattern": vfC28DPatterns[pi], "limit": lim, "selected_engine": selected,
					"re2_compiled": re.re2 != nil, "got": vfC28DTrunc(got), "selected_engine_on_same_bytes": vfC28DTrunc(want)}
				if n <= 5000 {
					rp["content"] = string(keep)
				} else {
					rp["content_prefix"] = string(keep[:2000])
				}
				vfOracleFail("dispatch-result", "Regexp.FindAllIndex does not return the selected engine's result on the same bytes and limit", rp)
			}
		}
	}
}

func vfC28DTrunc(s string) string {
	if len(s) > 400 {
		return s[:400] + "..."
	}
	return s
}
