package hybridre2

// C28 correspondence (dispatch): the decisions of Compile / useRE2 under the ZOEKT_RE2_THRESHOLD_BYTES value of THIS
// process (the value is read once, so the check starts one process per setting), exported for Model/HybridRe.v.
// Also a direct engine comparison on the dispatch boundary. Mapped into /repo/internal/hybridre2 by `go test -overlay`.

import (
	"fmt"
	"os"
	"strconv"
	"strings"
	"testing"
)

func TestVerifC28D(t *testing.T) {
	r := vfNewRand(vfSeed())
	envTerm := "None"
	if v, ok := os.LookupEnv(envThreshold); ok {
		if n, err := strconv.ParseInt(v, 10, 64); err == nil { // independent re-reading of the setting (harness side)
			envTerm = cSome(cZ(n))
		}
	}
	re := MustCompile(`a+b?`)
	lens := []int{0, 1, 2, 63, 64, 65, 4095, 4096, 4097, 100000}
	for i := 0; i < vfN(40); i++ {
		lens = append(lens, r.Intn(6000))
	}
	for _, n := range lens {
		used := useRE2(n)
		coq := cTuple(envTerm, cNat(n), cBool(re.re2 != nil), cBool(used))
		vfCase(coq, vfKey(envTerm, n), n > 0, []string{"env=" + os.Getenv(envThreshold), fmt.Sprint("used=", used)},
			map[string]any{"env": os.Getenv(envThreshold), "len": n, "re2_compiled": re.re2 != nil, "use_re2": used})
		// the dispatching FindAllIndex must return what the engine it claims to use returns
		in := []byte(strings.Repeat("xaab ", n/5+1)[:n])
		got := fmt.Sprint(re.FindAllIndex(in, -1))
		want := fmt.Sprint(re.grafana.FindAllIndex(in, -1))
		if used && re.re2 != nil {
			want = fmt.Sprint(re.re2.FindAllIndex(in, -1))
		}
		if got != want {
			vfOracleFail("dispatch-result", "FindAllIndex does not return the selected engine's result", map[string]any{"env": os.Getenv(envThreshold), "len": n})
		}
	}
}
