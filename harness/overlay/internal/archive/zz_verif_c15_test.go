package archive

// C15 (archive half) correspondence + oracle: generated tar / tar.gz / zip archives through the real
// archive.Index; shards read back with index.NewSearcher; document multiset compared with a Go oracle
// (here) and with the Coq model (Model/DirWalk.v: archive_index). Mapped in by `go test -overlay`.

import (
	"archive/tar"
	"archive/zip"
	"bytes"
	"compress/gzip"
	"context"
	"fmt"
	"os"
	"path/filepath"
	"sort"
	"strings"
	"testing"

	"github.com/sourcegraph/zoekt"
	"github.com/sourcegraph/zoekt/index"
	"github.com/sourcegraph/zoekt/query"
)

type vfC15Member struct {
	Kind int // 0 regular, 1 directory, 2 symlink, 3 other (hard link, fifo, device)
	Name string
	Data []byte
}

type vfC15Doc struct {
	Name    string
	Content []byte
}

func vfC15GenData(r *vfRand, sizeMax int) []byte {
	words := []string{"foo", "bar", "func", "main", "é", "x", "package", "\t", "return 1"}
	switch c := r.Intn(100); {
	case c < 8:
		return nil
	case c < 16: // too small (1-2 bytes)
		return []byte(strings.Repeat("a", 1+r.Intn(2)))
	case c < 26: // binary
		b := []byte("bin" + r.Pick(words))
		b = append(b, 0)
		return append(b, []byte(r.Pick(words))...)
	case c < 38: // around / above SizeMax
		n := sizeMax - 2 + r.Intn(6)
		b := make([]byte, n)
		for i := range b {
			b[i] = "abcdefg \n"[r.Intn(9)]
		}
		return b
	case c < 44: // not valid UTF-8
		return []byte{0xff, 0xfe, 'a', 'b', 0x80, '\n', 'c'}
	}
	var sb strings.Builder
	nl := 1 + r.Intn(3)
	for i := 0; i < nl; i++ {
		nw := 1 + r.Intn(4)
		for j := 0; j < nw; j++ {
			sb.WriteString(r.Pick(words))
			sb.WriteByte(' ')
		}
		if i < nl-1 || r.Bool() {
			sb.WriteByte('\n')
		}
	}
	return []byte(sb.String())
}

func vfC15GenName(r *vfRand) string {
	comps := []string{"a", "b", "src", "lib", "x.go", "README.md", "é.txt", "a b", "_", "pkg", "v1.2", "c#"}
	n := 1 + r.Intn(4)
	parts := make([]string, n)
	for i := range parts {
		parts[i] = r.Pick(comps)
	}
	name := strings.Join(parts, "/")
	switch c := r.Intn(100); {
	case c < 5:
		name = "/" + name
	case c < 10:
		name = "./" + name
	case c < 14:
		name = strings.Replace(name, "/", "//", 1)
	case c < 17: // long name: forces PAX / GNU long-name records in tar
		name = name + "/" + strings.Repeat("long", 30) + ".txt"
	}
	return name
}

func vfC15GenMembers(r *vfRand, sizeMax int) ([]vfC15Member, string) {
	class := "general"
	var ms []vfC15Member
	switch c := r.Intn(100); {
	case c < 8:
		return nil, "empty"
	case c < 18:
		class = "no-regular"
		n := 1 + r.Intn(4)
		for i := 0; i < n; i++ {
			k := 1
			if r.Chance(30) {
				k = 2 + r.Intn(2)
			}
			ms = append(ms, vfC15Member{Kind: k, Name: vfC15GenName(r)})
		}
	default:
		n := 1 + r.Intn(7)
		for i := 0; i < n; i++ {
			k := 0
			if r.Chance(30) {
				k = 1 + r.Intn(3)
			}
			m := vfC15Member{Kind: k, Name: vfC15GenName(r)}
			if len(ms) > 0 && r.Chance(8) { // duplicate member name
				m.Name = ms[r.Intn(len(ms))].Name
			}
			if k == 0 {
				m.Data = vfC15GenData(r, sizeMax)
			}
			ms = append(ms, m)
		}
	}
	for i := range ms {
		if ms[i].Kind == 2 {
			ms[i].Data = []byte(vfC15GenName(r)) // link target
		}
	}
	return ms, class
}

func vfC15WriteTar(w *bytes.Buffer, ms []vfC15Member, r *vfRand) error {
	tw := tar.NewWriter(w)
	for i, m := range ms {
		h := &tar.Header{Name: m.Name, Mode: 0o644, ModTime: modTime}
		switch m.Kind {
		case 0:
			h.Typeflag = tar.TypeReg
			h.Size = int64(len(m.Data))
		case 1:
			h.Typeflag = tar.TypeDir
			h.Name = m.Name + "/"
			h.Mode = 0o755
		case 2:
			h.Typeflag = tar.TypeSymlink
			h.Linkname = string(m.Data)
		default:
			switch i % 3 {
			case 0:
				h.Typeflag = tar.TypeLink
				h.Linkname = "a/b"
			case 1:
				h.Typeflag = tar.TypeFifo
			default:
				h.Typeflag = tar.TypeChar
			}
		}
		if err := tw.WriteHeader(h); err != nil {
			return err
		}
		if m.Kind == 0 {
			if _, err := tw.Write(m.Data); err != nil {
				return err
			}
		}
	}
	return tw.Close()
}

func vfC15WriteZip(w *bytes.Buffer, ms []vfC15Member, r *vfRand) error {
	zw := zip.NewWriter(w)
	for _, m := range ms {
		h := &zip.FileHeader{Name: m.Name, Modified: modTime}
		if r.Bool() {
			h.Method = zip.Deflate
		}
		var body []byte
		switch m.Kind {
		case 0:
			if r.Bool() {
				h.SetMode(0o644)
			}
			body = m.Data
		case 1:
			h.Name = m.Name + "/"
			h.SetMode(os.ModeDir | 0o755)
		case 2:
			h.SetMode(os.ModeSymlink | 0o777)
			body = m.Data
		default:
			h.SetMode(os.ModeNamedPipe | 0o644)
		}
		f, err := zw.CreateHeader(h)
		if err != nil {
			return err
		}
		if len(body) > 0 {
			if _, err := f.Write(body); err != nil {
				return err
			}
		}
	}
	return zw.Close()
}

func vfC15RunIndex(opts Options, bopts index.Options) (code int, msg string) {
	defer func() {
		if p := recover(); p != nil {
			code, msg = 2, fmt.Sprint(p)
		}
	}()
	if err := Index(opts, bopts); err != nil {
		return 1, err.Error()
	}
	return 0, ""
}

// vfC15ReadShards returns every document (name, stored content) of every shard in dir.
func vfC15ReadShards(dir string) ([]vfC15Doc, error) {
	fs, err := filepath.Glob(filepath.Join(dir, "*.zoekt"))
	if err != nil {
		return nil, err
	}
	sort.Strings(fs)
	var docs []vfC15Doc
	for _, fn := range fs {
		f, err := os.Open(fn)
		if err != nil {
			return nil, err
		}
		inf, err := index.NewIndexFile(f)
		if err != nil {
			f.Close()
			return nil, err
		}
		s, err := index.NewSearcher(inf)
		if err != nil {
			inf.Close()
			return nil, err
		}
		res, err := s.Search(context.Background(), &query.Const{Value: true}, &zoekt.SearchOptions{
			Whole: true, ShardMaxMatchCount: 1 << 30, TotalMaxMatchCount: 1 << 30, MaxDocDisplayCount: 1 << 30,
		})
		if err != nil {
			s.Close()
			return nil, err
		}
		for _, fm := range res.Files { // copy before Close: the content aliases the mmapped shard
			docs = append(docs, vfC15Doc{Name: strings.Clone(fm.FileName), Content: append([]byte(nil), fm.Content...)})
		}
		s.Close()
	}
	return docs, nil
}

// vfC15View: what the shard shows for a document handed to Builder.Add with this content.
func vfC15View(content []byte, sizeMax int) []byte {
	switch {
	case len(content) > sizeMax:
		return []byte("NOT-INDEXED: exceeds the maximum size limit")
	case len(content) == 0:
		return content
	case len(content) < 3:
		return []byte("NOT-INDEXED: contains too few trigrams")
	case bytes.IndexByte(content, 0) >= 0:
		return []byte("NOT-INDEXED: contains binary content")
	}
	return content
}

// oracle's own reading of "strip n leading path elements"
func vfC15Strip(name string, n int) string {
	for i := 0; i < n; i++ {
		if name == "" {
			return ""
		}
		parts := strings.SplitN(name, "/", 2)
		if len(parts) < 2 {
			return ""
		}
		name = parts[1]
	}
	return name
}

func vfC15DocKey(d vfC15Doc) string { return d.Name + "\x00" + string(d.Content) }

func vfC15CoqDocs(ds []vfC15Doc) string {
	if len(ds) == 0 {
		return "[]"
	}
	xs := make([]string, len(ds))
	for i, d := range ds {
		xs[i] = cPair(cStr(d.Name), cBytes(d.Content))
	}
	return cList(xs)
}

func TestVerifC15(t *testing.T) {
	r := vfNewRand(vfSeed())
	n := vfN(150)
	tmp := os.Getenv("VERIF_TMP")
	if tmp == "" {
		tmp = t.TempDir()
	}
	for i := 0; i < n; i++ {
		sizeMax := 24 + r.Intn(40)
		ms, class := vfC15GenMembers(r, sizeMax)
		strip := r.Intn(4)
		if r.Chance(30) {
			strip = 0
		}
		if r.Chance(5) {
			strip = 6 // strips every member away: builder created, no document
		}
		format := []string{"tar", "tgz", "zip"}[r.Intn(3)]
		var buf bytes.Buffer
		var werr error
		switch format {
		case "tar":
			werr = vfC15WriteTar(&buf, ms, r)
		case "tgz":
			var inner bytes.Buffer
			werr = vfC15WriteTar(&inner, ms, r)
			gw := gzip.NewWriter(&buf)
			gw.Write(inner.Bytes())
			gw.Close()
		case "zip":
			werr = vfC15WriteZip(&buf, ms, r)
		}
		if werr != nil {
			t.Fatalf("case %d: cannot write %s archive: %v", i, format, werr)
		}
		caseDir, err := os.MkdirTemp(tmp, "c15a-")
		if err != nil {
			t.Fatal(err)
		}
		apath := filepath.Join(caseDir, "in."+format)
		if err := os.WriteFile(apath, buf.Bytes(), 0o644); err != nil {
			t.Fatal(err)
		}
		indexDir := filepath.Join(caseDir, "idx")
		os.MkdirAll(indexDir, 0o755)
		shardMax := 1 << 14 // (the default of 100 MB makes every builder pre-size a huge postings map)
		if r.Chance(15) {
			shardMax = 60 + r.Intn(100) // several shards
		}
		bopts := index.Options{IndexDir: indexDir, SizeMax: sizeMax, ShardMax: shardMax, DisableCTags: true, Parallelism: 1 + r.Intn(2)}
		code, msg := vfC15RunIndex(Options{Archive: apath, Name: "repo", Branch: "main", Commit: "0123456789abcdef0123456789abcdef01234567", Strip: strip}, bopts)
		var docs []vfC15Doc
		if code == 0 {
			docs, err = vfC15ReadShards(indexDir)
			if err != nil {
				t.Fatalf("case %d: reading shards: %v", i, err)
			}
		}
		// ---- Go-side oracle: the property itself
		var rms []map[string]any
		for _, m := range ms {
			rms = append(rms, map[string]any{"kind": m.Kind, "name": m.Name, "data": string(m.Data)})
		}
		replay := map[string]any{"format": format, "strip": strip, "size_max": sizeMax, "members": rms, "result": code, "message": msg,
			"how": "write the members in this order into a " + format + " archive, run archive.Index(Options{Archive, Name:\"repo\", Branch:\"main\", Strip}, index.Options{IndexDir, SizeMax, DisableCTags:true})"}
		nreg := 0
		want := map[string]int{}
		for _, m := range ms {
			if m.Kind != 0 {
				continue
			}
			nreg++
			if nm := vfC15Strip(m.Name, strip); nm != "" {
				want[vfC15DocKey(vfC15Doc{nm, vfC15View(m.Data, sizeMax)})]++
			}
		}
		switch code {
		case 2:
			key := "archive:panic"
			if nreg == 0 {
				key = "archive:panic:no-regular-member"
			}
			vfOracleFail(key, "archive.Index panics: "+msg, replay)
		case 1:
			key := "archive:error"
			if format == "zip" && len(ms) == 0 {
				// (repaired in /repo) a zip without entries starts with PK\x05\x06, which http.DetectContentType
				// does not report as application/zip: openArchive used to read it as a tar stream
				key = "archive:error:empty-zip-not-recognised"
			}
			vfOracleFail(key, "archive.Index fails on a well-formed archive: "+msg, replay)
		default:
			got := map[string]int{}
			for _, d := range docs {
				got[vfC15DocKey(d)]++
			}
			for k, c := range want {
				if got[k] < c {
					replay["missing"] = k
					vfOracleFail("archive:missing-document", "a regular member has no document with its stripped name and content", replay)
					break
				}
			}
			for k, c := range got {
				if want[k] < c {
					replay["extra"] = k
					vfOracleFail("archive:extra-document", "a document that is not a regular member (after stripping)", replay)
					break
				}
			}
		}
		// ---- correspondence record
		cms := make([]string, len(ms))
		for j, m := range ms {
			cms[j] = cTuple(cN(uint64(m.Kind)), cStr(m.Name), cBytes(m.Data))
		}
		cmsT := "[]"
		if len(cms) > 0 {
			cmsT = cList(cms)
		}
		coq := cTuple(cN(uint64(strip)), cN(uint64(sizeMax)), cmsT, cN(uint64(code)), vfC15CoqDocs(docs))
		if nreg == 0 && class == "general" {
			class = "no-regular"
		}
		vfCase(coq, vfKey(format, strip, sizeMax, cms), nreg >= 1 && len(ms) >= 2,
			[]string{"format=" + format, "class=" + class, fmt.Sprintf("strip=%d", strip), fmt.Sprintf("docs=%d", min(len(docs), 5))},
			map[string]any{"format": format, "strip": strip, "members": len(ms), "regular": nreg, "docs": len(docs), "result": code})
		os.RemoveAll(caseDir)
	}
}
