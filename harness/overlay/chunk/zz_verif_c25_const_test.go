package chunk

// C25 translator: reports grpc/chunk's unexported maxMessageSize so that the server-side harness and the
// model use the constant of the current working tree (not a copy).

import "testing"

func TestVerifC25Const(t *testing.T) {
	vfInfo(map[string]any{"maxMessageSize": maxMessageSize})
}
