package web

// C36 translator, part 3: the BODIES of the functions registered in a template.FuncMap literal of package web, translated
// from the source (go/ast + go/types) into the Go subset of coq/Model/WebFuncsAst.v -> coq/Generated/WebFuncBodies.v.
// Constant expressions are folded with go/types' constant values. A construct outside the subset makes the whole function
// "opaque" (gf_body = None, gf_why = the construct): such a function is tied to the hand model by the correspondence only.

import (
	"fmt"
	"go/ast"
	"go/constant"
	"go/token"
	"go/types"
	"strconv"
	"strings"
)

type vfC36BT struct {
	info  *types.Info
	scope map[string]int // variable -> block depth of its declaration
	depth int
	why   string
}

func (b *vfC36BT) fail(format string, a ...any) string {
	if b.why == "" {
		b.why = fmt.Sprintf(format, a...)
	}
	return "(EInt 0%Z)"
}

func vfC36BS(x string) string { return vfC36CoqString(x) + "%string" }

func vfC36BOpt(s string, ok bool) string {
	if !ok {
		return "None"
	}
	return "(Some " + s + ")"
}

func (b *vfC36BT) exprs(es []ast.Expr) string {
	if len(es) == 0 {
		return "(@nil gexp)"
	}
	var xs []string
	for _, e := range es {
		xs = append(xs, b.expr(e))
	}
	return "[" + strings.Join(xs, "; ") + "]"
}

func (b *vfC36BT) expr(e ast.Expr) string {
	if tv, ok := b.info.Types[e]; ok && tv.Value != nil {
		switch tv.Value.Kind() {
		case constant.Int:
			if v, exact := constant.Int64Val(tv.Value); exact {
				return "(EInt " + cZ(v) + ")"
			}
			return b.fail("integer constant outside int64")
		case constant.String:
			return "(EStr " + vfC36Bytes([]byte(constant.StringVal(tv.Value))) + ")"
		case constant.Bool:
			return "(EBool " + cBool(constant.BoolVal(tv.Value)) + ")"
		}
		return b.fail("constant of kind %v", tv.Value.Kind())
	}
	switch x := e.(type) {
	case *ast.ParenExpr:
		return b.expr(x.X)
	case *ast.Ident:
		if _, ok := b.scope[x.Name]; !ok {
			return b.fail("identifier %s is not a parameter or local variable", x.Name)
		}
		return "(EVar " + vfC36BS(x.Name) + ")"
	case *ast.BinaryExpr:
		op, ok := map[token.Token]string{token.ADD: "BAdd", token.SUB: "BSub", token.MUL: "BMul", token.QUO: "BQuo", token.LSS: "BLt", token.GTR: "BGt",
			token.LEQ: "BLe", token.GEQ: "BGe", token.EQL: "BEq", token.NEQ: "BNe", token.LAND: "BAnd", token.LOR: "BOr"}[x.Op]
		if !ok {
			return b.fail("operator %s", x.Op)
		}
		if !b.scalar(x.X) || !b.scalar(x.Y) {
			return b.fail("operator %s on %s", x.Op, b.typeOf(x.X))
		}
		return "(EBin " + op + " " + b.expr(x.X) + " " + b.expr(x.Y) + ")"
	case *ast.UnaryExpr:
		switch x.Op {
		case token.NOT:
			return "(ENot " + b.expr(x.X) + ")"
		case token.SUB:
			if b.scalar(x.X) {
				return "(EBin BSub (EInt 0%Z) " + b.expr(x.X) + ")"
			}
		}
		return b.fail("unary operator %s", x.Op)
	case *ast.IndexExpr:
		if b.typeOf(x.X) != "string" {
			return b.fail("index expression on %s", b.typeOf(x.X))
		}
		return "(EIndex " + b.expr(x.X) + " " + b.expr(x.Index) + ")"
	case *ast.SliceExpr:
		if b.typeOf(x.X) != "string" || x.Slice3 {
			return b.fail("slice expression on %s", b.typeOf(x.X))
		}
		lo, hi := "None", "None"
		if x.Low != nil {
			lo = vfC36BOpt(b.expr(x.Low), true)
		}
		if x.High != nil {
			hi = vfC36BOpt(b.expr(x.High), true)
		}
		return "(ESlice " + b.expr(x.X) + " " + lo + " " + hi + ")"
	case *ast.CallExpr:
		if tv, ok := b.info.Types[x.Fun]; ok && tv.IsType() { // conversion
			to := types.TypeString(tv.Type, nil)
			if len(x.Args) == 1 && (to == "int" || to == "int64") && (b.typeOf(x.Args[0]) == "int" || b.typeOf(x.Args[0]) == "int64") {
				return b.expr(x.Args[0]) // both 64 bit
			}
			return b.fail("conversion to %s", to)
		}
		if id, ok := x.Fun.(*ast.Ident); ok {
			if _, isBuiltin := b.info.Uses[id].(*types.Builtin); isBuiltin && id.Name == "len" && len(x.Args) == 1 && b.typeOf(x.Args[0]) == "string" {
				return "(ELen " + b.expr(x.Args[0]) + ")"
			}
			return b.fail("call of %s", id.Name)
		}
		if sel, ok := x.Fun.(*ast.SelectorExpr); ok {
			if fn, ok := b.info.Uses[sel.Sel].(*types.Func); ok && fn.Pkg() != nil && x.Ellipsis == token.NoPos {
				full := fn.Pkg().Path() + "." + fn.Name()
				if full == "fmt.Sprintf" && len(x.Args) >= 1 {
					if tv, ok := b.info.Types[x.Args[0]]; ok && tv.Value != nil && tv.Value.Kind() == constant.String {
						return "(ESprintf " + vfC36Bytes([]byte(constant.StringVal(tv.Value))) + " " + b.exprs(x.Args[1:]) + ")"
					}
					return b.fail("fmt.Sprintf with a computed format")
				}
				switch full {
				case "strings.TrimSuffix", "strings.HasSuffix", "strings.HasPrefix", "unicode/utf8.RuneStart", "strconv.Itoa":
					return "(ECall " + vfC36BS(full) + " " + b.exprs(x.Args) + ")"
				}
				return b.fail("call of %s", full)
			}
		}
		return b.fail("call of %s", types.ExprString(x.Fun))
	}
	return b.fail("expression %T", e)
}

func (b *vfC36BT) typeOf(e ast.Expr) string {
	if tv, ok := b.info.Types[e]; ok && tv.Type != nil {
		if bt, ok := tv.Type.Underlying().(*types.Basic); ok {
			switch bt.Kind() {
			case types.Int, types.UntypedInt:
				return "int"
			case types.Int64:
				return "int64"
			case types.String, types.UntypedString:
				return "string"
			case types.Bool, types.UntypedBool:
				return "bool"
			case types.Uint8, types.UntypedRune, types.Int32:
				return "byte" // s[i] and rune literals: small non-negative integers
			}
		}
		return types.TypeString(tv.Type, nil)
	}
	return "?"
}

// operands the interpreter has values for; bytes only in comparisons with constants / other bytes (no arithmetic wrap at 8 bits)
func (b *vfC36BT) scalar(e ast.Expr) bool {
	switch b.typeOf(e) {
	case "int", "int64", "string", "bool":
		return true
	case "byte":
		return true
	}
	return false
}

func (b *vfC36BT) zero(t types.Type) string {
	if bt, ok := t.Underlying().(*types.Basic); ok {
		switch bt.Kind() {
		case types.Int, types.Int64:
			return "(EInt 0%Z)"
		case types.String:
			return "(EStr (@nil N))"
		case types.Bool:
			return "(EBool false)"
		}
	}
	return b.fail("variable of type %s", types.TypeString(t, nil))
}

func (b *vfC36BT) declare(name string, define bool) {
	if name == "_" {
		b.fail("blank identifier")
		return
	}
	d, ok := b.scope[name]
	if define {
		if ok && d < b.depth {
			b.fail("variable %s shadows an outer one", name)
			return
		}
		b.scope[name] = b.depth
	} else if !ok {
		b.fail("assignment to %s which is not a local variable", name)
	}
}

func (b *vfC36BT) block(ss []ast.Stmt) string {
	b.depth++
	var out []string
	for _, s := range ss {
		out = append(out, b.stmt(s)...)
	}
	for k, d := range b.scope {
		if d == b.depth {
			delete(b.scope, k)
		}
	}
	b.depth--
	if len(out) == 0 {
		return "(@nil gstmt)"
	}
	return "[" + strings.Join(out, ";\n      ") + "]"
}

func (b *vfC36BT) set(name string, e string) string {
	return "SSet " + vfC36BS(name) + " " + e
}

func (b *vfC36BT) stmt(s ast.Stmt) []string {
	switch x := s.(type) {
	case *ast.BlockStmt:
		b.fail("nested block")
		return nil
	case *ast.EmptyStmt:
		return nil
	case *ast.ReturnStmt:
		if len(x.Results) != 1 {
			b.fail("return with %d results", len(x.Results))
			return nil
		}
		return []string{"SReturn " + b.expr(x.Results[0])}
	case *ast.AssignStmt:
		if len(x.Lhs) != 1 || len(x.Rhs) != 1 {
			b.fail("multiple assignment")
			return nil
		}
		id, ok := x.Lhs[0].(*ast.Ident)
		if !ok {
			b.fail("assignment to %s", types.ExprString(x.Lhs[0]))
			return nil
		}
		rhs := b.expr(x.Rhs[0])
		if !b.scalar(x.Rhs[0]) || b.typeOf(x.Rhs[0]) == "byte" {
			b.fail("variable %s of type %s", id.Name, b.typeOf(x.Rhs[0]))
		}
		switch x.Tok {
		case token.DEFINE:
			b.declare(id.Name, true)
			return []string{b.set(id.Name, rhs)}
		case token.ASSIGN:
			b.declare(id.Name, false)
			return []string{b.set(id.Name, rhs)}
		}
		op, ok := map[token.Token]string{token.ADD_ASSIGN: "BAdd", token.SUB_ASSIGN: "BSub", token.MUL_ASSIGN: "BMul", token.QUO_ASSIGN: "BQuo"}[x.Tok]
		if !ok {
			b.fail("assignment operator %s", x.Tok)
			return nil
		}
		b.declare(id.Name, false)
		return []string{b.set(id.Name, "(EBin "+op+" (EVar "+vfC36BS(id.Name)+") "+rhs+")")}
	case *ast.IncDecStmt:
		id, ok := x.X.(*ast.Ident)
		if !ok {
			b.fail("++/-- on %s", types.ExprString(x.X))
			return nil
		}
		b.declare(id.Name, false)
		op := "BAdd"
		if x.Tok == token.DEC {
			op = "BSub"
		}
		return []string{b.set(id.Name, "(EBin "+op+" (EVar "+vfC36BS(id.Name)+") (EInt 1%Z))")}
	case *ast.DeclStmt:
		gd, ok := x.Decl.(*ast.GenDecl)
		if !ok || gd.Tok != token.VAR {
			b.fail("declaration %v", x.Decl)
			return nil
		}
		var out []string
		for _, sp := range gd.Specs {
			vs := sp.(*ast.ValueSpec)
			for i, nm := range vs.Names {
				var rhs string
				if i < len(vs.Values) {
					rhs = b.expr(vs.Values[i])
				} else if obj := b.info.Defs[nm]; obj != nil {
					rhs = b.zero(obj.Type())
				} else {
					rhs = b.fail("variable %s without type information", nm.Name)
				}
				b.declare(nm.Name, true)
				out = append(out, b.set(nm.Name, rhs))
			}
		}
		return out
	case *ast.IfStmt:
		var out []string
		if x.Init != nil {
			b.fail("if with an init statement")
			return nil
		}
		c := b.expr(x.Cond)
		t := b.block(x.Body.List)
		e := "(@nil gstmt)"
		switch el := x.Else.(type) {
		case nil:
		case *ast.BlockStmt:
			e = b.block(el.List)
		case *ast.IfStmt:
			b.depth++
			inner := b.stmt(el)
			b.depth--
			e = "[" + strings.Join(inner, "; ") + "]"
		default:
			b.fail("else %T", x.Else)
		}
		return append(out, "SIf "+c+"\n      "+t+"\n      "+e)
	case *ast.ForStmt:
		var out []string
		b.depth++ // the init statement's variables live in the loop's scope
		if x.Init != nil {
			out = append(out, b.stmt(x.Init)...)
		}
		c := "(EBool true)"
		if x.Cond != nil {
			c = b.expr(x.Cond)
		}
		hasJump := false
		ast.Inspect(x.Body, func(n ast.Node) bool {
			if br, ok := n.(*ast.BranchStmt); ok {
				hasJump = true
				_ = br
			}
			return true
		})
		if hasJump {
			b.fail("break/continue/goto in a loop")
		}
		b.depth++
		var body []string
		for _, s := range x.Body.List {
			body = append(body, b.stmt(s)...)
		}
		if x.Post != nil {
			body = append(body, b.stmt(x.Post)...)
		}
		for k, d := range b.scope {
			if d >= b.depth {
				delete(b.scope, k)
			}
		}
		b.depth--
		for k, d := range b.scope {
			if d >= b.depth {
				delete(b.scope, k)
			}
		}
		b.depth--
		bl := "(@nil gstmt)"
		if len(body) > 0 {
			bl = "[" + strings.Join(body, ";\n        ") + "]"
		}
		return append(out, "SFor "+c+"\n      "+bl)
	}
	b.fail("statement %T", s)
	return nil
}

// vfC36FuncBody finds the code behind a FuncMap value: a function literal, or the declaration of a named package function;
// a literal that only forwards its parameters to a package function (return F(p1, ..., pn)) stands for that function.
func vfC36FuncBody(info *types.Info, files []*ast.File, v ast.Expr) (*ast.FuncType, *ast.BlockStmt, string) {
	declOf := func(id *ast.Ident) (*ast.FuncType, *ast.BlockStmt) {
		fn, ok := info.Uses[id].(*types.Func)
		if !ok {
			return nil, nil
		}
		for _, f := range files {
			for _, d := range f.Decls {
				if fd, ok := d.(*ast.FuncDecl); ok && fd.Recv == nil && info.Defs[fd.Name] == fn && fd.Body != nil {
					return fd.Type, fd.Body
				}
			}
		}
		return nil, nil
	}
	switch x := v.(type) {
	case *ast.FuncLit:
		if len(x.Body.List) == 1 {
			if rs, ok := x.Body.List[0].(*ast.ReturnStmt); ok && len(rs.Results) == 1 {
				if call, ok := rs.Results[0].(*ast.CallExpr); ok {
					if id, ok := call.Fun.(*ast.Ident); ok {
						var ps []string
						for _, f := range x.Type.Params.List {
							for _, n := range f.Names {
								ps = append(ps, n.Name)
							}
						}
						same := len(ps) == len(call.Args)
						for i := range call.Args {
							if a, ok := call.Args[i].(*ast.Ident); !ok || !same || a.Name != ps[i] {
								same = false
							}
						}
						if same {
							if ft, body := declOf(id); body != nil {
								return ft, body, ""
							}
						}
					}
				}
			}
		}
		return x.Type, x.Body, ""
	case *ast.Ident:
		if ft, body := declOf(x); body != nil {
			return ft, body, ""
		}
		return nil, nil, "the value " + x.Name + " is not a function declared in package web"
	}
	return nil, nil, fmt.Sprintf("the value is a %T", v)
}

func vfC36BodiesGenText() (string, map[string]any, error) {
	if vfC36TInfo == nil {
		return "", nil, fmt.Errorf("package web was not type-checked")
	}
	info := vfC36TInfo
	var gs []string
	opaque := map[string]string{}
	var translated []string
	for _, f := range vfC36TFiles {
		ast.Inspect(f, func(n ast.Node) bool {
			cl, ok := n.(*ast.CompositeLit)
			if !ok {
				return true
			}
			tv, ok := info.Types[cl]
			if !ok || tv.Type == nil {
				return true
			}
			if ts := types.TypeString(tv.Type, nil); ts != "html/template.FuncMap" && ts != "text/template.FuncMap" {
				return true
			}
			for _, el := range cl.Elts {
				kv, ok := el.(*ast.KeyValueExpr)
				if !ok {
					continue
				}
				key := types.ExprString(kv.Key)
				if ktv, ok := info.Types[kv.Key]; ok && ktv.Value != nil {
					if s, err := strconv.Unquote(ktv.Value.ExactString()); err == nil {
						key = s
					}
				}
				ft, body, why := vfC36FuncBody(info, vfC36TFiles, kv.Value)
				bt := &vfC36BT{info: info, scope: map[string]int{}, why: why}
				var params []string
				term := ""
				if body != nil {
					for _, fl := range ft.Params.List {
						if len(fl.Names) == 0 {
							bt.fail("unnamed parameter")
						}
						for _, nm := range fl.Names {
							params = append(params, vfC36BS(nm.Name))
							bt.scope[nm.Name] = 0
						}
					}
					if ft.Results == nil || len(ft.Results.List) != 1 || len(ft.Results.List[0].Names) != 0 {
						bt.fail("named or multiple results")
					}
					term = bt.block(body.List)
				}
				pl := "(@nil string)"
				if len(params) > 0 {
					pl = "[" + strings.Join(params, "; ") + "]"
				}
				if bt.why != "" {
					opaque[key] = bt.why
					gs = append(gs, fmt.Sprintf("{| gf_name := %s; gf_params := %s; gf_body := None; gf_why := %s |}", vfC36BS(key), pl, vfC36BS(bt.why)))
				} else {
					translated = append(translated, key)
					gs = append(gs, fmt.Sprintf("{| gf_name := %s; gf_params := %s; gf_why := \"\"%%string;\n    gf_body := Some\n     %s |}", vfC36BS(key), pl, term))
				}
			}
			return true
		})
	}
	var sb strings.Builder
	sb.WriteString("(* GENERATED by harness/overlay/web/zz_verif_c36bodies_test.go from /repo/web/*.go (go/ast + go/types) — do not edit.\n")
	sb.WriteString("   The bodies of the functions registered in web's template.FuncMap literals, in the Go subset of Model/WebFuncsAst.v. *)\n")
	sb.WriteString("From Coq Require Import String.\nFrom ZV Require Import Lib.Base Model.Web Model.WebFuncs Model.WebFuncsAst.\n\n")
	sb.WriteString("Definition func_bodies : list gfunc := " + vfC36CoqList(gs, "gfunc") + ".\n")
	return sb.String(), map[string]any{"translated": translated, "opaque": opaque}, nil
}
