package web

// C36 translator, part 2: regenerates coq/Generated/WebRoutes.v
//   * routes      — every mux registration reachable from web.NewMux (HandleFunc/Handle on a *http.ServeMux, incl. the
//                   sub-mux of a handler built by another zoekt package, e.g. zjson.JSONServer mounted under /api/)
//   * resp_sinks  — for every route, every place where its handler (and the functions it hands the ResponseWriter to) writes a
//                   response: w.Write / http.Error / json.NewEncoder(w) / w.WriteHeader / anything else that receives w,
//                   with the body source (html/template output, data, literal) and the header operations that dominate
//                   the sink (w.Header().Set/Add/Del with literal arguments, earlier in the same or an enclosing block,
//                   inherited through calls)
//   * sniff_sigs  — net/http's sniffSignatures table, read from $GOROOT/src/net/http/sniff.go
// go/ast + go/types over the CURRENT working tree; shared with the correspondence harness (route list, signature list).

import (
	"fmt"
	"go/ast"
	"go/importer"
	"go/parser"
	"go/token"
	"go/types"
	"io"
	"os"
	"os/exec"
	"path/filepath"
	"runtime"
	"sort"
	"strconv"
	"strings"
)

// ---------------------------------------------------------------- package loading

type vfC36RPkg struct {
	path  string
	fset  *token.FileSet
	files []*ast.File
	info  *types.Info
	decls map[*types.Func]*ast.FuncDecl
}

type vfC36RLoader struct {
	exports map[string]string
	dirs    map[string]string
	pkgs    map[string]*vfC36RPkg
}

func vfC36RNewLoader() (*vfC36RLoader, error) {
	cmd := exec.Command("go", "list", "-export", "-deps", "-f", "{{.ImportPath}}\t{{.Export}}\t{{.Dir}}", ".")
	cmd.Stderr = io.Discard
	outb, err := cmd.Output()
	if err != nil {
		return nil, fmt.Errorf("go list: %v", err)
	}
	l := &vfC36RLoader{exports: map[string]string{}, dirs: map[string]string{}, pkgs: map[string]*vfC36RPkg{}}
	for _, ln := range strings.Split(string(outb), "\n") {
		p := strings.Split(ln, "\t")
		if len(p) == 3 {
			if p[1] != "" {
				l.exports[p[0]] = p[1]
			}
			l.dirs[p[0]] = p[2]
		}
	}
	return l, nil
}

const vfC36RModule = "github.com/sourcegraph/zoekt"

func (l *vfC36RLoader) loadable(path string) bool {
	return (path == vfC36RModule || strings.HasPrefix(path, vfC36RModule+"/")) && l.dirs[path] != ""
}

func (l *vfC36RLoader) load(path string) (*vfC36RPkg, error) {
	if p, ok := l.pkgs[path]; ok {
		return p, nil
	}
	dir := l.dirs[path]
	if dir == "" {
		return nil, fmt.Errorf("no directory for %s", path)
	}
	fset := token.NewFileSet()
	names, _ := filepath.Glob(filepath.Join(dir, "*.go"))
	sort.Strings(names)
	var files []*ast.File
	for _, n := range names {
		if strings.HasSuffix(n, "_test.go") {
			continue
		}
		f, err := parser.ParseFile(fset, n, nil, 0)
		if err != nil {
			return nil, err
		}
		files = append(files, f)
	}
	imp := importer.ForCompiler(fset, "gc", func(p string) (io.ReadCloser, error) {
		e, ok := l.exports[p]
		if !ok {
			return nil, fmt.Errorf("no export data for %s", p)
		}
		return os.Open(e)
	})
	info := &types.Info{Types: map[ast.Expr]types.TypeAndValue{}, Defs: map[*ast.Ident]types.Object{}, Uses: map[*ast.Ident]types.Object{},
		Selections: map[*ast.SelectorExpr]*types.Selection{}}
	conf := types.Config{Importer: imp}
	if _, err := conf.Check(path, fset, files, info); err != nil {
		return nil, err
	}
	p := &vfC36RPkg{path: path, fset: fset, files: files, info: info, decls: map[*types.Func]*ast.FuncDecl{}}
	for _, f := range files {
		for _, d := range f.Decls {
			if fd, ok := d.(*ast.FuncDecl); ok && fd.Body != nil {
				if fn, ok := info.Defs[fd.Name].(*types.Func); ok {
					p.decls[fn] = fd
				}
			}
		}
	}
	l.pkgs[path] = p
	return p, nil
}

// find the declaration of a function object that may come from export data (different *types.Func identity): by full name
func (l *vfC36RLoader) declOf(fn *types.Func) (*vfC36RPkg, *ast.FuncDecl) {
	if fn == nil || fn.Pkg() == nil || !l.loadable(fn.Pkg().Path()) {
		return nil, nil
	}
	p, err := l.load(fn.Pkg().Path())
	if err != nil {
		return nil, nil
	}
	if d, ok := p.decls[fn]; ok {
		return p, d
	}
	for f, d := range p.decls {
		if f.FullName() == fn.FullName() {
			return p, d
		}
	}
	return nil, nil
}

// ---------------------------------------------------------------- analysis

type vfC36RHdr struct{ op, key, val string }
type vfC36RSink struct {
	route, fn, kind string // kind: Coq term of type sinkkind
	hdrs            []vfC36RHdr
}
type vfC36RRoute struct {
	pat, handler, guard string
}

type vfC36RAn struct {
	l         *vfC36RLoader
	tmplField map[string]string
	routes    []vfC36RRoute
	sinks     []vfC36RSink
	notes     []string
}

func vfC36RUnparen(e ast.Expr) ast.Expr {
	for {
		p, ok := e.(*ast.ParenExpr)
		if !ok {
			return e
		}
		e = p.X
	}
}

func (p *vfC36RPkg) typeStr(e ast.Expr) string {
	if tv, ok := p.info.Types[e]; ok && tv.Type != nil {
		return types.TypeString(tv.Type, nil)
	}
	return ""
}
func (p *vfC36RPkg) isRW(e ast.Expr) bool { return p.typeStr(e) == "net/http.ResponseWriter" }

func (p *vfC36RPkg) callee(c *ast.CallExpr) *types.Func {
	switch f := vfC36RUnparen(c.Fun).(type) {
	case *ast.Ident:
		fn, _ := p.info.Uses[f].(*types.Func)
		return fn
	case *ast.SelectorExpr:
		fn, _ := p.info.Uses[f.Sel].(*types.Func)
		return fn
	}
	return nil
}

func vfC36RLit(e ast.Expr) (string, bool) {
	if bl, ok := vfC36RUnparen(e).(*ast.BasicLit); ok && bl.Kind == token.STRING {
		if s, err := strconv.Unquote(bl.Value); err == nil {
			return s, true
		}
	}
	return "", false
}

// w.Header().Set/Add/Del(...)  ->  header operation
func (p *vfC36RPkg) headerOp(c *ast.CallExpr) (vfC36RHdr, bool) {
	sel, ok := vfC36RUnparen(c.Fun).(*ast.SelectorExpr)
	if !ok {
		return vfC36RHdr{}, false
	}
	inner, ok := vfC36RUnparen(sel.X).(*ast.CallExpr)
	if !ok {
		return vfC36RHdr{}, false
	}
	isel, ok := vfC36RUnparen(inner.Fun).(*ast.SelectorExpr)
	if !ok || isel.Sel.Name != "Header" || !p.isRW(isel.X) {
		return vfC36RHdr{}, false
	}
	h := vfC36RHdr{op: sel.Sel.Name, key: "?", val: "?"}
	if len(c.Args) > 0 {
		if k, ok := vfC36RLit(c.Args[0]); ok {
			h.key = vfC36RCanon(k)
		}
	}
	if len(c.Args) > 1 {
		if v, ok := vfC36RLit(c.Args[1]); ok {
			h.val = v
		}
	}
	return h, true
}

func vfC36RCanon(k string) string {
	up := true
	b := []byte(k)
	for i, c := range b {
		if up && 'a' <= c && c <= 'z' {
			b[i] = c - 32
		} else if !up && 'A' <= c && c <= 'Z' {
			b[i] = c + 32
		}
		up = c == '-'
	}
	return string(b)
}

// body source of w.Write(arg) inside function body fnBody
func (a *vfC36RAn) bodySrc(p *vfC36RPkg, fnBody ast.Node, arg ast.Expr) string {
	arg = vfC36RUnparen(arg)
	if _, ok := vfC36RLit(arg); ok {
		return "BLiteral"
	}
	if c, ok := arg.(*ast.CallExpr); ok {
		if len(c.Args) == 1 {
			if tv, ok := p.info.Types[c.Fun]; ok && tv.IsType() { // conversion []byte("literal")
				if _, ok := vfC36RLit(c.Args[0]); ok {
					return "BLiteral"
				}
			}
		}
		if sel, ok := vfC36RUnparen(c.Fun).(*ast.SelectorExpr); ok && (sel.Sel.Name == "Bytes" || sel.Sel.Name == "String") && len(c.Args) == 0 {
			if id, ok := vfC36RUnparen(sel.X).(*ast.Ident); ok {
				bt := p.typeStr(id)
				if bt == "bytes.Buffer" || bt == "*bytes.Buffer" {
					obj := p.info.Uses[id]
					if names, pure := a.bufferFilledBy(p, fnBody, obj); pure && len(names) > 0 {
						xs := make([]string, len(names))
						for i, n := range names {
							xs[i] = vfC36CoqString(n)
						}
						return "(BTemplate [" + strings.Join(xs, "; ") + "])"
					}
				}
			}
		}
	}
	return "(BData " + vfC36CoqString(types.ExprString(arg)) + ")"
}

// which html/template executions fill the buffer object, and is it filled by nothing else
func (a *vfC36RAn) bufferFilledBy(p *vfC36RPkg, fnBody ast.Node, obj types.Object) (names []string, pure bool) {
	allowed := map[*ast.Ident]bool{}
	pure = true
	ast.Inspect(fnBody, func(n ast.Node) bool {
		c, ok := n.(*ast.CallExpr)
		if !ok {
			return true
		}
		sel, ok := vfC36RUnparen(c.Fun).(*ast.SelectorExpr)
		if !ok {
			return true
		}
		// X.Bytes(), X.String(), X.Len()
		if id, ok := vfC36RUnparen(sel.X).(*ast.Ident); ok && p.info.Uses[id] == obj && (sel.Sel.Name == "Bytes" || sel.Sel.Name == "String" || sel.Sel.Name == "Len") {
			allowed[id] = true
			return true
		}
		// T.Execute(&X, data) / T.ExecuteTemplate(&X, name, data) with an html/template receiver
		if (sel.Sel.Name == "Execute" || sel.Sel.Name == "ExecuteTemplate") && len(c.Args) >= 2 {
			var id *ast.Ident
			switch x := vfC36RUnparen(c.Args[0]).(type) {
			case *ast.UnaryExpr:
				id, _ = vfC36RUnparen(x.X).(*ast.Ident)
			case *ast.Ident:
				id = x
			}
			if id != nil && p.info.Uses[id] == obj {
				if p.typeStr(sel.X) == "*html/template.Template" && sel.Sel.Name == "Execute" {
					allowed[id] = true
					names = append(names, a.templateName(sel.X))
				}
			}
		}
		return true
	})
	ast.Inspect(fnBody, func(n ast.Node) bool {
		if id, ok := n.(*ast.Ident); ok && p.info.Uses[id] == obj && !allowed[id] {
			pure = false
		}
		return true
	})
	sort.Strings(names)
	return
}

func (a *vfC36RAn) templateName(recv ast.Expr) string {
	if sel, ok := vfC36RUnparen(recv).(*ast.SelectorExpr); ok {
		if n, ok := a.tmplField[sel.Sel.Name]; ok {
			return n
		}
	}
	return "?" + types.ExprString(recv)
}

func (a *vfC36RAn) addSink(route, fn, kind string, cur []vfC36RHdr) {
	a.sinks = append(a.sinks, vfC36RSink{route: route, fn: fn, kind: kind, hdrs: append([]vfC36RHdr(nil), cur...)})
}

// walk the statements of a block; cur = header operations that dominate the block's start
func (a *vfC36RAn) walkStmts(p *vfC36RPkg, route, fn string, fnBody ast.Node, stmts []ast.Stmt, cur []vfC36RHdr, stack map[string]bool) {
	cur = append([]vfC36RHdr(nil), cur...)
	for _, st := range stmts {
		if es, ok := st.(*ast.ExprStmt); ok {
			if c, ok := vfC36RUnparen(es.X).(*ast.CallExpr); ok {
				if h, ok := p.headerOp(c); ok {
					cur = append(cur, h)
					continue
				}
			}
		}
		a.walkNode(p, route, fn, fnBody, st, cur, stack)
	}
}

func (a *vfC36RAn) walkNode(p *vfC36RPkg, route, fn string, fnBody ast.Node, node ast.Node, cur []vfC36RHdr, stack map[string]bool) {
	ast.Inspect(node, func(n ast.Node) bool {
		switch x := n.(type) {
		case *ast.BlockStmt:
			a.walkStmts(p, route, fn, fnBody, x.List, cur, stack)
			return false
		case *ast.CaseClause:
			for _, e := range x.List {
				a.walkNode(p, route, fn, fnBody, e, cur, stack)
			}
			a.walkStmts(p, route, fn, fnBody, x.Body, cur, stack)
			return false
		case *ast.CommClause:
			if x.Comm != nil {
				a.walkNode(p, route, fn, fnBody, x.Comm, cur, stack)
			}
			a.walkStmts(p, route, fn, fnBody, x.Body, cur, stack)
			return false
		case *ast.FuncLit:
			a.walkStmts(p, route, fn+".func", x.Body, x.Body.List, cur, stack)
			return false
		case *ast.CallExpr:
			a.handleCall(p, route, fn, fnBody, x, cur, stack)
			return true
		}
		return true
	})
}

func (a *vfC36RAn) handleCall(p *vfC36RPkg, route, fn string, fnBody ast.Node, c *ast.CallExpr, cur []vfC36RHdr, stack map[string]bool) {
	if _, ok := p.headerOp(c); ok {
		return // a header operation in expression position: not a sink (and not counted as dominating)
	}
	if sel, ok := vfC36RUnparen(c.Fun).(*ast.SelectorExpr); ok && p.isRW(sel.X) {
		switch sel.Sel.Name {
		case "Write":
			if len(c.Args) == 1 {
				a.addSink(route, fn, "(KWrite "+a.bodySrc(p, fnBody, c.Args[0])+")", cur)
			}
		case "WriteHeader":
			a.addSink(route, fn, "KStatus", cur)
		case "Header":
		default:
			a.addSink(route, fn, "(KOther "+vfC36CoqString("w."+sel.Sel.Name)+")", cur)
		}
		return
	}
	hasW := false
	for _, arg := range c.Args {
		if p.isRW(arg) {
			hasW = true
		}
	}
	callee := p.callee(c)
	if callee == nil {
		if hasW {
			if tv, ok := p.info.Types[c.Fun]; ok && tv.IsType() {
				return // a conversion
			}
			a.addSink(route, fn, "(KOther "+vfC36CoqString("dynamic call "+types.ExprString(c.Fun))+")", cur)
		}
		return
	}
	full := callee.FullName()
	switch {
	case full == "net/http.Error" && hasW:
		a.addSink(route, fn, "KError", cur)
	case full == "encoding/json.NewEncoder" && hasW:
		a.addSink(route, fn, "KJsonEnc", cur)
	case hasW:
		if cp, decl := a.l.declOf(callee); decl != nil {
			if stack[full] {
				return
			}
			stack[full] = true
			a.walkStmts(cp, route, decl.Name.Name, decl.Body, decl.Body.List, cur, stack)
			delete(stack, full)
			return
		}
		a.addSink(route, fn, "(KOther "+vfC36CoqString(full)+")", cur)
	}
}

// the enclosing if-conditions of a node (stack = path from the function body to the node)
func vfC36RGuard(stack []ast.Node) string {
	var gs []string
	for i, n := range stack {
		ifs, ok := n.(*ast.IfStmt)
		if !ok || i+1 >= len(stack) {
			continue
		}
		switch stack[i+1] {
		case ast.Node(ifs.Body):
			gs = append(gs, types.ExprString(ifs.Cond))
		case ifs.Else:
			gs = append(gs, "!("+types.ExprString(ifs.Cond)+")")
		}
	}
	return strings.Join(gs, " && ")
}

// registrations inside a function body; prefix is prepended to the patterns (sub-mux mounted behind StripPrefix)
func (a *vfC36RAn) registrations(p *vfC36RPkg, body ast.Node, prefix, outerGuard string, depth int) {
	var stack []ast.Node
	ast.Inspect(body, func(n ast.Node) bool {
		if n == nil {
			stack = stack[:len(stack)-1]
			return true
		}
		stack = append(stack, n)
		c, ok := n.(*ast.CallExpr)
		if !ok || len(c.Args) != 2 {
			return true
		}
		callee := p.callee(c)
		if callee == nil {
			return true
		}
		full := callee.FullName()
		if full != "(*net/http.ServeMux).HandleFunc" && full != "(*net/http.ServeMux).Handle" && full != "net/http.HandleFunc" && full != "net/http.Handle" {
			return true
		}
		pat, ok := vfC36RLit(c.Args[0])
		if !ok {
			pat = "?" + types.ExprString(c.Args[0])
		}
		guard := vfC36RGuard(stack)
		if outerGuard != "" {
			if guard != "" {
				guard = outerGuard + " && " + guard
			} else {
				guard = outerGuard
			}
		}
		a.route(p, prefix+pat, guard, c.Args[1], depth)
		return true
	})
}

func (a *vfC36RAn) route(p *vfC36RPkg, pat, guard string, h ast.Expr, depth int) {
	h = vfC36RUnparen(h)
	switch x := h.(type) {
	case *ast.FuncLit:
		name := fmt.Sprintf("func@%s", p.fset.Position(x.Pos()).String())
		a.routes = append(a.routes, vfC36RRoute{pat, name, guard})
		a.walkStmts(p, pat, name, x.Body, x.Body.List, nil, map[string]bool{})
		return
	case *ast.Ident, *ast.SelectorExpr:
		var fn *types.Func
		if id, ok := x.(*ast.Ident); ok {
			fn, _ = p.info.Uses[id].(*types.Func)
		} else {
			fn, _ = p.info.Uses[x.(*ast.SelectorExpr).Sel].(*types.Func)
		}
		if cp, decl := a.l.declOf(fn); decl != nil {
			a.routes = append(a.routes, vfC36RRoute{pat, decl.Name.Name, guard})
			a.walkStmts(cp, pat, decl.Name.Name, decl.Body, decl.Body.List, nil, map[string]bool{fn.FullName(): true})
			return
		}
	case *ast.CallExpr:
		// a handler built by a call: look for a constructor from a zoekt package and read ITS mux registrations
		prefix := strings.TrimSuffix(pat, "/")
		if callee := p.callee(x); callee != nil && callee.FullName() == "net/http.StripPrefix" && len(x.Args) == 2 {
			if s, ok := vfC36RLit(x.Args[0]); ok {
				prefix = s
			}
		}
		found := false
		if depth < 3 {
			ast.Inspect(x, func(n ast.Node) bool {
				c, ok := n.(*ast.CallExpr)
				if !ok {
					return true
				}
				if cp, decl := a.l.declOf(p.callee(c)); decl != nil {
					before := len(a.routes)
					a.registrations(cp, decl.Body, prefix, guard, depth+1)
					if len(a.routes) > before {
						found = true
						return false
					}
				}
				return true
			})
		}
		if found {
			return
		}
	}
	// not understood: an external handler — gets a sink without a class
	a.routes = append(a.routes, vfC36RRoute{pat, "external:" + types.ExprString(h), guard})
	a.addSink(pat, "external", "(KOther "+vfC36CoqString("external handler "+types.ExprString(h))+")", nil)
}

func vfC36RAnalyse() (*vfC36RAn, error) {
	l, err := vfC36RNewLoader()
	if err != nil {
		return nil, err
	}
	web, err := l.load(vfC36RModule + "/web")
	if err != nil {
		return nil, err
	}
	a := &vfC36RAn{l: l, tmplField: map[string]string{}}
	// template fields: map[string]**template.Template{"results": &s.result, ...} and s.print = s.Top.Lookup("print")
	for _, f := range web.files {
		ast.Inspect(f, func(n ast.Node) bool {
			switch x := n.(type) {
			case *ast.KeyValueExpr:
				if k, ok := vfC36RLit(x.Key); ok {
					if u, ok := vfC36RUnparen(x.Value).(*ast.UnaryExpr); ok && u.Op == token.AND {
						if sel, ok := vfC36RUnparen(u.X).(*ast.SelectorExpr); ok && web.typeStr(sel) == "*html/template.Template" {
							a.tmplField[sel.Sel.Name] = k
						}
					}
				}
			case *ast.AssignStmt:
				if len(x.Lhs) == 1 && len(x.Rhs) == 1 {
					if sel, ok := vfC36RUnparen(x.Lhs[0]).(*ast.SelectorExpr); ok && web.typeStr(sel) == "*html/template.Template" {
						if c, ok := vfC36RUnparen(x.Rhs[0]).(*ast.CallExpr); ok && len(c.Args) == 1 {
							if cs, ok := vfC36RUnparen(c.Fun).(*ast.SelectorExpr); ok && cs.Sel.Name == "Lookup" {
								if k, ok := vfC36RLit(c.Args[0]); ok {
									if old, dup := a.tmplField[sel.Sel.Name]; !dup || old == k {
										a.tmplField[sel.Sel.Name] = k
									}
								}
							}
						}
					}
				}
			}
			return true
		})
	}
	for _, f := range web.files {
		for _, d := range f.Decls {
			if fd, ok := d.(*ast.FuncDecl); ok && fd.Body != nil {
				a.registrations(web, fd.Body, "", "", 0)
			}
		}
	}
	return a, nil
}

// ---------------------------------------------------------------- net/http's signature table

type vfC36RSig struct {
	kind      string // html, masked, exact, mp4, text, unknown
	pat, mask []byte
	skipWS    bool
	ct        string
	raw       string
}

func vfC36RBytesExpr(e ast.Expr) ([]byte, bool) {
	e = vfC36RUnparen(e)
	if s, ok := vfC36RLit(e); ok {
		return []byte(s), true
	}
	if c, ok := e.(*ast.CallExpr); ok && len(c.Args) == 1 {
		if _, ok := c.Fun.(*ast.ArrayType); ok {
			if s, ok := vfC36RLit(c.Args[0]); ok {
				return []byte(s), true
			}
		}
	}
	return nil, false
}

func vfC36RSniffSigs() ([]vfC36RSig, error) {
	path := filepath.Join(runtime.GOROOT(), "src", "net", "http", "sniff.go")
	fset := token.NewFileSet()
	f, err := parser.ParseFile(fset, path, nil, 0)
	if err != nil {
		return nil, err
	}
	var sigs []vfC36RSig
	found := false
	ast.Inspect(f, func(n ast.Node) bool {
		vs, ok := n.(*ast.ValueSpec)
		if !ok || len(vs.Names) != 1 || vs.Names[0].Name != "sniffSignatures" || len(vs.Values) != 1 {
			return true
		}
		cl, ok := vs.Values[0].(*ast.CompositeLit)
		if !ok {
			return true
		}
		found = true
		for _, el := range cl.Elts {
			sg := vfC36RSig{kind: "unknown", raw: types.ExprString(el)}
			e := vfC36RUnparen(el)
			if u, ok := e.(*ast.UnaryExpr); ok && u.Op == token.AND {
				e = vfC36RUnparen(u.X)
			}
			switch x := e.(type) {
			case *ast.CallExpr:
				if id, ok := x.Fun.(*ast.Ident); ok && id.Name == "htmlSig" && len(x.Args) == 1 {
					if b, ok := vfC36RBytesExpr(x.Args[0]); ok {
						sg.kind, sg.pat = "html", b
					}
				}
			case *ast.CompositeLit:
				tn := types.ExprString(x.Type)
				switch tn {
				case "mp4Sig":
					if len(x.Elts) == 0 {
						sg.kind = "mp4"
					}
				case "textSig":
					if len(x.Elts) == 0 {
						sg.kind = "text"
					}
				case "exactSig":
					if len(x.Elts) == 2 {
						a0, a1 := x.Elts[0], x.Elts[1]
						if kv, ok := a0.(*ast.KeyValueExpr); ok {
							a0 = kv.Value
							if types.ExprString(kv.Key) != "sig" {
								break
							}
						}
						if kv, ok := a1.(*ast.KeyValueExpr); ok {
							a1 = kv.Value
							if types.ExprString(kv.Key) != "ct" {
								break
							}
						}
						b, ok1 := vfC36RBytesExpr(a0)
						ct, ok2 := vfC36RLit(a1)
						if ok1 && ok2 {
							sg.kind, sg.pat, sg.ct = "exact", b, ct
						}
					}
				case "maskedSig":
					okAll := true
					var havePat, haveMask, haveCt bool
					for _, el2 := range x.Elts {
						kv, ok := el2.(*ast.KeyValueExpr)
						if !ok {
							okAll = false
							break
						}
						switch types.ExprString(kv.Key) {
						case "mask":
							sg.mask, haveMask = vfC36RBytesExpr(kv.Value)
						case "pat":
							sg.pat, havePat = vfC36RBytesExpr(kv.Value)
						case "ct":
							sg.ct, haveCt = vfC36RLit(kv.Value)
						case "skipWS":
							switch types.ExprString(kv.Value) {
							case "true":
								sg.skipWS = true
							case "false":
							default:
								okAll = false
							}
						default:
							okAll = false
						}
					}
					if okAll && havePat && haveMask && haveCt {
						sg.kind = "masked"
					}
				}
			}
			sigs = append(sigs, sg)
		}
		return false
	})
	if !found {
		return nil, fmt.Errorf("sniffSignatures not found in %s", path)
	}
	return sigs, nil
}

func (s vfC36RSig) coq() string {
	switch s.kind {
	case "html":
		return "SHtml " + cBytes(s.pat)
	case "masked":
		return "SMasked " + cBytes(s.mask) + " " + cBytes(s.pat) + " " + cBool(s.skipWS) + " (str " + vfC36CoqString(s.ct) + ")"
	case "exact":
		return "SExact " + cBytes(s.pat) + " (str " + vfC36CoqString(s.ct) + ")"
	case "mp4":
		return "SMp4"
	case "text":
		return "SText"
	}
	return "SUnknownSig " + vfC36CoqString(s.raw)
}

// ---------------------------------------------------------------- emission

func vfC36RGenText() (string, map[string]any, error) {
	a, err := vfC36RAnalyse()
	if err != nil {
		return "", nil, err
	}
	sigs, err := vfC36RSniffSigs()
	if err != nil {
		return "", nil, err
	}
	var sb strings.Builder
	sb.WriteString("(* GENERATED by harness/overlay/web/zz_verif_c36routes_test.go from /repo/web/*.go, the zoekt packages whose handlers it mounts,\n")
	sb.WriteString("   and $GOROOT/src/net/http/sniff.go (" + runtime.Version() + ") — do not edit. *)\n")
	sb.WriteString("From Coq Require Import String.\nFrom ZV Require Import Lib.Base Model.Web Model.WebResp.\nOpen Scope N_scope.\n\n")
	sb.WriteString("(* every mux registration: pattern, handler, enclosing conditions *)\n")
	var rs []string
	for _, r := range a.routes {
		rs = append(rs, fmt.Sprintf("{| rt_pat := %s; rt_handler := %s; rt_guard := %s |}", vfC36CoqString(r.pat), vfC36CoqString(r.handler), vfC36CoqString(r.guard)))
	}
	sb.WriteString("Definition routes : list route := " + vfC36CoqList(rs, "route") + "%string.\n\n")
	sb.WriteString("(* every response sink reachable from a route's handler, with the header operations that dominate it *)\n")
	var ss []string
	seenSink := map[string]bool{}
	for _, s := range a.sinks {
		var hs []string
		for _, h := range s.hdrs {
			hs = append(hs, "("+vfC36CoqString(h.op)+", "+vfC36CoqString(h.key)+", "+vfC36CoqString(h.val)+")")
		}
		hl := "[]"
		if len(hs) > 0 {
			hl = "[" + strings.Join(hs, "; ") + "]"
		}
		line := fmt.Sprintf("{| rs_route := %s; rs_func := %s; rs_kind := %s; rs_hdrs := %s |}", vfC36CoqString(s.route), vfC36CoqString(s.fn), s.kind, hl)
		if seenSink[line] {
			continue
		}
		seenSink[line] = true
		ss = append(ss, fmt.Sprintf("{| rs_route := %s; rs_func := %s; rs_kind := %s; rs_hdrs := %s |}", vfC36CoqString(s.route), vfC36CoqString(s.fn), s.kind, hl))
	}
	sb.WriteString("Definition resp_sinks : list rsink := " + vfC36CoqList(ss, "rsink") + "%string.\n\n")
	sb.WriteString("(* net/http sniffSignatures, in order *)\n")
	var gs []string
	for _, s := range sigs {
		gs = append(gs, s.coq())
	}
	sb.WriteString("Definition sniff_sigs : list sniffsig := " + vfC36CoqList(gs, "sniffsig") + ".\n")
	nhtml := 0
	for _, s := range sigs {
		if s.kind == "html" {
			nhtml++
		}
	}
	info := map[string]any{"routes": len(a.routes), "resp_sinks": len(a.sinks), "sniff_sigs": len(sigs), "sniff_html_sigs": nhtml, "template_fields": a.tmplField}
	return sb.String(), info, nil
}
