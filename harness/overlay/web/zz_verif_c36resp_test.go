package web

// C36 part E — response classes. Every route the translator finds in the mux registrations (web.NewMux and the JSON API mounted
// under /api/) is requested in each of its response modes through a REAL net/http server (httptest.NewServer: the server side
// of net/http decides the Content-Type when the handler sets none), over a corpus whose files start with every signature
// net/http's sniffer knows ($GOROOT/src/net/http/sniff.go, read at run time).
//   oracle:         a response that is not one of the HTML pages must not arrive with a markup (or script) Content-Type, a
//                   text/plain one must carry nosniff; an HTML page must not contain the hostile markup unescaped.
//   correspondence: CResp = (mode, Content-Type set by the handler, nosniff, Content-Type on the wire, body prefix) against
//                   Model/WebResp.v (mode_ct / mode_nosniff / wire_ct with the generated signature table);
//                   CSniff = http.DetectContentType on generated bodies against the model's detect.

import (
	"bytes"
	"context"
	"encoding/binary"
	"errors"
	"fmt"
	"io"
	"mime"
	"net/http"
	"net/http/httptest"
	"net/url"
	"strings"
	"sync"
	"testing"
	"time"

	"github.com/sourcegraph/zoekt"
	"github.com/sourcegraph/zoekt/index"
	"github.com/sourcegraph/zoekt/query"
)

// ---------------------------------------------------------------- recording what the handler set itself

type vfC36RecState struct {
	done        bool
	hasExplicit bool
	explicit    string
	nosniff     string
}

var (
	vfC36RecMu   sync.Mutex
	vfC36RecLast *vfC36RecState
)

type vfC36RecW struct {
	http.ResponseWriter
	st *vfC36RecState
}

func (w *vfC36RecW) snap() {
	vfC36RecMu.Lock()
	defer vfC36RecMu.Unlock()
	if !w.st.done {
		w.st.done = true
		_, w.st.hasExplicit = w.Header()["Content-Type"]
		w.st.explicit = w.Header().Get("Content-Type")
		w.st.nosniff = w.Header().Get("X-Content-Type-Options")
	}
}
func (w *vfC36RecW) WriteHeader(c int)           { w.snap(); w.ResponseWriter.WriteHeader(c) }
func (w *vfC36RecW) Write(b []byte) (int, error) { w.snap(); return w.ResponseWriter.Write(b) }

func vfC36Record(h http.Handler) http.Handler {
	return http.HandlerFunc(func(w http.ResponseWriter, r *http.Request) {
		st := &vfC36RecState{}
		vfC36RecMu.Lock()
		vfC36RecLast = st
		vfC36RecMu.Unlock()
		h.ServeHTTP(&vfC36RecW{w, st}, r)
	})
}

// a searcher that can be told to fail (for the error answers of /healthz, /about, /)
type vfC36Failing struct {
	zoekt.Streamer
	msg string
}

func (f vfC36Failing) Search(ctx context.Context, q query.Q, opts *zoekt.SearchOptions) (*zoekt.SearchResult, error) {
	return nil, errors.New(f.msg)
}
func (f vfC36Failing) List(ctx context.Context, q query.Q, opts *zoekt.ListOptions) (*zoekt.RepoList, error) {
	return nil, errors.New(f.msg)
}
func (f vfC36Failing) StreamSearch(ctx context.Context, q query.Q, opts *zoekt.SearchOptions, sender zoekt.Sender) error {
	return errors.New(f.msg)
}

// ---------------------------------------------------------------- the corpus: one file per sniffer signature (and variants)

const vfC36EMarker = `<script>alert("c36-`

type vfC36EFile struct {
	name    string
	content []byte
	why     string
}

func vfC36ECase(r *vfRand, pat []byte, mode int) []byte {
	out := make([]byte, len(pat))
	for i, c := range pat {
		lower := c
		if 'A' <= c && c <= 'Z' {
			lower = c + 32
		}
		switch mode {
		case 0:
			out[i] = lower
		case 1:
			out[i] = c
		default:
			if r.Bool() {
				out[i] = lower
			} else {
				out[i] = c
			}
		}
	}
	return out
}

func vfC36ECorpus(r *vfRand, sigs []vfC36RSig, rounds int) []vfC36EFile {
	var fs []vfC36EFile
	k := 0
	add := func(prefix []byte, why string) {
		body := append([]byte{}, prefix...)
		body = append(body, []byte(fmt.Sprintf(`%s%d")</script> needleE hit%d`+"\n", vfC36EMarker, k, k))...)
		if r.Chance(30) {
			body = append(body, []byte("second line caf\xe9 \xff\n")...)
		}
		if r.Chance(15) {
			body = append(body, bytes.Repeat([]byte("filler line\n"), 60)...)
		}
		fs = append(fs, vfC36EFile{name: fmt.Sprintf("f%03d.txt", k), content: body, why: why})
		k++
	}
	ws := []string{"", " ", "\n\t ", "\r\n", "\x0c  "}
	for _, s := range sigs {
		switch s.kind {
		case "html":
			// the canonical hostile file: lower case, '>' terminated
			add(append(vfC36ECase(r, s.pat, 0), '>'), "html-sig:"+string(s.pat))
			for i := 0; i < rounds; i++ {
				p := []byte(r.Pick(ws))
				p = append(p, vfC36ECase(r, s.pat, 1+r.Intn(2))...)
				switch r.Intn(5) {
				case 0:
					p = append(p, ' ')
				case 1:
					p = append(p, 'x') // not a tag-terminating byte: no match
				default:
					p = append(p, '>')
				}
				add(p, "html-sig-variant:"+string(s.pat))
			}
		case "masked":
			if s.skipWS || strings.Contains(s.ct, "xml") || strings.HasPrefix(s.ct, "text/") {
				p := []byte(r.Pick(ws))
				if !s.skipWS {
					p = nil
				}
				add(append(p, s.pat...), "masked-sig:"+s.ct)
			}
		}
	}
	// other leading bytes: binary types, byte order marks in front of markup, white space beyond the sniffing window, plain text
	add([]byte("%PDF-1.4 <html>"), "pdf")
	add([]byte("GIF89a<html>"), "gif")
	add([]byte("\xef\xbb\xbf<html>"), "utf8-bom-then-html")
	add([]byte("\xff\xfe<\x00h\x00t\x00m\x00l\x00>\x00"), "utf16-bom")
	add([]byte("\x00\x01\x02<html>"), "binary")
	add(append(bytes.Repeat([]byte(" "), 600), []byte("<html>")...), "html-beyond-window")
	add(append(bytes.Repeat([]byte("\n"), 500), []byte("<html>")...), "html-inside-window")
	add([]byte("package main // <html>"), "plain-text")
	add([]byte("{\"a\": \"<html>\"}"), "json-like")
	add([]byte("<svg xmlns=\"http://www.w3.org/2000/svg\" onload=\"alert(1)\">"), "svg")
	return fs
}

// ---------------------------------------------------------------- requests per route

type vfC36EReq struct {
	mode   int // index into Model/WebResp.v:all_modes for a 200 answer
	method string
	path   string
	body   string
	kind   string // page | data | static | empty
	file   *vfC36EFile
	srv    int // 0: normal server, 1: server whose searcher fails / not ready
}

const (
	vfC36MResults = iota
	vfC36MRepoList
	vfC36MSearchJson
	vfC36MSearchBox
	vfC36MAbout
	vfC36MRobots
	vfC36MPrintHtml
	vfC36MPrintRaw
	vfC36MError
	vfC36MHealthz
	vfC36MReadyzOk
	vfC36MApi
)

func vfC36EBuilders(files []vfC36EFile, r *vfRand) map[string]func() []vfC36EReq {
	hostileQ := `<html><script>alert("c36-q")</script>(`
	return map[string]func() []vfC36EReq{
		"/robots.txt": func() []vfC36EReq {
			return []vfC36EReq{{mode: vfC36MRobots, path: "/robots.txt", kind: "static"}}
		},
		"/search": func() []vfC36EReq {
			return []vfC36EReq{
				{mode: vfC36MResults, path: "/search?" + url.Values{"q": {"needleE"}, "num": {"100"}}.Encode(), kind: "page"},
				{mode: vfC36MResults, path: "/search?" + url.Values{"q": {"needleE"}, "ctx": {"2"}, "num": {"3"}}.Encode(), kind: "page"},
				{mode: vfC36MRepoList, path: "/search?" + url.Values{"q": {"r:repo"}}.Encode(), kind: "page"},
				{mode: vfC36MSearchJson, path: "/search?" + url.Values{"q": {"needleE"}, "format": {"json"}, "num": {"100"}}.Encode(), kind: "data"},
				{mode: vfC36MSearchJson, path: "/search?" + url.Values{"q": {"r:repo"}, "format": {"json"}}.Encode(), kind: "data"},
				{mode: vfC36MError, path: "/search?" + url.Values{"q": {hostileQ}}.Encode(), kind: "data"},
				{mode: vfC36MError, path: "/search?" + url.Values{"q": {hostileQ}, "format": {"json"}}.Encode(), kind: "data"},
				{mode: vfC36MError, path: "/search", kind: "data"},
				{mode: vfC36MError, path: "/search?" + url.Values{"q": {"needleE"}, "ctx": {"<html>"}}.Encode(), kind: "data"},
				{mode: vfC36MError, path: "/search?" + url.Values{"q": {"needleE"}}.Encode(), kind: "data", srv: 1},
			}
		},
		"/": func() []vfC36EReq {
			return []vfC36EReq{
				{mode: vfC36MSearchBox, path: "/", kind: "page"},
				{mode: vfC36MSearchBox, path: "/?" + url.Values{"q": {hostileQ}}.Encode(), kind: "page"},
				{mode: vfC36MSearchBox, path: "/no/such/page", kind: "page"},
				{mode: vfC36MError, path: "/", kind: "data", srv: 1},
			}
		},
		"/about": func() []vfC36EReq {
			return []vfC36EReq{{mode: vfC36MAbout, path: "/about", kind: "page"}, {mode: vfC36MError, path: "/about", kind: "data", srv: 1}}
		},
		"/print": func() []vfC36EReq {
			var rs []vfC36EReq
			for i := range files {
				f := &files[i]
				v := url.Values{"r": {"repoE"}, "f": {f.name}, "q": {"needleE"}}
				rs = append(rs, vfC36EReq{mode: vfC36MPrintHtml, path: "/print?" + v.Encode(), kind: "page", file: f})
				v.Set("format", "raw")
				rs = append(rs, vfC36EReq{mode: vfC36MPrintRaw, path: "/print?" + v.Encode(), kind: "data", file: f})
			}
			rs = append(rs,
				vfC36EReq{mode: vfC36MError, path: "/print?" + url.Values{"r": {"repoE"}, "f": {"<html> no such file"}, "q": {"x"}}.Encode(), kind: "data"},
				vfC36EReq{mode: vfC36MError, path: "/print?" + url.Values{"r": {"repoE"}, "f": {"<html> no such file"}, "format": {"raw"}}.Encode(), kind: "data"},
				vfC36EReq{mode: vfC36MError, path: "/print?" + url.Values{"r": {"repoE"}, "f": {files[0].name}, "format": {"raw"}}.Encode(), kind: "data", srv: 1})
			return rs
		},
		"/api/search": func() []vfC36EReq {
			return []vfC36EReq{
				{mode: vfC36MApi, method: "POST", path: "/api/search", body: `{"Q":"needleE","Opts":{"Whole":true}}`, kind: "data"},
				{mode: vfC36MApi, method: "POST", path: "/api/search", body: `{"Q":"<html>("}`, kind: "data"},
				{mode: vfC36MApi, method: "POST", path: "/api/search", body: `<html>`, kind: "data"},
				{mode: vfC36MApi, method: "GET", path: "/api/search", kind: "data"},
				{mode: vfC36MApi, method: "POST", path: "/api/search", body: `{"Q":"needleE"}`, kind: "data", srv: 1},
			}
		},
		"/api/list": func() []vfC36EReq {
			return []vfC36EReq{
				{mode: vfC36MApi, method: "POST", path: "/api/list", body: `{"Q":"r:repo"}`, kind: "data"},
				{mode: vfC36MApi, method: "POST", path: "/api/list", body: `{"Q":"<html>("}`, kind: "data"},
				{mode: vfC36MApi, method: "GET", path: "/api/list", kind: "data"},
				{mode: vfC36MApi, method: "POST", path: "/api/list", body: `{"Q":"r:repo"}`, kind: "data", srv: 1},
			}
		},
		"/healthz": func() []vfC36EReq {
			return []vfC36EReq{{mode: vfC36MHealthz, path: "/healthz", kind: "data"}, {mode: vfC36MError, path: "/healthz", kind: "data", srv: 1}}
		},
		"/readyz": func() []vfC36EReq {
			return []vfC36EReq{{mode: vfC36MReadyzOk, path: "/readyz", kind: "empty"}, {mode: vfC36MError, path: "/readyz", kind: "data", srv: 1}}
		},
	}
}

var vfC36EMarkupTypes = map[string]bool{
	"text/html": true, "application/xhtml+xml": true, "text/xml": true, "application/xml": true, "image/svg+xml": true,
	"text/javascript": true, "application/javascript": true, "application/x-javascript": true, "text/css": true,
}

func vfC36EOpt(has bool, s string) string {
	if !has {
		return "None"
	}
	return cSome(vfC36Bytes([]byte(s)))
}

func vfC36EServe(files []vfC36EFile, failing bool) (*httptest.Server, error) {
	b, err := index.NewShardBuilder(&zoekt.Repository{Name: "repoE", URL: "https://example.com/repoE",
		FileURLTemplate: "https://example.com/repoE/{{.Version}}/{{.Path}}", LineFragmentTemplate: "#L{{.LineNumber}}",
		CommitURLTemplate: "https://example.com/c/{{.Version}}", Branches: []zoekt.RepositoryBranch{{Name: "main", Version: "v1"}}})
	if err != nil {
		return nil, err
	}
	for _, f := range files {
		if err := b.Add(index.Document{Name: f.name, Content: f.content, Branches: []string{"main"}}); err != nil {
			return nil, err
		}
	}
	s, err := vfC36Searcher(b)
	if err != nil {
		return nil, err
	}
	var st zoekt.Streamer = vfC36Multi{[]zoekt.Searcher{s}}
	srv := &Server{Searcher: st, Top: Top, HTML: true, RPC: true, Print: true, Version: "v"}
	if failing {
		srv.Searcher = vfC36Failing{st, `<html><script>alert("c36-err")</script> searcher failed`}
		srv.Ready = func() bool { return false }
	}
	mux, err := NewMux(srv)
	if err != nil {
		return nil, err
	}
	return httptest.NewServer(vfC36Record(mux)), nil
}

func vfC36PartE(t *testing.T, r *vfRand, n int) {
	sigs, err := vfC36RSniffSigs()
	if err != nil {
		t.Fatalf("sniff table: %v", err)
	}
	an, err := vfC36RAnalyse()
	if err != nil {
		t.Fatalf("route analysis: %v", err)
	}
	rounds := 1 + n/400
	if rounds > 4 {
		rounds = 4
	}
	files := vfC36ECorpus(r, sigs, rounds)
	servers := make([]*httptest.Server, 2)
	for i := range servers {
		s, err := vfC36EServe(files, i == 1)
		if err != nil {
			t.Fatalf("part E server: %v", err)
		}
		defer s.Close()
		servers[i] = s
	}
	client := &http.Client{Timeout: 30 * time.Second}
	builders := vfC36EBuilders(files, r)
	nresp, nhostileRaw := 0, 0
	seenRoute := map[string]bool{}
	for _, rt := range an.routes {
		if seenRoute[rt.pat] {
			continue
		}
		seenRoute[rt.pat] = true
		bf := builders[rt.pat]
		if bf == nil {
			vfOracleFail("route-without-requests:"+rt.pat, "the mux registers a route the check has no requests (and no declared response class) for: "+rt.pat+" -> "+rt.handler,
				map[string]any{"route": rt.pat, "handler": rt.handler, "guard": rt.guard})
			continue
		}
		for _, rq := range bf() {
			method := rq.method
			if method == "" {
				method = "GET"
			}
			req, err := http.NewRequest(method, servers[rq.srv].URL+rq.path, strings.NewReader(rq.body))
			if err != nil {
				t.Fatal(err)
			}
			replay := map[string]any{"route": rt.pat, "handler": rt.handler, "method": method, "request": rq.path, "request_body": rq.body,
				"failing_searcher_and_not_ready": rq.srv == 1}
			if rq.file != nil {
				replay["file_name"] = rq.file.name
				replay["file_content"] = fmt.Sprintf("%q", rq.file.content)
				replay["file_class"] = rq.file.why
			}
			res, err := client.Do(req)
			if err != nil {
				vfOracleFail("serve-panic:"+rt.pat, "no answer (handler panicked or connection dropped): "+err.Error(), replay)
				continue
			}
			body, _ := io.ReadAll(res.Body)
			res.Body.Close()
			vfC36RecMu.Lock()
			st := *vfC36RecLast
			vfC36RecMu.Unlock()
			_, hasWire := res.Header["Content-Type"]
			wire := res.Header.Get("Content-Type")
			nosniff := res.Header.Get("X-Content-Type-Options") == "nosniff"
			mt, _, _ := mime.ParseMediaType(wire)
			mode := rq.mode
			kind := rq.kind
			if res.StatusCode != 200 && mode != vfC36MApi && mode != vfC36MError {
				mode, kind = vfC36MError, "data" // an error answer of a route that was expected to succeed
				replay["unexpected_status"] = res.StatusCode
			}
			replay["status"] = res.StatusCode
			replay["observed_content_type"] = wire
			replay["content_type_set_by_handler"] = st.explicit
			replay["nosniff"] = nosniff
			replay["body_prefix"] = fmt.Sprintf("%.200q", body)
			nresp++
			tag := fmt.Sprintf("%s:mode%d", rt.pat, mode)
			switch kind {
			case "data":
				if vfC36EMarkupTypes[mt] {
					vfOracleFail("served-as-markup:"+tag, fmt.Sprintf("%s %s: index/request text is served with Content-Type %q (handler set %q) — the user agent parses the body as markup", method, rq.path, wire, st.explicit), replay)
				} else if len(body) > 0 && !hasWire {
					vfOracleFail("no-content-type:"+tag, "a data response without any Content-Type", replay)
				} else if mt == "text/plain" && !nosniff {
					vfOracleFail("text-plain-without-nosniff:"+tag, "a text/plain data response without X-Content-Type-Options: nosniff", replay)
				}
			case "page":
				if mt != "text/html" {
					vfOracleFail("page-not-html:"+tag, "an HTML page arrives as "+wire, replay)
				}
				if bytes.Contains(body, []byte(vfC36EMarker)) {
					vfOracleFail("page-echoes-markup:"+tag, "hostile markup from the index / the request occurs unescaped in an HTML page", replay)
				} else {
					_, scripts := vfC36Tokens(body)
					for _, sc := range scripts {
						if strings.Contains(sc, `alert("c36-`) {
							vfOracleFail("page-echoes-script:"+tag, "hostile script text inside a script element", replay)
						}
					}
				}
			case "static":
				if vfC36EMarkupTypes[mt] && mt != "text/html" {
					vfOracleFail("served-as-markup:"+tag, "static response with a markup type "+wire, replay)
				}
			case "empty":
				if len(body) != 0 {
					vfOracleFail("empty-mode-with-body:"+tag, "a body where none is expected", replay)
				}
			}
			if rq.file != nil && mode == vfC36MPrintRaw && strings.HasPrefix(rq.file.why, "html-sig") {
				nhostileRaw++
			}
			pre := body
			if len(pre) > 640 {
				pre = pre[:640]
			}
			class := []string{"E:resp", fmt.Sprintf("E:mode=%d", mode), "E:route=" + rt.pat}
			if rq.file != nil {
				class = append(class, "E:file="+strings.SplitN(rq.file.why, ":", 2)[0])
			}
			vfCase(cApp("CNew", cApp("CResp", cN(uint64(mode)), vfC36EOpt(st.hasExplicit, st.explicit), cBool(st.nosniff == "nosniff"), vfC36EOpt(hasWire, wire), vfC36Bytes(pre))),
				vfKey("E", method, rq.path, rq.body, rq.srv), true, class,
				map[string]any{"route": rt.pat, "mode": mode, "request": rq.path, "status": res.StatusCode, "explicit": st.explicit, "wire": wire, "nosniff": nosniff})
		}
	}
	for pat := range builders {
		if !seenRoute[pat] {
			vfInfo(map[string]any{"c36_E_route_not_registered_any_more": pat})
		}
	}
	if nhostileRaw < 17 {
		vfOracleFail("generator-too-weak:E", fmt.Sprintf("only %d raw views of files starting with an html signature", nhostileRaw), nil)
	}

	// ---- DetectContentType itself against the model's detect
	nsn := n / 3
	if nsn < 40 {
		nsn = 40
	}
	for i := 0; i < nsn; i++ {
		body := vfC36EGenSniffBody(r, sigs)
		ct := http.DetectContentType(body)
		mt, _, _ := mime.ParseMediaType(ct)
		vfCase(cApp("CNew", cApp("CSniff", vfC36Bytes(body), vfC36Bytes([]byte(ct)))), vfKey("Es", string(body)),
			ct != "text/plain; charset=utf-8" && ct != "application/octet-stream", []string{"E:sniff", "E:sniffed=" + mt}, map[string]any{"body": fmt.Sprintf("%.80q", body), "ct": ct})
	}
	vfInfo(map[string]any{"c36_E_routes": len(seenRoute), "c36_E_responses": nresp, "c36_E_files": len(files), "c36_E_raw_views_of_html_signature_files": nhostileRaw, "c36_E_sniff_cases": nsn})
}

func vfC36EGenSniffBody(r *vfRand, sigs []vfC36RSig) []byte {
	ws := []string{"", "", " ", "\n", "\t\r\n ", "\x0c", "\x0b", "\x00"}
	switch r.Intn(10) {
	case 0, 1, 2, 3, 8: // a signature, possibly damaged
		s := sigs[r.Intn(len(sigs))]
		var b []byte
		b = append(b, r.Pick(ws)...)
		switch s.kind {
		case "html":
			b = append(b, vfC36ECase(r, s.pat, r.Intn(3))...)
			b = append(b, r.Pick([]string{">", " ", "x", "", "\n", "/>"})...)
		case "masked":
			p := append([]byte{}, s.pat...)
			for i := range p {
				if i < len(s.mask) && s.mask[i] == 0 {
					p[i] = byte(r.Intn(256))
				}
			}
			b = append(b, p...)
		case "exact":
			b = append(b, s.pat...)
		case "mp4":
			return vfC36EGenMp4(r)
		default:
			b = append(b, "plain text"...)
		}
		if r.Chance(12) && len(b) > 1 { // damage one byte or truncate
			if r.Bool() {
				b[r.Intn(len(b))] ^= byte(1 << r.Intn(8))
			} else {
				b = b[:r.Intn(len(b))]
			}
		}
		if r.Chance(50) {
			b = append(b, " tail <b>x</b>\n"...)
		}
		return b
	case 4:
		return vfC36EGenMp4(r)
	case 5: // white space around the sniffing window
		n := 500 + r.Intn(24)
		b := bytes.Repeat([]byte(r.Pick([]string{" ", "\n", "\t"})), n)
		return append(b, r.Pick([]string{"<html>", "<?xml ", "<p>", "\x01", "text"})...)
	case 6: // random bytes
		b := make([]byte, r.Intn(20))
		for i := range b {
			b[i] = byte(r.Intn(256))
		}
		return b
	case 7: // text with one control byte
		b := []byte("some text here")
		if r.Chance(70) {
			b[r.Intn(len(b))] = byte(r.Intn(0x21))
		}
		return b
	default:
		return []byte(vfC36GenStr(r))
	}
}

func vfC36EGenMp4(r *vfRand) []byte {
	nbrands := r.Intn(5)
	box := 8 + 4*(1+nbrands)
	b := make([]byte, 4, box+8)
	size := uint32(box)
	switch r.Intn(6) {
	case 0:
		size = uint32(box + 2) // not a multiple of 4
	case 1:
		size = uint32(box + 400) // larger than the data
	case 2:
		size = uint32(r.Intn(3) * 4)
	}
	binary.BigEndian.PutUint32(b, size)
	b = append(b, r.Pick([]string{"ftyp", "ftyp", "ftyp", "ftyq", "moov"})...)
	for i := 0; i <= nbrands; i++ {
		b = append(b, r.Pick([]string{"mp41", "mp42", "isom", "M4V ", "avc1", "xmp4", "mp4"})...)
		for len(b)%4 != 0 {
			b = append(b, 0)
		}
	}
	if r.Chance(40) {
		b = append(b, "mp42trailing"...)
	}
	return b
}
