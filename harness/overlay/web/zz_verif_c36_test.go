package web

// C36 correspondence + oracle. Mapped into /repo/web by `go test -overlay`.
//  A. direct calls of (*Server).formatResults on generated well-formed and malformed results (recover -> outcome class)
//  B. html/template's contextual escapers on generated strings (mini templates, one per context) vs the model's esc
//  C. the real web.Server (in-process) over tiny shards whose contents, names, metadata, URL templates and the query
//     are HTML/JS payloads and invalid UTF-8; responses tokenised with golang.org/x/net/html and compared with a benign
//     run of the same shape (oracle), and handed to the model's tokenizer (correspondence)
//  D. shards built through the public builder API with a sub-repository path that is not a prefix of the file name
//  E. (zz_verif_c36resp_test.go) every route and response mode of the mux behind a real net/http server: effective
//     Content-Type (after net/http's sniffing) and nosniff for files that start with every signature of net/http's sniffer

import (
	"bytes"
	"context"
	"fmt"
	htmltemplate "html/template"
	"net/http"
	"net/http/httptest"
	"net/url"
	"regexp"
	"strconv"
	"strings"
	"testing"
	"unicode/utf8"

	"golang.org/x/net/html"

	"github.com/sourcegraph/zoekt"
	"github.com/sourcegraph/zoekt/index"
	"github.com/sourcegraph/zoekt/query"
)

// ---------------------------------------------------------------- searcher plumbing

type vfC36Seeker struct{ data []byte }

func (s *vfC36Seeker) Close() {}
func (s *vfC36Seeker) Read(off, sz uint32) ([]byte, error) {
	return s.data[off : off+sz], nil
}
func (s *vfC36Seeker) Size() (uint32, error) { return uint32(len(s.data)), nil }
func (s *vfC36Seeker) Name() string            { return "vfC36Seeker" }

type vfC36Multi struct{ ss []zoekt.Searcher }

func (m vfC36Multi) Search(ctx context.Context, q query.Q, opts *zoekt.SearchOptions) (*zoekt.SearchResult, error) {
	agg := &zoekt.SearchResult{RepoURLs: map[string]string{}, LineFragments: map[string]string{}}
	for _, s := range m.ss {
		r, err := s.Search(ctx, q, opts)
		if err != nil {
			return nil, err
		}
		agg.Files = append(agg.Files, r.Files...)
		agg.Stats.Add(r.Stats)
		for k, v := range r.RepoURLs {
			agg.RepoURLs[k] = v
		}
		for k, v := range r.LineFragments {
			agg.LineFragments[k] = v
		}
	}
	return agg, nil
}
func (m vfC36Multi) List(ctx context.Context, q query.Q, opts *zoekt.ListOptions) (*zoekt.RepoList, error) {
	agg := &zoekt.RepoList{}
	for _, s := range m.ss {
		r, err := s.List(ctx, q, opts)
		if err != nil {
			return nil, err
		}
		agg.Repos = append(agg.Repos, r.Repos...)
		agg.Stats.Add(&r.Stats)
	}
	return agg, nil
}
func (m vfC36Multi) Close()         {}
func (m vfC36Multi) String() string { return "vfC36Multi" }
func (m vfC36Multi) StreamSearch(ctx context.Context, q query.Q, opts *zoekt.SearchOptions, sender zoekt.Sender) error {
	r, err := m.Search(ctx, q, opts)
	if err != nil {
		return err
	}
	sender.Send(r)
	return nil
}

func vfC36Searcher(b *index.ShardBuilder) (zoekt.Searcher, error) {
	var buf bytes.Buffer
	if err := b.Write(&buf); err != nil {
		return nil, err
	}
	return index.NewSearcher(&vfC36Seeker{buf.Bytes()})
}

func vfC36Server(s zoekt.Streamer, print bool) (*Server, *http.ServeMux, error) {
	srv := &Server{Searcher: s, Top: Top, HTML: true, Print: print, Version: "v"}
	mux, err := NewMux(srv)
	return srv, mux, err
}

type vfC36Resp struct {
	status   int
	ctype    string
	body     []byte
	panicked string
}

func vfC36Get(mux *http.ServeMux, path string) (res vfC36Resp) {
	rec := httptest.NewRecorder()
	req := httptest.NewRequest("GET", path, nil)
	func() {
		defer func() {
			if r := recover(); r != nil {
				res.panicked = fmt.Sprint(r)
			}
		}()
		mux.ServeHTTP(rec, req)
	}()
	res.status = rec.Code
	res.body = rec.Body.Bytes()
	res.ctype = rec.Header().Get("Content-Type")
	if res.ctype == "" {
		res.ctype = http.DetectContentType(res.body)
	}
	return res
}

// vfC36Bytes renders a byte string as a Coq term of type bytes; printable ASCII runs become (str "...") literals
// (much cheaper for coqc than numeral lists), everything else numeral lists.
func vfC36Bytes(b []byte) string {
	if len(b) == 0 {
		return "(@nil N)"
	}
	safe := func(c byte) bool { return c == '\n' || c == '\t' || (c >= 32 && c < 127) }
	var parts []string
	for i := 0; i < len(b); {
		j := i
		for j < len(b) && safe(b[j]) == safe(b[i]) {
			j++
		}
		if safe(b[i]) && j-i >= 8 {
			parts = append(parts, `(str "`+strings.ReplaceAll(string(b[i:j]), `"`, `""`)+`")`)
		} else {
			parts = append(parts, cBytes(b[i:j]))
		}
		i = j
	}
	if len(parts) == 1 {
		return parts[0]
	}
	return "(" + strings.Join(parts, " ++ ") + ")"
}

// ---------------------------------------------------------------- skeletons

type vfC36Tag struct {
	close bool
	name  string
	attrs []string
	vals  []string
}

func vfC36Tokens(doc []byte) (tags []vfC36Tag, scripts []string) {
	z := html.NewTokenizer(bytes.NewReader(doc))
	inScript := false
	for {
		tt := z.Next()
		switch tt {
		case html.ErrorToken:
			return
		case html.TextToken:
			if inScript {
				scripts = append(scripts, string(z.Text()))
			}
		case html.StartTagToken, html.SelfClosingTagToken, html.EndTagToken:
			name, more := z.TagName()
			t := vfC36Tag{close: tt == html.EndTagToken, name: string(name)}
			for more {
				var k, v []byte
				k, v, more = z.TagAttr()
				t.attrs = append(t.attrs, string(k))
				t.vals = append(t.vals, string(v))
			}
			inScript = !t.close && t.name == "script"
			tags = append(tags, t)
		}
	}
}

func vfC36Skel(tags []vfC36Tag) string {
	var sb strings.Builder
	for _, t := range tags {
		if t.close {
			sb.WriteString("/")
		}
		sb.WriteString(t.name)
		sb.WriteString("[" + strings.Join(t.attrs, ",") + "] ")
	}
	return sb.String()
}

func vfC36SkelCoq(tags []vfC36Tag) string {
	if len(tags) == 0 {
		return "[]"
	}
	xs := make([]string, len(tags))
	for i, t := range tags {
		as := "[]"
		if len(t.attrs) > 0 {
			ys := make([]string, len(t.attrs))
			for j, a := range t.attrs {
				ys[j] = cStr(a)
			}
			as = cList(ys)
		}
		xs[i] = cTuple(cBool(t.close), cStr(t.name), as)
	}
	return cList(xs)
}

// JS residue: the script with the bodies of its string literals blanked
func vfC36JSResidue(js string) string {
	var sb strings.Builder
	for i := 0; i < len(js); i++ {
		c := js[i]
		if c == '"' || c == '\'' {
			sb.WriteByte(c)
			j := i + 1
			for j < len(js) && js[j] != c {
				if js[j] == '\\' {
					j++
				}
				if j < len(js) && js[j] == '\n' { // unterminated literal
					break
				}
				j++
			}
			sb.WriteByte(c)
			i = j
			continue
		}
		sb.WriteByte(c)
	}
	return sb.String()
}

var vfC36SchemeRe = regexp.MustCompile(`^[\x00-\x20]*([a-zA-Z][a-zA-Z0-9+.\-\x00-\x20]*):`)

// a URL-valued attribute must be relative or http(s)/mailto
func vfC36URLSafe(v string) bool {
	head := v
	if i := strings.IndexAny(head, "/?#"); i >= 0 {
		head = head[:i]
	}
	m := vfC36SchemeRe.FindStringSubmatch(head)
	if m == nil {
		return true // no scheme: a relative reference
	}
	sch := strings.ToLower(strings.Map(func(r rune) rune {
		if r <= 0x20 {
			return -1
		}
		return r
	}, m[1]))
	return sch == "http" || sch == "https" || sch == "mailto"
}

// ---------------------------------------------------------------- payloads

var vfC36Payloads = []string{
	`<script>alert(1)</script>`, `"><img src=x onerror=alert(1)>`, `' onmouseover='alert(1)`, `</title><script>alert(2)</script>`,
	`</script><script>alert(3)</script>`, `javascript:alert(1)`, `&lt;b&gt;&amp;`, `<!--`, `-->`, "\xff\xfe<b>x</b>", "\xc0\xaf<i>",
	`{{.}}`, "`onload=alert(1)", " alert(1)", `<svg/onload=alert(1)>`, `</pre></td></tr></table><h1>x`,
	` autofocus onfocus=alert(1) x=`, `+ADw-script+AD4-`, `');alert(1);//`, `";alert(1);//`, `\';alert(1);//`, `</textarea><b>`,
	"\xef\xb7\x90\xef\xbf\xbe", `<a href="javascript:alert(1)">x</a>`, `<plaintext>`, `<style>*{x:expression(alert(1))}</style>`,
	`=x onclick=alert(1)`, `<b`, `<`, `>`, `&`, `&#60;script&#62;`, "<\xe2\x80\xa8script>", `<ScRiPt SrC=//x.y/z.js></ScRiPt>`,
	"é<\xcc", `%3Cscript%3E`, `data:text/html,<script>alert(1)</script>`, `vbscript:msgbox(1)`, ` jAvAsCrIpT:alert(1)`,
}

var vfC36URLTemplates = []string{
	`javascript:alert(1)//{{.Path}}`, `"><script>alert(1)</script>{{.Path}}`, `https://ex.com/{{.Path}}" onmouseover="alert(1)`,
	`data:text/html,<script>alert(1)</script>{{.Path}}`, `{{.Path}}`, ` javascript:alert(1)//{{.Version}}`, `JaVaScRiPt:alert(1)//{{.Path}}`,
	`https://ex.com/{{.Version}}/{{.Path}}'><b>`, `//evil.example/{{.Path}}<script>`, "java\tscript:alert(1)//{{.Path}}", `{{.Version}}{{.Path}}`,
}
var vfC36FragTemplates = []string{
	`#L{{.LineNumber}}"><script>alert(1)</script>`, `" onmouseover="alert({{.LineNumber}})`, `;javascript:alert({{.LineNumber}})`, `#<b>{{.LineNumber}}`,
	`'><img src=x onerror=alert({{.LineNumber}})>`,
}
var vfC36CommitTemplates = []string{
	`javascript:alert(1)//{{.Version}}`, `"><script>alert(1)</script>{{.Version}}`, `https://ex.com/{{.Version}}" onmouseover="alert(1)`, `{{.Version}}`, `{{.Name}}`,
}

// ---------------------------------------------------------------- C. corpus shapes

type vfC36Atom int // index into the atom tables of a pair

type vfC36File struct {
	name     []vfC36Atom // joined with "/"
	lines    [][]vfC36Atom
	lang     vfC36Atom // -1: detect
	sub      bool
	branches int // bit mask over repo branches (at least one)
	pads     []vfC36Pad // extra lines: long run ++ needle ++ long run (zz_verif_c36funcs_test.go)
}
type vfC36Repo struct {
	name, rawURL     vfC36Atom
	fileT, fragT, cT int // template selectors, -1 = none
	branches         [][2]vfC36Atom
	files            []vfC36File
	subName          vfC36Atom
	hasSub           bool
}
type vfC36Shape struct {
	repos  []vfC36Repo
	needle vfC36Atom
	natoms int
	print  bool
	num    int
	ctx    int
	debug  bool
}

// instantiation of a shape: atom table + template tables
type vfC36Inst struct {
	atoms                 []string
	fileTs, fragTs, comTs []string
	hostile               bool
}

func vfC36GenShape(r *vfRand) *vfC36Shape {
	sh := &vfC36Shape{}
	limits := vfC36SiteConsts(vfC36FuncSites())
	na := 0
	atom := func() vfC36Atom { na++; return vfC36Atom(na - 1) }
	sh.needle = atom()
	pool := []vfC36Atom{}
	for i := 0; i < 4+r.Intn(5); i++ {
		pool = append(pool, atom())
	}
	pick := func() vfC36Atom {
		if r.Chance(30) {
			return sh.needle
		}
		return pool[r.Intn(len(pool))]
	}
	nr := 1 + r.Intn(2)
	for i := 0; i < nr; i++ {
		rp := vfC36Repo{name: atom(), rawURL: atom(), fileT: r.Intn(4) - 1, fragT: r.Intn(3) - 1, cT: r.Intn(3) - 1}
		nb := 1 + r.Intn(2)
		for j := 0; j < nb; j++ {
			rp.branches = append(rp.branches, [2]vfC36Atom{atom(), atom()})
		}
		if r.Chance(35) {
			rp.hasSub = true
			rp.subName = atom()
		}
		nf := 1 + r.Intn(3)
		for j := 0; j < nf; j++ {
			f := vfC36File{name: []vfC36Atom{atom()}, lang: -1, branches: 1 + r.Intn(1<<nb-1)}
			if r.Chance(40) {
				f.name = append([]vfC36Atom{pool[r.Intn(len(pool))]}, f.name...)
			}
			if r.Chance(50) {
				f.lang = pool[r.Intn(len(pool))]
			}
			f.sub = rp.hasSub && r.Chance(60)
			nl := 1 + r.Intn(5)
			dupOf := -1
			if j > 0 && r.Chance(25) {
				dupOf = r.Intn(j)
			}
			if dupOf >= 0 {
				f.lines = rp.files[dupOf].lines
			} else {
				for k := 0; k < nl; k++ {
					var ln []vfC36Atom
					for w := 0; w < r.Intn(5); w++ {
						ln = append(ln, pick())
					}
					f.lines = append(f.lines, ln)
				}
			}
			if dupOf >= 0 {
				f.pads = rp.files[dupOf].pads
			} else if r.Chance(60) {
				for k := 0; k < 1+r.Intn(3); k++ {
					f.pads = append(f.pads, vfC36GenPad(r, limits))
				}
			}
			rp.files = append(rp.files, f)
		}
		sh.repos = append(sh.repos, rp)
	}
	sh.natoms = na
	sh.print = r.Bool()
	sh.num = []int{0, 0, 1, 2, 50}[r.Intn(5)]
	sh.ctx = r.Intn(3)
	sh.debug = r.Chance(25)
	return sh
}

func vfC36Benign(sh *vfC36Shape) *vfC36Inst {
	in := &vfC36Inst{}
	for i := 0; i < sh.natoms; i++ {
		in.atoms = append(in.atoms, fmt.Sprintf("w%dq", i+100))
	}
	in.fileTs = []string{`https://example.com/{{.Version}}/{{.Path}}`, `https://example.com/b/{{.Path}}`, `{{URLJoinPath "https://example.com" .Version .Path}}`}
	in.fragTs = []string{`#L{{.LineNumber}}`, `#n{{.LineNumber}}`}
	in.comTs = []string{`https://example.com/c/{{.Version}}`, `https://example.com/d/{{.Version}}`}
	return in
}

func vfC36Hostile(sh *vfC36Shape, r *vfRand) *vfC36Inst {
	in := &vfC36Inst{hostile: true}
	for i := 0; i < sh.natoms; i++ {
		p := r.Pick(vfC36Payloads)
		if r.Chance(15) {
			p = p + r.Pick(vfC36Payloads)
		}
		// keep atoms distinct, free of NUL/newline/space (atoms are joined with spaces and newlines)
		for i == int(sh.needle) && !utf8.ValidString(p) { // the needle must be an acceptable query
			p = r.Pick(vfC36Payloads)
		}
		p = strings.NewReplacer("\n", "", "\x00", "").Replace(p)
		in.atoms = append(in.atoms, fmt.Sprintf("%s%d", p, i))
	}
	for i := 0; i < 3; i++ {
		in.fileTs = append(in.fileTs, r.Pick(vfC36URLTemplates))
	}
	for i := 0; i < 2; i++ {
		in.fragTs = append(in.fragTs, r.Pick(vfC36FragTemplates))
		in.comTs = append(in.comTs, r.Pick(vfC36CommitTemplates))
	}
	return in
}

func vfC36Sel(ts []string, i int) string {
	if i < 0 {
		return ""
	}
	return ts[i%len(ts)]
}

func vfC36Build(sh *vfC36Shape, in *vfC36Inst) (zoekt.Streamer, error) {
	var ss []zoekt.Searcher
	for _, rp := range sh.repos {
		desc := &zoekt.Repository{
			Name: "repo" + in.atoms[rp.name], URL: in.atoms[rp.rawURL],
			FileURLTemplate: vfC36Sel(in.fileTs, rp.fileT), LineFragmentTemplate: vfC36Sel(in.fragTs, rp.fragT),
			CommitURLTemplate: vfC36Sel(in.comTs, rp.cT),
		}
		for _, b := range rp.branches {
			desc.Branches = append(desc.Branches, zoekt.RepositoryBranch{Name: in.atoms[b[0]], Version: in.atoms[b[1]]})
		}
		if rp.hasSub {
			sub := &zoekt.Repository{Name: "repo" + in.atoms[rp.subName], URL: in.atoms[rp.rawURL],
				FileURLTemplate: vfC36Sel(in.fileTs, rp.fileT+1), LineFragmentTemplate: vfC36Sel(in.fragTs, rp.fragT+1)}
			sub.Branches = desc.Branches
			desc.SubRepoMap = map[string]*zoekt.Repository{"sub": sub}
		}
		b, err := index.NewShardBuilder(desc)
		if err != nil {
			return nil, err
		}
		for _, f := range rp.files {
			var parts []string
			for _, a := range f.name {
				parts = append(parts, strings.ReplaceAll(in.atoms[a], "/", "∕"))
			}
			name := strings.Join(parts, "/")
			doc := index.Document{Name: name}
			if f.sub {
				doc.Name = "sub/" + name
				doc.SubRepositoryPath = "sub"
			}
			var cb bytes.Buffer
			for _, ln := range f.lines {
				for k, a := range ln {
					if k > 0 {
						cb.WriteByte(' ')
					}
					cb.WriteString(in.atoms[a])
				}
				cb.WriteByte('\n')
			}
			for _, p := range f.pads {
				cb.Write(vfC36PadLine(p, in.atoms[sh.needle], in.hostile))
				cb.WriteByte('\n')
			}
			doc.Content = cb.Bytes()
			if f.lang >= 0 {
				doc.Language = in.atoms[f.lang]
			}
			for k, br := range rp.branches {
				if f.branches&(1<<k) != 0 {
					doc.Branches = append(doc.Branches, in.atoms[br[0]])
				}
			}
			if err := b.Add(doc); err != nil {
				return nil, err
			}
		}
		s, err := vfC36Searcher(b)
		if err != nil {
			return nil, err
		}
		ss = append(ss, s)
	}
	return vfC36Multi{ss}, nil
}

func vfC36Quote(s string) string {
	q := regexp.QuoteMeta(s)
	q = strings.ReplaceAll(q, `"`, `\"`)
	return `"` + q + `"`
}

// requests of a pair: same shape of request for both instantiations
func vfC36Requests(sh *vfC36Shape, in *vfC36Inst, r *vfRand) []string {
	needle := in.atoms[sh.needle]
	v := url.Values{}
	v.Set("q", vfC36Quote(needle)+" case:yes")
	if sh.num > 0 {
		v.Set("num", strconv.Itoa(sh.num))
	}
	if sh.ctx > 0 {
		v.Set("ctx", strconv.Itoa(sh.ctx))
	}
	if sh.debug {
		v.Set("debug", "1")
	}
	reqs := []string{"/search?" + v.Encode()}
	// repository list
	v2 := url.Values{}
	v2.Set("q", "r:repo -r:"+vfC36Quote(in.atoms[1]+"zz"))
	if sh.num > 0 {
		v2.Set("num", strconv.Itoa(sh.num))
	}
	reqs = append(reqs, "/search?"+v2.Encode())
	// search box with a query
	reqs = append(reqs, "/?"+url.Values{"q": {needle}}.Encode())
	// print page of the first file
	rp := sh.repos[0]
	f := rp.files[0]
	var parts []string
	for _, a := range f.name {
		parts = append(parts, strings.ReplaceAll(in.atoms[a], "/", "∕"))
	}
	name := strings.Join(parts, "/")
	if f.sub {
		name = "sub/" + name
	}
	reqs = append(reqs, "/print?"+url.Values{"r": {"repo" + in.atoms[rp.name]}, "f": {name}, "q": {needle}}.Encode())
	// query that is not a valid query: must be answered as plain text
	reqs = append(reqs, "/search?"+url.Values{"q": {"(" + needle}}.Encode())
	return reqs
}

// shape signature of what the templates branch on
func vfC36ShapeSig(srv *Server, path string) string {
	req := httptest.NewRequest("GET", path, nil)
	if !strings.HasPrefix(path, "/search") {
		return "-"
	}
	var res *ApiSearchResult
	var err error
	func() {
		defer func() {
			if r := recover(); r != nil {
				err = fmt.Errorf("panic %v", r)
			}
		}()
		res, err = srv.serveSearchErr(req)
	}()
	if err != nil {
		return "err"
	}
	var sb strings.Builder
	if res.Repos != nil {
		for _, rp := range res.Repos.Repos {
			fmt.Fprintf(&sb, "R%v[", rp.URL != "")
			for _, b := range rp.Branches {
				fmt.Fprintf(&sb, "%v,", b.URL != "")
			}
			sb.WriteString("]")
		}
	}
	if res.Result != nil {
		ri := res.Result
		fmt.Fprintf(&sb, "S%v,%v,%v;", ri.Stats.Crashes != 0, len(ri.FileMatches) < ri.Stats.FileCount || ri.Stats.ShardsSkipped > 0 || ri.Stats.FilesSkipped > 0, ri.Last.Debug)
		for _, fm := range ri.FileMatches {
			fmt.Fprintf(&sb, "F%v,%v,%d,%v,%v[", fm.URL != "", fm.ScoreDebug != "", len(fm.Branches), fm.Language != "", fm.DuplicateID != "")
			for _, m := range fm.Matches {
				fmt.Fprintf(&sb, "M%v,%v,%d,%d,%d,%v;", m.LineNum > 0, m.URL != "", len(AddLineNumbers(m.Before, m.LineNum, true)),
					len(AddLineNumbers(m.After, m.LineNum, false)), len(m.Fragments), m.ScoreDebug != "")
			}
			sb.WriteString("]")
		}
	}
	return sb.String()
}

// ---------------------------------------------------------------- A. formatResults

type vfC36InLine struct {
	line, tail    []byte
	num           int
	before, after []byte
	frags         [][2]int
}
type vfC36InFile struct {
	name, repo, subname, subpath, checksum string
	branches                                []string
	version                                 string
	lines                                   []vfC36InLine
}

func vfC36GenBytes(r *vfRand, max int) []byte {
	alpha := []byte("ab<>&\"'/ \n\xff\xc3\xa9x=`")
	n := r.Intn(max + 1)
	b := make([]byte, n)
	for i := range b {
		b[i] = alpha[r.Intn(len(alpha))]
	}
	return b
}

func vfC36GenFiles(r *vfRand) ([]vfC36InFile, bool) {
	wf := true
	nf := 1 + r.Intn(3)
	var fs []vfC36InFile
	names := []string{"a", "a/b", "sub/x.go", "d/e/f.c", "<b>.go", "sub", "s/\xff", "dir/"}
	for i := 0; i < nf; i++ {
		f := vfC36InFile{name: r.Pick(names), repo: r.Pick([]string{"r1", "r<2>", "r1"}), checksum: r.Pick([]string{"c1", "c2", "c3", ""}), version: r.Pick([]string{"v1", "", "<v>"})}
		for j := 0; j < r.Intn(3); j++ {
			f.branches = append(f.branches, r.Pick([]string{"main", "<b>", "", "dev"}))
		}
		if r.Chance(45) {
			f.subname = r.Pick([]string{"subrepo", "s<2>"})
			switch {
			case r.Chance(70): // a directory prefix of the name
				if k := strings.LastIndexByte(f.name, '/'); k >= 0 {
					f.subpath = f.name[:k]
					if r.Chance(20) {
						f.subpath = f.name[:k+1]
					}
				}
			case r.Chance(50): // same length or shorter, not a prefix
				f.subpath = strings.Repeat("z", r.Intn(len(f.name)+1))
			default: // longer than the name
				f.subpath = f.name + "/deeper/path"
			}
		}
		nl := r.Intn(4)
		for j := 0; j < nl; j++ {
			ln := vfC36InLine{line: vfC36GenBytes(r, 12), tail: vfC36GenBytes(r, 4), num: r.Intn(4), before: vfC36GenBytes(r, 6), after: vfC36GenBytes(r, 6)}
			if r.Chance(30) {
				ln.tail = nil
			}
			k := r.Intn(4)
			if r.Chance(72) { // well-formed: sorted, non-overlapping, inside the line
				pos := 0
				for x := 0; x < k; x++ {
					if pos > len(ln.line) {
						break
					}
					lo := pos + r.Intn(len(ln.line)-pos+1)
					n := r.Intn(len(ln.line) - lo + 1)
					if r.Chance(50) && n > 2 {
						n = 1 + r.Intn(2)
					}
					ln.frags = append(ln.frags, [2]int{lo, n})
					pos = lo + n
				}
			} else {
				for x := 0; x < k; x++ {
					ln.frags = append(ln.frags, [2]int{r.Intn(len(ln.line)+8) - 2, r.Intn(7) - 1})
				}
			}
			last := 0
			for _, fr := range ln.frags {
				if fr[0] < last || fr[1] < 0 || fr[0]+fr[1] > len(ln.line) {
					wf = false
				}
				last = fr[0] + fr[1]
			}
			f.lines = append(f.lines, ln)
		}
		fs = append(fs, f)
	}
	return fs, wf
}

func vfC36CoqFiles(fs []vfC36InFile) string {
	if len(fs) == 0 {
		return "[]"
	}
	var xs []string
	for _, f := range fs {
		ls := "[]"
		if len(f.lines) > 0 {
			var ys []string
			for _, l := range f.lines {
				fr := "[]"
				if len(l.frags) > 0 {
					var zs []string
					for _, x := range l.frags {
						zs = append(zs, cTuple(cZ(int64(x[0])), cZ(int64(x[1]))))
					}
					fr = cList(zs)
				}
				ys = append(ys, cTuple(cBytes(l.line), cBytes(l.tail), cZ(int64(l.num)), cBytes(l.before), cBytes(l.after), fr))
			}
			ls = cList(ys)
		}
		br := "[]"
		if len(f.branches) > 0 {
			var ys []string
			for _, b := range f.branches {
				ys = append(ys, cStr(b))
			}
			br = cList(ys)
		}
		xs = append(xs, cTuple(cStr(f.name), cStr(f.repo), cStr(f.subname), cStr(f.subpath), cStr(f.checksum), br, cStr(f.version), ls))
	}
	return cList(xs)
}

func vfC36RunFormat(srv *Server, fs []vfC36InFile, localPrint bool) (out []*FileMatch, panicked string) {
	res := &zoekt.SearchResult{RepoURLs: map[string]string{}, LineFragments: map[string]string{}}
	for _, f := range fs {
		fm := zoekt.FileMatch{FileName: f.name, Repository: f.repo, SubRepositoryName: f.subname, SubRepositoryPath: f.subpath,
			Checksum: []byte(f.checksum), Branches: f.branches, Version: f.version}
		for _, rn := range []string{f.repo, f.subname} {
			if rn != "" {
				res.RepoURLs[rn] = fmt.Sprintf("%x", rn) + "\x01{{.Path}}\x01{{.Branch}}"
			}
		}
		for _, l := range f.lines {
			buf := make([]byte, 0, len(l.line)+len(l.tail))
			buf = append(buf, l.line...)
			buf = append(buf, l.tail...)
			lm := zoekt.LineMatch{Line: buf[:len(l.line):len(buf)], LineNumber: l.num, Before: l.before, After: l.after}
			for _, fr := range l.frags {
				lm.LineFragments = append(lm.LineFragments, zoekt.LineFragmentMatch{LineOffset: fr[0], MatchLength: fr[1]})
			}
			fm.LineMatches = append(fm.LineMatches, lm)
		}
		res.Files = append(res.Files, fm)
	}
	func() {
		defer func() {
			if r := recover(); r != nil {
				panicked = fmt.Sprint(r)
			}
		}()
		out, _ = srv.formatResults(res, "q<uery>", localPrint)
	}()
	return
}

func vfC36CoqOut(out []*FileMatch, localPrint bool) string {
	if len(out) == 0 {
		return "(Some [])"
	}
	var xs []string
	for _, fm := range out {
		var urepo, upath, ubranch string
		if localPrint {
			if u, err := url.Parse(fm.URL); err == nil {
				q := u.Query()
				urepo, upath, ubranch = q.Get("r"), q.Get("f"), q.Get("b")
			}
		} else {
			parts := strings.SplitN(fm.URL, "\x01", 3)
			if len(parts) == 3 {
				var rb []byte
				fmt.Sscanf(parts[0], "%x", &rb)
				urepo, upath, ubranch = string(rb), parts[1], parts[2]
			}
		}
		ms := "[]"
		if len(fm.Matches) > 0 {
			var ys []string
			for _, m := range fm.Matches {
				fr := "[]"
				if len(m.Fragments) > 0 {
					var zs []string
					for _, f := range m.Fragments {
						zs = append(zs, cTuple(cStr(string(f.Pre)), cStr(string(f.Match)), cStr(string(f.Post))))
					}
					fr = cList(zs)
				}
				ys = append(ys, cTuple(cZ(int64(m.LineNum)), cStr(m.Before), cStr(m.After), fr))
			}
			ms = cList(ys)
		}
		xs = append(xs, cTuple(cStr(fm.ResultID), cStr(fm.DuplicateID), cStr(urepo), cStr(upath), cStr(ubranch), ms))
	}
	return cSome(cList(xs))
}

// ---------------------------------------------------------------- B. escapers

var vfC36EscT = []*htmltemplate.Template{
	htmltemplate.Must(htmltemplate.New("t0").Parse(`<p>{{.}}</p>`)),
	htmltemplate.Must(htmltemplate.New("t1").Parse(`<a title="{{.}}">`)),
	htmltemplate.Must(htmltemplate.New("t2").Parse(`<input value={{.}}>`)),
	htmltemplate.Must(htmltemplate.New("t3").Parse(`<script>var x="{{.}}";</script>`)),
	htmltemplate.Must(htmltemplate.New("t4").Parse(`<script>var n={{.}};</script>`)),
	htmltemplate.Must(htmltemplate.New("t5").Parse(`<a href="/s?q={{.}}">`)),
}
var vfC36EscWrap = [][2]string{{"<p>", "</p>"}, {`<a title="`, `">`}, {"<input value=", ">"}, {`<script>var x="`, `";</script>`}, {"<script>var n=", ";</script>"}, {`<a href="/s?q=`, `">`}}

func vfC36GenStr(r *vfRand) string {
	if r.Chance(35) {
		s := r.Pick(vfC36Payloads)
		if r.Chance(30) {
			s += r.Pick(vfC36Payloads)
		}
		return s
	}
	alpha := []string{"a", "Z", "0", "<", ">", "&", "\"", "'", "+", "=", "`", " ", "\t", "\n", "\v", "\f", "\r", "\x00", "/", "\\", "$", "{", "}", "%", "-", ".", "_", "~", ":", ";", "#", "?",
		"\xff", "\x80", "\xc3", "\xc3\xa9", "\xe2\x80\xa8", "\xe2\x80\xa9", "\xe2\x80", "\xef\xb7\x90", "\xef\xb7\xaf", "\xef\xbf\xbd", "\xef\xbf\xbe", "\xef\xbf\xbf", "\xef\xbf\xb0", "\xef\xbf\xaf",
		"\xf0\x9f\x98\x80", "\xed\xa0\x80", "\xf4\x90\x80\x80", "\xe0\x80\xaf", "\x7f", "\x01", "\x1b"}
	n := r.Intn(9)
	var sb strings.Builder
	for i := 0; i < n; i++ {
		sb.WriteString(alpha[r.Intn(len(alpha))])
	}
	return sb.String()
}

// ---------------------------------------------------------------- the test

func TestVerifC36(t *testing.T) {
	r := vfNewRand(vfSeed())
	n := vfN(300)

	// ---- A
	srvA, _, err := vfC36Server(vfC36Multi{}, false)
	if err != nil {
		t.Fatal(err)
	}
	for i := 0; i < n; i++ {
		fs, wf := vfC36GenFiles(r)
		localPrint := r.Chance(20)
		out, panicked := vfC36RunFormat(srvA, fs, localPrint)
		replay := map[string]any{"files": fmt.Sprintf("%q", fs), "localPrint": localPrint, "panic": panicked}
		subLong := false
		for _, f := range fs {
			if f.subname != "" && len(f.subpath) > len(f.name) {
				subLong = true
			}
		}
		if wf { // the property on well-formed line matches
			if panicked != "" {
				if subLong {
					vfOracleFail("format-panic:subrepo-path-longer-than-name", "formatResults panics on a file whose SubRepositoryPath is longer than its name: "+panicked, replay)
				} else {
					vfOracleFail("format-panic:well-formed", "formatResults panics on well-formed line matches: "+panicked, replay)
				}
			} else {
				for fi, fm := range out {
					for mi, m := range fm.Matches {
						in := fs[fi].lines[mi]
						if len(m.Fragments) != len(in.frags) {
							vfOracleFail("format:fragment-count", "fragment count differs", replay)
							continue
						}
						var cat strings.Builder
						for k, f := range m.Fragments {
							cat.WriteString(string(f.Pre) + string(f.Match) + string(f.Post))
							if string(f.Match) != string(in.line[in.frags[k][0]:in.frags[k][0]+in.frags[k][1]]) {
								vfOracleFail("format:match-text", "Match is not the matched range of the line", replay)
							}
						}
						if len(m.Fragments) > 0 && cat.String() != string(in.line) {
							vfOracleFail("format:partition", "Pre/Match/Post do not partition the line", replay)
						}
						if !strings.HasPrefix(m.URL, fm.URL) {
							vfOracleFail("format:match-url", "match URL does not extend the file URL", replay)
						}
					}
				}
			}
		}
		obs := "None"
		if panicked == "" {
			obs = vfC36CoqOut(out, localPrint)
		}
		nfr := 0
		for _, f := range fs {
			for _, l := range f.lines {
				nfr += len(l.frags)
			}
		}
		class := []string{"A:format", fmt.Sprintf("A:wf=%v", wf), fmt.Sprintf("A:panic=%v", panicked != ""), fmt.Sprintf("A:sublong=%v", subLong)}
		vfCase(cApp("COld", cApp("CFormat", vfC36CoqFiles(fs), obs)), vfKey("A", fmt.Sprintf("%q", fs), localPrint), nfr >= 2 || panicked != "", class,
			map[string]any{"files": fmt.Sprintf("%q", fs), "panic": panicked})
	}

	// ---- B
	for i := 0; i < n; i++ {
		k := r.Intn(6)
		s := vfC36GenStr(r)
		var data any = s
		if k == 4 {
			v := r.Intn(200000) - 1000
			if r.Chance(20) {
				v = r.Intn(10)
			}
			data = v
			s = strconv.Itoa(v)
		}
		if k == 2 && s == "" && r.Chance(50) {
			s = "x y"
			data = s
		}
		var buf bytes.Buffer
		if err := vfC36EscT[k].Execute(&buf, data); err != nil {
			vfOracleFail("esc:execute-error", "mini template failed: "+err.Error(), map[string]any{"k": k, "s": s})
			continue
		}
		out := buf.String()
		w := vfC36EscWrap[k]
		if !strings.HasPrefix(out, w[0]) || !strings.HasSuffix(out, w[1]) {
			vfOracleFail("esc:wrapper", "mini template output lost its literal text", map[string]any{"k": k, "s": s, "out": out})
			continue
		}
		mid := out[len(w[0]) : len(out)-len(w[1])]
		// oracle: the escaped value is inert in its context
		bad := ""
		switch k {
		case 0, 3, 4:
			if strings.Contains(mid, "<") {
				bad = "'<' in text/script context"
			}
		case 1, 5:
			if strings.ContainsAny(mid, "\"<") {
				bad = "quote in double-quoted attribute"
			}
		case 2:
			if mid == "" || strings.ContainsAny(mid, " \t\n\f\r>\"'=`") {
				bad = "delimiter in unquoted attribute"
			}
		}
		if k == 3 && vfC36JSResidue(`"`+mid+`"`) != `""` {
			bad = "string literal is terminated by the data"
		}
		if bad != "" {
			vfOracleFail("esc:not-inert:"+strconv.Itoa(k), bad, map[string]any{"k": k, "s": s, "out": out})
		}
		vfCase(cApp("COld", cApp("CEsc", cN(uint64(k)), cStr(s), cStr(mid))), vfKey("B", k, s), mid != s, []string{"B:esc", "B:k=" + strconv.Itoa(k)},
			map[string]any{"k": k, "s": s, "out": mid})
	}

	// ---- B2: the URL filter's decision at the start of an href (Model/WebUrl.v:is_safe_url)
	urlT := htmltemplate.Must(htmltemplate.New("u").Parse(`<a href="{{.}}">`))
	for i := 0; i < n/2; i++ {
		var s string
		switch r.Intn(4) {
		case 0:
			s = r.Pick(vfC36Payloads)
		case 1:
			s = vfC36GenStr(r)
		default:
			pre := []string{"", "", " ", "\t", "\n", "\x00", "/", "a/", "#", "?", "x"}
			sch := []string{"javascript", "JaVaScRiPt", "java\tscript", "http", "HTTPS", "https", "mailto", "MailTo", "data", "vbscript", "http\xc5\xbf", "htt\xc5\xbfp", "ftp", "", "h", "httpss", "mail to", "\xe2\x84\xaa", "http\xe2\x84\xaa"}
			s = r.Pick(pre) + r.Pick(sch) + r.Pick([]string{":", ":", "", "/:", " :", "::"}) + r.Pick([]string{"alert(1)", "//ex.com/a?b=c", "", "x:y"})
		}
		if s == "#ZgotmplZ" {
			continue
		}
		var buf bytes.Buffer
		if err := urlT.Execute(&buf, s); err != nil {
			vfOracleFail("esc:execute-error", "href mini template failed: "+err.Error(), map[string]any{"s": s})
			continue
		}
		out := buf.String()
		if !strings.HasPrefix(out, `<a href="`) || !strings.HasSuffix(out, `">`) {
			vfOracleFail("esc:wrapper", "href mini template output lost its literal text", map[string]any{"s": s, "out": out})
			continue
		}
		val := html.UnescapeString(out[len(`<a href="`) : len(out)-2])
		rejected := val == "#ZgotmplZ"
		if !vfC36URLSafe(val) {
			vfOracleFail("unsafe-url-attr:mini", "html/template let a URL with a scheme other than http/https/mailto through: "+val, map[string]any{"s": s, "out": out})
		}
		vfCase(cApp("CUrl", cStr(s), cBool(rejected)), vfKey("B2", s), strings.Contains(s, ":"), []string{"B2:urlfilter", fmt.Sprintf("B2:rejected=%v", rejected)},
			map[string]any{"s": s, "out": out})
	}

	// ---- C
	npairs := n / 12
	if npairs < 6 {
		npairs = 6
	}
	tagCases := 0
	maxTagCases := n / 10
	discarded, compared, rejected := 0, 0, 0
	for i := 0; i < npairs; i++ {
		sh := vfC36GenShape(r)
		ben := vfC36Benign(sh)
		hos := vfC36Hostile(sh, r)
		sB, errB := vfC36Build(sh, ben)
		sH, errH := vfC36Build(sh, hos)
		if errB != nil || errH != nil {
			discarded++
			vfInfo(map[string]any{"c36_build_discarded": fmt.Sprint(errB, errH)})
			continue
		}
		srvB, muxB, _ := vfC36Server(sB, sh.print)
		srvH, muxH, _ := vfC36Server(sH, sh.print)
		r2 := vfNewRand(r.U64())
		reqB := vfC36Requests(sh, ben, r2)
		reqH := vfC36Requests(sh, hos, r2)
		for j := range reqB {
			rb := vfC36Get(muxB, reqB[j])
			rh := vfC36Get(muxH, reqH[j])
			replay := map[string]any{"atoms": fmt.Sprintf("%q", hos.atoms), "fileTs": hos.fileTs, "fragTs": hos.fragTs, "comTs": hos.comTs,
				"shape": fmt.Sprintf("%+v", *sh), "request": reqH[j], "benign_request": reqB[j]}
			if rh.panicked != "" || rb.panicked != "" {
				vfOracleFail("serve-panic", "handler panicked: "+rh.panicked+rb.panicked, replay)
				continue
			}
			isHTML := strings.HasPrefix(rh.ctype, "text/html")
			if rh.status != 200 {
				// error answers must be plain text
				if !strings.HasPrefix(rh.ctype, "text/plain") {
					vfOracleFail("error-page-not-plain", fmt.Sprintf("status %d answered with content type %q", rh.status, rh.ctype), replay)
				}
				if bytes.Contains(rh.body, []byte("template:")) {
					// template execution failed (request rejections — unparsable query, invalid UTF-8 in a regexp — are not rendering failures)
					vfOracleFail("render-error:"+strconv.Itoa(j), fmt.Sprintf("status %d, template execution failed: %.300s", rh.status, rh.body), replay)
				}
				rejected++
				continue
			}
			if !isHTML {
				vfOracleFail("page-not-html", "200 answer is not text/html: "+rh.ctype, replay)
				continue
			}
			if rb.status != 200 {
				discarded++
				continue
			}
			if vfC36ShapeSig(srvB, reqB[j]) != vfC36ShapeSig(srvH, reqH[j]) {
				discarded++
				continue
			}
			compared++
			tb, scb := vfC36Tokens(rb.body)
			th, sch := vfC36Tokens(rh.body)
			replay["response"] = string(rh.body)
			if vfC36Skel(tb) != vfC36Skel(th) {
				vfOracleFail("skeleton-differs:"+strconv.Itoa(j), "tag/attribute skeleton of the page depends on the data", replay)
			} else {
				for k := range th {
					for a, an := range th[k].attrs {
						if an == "href" || an == "src" || an == "action" {
							if !vfC36URLSafe(th[k].vals[a]) {
								vfOracleFail("unsafe-url-attr", "URL attribute with a scheme other than http/https/mailto: "+th[k].vals[a], replay)
							}
						}
						if strings.HasPrefix(an, "on") && vfC36JSResidue(th[k].vals[a]) != vfC36JSResidue(tb[k].vals[a]) {
							vfOracleFail("js-attr-differs", "event handler code depends on the data: "+th[k].vals[a], replay)
						}
					}
				}
				if len(scb) == len(sch) {
					for k := range sch {
						if vfC36JSResidue(sch[k]) != vfC36JSResidue(scb[k]) {
							vfOracleFail("script-differs", "script code outside string literals depends on the data", replay)
						}
					}
				} else {
					vfOracleFail("script-count-differs", "number of script texts differs", replay)
				}
			}
			if tagCases < maxTagCases {
				tagCases++
				vfCase(cApp("COld", cApp("CTags", vfC36Bytes(rh.body), vfC36SkelCoq(th))), vfKey("C", reqH[j], fmt.Sprintf("%q", hos.atoms)), true,
					[]string{"C:page", "C:req=" + strconv.Itoa(j)}, map[string]any{"request": reqH[j], "len": len(rh.body)})
			}
		}
		// small hostile snippets for the tokenizer model
		for k := 0; k < 3; k++ {
			doc := vfC36GenStr(r) + "<p title=x>" + vfC36GenStr(r) + "</p>" + vfC36GenStr(r) + "<br/>"
			tk, _ := vfC36Tokens([]byte(doc))
			vfCase(cApp("COld", cApp("CTags", cStr(doc), vfC36SkelCoq(tk))), vfKey("Cs", doc), len(tk) > 3, []string{"C:snippet"}, map[string]any{"doc": doc})
		}
	}
	vfInfo(map[string]any{"c36_pairs": npairs, "c36_pages_compared": compared, "c36_discarded_shape_or_build": discarded, "c36_rejected_requests_plain_text": rejected})
	if compared < npairs {
		vfOracleFail("generator-too-weak", fmt.Sprintf("only %d page pairs compared for %d corpus pairs", compared, npairs), nil)
	}

	// ---- E: response classes of every route (zz_verif_c36resp_test.go)
	vfC36PartE(t, r, n)

	// ---- F: the template functions called directly (zz_verif_c36funcs_test.go)
	nF := 2 * n
	if nF > n+300 { // thorough tier: keep the run inside its time budget
		nF = n + 300
	}
	vfC36PartF(vfNewRand(r.U64()), nF)

	// ---- D: through the public builder API: a document whose SubRepositoryPath is accepted but is not a prefix of its name
	for _, c := range [][2]string{{"a", "a/b/c"}, {"x/y.go", "x/y.go/z/w"}} {
		desc := &zoekt.Repository{Name: "repoD", Branches: []zoekt.RepositoryBranch{{Name: "main", Version: "v"}},
			SubRepoMap: map[string]*zoekt.Repository{c[1]: {Name: "subD", URL: "u", FileURLTemplate: "http://x/{{.Path}}", Branches: []zoekt.RepositoryBranch{{Name: "main", Version: "v"}}}}}
		b, err := index.NewShardBuilder(desc)
		if err != nil {
			t.Fatal(err)
		}
		if err := b.Add(index.Document{Name: c[0], Content: []byte("carry water here\n"), Branches: []string{"main"}, SubRepositoryPath: c[1]}); err != nil {
			vfInfo(map[string]any{"c36_D_rejected_by_builder": err.Error()})
			continue
		}
		s, err := vfC36Searcher(b)
		if err != nil {
			t.Fatal(err)
		}
		_, mux, _ := vfC36Server(vfC36Multi{[]zoekt.Searcher{s}}, false)
		res := vfC36Get(mux, "/search?q=water")
		if res.panicked == "" && res.status != 200 && bytes.Contains(res.body, []byte("template:")) {
			vfOracleFail("render-error:D", fmt.Sprintf("status %d, template execution failed: %.300s", res.status, res.body),
				map[string]any{"name": c[0], "subRepositoryPath": c[1], "request": "/search?q=water"})
		} else if res.panicked != "" || res.status != 200 {
			vfOracleFail("format-panic:subrepo-path-longer-than-name",
				fmt.Sprintf("results page fails for a document accepted by ShardBuilder.Add (Name %q, SubRepositoryPath %q): status %d panic %q", c[0], c[1], res.status, res.panicked),
				map[string]any{"name": c[0], "subRepositoryPath": c[1], "request": "/search?q=water"})
		}
	}
}
