package web

// C36 translator: regenerates coq/Generated/WebPages.v (the page trees, read from the parse trees AFTER html/template
// inserted its contextual escapers) and coq/Generated/WebSinks.v (types of everything that flows into the html
// templates, from go/types; URL-attribute slots and their escaper chains). Mapped into /repo/web with `go test -overlay`;
// the texts are handed to the check through VERIF_OUT records {"kind":"gen","file":...,"text":...}.

import (
	"bytes"
	"fmt"
	"go/ast"
	"go/importer"
	"go/parser"
	"go/token"
	"go/types"
	htmltemplate "html/template"
	"io"
	"os"
	"os/exec"
	"path/filepath"
	"reflect"
	"regexp"
	"sort"
	"strings"
	"testing"
	texttemplate "text/template"
	"text/template/parse"
	"unsafe"

	"github.com/sourcegraph/zoekt"
)

type vfC36Gen struct {
	top    *htmltemplate.Template
	page   string
	litBuf strings.Builder // literal text since the last slot-free '>' (for the attribute heuristics)
	hrefs  []string
	nslots map[string]int
	depth  int
}

var vfC36AttrRe = regexp.MustCompile(`(?is)\b(href|src|action)\s*=\s*["']?[^"'>\s]*$`)

func vfC36CoqString(s string) string {
	return `"` + strings.ReplaceAll(s, `"`, `""`) + `"`
}

func (g *vfC36Gen) seq(parts []string) string {
	var ps []string
	for _, p := range parts {
		if p != "PNil" {
			ps = append(ps, p)
		}
	}
	if len(ps) == 0 {
		return "PNil"
	}
	out := ps[len(ps)-1]
	for i := len(ps) - 2; i >= 0; i-- {
		out = "(PSeq " + ps[i] + " " + out + ")"
	}
	return out
}

func (g *vfC36Gen) list(l *parse.ListNode) string {
	if l == nil {
		return "PNil"
	}
	var parts []string
	for _, n := range l.Nodes {
		parts = append(parts, g.node(n))
	}
	return g.seq(parts)
}

func (g *vfC36Gen) node(n parse.Node) string {
	switch x := n.(type) {
	case *parse.ListNode:
		return g.list(x)
	case *parse.TextNode:
		g.litBuf.Write(x.Text)
		return "(PLit " + vfC36Bytes(x.Text) + ")"
	case *parse.CommentNode:
		return "PNil"
	case *parse.ActionNode:
		if len(x.Pipe.Decl) > 0 {
			return "PNil" // variable declaration: no output
		}
		kind := "KUnknown"
		var chain []string
		for _, c := range x.Pipe.Cmds {
			if len(c.Args) > 0 {
				if id, ok := c.Args[0].(*parse.IdentifierNode); ok && strings.HasPrefix(id.Ident, "_html_template_") {
					chain = append(chain, strings.TrimPrefix(id.Ident, "_html_template_"))
				}
			}
		}
		if len(chain) > 0 {
			switch chain[len(chain)-1] {
			case "htmlescaper", "attrescaper", "rcdataescaper":
				kind = "KHtml"
			case "nospaceescaper":
				kind = "KNospace"
			case "jsstrescaper":
				kind = "KJsStr"
			case "jsvalescaper":
				kind = "KJsVal"
			}
		}
		g.nslots[kind]++
		lit := g.litBuf.String()
		if k := strings.LastIndexByte(lit, '>'); k >= 0 && !strings.Contains(lit[k:], "<") {
			lit = ""
		}
		if m := vfC36AttrRe.FindStringSubmatch(lit); m != nil {
			hasURL := false
			for _, c := range chain {
				if c == "urlfilter" || c == "urlescaper" || c == "urlnormalizer" {
					hasURL = true
				}
			}
			atStart := regexp.MustCompile(`(?is)\b(href|src|action)\s*=\s*["']?$`).MatchString(lit)
			filtered := !atStart
			for _, c := range chain {
				if c == "urlfilter" {
					filtered = true
				}
			}
			g.hrefs = append(g.hrefs, fmt.Sprintf("(%s, %s, %v, %v)", vfC36CoqString(g.page), vfC36CoqString(x.String()), hasURL, filtered))
		}
		g.litBuf.WriteString("\x00") // a slot: attribute text continues
		return "(PSlot " + kind + ")"
	case *parse.IfNode:
		t := g.list(x.List)
		e := g.list(x.ElseList)
		return "(PIf " + t + " " + e + ")"
	case *parse.WithNode:
		t := g.list(x.List)
		e := g.list(x.ElseList)
		return "(PIf " + t + " " + e + ")"
	case *parse.RangeNode:
		t := g.list(x.List)
		e := g.list(x.ElseList)
		return "(PRange " + t + " " + e + ")"
	case *parse.TemplateNode:
		g.depth++
		defer func() { g.depth-- }()
		var tree *parse.Tree
		if sub := g.top.Lookup(x.Name); sub != nil {
			tree = sub.Tree
		} else if fld := reflect.ValueOf(g.top).Elem().FieldByName("text"); fld.IsValid() && fld.Kind() == reflect.Pointer {
			// templates derived by the escaper for a non-text start context ("q$htmltemplate_stateURL_...") live only in
			// the underlying text/template name space
			if sub := (*texttemplate.Template)(unsafe.Pointer(fld.Pointer())).Lookup(x.Name); sub != nil {
				tree = sub.Tree
			}
		}
		if tree == nil || g.depth > 20 {
			g.nslots["KUnknown"]++
			return "(PSlot KUnknown)"
		}
		return g.list(tree.Root)
	default:
		// break/continue/anything new: not supported by the model -> make the flow check fail
		g.nslots["KUnknown"]++
		return "(PSlot KUnknown)"
	}
}

// ---------------------------------------------------------------- go/types part

func vfC36Kind(t types.Type, seen map[string]bool, path string, out *[]string) {
	add := func(k string) {
		*out = append(*out, fmt.Sprintf("(%s, %s, %s)", vfC36CoqString(path), vfC36CoqString(types.TypeString(t, nil)), k))
	}
	switch x := t.(type) {
	case *types.Named:
		obj := x.Obj()
		if obj.Pkg() != nil && obj.Pkg().Path() == "html/template" {
			add("TSafeContent")
			return
		}
		if obj.Pkg() != nil && obj.Pkg().Path() == "time" {
			add("TTime")
			return
		}
		key := types.TypeString(t, nil)
		if seen[key] {
			return
		}
		seen[key] = true
		vfC36Kind(x.Underlying(), seen, path, out)
	case *types.Alias:
		vfC36Kind(types.Unalias(x), seen, path, out)
	case *types.Pointer:
		vfC36Kind(x.Elem(), seen, path, out)
	case *types.Slice:
		vfC36Kind(x.Elem(), seen, path+"[]", out)
	case *types.Array:
		vfC36Kind(x.Elem(), seen, path+"[]", out)
	case *types.Map:
		vfC36Kind(x.Key(), seen, path+"[key]", out)
		vfC36Kind(x.Elem(), seen, path+"[val]", out)
	case *types.Struct:
		for i := 0; i < x.NumFields(); i++ {
			f := x.Field(i)
			if f.Exported() {
				vfC36Kind(f.Type(), seen, path+"."+f.Name(), out)
			}
		}
	case *types.Basic:
		switch {
		case x.Info()&types.IsString != 0:
			add("TString")
		case x.Info()&types.IsInteger != 0:
			add("TInt")
		case x.Info()&types.IsBoolean != 0:
			add("TBool")
		case x.Info()&types.IsFloat != 0:
			add("TFloat")
		default:
			add("TOther")
		}
	case *types.Interface:
		add("TInterface")
	case *types.Signature:
		add("TFunc")
	default:
		add("TOther")
	}
}

func vfC36Types() (execs []string, sinks []string, funcs []string, err error) {
	cmd := exec.Command("go", "list", "-export", "-deps", "-f", "{{.ImportPath}}\t{{.Export}}", ".")
	cmd.Stderr = io.Discard
	outb, e := cmd.Output()
	if e != nil {
		return nil, nil, nil, fmt.Errorf("go list: %v", e)
	}
	exports := map[string]string{}
	for _, ln := range strings.Split(string(outb), "\n") {
		if p := strings.SplitN(ln, "\t", 2); len(p) == 2 && p[1] != "" {
			exports[p[0]] = p[1]
		}
	}
	fset := token.NewFileSet()
	names, _ := filepath.Glob("*.go")
	sort.Strings(names)
	var files []*ast.File
	for _, n := range names {
		if strings.HasSuffix(n, "_test.go") {
			continue
		}
		f, e := parser.ParseFile(fset, n, nil, 0)
		if e != nil {
			return nil, nil, nil, e
		}
		files = append(files, f)
	}
	imp := importer.ForCompiler(fset, "gc", func(path string) (io.ReadCloser, error) {
		p, ok := exports[path]
		if !ok {
			return nil, fmt.Errorf("no export data for %s", path)
		}
		return os.Open(p)
	})
	info := &types.Info{Types: map[ast.Expr]types.TypeAndValue{}, Defs: map[*ast.Ident]types.Object{}, Uses: map[*ast.Ident]types.Object{}}
	conf := types.Config{Importer: imp}
	if _, e := conf.Check("github.com/sourcegraph/zoekt/web", fset, files, info); e != nil {
		return nil, nil, nil, e
	}
	vfC36TInfo, vfC36TFiles = info, files // for the template-function translator (zz_verif_c36funcs_test.go)
	seen := map[string]bool{}
	for _, f := range files {
		for _, d := range f.Decls {
			fd, ok := d.(*ast.FuncDecl)
			fname := ""
			if ok {
				fname = fd.Name.Name
			}
			ast.Inspect(d, func(n ast.Node) bool {
				switch x := n.(type) {
				case *ast.CallExpr:
					sel, ok := x.Fun.(*ast.SelectorExpr)
					if !ok || (sel.Sel.Name != "Execute" && sel.Sel.Name != "ExecuteTemplate") {
						return true
					}
					rt := info.Types[sel.X].Type
					if rt == nil {
						return true
					}
					rts := types.TypeString(rt, nil)
					dataArg := x.Args[len(x.Args)-1]
					dt := info.Types[dataArg].Type
					execs = append(execs, fmt.Sprintf("(%s, %s, %s)", vfC36CoqString(fname), vfC36CoqString(rts), vfC36CoqString(types.TypeString(dt, nil))))
					if rts == "*html/template.Template" {
						vfC36Kind(dt, seen, fname+":"+types.ExprString(dataArg), &sinks)
					}
				case *ast.ValueSpec:
					for i, nm := range x.Names {
						if nm.Name == "Funcmap" && i < len(x.Values) {
							if cl, ok := x.Values[i].(*ast.CompositeLit); ok {
								for _, el := range cl.Elts {
									kv, ok := el.(*ast.KeyValueExpr)
									if !ok {
										continue
									}
									key := types.ExprString(kv.Key)
									sig, ok := info.Types[kv.Value].Type.(*types.Signature)
									if !ok {
										funcs = append(funcs, fmt.Sprintf("(%s, %s, TOther)", vfC36CoqString("Funcmap:"+key), vfC36CoqString("?")))
										continue
									}
									for j := 0; j < sig.Results().Len(); j++ {
										vfC36Kind(sig.Results().At(j).Type(), map[string]bool{}, "Funcmap:"+key, &funcs)
									}
								}
							}
						}
					}
				}
				return true
			})
		}
	}
	return
}

func vfC36CoqList(xs []string, ty string) string {
	if len(xs) == 0 {
		return "(@nil (" + ty + "))"
	}
	return "[\n  " + strings.Join(xs, ";\n  ") + "\n]"
}

func TestVerifC36Gen(t *testing.T) {
	// ---- pages
	type pg struct {
		name string
		data any
	}
	pages := []pg{
		{"results", &ResultInput{}}, {"repolist", &RepoListInput{}}, {"print", &PrintInput{}},
		{"search", &SearchBoxInput{Stats: &zoekt.RepoStats{}}}, {"about", &SearchBoxInput{Stats: &zoekt.RepoStats{}}},
		{"robots", &struct{}{}},
	}
	var sb strings.Builder
	sb.WriteString("(* GENERATED by harness/overlay/web/zz_verif_c36gen_test.go from /repo/web/templates.go — do not edit.\n")
	sb.WriteString("   Page trees read from the html/template parse trees after contextual escaping was applied. *)\n")
	sb.WriteString("From Coq Require Import String.\nFrom ZV Require Import Lib.Base Model.Web.\nOpen Scope N_scope.\n\n")
	var names, hrefs []string
	info := map[string]any{}
	for _, p := range pages {
		tpl := Top.Lookup(p.name)
		if tpl == nil {
			t.Fatalf("no template %q", p.name)
		}
		var buf bytes.Buffer
		execErr := tpl.Execute(&buf, p.data) // forces the escaping pass; execution errors on the zero data are irrelevant
		g := &vfC36Gen{top: Top, page: p.name, nslots: map[string]int{}}
		if tpl.Tree == nil {
			t.Fatalf("template %q has no tree (escape failed: %v)", p.name, execErr)
		}
		term := g.list(tpl.Tree.Root)
		fmt.Fprintf(&sb, "Definition page_%s : page :=\n  %s.\n\n", p.name, term)
		names = append(names, fmt.Sprintf("(%s, page_%s)", vfC36CoqString(p.name), p.name))
		hrefs = append(hrefs, g.hrefs...)
		info["slots_"+p.name] = g.nslots
	}
	sb.WriteString("Definition pages : list (string * page) := " + vfC36CoqList(names, "string * page") + "%string.\n")
	vfEmit(map[string]any{"kind": "gen", "file": "WebPages.v", "text": sb.String()})

	// ---- sinks
	execs, sinks, funcs, err := vfC36Types()
	if err != nil {
		t.Fatalf("go/types: %v", err)
	}
	var sk strings.Builder
	sk.WriteString("(* GENERATED by harness/overlay/web/zz_verif_c36gen_test.go from /repo/web/*.go with go/types — do not edit. *)\n")
	sk.WriteString("From Coq Require Import String List Bool.\nImport ListNotations.\nOpen Scope string_scope.\n\n")
	sk.WriteString("Inductive tykind := TString | TInt | TBool | TFloat | TTime | TSafeContent | TInterface | TFunc | TOther.\n\n")
	sk.WriteString("(* every Execute/ExecuteTemplate call of package web: (enclosing function, receiver type, data type) *)\n")
	sk.WriteString("Definition execs : list (string * string * string) := " + vfC36CoqList(execs, "string * string * string") + ".\n\n")
	sk.WriteString("(* leaves of the types handed to html/template executions: (path, Go type, kind) *)\n")
	sk.WriteString("Definition sinks : list (string * string * tykind) := " + vfC36CoqList(sinks, "string * string * tykind") + ".\n\n")
	sk.WriteString("(* result types of the template functions (Funcmap) *)\n")
	sk.WriteString("Definition funcmap_results : list (string * string * tykind) := " + vfC36CoqList(funcs, "string * string * tykind") + ".\n\n")
	sk.WriteString("(* data slots inside href/src/action attributes: (page, pipeline after escaping, has a URL escaper, filtered-or-not-at-URL-start) *)\n")
	sk.WriteString("Definition url_slots : list (string * string * bool * bool) := " + vfC36CoqList(hrefs, "string * string * bool * bool") + ".\n")
	vfEmit(map[string]any{"kind": "gen", "file": "WebSinks.v", "text": sk.String()})
	// ---- routes, response sinks, net/http's sniff table
	rtext, rinfo, err := vfC36RGenText()
	if err != nil {
		t.Fatalf("routes translator: %v", err)
	}
	vfEmit(map[string]any{"kind": "gen", "file": "WebRoutes.v", "text": rtext})
	info["routes"] = rinfo
	// ---- template functions: the FuncMap entries with their signatures, the call sites in the templates
	ftext, finfo, err := vfC36FuncsGenText()
	if err != nil {
		t.Fatalf("funcs translator: %v", err)
	}
	vfEmit(map[string]any{"kind": "gen", "file": "WebFuncs.v", "text": ftext})
	info["funcs"] = finfo
	// ---- the bodies of the template functions in the Go subset of Model/WebFuncsAst.v
	btext, binfo, err := vfC36BodiesGenText()
	if err != nil {
		t.Fatalf("bodies translator: %v", err)
	}
	vfEmit(map[string]any{"kind": "gen", "file": "WebFuncBodies.v", "text": btext})
	info["func_bodies"] = binfo
	info["execs"] = len(execs)
	info["sinks"] = len(sinks)
	info["url_slots"] = len(hrefs)
	vfInfo(info)
}
