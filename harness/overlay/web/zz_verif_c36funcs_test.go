package web

// C36, template FUNCTIONS (web/server.go: Funcmap).
//  translator: coq/Generated/WebFuncs.v = every function registered in the FuncMap with its signature (go/ast + go/types)
//              and every call of a non-builtin function in the parse trees of web/templates.go with its literal arguments
//  F: every registered function is called through reflection (recover()) on generated arguments — strings of lengths
//     around the integer literals of the call sites, made of ASCII, UTF-8 continuation bytes, lead bytes without
//     continuation, multi-byte runes, legacy double-byte text, newlines — and compared with Model/WebFuncs.v:apply_func;
//     oracle: no panic for arguments that instantiate a call site of the templates
//  C2 (pads, used by part C of zz_verif_c36_test.go): long runs in front of / behind the needle on a line.

import (
	"fmt"
	"go/ast"
	"go/types"
	"reflect"
	"sort"
	"strconv"
	"strings"
	"text/template/parse"
)

// set by vfC36Types (zz_verif_c36gen_test.go) after type-checking package web
var (
	vfC36TInfo  *types.Info
	vfC36TFiles []*ast.File
)

// ---------------------------------------------------------------- call sites in the templates

type vfC36FArg struct {
	kind string // "const", "str", "bool", "data"
	z    int64
	s    string
	b    bool
}
type vfC36FSite struct {
	tmpl, fn string
	args     []vfC36FArg
}

var vfC36Builtins = map[string]bool{"and": true, "or": true, "not": true, "len": true, "index": true, "slice": true, "print": true, "printf": true,
	"println": true, "html": true, "js": true, "urlquery": true, "call": true, "eq": true, "ne": true, "lt": true, "le": true, "gt": true, "ge": true}

func vfC36FWalk(tmpl string, n parse.Node, out *[]vfC36FSite) {
	if n == nil || reflect.ValueOf(n).IsNil() {
		return
	}
	switch x := n.(type) {
	case *parse.ListNode:
		for _, c := range x.Nodes {
			vfC36FWalk(tmpl, c, out)
		}
	case *parse.ActionNode:
		vfC36FWalk(tmpl, x.Pipe, out)
	case *parse.IfNode:
		vfC36FWalk(tmpl, x.Pipe, out)
		vfC36FWalk(tmpl, x.List, out)
		vfC36FWalk(tmpl, x.ElseList, out)
	case *parse.RangeNode:
		vfC36FWalk(tmpl, x.Pipe, out)
		vfC36FWalk(tmpl, x.List, out)
		vfC36FWalk(tmpl, x.ElseList, out)
	case *parse.WithNode:
		vfC36FWalk(tmpl, x.Pipe, out)
		vfC36FWalk(tmpl, x.List, out)
		vfC36FWalk(tmpl, x.ElseList, out)
	case *parse.TemplateNode:
		vfC36FWalk(tmpl, x.Pipe, out)
	case *parse.PipeNode:
		for ci, c := range x.Cmds {
			for _, a := range c.Args {
				if p, ok := a.(*parse.PipeNode); ok {
					vfC36FWalk(tmpl, p, out)
				}
			}
			if len(c.Args) == 0 {
				continue
			}
			id, ok := c.Args[0].(*parse.IdentifierNode)
			if !ok || vfC36Builtins[id.Ident] || strings.HasPrefix(id.Ident, "_html_template_") {
				continue
			}
			s := vfC36FSite{tmpl: tmpl, fn: id.Ident}
			for _, a := range c.Args[1:] {
				switch v := a.(type) {
				case *parse.NumberNode:
					if v.IsInt {
						s.args = append(s.args, vfC36FArg{kind: "const", z: v.Int64})
					} else {
						s.args = append(s.args, vfC36FArg{kind: "str", s: "non-integer number " + v.Text}) // no model: kind mismatch
					}
				case *parse.StringNode:
					s.args = append(s.args, vfC36FArg{kind: "str", s: v.Text})
				case *parse.BoolNode:
					s.args = append(s.args, vfC36FArg{kind: "bool", b: v.True})
				default:
					s.args = append(s.args, vfC36FArg{kind: "data"})
				}
			}
			if ci > 0 { // the value of the previous command is the last argument
				s.args = append(s.args, vfC36FArg{kind: "data"})
			}
			*out = append(*out, s)
		}
	}
}

func (s vfC36FSite) key() string {
	var sb strings.Builder
	sb.WriteString(s.fn)
	for _, a := range s.args {
		fmt.Fprintf(&sb, "|%s:%d:%q:%v", a.kind, a.z, a.s, a.b)
	}
	return sb.String()
}

// vfC36FuncSites enumerates the calls of non-builtin functions in every template reachable from Top.
func vfC36FuncSites() []vfC36FSite {
	var out []vfC36FSite
	for _, t := range Top.Templates() {
		if t.Tree == nil || strings.Contains(t.Name(), "$htmltemplate_") {
			continue
		}
		vfC36FWalk(t.Name(), t.Tree.Root, &out)
	}
	sort.Slice(out, func(i, j int) bool {
		if out[i].tmpl != out[j].tmpl {
			return out[i].tmpl < out[j].tmpl
		}
		return out[i].key() < out[j].key()
	})
	var ded []vfC36FSite
	for i, s := range out {
		if i > 0 && out[i-1].tmpl == s.tmpl && out[i-1].key() == s.key() {
			continue
		}
		ded = append(ded, s)
	}
	return ded
}

// integer literals passed to template functions (the limits): the generators centre their lengths on them
func vfC36SiteConsts(sites []vfC36FSite) []int {
	seen := map[int]bool{}
	var out []int
	for _, s := range sites {
		for _, a := range s.args {
			if a.kind == "const" && a.z >= 0 && a.z <= 4096 && !seen[int(a.z)] {
				seen[int(a.z)] = true
				out = append(out, int(a.z))
			}
		}
	}
	sort.Ints(out)
	if len(out) == 0 {
		out = []int{100}
	}
	return out
}

// ---------------------------------------------------------------- translator: Generated/WebFuncs.v

func vfC36FTy(t types.Type) string {
	switch u := t.(type) {
	case *types.Basic:
		switch u.Kind() {
		case types.Int:
			return "TyInt"
		case types.Int64:
			return "TyInt64"
		case types.String:
			return "TyStr"
		case types.Bool:
			return "TyBool"
		}
	case *types.Slice:
		// a slice of structs {LineNum int; Content string}
		if st, ok := u.Elem().Underlying().(*types.Struct); ok && st.NumFields() == 2 {
			f0, f1 := st.Field(0), st.Field(1)
			if f0.Name() == "LineNum" && f1.Name() == "Content" && vfC36FTy(f0.Type()) == "TyInt" && vfC36FTy(f1.Type()) == "TyStr" {
				return "TyLines"
			}
		}
	}
	return "TyUnknown"
}

func vfC36FuncsGenText() (string, map[string]any, error) {
	if vfC36TInfo == nil {
		return "", nil, fmt.Errorf("package web was not type-checked")
	}
	info := vfC36TInfo
	var decls []string
	var names []string
	tyList := func(tup *types.Tuple) string {
		if tup.Len() == 0 {
			return "(@nil fty)"
		}
		var xs []string
		for i := 0; i < tup.Len(); i++ {
			xs = append(xs, vfC36FTy(tup.At(i).Type()))
		}
		return "[" + strings.Join(xs, "; ") + "]"
	}
	unknown := func(what string) {
		decls = append(decls, fmt.Sprintf("{| fd_name := %s; fd_params := [TyUnknown]; fd_results := [TyUnknown] |}", vfC36CoqString(what)))
	}
	funcmapLits := 0
	for _, f := range vfC36TFiles {
		ast.Inspect(f, func(n ast.Node) bool {
			switch x := n.(type) {
			case *ast.CompositeLit:
				// every composite literal of type html/template.FuncMap (or text/template.FuncMap) in package web
				tv, ok := info.Types[x]
				if !ok || tv.Type == nil {
					return true
				}
				ts := types.TypeString(tv.Type, nil)
				if ts != "html/template.FuncMap" && ts != "text/template.FuncMap" {
					return true
				}
				funcmapLits++
				for _, el := range x.Elts {
					kv, ok := el.(*ast.KeyValueExpr)
					if !ok {
						unknown("FuncMap element without key")
						continue
					}
					key := types.ExprString(kv.Key)
					if ktv, ok := info.Types[kv.Key]; ok && ktv.Value != nil {
						if s, err := strconv.Unquote(ktv.Value.ExactString()); err == nil {
							key = s
						}
					}
					sig, ok := info.Types[kv.Value].Type.(*types.Signature)
					if !ok || sig.Variadic() {
						unknown(key)
						continue
					}
					names = append(names, key)
					decls = append(decls, fmt.Sprintf("{| fd_name := %s; fd_params := %s; fd_results := %s |}", vfC36CoqString(key), tyList(sig.Params()), tyList(sig.Results())))
				}
			case *ast.AssignStmt:
				// Funcmap["x"] = f : a registration outside the literal
				for _, l := range x.Lhs {
					if ix, ok := l.(*ast.IndexExpr); ok {
						if tv, ok := info.Types[ix.X]; ok && tv.Type != nil && strings.HasSuffix(types.TypeString(tv.Type, nil), "template.FuncMap") {
							unknown("assignment " + types.ExprString(l))
						}
					}
				}
			}
			return true
		})
	}
	sites := vfC36FuncSites()
	var ss []string
	for _, s := range sites {
		var as []string
		for _, a := range s.args {
			switch a.kind {
			case "const":
				as = append(as, "AConst "+cZ(a.z))
			case "str":
				as = append(as, "AStrLit "+vfC36CoqString(a.s))
			case "bool":
				as = append(as, "ABoolLit "+cBool(a.b))
			default:
				as = append(as, "AData")
			}
		}
		al := "(@nil carg)"
		if len(as) > 0 {
			al = "[" + strings.Join(as, "; ") + "]"
		}
		ss = append(ss, fmt.Sprintf("{| fs_tmpl := %s; fs_func := %s; fs_args := %s |}", vfC36CoqString(s.tmpl), vfC36CoqString(s.fn), al))
	}
	var sb strings.Builder
	sb.WriteString("(* GENERATED by harness/overlay/web/zz_verif_c36funcs_test.go from /repo/web/*.go (go/ast + go/types) and the parse trees of\n")
	sb.WriteString("   /repo/web/templates.go — do not edit. *)\n")
	sb.WriteString("From Coq Require Import String.\nFrom ZV Require Import Lib.Base Model.Web Model.WebFuncs.\nLocal Open Scope string_scope.\n\n")
	sb.WriteString("(* every entry of a template.FuncMap literal of package web: name, parameter kinds, result kinds *)\n")
	sb.WriteString("Definition funcmap : list fdecl := " + vfC36CoqList(decls, "fdecl") + ".\n\n")
	sb.WriteString("(* every call of a non-builtin function in the templates: template, function, arguments (literals / data) *)\n")
	sb.WriteString("Definition func_calls : list fsite := " + vfC36CoqList(ss, "fsite") + ".\n")
	return sb.String(), map[string]any{"funcmap_literals": funcmapLits, "funcs": names, "call_sites": len(sites)}, nil
}

// ---------------------------------------------------------------- argument generators

// vfC36Run makes n bytes of one kind; phase shifts multi-byte sequences so that a cut lands inside a rune.
//  0 ASCII  1 continuation bytes 0x80..0xBF  2 lead bytes without continuation  3 two-byte runes  4 three-byte runes
//  5 four-byte runes  6 legacy double-byte text (lead 0x81..0xFE, trail 0x40..0xFE)  7 0xFF/0xFE  8 newlines mixed in
const vfC36NKinds = 9

func vfC36Run(kind, n, phase int) []byte {
	if n <= 0 {
		return nil
	}
	var unit []byte
	switch kind {
	case 0:
		unit = []byte("abcdefghij klmnop")
	case 1:
		unit = []byte{0x80, 0xbf, 0x9c, 0xa0, 0x81, 0xb7}
	case 2:
		unit = []byte{0xc3, 0xe2, 0xf0, 0xc2, 0xf4, 0xdf}
	case 3:
		unit = []byte("\xc3\xa9\xc3\xbc\xce\xb1")
	case 4:
		unit = []byte("\xe2\x82\xac\xe4\xb8\xad\xe2\x80\xa8")
	case 5:
		unit = []byte("\xf0\x9f\x98\x80\xf0\x90\x8d\x88")
	case 6:
		unit = []byte{0x82, 0xa0, 0x93, 0xfa, 0x96, 0x7b, 0x8c, 0xea, 0x81, 0x40}
	case 7:
		unit = []byte{0xff, 0xfe, 0xff}
	default:
		unit = []byte("ab\ncd\xc3\xa9\n\n\x80x")
	}
	out := make([]byte, n)
	for i := range out {
		out[i] = unit[(i+phase)%len(unit)]
	}
	return out
}

// vfC36GenLen picks a length around one of the centres (the limits of the call sites and integer arguments of this call)
func vfC36GenLen(r *vfRand, centres []int) int {
	if len(centres) == 0 || r.Chance(15) {
		return r.Intn(12)
	}
	c := centres[r.Intn(len(centres))]
	switch r.Intn(8) {
	case 0:
		return c - 1
	case 1:
		return c
	case 2:
		return c + 1
	case 3:
		return c + 2 + r.Intn(60)
	case 4:
		return 2*c + r.Intn(5)
	case 5:
		return r.Intn(c + 1)
	case 6:
		return c + r.Intn(4)
	default:
		return 0
	}
}

// a string argument: up to three runs (each of one kind) whose lengths lie around the centres
func vfC36GenFuncStr(r *vfRand, centres []int) ([]byte, string) {
	nruns := 1 + r.Intn(3)
	if r.Chance(40) {
		nruns = 1
	}
	var out []byte
	var cls []string
	for i := 0; i < nruns; i++ {
		k := r.Intn(vfC36NKinds)
		n := vfC36GenLen(r, centres)
		if n < 0 {
			n = 0
		}
		if i > 0 && r.Chance(50) {
			n = r.Intn(8)
		}
		out = append(out, vfC36Run(k, n, r.Intn(6))...)
		cls = append(cls, strconv.Itoa(k))
	}
	if r.Chance(20) {
		out = append(out, '\n')
	}
	return out, strings.Join(cls, "+")
}

func vfC36GenFuncInt(r *vfRand, bits int) int64 {
	switch r.Intn(10) {
	case 0:
		return int64(r.Intn(7)) - 3
	case 1:
		return int64(r.Intn(400))
	case 2:
		base := []int64{10 << 10, 10 << 20, 10 << 30, 1 << 10, 1 << 20, 1 << 30, 1 << 40}[r.Intn(7)]
		return base + int64(r.Intn(5)) - 2
	case 3:
		return []int64{1<<63 - 1, -1 << 63, 1<<63 - 2, -1<<63 + 1, (1<<63 - 1) / 3, (1<<63-1)/3 + 1, 1 << 62}[r.Intn(7)]
	case 4:
		return int64(r.U64() >> 1)
	case 5:
		return -int64(r.U64() >> 1)
	case 6:
		return int64(r.U64() >> uint(20+r.Intn(40)))
	default:
		return int64(r.Intn(100000))
	}
}

// ---------------------------------------------------------------- F. direct calls

func vfC36FvalCoq(v reflect.Value) (string, bool) {
	switch v.Kind() {
	case reflect.Int, reflect.Int64:
		return "(VInt " + cZ(v.Int()) + ")", true
	case reflect.String:
		return "(VStr " + vfC36Bytes([]byte(v.String())) + ")", true
	case reflect.Bool:
		return "(VBool " + cBool(v.Bool()) + ")", true
	case reflect.Slice:
		if v.Type().Elem().Kind() != reflect.Struct {
			return "", false
		}
		if v.Len() == 0 {
			return "(VLines [])", true
		}
		var xs []string
		for i := 0; i < v.Len(); i++ {
			e := v.Index(i)
			ln, ct := e.FieldByName("LineNum"), e.FieldByName("Content")
			if !ln.IsValid() || !ct.IsValid() || ln.Kind() != reflect.Int || ct.Kind() != reflect.String {
				return "", false
			}
			xs = append(xs, cTuple(cZ(ln.Int()), vfC36Bytes([]byte(ct.String()))))
		}
		return "(VLines " + cList(xs) + ")", true
	}
	return "", false
}

func vfC36PartF(r *vfRand, n int) {
	sites := vfC36FuncSites()
	consts := vfC36SiteConsts(sites)
	// the registry at run time must be what the translator read from the source
	var names []string
	for k := range Funcmap {
		names = append(names, k)
	}
	sort.Strings(names)
	called := map[string]bool{}
	for _, s := range sites {
		called[s.fn] = true
		if _, ok := Funcmap[s.fn]; !ok {
			vfOracleFail("func-not-registered:"+s.fn, "a template calls a function that is not in web.Funcmap", map[string]any{"template": s.tmpl, "function": s.fn})
		}
	}
	vfInfo(map[string]any{"c36_funcmap": names, "c36_func_call_sites": len(sites), "c36_site_int_literals": consts})
	if len(names) == 0 {
		return
	}
	panics := 0
	for i := 0; i < n; i++ {
		name := names[i%len(names)]
		fn := reflect.ValueOf(Funcmap[name])
		if fn.Kind() != reflect.Func || fn.Type().IsVariadic() {
			vfOracleFail("func-without-model:"+name, "registered template function of an unsupported shape: "+fn.Type().String(), map[string]any{"function": name})
			continue
		}
		// the call sites of this function: literal arguments are taken from them (mostly)
		var mine []vfC36FSite
		for _, s := range sites {
			if s.fn == name && len(s.args) == fn.Type().NumIn() {
				mine = append(mine, s)
			}
		}
		var site *vfC36FSite
		if len(mine) > 0 {
			site = &mine[r.Intn(len(mine))]
		}
		atSite := site != nil
		args := make([]reflect.Value, fn.Type().NumIn())
		var coqArgs, cls []string
		centres := append([]int{}, consts...)
		supported := true
		replayArgs := []any{}
		for j := 0; j < fn.Type().NumIn(); j++ {
			pt := fn.Type().In(j)
			var lit *vfC36FArg
			if site != nil && site.args[j].kind != "data" {
				lit = &site.args[j]
			}
			switch pt.Kind() {
			case reflect.Int, reflect.Int64:
				var v int64
				if lit != nil && lit.kind == "const" && r.Chance(75) {
					v = lit.z
				} else {
					v = vfC36GenFuncInt(r, 64)
					if lit != nil && (lit.kind != "const" || v != lit.z) {
						atSite = false
					}
				}
				if v >= 0 && v <= 400 {
					centres = append(centres, int(v), int(v))
				}
				args[j] = reflect.New(pt).Elem()
				args[j].SetInt(v)
				replayArgs = append(replayArgs, v)
			case reflect.String:
				var b []byte
				var c string
				if lit != nil && lit.kind == "str" && r.Chance(75) {
					b, c = []byte(lit.s), "lit"
				} else {
					b, c = vfC36GenFuncStr(r, centres)
					if lit != nil {
						atSite = false
					}
				}
				cls = append(cls, "F:str="+c)
				args[j] = reflect.ValueOf(string(b)).Convert(pt)
				replayArgs = append(replayArgs, fmt.Sprintf("%q", b))
			case reflect.Bool:
				v := r.Bool()
				if lit != nil && lit.kind == "bool" {
					v = lit.b
				}
				args[j] = reflect.ValueOf(v).Convert(pt)
				replayArgs = append(replayArgs, v)
			default:
				supported = false
			}
			if !supported {
				break
			}
			c, _ := vfC36FvalCoq(args[j])
			coqArgs = append(coqArgs, c)
		}
		if !supported {
			vfOracleFail("func-without-model:"+name, "registered template function with a parameter kind the harness cannot generate: "+fn.Type().String(), map[string]any{"function": name})
			continue
		}
		var outs []reflect.Value
		panicked := ""
		func() {
			defer func() {
				if p := recover(); p != nil {
					panicked = fmt.Sprint(p)
				}
			}()
			outs = fn.Call(args)
		}()
		replay := map[string]any{"function": name, "args": replayArgs, "panic": panicked, "instantiates_call_site": atSite}
		if site != nil {
			replay["template"] = site.tmpl
		}
		obs := "None"
		if panicked != "" {
			panics++
			if atSite || !called[name] {
				vfOracleFail("func-panic:"+name, fmt.Sprintf("template function %s panics (html/template turns this into an execution error: the page is not rendered): %s", name, panicked), replay)
			}
		} else {
			if len(outs) != 1 {
				vfOracleFail("func-without-model:"+name, "registered template function with "+strconv.Itoa(len(outs))+" results", replay)
				continue
			}
			c, ok := vfC36FvalCoq(outs[0])
			if !ok {
				vfOracleFail("func-without-model:"+name, "registered template function with a result kind the harness cannot observe: "+fn.Type().String(), replay)
				continue
			}
			obs = cSome(c)
		}
		coqL := "[]"
		if len(coqArgs) > 0 {
			coqL = cList(coqArgs)
		}
		cls = append(cls, "F:func="+name, fmt.Sprintf("F:panic=%v", panicked != ""), fmt.Sprintf("F:at-site=%v", atSite))
		vfCase(cApp("CFunc", vfC36CoqString(name)+"%string", coqL, obs), vfKey("F", name, replayArgs), true, cls, replay)
	}
	vfInfo(map[string]any{"c36_func_calls": n, "c36_func_panics_outside_call_sites_or_inside": panics})
}

// ---------------------------------------------------------------- C2. pads: long runs next to the needle

type vfC36Pad struct {
	preKind, preLen, prePhase    int
	postKind, postLen, postPhase int
	twice                        bool // the needle occurs twice on the line (two fragments)
}

func vfC36GenPad(r *vfRand, consts []int) vfC36Pad {
	p := vfC36Pad{preKind: 1 + r.Intn(vfC36NKinds-2), postKind: 1 + r.Intn(vfC36NKinds-2), prePhase: r.Intn(6), postPhase: r.Intn(6), twice: r.Chance(25)}
	p.preLen = vfC36GenLen(r, consts)
	p.postLen = vfC36GenLen(r, consts)
	if p.preLen < 0 {
		p.preLen = 0
	}
	if p.postLen < 0 {
		p.postLen = 0
	}
	if r.Chance(50) { // one long side is enough for most lines
		if r.Bool() {
			p.postLen = r.Intn(6)
		} else {
			p.preLen = r.Intn(6)
		}
	}
	return p
}

// the line of a pad: pre ++ needle ++ post (hostile: the pad's kinds; benign: ASCII of the same lengths)
func vfC36PadLine(p vfC36Pad, needle string, hostile bool) []byte {
	pk, qk := 0, 0
	if hostile {
		pk, qk = p.preKind, p.postKind
	}
	var out []byte
	out = append(out, vfC36Run(pk, p.preLen, p.prePhase)...)
	out = append(out, needle...)
	if p.twice {
		out = append(out, vfC36Run(qk, 3, p.postPhase)...)
		out = append(out, needle...)
	}
	out = append(out, vfC36Run(qk, p.postLen, p.postPhase)...)
	return out
}
