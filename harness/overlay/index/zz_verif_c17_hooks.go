package index

// C17 fault-injection points. The check maps an instrumented copy of tombstones.go (os.Rename ->
// vfC17Rename, os.CreateTemp -> vfC17CreateTemp, produced on the fly from the working tree) and this
// file into the package with `go test -overlay`; nothing is written into /repo.

import (
	"errors"
	"os"
)

var (
	vfC17FailRename      bool
	vfC17FailCreateTemp  bool
	vfC17RenameCalls     int
	vfC17CreateTempCalls int
)

func vfC17Rename(oldpath, newpath string) error {
	vfC17RenameCalls++
	if vfC17FailRename {
		return &os.LinkError{Op: "rename", Old: oldpath, New: newpath, Err: errors.New("verif: injected rename failure")}
	}
	return os.Rename(oldpath, newpath)
}

func vfC17CreateTemp(dir, pattern string) (*os.File, error) {
	vfC17CreateTempCalls++
	if vfC17FailCreateTemp {
		return nil, &os.PathError{Op: "open", Path: dir, Err: errors.New("verif: injected create failure")}
	}
	return os.CreateTemp(dir, pattern)
}
