package index

// C05 end-to-end oracle: the documents the REAL engine selects (indexData.Search on a compound shard
// built from the generated world: simplify -> ExpandFileContent -> match tree) are compared with the
// documents the reference evaluator selects for the ORIGINAL query.  This anchors the reference
// semantics (the "meaning" in the C05 theorems) in the real evaluator and catches rewrites whose
// output the engine interprets differently from the reference evaluator.  Uses the generator and the
// evaluator of zz_verif_c05_test.go.  Symbol atoms are left out (symbol sections are not built).

import (
	"bytes"
	"context"
	"fmt"
	"sort"
	"strings"
	"testing"

	"github.com/sourcegraph/zoekt"
	"github.com/sourcegraph/zoekt/query"
)

type vfC05Mem struct{ data []byte }

func (s *vfC05Mem) Name() string { return "verif-c05" }
func (s *vfC05Mem) Close()       {}
func (s *vfC05Mem) Read(off, sz uint32) ([]byte, error) {
	return s.data[off : off+sz], nil
}
func (s *vfC05Mem) Size() (uint32, error) { return uint32(len(s.data)), nil }

// world with globally unique file names, languages as the builder will record them, at least one repo
func vfC05GenE2EWorld(r *vfRand) *vfC05World {
	names := []string{"a.go", "foo.c", "Foo.go", "bar/x.py", "README", "o", "main.go", "x/foo.py", "bar.c", "zz.txt"}
	for {
		w := vfC05GenWorld(r)
		if len(w.Repos) == 0 {
			continue
		}
		perm := make([]int, len(names))
		for i := range perm {
			perm[i] = i
		}
		for i := len(perm) - 1; i > 0; i-- {
			j := r.Intn(i + 1)
			perm[i], perm[j] = perm[j], perm[i]
		}
		w.Langs = map[string]uint16{}
		for i := range w.Docs {
			d := &w.Docs[i]
			d.Name = names[perm[i]]
			doc := Document{Name: d.Name, Content: []byte(d.Content), Language: d.Lang}
			DetermineLanguageIfUnknown(&doc)
			d.Lang = doc.Language
			w.Langs[d.Lang] = 1
		}
		for i := range w.Repos {
			w.Repos[i].Branches = nil
			for _, b := range vfC05Branches {
				w.Repos[i].Branches = append(w.Repos[i].Branches, zoekt.RepositoryBranch{Name: b, Version: "v-" + b})
			}
		}
		return w
	}
}

func vfC05BuildShard(w *vfC05World) (*indexData, error) {
	b := newShardBuilder(0)
	b.indexFormatVersion = NextIndexFormatVersion
	for ri := range w.Repos {
		repo := w.Repos[ri] // copy
		repo.Tombstone = false
		if err := b.setRepository(&repo); err != nil {
			return nil, err
		}
		for _, d := range w.Docs {
			if d.Repo != ri {
				continue
			}
			if err := b.Add(Document{Name: d.Name, Content: []byte(d.Content), Branches: d.Branches, Language: d.Lang}); err != nil {
				return nil, err
			}
		}
	}
	var buf bytes.Buffer
	if err := b.Write(&buf); err != nil {
		return nil, err
	}
	s, err := NewSearcher(&vfC05Mem{buf.Bytes()})
	if err != nil {
		return nil, err
	}
	id, ok := s.(*indexData)
	if !ok {
		return nil, fmt.Errorf("NewSearcher returned %T", s)
	}
	for ri := range w.Repos {
		id.repoMetaData[ri].Tombstone = w.Repos[ri].Tombstone
	}
	return id, nil
}

func vfC05HasSymbol(q query.Q) bool {
	has := false
	vfC05Walk(q, func(a query.Q) {
		if _, ok := a.(*query.Symbol); ok {
			has = true
		}
	})
	return has
}

func vfC05EngineSelect(id *indexData, q query.Q) (string, error) {
	res, err := id.Search(context.Background(), q, &zoekt.SearchOptions{})
	if err != nil {
		return "", err
	}
	var names []string
	for _, f := range res.Files {
		names = append(names, f.FileName)
	}
	sort.Strings(names)
	return strings.Join(names, ","), nil
}

func vfC05RefSelect(w *vfC05World, q query.Q) string {
	var names []string
	for i := range w.Docs {
		d := &w.Docs[i]
		if w.live(d) && vfC05Eval(w, q, d) {
			names = append(names, d.Name)
		}
	}
	sort.Strings(names)
	return strings.Join(names, ",")
}

func TestVerifC05E2E(t *testing.T) {
	r := vfNewRand(vfNewRand(vfSeed() + 4242).U64()) // hashed: see zz_verif_c05_test.go
	n := vfN(60)
	var w *vfC05World
	var id *indexData
	checked, skipped, nonempty, nonfinite := 0, 0, 0, 0
	for i := 0; i < n; i++ {
		if w == nil || i%2 == 0 {
			w = vfC05GenE2EWorld(r)
			var err error
			id, err = vfC05BuildShard(w)
			if err != nil {
				t.Fatalf("building the shard of the generated world: %v", err)
			}
		}
		q := vfC05GenTree(r, 1+r.Intn(3))
		if vfC05HasSymbol(q) {
			skipped++
			continue
		}
		want := vfC05RefSelect(w, q)
		got, err := vfC05EngineSelect(id, q)
		if err != nil {
			vfOracleFail("e2e:search-error", "indexData.Search fails on a generated query: "+err.Error(),
				map[string]any{"query": q.String(), "query_coq": vfC05Coq(q), "world": vfC05WorldJSON(w), "seed": vfSeed(), "n": n, "iteration": i})
			continue
		}
		checked++
		if want != "" {
			nonempty++
		}
		if bc := vfC05BoostClass(q); bc == "boost=nan" || bc == "boost=inf" {
			nonfinite++
		}
		if got == want {
			continue
		}
		small := q
		for progress := true; progress; {
			progress = false
			for _, c := range vfC05Shrinks(small) {
				g, err := vfC05EngineSelect(id, c)
				if err == nil && g != vfC05RefSelect(w, c) {
					small, progress = c, true
					break
				}
			}
		}
		g, _ := vfC05EngineSelect(id, small)
		vfOracleFail("e2e:"+vfC05Shape(small),
			"the engine (simplify + ExpandFileContent + match tree) and the reference evaluator select different documents for "+small.String(),
			map[string]any{"query": small.String(), "query_coq": vfC05Coq(small), "engine_selects": g, "reference_selects": vfC05RefSelect(w, small),
				"simplified": id.simplify(small).String(), "world": vfC05WorldJSON(w), "original_query": q.String(), "seed": vfSeed(), "n": n, "iteration": i})
	}
	vfInfo(map[string]any{"e2e_queries_checked": checked, "e2e_skipped_symbol": skipped, "e2e_reference_selects_some_document": nonempty,
		"e2e_queries_with_nan_or_inf_boost": nonfinite})
}
