package index

// C21 correspondence + oracle: limits and cancellation only remove whole files. Uses the corpus / query generators, the
// read-back and the serialiser of zz_verif_c01_test.go. For every (corpus, query): one unlimited run, then runs with
// ShardMaxMatchCount / ShardRepoMaxMatchCount settings and with a context whose Done() reports cancellation after k polls.

import (
	"context"
	"fmt"
	"reflect"
	"strings"
	"testing"

	"github.com/grafana/regexp"

	"github.com/sourcegraph/zoekt"
	"github.com/sourcegraph/zoekt/query"
)

var vfClosedCh = func() chan struct{} { c := make(chan struct{}); close(c); return c }()
var vfOpenCh = make(chan struct{})

// vfPollCtx reports "done" from the (after+1)-th call of Done() on.
type vfPollCtx struct {
	context.Context
	calls, after int
}

func (c *vfPollCtx) Done() <-chan struct{} {
	c.calls++
	if c.calls > c.after {
		return vfClosedCh
	}
	return vfOpenCh
}
func (c *vfPollCtx) Err() error {
	if c.calls > c.after {
		return context.Canceled
	}
	return nil
}

func vfC21Weight(f *zoekt.FileMatch) int {
	n := len(f.LineMatches)
	for _, cm := range f.ChunkMatches {
		n += len(cm.Ranges)
	}
	return n
}

var vfC21SymCancelOracleOnly int

func TestVerifC21(t *testing.T) {
	r := vfNewRand(vfSeed() + 7919)
	n := vfN(300)
	emitted := 0
	for emitted < n {
		c := vfC01GenCorpus(r)
		d := vfC01Build(t, c)
		docs := vfC01ReadBack(t, d)
		for j := 0; j < 2 && emitted < n; j++ {
			e := &vfC01Env{d: d, docs: docs, rsrc: map[*query.Regexp]string{}, rsrc2: map[*regexp.Regexp]string{}}
			var q query.Q
			if r.Chance(40) { // broad queries so that limits bite
				q = &query.Substring{Pattern: r.Pick([]string{"a", "o", "ab", "aa", ".", "b"}), CaseSensitive: r.Chance(50)}
				if r.Chance(30) {
					q = &query.Or{Children: []query.Q{q, e.gen(r, 1)}}
				}
			} else {
				q = e.gen(r, 1+r.Intn(3))
			}
			ser := &vfC01Ser{e: e, runes: map[rune]bool{}}
			qc := ser.q(q)
			if ser.diverges {
				continue
			}
			chunk := r.Chance(40)
			base := zoekt.SearchOptions{ChunkMatches: chunk, NumContextLines: r.Intn(2)}
			unl, err := d.Search(context.Background(), q, &base)
			if err != nil {
				t.Fatalf("Search(%s): %v", q, err)
			}
			// document ids of the unlimited result (C01's oracle); skip the case if C01 itself fails here
			var ids []int
			for k := range docs {
				if e.live(k) && e.eval(q, k) {
					ids = append(ids, k)
				}
			}
			if len(ids) != len(unl.Files) {
				continue
			}
			wtbl := make([]int, len(docs))
			okIDs := true
			for i, k := range ids {
				if unl.Files[i].FileName != docs[k].name {
					okIDs = false
				}
				wtbl[k] = vfC21Weight(&unl.Files[i])
			}
			if !okIDs {
				continue
			}
			repos, dcs, langs := vfC01CorpusCoq(ser)
			folds := ser.folds()
			retbl := cListOr(ser.retbl, "N * list (bool * bool)")
			for v := 0; v < 3 && emitted < n; v++ {
				opts := base
				cancelAfter := -1
				switch r.Intn(6) {
				case 0:
					opts.ShardMaxMatchCount = 1 + r.Intn(3)
				case 1:
					opts.ShardRepoMaxMatchCount = 1 + r.Intn(3)
				case 2:
					cancelAfter = r.Intn(6)
				case 3:
					opts.ShardMaxMatchCount = 1 + r.Intn(6)
					opts.ShardRepoMaxMatchCount = 1 + r.Intn(3)
				case 4:
					opts.ShardRepoMaxMatchCount = 1 // what indexData.List uses
				default:
					opts.ShardMaxMatchCount = int(r.Pick([]string{"\x01", "\x04", "\x64"})[0])
					if r.Chance(50) {
						cancelAfter = 1 + r.Intn(5)
					}
				}
				var ctx context.Context = context.Background()
				if cancelAfter >= 0 {
					ctx = &vfPollCtx{Context: context.Background(), after: cancelAfter}
				}
				var lim *zoekt.SearchResult
				var serr error
				panicked := any(nil)
				func() {
					defer func() { panicked = recover() }()
					o := opts
					lim, serr = d.Search(ctx, q, &o)
				}()
				setting := fmt.Sprintf("shardmax=%d repomax=%d cancelAfter=%d chunk=%v", opts.ShardMaxMatchCount, opts.ShardRepoMaxMatchCount, cancelAfter, chunk)
				replay := func(extra map[string]any) map[string]any {
					var dd []map[string]any
					for _, x := range docs {
						dd = append(dd, map[string]any{"name": x.name, "content": x.content, "mask": x.mask, "repo": x.repo})
					}
					m := map[string]any{"query": q.String(), "setting": setting, "docs": dd}
					for k, v := range extra {
						m[k] = v
					}
					return m
				}
				if panicked != nil {
					vfOracleFail("limit:panic", "Search panicked under a limit / cancellation", replay(map[string]any{"panic": fmt.Sprint(panicked)}))
					continue
				}
				if serr != nil {
					// the context's error is an accepted outcome of a cancelled search
					if cancelAfter < 0 {
						vfOracleFail("limit:error", "Search failed under a limit", replay(map[string]any{"err": serr.Error()}))
					}
					continue
				}
				// ---- oracle: the limited files are a subsequence of the unlimited ones, with identical FileMatch values
				pos := 0
				var plain []string
				bad := ""
				for _, f := range lim.Files {
					plain = append(plain, f.Repository+":"+f.FileName)
					found := false
					for pos < len(unl.Files) {
						u := &unl.Files[pos]
						pos++
						if u.Repository == f.Repository && u.FileName == f.FileName {
							found = true
							if !reflect.DeepEqual(*u, f) {
								bad = "limit:file-differs"
							}
							break
						}
					}
					if !found && bad == "" {
						bad = "limit:file-not-in-unlimited-result"
					}
				}
				if bad == "" && opts.ShardRepoMaxMatchCount == 0 {
					for i := range lim.Files { // without the per-repository limit: a prefix
						if lim.Files[i].FileName != unl.Files[i].FileName || lim.Files[i].Repository != unl.Files[i].Repository {
							bad = "limit:not-a-prefix"
						}
					}
				}
				if bad == "" && opts.ShardRepoMaxMatchCount == 1 && opts.ShardMaxMatchCount == 0 && cancelAfter < 0 {
					have := map[string]bool{}
					for _, f := range lim.Files {
						have[f.Repository] = true
					}
					for _, f := range unl.Files {
						if !have[f.Repository] {
							bad = "limit:repo-lost-under-repomax-1"
						}
					}
				}
				var uplain []string
				for _, f := range unl.Files {
					uplain = append(uplain, f.Repository+":"+f.FileName)
				}
				if bad != "" {
					vfOracleFail(bad, "a limit or cancellation changed more than the set of whole files", replay(map[string]any{"limited": plain, "unlimited": uplain}))
				}
				// ---- correspondence record
				// Cancellation is compared by ITERATION index; C01's model represents the docIterator a symbol node
				// borrows from its wrapped tree by "every document" (sound for the result, C01_docit_lower_bound), so the
				// number of iterations before a given document is not the implementation's for queries with symbol
				// atoms: such cancellation cases are judged by the oracle above only (counted in the info record).
				if cancelAfter >= 0 && strings.Contains(q.String(), "sym:") {
					vfC21SymCancelOracleOnly++
					continue
				}
				rows, _ := vfC01Rows(d, docs, lim.Files)
				smax := opts.ShardMaxMatchCount
				if smax == 0 {
					smax = 100000
				}
				cancelAt := "None"
				if cancelAfter >= 0 {
					k := cancelAfter
					if k < 1 {
						k = 1
					}
					cancelAt = cSome(cNat(k - 1)) // poll 1 is the check before the loop, poll i+2 is iteration i
				}
				coq := cTuple(repos, dcs, langs, folds, retbl, cListOr(ser.symtbl, "N * list (list bool)"), qc, cNatList(wtbl), cNat(smax), cNat(opts.ShardRepoMaxMatchCount), cancelAt,
					cListOr(rows, "nat * list N"))
				cls := []string{fmt.Sprintf("unlimited=%d", min(len(unl.Files), 4)), fmt.Sprintf("kept=%d", min(len(lim.Files), 4))}
				if opts.ShardMaxMatchCount > 0 {
					cls = append(cls, "shardmax")
				}
				if opts.ShardRepoMaxMatchCount > 0 {
					cls = append(cls, "repomax")
				}
				if cancelAfter >= 0 {
					cls = append(cls, "cancel")
				}
				if chunk {
					cls = append(cls, "chunkmatches")
				}
				vfCase(coq, vfKey(repos, dcs, qc, setting), len(lim.Files) < len(unl.Files),
					cls, map[string]any{"query": q.String(), "setting": setting, "limited": plain, "unlimited": strings.Join(uplain, " ")})
				emitted++
			}
		}
	}
	vfInfo(map[string]any{"cancel_cases_with_symbol_atoms_judged_by_the_oracle_only": vfC21SymCancelOracleOnly})
}
