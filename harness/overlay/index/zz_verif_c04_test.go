package index

// C04 correspondence + oracle: histories of (Meta-heavy) searches on ONE loaded compound shard with the
// docMatchTree cache disabled / enabled at several sizes (ZOEKT_DOCMATCHTREE_CACHE); every result is compared
// with the same query on a freshly loaded searcher (oracle) and with the Gallina model (correspondence).
// TestVerifC04Race repeats that with concurrent goroutines (run under -race in the thorough tier).

import (
	"bytes"
	"context"
	"fmt"
	"os"
	"path/filepath"
	"strings"
	"sync"
	"testing"

	"github.com/grafana/regexp"

	"github.com/sourcegraph/zoekt"
	"github.com/sourcegraph/zoekt/query"
)

type vfC04Repo struct {
	name string
	meta map[string]string
	docs []vfC04Doc
}
type vfC04Doc struct {
	name, content string
	idx           int
}
type vfC04World struct {
	repos []*vfC04Repo // shard order
	blob  []byte
	ndocs int
	byDoc map[string]int
}

type vfC04Mem struct{ b []byte }

func (s *vfC04Mem) Name() string { return "vfc04" }
func (s *vfC04Mem) Close()       {}
func (s *vfC04Mem) Read(off, sz uint32) ([]byte, error) {
	if uint64(off)+uint64(sz) > uint64(len(s.b)) {
		return nil, fmt.Errorf("read past end")
	}
	return s.b[off : off+sz], nil
}
func (s *vfC04Mem) Size() (uint32, error) { return uint32(len(s.b)), nil }

var vfC04Words = []string{"needle", "apple", "banana"}

func vfC04Simple(t testing.TB, rp *vfC04Repo) []byte {
	b, err := NewShardBuilder(&zoekt.Repository{Name: rp.name, Metadata: rp.meta})
	if err != nil {
		t.Fatal(err)
	}
	for _, dc := range rp.docs {
		if err := b.Add(Document{Name: dc.name, Content: []byte(dc.content)}); err != nil {
			t.Fatal(err)
		}
	}
	var buf bytes.Buffer
	if err := b.Write(&buf); err != nil {
		t.Fatal(err)
	}
	return buf.Bytes()
}

func vfC04NewWorld(t testing.TB, r *vfRand, tag string) *vfC04World {
	n := 1 + r.Intn(4)
	var gen []*vfC04Repo
	for i := 0; i < n; i++ {
		rp := &vfC04Repo{name: fmt.Sprintf("repo%d", i), meta: map[string]string{"k": r.Pick([]string{"yes", "yes", "no"}), "lang": r.Pick([]string{"go", "py"})}}
		if r.Chance(10) {
			delete(rp.meta, "k")
		}
		for j, nd := 0, 1+r.Intn(3); j < nd; j++ {
			var ws []string
			for k, nw := 0, 1+r.Intn(3); k < nw; k++ {
				ws = append(ws, r.Pick(vfC04Words))
			}
			rp.docs = append(rp.docs, vfC04Doc{name: fmt.Sprintf("%s/f%d.txt", rp.name, j), content: strings.Join(ws, " ") + "\n"})
		}
		gen = append(gen, rp)
	}
	w := &vfC04World{byDoc: map[string]int{}}
	if n == 1 {
		w.blob = vfC04Simple(t, gen[0])
	} else {
		dir, err := os.MkdirTemp(os.Getenv("VERIF_TMP"), "c04-"+tag+"-")
		if err != nil {
			t.Fatal(err)
		}
		defer os.RemoveAll(dir)
		var files []IndexFile
		for i, rp := range gen {
			fn := filepath.Join(dir, fmt.Sprintf("s%d.zoekt", i))
			if err := os.WriteFile(fn, vfC04Simple(t, rp), 0o600); err != nil {
				t.Fatal(err)
			}
			f, err := os.Open(fn)
			if err != nil {
				t.Fatal(err)
			}
			inf, err := NewIndexFile(f)
			if err != nil {
				t.Fatal(err)
			}
			defer inf.Close()
			files = append(files, inf)
		}
		tmpName, _, err := Merge(dir, files...)
		if err != nil {
			t.Fatal(err)
		}
		if w.blob, err = os.ReadFile(tmpName); err != nil {
			t.Fatal(err)
		}
	}
	// shard order of the repositories as the shard itself reports it
	s, err := NewSearcher(&vfC04Mem{w.blob})
	if err != nil {
		t.Fatal(err)
	}
	rl, err := s.List(context.Background(), &query.Const{Value: true}, nil)
	if err != nil {
		t.Fatal(err)
	}
	byName := map[string]*vfC04Repo{}
	for _, rp := range gen {
		byName[rp.name] = rp
	}
	for _, e := range rl.Repos {
		rp := byName[e.Repository.Name]
		for k := range rp.docs {
			rp.docs[k].idx = w.ndocs
			w.byDoc[rp.docs[k].name] = w.ndocs
			w.ndocs++
		}
		w.repos = append(w.repos, rp)
	}
	if len(w.repos) != len(gen) {
		t.Fatalf("shard lists %d repos, want %d", len(w.repos), len(gen))
	}
	return w
}

func (w *vfC04World) load(t testing.TB) zoekt.Searcher {
	s, err := NewSearcher(&vfC04Mem{w.blob})
	if err != nil {
		t.Fatal(err)
	}
	return s
}

var vfC04MetaKeys = []struct{ field, value string }{{"k", "yes"}, {"k", "no"}, {"k", "maybe"}, {"lang", "go"}, {"lang", "py"}}

type vfC04Q struct {
	q    query.Q
	desc string
	coq  string
	meta int
}

func (w *vfC04World) docsTerm(f func(rp *vfC04Repo, dc *vfC04Doc) bool) string {
	var l []int
	for _, rp := range w.repos {
		for k := range rp.docs {
			if f(rp, &rp.docs[k]) {
				l = append(l, rp.docs[k].idx)
			}
		}
	}
	return "(CDocs " + cNatList(l) + ")"
}

func vfC04Atom(r *vfRand, w *vfC04World) vfC04Q {
	switch x := r.Intn(10); {
	case x < 6:
		i := r.Intn(len(vfC04MetaKeys))
		mk := vfC04MetaKeys[i]
		return vfC04Q{&query.Meta{Field: mk.field, Value: regexp.MustCompile("^" + mk.value + "$")}, "meta." + mk.field + ":" + mk.value, "(CMeta " + cN(uint64(i+1)) + ")", 1}
	case x < 8:
		wd := r.Pick(vfC04Words)
		return vfC04Q{&query.Substring{Pattern: wd, Content: true}, "content:" + wd, w.docsTerm(func(_ *vfC04Repo, dc *vfC04Doc) bool { return strings.Contains(dc.content, wd) }), 0}
	case x < 9:
		set := map[string]bool{}
		for _, rp := range w.repos {
			if r.Chance(50) {
				set[rp.name] = true
			}
		}
		return vfC04Q{&query.RepoSet{Set: set}, fmt.Sprint("reposet:", vfSortedKeys(set)), w.docsTerm(func(rp *vfC04Repo, _ *vfC04Doc) bool { return set[rp.name] }), 0}
	default:
		v := r.Chance(70)
		return vfC04Q{&query.Const{Value: v}, fmt.Sprint("const:", v), "(CConst " + cBool(v) + ")", 0}
	}
}

func vfC04Query(r *vfRand, w *vfC04World, depth int) vfC04Q {
	if depth == 0 || r.Chance(50) {
		return vfC04Atom(r, w)
	}
	a := vfC04Query(r, w, depth-1)
	switch r.Intn(5) {
	case 0, 1:
		b := vfC04Query(r, w, depth-1)
		return vfC04Q{&query.And{Children: []query.Q{a.q, b.q}}, "(and " + a.desc + " " + b.desc + ")", "(CAnd " + a.coq + " " + b.coq + ")", a.meta + b.meta}
	case 2, 3:
		b := vfC04Query(r, w, depth-1)
		return vfC04Q{&query.Or{Children: []query.Q{a.q, b.q}}, "(or " + a.desc + " " + b.desc + ")", "(COr " + a.coq + " " + b.coq + ")", a.meta + b.meta}
	default:
		return vfC04Q{&query.Not{Child: a.q}, "(not " + a.desc + ")", "(CNot " + a.coq + ")", a.meta}
	}
}

func (w *vfC04World) metasTerm() string {
	var xs []string
	for i, mk := range vfC04MetaKeys {
		var l []int
		for _, rp := range w.repos {
			if v, ok := rp.meta[mk.field]; ok && v == mk.value {
				for _, dc := range rp.docs {
					l = append(l, dc.idx)
				}
			}
		}
		xs = append(xs, cTuple(cN(uint64(i+1)), cNatList(l)))
	}
	return cList(xs)
}

func (w *vfC04World) run(t testing.TB, s zoekt.Searcher, q query.Q) []int {
	res, err := s.Search(context.Background(), q, &zoekt.SearchOptions{})
	if err != nil {
		t.Fatalf("Search(%s): %v", q, err)
	}
	out := []int{}
	for _, f := range res.Files {
		idx, ok := w.byDoc[f.FileName]
		if !ok {
			idx = 9999
		}
		out = append(out, idx)
	}
	return out
}

func (w *vfC04World) describe() []any {
	var l []any
	for _, rp := range w.repos {
		var ds []string
		for _, dc := range rp.docs {
			ds = append(ds, dc.name+"="+strings.TrimSpace(dc.content))
		}
		l = append(l, map[string]any{"name": rp.name, "metadata": rp.meta, "docs": ds})
	}
	return l
}

func TestVerifC04(t *testing.T) {
	r := vfNewRand(vfSeed() + 4)
	n := vfN(200)
	sizes := []int{0, 1, 2, 10, 10}
	var w *vfC04World
	for i := 0; i < n; i++ {
		if i%6 == 0 {
			w = vfC04NewWorld(t, r, fmt.Sprint(i))
		}
		size := sizes[r.Intn(len(sizes))]
		t.Setenv("ZOEKT_DOCMATCHTREE_CACHE", fmt.Sprint(size))
		s := w.load(t)
		nq := 1 + r.Intn(8)
		var hist []vfC04Q
		for k := 0; k < nq; k++ {
			if k > 0 && r.Chance(35) {
				hist = append(hist, hist[r.Intn(k)]) // repeat an earlier query (cache hit)
			} else {
				hist = append(hist, vfC04Query(r, w, 2))
			}
		}
		var obs, terms, descs []string
		nmeta := 0
		failed := false
		for k, q := range hist {
			got := w.run(t, s, q.q)
			// ---- oracle: the same query alone on a freshly loaded searcher (same configuration)
			want := w.run(t, w.load(t), q.q)
			if fmt.Sprint(got) != fmt.Sprint(want) && !failed {
				failed = true
				var hd []string
				for _, h := range hist[:k+1] {
					hd = append(hd, h.desc)
				}
				vfOracleFail(fmt.Sprintf("history-dependent-result:cache=%v", size > 0),
					fmt.Sprintf("search %d of the history returns documents %v, the same query on a freshly loaded searcher returns %v", k+1, got, want),
					map[string]any{"seed": vfSeed(), "case": i, "cache_size": size, "history": hd, "shard": w.describe(), "got": got, "fresh": want})
			}
			obs = append(obs, cNatList(got))
			terms = append(terms, q.coq)
			descs = append(descs, q.desc)
			nmeta += q.meta
		}
		coq := cTuple(cNat(w.ndocs), w.metasTerm(), cNat(size), cList(terms), cList(obs))
		class := []string{fmt.Sprint("cache=", size), fmt.Sprint("repos=", len(w.repos)), fmt.Sprint("len=", nq), fmt.Sprint("meta>0=", nmeta > 0)}
		vfCase(coq, vfKey(i, size, descs), size > 0 && nmeta >= 2 && len(w.repos) > 1 && nq > 1, class,
			map[string]any{"cache_size": size, "history": descs, "repos": len(w.repos), "docs": w.ndocs})
	}
}

// TestVerifC04Race: concurrent histories on one searcher; every result must equal the solo result.
func TestVerifC04Race(t *testing.T) {
	r := vfNewRand(vfSeed() + 44)
	n := vfN(40)
	for i := 0; i < n; i++ {
		w := vfC04NewWorld(t, r, fmt.Sprint("race", i))
		size := []int{0, 2, 10}[r.Intn(3)]
		t.Setenv("ZOEKT_DOCMATCHTREE_CACHE", fmt.Sprint(size))
		s := w.load(t)
		const workers = 4
		hists := make([][]vfC04Q, workers)
		wants := make([][]string, workers)
		for g := 0; g < workers; g++ {
			for k := 0; k < 6; k++ {
				q := vfC04Query(r, w, 2)
				hists[g] = append(hists[g], q)
				wants[g] = append(wants[g], fmt.Sprint(w.run(t, w.load(t), q.q)))
			}
		}
		var wg sync.WaitGroup
		var mu sync.Mutex
		bad := ""
		for g := 0; g < workers; g++ {
			wg.Add(1)
			go func(g int) {
				defer wg.Done()
				for rep := 0; rep < 5; rep++ {
					for k, q := range hists[g] {
						res, err := s.Search(context.Background(), q.q, &zoekt.SearchOptions{})
						if err != nil {
							continue
						}
						var got []int
						got = []int{}
						for _, f := range res.Files {
							got = append(got, w.byDoc[f.FileName])
						}
						if fmt.Sprint(got) != wants[g][k] {
							mu.Lock()
							if bad == "" {
								bad = fmt.Sprintf("query %s: concurrent result %v, solo result %s", q.desc, got, wants[g][k])
							}
							mu.Unlock()
						}
					}
				}
			}(g)
		}
		wg.Wait()
		if bad != "" {
			vfOracleFail(fmt.Sprintf("concurrent-result-differs:cache=%v", size > 0), bad, map[string]any{"seed": vfSeed(), "case": i, "cache_size": size, "shard": w.describe()})
		}
		vfEmit(map[string]any{"kind": "info", "race_case": i, "cache_size": size, "ok": bad == ""})
	}
}
