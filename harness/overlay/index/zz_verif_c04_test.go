package index

// C04 correspondence + oracle: histories of (Meta-heavy) searches on ONE loaded compound shard with the
// docMatchTree cache disabled / enabled at several sizes (ZOEKT_DOCMATCHTREE_CACHE); every result is compared
// with the same query on a freshly loaded searcher (oracle) and with the Gallina model (correspondence).
// TestVerifC04Race repeats that with concurrent goroutines (run under -race in the thorough tier).

import (
	"bytes"
	"context"
	"fmt"
	"go/ast"
	"go/parser"
	"go/token"
	"os"
	"path/filepath"
	"strings"
	"sync"
	"testing"
	"time"

	"github.com/grafana/regexp"

	"github.com/sourcegraph/zoekt"
	"github.com/sourcegraph/zoekt/query"
)

type vfC04Repo struct {
	name string
	meta map[string]string // logical values; the shard stores pad+value
	pad  string
	docs []vfC04Doc
}
type vfC04Doc struct {
	name, content string
	idx           int
}
type vfC04World struct {
	repos []*vfC04Repo // shard order
	blob  []byte
	ndocs int
	byDoc map[string]int
	pad   string // metadata values are pad+value (long values make the per-repository regexp evaluation slow)
}

type vfC04Mem struct{ b []byte }

func (s *vfC04Mem) Name() string { return "vfc04" }
func (s *vfC04Mem) Close()       {}
func (s *vfC04Mem) Read(off, sz uint32) ([]byte, error) {
	if uint64(off)+uint64(sz) > uint64(len(s.b)) {
		return nil, fmt.Errorf("read past end")
	}
	return s.b[off : off+sz], nil
}
func (s *vfC04Mem) Size() (uint32, error) { return uint32(len(s.b)), nil }

var vfC04Words = []string{"needle", "apple", "banana"}

func vfC04Simple(t testing.TB, rp *vfC04Repo) []byte {
	md := rp.meta
	if rp.pad != "" {
		md = map[string]string{}
		for k, v := range rp.meta {
			md[k] = rp.pad + v
		}
	}
	b, err := NewShardBuilder(&zoekt.Repository{Name: rp.name, Metadata: md})
	if err != nil {
		t.Fatal(err)
	}
	for _, dc := range rp.docs {
		if err := b.Add(Document{Name: dc.name, Content: []byte(dc.content)}); err != nil {
			t.Fatal(err)
		}
	}
	var buf bytes.Buffer
	if err := b.Write(&buf); err != nil {
		t.Fatal(err)
	}
	return buf.Bytes()
}

func vfC04NewWorld(t testing.TB, r *vfRand, tag string) *vfC04World {
	n := 1 + r.Intn(4)
	var gen []*vfC04Repo
	for i := 0; i < n; i++ {
		rp := &vfC04Repo{name: fmt.Sprintf("repo%d", i), meta: map[string]string{"k": r.Pick([]string{"yes", "yes", "no"}), "lang": r.Pick([]string{"go", "py"})}}
		if r.Chance(10) {
			delete(rp.meta, "k")
		}
		for j, nd := 0, 1+r.Intn(3); j < nd; j++ {
			var ws []string
			for k, nw := 0, 1+r.Intn(3); k < nw; k++ {
				ws = append(ws, r.Pick(vfC04Words))
			}
			rp.docs = append(rp.docs, vfC04Doc{name: fmt.Sprintf("%s/f%d.txt", rp.name, j), content: strings.Join(ws, " ") + "\n"})
		}
		gen = append(gen, rp)
	}
	return vfC04BuildWorld(t, tag, gen)
}

// vfC04BuildWorld writes the repositories as one shard (simple, or compound via index.Merge) and records the
// shard's own repository / document order.
func vfC04BuildWorld(t testing.TB, tag string, gen []*vfC04Repo) *vfC04World {
	return vfC04BuildWorldOpt(t, tag, gen, false)
}

// direct = one ShardBuilder fed with all repositories (what Merge does internally, without a builder and a file
// per repository; used for the large shards of the concurrent run)
func vfC04BuildWorldOpt(t testing.TB, tag string, gen []*vfC04Repo, direct bool) *vfC04World {
	n := len(gen)
	w := &vfC04World{byDoc: map[string]int{}}
	if direct {
		b := newShardBuilder(0)
		b.indexFormatVersion = NextIndexFormatVersion
		for _, rp := range gen {
			md := map[string]string{}
			for k, v := range rp.meta {
				md[k] = rp.pad + v
			}
			if err := b.setRepository(&zoekt.Repository{Name: rp.name, Metadata: md}); err != nil {
				t.Fatal(err)
			}
			for _, dc := range rp.docs {
				if err := b.Add(Document{Name: dc.name, Content: []byte(dc.content)}); err != nil {
					t.Fatal(err)
				}
			}
		}
		var buf bytes.Buffer
		if err := b.Write(&buf); err != nil {
			t.Fatal(err)
		}
		w.blob = buf.Bytes()
	} else if n == 1 {
		w.blob = vfC04Simple(t, gen[0])
	} else {
		dir, err := os.MkdirTemp(os.Getenv("VERIF_TMP"), "c04-"+tag+"-")
		if err != nil {
			t.Fatal(err)
		}
		defer os.RemoveAll(dir)
		var files []IndexFile
		for i, rp := range gen {
			fn := filepath.Join(dir, fmt.Sprintf("s%d.zoekt", i))
			if err := os.WriteFile(fn, vfC04Simple(t, rp), 0o600); err != nil {
				t.Fatal(err)
			}
			f, err := os.Open(fn)
			if err != nil {
				t.Fatal(err)
			}
			inf, err := NewIndexFile(f)
			if err != nil {
				t.Fatal(err)
			}
			defer inf.Close()
			files = append(files, inf)
		}
		tmpName, _, err := Merge(dir, files...)
		if err != nil {
			t.Fatal(err)
		}
		if w.blob, err = os.ReadFile(tmpName); err != nil {
			t.Fatal(err)
		}
	}
	// shard order of the repositories as the shard itself reports it
	s, err := NewSearcher(&vfC04Mem{w.blob})
	if err != nil {
		t.Fatal(err)
	}
	rl, err := s.List(context.Background(), &query.Const{Value: true}, nil)
	if err != nil {
		t.Fatal(err)
	}
	byName := map[string]*vfC04Repo{}
	for _, rp := range gen {
		byName[rp.name] = rp
	}
	for _, e := range rl.Repos {
		rp := byName[e.Repository.Name]
		for k := range rp.docs {
			rp.docs[k].idx = w.ndocs
			w.byDoc[rp.docs[k].name] = w.ndocs
			w.ndocs++
		}
		w.repos = append(w.repos, rp)
	}
	if len(w.repos) != len(gen) {
		t.Fatalf("shard lists %d repos, want %d", len(w.repos), len(gen))
	}
	return w
}

func (w *vfC04World) load(t testing.TB) zoekt.Searcher {
	s, err := NewSearcher(&vfC04Mem{w.blob})
	if err != nil {
		t.Fatal(err)
	}
	return s
}

var vfC04MetaKeys = []struct{ field, value string }{{"k", "yes"}, {"k", "no"}, {"k", "maybe"}, {"lang", "go"}, {"lang", "py"}}

type vfC04Q struct {
	q    query.Q
	desc string
	coq  string
	meta int
}

func (w *vfC04World) docsTerm(f func(rp *vfC04Repo, dc *vfC04Doc) bool) string {
	var l []int
	for _, rp := range w.repos {
		for k := range rp.docs {
			if f(rp, &rp.docs[k]) {
				l = append(l, rp.docs[k].idx)
			}
		}
	}
	return "(CDocs " + cNatList(l) + ")"
}

func vfC04Atom(r *vfRand, w *vfC04World) vfC04Q {
	switch x := r.Intn(10); {
	case x < 6:
		i := r.Intn(len(vfC04MetaKeys))
		mk := vfC04MetaKeys[i]
		re := "^" + mk.value + "$"
		if w.pad != "" {
			re = "^x*" + mk.value + "$"
		}
		return vfC04Q{&query.Meta{Field: mk.field, Value: regexp.MustCompile(re)}, "meta." + mk.field + ":" + mk.value, "(CMeta " + cN(uint64(i+1)) + ")", 1}
	case x < 8:
		wd := r.Pick(vfC04Words)
		return vfC04Q{&query.Substring{Pattern: wd, Content: true}, "content:" + wd, w.docsTerm(func(_ *vfC04Repo, dc *vfC04Doc) bool { return strings.Contains(dc.content, wd) }), 0}
	case x < 9:
		set := map[string]bool{}
		for _, rp := range w.repos {
			if r.Chance(50) {
				set[rp.name] = true
			}
		}
		return vfC04Q{&query.RepoSet{Set: set}, fmt.Sprint("reposet:", vfSortedKeys(set)), w.docsTerm(func(rp *vfC04Repo, _ *vfC04Doc) bool { return set[rp.name] }), 0}
	default:
		v := r.Chance(70)
		return vfC04Q{&query.Const{Value: v}, fmt.Sprint("const:", v), "(CConst " + cBool(v) + ")", 0}
	}
}

func vfC04Query(r *vfRand, w *vfC04World, depth int) vfC04Q {
	if depth == 0 || r.Chance(50) {
		return vfC04Atom(r, w)
	}
	a := vfC04Query(r, w, depth-1)
	switch r.Intn(5) {
	case 0, 1:
		b := vfC04Query(r, w, depth-1)
		return vfC04Q{&query.And{Children: []query.Q{a.q, b.q}}, "(and " + a.desc + " " + b.desc + ")", "(CAnd " + a.coq + " " + b.coq + ")", a.meta + b.meta}
	case 2, 3:
		b := vfC04Query(r, w, depth-1)
		return vfC04Q{&query.Or{Children: []query.Q{a.q, b.q}}, "(or " + a.desc + " " + b.desc + ")", "(COr " + a.coq + " " + b.coq + ")", a.meta + b.meta}
	default:
		return vfC04Q{&query.Not{Child: a.q}, "(not " + a.desc + ")", "(CNot " + a.coq + ")", a.meta}
	}
}

func (w *vfC04World) metasTerm() string {
	var xs []string
	for i, mk := range vfC04MetaKeys {
		var l []int
		for _, rp := range w.repos {
			if v, ok := rp.meta[mk.field]; ok && v == mk.value {
				for _, dc := range rp.docs {
					l = append(l, dc.idx)
				}
			}
		}
		xs = append(xs, cTuple(cN(uint64(i+1)), cNatList(l)))
	}
	return cList(xs)
}

func (w *vfC04World) run(t testing.TB, s zoekt.Searcher, q query.Q) []int {
	res, err := s.Search(context.Background(), q, &zoekt.SearchOptions{})
	if err != nil {
		t.Fatalf("Search(%s): %v", q, err)
	}
	out := []int{}
	for _, f := range res.Files {
		idx, ok := w.byDoc[f.FileName]
		if !ok {
			idx = 9999
		}
		out = append(out, idx)
	}
	return out
}

func (w *vfC04World) describe() []any {
	var l []any
	for _, rp := range w.repos {
		var ds []string
		for _, dc := range rp.docs {
			ds = append(ds, dc.name+"="+strings.TrimSpace(dc.content))
		}
		l = append(l, map[string]any{"name": rp.name, "metadata": rp.meta, "docs": ds})
	}
	return l
}

func TestVerifC04(t *testing.T) {
	r := vfNewRand(vfSeed() + 4)
	n := vfN(200)
	sizes := []int{0, 1, 2, 10, 10}
	var w *vfC04World
	for i := 0; i < n; i++ {
		if i%6 == 0 {
			w = vfC04NewWorld(t, r, fmt.Sprint(i))
		}
		size := sizes[r.Intn(len(sizes))]
		t.Setenv("ZOEKT_DOCMATCHTREE_CACHE", fmt.Sprint(size))
		s := w.load(t)
		nq := 1 + r.Intn(8)
		var hist []vfC04Q
		for k := 0; k < nq; k++ {
			if k > 0 && r.Chance(35) {
				hist = append(hist, hist[r.Intn(k)]) // repeat an earlier query (cache hit)
			} else {
				hist = append(hist, vfC04Query(r, w, 2))
			}
		}
		var obs, terms, descs []string
		nmeta := 0
		failed := false
		for k, q := range hist {
			got := w.run(t, s, q.q)
			// ---- oracle: the same query alone on a freshly loaded searcher (same configuration)
			want := w.run(t, w.load(t), q.q)
			if fmt.Sprint(got) != fmt.Sprint(want) && !failed {
				failed = true
				var hd []string
				for _, h := range hist[:k+1] {
					hd = append(hd, h.desc)
				}
				vfOracleFail(fmt.Sprintf("history-dependent-result:cache=%v", size > 0),
					fmt.Sprintf("search %d of the history returns documents %v, the same query on a freshly loaded searcher returns %v", k+1, got, want),
					map[string]any{"seed": vfSeed(), "case": i, "cache_size": size, "history": hd, "shard": w.describe(), "got": got, "fresh": want})
			}
			obs = append(obs, cNatList(got))
			terms = append(terms, q.coq)
			descs = append(descs, q.desc)
			nmeta += q.meta
		}
		coq := cTuple(cNat(w.ndocs), w.metasTerm(), cNat(size), cList(terms), cList(obs))
		class := []string{fmt.Sprint("cache=", size), fmt.Sprint("repos=", len(w.repos)), fmt.Sprint("len=", nq), fmt.Sprint("meta>0=", nmeta > 0)}
		vfCase(coq, vfKey(i, size, descs), size > 0 && nmeta >= 2 && len(w.repos) > 1 && nq > 1, class,
			map[string]any{"cache_size": size, "history": descs, "repos": len(w.repos), "docs": w.ndocs})
	}
}

// TestVerifC04Race: concurrent histories on one searcher; every result must equal the solo result.
func TestVerifC04Race(t *testing.T) {
	r := vfNewRand(vfSeed() + 44)
	n := vfN(40)
	for i := 0; i < n; i++ {
		w := vfC04NewWorld(t, r, fmt.Sprint("race", i))
		size := []int{0, 2, 10}[r.Intn(3)]
		t.Setenv("ZOEKT_DOCMATCHTREE_CACHE", fmt.Sprint(size))
		s := w.load(t)
		const workers = 4
		hists := make([][]vfC04Q, workers)
		wants := make([][]string, workers)
		for g := 0; g < workers; g++ {
			for k := 0; k < 6; k++ {
				q := vfC04Query(r, w, 2)
				hists[g] = append(hists[g], q)
				wants[g] = append(wants[g], fmt.Sprint(w.run(t, w.load(t), q.q)))
			}
		}
		var wg sync.WaitGroup
		var mu sync.Mutex
		bad := ""
		for g := 0; g < workers; g++ {
			wg.Add(1)
			go func(g int) {
				defer wg.Done()
				for rep := 0; rep < 5; rep++ {
					for k, q := range hists[g] {
						res, err := s.Search(context.Background(), q.q, &zoekt.SearchOptions{})
						if err != nil {
							continue
						}
						var got []int
						got = []int{}
						for _, f := range res.Files {
							got = append(got, w.byDoc[f.FileName])
						}
						if fmt.Sprint(got) != wants[g][k] {
							mu.Lock()
							if bad == "" {
								bad = fmt.Sprintf("query %s: concurrent result %v, solo result %s", q.desc, got, wants[g][k])
							}
							mu.Unlock()
						}
					}
				}
			}(g)
		}
		wg.Wait()
		if bad != "" {
			vfOracleFail(fmt.Sprintf("concurrent-result-differs:cache=%v", size > 0), bad, map[string]any{"seed": vfSeed(), "case": i, "cache_size": size, "shard": w.describe()})
		}
		vfEmit(map[string]any{"kind": "info", "race_case": i, "cache_size": size, "ok": bad == ""})
	}
}

// TestVerifC04Conc (quick and thorough tier): CONCURRENT histories. One large compound shard (dozens of
// repositories whose metadata match a Meta atom only partly, so the atom is not folded to a constant and the
// matching repositories alternate along the document order), loaded with the docMatchTree cache enabled;
// several goroutines issue the same and different queries (Meta-heavy, drawn from one small pool, so equal Meta
// atoms are evaluated at the same time and hit the same cache entries) against the ONE loaded searcher. Every
// single result is compared with the result of the same query alone on a freshly loaded searcher. Each round
// starts from a freshly loaded (cold cache) searcher, so rounds cover concurrent misses, adds, evictions and
// hits; three of four rounds are short bursts (two searches per goroutine) to get many cold starts. Metadata values are padded (world dependent) so that evaluating the regexp takes from ~100 ns to tens
// of microseconds: whatever per-search work is (wrongly) done through state shared between searches gets a
// realistic window. The oracle flags nothing but a result that differs from the solo result.
func TestVerifC04Conc(t *testing.T) {
	r := vfNewRand(vfSeed() + 404)
	n := 4
	if v := os.Getenv("VERIF_C04_CONC_N"); v != "" {
		fmt.Sscan(v, &n)
	}
	rounds := 96
	if v := os.Getenv("VERIF_C04_CONC_ROUNDS"); v != "" {
		fmt.Sscan(v, &rounds)
	}
	const workers = 8
	const perWorker = 6
	const passes = 2
	for i := 0; i < n; i++ {
		pad := strings.Repeat("x", []int{0, 64, 1000, 3000}[(i+int(vfSeed()))%4])
		nrepos := 24 + r.Intn(100)
		if i%4 == 3 && nrepos > 40 {
			nrepos = 24 + nrepos%17 // the world built through index.Merge (a builder and a file per repository) stays small
		}
		var gen []*vfC04Repo
		for j := 0; j < nrepos; j++ {
			rp := &vfC04Repo{name: fmt.Sprintf("repo%03d", j), pad: pad,
				meta: map[string]string{"k": r.Pick([]string{"yes", "yes", "no"}), "lang": r.Pick([]string{"go", "py"})}}
			if r.Chance(10) {
				delete(rp.meta, "k")
			}
			for d, nd := 0, 1+r.Intn(4); d < nd; d++ {
				var ws []string
				for k, nw := 0, 1+r.Intn(3); k < nw; k++ {
					ws = append(ws, r.Pick(vfC04Words))
				}
				rp.docs = append(rp.docs, vfC04Doc{name: fmt.Sprintf("%s/f%d.txt", rp.name, d), content: strings.Join(ws, " ") + "\n"})
			}
			gen = append(gen, rp)
		}
		t0 := time.Now()
		w := vfC04BuildWorldOpt(t, fmt.Sprint("conc", i), gen, i%4 != 3) // every fourth world through index.Merge
		w.pad = pad
		tBuild := time.Since(t0)
		size := []int{1, 2, 10, 10, 10}[r.Intn(5)]
		t.Setenv("ZOEKT_DOCMATCHTREE_CACHE", fmt.Sprint(size))
		// pool of queries shared by the goroutines: at least two with Meta atoms
		var pool []vfC04Q
		for len(pool) < 5 {
			q := vfC04Query(r, w, 2)
			if len(pool) < 2 && q.meta == 0 {
				continue
			}
			pool = append(pool, q)
		}
		wants := make([]string, len(pool))
		var poolDesc []string
		for k, q := range pool {
			wants[k] = fmt.Sprint(w.run(t, w.load(t), q.q))
			poolDesc = append(poolDesc, q.desc)
		}
		hists := make([][]int, workers)
		for g := range hists {
			for k := 0; k < perWorker; k++ {
				hists[g] = append(hists[g], r.Intn(len(pool)))
			}
		}
		type diff struct {
			round, g, k, qi int
			got             string
		}
		var mu sync.Mutex
		var first *diff
		ndiff, total := 0, 0
		for round := 0; round < rounds; round++ {
			s := w.load(t)
			start := make(chan struct{})
			var wg sync.WaitGroup
			for g := 0; g < workers; g++ {
				wg.Add(1)
				go func(g int) {
					defer wg.Done()
					<-start
					// every fourth round runs the whole history twice; the others are short bursts on the cold cache
					// (first two searches of every goroutine): concurrent misses / adds / first uses of a cached node
					np, hist := passes, hists[g]
					if round%4 != 0 {
						// burst: all goroutines start with the SAME query (maximal contention on one cache entry), then differ
						np, hist = 1, []int{round % len(pool), (round + g) % len(pool)}
					}
					for pass := 0; pass < np; pass++ {
						for k, qi := range hist {
							res, err := s.Search(context.Background(), pool[qi].q, &zoekt.SearchOptions{})
							got := "error"
							if err == nil {
								l := []int{}
								for _, f := range res.Files {
									idx, ok := w.byDoc[f.FileName]
									if !ok {
										idx = 9999
									}
									l = append(l, idx)
								}
								got = fmt.Sprint(l)
							} else {
								got = "error: " + err.Error()
							}
							mu.Lock()
							total++
							if got != wants[qi] {
								ndiff++
								if first == nil {
									first = &diff{round, g, k, qi, got}
								}
							}
							mu.Unlock()
						}
					}
				}(g)
			}
			close(start)
			wg.Wait()
		}
		if first != nil {
			qi := first.qi
			var shard []string
			for _, rp := range w.repos {
				shard = append(shard, fmt.Sprintf("%s k=%s lang=%s docs=%d", rp.name, rp.meta["k"], rp.meta["lang"], len(rp.docs)))
			}
			vfOracleFail(fmt.Sprintf("concurrent-result-differs:cache=%v", size > 0),
				fmt.Sprintf("%d of %d concurrent searches (%d goroutines on one loaded shard, cache size %d) differ from the same query alone on a freshly loaded searcher; first: round %d goroutine %d search %d, query %s returns %s, alone it returns %s",
					ndiff, total, workers, size, first.round, first.g, first.k, pool[qi].desc, first.got, wants[qi]),
				map[string]any{"seed": vfSeed(), "test": "TestVerifC04Conc", "world": i, "cache_size": size, "metadata_value_padding": len(pad),
					"repos": len(w.repos), "docs": w.ndocs, "shard": shard, "pool": poolDesc, "goroutine_histories": hists, "rounds": rounds, "passes": passes,
					"differing": ndiff, "searches": total, "query": pool[qi].desc, "got": first.got, "alone": wants[qi],
					"rerun": fmt.Sprintf("VERIF_SEED=%d ./check C04 (the schedule is chosen by the Go runtime; %d of %d searches differed in this run)", vfSeed(), ndiff, total)})
		}
		t.Logf("conc world %d: %d repos %d docs pad %d cache %d: build %v, total %v, %d/%d differ", i, len(w.repos), w.ndocs, len(pad), size, tBuild, time.Since(t0), ndiff, total)
		vfEmit(map[string]any{"kind": "info", "conc_world": i, "cache_size": size, "repos": len(w.repos), "docs": w.ndocs, "pad": len(pad),
			"searches": total, "differing": ndiff, "pool": poolDesc})
	}
}

// TestVerifC04Sharing (translator): the sharing discipline of the docMatchTree cache, read off the source.
// In newMatchTree's `case *query.Meta` the node stored in the cache carries a predicate closure that every
// later search of the atom calls, concurrently. The model (Model/DocCache.v, `sharing`) requires the shared part
// to be immutable: this test lists every write the closure (and function literals nested in it) makes to a
// variable captured from outside the closure — plain / op assignments, ++/--, writes through an index, field
// or pointer rooted in such a variable — and whether a cache hit hands out the cached node itself.
// Output: one record {"kind":"sharing", ...}; props/C04/prop.py turns it into coq/Generated/C04Sharing.v.
func TestVerifC04Sharing(t *testing.T) {
	fset := token.NewFileSet()
	f, err := parser.ParseFile(fset, "matchtree.go", nil, 0)
	if err != nil {
		t.Fatal(err)
	}
	var metaCase *ast.CaseClause
	ast.Inspect(f, func(n ast.Node) bool {
		fd, ok := n.(*ast.FuncDecl)
		if !ok || fd.Name.Name != "newMatchTree" || fd.Body == nil {
			return true
		}
		ast.Inspect(fd.Body, func(n ast.Node) bool {
			cc, ok := n.(*ast.CaseClause)
			if !ok {
				return true
			}
			for _, e := range cc.List {
				if se, ok := e.(*ast.StarExpr); ok {
					if sel, ok := se.X.(*ast.SelectorExpr); ok && sel.Sel.Name == "Meta" {
						metaCase = cc
					}
				}
			}
			return true
		})
		return false
	})
	if metaCase == nil {
		vfEmit(map[string]any{"kind": "sharing", "found": false, "why": "no `case *query.Meta` in newMatchTree"})
		return
	}
	var closures []*ast.FuncLit
	usesCache := false
	for _, st := range metaCase.Body {
		ast.Inspect(st, func(n ast.Node) bool {
			switch x := n.(type) {
			case *ast.KeyValueExpr:
				if k, ok := x.Key.(*ast.Ident); ok && k.Name == "predicate" {
					if fl, ok := x.Value.(*ast.FuncLit); ok {
						closures = append(closures, fl)
					}
				}
			case *ast.SelectorExpr:
				if x.Sel.Name == "docMatchTreeCache" {
					usesCache = true
				}
			}
			return true
		})
	}
	var writes []string
	for _, fl := range closures {
		// identifiers declared inside the closure (parameters, :=, var, range) are its own
		local := map[string]bool{}
		ast.Inspect(fl, func(n ast.Node) bool {
			switch x := n.(type) {
			case *ast.FuncType:
				if x.Params != nil {
					for _, p := range x.Params.List {
						for _, nm := range p.Names {
							local[nm.Name] = true
						}
					}
				}
				if x.Results != nil {
					for _, p := range x.Results.List {
						for _, nm := range p.Names {
							local[nm.Name] = true
						}
					}
				}
			case *ast.AssignStmt:
				if x.Tok == token.DEFINE {
					for _, l := range x.Lhs {
						if id, ok := l.(*ast.Ident); ok {
							local[id.Name] = true
						}
					}
				}
			case *ast.ValueSpec:
				for _, nm := range x.Names {
					local[nm.Name] = true
				}
			case *ast.RangeStmt:
				if x.Tok == token.DEFINE {
					for _, e := range []ast.Expr{x.Key, x.Value} {
						if id, ok := e.(*ast.Ident); ok {
							local[id.Name] = true
						}
					}
				}
			}
			return true
		})
		var root func(e ast.Expr) string
		root = func(e ast.Expr) string {
			switch x := e.(type) {
			case *ast.Ident:
				return x.Name
			case *ast.IndexExpr:
				return root(x.X)
			case *ast.SelectorExpr:
				return root(x.X)
			case *ast.StarExpr:
				return root(x.X)
			case *ast.ParenExpr:
				return root(x.X)
			}
			return ""
		}
		note := func(e ast.Expr, pos token.Pos) {
			if nm := root(e); nm != "" && nm != "_" && !local[nm] {
				writes = append(writes, fmt.Sprintf("%s (matchtree.go:%d)", nm, fset.Position(pos).Line))
			}
		}
		ast.Inspect(fl.Body, func(n ast.Node) bool {
			switch x := n.(type) {
			case *ast.AssignStmt:
				if x.Tok != token.DEFINE {
					for _, l := range x.Lhs {
						note(l, x.Pos())
					}
				}
			case *ast.IncDecStmt:
				note(x.X, x.Pos())
			case *ast.RangeStmt:
				if x.Tok == token.ASSIGN {
					for _, e := range []ast.Expr{x.Key, x.Value} {
						if e != nil {
							note(e, x.Pos())
						}
					}
				}
			}
			return true
		})
	}
	// does a cache hit return the cached node itself? (`return cached, nil` inside the clause)
	returnsCached := false
	for _, st := range metaCase.Body {
		ast.Inspect(st, func(n ast.Node) bool {
			if rs, ok := n.(*ast.ReturnStmt); ok && len(rs.Results) > 0 {
				if id, ok := rs.Results[0].(*ast.Ident); ok && id.Name == "cached" {
					returnsCached = true
				}
			}
			return true
		})
	}
	vfEmit(map[string]any{"kind": "sharing", "found": true, "closures": len(closures), "uses_cache": usesCache,
		"captured_writes": writes, "returns_cached_node": returnsCached})
}
