package index

// C01 correspondence + oracle: generated corpora are written with the real ShardBuilder, read back with NewSearcher and
// searched with the real indexData.Search; the returned (repository, file) lists are compared with the Gallina model's
// mechanism and specification (through the emitted Coq case) and with an independent Go evaluator (the property oracle).
// Shared with C21 (zz_verif_c21_test.go). Mapped into /repo/index by `go test -overlay`.

import (
	"bytes"
	"context"
	"fmt"
	stdregexp "regexp"
	"regexp/syntax"
	"sort"
	"strings"
	"testing"
	"time"
	"unicode"
	"unicode/utf8"

	"github.com/grafana/regexp"

	"github.com/sourcegraph/zoekt"
	"github.com/sourcegraph/zoekt/internal/syntaxutil"
	"github.com/sourcegraph/zoekt/query"
)

// ---------------------------------------------------------------- corpus generation

type vfMem struct{ data []byte }

func (s *vfMem) Name() string                        { return "verif-mem" }
func (s *vfMem) Close()                              {}
func (s *vfMem) Size() (uint32, error)               { return uint32(len(s.data)), nil }
func (s *vfMem) Read(off, sz uint32) ([]byte, error) { return s.data[off : off+sz], nil }

var vfC01Tokens = []string{"a", "b", "ab", "aa", "aaa", "abab", "foo", "Foo", "FOO", "bar", "Bar", "k", "K", "K", "é", "É",
	"x_1", " ", " ", "\n", "\n", ".", "-", "a a", "foo bar", "fooé", "éa"}
var vfC01Langs = []string{"Go", "C", "Python", ""}
var vfC01Names = []string{"a.go", "b.go", "foo.c", "Foo.c", "dir/foo.go", "dir/bar.py", "é.go", "aaa", "ab", "x", "README", "foo bar.txt", "abab.go", "k.c", "K.c"}

var vfC01Words = []string{"needle", "thread", "and", "foo", "bar", "abab", "Foo", "éfoo", "x_1"}

// vfC01Lines: a line-structured text: 1-5 lines of 1-4 words over a small vocabulary, so that the same literal occurs on several
// lines, literals start at column 0 / end at the line end, on the first and on the last line; the last line often has no newline.
func vfC01Lines(r *vfRand) []byte {
	var lines []string
	nl := 1 + r.Intn(4)
	for i := 0; i < nl; i++ {
		var b strings.Builder
		nw := 1 + r.Intn(4)
		if i == 0 && nw == 1 && r.Chance(80) {
			nw = 2 + r.Intn(2)
		}
		for j := 0; j < nw; j++ {
			if j > 0 {
				b.WriteString(r.Pick([]string{" ", " ", " and ", "-", ""}))
			}
			b.WriteString(r.Pick(vfC01Words))
		}
		lines = append(lines, b.String())
	}
	// often the word that starts some line occurs again alone on another line (before or after): then it is not the rarest literal
	for k := 0; k < 2; k++ {
		if r.Chance(60) {
			src := lines[r.Intn(len(lines))]
			if k == 0 {
				src = lines[0]
			}
			w := strings.FieldsFunc(src, func(c rune) bool { return c == ' ' || c == '-' })
			if len(w) > 0 {
				at := r.Intn(len(lines) + 1)
				lines = append(lines[:at], append([]string{w[0]}, lines[at:]...)...)
			}
		}
	}
	out := strings.Join(lines, "\n")
	if r.Chance(50) {
		out += "\n"
	}
	return []byte(out)
}

func vfC01Content(r *vfRand) []byte {
	if r.Chance(30) {
		return vfC01Lines(r)
	}
	var b strings.Builder
	if r.Chance(8) { // cross the rune-offset sampling boundary (every 100 runes) with multi-byte runes around it
		n := 90 + r.Intn(25)
		for i := 0; i < n; i++ {
			b.WriteString(r.Pick([]string{"a", "a", "é", "b", "\n", "😀"}))
		}
	}
	n := r.Intn(13)
	if r.Chance(8) {
		n = 0
	}
	for i := 0; i < n; i++ {
		b.WriteString(r.Pick(vfC01Tokens))
	}
	return []byte(b.String())
}

// vfC01Sections: sorted non-overlapping symbol sections (byte offsets at rune boundaries) over the content: adjacent ones,
// one at offset 0, one ending at the end of the content, sections inside / ending inside runs of multi-byte runes, rarely empty ones.
func vfC01Sections(r *vfRand, content []byte) ([]DocumentSection, []*zoekt.Symbol) {
	var bounds []int // byte offsets of rune boundaries
	for i := range string(content) {
		bounds = append(bounds, i)
	}
	bounds = append(bounds, len(content))
	if len(content) == 0 || !r.Chance(65) {
		return nil, nil
	}
	nb := len(bounds)
	var secs []DocumentSection
	pos := 0
	if !r.Chance(30) {
		pos = r.Intn(nb)
	}
	for len(secs) < 5 && pos < nb-1 {
		ln := 1 + r.Intn(7)
		if r.Chance(4) {
			ln = 0
		}
		end := pos + ln
		if end > nb-1 || r.Chance(10) {
			end = nb - 1
		}
		secs = append(secs, DocumentSection{Start: uint32(bounds[pos]), End: uint32(bounds[end])})
		pos = end
		if !r.Chance(30) { // otherwise adjacent to the next section
			pos += 1 + r.Intn(4)
		}
	}
	var meta []*zoekt.Symbol
	for i := range secs {
		meta = append(meta, &zoekt.Symbol{Sym: fmt.Sprintf("s%d", i), Kind: "function"})
	}
	return secs, meta
}

type vfC01Corpus struct {
	repos []*zoekt.Repository
	docs  [][]Document
}

func vfC01GenCorpus(r *vfRand) vfC01Corpus {
	var c vfC01Corpus
	nrepos := 1 + r.Intn(4)
	if r.Chance(35) {
		nrepos = 1
	}
	ndocs := 1 + r.Intn(10)
	repoNames := []string{"repo/a", "repo/b", "other", "repo/foo", "repo/c"}
	brNames := []string{"main", "HEAD", "dev", "release/1", "mainline"}
	for i := 0; i < nrepos; i++ {
		repo := &zoekt.Repository{Name: repoNames[(i+r.Intn(2))%len(repoNames)] + fmt.Sprint(i), ID: uint32(10 + i*7 + r.Intn(3))}
		perm := []int{0, 1, 2, 3, 4}
		for j := range perm {
			k := j + r.Intn(len(perm)-j)
			perm[j], perm[k] = perm[k], perm[j]
		}
		nb := 1 + r.Intn(3)
		for j := 0; j < nb; j++ {
			repo.Branches = append(repo.Branches, zoekt.RepositoryBranch{Name: brNames[perm[j]], Version: fmt.Sprint("v", j)})
		}
		if r.Chance(28) && nrepos > 1 {
			repo.Tombstone = true
		}
		repo.RawConfig = map[string]string{}
		for _, f := range []string{"public", "fork", "archived"} {
			switch r.Intn(3) {
			case 0:
				repo.RawConfig[f] = "1"
			case 1:
				repo.RawConfig[f] = "0"
			}
		}
		if r.Chance(50) {
			repo.Metadata = map[string]string{"k": r.Pick([]string{"yes", "no", "yes please"})}
		}
		c.repos = append(c.repos, repo)
		c.docs = append(c.docs, nil)
	}
	for i := 0; i < ndocs; i++ {
		ri := r.Intn(nrepos)
		repo := c.repos[ri]
		d := Document{Name: r.Pick(vfC01Names), Content: vfC01Content(r), Language: r.Pick(vfC01Langs)}
		d.Symbols, d.SymbolsMetaData = vfC01Sections(r, d.Content)
		if r.Chance(70) {
			d.Name = fmt.Sprintf("%d%s", i, d.Name) // mostly unique names, sometimes duplicates
		}
		for j, br := range repo.Branches {
			if r.Chance(60) || (j == len(repo.Branches)-1 && len(d.Branches) == 0) {
				d.Branches = append(d.Branches, br.Name)
			}
		}
		switch {
		case r.Chance(4):
			d.SkipReason = SkipReasonTooLarge
		case r.Chance(3):
			d.Content = append(d.Content, 0, 'f', 'o', 'o') // binary => skipped by Add (symbols dropped)
		}
		if r.Chance(10) {
			if repo.FileTombstones == nil {
				repo.FileTombstones = map[string]struct{}{}
			}
			repo.FileTombstones[d.Name] = struct{}{}
		}
		c.docs[ri] = append(c.docs[ri], d)
	}
	return c
}

// vfC01Build writes the shard with the real builder and opens it with the real reader.
func vfC01Build(t testing.TB, c vfC01Corpus) *indexData {
	var b *ShardBuilder
	if len(c.repos) == 1 {
		var err error
		b, err = NewShardBuilder(c.repos[0])
		if err != nil {
			t.Fatal(err)
		}
		for _, d := range c.docs[0] {
			if err := b.Add(d); err != nil {
				t.Fatal(err)
			}
		}
	} else {
		b = newShardBuilder(0)
		b.indexFormatVersion = NextIndexFormatVersion
		for i, repo := range c.repos {
			if err := b.setRepository(repo); err != nil {
				t.Fatal(err)
			}
			for _, d := range c.docs[i] {
				if err := b.Add(d); err != nil {
					t.Fatal(err)
				}
			}
		}
	}
	var buf bytes.Buffer
	if err := b.Write(&buf); err != nil {
		t.Fatal(err)
	}
	s, err := NewSearcher(&vfMem{buf.Bytes()})
	if err != nil {
		t.Fatal(err)
	}
	return s.(*indexData)
}

// vfC01Doc is the read-back description of one indexed document (input of model and oracle).
type vfC01Doc struct {
	name, content string
	mask          uint64
	repo          int
	lang          uint16
	secs          [][2]int // symbol sections read back from the shard, as RUNE offsets into content (model) ...
	bsecs         [][2]int // ... and as byte offsets (oracle)
}

func vfC01ReadBack(t testing.TB, d *indexData) []vfC01Doc {
	var out []vfC01Doc
	for i := uint32(0); i < d.numDocs(); i++ {
		ct, err := d.readContents(i)
		if err != nil {
			t.Fatal(err)
		}
		doc := vfC01Doc{name: string(d.fileName(i)), content: string(ct), mask: d.fileBranchMasks[i],
			repo: int(d.repos[i]), lang: d.getLanguage(i)}
		ds, _, err := d.readDocSections(i, nil)
		if err != nil {
			t.Fatal(err)
		}
		for _, sec := range ds {
			if int(sec.End) > len(ct) || sec.Start > sec.End {
				t.Fatalf("read back section %v outside content of %d bytes", sec, len(ct))
			}
			doc.bsecs = append(doc.bsecs, [2]int{int(sec.Start), int(sec.End)})
			doc.secs = append(doc.secs, [2]int{utf8.RuneCount(ct[:sec.Start]), utf8.RuneCount(ct[:sec.End])})
		}
		out = append(out, doc)
	}
	return out
}

// ---------------------------------------------------------------- query generation

type vfC01Env struct {
	d        *indexData
	docs     []vfC01Doc
	pats     []string // substrings of real names / contents, and noise
	rsrc     map[*query.Regexp]string
	rsrc2    map[*regexp.Regexp]string
	focusSet []bool
	xcls     []string // classes of the generated regexp sources (separator kind, line placement of the literals), for the input histogram
}

func vfC01Sub(r *vfRand, s string) string {
	rs := []rune(s)
	if len(rs) == 0 {
		return r.Pick([]string{"a", "foo", "ab"})
	}
	n := 1 + r.Intn(6)
	if r.Chance(15) {
		n = 1 + r.Intn(2)
	} else if r.Chance(20) {
		n = 4 + r.Intn(6) // long patterns: many trigrams to select from
	}
	if n > len(rs) {
		n = len(rs)
	}
	o := r.Intn(len(rs) - n + 1)
	if r.Chance(20) {
		o = len(rs) - n // at the very end of the text
	}
	if r.Chance(20) {
		o = 0
	}
	out := append([]rune(nil), rs[o:o+n]...)
	if r.Chance(25) { // flip case of one rune
		i := r.Intn(len(out))
		if unicode.IsUpper(out[i]) {
			out[i] = unicode.ToLower(out[i])
		} else {
			out[i] = unicode.ToUpper(out[i])
		}
	}
	return string(out)
}

func (e *vfC01Env) pat(r *vfRand) string {
	switch {
	case r.Chance(45) && len(e.docs) > 0:
		return vfC01Sub(r, e.docs[r.Intn(len(e.docs))].content)
	case r.Chance(35) && len(e.docs) > 0:
		return vfC01Sub(r, e.docs[r.Intn(len(e.docs))].name)
	case r.Chance(30) && len(e.docs) > 1: // straddles a document boundary
		i := r.Intn(len(e.docs) - 1)
		a, b := []rune(e.docs[i].content), []rune(e.docs[i+1].content)
		if len(a) >= 2 && len(b) >= 2 {
			return string(a[len(a)-2:]) + string(b[:2])
		}
		return "aab"
	default:
		n := 1 + r.Intn(5)
		s := ""
		for i := 0; i < n; i++ {
			s += r.Pick([]string{"a", "b", "A", "f", "o", "k", "K", "é", "É", " ", "\n", "_", "1", "."})
		}
		return s
	}
}

// sameLineSrc: regexps of the distilled same-line shape (andLineMatchTree): 2-3 literals of >= 3 runes taken from ONE line of a
// document, joined by .*, in text order or (25 %) reversed; the first literal often starts at column 0, the last often ends at the
// end of the line. "" if no suitable line exists.
// col0Src: W0.*W1 where W0 starts a line (column 0; offset 0 of the file on the first line), W1 stands later on the same line and
// W0 has MORE occurrences in the document than W1: andLineMatchTree then takes the lines from W1's candidates and has to accept the
// candidate of W0 that sits exactly on the line start.
func (e *vfC01Env) col0Src(r *vfRand) string {
	var cands []string
	for _, dd := range e.docs {
		for _, line := range strings.Split(dd.content, "\n") {
			ws := strings.FieldsFunc(line, func(c rune) bool { return c == ' ' || c == '-' })
			if len(ws) < 2 || len([]rune(ws[0])) < 3 || !strings.HasPrefix(line, ws[0]) {
				continue
			}
			for _, w1 := range ws[1:] {
				if len([]rune(w1)) < 3 || strings.Contains(w1, ws[0]) || strings.Contains(ws[0], w1) {
					continue
				}
				if strings.Count(dd.content, ws[0]) <= strings.Count(dd.content, w1) {
					continue
				}
				only0 := true // on every line that holds both, W0 stands at column 0 only
				for _, l2 := range strings.Split(dd.content, "\n") {
					if strings.Contains(l2, w1) && strings.Contains(l2, ws[0]) && strings.LastIndex(l2, ws[0]) != 0 {
						only0 = false
					}
				}
				if only0 || len(cands) == 0 {
					cands = append(cands, stdregexp.QuoteMeta(ws[0])+".*"+stdregexp.QuoteMeta(w1))
				}
			}
		}
	}
	if len(cands) == 0 {
		return ""
	}
	c := cands[r.Intn(len(cands))]
	if r.Chance(18) { // the literals in the wrong order: the same-line conjunction holds, the regexp does not match (unless W1 occurs again behind W0)
		if i := strings.Index(c, ".*"); i > 0 {
			c = c[i+2:] + ".*" + c[:i]
		}
	}
	return c
}

func (e *vfC01Env) sameLineSrc(r *vfRand) string {
	if r.Chance(55) {
		if s := e.col0Src(r); s != "" {
			e.xcls = append(e.xcls, "re-col0")
			return s
		}
	}
	for try := 0; try < 8; try++ {
		if len(e.docs) == 0 {
			return ""
		}
		lines := strings.Split(e.docs[r.Intn(len(e.docs))].content, "\n")
		if len(lines) < 2 && try < 5 { // prefer documents with several lines
			continue
		}
		line := lines[r.Intn(len(lines))]
		for k := 0; k < 4 && len(strings.Fields(line)) < 2; k++ { // prefer lines with several words
			line = lines[r.Intn(len(lines))]
		}
		// whole words: the first word of the line (column 0), optionally one in the middle, the last word (ends at the line end)
		if ws := strings.FieldsFunc(line, func(c rune) bool { return c == ' ' || c == '-' }); len(ws) >= 2 && r.Chance(60) {
			var big []string
			for _, w := range ws {
				if len([]rune(w)) >= 3 {
					big = append(big, stdregexp.QuoteMeta(w))
				}
			}
			if len(big) >= 2 && strings.HasPrefix(line, ws[0]) && len([]rune(ws[0])) >= 3 {
				lits := []string{big[0], big[len(big)-1]}
				if len(big) >= 3 && r.Chance(40) {
					lits = []string{big[0], big[1+r.Intn(len(big)-2)], big[len(big)-1]}
				}
				if r.Chance(15) {
					lits[0], lits[len(lits)-1] = lits[len(lits)-1], lits[0]
				}
				return strings.Join(lits, ".*")
			}
		}
		ln := []rune(line)
		if len(ln) < 7 {
			continue
		}
		nl := 2
		if len(ln) >= 11 && r.Chance(40) {
			nl = 3
		}
		// cut points: nl literals of 3..5 runes, non-overlapping, in order
		var lits []string
		pos := 0
		if !r.Chance(55) {
			pos = r.Intn(len(ln) - 3*nl + 1)
		}
		ok := true
		for k := 0; k < nl; k++ {
			rest := len(ln) - pos - 3*(nl-k-1)
			if rest < 3 {
				ok = false
				break
			}
			n := 3 + r.Intn(3)
			if n > rest {
				n = rest
			}
			if k == nl-1 && r.Chance(45) { // ends at the end of the line
				pos = len(ln) - n
			}
			lits = append(lits, stdregexp.QuoteMeta(string(ln[pos:pos+n])))
			pos += n
			if k < nl-1 {
				gap := len(ln) - pos - 3*(nl-k-1)
				if gap > 0 {
					pos += r.Intn(gap + 1)
				}
			}
		}
		if !ok {
			continue
		}
		if r.Chance(25) {
			for i, j := 0, len(lits)-1; i < j; i, j = i+1, j-1 {
				lits[i], lits[j] = lits[j], lits[i]
			}
		}
		return strings.Join(lits, ".*")
	}
	return ""
}

// separators between two literals of a regexp. nl = the separator can match a newline (the same-line conjunction of
// regexpToMatchTreeRecursive would be unsound for it), !nl = it cannot.
var vfC01SepsDotAllStar = []string{`(?s:.*)`, `(?s:.)*`, `[\s\S]*`, `(?:.|\n)*`, `(?s:.*?)`, `(?sU:.*)`, `(?s-U:.*)`, `(?is:.*)`, `(?ms:.*)`, `(?s:.)*?`, `(?:\n|.)*`, `[\d\D]*`, `[\x00-\x{10FFFF}]*`}
var vfC01SepsNL = []string{`(?s:.+)`, `[^q]*`, `\s*`, `\s+`, `\n`, `\n+`, `.*\n.*`, `(?s:.{0,6})`, `[\n -~]*`, `(?:\n|.)+`, `(?s:.*).*`, `.*(?s:.*)`, `(?:.*\n)*.*`, `(?m:$)\n(?m:^)`, `(?s:.)+?`}
var vfC01SepsSL = []string{`.*`, `(?-s:.*)`, `(?U:.*)`, `(?m:.*)`, `(?i:.*)`, `[^\n]*`, `.+`, `.*?`, `(?-s:.)*`, `(?m:.)*`, `(?U:.)*`, `(?i:.)*.*`}

// crossLineSrc: regexps lit SEP lit (SEP lit) whose separators may or may not match newlines (flag groups (?s: (?i: (?m: (?U:,
// dot-all stars and pluses, [\s\S]*, (?:.|\n)*, \n literals ...), with the literals taken from a line-structured document: the same line /
// adjacent lines / lines far apart / reversed; the first word of a line (column 0), the last word of a line (the end of the file when the
// last line has no newline), or a random 3-5 rune cut. The class of the source ("re-sep-nl", "re-sep-sl", + "re-lines-same|adjacent|far|reversed")
// is returned for the input histogram. "" if no suitable document exists.
func (e *vfC01Env) crossLineSrc(r *vfRand) (string, []string) {
	for try := 0; try < 12; try++ {
		if len(e.docs) == 0 {
			return "", nil
		}
		content := e.docs[r.Intn(len(e.docs))].content
		raw := strings.Split(content, "\n")
		var lines []string
		for _, l := range raw {
			if len([]rune(l)) >= 3 {
				lines = append(lines, l)
			}
		}
		if len(lines) == 0 || (len(lines) < 2 && try < 8) {
			continue
		}
		lit := func(line string, k int) string {
			ws := strings.FieldsFunc(line, func(c rune) bool { return c == ' ' || c == '-' })
			var big []string
			for _, w := range ws {
				if len([]rune(w)) >= 3 {
					big = append(big, w)
				}
			}
			if len(big) > 0 && r.Chance(70) {
				switch {
				case r.Chance(35) && strings.HasPrefix(line, big[0]):
					return big[0] // column 0
				case r.Chance(45) && strings.HasSuffix(line, big[len(big)-1]):
					return big[len(big)-1] // the end of the line (the end of the file on the last line without newline)
				}
				return big[r.Intn(len(big))]
			}
			ln := []rune(line)
			n := 3 + r.Intn(3)
			if n > len(ln) {
				n = len(ln)
			}
			o := r.Intn(len(ln) - n + 1)
			switch r.Intn(4) {
			case 0:
				o = 0
			case 1:
				o = len(ln) - n
			}
			return string(ln[o : o+n])
		}
		// a literal that itself spans a line break (the end of one line, the newline, the start of the next), joined by a same-line
		// separator to a literal of the second line: the multi-line literal is NOT singleLine, although every separator is
		if r.Chance(12) && len(raw) >= 2 {
			k := r.Intn(len(raw) - 1)
			a, b := []rune(raw[k]), []rune(raw[k+1])
			if len(a) >= 2 && len(b) >= 5 {
				na, nb := 1+r.Intn(min(3, len(a))), 1+r.Intn(2)
				ml := stdregexp.QuoteMeta(string(a[len(a)-na:]) + "\n" + string(b[:nb]))
				rest := string(b[nb:])
				if r.Chance(50) && len(b)-nb > 3 {
					rest = string(b[len(b)-3:])
				} else if len(b)-nb > 3 {
					o := nb + r.Intn(len(b)-nb-2)
					rest = string(b[o : o+3])
				}
				src := ml + r.Pick(vfC01SepsSL) + stdregexp.QuoteMeta(rest)
				if r.Chance(20) {
					src = stdregexp.QuoteMeta(string(a[:min(3, len(a))])) + r.Pick(vfC01SepsSL) + src
				}
				return src, []string{"re-sep-sl", "re-lit-multiline"}
			}
		}
		nl := 2
		if r.Chance(25) {
			nl = 3
		}
		i := r.Intn(len(lines))
		var cls string
		idx := []int{i}
		switch x := r.Intn(100); {
		case x < 20:
			cls = "re-lines-same"
			for k := 1; k < nl; k++ {
				idx = append(idx, i)
			}
		case x < 55:
			cls = "re-lines-adjacent"
			if i+nl-1 >= len(lines) {
				i = max(0, len(lines)-nl)
			}
			idx = []int{i}
			for k := 1; k < nl; k++ {
				idx = append(idx, min(i+k, len(lines)-1))
			}
		case x < 80:
			cls = "re-lines-far"
			idx = []int{0}
			for k := 1; k < nl; k++ {
				idx = append(idx, len(lines)-1)
			}
			if nl == 3 && len(lines) > 2 {
				idx[1] = 1 + r.Intn(len(lines)-2)
			}
		case x < 90:
			cls = "re-lines-reversed"
			idx = []int{len(lines) - 1}
			for k := 1; k < nl; k++ {
				idx = append(idx, r.Intn(len(lines)))
			}
			idx[nl-1] = 0
		default:
			cls = "re-lines-random"
			for k := 1; k < nl; k++ {
				idx = append(idx, r.Intn(len(lines)))
			}
		}
		var ls []string
		for k, li := range idx {
			ls = append(ls, lit(lines[li], k))
		}
		shared := false // the literals also occur together on one line
		for _, l := range raw {
			all := true
			for _, x := range ls {
				all = all && strings.Contains(l, x)
			}
			shared = shared || all
		}
		if shared && cls != "re-lines-same" && try < 8 && r.Chance(75) {
			continue // look for a better placement
		}
		var b strings.Builder
		sepNL := false
		for k := range idx {
			if k > 0 {
				switch x := r.Intn(100); {
				case x < 58:
					b.WriteString(r.Pick(vfC01SepsDotAllStar))
					sepNL = true
				case x < 78:
					b.WriteString(r.Pick(vfC01SepsNL))
					sepNL = true
				default:
					b.WriteString(r.Pick(vfC01SepsSL))
				}
			}
			l := stdregexp.QuoteMeta(ls[k])
			switch r.Intn(12) {
			case 0:
				l = "(?i:" + l + ")"
			case 1:
				l = "(" + l + ")"
			case 2:
				if k == 0 {
					l = "(?m:^" + l + ")"
				} else if k == len(idx)-1 {
					l = "(?m:" + l + "$)"
				}
			}
			b.WriteString(l)
		}
		src := b.String()
		switch r.Intn(14) {
		case 0:
			src = "(?s)" + src // now every . of the separators is dot-all
			sepNL = true
		case 1:
			src = "(?s:" + src + ")"
			sepNL = true
		case 2:
			src = "(?i)" + src
		case 3:
			src = "(?U)" + src
		case 4:
			src = "(?m)" + src
		case 5:
			src = "(" + src + ")"
		}
		sc := "re-sep-sl"
		if sepNL {
			sc = "re-sep-nl"
		}
		out := []string{sc, cls}
		// the interesting class: the regexp matches the document although its literals never share a line
		hit := false
		if re, err := stdregexp.Compile("(?m)" + src); err == nil && !shared && re.MatchString(content) {
			hit = true
			out = append(out, "re-cross-hit")
		}
		if !hit && try < 10 && r.Chance(70) {
			continue
		}
		return src, out
	}
	return "", nil
}

// vfC01Opt: the query parser hands regexps through query.OptimizeRegexp (captures removed, Simplify: counted repetitions expanded);
// the gRPC path (query.RegexpFromProto) parses only - OpCapture, OpRepeat, OpQuest reach regexpToMatchTreeRecursive as written. 30 % of
// the generated regexps take the second path.
func vfC01Opt(r *vfRand, re *syntax.Regexp) *syntax.Regexp {
	if r.Chance(30) {
		return re
	}
	return query.OptimizeRegexp(re, syntax.ClassNL|syntax.PerlX|syntax.UnicodeGroups)
}

func (e *vfC01Env) regexSrc(r *vfRand) string {
	if r.Chance(32) {
		if s := e.sameLineSrc(r); s != "" {
			return s
		}
	}
	if r.Chance(22) {
		if s, cls := e.crossLineSrc(r); s != "" {
			e.xcls = append(e.xcls, cls...)
			return s
		}
	}
	L := func() string {
		p := e.pat(r)
		for strings.Contains(p, "\n") && r.Chance(70) {
			p = e.pat(r)
		}
		return stdregexp.QuoteMeta(p)
	}
	switch r.Intn(18) {
	case 0:
		return L() + ".*" + L()
	case 1:
		return L() + ".*" + L() + ".*" + L()
	case 2:
		return "(" + L() + "|" + L() + ")"
	case 3:
		return "(" + L() + ")+"
	case 4:
		return "(" + L() + ")" + r.Pick([]string{"{2,}", "{2,}", "{1,}", "{1,3}", "{2,3}", "{2}", "{0,2}", "{3,}"})
	case 5, 6, 7:
		return `\b` + L() + `\b`
	case 8:
		return L() + `\n` + L()
	case 9:
		return "[ab]" + L()
	case 10:
		return L() + "." + L()
	case 11:
		return "^" + L()
	case 12:
		return L() + "$"
	case 13:
		return "(?i:" + L() + ")"
	case 14:
		return `\b(?i:` + L() + `)\b`
	case 15:
		return "(" + L() + ")(" + L() + ")"
	case 16:
		return L() + `\s+` + L()
	default:
		return "(" + L() + ".*" + L() + "|" + L() + ")"
	}
}

// symPat: patterns relative to symbol sections: inside one, the whole of one, straddling a section boundary, just outside.
func (e *vfC01Env) symPat(r *vfRand) string {
	var cand []int
	for k, dd := range e.docs {
		if len(dd.secs) > 0 {
			cand = append(cand, k)
		}
	}
	if len(cand) == 0 || r.Chance(15) {
		return e.pat(r)
	}
	dd := e.docs[cand[r.Intn(len(cand))]]
	rs := []rune(dd.content)
	sec := dd.secs[r.Intn(len(dd.secs))]
	if r.Chance(30) { // a pattern that starts exactly where an adjacent previous section ends (the walk must move on to this section)
		for _, k := range cand {
			d2 := e.docs[k]
			for i := 1; i < len(d2.secs); i++ {
				if d2.secs[i-1][1] == d2.secs[i][0] && d2.secs[i][1]-d2.secs[i][0] >= 3 {
					r2 := []rune(d2.content)
					n := 3 + r.Intn(d2.secs[i][1]-d2.secs[i][0]-2)
					return string(r2[d2.secs[i][0] : d2.secs[i][0]+n])
				}
			}
		}
	}
	clamp := func(a, b int) string {
		if a < 0 {
			a = 0
		}
		if b > len(rs) {
			b = len(rs)
		}
		if a >= b {
			return e.pat(r)
		}
		return string(rs[a:b])
	}
	switch r.Intn(8) {
	case 0, 1:
		return clamp(sec[0], sec[1]) // the whole section
	case 2:
		return vfC01Sub(r, clamp(sec[0], sec[1]))
	case 3:
		return clamp(sec[0]-1, sec[1]) // one rune before the start
	case 4:
		return clamp(sec[0], sec[1]+1) // one rune past the end
	case 5:
		return clamp(sec[1]-2, sec[1]+2) // straddles the end (possibly into an adjacent section)
	case 6:
		return clamp(sec[0]-2, sec[0]+2) // straddles the start
	default:
		return clamp(sec[1], sec[1]+3) // right behind the section
	}
}

func (e *vfC01Env) symAtom(r *vfRand) query.Q {
	if r.Chance(55) {
		s := &query.Substring{Pattern: e.symPat(r), CaseSensitive: r.Chance(50), Content: r.Chance(50)}
		if s.Pattern == "" {
			s.Pattern = "a"
		}
		return &query.Symbol{Expr: s}
	}
	L := func() string { return stdregexp.QuoteMeta(e.symPat(r)) }
	var src string
	switch r.Intn(12) {
	case 0, 1:
		src = L()
	case 2:
		src = "(" + L() + "|" + L() + ")"
	case 3:
		src = L() + ".*" + L()
	case 4:
		src = "^" + L() + "$"
	case 5:
		src = "(?i:" + L() + ")"
	case 6:
		src = ".*"
	case 7:
		src = "(" + L() + ")+"
	case 8:
		src = `` + L() + ``
	case 9:
		src = L() + "|" + L() + "|" + L()
	case 10:
		src = "[ab]" + L()
	default:
		src = e.regexSrc(r)
	}
	re, err := syntax.Parse(src, syntax.ClassNL|syntax.PerlX|syntax.UnicodeGroups)
	if err != nil {
		return &query.Const{Value: true}
	}
	re = vfC01Opt(r, re)
	if re.Op == syntax.OpEmptyMatch {
		return &query.Const{Value: true}
	}
	q := &query.Regexp{Regexp: re, CaseSensitive: r.Chance(60), Content: r.Chance(50)}
	e.rsrc[q] = src
	return &query.Symbol{Expr: q}
}

// focus: membership of repository i in a repo-level filter. Usually a coin flip; when the shard has tombstoned repositories, half
// of the time the filter takes every tombstoned repository plus as many alive ones as make (matching incl. tombstoned) = (alive) -
// the coincidence at which simplifyMultiRepo's counting matters (a filter must not fold to TRUE because tombstoned repositories match).
func (e *vfC01Env) focus(r *vfRand, i int) bool {
	d := e.d
	if e.focusSet == nil || len(e.focusSet) != len(d.repoMetaData) || i == 0 {
		e.focusSet = make([]bool, len(d.repoMetaData))
		var alive, dead []int
		for j := range d.repoMetaData {
			if d.repoMetaData[j].Tombstone {
				dead = append(dead, j)
			} else {
				alive = append(alive, j)
			}
		}
		if len(dead) > 0 && len(alive) > len(dead) && r.Chance(70) {
			for _, j := range dead {
				e.focusSet[j] = true
			}
			off := r.Intn(len(alive)) // alive ones, chosen from a random rotation
			for k := 0; k < len(alive)-len(dead); k++ {
				e.focusSet[alive[(k+off)%len(alive)]] = true
			}
		} else {
			for j := range e.focusSet {
				e.focusSet[j] = r.Chance(50)
			}
		}
	}
	return e.focusSet[i]
}

func (e *vfC01Env) atom(r *vfRand) query.Q {
	d := e.d
	if r.Chance(14) {
		return e.symAtom(r)
	}
	if r.Chance(16) { // shards with tombstoned repositories: repository-level filters (mostly at the coincidence "matching incl. tombstoned = alive", see focus)
		hasDead := false
		for j := range d.repoMetaData {
			hasDead = hasDead || d.repoMetaData[j].Tombstone
		}
		if hasDead {
			if r.Chance(50) {
				set := map[string]bool{}
				for i, md := range d.repoMetaData {
					if e.focus(r, i) {
						set[md.Name] = true
					}
				}
				return &query.RepoSet{Set: set}
			}
			var ids []uint32
			for i, md := range d.repoMetaData {
				if e.focus(r, i) {
					ids = append(ids, md.ID)
				}
			}
			return query.NewRepoIDs(ids...)
		}
	}
	if r.Chance(6) { // counted repetitions of a literal as the gRPC path delivers them (parsed, not simplified): OpRepeat with Min 1, 2, 3
		p := e.pat(r)
		for k := 0; k < 4 && (len([]rune(p)) < 3 || strings.Contains(p, "\n")); k++ {
			p = e.pat(r)
		}
		src := "(" + stdregexp.QuoteMeta(p) + ")" + r.Pick([]string{"{2,}", "{2,}", "{2}", "{2,3}", "{1,2}", "{1,}", "{3,}"})
		if r.Chance(25) {
			src = stdregexp.QuoteMeta(e.pat(r)) + ".*" + src
		}
		if re, err := syntax.Parse(src, syntax.ClassNL|syntax.PerlX|syntax.UnicodeGroups); err == nil {
			q := &query.Regexp{Regexp: re, CaseSensitive: r.Chance(60)}
			switch r.Intn(3) {
			case 0:
				q.FileName = true
			case 1:
				q.Content = true
			}
			e.rsrc[q] = src
			e.xcls = append(e.xcls, "re-repeat-raw")
			return q
		}
	}
	if r.Chance(18) { // content regexps lit SEP lit with newline-capable / same-line separators, literals on the same / adjacent / distant lines
		if src, cls := e.crossLineSrc(r); src != "" {
			if re, err := syntax.Parse(src, syntax.ClassNL|syntax.PerlX|syntax.UnicodeGroups); err == nil {
				re = vfC01Opt(r, re)
				if re.Op != syntax.OpEmptyMatch {
					q := &query.Regexp{Regexp: re, CaseSensitive: r.Chance(60), Content: true}
					if r.Chance(12) {
						q.Content = false // file name or content
					}
					e.rsrc[q] = src
					e.xcls = append(e.xcls, cls...)
					return q
				}
			}
		}
	}
	if r.Chance(12) { // content regexps of the same-line shape lit.*lit(.*lit): andLineMatchTree
		if src := e.sameLineSrc(r); src != "" {
			if re, err := syntax.Parse(src, syntax.ClassNL|syntax.PerlX|syntax.UnicodeGroups); err == nil {
				re = vfC01Opt(r, re)
				q := &query.Regexp{Regexp: re, CaseSensitive: r.Chance(60), Content: true}
				e.rsrc[q] = src
				return q
			}
		}
	}
	switch r.Intn(26) {
	case 0, 1, 2, 3, 4, 5, 6:
		s := &query.Substring{Pattern: e.pat(r), CaseSensitive: r.Chance(50)}
		switch r.Intn(3) {
		case 0:
			s.FileName = true
		case 1:
			s.Content = true
		}
		return s
	case 7, 8, 9, 10, 11:
		src := e.regexSrc(r)
		re, err := syntax.Parse(src, syntax.ClassNL|syntax.PerlX|syntax.UnicodeGroups)
		if err != nil {
			return &query.Const{Value: true}
		}
		re = vfC01Opt(r, re)
		if re.Op == syntax.OpEmptyMatch {
			return &query.Const{Value: true}
		}
		q := &query.Regexp{Regexp: re, CaseSensitive: r.Chance(60)}
		switch r.Intn(3) {
		case 0:
			q.FileName = true
		case 1:
			q.Content = true
		}
		e.rsrc[q] = src
		return q
	case 12:
		return &query.Const{Value: r.Chance(50)}
	case 13:
		names := []string{"main", "HEAD", "dev", "release/1", "mainline", "ma", "e", "zzz"}
		return &query.Branch{Pattern: r.Pick(names), Exact: r.Chance(40)}
	case 14:
		src := r.Pick([]string{"repo", "a", "other", "^repo/b", "foo", "1$", "zzz"})
		re := regexp.MustCompile(src)
		e.rsrc2[re] = src
		if r.Chance(50) {
			return &query.Repo{Regexp: re}
		}
		return &query.RepoRegexp{Regexp: re}
	case 15, 24:
		set := map[string]bool{}
		for i, md := range d.repoMetaData {
			if e.focus(r, i) {
				set[md.Name] = true
			}
		}
		if r.Chance(30) {
			set["nope"] = true
		}
		return &query.RepoSet{Set: set}
	case 16, 25:
		var ids []uint32
		for i, md := range d.repoMetaData {
			if e.focus(r, i) {
				ids = append(ids, md.ID)
			}
		}
		if r.Chance(30) {
			ids = append(ids, 999)
		}
		return query.NewRepoIDs(ids...)
	case 17:
		return query.RawConfig(r.Pick([]string{"1", "2", "4", "8", "16", "32", "5", "10", "40", "3"})[0]-'0') | query.RawConfig(r.Intn(2)*8*r.Intn(2))
	case 18:
		bq := &query.BranchesRepos{}
		n := 1 + r.Intn(2)
		for i := 0; i < n; i++ {
			var ids []uint32
			for _, md := range d.repoMetaData {
				if r.Chance(60) {
					ids = append(ids, md.ID)
				}
			}
			br := r.Pick([]string{"main", "HEAD", "dev", "release/1", "mainline", "zzz"})
			bq.List = append(bq.List, query.NewSingleBranchesRepos(br, ids...).List...)
		}
		return bq
	case 19:
		return &query.Language{Language: r.Pick([]string{"Go", "C", "Python", "", "Rust"})}
	case 20:
		set := map[string]struct{}{}
		for _, dd := range e.docs {
			if r.Chance(30) {
				set[dd.name] = struct{}{}
			}
		}
		if r.Chance(30) {
			set["nope"] = struct{}{}
		}
		return &query.FileNameSet{Set: set}
	case 21:
		src := r.Pick([]string{"yes", "^yes$", "no", "please", "zzz", ""})
		re := regexp.MustCompile(src)
		e.rsrc2[re] = src
		return &query.Meta{Field: r.Pick([]string{"k", "k", "missing"}), Value: re}
	default:
		return &query.Substring{Pattern: e.pat(r), CaseSensitive: r.Chance(50), Content: true}
	}
}

func (e *vfC01Env) gen(r *vfRand, depth int) query.Q {
	if depth <= 0 || r.Chance(35) {
		return e.atom(r)
	}
	switch r.Intn(10) {
	case 0, 1, 2:
		n := r.Intn(4)
		var ch []query.Q
		for i := 0; i < n; i++ {
			ch = append(ch, e.gen(r, depth-1))
		}
		return &query.And{Children: ch}
	case 3, 4, 5:
		n := r.Intn(4)
		var ch []query.Q
		for i := 0; i < n; i++ {
			ch = append(ch, e.gen(r, depth-1))
		}
		return &query.Or{Children: ch}
	case 6, 7:
		return &query.Not{Child: e.gen(r, depth-1)}
	case 8:
		return &query.Type{Type: uint8(r.Pick([]string{"\x00", "\x01", "\x01", "\x02"})[0]), Child: e.gen(r, depth-1)}
	default:
		return &query.Boost{Boost: 2, Child: e.gen(r, depth-1)}
	}
}

// ---------------------------------------------------------------- independent evaluator (the property oracle)

func vfLowerRunes(s string) []rune {
	rs := []rune(s)
	for i := range rs {
		rs[i] = unicode.ToLower(rs[i])
	}
	return rs
}

func vfRunesContain(t, p []rune) bool {
	for o := 0; o+len(p) <= len(t); o++ {
		ok := true
		for i := range p {
			if t[o+i] != p[i] {
				ok = false
				break
			}
		}
		if ok {
			return true
		}
	}
	return false
}

func vfC01Contains(text, pat string, cs bool) bool {
	if cs {
		return strings.Contains(text, pat)
	}
	return vfRunesContain(vfLowerRunes(text), vfLowerRunes(pat))
}

func (e *vfC01Env) stdRe(q *query.Regexp) *stdregexp.Regexp {
	src := "(?m)" + e.rsrc[q]
	if !q.CaseSensitive {
		src = "(?i)" + src
	}
	return stdregexp.MustCompile(src)
}

func (e *vfC01Env) eval(q query.Q, k int) bool {
	d := e.d
	doc := e.docs[k]
	md := &d.repoMetaData[doc.repo]
	switch s := q.(type) {
	case *query.Substring:
		inName := vfC01Contains(doc.name, s.Pattern, s.CaseSensitive)
		inContent := vfC01Contains(doc.content, s.Pattern, s.CaseSensitive)
		if s.FileName == s.Content {
			return inName || inContent
		}
		if s.FileName {
			return inName
		}
		return inContent
	case *query.Regexp:
		re := e.stdRe(s)
		if s.FileName == s.Content {
			return re.MatchString(doc.name) || re.MatchString(doc.content)
		}
		if s.FileName {
			return re.MatchString(doc.name)
		}
		return re.MatchString(doc.content)
	case *query.And:
		for _, c := range s.Children {
			if !e.eval(c, k) {
				return false
			}
		}
		return true
	case *query.Or:
		for _, c := range s.Children {
			if e.eval(c, k) {
				return true
			}
		}
		return false
	case *query.Not:
		return !e.eval(s.Child, k)
	case *query.Const:
		return s.Value
	case *query.Type:
		return e.eval(s.Child, k)
	case *query.Boost:
		return e.eval(s.Child, k)
	case *query.Branch:
		if s.Pattern == "HEAD" {
			return doc.mask&1 != 0
		}
		for j, br := range md.Branches {
			if doc.mask&(1<<uint(j)) == 0 {
				continue
			}
			if (s.Exact && br.Name == s.Pattern) || (!s.Exact && strings.Contains(br.Name, s.Pattern)) {
				return true
			}
		}
		return false
	case *query.Repo:
		return stdregexp.MustCompile(e.rsrc2[s.Regexp]).MatchString(md.Name)
	case *query.RepoRegexp:
		return stdregexp.MustCompile(e.rsrc2[s.Regexp]).MatchString(md.Name)
	case *query.RepoSet:
		return s.Set[md.Name]
	case *query.RepoIDs:
		return s.Repos.Contains(md.ID)
	case query.RawConfig:
		want := func(flag string) bool { return md.RawConfig[flag] == "1" }
		ok := true
		if s&query.RcOnlyPublic != 0 {
			ok = ok && want("public")
		}
		if s&query.RcOnlyPrivate != 0 {
			ok = ok && !want("public")
		}
		if s&query.RcOnlyForks != 0 {
			ok = ok && want("fork")
		}
		if s&query.RcNoForks != 0 {
			ok = ok && !want("fork")
		}
		if s&query.RcOnlyArchived != 0 {
			ok = ok && want("archived")
		}
		if s&query.RcNoArchived != 0 {
			ok = ok && !want("archived")
		}
		return ok
	case *query.BranchesRepos:
		for _, br := range s.List {
			if !br.Repos.Contains(md.ID) {
				continue
			}
			for j, b := range md.Branches {
				if b.Name == br.Branch && doc.mask&(1<<uint(j)) != 0 {
					return true
				}
			}
		}
		return false
	case *query.Language:
		code, ok := d.metaData.LanguageMap[s.Language]
		return ok && code == doc.lang
	case *query.FileNameSet:
		_, ok := s.Set[doc.name]
		return ok
	case *query.Meta:
		v, ok := md.Metadata[s.Field]
		return ok && stdregexp.MustCompile(e.rsrc2[s.Value]).MatchString(v)
	case *query.Symbol:
		// reference semantics: the expression matches the text of one symbol section (taken on its own)
		for _, sec := range doc.bsecs {
			text := doc.content[sec[0]:sec[1]]
			switch x := s.Expr.(type) {
			case *query.Substring:
				if vfC01Contains(text, x.Pattern, x.CaseSensitive) {
					return true
				}
			case *query.Regexp:
				if e.stdRe(x).MatchString(text) {
					return true
				}
			default:
				panic(fmt.Sprintf("oracle: unknown symbol expression %T", s.Expr))
			}
		}
		return false
	}
	panic(fmt.Sprintf("oracle: unknown query %T", q))
}

func (e *vfC01Env) live(k int) bool {
	md := &e.d.repoMetaData[e.docs[k].repo]
	if md.Tombstone {
		return false
	}
	_, dead := md.FileTombstones[e.docs[k].name]
	return !dead
}

// ---------------------------------------------------------------- Coq serialisation

// cRunes ships a text as a Coq string literal (UTF-8 bytes; the runner decodes it to runes). Parsing numerals is slow.
func cRunes(s string) string {
	if s == "" {
		return "(@nil N)"
	}
	return `(R "` + strings.ReplaceAll(s, `"`, `""`) + `"%string)`
}

func cListOr(xs []string, typ string) string {
	if len(xs) == 0 {
		return "(@nil (" + typ + "))"
	}
	return cList(xs)
}

func vfC01Rx(re *syntax.Regexp) string {
	subs := func() string {
		var xs []string
		for _, s := range re.Sub {
			xs = append(xs, vfC01Rx(s))
		}
		return cListOr(xs, "rx")
	}
	switch re.Op {
	case syntax.OpLiteral:
		return cApp("RLit", cRunes(string(re.Rune)), cBool(re.Flags&syntax.FoldCase != 0))
	case syntax.OpCapture:
		return cApp("RCapture", vfC01Rx(re.Sub[0]))
	case syntax.OpPlus:
		return cApp("RPlus", vfC01Rx(re.Sub[0]))
	case syntax.OpRepeat:
		return cApp("RRepeat", cNat(re.Min), vfC01Rx(re.Sub[0]))
	case syntax.OpConcat:
		return cApp("RConcat", subs())
	case syntax.OpAlternate:
		return cApp("RAlt", subs())
	case syntax.OpStar:
		if re.Sub[0].Op == syntax.OpAnyCharNotNL {
			return "RStarAnyNotNL"
		}
	case syntax.OpWordBoundary:
		return "RWordB"
	}
	return "ROther"
}

type vfC01Ser struct {
	e        *vfC01Env
	retbl    []string
	symtbl   []string // per symbol regexp atom: (id, per document the reference engine's verdict on the text of each section)
	nextID   uint64
	runes    map[rune]bool
	diverges bool // the engine used by the implementation (grafana/regexp) and the reference engine (stdlib) disagree on a text of this case
}

// vfC01ImplRe compiles a pattern the way newRegexpMatchTree does.
func vfC01ImplRe(re *syntax.Regexp, cs bool) *regexp.Regexp {
	prefix := ""
	if !cs {
		prefix = "(?i)"
	}
	return regexp.MustCompile(prefix + syntaxutil.RegexpString(re))
}

// shortLit: literals of fewer than 3 runes are searched with the regexp engine (newSubstringMatchTree); the model scans.
func (s *vfC01Ser) shortLit(lit string, cs bool) {
	if len([]rune(lit)) >= 3 || lit == "" {
		return
	}
	impl := vfC01ImplRe(&syntax.Regexp{Op: syntax.OpLiteral, Rune: []rune(lit)}, cs)
	for _, dd := range s.e.docs {
		texts := []string{dd.name, dd.content}
		for _, sec := range dd.bsecs {
			texts = append(texts, dd.content[sec[0]:sec[1]])
		}
		for _, text := range texts {
			if impl.MatchString(text) != vfC01Contains(text, lit, cs) {
				s.diverges = true
			}
		}
	}
}

func (s *vfC01Ser) note(str string) {
	for _, r := range str {
		s.runes[r] = true
	}
}

func (s *vfC01Ser) q(q query.Q) string {
	e := s.e
	d := e.d
	kids := func(ch []query.Q) string {
		var xs []string
		for _, c := range ch {
			xs = append(xs, s.q(c))
		}
		return cListOr(xs, "Q")
	}
	repoTbl := func(pred func(md *zoekt.Repository) bool) string {
		var xs []string
		for i := range d.repoMetaData {
			xs = append(xs, cBool(pred(&d.repoMetaData[i])))
		}
		return cApp("QRepoTbl", cListOr(xs, "bool"))
	}
	switch t := q.(type) {
	case *query.Substring:
		s.note(t.Pattern)
		s.shortLit(t.Pattern, t.CaseSensitive)
		return cApp("QSubstr", cRunes(t.Pattern), cBool(t.CaseSensitive), cBool(t.FileName), cBool(t.Content))
	case *query.Regexp:
		id := s.nextID
		s.nextID++
		re := e.stdRe(t)
		impl := vfC01ImplRe(t.Regexp, t.CaseSensitive)
		var rows []string
		for _, dd := range e.docs {
			rows = append(rows, cPair(cBool(re.MatchString(dd.name)), cBool(re.MatchString(dd.content))))
			if impl.MatchString(dd.name) != re.MatchString(dd.name) || impl.MatchString(dd.content) != re.MatchString(dd.content) {
				s.diverges = true
			}
		}
		s.retbl = append(s.retbl, cPair(cN(id), cListOr(rows, "bool * bool")))
		var walk func(r *syntax.Regexp)
		walk = func(r *syntax.Regexp) {
			if r.Op == syntax.OpLiteral {
				s.note(string(r.Rune))
				s.shortLit(string(r.Rune), t.CaseSensitive && r.Flags&syntax.FoldCase == 0)
			}
			for _, x := range r.Sub {
				walk(x)
			}
		}
		walk(t.Regexp)
		return cApp("QRegexp", cN(id), vfC01Rx(t.Regexp), cBool(t.Regexp.Flags&syntax.FoldCase != 0), cBool(t.CaseSensitive), cBool(t.FileName), cBool(t.Content))
	case *query.Symbol:
		switch x := t.Expr.(type) {
		case *query.Substring:
			s.note(x.Pattern)
			s.shortLit(x.Pattern, x.CaseSensitive)
			return cApp("QSymSubstr", cRunes(x.Pattern), cBool(x.CaseSensitive))
		case *query.Regexp:
			id := s.nextID
			s.nextID++
			re := e.stdRe(x)
			impl := vfC01ImplRe(x.Regexp, x.CaseSensitive)
			var rows, srows []string
			for _, dd := range e.docs {
				rows = append(rows, cPair(cBool(re.MatchString(dd.name)), cBool(re.MatchString(dd.content))))
				var vs []string
				for _, sec := range dd.bsecs {
					text := dd.content[sec[0]:sec[1]]
					vs = append(vs, cBool(re.MatchString(text)))
					if impl.MatchString(text) != re.MatchString(text) {
						s.diverges = true
					}
				}
				srows = append(srows, cListOr(vs, "bool"))
			}
			s.retbl = append(s.retbl, cPair(cN(id), cListOr(rows, "bool * bool")))
			s.symtbl = append(s.symtbl, cPair(cN(id), cListOr(srows, "list bool")))
			var walk func(r *syntax.Regexp)
			walk = func(r *syntax.Regexp) {
				if r.Op == syntax.OpLiteral {
					s.note(string(r.Rune))
					s.shortLit(string(r.Rune), x.CaseSensitive && r.Flags&syntax.FoldCase == 0)
				}
				for _, y := range r.Sub {
					walk(y)
				}
			}
			walk(x.Regexp)
			return cApp("QSymRegexp", cN(id), vfC01Rx(x.Regexp), cBool(x.Regexp.Flags&syntax.FoldCase != 0), cBool(x.CaseSensitive))
		}
		panic(fmt.Sprintf("serialise: unknown symbol expression %T", t.Expr))
	case *query.And:
		return cApp("QAnd", kids(t.Children))
	case *query.Or:
		return cApp("QOr", kids(t.Children))
	case *query.Not:
		return cApp("QNot", s.q(t.Child))
	case *query.Const:
		return cApp("QConst", cBool(t.Value))
	case *query.Type:
		if t.Type != query.TypeFileName {
			return cApp("QTypeOther", s.q(t.Child))
		}
		return cApp("QTypeFileName", s.q(t.Child))
	case *query.Boost:
		return cApp("QBoost", s.q(t.Child))
	case *query.Branch:
		return cApp("QBranch", cRunes(t.Pattern), cBool(t.Exact))
	case *query.Repo:
		re := stdregexp.MustCompile(e.rsrc2[t.Regexp])
		return repoTbl(func(md *zoekt.Repository) bool { return re.MatchString(md.Name) })
	case *query.RepoRegexp:
		re := stdregexp.MustCompile(e.rsrc2[t.Regexp])
		return repoTbl(func(md *zoekt.Repository) bool { return re.MatchString(md.Name) })
	case *query.Meta:
		re := stdregexp.MustCompile(e.rsrc2[t.Value])
		return repoTbl(func(md *zoekt.Repository) bool {
			v, ok := md.Metadata[t.Field]
			return ok && re.MatchString(v)
		})
	case *query.RepoSet:
		var xs []string
		for _, k := range vfSortedKeys(t.Set) {
			if t.Set[k] {
				xs = append(xs, cRunes(k))
			}
		}
		return cApp("QRepoSet", cListOr(xs, "list N"))
	case *query.RepoIDs:
		var ids []uint64
		for _, id := range t.Repos.ToArray() {
			ids = append(ids, uint64(id))
		}
		return cApp("QRepoIDs", cNList(ids))
	case query.RawConfig:
		return cApp("QRawConfig", cN(uint64(t)))
	case *query.BranchesRepos:
		var xs []string
		for _, br := range t.List {
			var ids []uint64
			for _, id := range br.Repos.ToArray() {
				ids = append(ids, uint64(id))
			}
			xs = append(xs, cPair(cRunes(br.Branch), cNList(ids)))
		}
		return cApp("QBranchesRepos", cListOr(xs, "list N * list N"))
	case *query.Language:
		return cApp("QLang", cRunes(t.Language))
	case *query.FileNameSet:
		var xs []string
		for _, k := range vfSortedKeys(t.Set) {
			xs = append(xs, cRunes(k))
		}
		return cApp("QFileNameSet", cListOr(xs, "list N"))
	}
	panic(fmt.Sprintf("serialise: unknown query %T", q))
}

// vfC01Case renders the whole case; observed = (repo index, file name) rows in result order.
func vfC01CorpusCoq(s *vfC01Ser) (repos, docs, langs string) {
	d := s.e.d
	var rs []string
	for i := range d.repoMetaData {
		md := &d.repoMetaData[i]
		var ft, br []string
		for _, k := range vfSortedKeys(md.FileTombstones) {
			ft = append(ft, cRunes(k))
		}
		for _, b := range md.Branches {
			br = append(br, cRunes(b.Name))
		}
		rs = append(rs, cTuple(cRunes(md.Name), cN(uint64(md.ID)), cBool(md.Tombstone), cListOr(ft, "list N"), cListOr(br, "list N"),
			cN(uint64(d.rawConfigMasks[i]))))
	}
	var ds []string
	for _, dd := range s.e.docs {
		s.note(dd.name)
		s.note(dd.content)
		var secs []string
		for _, sec := range dd.secs {
			secs = append(secs, cPair(cNat(sec[0]), cNat(sec[1])))
		}
		ds = append(ds, cTuple(cRunes(dd.name), cRunes(dd.content), cN(dd.mask), cNat(dd.repo), cN(uint64(dd.lang)), cListOr(secs, "nat * nat")))
	}
	var ls []string
	for _, k := range vfSortedKeys(d.metaData.LanguageMap) {
		ls = append(ls, cPair(cRunes(k), cN(uint64(d.metaData.LanguageMap[k]))))
	}
	return cListOr(rs, "repo_row"), cListOr(ds, "sdoc_row"), cListOr(ls, "list N * N")
}

func (s *vfC01Ser) folds() string {
	var rs []rune
	for r := range s.runes {
		rs = append(rs, r)
	}
	sort.Slice(rs, func(i, j int) bool { return rs[i] < rs[j] })
	var xs []string
	for _, r := range rs {
		orbit := []uint64{uint64(r)}
		for x := unicode.SimpleFold(r); x != r; x = unicode.SimpleFold(x) {
			orbit = append(orbit, uint64(x))
		}
		if len(orbit) == 1 && unicode.ToLower(r) == r {
			continue
		}
		xs = append(xs, cTuple(cN(uint64(r)), cN(uint64(unicode.ToLower(r))), cNList(orbit)))
	}
	return cListOr(xs, "N * N * list N")
}

func vfC01Rows(d *indexData, docs []vfC01Doc, files []zoekt.FileMatch) ([]string, []string) {
	repoIdx := map[string]int{}
	for i := range d.repoMetaData {
		repoIdx[d.repoMetaData[i].Name] = i
	}
	var rows, plain []string
	for _, f := range files {
		rows = append(rows, cPair(cNat(repoIdx[f.Repository]), cRunes(f.FileName)))
		plain = append(plain, f.Repository+":"+f.FileName)
	}
	return rows, plain
}

func vfC01QueryClasses(q query.Q, out map[string]bool) {
	switch t := q.(type) {
	case *query.And:
		out["and"] = true
		for _, c := range t.Children {
			vfC01QueryClasses(c, out)
		}
	case *query.Or:
		out["or"] = true
		for _, c := range t.Children {
			vfC01QueryClasses(c, out)
		}
	case *query.Not:
		out["not"] = true
		vfC01QueryClasses(t.Child, out)
	case *query.Type:
		out["type"] = true
		vfC01QueryClasses(t.Child, out)
	case *query.Boost:
		vfC01QueryClasses(t.Child, out)
	case *query.Substring:
		if t.CaseSensitive {
			out["substr-cs"] = true
		} else {
			out["substr-ci"] = true
		}
		if len([]rune(t.Pattern)) < 3 {
			out["substr-short"] = true
		}
	case *query.Regexp:
		out["regexp"] = true
	case *query.Symbol:
		if _, ok := t.Expr.(*query.Regexp); ok {
			out["symbol-regexp"] = true
		} else {
			out["symbol-substr"] = true
		}
	default:
		out[strings.TrimPrefix(fmt.Sprintf("%T", q), "*query.")] = true
	}
}

// vfC01Leaves: the trigram selection of every substring atom of the (unpruned) match tree built for q, in tree order:
// (leftPad, rightPad, distance, freq=0). Internal observable, read through the overlay.
func vfC01Leaves(d *indexData, q query.Q) string {
	sq := d.simplify(q)
	if c, ok := sq.(*query.Const); ok && !c.Value {
		return "None"
	}
	sq = query.Map(sq, query.ExpandFileContent)
	mt, err := d.newMatchTree(sq, matchTreeOpt{})
	if err != nil {
		return "None"
	}
	var ls []string
	// like visitMatchTree, but the trees wrapped by the symbol nodes are not visited (the model represents a symbol node by
	// its verdict per document, not by the trigram iterator it embeds)
	var visit func(t matchTree, f func(matchTree))
	visit = func(t matchTree, f func(matchTree)) {
		switch s := t.(type) {
		case *andMatchTree:
			for _, ch := range s.children {
				visit(ch, f)
			}
		case *orMatchTree:
			for _, ch := range s.children {
				visit(ch, f)
			}
		case *andLineMatchTree:
			visit(&s.andMatchTree, f)
		case *noVisitMatchTree:
			visit(s.matchTree, f)
		case *notMatchTree:
			visit(s.child, f)
		case *fileNameMatchTree:
			visit(s.child, f)
		case *boostMatchTree:
			visit(s.child, f)
		case *symbolSubstrMatchTree, *symbolRegexpMatchTree:
		default:
			f(t)
		}
	}
	visit(mt, func(m matchTree) {
		st, ok := m.(*substrMatchTree)
		if !ok {
			return
		}
		res, ok := st.matchIterator.(*ngramIterationResults)
		if !ok {
			return
		}
		switch it := res.matchIterator.(type) {
		case *noMatchTree:
			ls = append(ls, cTuple(cNat(0), cNat(0), cNat(0), "true"))
		case *ngramDocIterator:
			dist := 0
			if di, ok := it.iter.(*distanceHitIterator); ok {
				dist = int(di.distance)
			}
			ls = append(ls, cTuple(cNat(int(it.leftPad)), cNat(int(it.rightPad)), cNat(dist), "false"))
		}
	})
	return cSome(cListOr(ls, "nat * nat * nat * bool"))
}

// vfC01SearchWatchdog runs the search in a goroutine so that a search that never returns becomes a finding with a replay.
func vfC01SearchWatchdog(d *indexData, q query.Q) (*zoekt.SearchResult, error, bool) {
	type out struct {
		res *zoekt.SearchResult
		err error
	}
	ch := make(chan out, 1)
	go func() {
		res, err := d.Search(context.Background(), q, &zoekt.SearchOptions{})
		ch <- out{res, err}
	}()
	select {
	case o := <-ch:
		return o.res, o.err, false
	case <-time.After(20 * time.Second):
		return nil, nil, true
	}
}

func TestVerifC01(t *testing.T) {
	r := vfNewRand(vfNewRand(vfSeed()).U64()) // the shared splitmix64 seeding makes seed k+1 the stream of seed k shifted by ONE draw: hash the seed first
	n := vfN(300)
	for i := 0; i < n; i++ {
		c := vfC01GenCorpus(r)
		d := vfC01Build(t, c)
		docs := vfC01ReadBack(t, d)
		nq := 3
		for j := 0; j < nq && i < n; j++ {
			if j > 0 {
				i++
			}
			e := &vfC01Env{d: d, docs: docs, rsrc: map[*query.Regexp]string{}, rsrc2: map[*regexp.Regexp]string{}}
			q := e.gen(r, 1+r.Intn(4))
			ser := &vfC01Ser{e: e, runes: map[rune]bool{}}
			qc := ser.q(q)
			res, err, hung := vfC01SearchWatchdog(d, q)
			if hung {
				var dd []map[string]any
				for _, x := range docs {
					dd = append(dd, map[string]any{"name": x.name, "content": x.content, "mask": x.mask, "repo": x.repo, "lang": x.lang})
				}
				vfOracleFail("search:hang", "Search did not return within 20s on a tiny shard", map[string]any{"query": q.String(), "docs": dd})
				return // the search goroutine is still spinning; end the test (and the process) here
			}
			classes := map[string]bool{}
			vfC01QueryClasses(q, classes)
			for _, c := range e.xcls {
				classes[c] = true
			}
			if err != nil {
				var dd []map[string]any
				for _, x := range docs {
					dd = append(dd, map[string]any{"name": x.name, "content": x.content, "mask": x.mask, "repo": x.repo, "lang": x.lang, "symbol_sections_bytes": x.bsecs})
				}
				var rsrc []string
				for _, v := range e.rsrc {
					rsrc = append(rsrc, v)
				}
				errKind := "other"
				if strings.Contains(err.Error(), "inside query.Symbol") {
					errKind = "no-regexp-in-symbol-tree"
				}
				vfOracleFail("search:error:"+errKind+":"+strings.Join(vfSortedKeys(classes), ","), "Search returns an error instead of the matching documents: "+err.Error(),
					map[string]any{"case": fmt.Sprintf("%d/%d", i, j), "query": q.String(), "regexps": rsrc, "docs": dd})
				continue
			}
			rows, got := vfC01Rows(d, docs, res.Files)
			// ---- oracle: exactly the live documents on which the query holds, in document order
			var want []string
			for k := range docs {
				if e.live(k) && e.eval(q, k) {
					want = append(want, d.repoMetaData[docs[k].repo].Name+":"+docs[k].name)
				}
			}
			if strings.Join(got, "\x00") != strings.Join(want, "\x00") {
				var dd []map[string]any
				for _, x := range docs {
					dd = append(dd, map[string]any{"name": x.name, "content": x.content, "mask": x.mask, "repo": x.repo, "lang": x.lang, "symbol_sections_bytes": x.bsecs})
				}
				var rsrc []string
				for _, v := range e.rsrc {
					rsrc = append(rsrc, v)
				}
				kind := "omitted"
				if len(got) > len(want) {
					kind = "extra"
				}
				key := "search:" + kind + ":" + strings.Join(vfSortedKeys(classes), ",")
				if ser.diverges {
					key = "engine-divergence:grafana-regexp-vs-stdlib"
				}
				vfOracleFail(key, "Search does not return exactly the matching live documents", map[string]any{
					"case": fmt.Sprintf("%d/%d", i, j), "query": q.String(), "regexps": rsrc, "docs": dd, "repos": fmt.Sprint(d.repoMetaData), "got": got, "want": want})
			}
			if ser.diverges {
				// the model takes the reference engine's verdicts; a case on which the implementation's engine disagrees
				// with it is judged by the oracle only
				vfInfo(map[string]any{"engine_divergence": q.String()})
				continue
			}
			repos, dcs, langs := vfC01CorpusCoq(ser)
			coq := cTuple(repos, dcs, langs, ser.folds(), cListOr(ser.retbl, "N * list (bool * bool)"), qc, cListOr(rows, "nat * list N"), vfC01Leaves(d, q),
				cListOr(ser.symtbl, "N * list (list bool)"))
			vfCase(coq, vfKey(repos, dcs, qc), len(want) > 0 && len(want) < len(docs),
				append(vfSortedKeys(classes), fmt.Sprintf("repos=%d", len(d.repoMetaData)), fmt.Sprintf("hits=%d", min(len(want), 3))),
				map[string]any{"case": fmt.Sprintf("%d/%d", i, j), "query": q.String(), "docs": len(docs), "got": got, "want": want})
		}
	}
}
