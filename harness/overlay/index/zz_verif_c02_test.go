package index

// C02 correspondence + oracle: gatherMatches (sort + overlap filter), rune->byte offset translation
// (builder sampling, makeRuneOffsetMap, runeOffsetMap.lookup, contentProvider.findOffset) and the
// ranges reported by end-to-end Search for single-substring / single-regexp queries.
// Uses the helpers of zz_verif_c03_test.go (same overlay). Mapped into /repo/index by `go test -overlay`.

import (
	"bytes"
	"context"
	"fmt"
	"go/ast"
	"go/parser"
	"go/token"
	"regexp"
	"regexp/syntax"
	"sort"
	"strings"
	"testing"
	"unicode/utf8"

	"github.com/sourcegraph/zoekt"
	"github.com/sourcegraph/zoekt/query"
)

// TestVerifC02Consts is the "translator": it reports the constants the model depends on, taken from
// the source of the tree under test (compile-time constant + the window expression of findOffset).
func TestVerifC02Consts(t *testing.T) {
	if !vfC02Consts(t) {
		t.Fatal("cannot find the read window of findOffset (readContentSlice(byteOff, <constant window>))")
	}
}

// vfC02WindowBytes evaluates the constant byte window that findOffset hands to readContentSlice: integer literals,
// utf8.UTFMax, runeOffsetFrequency, constants declared anywhere in contentprovider.go (package level or local, e.g.
// `const sampleWindowBytes = 3 * runeOffsetFrequency`), variables defined once with `:=` from such an expression,
// + - * / and parentheses; of min(a, b, ...) the constant arguments count.
func vfC02WindowBytes() (int, bool) {
	fset := token.NewFileSet()
	f, err := parser.ParseFile(fset, "contentprovider.go", nil, 0)
	if err != nil {
		return 0, false
	}
	defs := map[string]ast.Expr{}
	ndefs := map[string]int{}
	ast.Inspect(f, func(n ast.Node) bool {
		switch d := n.(type) {
		case *ast.GenDecl:
			if d.Tok != token.CONST && d.Tok != token.VAR {
				return true
			}
			for _, sp := range d.Specs {
				vs, ok := sp.(*ast.ValueSpec)
				if !ok || len(vs.Names) != len(vs.Values) {
					continue
				}
				for i, nm := range vs.Names {
					defs[nm.Name] = vs.Values[i]
					ndefs[nm.Name]++
				}
			}
		case *ast.AssignStmt:
			if len(d.Lhs) == len(d.Rhs) {
				for i, l := range d.Lhs {
					if id, ok := l.(*ast.Ident); ok {
						if d.Tok == token.DEFINE {
							defs[id.Name] = d.Rhs[i]
						}
						ndefs[id.Name]++
					}
				}
			}
		}
		return true
	})
	var eval func(e ast.Expr, depth int) (int, bool)
	eval = func(e ast.Expr, depth int) (int, bool) {
		if depth > 20 {
			return 0, false
		}
		switch v := e.(type) {
		case *ast.BasicLit:
			var x int
			if v.Kind == token.INT {
				if _, err := fmt.Sscanf(v.Value, "%v", &x); err == nil {
					return x, true
				}
			}
		case *ast.ParenExpr:
			return eval(v.X, depth+1)
		case *ast.Ident:
			if v.Name == "runeOffsetFrequency" {
				return runeOffsetFrequency, true
			}
			if d, ok := defs[v.Name]; ok && ndefs[v.Name] == 1 {
				return eval(d, depth+1)
			}
		case *ast.SelectorExpr:
			if x, ok := v.X.(*ast.Ident); ok && x.Name == "utf8" && v.Sel.Name == "UTFMax" {
				return utf8.UTFMax, true
			}
		case *ast.CallExpr: // conversions uint32(...), int(...); min(...) of constants
			if id, ok := v.Fun.(*ast.Ident); ok && len(v.Args) == 1 && (strings.HasPrefix(id.Name, "uint") || strings.HasPrefix(id.Name, "int")) {
				return eval(v.Args[0], depth+1)
			}
			if id, ok := v.Fun.(*ast.Ident); ok && id.Name == "min" && len(v.Args) > 0 {
				best, any := 0, false
				for _, a := range v.Args {
					if x, ok := eval(a, depth+1); ok && (!any || x < best) {
						best, any = x, true
					}
				}
				return best, any
			}
		case *ast.BinaryExpr:
			x, ok1 := eval(v.X, depth+1)
			y, ok2 := eval(v.Y, depth+1)
			if ok1 && ok2 {
				switch v.Op {
				case token.MUL:
					return x * y, true
				case token.ADD:
					return x + y, true
				case token.SUB:
					return x - y, true
				case token.QUO:
					if y != 0 {
						return x / y, true
					}
				}
			}
		}
		return 0, false
	}
	window, found := 0, false
	ast.Inspect(f, func(n ast.Node) bool {
		fd, ok := n.(*ast.FuncDecl)
		if !ok || fd.Name.Name != "findOffset" || fd.Body == nil {
			return true
		}
		ast.Inspect(fd.Body, func(m ast.Node) bool {
			call, ok := m.(*ast.CallExpr)
			if !ok {
				return true
			}
			sel, ok := call.Fun.(*ast.SelectorExpr)
			if !ok || sel.Sel.Name != "readContentSlice" || len(call.Args) != 2 {
				return true
			}
			if x, ok := eval(call.Args[1], 0); ok && !found {
				window, found = x, true
			}
			return true
		})
		return false
	})
	return window, found
}

// vfC02Consts emits the translator record; false when the window could not be evaluated (the record then says so and the
// test goes on: the oracle still evaluates the property on the tree under test).
func vfC02Consts(t *testing.T) bool {
	w, ok := vfC02WindowBytes()
	var wordBytes []int // the table of bits.go characterClass (the word characters of wordMatchTree), by running it on every byte value
	for b := 0; b < 256; b++ {
		if characterClass(byte(b)) {
			wordBytes = append(wordBytes, b)
		}
	}
	if !ok {
		vfInfo(map[string]any{"consts_missing": true, "rune_offset_frequency": runeOffsetFrequency, "word_bytes": wordBytes})
		return false
	}
	vfInfo(map[string]any{"consts": true, "rune_offset_frequency": runeOffsetFrequency, "find_offset_window_factor": w / runeOffsetFrequency,
		"find_offset_window_bytes": w, "word_bytes": wordBytes})
	return true
}

func vfC02RuneText(r *vfRand, nrunes int) []byte {
	// runs of 1..4 byte runes; run lengths long enough to fill sampling windows with wide runes
	var b []byte
	pools := [][]rune{[]rune("abcxyz \n"), []rune("éßñ"), []rune("世界語"), []rune("😀𝔸🎉")}
	for n := 0; n < nrunes; {
		p := pools[r.Intn(4)]
		run := 1 + r.Intn(8)
		if r.Chance(15) {
			run = 60 + r.Intn(80)
		}
		for k := 0; k < run && n < nrunes; k++ {
			b = utf8.AppendRune(b, p[r.Intn(len(p))])
			n++
		}
	}
	return b
}

func vfC02BytesList(docs [][]byte) string {
	if len(docs) == 0 {
		return "[]"
	}
	var xs []string
	for _, d := range docs {
		xs = append(xs, cBytes(d))
	}
	return cList(xs)
}

func vfC02U32(xs []uint32) string {
	u := make([]uint64, len(xs))
	for i, x := range xs {
		u[i] = uint64(x)
	}
	return cNList(u)
}

// byte length of the first r runes of doc, decoding the document on its own (as the builder does)
func vfC02RuneBytes(doc []byte, r int) int {
	off := 0
	for ; r > 0 && off < len(doc); r-- {
		_, sz := utf8.DecodeRune(doc[off:])
		off += sz
	}
	return off
}

func TestVerifC02(t *testing.T) {
	vfC02Consts(t) // the "translator" record first: prop.py regenerates coq/Generated/RangesConsts.v from it (never fatal here)
	r := vfNewRand(vfSeed())
	n := vfN(60)
	ctxb := context.Background()
	vfC02FindCorners(t)
	vfC02SearchCorners(t)
	vfC02WordCorners(t)

	for it := 0; it < n; it++ {
		// ---------------- (A) gatherMatches on generated candidate sets
		for rep := 0; rep < 6; rep++ {
			nameLen := 1 + r.Intn(8)
			var subs, res, wds, syms []*candidateMatch
			var cs []vfCand
			k := r.Intn(9)
			for j := 0; j < k; j++ {
				c := vfCand{fn: r.Chance(20), off: uint32(r.Intn(14)), sz: uint32(r.Intn(6))}
				if r.Chance(20) && len(cs) > 0 {
					c.off = cs[r.Intn(len(cs))].off // equal offsets: the longer one must win
				}
				cs = append(cs, c)
			}
			for j, m := range vfC03ToCM(cs) {
				switch (j + rep) % 4 { // the four kinds of atoms gatherMatches collects candidates from
				case 0:
					subs = append(subs, m)
				case 1:
					res = append(res, m)
				case 2:
					wds = append(wds, m)
				default:
					syms = append(syms, m)
				}
			}
			t1 := &substrMatchTree{current: subs}
			t2 := &regexpMatchTree{found: res}
			t3 := &wordMatchTree{found: wds}
			t4 := &symbolRegexpMatchTree{found: syms}
			mt := &orMatchTree{children: []matchTree{t1, &andMatchTree{children: []matchTree{t3, t2}}, t4}}
			known := map[matchTree]bool{t1: true, t2: true, t3: true, t4: true, mt.children[1]: true}
			d := vfC02NameShard(t, nameLen)
			out := d.gatherMatches(0, mt, known)
			var oc []vfCand
			for _, m := range out {
				oc = append(oc, vfCand{m.fileName, m.byteOffset, m.byteMatchSz})
			}
			fail := func(what string) {
				vfOracleFail("gather:"+what, what, map[string]any{"cands": vfCandsStr(cs), "out": vfCandsStr(oc), "nameLen": nameLen})
			}
			if len(cs) == 0 {
				if len(oc) != 1 || !oc[0].fn || oc[0].off != 0 || int(oc[0].sz) != nameLen {
					fail("no candidates: the synthetic whole-file-name range is missing")
				}
			} else {
				for j, x := range oc {
					found := false
					for _, c := range cs {
						if c == x {
							found = true
						}
					}
					if !found {
						fail("a kept range is not a candidate")
					}
					for _, c := range cs { // sortByOffsetSlice: "prefer longer candidates if starting at same position" (C02_gather_prefers_longer)
						if c.fn == x.fn && c.off == x.off && c.sz > x.sz {
							fail("a kept range is not the longest candidate of its class starting at its offset")
						}
					}
					if j > 0 {
						p := oc[j-1]
						if p.fn == x.fn && p.off+p.sz > x.off {
							fail("kept ranges overlap or are out of order")
						}
						if !p.fn && x.fn {
							fail("file-name ranges must come first")
						}
					}
				}
				for _, c := range cs { // completeness: a dropped candidate overlaps a kept one that sorts before it
					kept, covered := false, false
					for _, x := range oc {
						if x == c {
							kept = true
						}
						if x.fn == c.fn && x.off <= c.off && c.off < x.off+x.sz {
							covered = true
						}
					}
					if !kept && !covered {
						fail("a candidate was dropped although it overlaps no kept range")
					}
				}
			}
			vfCase(cApp("G_gather", cN(uint64(nameLen)), vfCandsCoq(cs), vfCandsCoq(oc)), vfKey("gather:", nameLen, cs), len(oc) < len(cs) || len(cs) > 2,
				[]string{"G_gather", fmt.Sprint("dropped=", len(cs)-len(oc))}, map[string]any{"cands": vfCandsStr(cs), "out": vfCandsStr(oc)})
		}

		// ---------------- (A') breakMatchesOnNewlines: the pieces cover exactly the candidates' bytes minus newlines (C02_break_newlines)
		for rep := 0; rep < 3; rep++ {
			content := vfC03GenContent(r, r.Chance(20))
			if r.Chance(30) { // newline-heavy
				content = []byte(strings.NewReplacer(" ", "\n", "o", "\n").Replace(string(content)))
			}
			if len(content) == 0 {
				content = []byte("a\nb")
			}
			cs := vfC03GenCands(r, content, !r.Chance(20))
			for j := range cs { // longer candidates: more of them span several lines
				if r.Chance(40) {
					cs[j].sz += uint32(r.Intn(12))
					if int(cs[j].off+cs[j].sz) > len(content) {
						cs[j].sz = uint32(len(content)) - cs[j].off
					}
				}
			}
			var out []*candidateMatch
			p := vfC03Recover(func() { out = breakMatchesOnNewlines(vfC03ToCM(cs), content) })
			res := "None"
			multi := false
			if p {
				vfOracleFail("break:panic", "breakMatchesOnNewlines panicked on in-bounds candidates", map[string]any{"content": string(content), "cands": vfCandsStr(cs)})
			} else {
				var oc []vfCand
				want := make([]bool, len(content)+1)
				got := make([]bool, len(content)+1)
				for _, c := range cs {
					for q := c.off; q < c.off+c.sz; q++ {
						if content[q] != '\n' {
							want[q] = true
						} else {
							multi = true
						}
					}
				}
				bad := ""
				for _, m := range out {
					oc = append(oc, vfCand{m.fileName, m.byteOffset, m.byteMatchSz})
					if m.byteMatchSz == 0 || int(m.byteOffset+m.byteMatchSz) > len(content) {
						bad = "a piece is empty or out of bounds"
						continue
					}
					for q := m.byteOffset; q < m.byteOffset+m.byteMatchSz; q++ {
						if content[q] == '\n' {
							bad = "a piece contains a newline"
						}
						got[q] = true
					}
				}
				for q := range want {
					if want[q] != got[q] && bad == "" {
						bad = fmt.Sprintf("byte %d: in a candidate and not a newline = %v, in a piece = %v", q, want[q], got[q])
					}
				}
				if bad != "" {
					vfOracleFail("break:cover", "line mode: the pieces of breakMatchesOnNewlines do not cover exactly the candidates' bytes minus newline bytes: "+bad,
						map[string]any{"content": string(content), "cands": vfCandsStr(cs), "pieces": vfCandsStr(oc)})
				}
				res = cSome(vfCandsCoq(oc))
			}
			vfCase(cApp("G_brk", cBytes(content), vfCandsCoq(cs), res), vfKey("brk:", content, cs), multi, []string{"G_brk", fmt.Sprint("multiline=", multi)},
				map[string]any{"content": string(content), "cands": vfCandsStr(cs)})
		}

		// ---------------- (B) makeRuneOffsetMap / lookup on generated sampling tables
		{
			var offs []uint32
			cur := uint32(0)
			k := r.Intn(12)
			for j := 0; j < k; j++ {
				offs = append(offs, cur)
				switch r.Intn(4) {
				case 0, 1:
					cur += runeOffsetFrequency
				case 2:
					cur += runeOffsetFrequency + uint32(r.Intn(300))
				default:
					cur += uint32(r.Intn(4)+1) * runeOffsetFrequency
				}
			}
			if r.Chance(30) && len(offs) > 0 {
				offs[0] = uint32(r.Intn(3)) // corpus may not start at 0 expectation
			}
			m := makeRuneOffsetMap(offs)
			var ms []string
			for _, c := range m {
				ms = append(ms, cTuple(cN(uint64(c.runeOffset)), cN(uint64(c.byteOffset))))
			}
			mc := "[]"
			if len(ms) > 0 {
				mc = cList(ms)
			}
			vfCase(cApp("G_map", vfC02U32(offs), mc), vfKey("map:", offs), len(m) > 0, []string{"G_map", fmt.Sprint("corrections=", len(m))}, map[string]any{"offs": fmt.Sprint(offs)})
			for q := 0; q < 4 && len(offs) > 0; q++ {
				kk := r.Intn(len(offs))
				left := r.Intn(runeOffsetFrequency)
				if r.Chance(30) {
					left = 0
				}
				ro := uint32(kk*runeOffsetFrequency + left)
				bo, lf := m.lookup(ro)
				if bo != offs[kk] || int(lf) != left {
					vfOracleFail("lookup", "lookup(makeRuneOffsetMap(samples)) does not return the sample of the rune offset's window", map[string]any{"offs": fmt.Sprint(offs), "rune": ro, "got": []uint32{bo, lf}})
				}
				vfCase(cApp("G_lookup", mc, cN(uint64(ro)), cN(uint64(bo)), cN(uint64(lf))), vfKey("lookup:", offs, ro), len(m) > 0, []string{"G_lookup"}, map[string]any{"offs": fmt.Sprint(offs), "rune": ro})
			}
		}

		// ---------------- (C) findOffset on a shard of multi-byte documents + (D) end-to-end ranges
		var docs []Document
		var raw [][]byte
		nd := 1 + r.Intn(4)
		plainOnly := r.Chance(10)
		for j := 0; j < nd; j++ {
			var c []byte
			switch {
			case plainOnly:
				c = []byte(strings.Repeat("foo bar\n", r.Intn(20)))
			case r.Chance(50):
				c = vfC02RuneText(r, r.Intn(260))
			default:
				c = vfC03GenContent(r, false)
			}
			if r.Chance(40) {
				c = append(c, []byte(r.Pick([]string{"needle", " foo é needle\n", "Needle 😀 needle"}))...)
			}
			if !plainOnly && r.Chance(25) { // non-UTF-8 text (e.g. Latin-1): continuation bytes first, truncated lead byte last
				c = append([]byte(r.Pick([]string{"\xa9 ", "\x82\xac", "\x9f\x98\x80", "\xbf"})), c...)
			}
			if !plainOnly && r.Chance(25) {
				c = append(c, []byte(r.Pick([]string{"\xc9", "\xe2", "\xe2\x82", "\xf0\x9f", "\xf0\x9f\x98"}))...)
			}
			nm := fmt.Sprintf("%s%d", r.Pick([]string{"foo", "dir/bär", "世界/x", "n"}), j)
			if plainOnly {
				nm = fmt.Sprintf("f%d", j)
			}
			docs = append(docs, Document{Name: nm, Content: c})
			raw = append(raw, c)
		}
		s := vfC02FindCases(t, docs, func(filename bool, nr []int) [][2]int {
			var qs [][2]int
			for q := 0; q < 6; q++ {
				idx := r.Intn(len(nr))
				rr := r.Intn(nr[idx] + 1)
				if r.Chance(30) && nr[idx] > 0 { // shortly before / on multiples of the sampling frequency
					rr = (rr / runeOffsetFrequency) * runeOffsetFrequency
					if r.Chance(50) && rr > 0 {
						rr--
					}
				}
				qs = append(qs, [2]int{idx, rr})
			}
			return qs
		})

		// ---------------- (W) word-boundary regexps \bLIT\b (case-sensitive: wordMatchTree; case-insensitive: regexp engine)
		{
			lit := vfC02GenWordLit(r)
			vfC02WordCheck(t, lit, vfC02WordDocs(lit, r, 4), false, "random")
			if r.Chance(30) && !strings.ContainsAny(lit, "\n\x00") && utf8.ValidString(lit) {
				vfC02WordCheck(t, lit, vfC02WordDocs(lit, r, 3), true, "random")
			}
		}

		// ---------------- (D) end-to-end: ranges of single-substring and single-regexp queries
		byName := map[string][]byte{}
		for j := range docs {
			byName[docs[j].Name] = raw[j]
		}
		for qi := 0; qi < 4; qi++ {
			type qspec struct {
				q     query.Q
				desc  string
				sub   string // non-empty: single content substring
				cs    bool
				re    string   // non-empty: single regexp (source)
				reAlt bool     // the regexp is a plain alternation that zoekt may answer from substring atoms
				ors   []string // non-empty: or of content substrings
			}
			var qsp qspec
			if r.Chance(25) { // several substring atoms: or(p1, p2[, p3]) — overlap removal between atoms
				pool := []string{"foo", "foobar", "oba", "oo", "bar", "aa", "aaa", "needle", "edle n", "é", "世界", "fo", "o b", "arf", "x"}
				k := 2 + r.Intn(2)
				cs := r.Chance(50)
				var ch []query.Q
				var ps []string
				for len(ps) < k {
					p := r.Pick(pool)
					ps = append(ps, p)
					ch = append(ch, &query.Substring{Pattern: p, CaseSensitive: cs, Content: true})
				}
				qsp = qspec{q: &query.Or{Children: ch}, desc: fmt.Sprintf("or(%q,cs=%v)", ps, cs), ors: ps, cs: cs}
			} else if r.Chance(50) {
				p := r.Pick([]string{"foo", "o", "aa", "needle", "é", "世", "😀", "bar", "oo", "aaa", "fo", " "})
				cs := r.Chance(50)
				qsp = qspec{q: &query.Substring{Pattern: p, CaseSensitive: cs, Content: true}, desc: fmt.Sprintf("substr(%q,cs=%v)", p, cs), sub: p, cs: cs}
			} else {
				p := r.Pick([]string{"fo+", "o.b", "[a-z]+", "a+", "(?s)o.b", "\\s+", "o\\n", "ne+dle", "[é世]+", "x|aa", "aa|aaa", "fo|foo", "foo|oba", "b?ar",
					"\\n[a-zé世]+", "[a-z]*\\s?\\n+[a-zA-Z]+", "(?s)r.{1,6}f", "\\s+[a-z]", // these four: matches with text AFTER a newline
					"\\bfoo\\b", "\\bNeedle\\b", "\\bo\\b", "\\bN\\w+"}) // word boundaries through query.Parse (smart case: \bNeedle\b takes the word fast path)
				q, err := query.Parse("content:" + p)
				if err != nil {
					t.Fatalf("parse %q: %v", p, err)
				}
				rq, ok := q.(*query.Regexp)
				if !ok {
					continue
				}
				// query.Parse applies "smart case": a pattern with an upper-case letter is case sensitive
				qsp = qspec{q: rq, desc: "regexp(" + p + ")", re: rq.Regexp.String(), reAlt: strings.Contains(p, "|"), cs: rq.CaseSensitive}
			}
			ctx := r.Intn(3)
			for _, chunkMode := range []bool{false, true} {
				res, err := s.Search(ctxb, qsp.q, &zoekt.SearchOptions{ChunkMatches: chunkMode, NumContextLines: ctx})
				if err != nil {
					t.Fatalf("search %s: %v", qsp.desc, err)
				}
				if qsp.sub != "" { // every document holding an occurrence is reported (a wrong byte offset makes matchContent fail and drops it)
					rep := map[string]bool{}
					for _, fm := range res.Files {
						rep[fm.FileName] = true
					}
					for j := range docs {
						if occ := vfC02Occ(raw[j], []byte(qsp.sub), qsp.cs); len(occ) > 0 && !rep[docs[j].Name] {
							vfOracleFail(fmt.Sprintf("search:chunks=%v:document-missing", chunkMode), "single substring: a document holding an occurrence is not reported at all",
								map[string]any{"docs": vfC03DocsReplay(docs), "query": qsp.desc, "ctx": ctx, "file": docs[j].Name, "want": fmt.Sprint(occ)})
						}
					}
				}
				for _, fm := range res.Files {
					c := byName[fm.FileName]
					var rs [][2]int
					if chunkMode {
						for _, cm := range fm.ChunkMatches {
							for _, rg := range cm.Ranges {
								rs = append(rs, [2]int{int(rg.Start.ByteOffset), int(rg.End.ByteOffset)})
							}
						}
					} else {
						for _, lm := range fm.LineMatches {
							for _, f := range lm.LineFragments {
								rs = append(rs, [2]int{int(f.Offset), int(f.Offset) + f.MatchLength})
							}
						}
					}
					sort.Slice(rs, func(a, b int) bool { return rs[a][0] < rs[b][0] })
					fail := func(k, what string) {
						vfOracleFail(fmt.Sprintf("search:chunks=%v:%s", chunkMode, k), what, map[string]any{"docs": vfC03DocsReplay(docs), "query": qsp.desc, "ctx": ctx, "file": fm.FileName, "ranges": fmt.Sprint(rs)})
					}
					covered := make([]bool, len(c)+1)
					for j, x := range rs {
						if x[0] > x[1] || x[1] > len(c) {
							fail("bounds", "a reported range lies outside the file content")
							continue
						}
						if j > 0 && rs[j-1][1] > x[0] {
							fail("overlap", "reported ranges overlap")
						}
						for p := x[0]; p < x[1]; p++ {
							covered[p] = true
						}
					}
					// re-derive by scanning
					var want [][2]int
					if len(qsp.ors) > 0 {
						matchAt := func(p string, k int) bool {
							if k+len(p) > len(c) {
								return false
							}
							return (qsp.cs && bytes.Equal(c[k:k+len(p)], []byte(p))) || (!qsp.cs && bytes.EqualFold(c[k:k+len(p)], []byte(p)))
						}
						for _, x := range rs { // every range is an occurrence of an atom, the longest one starting there
							ok, longer := false, false
							for _, p := range qsp.ors {
								if matchAt(p, x[0]) {
									if len(p) == x[1]-x[0] {
										ok = true
									}
									if len(p) > x[1]-x[0] {
										longer = true
									}
								}
							}
							if !ok {
								fail("or-not-an-atom", "or of substrings: a reported range is not an occurrence of one of the atoms")
							}
							if longer {
								fail("or-not-longest", "or of substrings: a longer atom occurrence starts at the start of a reported range")
							}
						}
						// completeness: every CANDIDATE of an atom starts inside a reported range.  An atom of >= 3 runes yields all its
						// occurrences (trigram index); a shorter one is evaluated as a regexp, whose matches are the successive
						// leftmost non-overlapping occurrences of that atom alone.
						for _, p := range qsp.ors {
							short := utf8.RuneCountInString(p) < 3
							for k := 0; k+len(p) <= len(c); k++ {
								if !matchAt(p, k) {
									continue
								}
								if !covered[k] {
									fail("or-dropped", fmt.Sprintf("or of substrings: the candidate %q at %d starts in no reported range", p, k))
									break
								}
								if short {
									k += len(p) - 1
								}
							}
						}
					} else if qsp.sub != "" {
						want = vfC02Occ(c, []byte(qsp.sub), qsp.cs)
						if fmt.Sprint(want) != fmt.Sprint(rs) {
							fail("substring-leftmost", fmt.Sprintf("single substring: ranges are not the successive leftmost non-overlapping occurrences %v", want))
						}
					} else {
						prefix := "(?i)"
						if qsp.cs {
							prefix = ""
						}
						re, err := regexp.Compile(prefix + "(?m:" + qsp.re + ")")
						if err != nil {
							t.Fatal(err)
						}
						wc := make([]bool, len(c)+1)
						for _, ix := range re.FindAllIndex(c, -1) {
							for p := ix[0]; p < ix[1]; p++ {
								if chunkMode || c[p] != '\n' {
									wc[p] = true
								}
							}
						}
						if chunkMode { // chunk mode: nothing is split or merged — the ranges ARE the engine's non-empty matches
							var wr [][2]int
							for _, ix := range re.FindAllIndex(c, -1) {
								if ix[1] > ix[0] {
									wr = append(wr, [2]int{ix[0], ix[1]})
								}
							}
							if fmt.Sprint(wr) != fmt.Sprint(rs) {
								key := "regexp-ranges"
								if qsp.reAlt {
									key = "regexp-ranges-alternation"
								}
								fail(key, fmt.Sprintf("single regexp: the chunk ranges are not exactly the engine's successive non-empty matches %v", wr))
							}
						}
						for p := range wc {
							if wc[p] != covered[p] {
								key := "regexp-cover"
								if qsp.reAlt {
									key = "regexp-cover-alternation"
								}
								fail(key, "single regexp: the ranges do not cover exactly the bytes of the engine's non-empty matches")
								break
							}
						}
					}
				}
			}
		}
	}
}

// vfC02FindCases writes the documents into a shard, reads it back and emits
//   - one G_samples case (the builder's rune-offset samples and endRunes),
//   - for content and for file names one G_find case with the (document, rune offset) queries chosen by pick
//     (pick gets the rune count of every document).
//
// Oracle: findOffset(r) must be the r-th rune boundary of the document decoded on its own (C02_rune_to_byte), for
// every r <= rune count, except the one point where no sample can exist: the end of the corpus when it holds a
// multiple of runeOffsetFrequency runes (outside findOffset's domain: callers pass candidate START offsets; see
// ex_corpus_end_outside_domain in coq/Props/C02.v).  That point is still compared with the model.
func vfC02FindCases(t *testing.T, docs []Document, pick func(filename bool, nr []int) [][2]int) zoekt.Searcher {
	var raw, names [][]byte
	for _, d := range docs {
		raw = append(raw, d.Content)
		names = append(names, []byte(d.Name))
	}
	b, err := NewShardBuilder(&zoekt.Repository{Name: "r"})
	if err != nil {
		t.Fatal(err)
	}
	for _, d := range docs {
		if err := b.Add(d); err != nil {
			t.Fatal(err)
		}
	}
	vfCase(cApp("G_samples", vfC02BytesList(raw), vfC02U32(b.contentPostings.runeOffsets), vfC02U32(b.contentPostings.endRunes)),
		vfKey("samples:", raw), len(b.contentPostings.runeOffsets) > 1, []string{"G_samples", fmt.Sprint("samples=", len(b.contentPostings.runeOffsets))}, map[string]any{"docs": len(raw)})
	var buf bytes.Buffer
	if err := b.Write(&buf); err != nil {
		t.Fatal(err)
	}
	file := &vfC03Mem{buf.Bytes()}
	s, err := NewSearcher(file)
	if err != nil {
		t.Fatal(err)
	}
	d := s.(*indexData)
	total := uint32(0)
	for _, c := range raw {
		total += uint32(len(c))
	}
	tailLen := uint32(4 * utf8.UTFMax * runeOffsetFrequency)
	if uint32(len(file.data)) < d.boundariesStart+total+tailLen {
		tailLen = uint32(len(file.data)) - d.boundariesStart - total
	}
	tail, _ := file.Read(d.boundariesStart+total, tailLen)
	for _, filename := range []bool{false, true} {
		src := raw
		if filename {
			src = names
		}
		nr := make([]int, len(src))
		before := make([]int, len(src)+1)
		for i := range src {
			nr[i] = utf8.RuneCount(src[i])
			before[i+1] = before[i] + nr[i]
		}
		totalRunes := before[len(src)]
		var qs []string
		classes := []string{"G_find", fmt.Sprint("filename=", filename), fmt.Sprint("plain=", d.metaData.PlainASCII)}
		for _, q := range pick(filename, nr) {
			idx, rr := q[0], q[1]
			cp := &contentProvider{id: d, stats: &zoekt.Stats{}}
			cp.setDocument(uint32(idx))
			var got uint32
			p := vfC03Recover(func() { got = cp.findOffset(filename, uint32(rr)) })
			res := "None"
			if !p && cp.err == nil {
				res = cSome(cN(uint64(got)))
			}
			want := vfC02RuneBytes(src[idx], rr)
			edge := before[idx]+rr == totalRunes && totalRunes%runeOffsetFrequency == 0 && !d.metaData.PlainASCII
			if edge {
				classes = append(classes, "corpus-end-extrapolation")
				if int(got) > len(src[idx]) {
					// the extrapolated sample lies before the document start: byteOff - fileStartByte wraps in uint32
					// (the model subtracts in nat); only possible at this point outside the domain
					continue
				}
			} else if p || cp.err != nil || int(got) != want {
				vfOracleFail(fmt.Sprintf("findOffset:filename=%v", filename), "findOffset(r) is not the byte length of the first r runes of the document",
					map[string]any{"docs": vfC03DocsReplay(docs), "doc": idx, "rune": rr, "got": got, "want": want, "filename": filename, "panic": p, "err": fmt.Sprint(cp.err)})
			}
			qs = append(qs, cTuple(cN(uint64(idx)), cN(uint64(rr)), res))
		}
		if len(qs) == 0 {
			continue
		}
		tl := tail
		if filename {
			tl = nil
		}
		vfCase(cApp("G_find", cBool(filename), cBool(d.metaData.PlainASCII), vfC02BytesList(src), cBytes(tl), cList(qs)), vfKey("find:", filename, src, qs), !d.metaData.PlainASCII,
			classes, map[string]any{"docs": len(src), "queries": fmt.Sprint(qs)})
	}
	return s
}

// deterministic corner shards of the rune -> byte translation (run once per test run)
func vfC02FindCorners(t *testing.T) {
	rep := func(s string, n int) []byte { return []byte(strings.Repeat(s, n)) }
	all := func(filename bool, nr []int) [][2]int { // every document: 0, 1, around every multiple of the frequency, the end
		var qs [][2]int
		if filename {
			return nil
		}
		for idx, n := range nr {
			seen := map[int]bool{}
			for _, rr := range []int{0, 1, 2, n - 3, n - 1, n} {
				for k := 0; k*runeOffsetFrequency <= n+runeOffsetFrequency; k++ {
					for _, x := range []int{rr, k*runeOffsetFrequency - 1, k * runeOffsetFrequency, k*runeOffsetFrequency + 1} {
						if x >= 0 && x <= n && !seen[x] {
							seen[x] = true
							qs = append(qs, [2]int{idx, x})
						}
					}
				}
			}
		}
		return qs
	}
	shards := [][]Document{
		// the corpus ends on a multiple of the frequency with two-byte runes (the extrapolation point)
		{{Name: "a", Content: rep("é", 100)}},
		{{Name: "a", Content: rep("é", 60)}, {Name: "b", Content: rep("世", 140)}, {Name: "c", Content: nil}},
		// more than 75 four-byte runes after a sample (the 3-bytes-per-rune window of the unfixed tree)
		{{Name: "a", Content: append(rep("😀", 76), []byte("needle")...)}},
		{{Name: "a", Content: append(append(rep("x", 150), rep("𝔸", 99)...), []byte("needle needle")...)}},
		// a document ending in a truncated lead byte, the next starting with continuation bytes
		{{Name: "a", Content: append(rep("x", 100), 0xc9)}, {Name: "b", Content: append([]byte{0xa9}, []byte(" needle")...)}},
		{{Name: "a", Content: append(rep("é", 99), 0xf0, 0x9f)}, {Name: "b", Content: append([]byte{0x98, 0x80}, rep("ß", 130)...)}, {Name: "c", Content: rep("\xbf", 101)}},
		// sample exactly on a document start; empty documents in between
		{{Name: "a", Content: rep("ñ", 100)}, {Name: "e", Content: nil}, {Name: "b", Content: rep("語", 201)}},
	}
	for _, docs := range shards {
		vfC02FindCases(t, docs, all)
	}
}

// vfC02Occ: the successive leftmost non-overlapping occurrences of pat in c (byte ranges) — the scanning oracle of a
// single-substring query (C02_substr_ranges_leftmost).
func vfC02Occ(c, pat []byte, caseSensitive bool) [][2]int {
	var want [][2]int
	for from := 0; from+len(pat) <= len(c); {
		i := -1
		for k := from; k+len(pat) <= len(c); k++ {
			if (caseSensitive && bytes.Equal(c[k:k+len(pat)], pat)) || (!caseSensitive && bytes.EqualFold(c[k:k+len(pat)], pat)) {
				i = k
				break
			}
		}
		if i < 0 {
			break
		}
		want = append(want, [2]int{i, i + len(pat)})
		from = i + len(pat)
	}
	return want
}

// deterministic corner shards evaluated END TO END through Search (run once per test run): a substring match preceded, inside its
// sampling window, by 75..99 runes of 1, 2, 3 and 4 bytes (more than 75 four-byte runes need more than 3 bytes per rune of read
// window); matches starting right before / on / right after a multiple of runeOffsetFrequency; mixed 1/2/3/4-byte rune runs; the
// same for file names.  Every document as a shard of its own (the document starts on a sample) and all of them in one shard (the
// samples fall anywhere).  Oracle: the reported ranges of the single-substring query are the successive leftmost non-overlapping
// occurrences found by scanning, in LineMatches and ChunkMatches mode, and every document holding an occurrence is reported.
// The match starts also go through findOffset directly (G_samples / G_find cases for the model).
func vfC02SearchCorners(t *testing.T) {
	const needle = "needle"
	ctxb := context.Background()
	widths := []string{"a", "é", "世", "😀"}
	var docs, nameDocs []Document
	for wi, w := range widths {
		for _, p := range []int{60, 75, 76, 77, 92, 98, 99, 100, 101, 102, 199, 200, 201, 250} {
			c := strings.Repeat(w, p) + needle + strings.Repeat(w, 3) + "Needle\n" + needle + " tail\n"
			docs = append(docs, Document{Name: fmt.Sprintf("w%d_p%d.txt", wi+1, p), Content: []byte(c)})
		}
		for _, p := range []int{76, 99, 100, 101, 180} {
			nameDocs = append(nameDocs, Document{Name: strings.Repeat(w, p) + needle + "_" + strings.Repeat(w, 2) + needle + fmt.Sprintf("%d.go", wi), Content: []byte("x\n")})
		}
	}
	{ // mixed runs of 1..4-byte runes, a needle every 37 runes (lands before, on and after sampling points)
		var b []byte
		nr := 0
		for k := 0; nr < 900; k++ {
			w := widths[(k*7+k/3)%4]
			run := 1 + (k*5)%9
			if k%11 == 10 {
				run = 70 + k%29 // a long run of one width
			}
			for j := 0; j < run; j++ {
				b = append(b, w...)
				nr++
				if nr%37 == 0 {
					b = append(b, needle...)
					nr += len(needle)
				}
			}
		}
		docs = append(docs, Document{Name: "mixed.txt", Content: b})
		cut := func(k int) int { // the next rune boundary at or after byte k
			for !utf8.RuneStart(b[k]) {
				k++
			}
			return k
		}
		nameDocs = append(nameDocs, Document{Name: "m/" + string(b[:cut(300)]) + needle + string(b[cut(300):cut(420)]) + needle, Content: []byte("y\n")})
	}
	type shard struct {
		name string
		docs []Document
	}
	shards := []shard{{"all", docs}, {"names", nameDocs}}
	for _, d := range docs {
		shards = append(shards, shard{d.Name, []Document{d}})
	}
	starts := func(c []byte) []int { // rune offsets of the needle occurrences (case-insensitive)
		var rs []int
		for _, x := range vfC02Occ(c, []byte(needle), false) {
			rs = append(rs, utf8.RuneCount(c[:x[0]]))
		}
		return rs
	}
	for _, sh := range shards {
		s := vfC02FindCases(t, sh.docs, func(filename bool, nr []int) [][2]int {
			var qs [][2]int
			for idx, d := range sh.docs {
				src := d.Content
				if filename {
					src = []byte(d.Name)
				}
				for _, rr := range starts(src) {
					qs = append(qs, [2]int{idx, rr})
				}
			}
			if len(qs) > 60 { // the "all" shard: keep the model evaluation small, every 4th point
				var q2 [][2]int
				for i := 0; i < len(qs); i += 4 {
					q2 = append(q2, qs[i])
				}
				qs = q2
			}
			return qs
		})
		for _, fileName := range []bool{false, true} {
			for _, cs := range []bool{true, false} {
				q := &query.Substring{Pattern: needle, CaseSensitive: cs, Content: !fileName, FileName: fileName}
				for _, chunkMode := range []bool{false, true} {
					res, err := s.Search(ctxb, q, &zoekt.SearchOptions{ChunkMatches: chunkMode})
					if err != nil {
						t.Fatalf("search corner %s: %v", sh.name, err)
					}
					got := map[string][][2]int{}
					for _, fm := range res.Files {
						rs := [][2]int{}
						for _, cm := range fm.ChunkMatches {
							for _, rg := range cm.Ranges {
								if cm.FileName == fileName {
									rs = append(rs, [2]int{int(rg.Start.ByteOffset), int(rg.End.ByteOffset)})
								}
							}
						}
						for _, lm := range fm.LineMatches {
							for _, f := range lm.LineFragments {
								if lm.FileName == fileName {
									rs = append(rs, [2]int{int(f.Offset), int(f.Offset) + f.MatchLength})
								}
							}
						}
						sort.Slice(rs, func(a, b int) bool { return rs[a][0] < rs[b][0] })
						got[fm.FileName] = rs
					}
					for _, d := range sh.docs {
						src := d.Content
						if fileName {
							src = []byte(d.Name)
						}
						want := vfC02Occ(src, []byte(needle), cs)
						rs, reported := got[d.Name]
						kind := "content"
						if fileName {
							kind = "filename"
						}
						replay := map[string]any{"shard": sh.name, "docs": vfC03DocsReplay(sh.docs), "query": fmt.Sprintf("substr(%q,cs=%v,filename=%v)", needle, cs, fileName),
							"chunks": chunkMode, "file": d.Name, "ranges": fmt.Sprint(rs), "want": fmt.Sprint(want), "reported": reported}
						if len(sh.docs) > 1 { // keep the replay small: the failing document and its predecessor (the sample may lie there)
							for j := range sh.docs {
								if sh.docs[j].Name == d.Name {
									replay["docs"] = vfC03DocsReplay(sh.docs[max(0, j-1) : j+1])
									replay["docs_before"] = max(0, j-1)
									replay["note"] = "documents of shard " + sh.name + " built by vfC02SearchCorners (deterministic); shown: the failing document and its predecessor"
								}
							}
						}
						switch {
						case len(want) > 0 && !reported:
							vfOracleFail(fmt.Sprintf("search-corner:chunks=%v:%s-document-missing", chunkMode, kind),
								"single substring: a document holding an occurrence is not reported at all", replay)
						case fmt.Sprint(want) != fmt.Sprint(rs) && (reported || len(want) > 0):
							vfOracleFail(fmt.Sprintf("search-corner:chunks=%v:%s-ranges", chunkMode, kind),
								fmt.Sprintf("single substring: the reported ranges are not the successive leftmost non-overlapping occurrences %v", want), replay)
						}
					}
				}
			}
		}
	}
}

var vfC02NameShards = map[int]*indexData{}

// a one-document shard whose file name has the given length (gatherMatches only needs the name)
func vfC02NameShard(t *testing.T, nameLen int) *indexData {
	if d, ok := vfC02NameShards[nameLen]; ok {
		return d
	}
	s := vfC03Searcher(t, []Document{{Name: strings.Repeat("n", nameLen), Content: []byte("x")}})
	d := s.(*indexData)
	vfC02NameShards[nameLen] = d
	return d
}

// ---------------------------------------------------------------------------------------------------------------------
// Word-boundary regexps \bLIT\b.  A case-sensitive one is evaluated by wordMatchTree (a bytes.Index loop that tests the
// word/non-word transition at both ends of each occurrence) instead of the regexp engine; the reported ranges must all
// the same be exactly the engine's successive non-overlapping matches (stdlib regexp FindAllIndex on the content / the
// file name), in particular for runs of DIRECTLY ADJACENT occurrences (LITLIT: possible when the first and the last byte
// of LIT are of different classes), occurrences separated by one word / one non-word byte, overlapping occurrences
// ("a a a a"), at the start / end of the text.  Case-insensitive variants go through the engine: same oracle.

func vfC02IsWordByte(c byte) bool {
	return (c >= 'a' && c <= 'z') || (c >= 'A' && c <= 'Z') || (c >= '0' && c <= '9') || c == '_'
}

// vfC02WordScan runs the real wordMatchTree.matches on a document with the given bytes and returns the byte offsets of
// its candidates (correspondence with Model/Ranges.v word_scan).
func vfC02WordScan(word string, data []byte) (offs []uint64, sizesOK bool) {
	if data == nil {
		data = []byte{}
	}
	cp := &contentProvider{stats: &zoekt.Stats{}, _data: data}
	wt := &wordMatchTree{word: word}
	wt.matches(cp, costMax, map[matchTree]bool{})
	sizesOK = true
	for _, m := range wt.found {
		offs = append(offs, uint64(m.byteOffset))
		if int(m.byteMatchSz) != len(word) || m.fileName {
			sizesOK = false
		}
	}
	return offs, sizesOK
}

// the engine's successive matches of \bLIT\b on src
func vfC02WordWant(lit string, src []byte, cs bool) [][2]int {
	prefix := "(?i)"
	if cs {
		prefix = ""
	}
	re := regexp.MustCompile(prefix + `\b` + regexp.QuoteMeta(lit) + `\b`)
	want := [][2]int{}
	for _, ix := range re.FindAllIndex(src, -1) {
		want = append(want, [2]int{ix[0], ix[1]})
	}
	return want
}

// a literal with the first/last byte classes chosen independently (word / non-word), 1..5 bytes
func vfC02GenWordLit(r *vfRand) string {
	wordB := []string{"a", "b", "g", "Z", "0", "_"}
	nonB := []string{".", " ", "-", "(", ">", "$", "é", "\n", "世"}
	mid := []string{"a", "b", "_", ".", " ", "-", "a", "é", "\n", "("}
	pick := func(word bool) string {
		if word {
			return r.Pick(wordB)
		}
		if r.Chance(70) {
			return r.Pick(nonB[:6])
		}
		return r.Pick(nonB)
	}
	first, last := r.Bool(), r.Bool()
	k := r.Intn(5)
	if k == 0 {
		return pick(first)
	}
	s := pick(first)
	for j := 1; j < k; j++ {
		s += r.Pick(mid)
	}
	return s + pick(last)
}

// documents for a literal: deterministic shapes (runs of adjacent occurrences, one word / non-word byte between two
// occurrences, start / end of text, upper-case variants) and, with r != nil, nrand random token sequences
func vfC02WordDocs(lit string, r *vfRand, nrand int) []string {
	L := lit
	U := strings.ToUpper(lit)
	var out []string
	if r == nil {
		out = []string{L, L + L, L + L + L, L + L + L + L, "x" + L + L, L + L + "x", " " + L + L, L + L + " ", "." + L + L + L + ".", "_" + L + L + L + "_",
			L + "x" + L, L + "_" + L, L + " " + L, L + "." + L, L + "\n" + L, L + L + "\n" + L + L, "x" + L + " " + L + L + "\n" + L + L + L + "." + L + "_" + L,
			"v := x" + L + L + L + "\nplain y" + L + " z\nx" + L + L, L + U + L, U + L + L + U + U, "é" + L + L + "é" + L, L[:len(L)-1] + L + L + L[:len(L)-1], L + L[1:] + L[1:] + L,
			"xa a a", "no occurrence here"}
		return out
	}
	toks := []string{L, L, L, L, "x", "_", " ", ".", "\n", "é", U, L[:len(L)-1], L[1:], "0", "-"}
	for j := 0; j < nrand; j++ {
		var b strings.Builder
		for k := 1 + r.Intn(9); k > 0; k-- {
			b.WriteString(r.Pick(toks))
		}
		out = append(out, b.String())
	}
	return out
}

// vfC02WordCheck: the documents (contents, or file names when fileName) in ONE shard; \bLIT\b case-sensitive and
// case-insensitive, LineMatches and ChunkMatches.
func vfC02WordCheck(t *testing.T, lit string, texts []string, fileName bool, label string) {
	ctxb := context.Background()
	var docs []Document
	seen := map[string]bool{}
	for j, x := range texts {
		if fileName {
			x = strings.NewReplacer("\n", " ", "\x00", " ").Replace(x)
			if j%2 == 0 { // a unique name without touching one end of the text
				x = fmt.Sprintf("%d/ %s", j, x)
			} else {
				x = fmt.Sprintf("%s /%d", x, j)
			}
			if seen[x] {
				continue
			}
			seen[x] = true
			docs = append(docs, Document{Name: x, Content: []byte("c\n")})
		} else {
			docs = append(docs, Document{Name: fmt.Sprintf("d%d", j), Content: []byte(x)})
		}
	}
	s := vfC03Searcher(t, docs)
	re, err := syntax.Parse(`\b`+regexp.QuoteMeta(lit)+`\b`, syntax.ClassNL|syntax.PerlX|syntax.UnicodeGroups)
	if err != nil {
		t.Fatalf("parse \\b%q\\b: %v", lit, err)
	}
	kind := "content"
	if fileName {
		kind = "filename"
	}
	classOf := func(b byte) string {
		if vfC02IsWordByte(b) {
			return "w"
		}
		return "n"
	}
	litClass := classOf(lit[0]) + classOf(lit[len(lit)-1])
	src := func(d Document) []byte {
		if fileName {
			return []byte(d.Name)
		}
		return d.Content
	}
	for _, cs := range []bool{true, false} {
		q := &query.Regexp{Regexp: re, CaseSensitive: cs, Content: !fileName, FileName: fileName}
		for _, chunkMode := range []bool{false, true} {
			res, err := s.Search(ctxb, q, &zoekt.SearchOptions{ChunkMatches: chunkMode, NumContextLines: 1})
			if err != nil {
				t.Fatalf("search \\b%q\\b: %v", lit, err)
			}
			got := map[string][][2]int{}
			for _, fm := range res.Files {
				rs := [][2]int{}
				for _, cm := range fm.ChunkMatches {
					for _, rg := range cm.Ranges {
						if cm.FileName == fileName {
							rs = append(rs, [2]int{int(rg.Start.ByteOffset), int(rg.End.ByteOffset)})
						}
					}
				}
				for _, lm := range fm.LineMatches {
					for _, f := range lm.LineFragments {
						if lm.FileName == fileName {
							rs = append(rs, [2]int{int(f.Offset), int(f.Offset) + f.MatchLength})
						}
					}
				}
				sort.Slice(rs, func(a, b int) bool { return rs[a][0] < rs[b][0] })
				got[fm.FileName] = rs
			}
			for _, d := range docs {
				c := src(d)
				matches := vfC02WordWant(lit, c, cs)
				want := matches
				if !chunkMode && !fileName { // line mode: each match broken on newlines, empty pieces dropped
					want = [][2]int{}
					for _, m := range matches {
						st := m[0]
						for p := m[0]; p <= m[1]; p++ {
							if p == m[1] || c[p] == '\n' {
								if p > st {
									want = append(want, [2]int{st, p})
								}
								st = p + 1
							}
						}
					}
				}
				rs, reported := got[d.Name]
				replay := map[string]any{"docs": vfC03DocsReplay([]Document{d}), "literal": lit, "query": fmt.Sprintf("regexp(\\b%s\\b, cs=%v, filename=%v)", regexp.QuoteMeta(lit), cs, fileName),
					"chunks": chunkMode, "file": d.Name, "ranges": fmt.Sprint(rs), "want": fmt.Sprint(want), "reported": reported, "generator": label,
					"note": "one document of a shard holding all generated documents for this literal; want = regexp.FindAllIndex (broken on newlines in line mode)"}
				switch {
				case len(matches) > 0 && !reported:
					vfOracleFail(fmt.Sprintf("search-word:chunks=%v:%s-document-missing", chunkMode, kind),
						"\\bLIT\\b: a document in which the regexp engine finds a match is not reported at all", replay)
				case reported && fmt.Sprint(want) != fmt.Sprint(rs):
					vfOracleFail(fmt.Sprintf("search-word:chunks=%v:%s-ranges", chunkMode, kind),
						fmt.Sprintf("\\bLIT\\b: the reported ranges are not exactly the regexp engine's successive non-overlapping matches %v", want), replay)
				}
				if cs && chunkMode && reported && len(c) <= 160 { // end-to-end correspondence: gather (word_cands ...) of the model
					var oc []vfCand
					for _, x := range rs {
						oc = append(oc, vfCand{fileName, uint32(x[0]), uint32(x[1] - x[0])})
					}
					adj := 0
					for j := 1; j < len(matches); j++ {
						if matches[j-1][1] == matches[j][0] {
							adj++
						}
					}
					vfCase(cApp("G_wordsearch", cBool(fileName), cBytes([]byte(lit)), cBytes(c), cN(uint64(len(d.Name))), vfCandsCoq(oc)),
						vfKey("wordsearch:", fileName, lit, "|", string(c)), len(matches) > 1, []string{"G_wordsearch", "lit=" + litClass, fmt.Sprint("adjacent=", adj > 0)},
						map[string]any{"literal": lit, "text": string(c), "ranges": fmt.Sprint(rs)})
				}
			}
		}
	}
	if !fileName { // the scan loop itself on every document's bytes
		for _, d := range docs {
			c := d.Content
			if len(c) > 160 {
				continue
			}
			raw, sizesOK := vfC02WordScan(lit, c)
			want := vfC02WordWant(lit, c, true)
			// observable = what gatherMatches keeps of the candidates (a candidate starting inside the previous kept one is
			// dropped), so a scan that also yields overlapping genuine matches is not flagged; every raw candidate must be
			// a genuine match of \bLIT\b at its position
			isW := func(i int) bool { return i >= 0 && i < len(c) && vfC02IsWordByte(c[i]) }
			var offs []uint64
			bad := !sizesOK
			for _, o := range raw {
				e := int(o) + len(lit)
				if e > len(c) || !bytes.HasPrefix(c[o:], []byte(lit)) || isW(int(o)-1) == isW(int(o)) || isW(e-1) == isW(e) {
					bad = true
				}
				if len(offs) == 0 || int(offs[len(offs)-1])+len(lit) <= int(o) {
					offs = append(offs, o)
				}
			}
			bad = bad || len(offs) != len(want)
			for j := 0; !bad && j < len(offs); j++ {
				bad = int(offs[j]) != want[j][0]
			}
			if bad {
				vfOracleFail("word-scan", "wordMatchTree.matches: the candidates (after gatherMatches' overlap rule) are not the regexp engine's successive matches of \\bLIT\\b",
					map[string]any{"literal": lit, "content": string(c), "got_offsets": fmt.Sprint(raw), "want": fmt.Sprint(want)})
			}
			adj := false
			for j := 1; j < len(want); j++ {
				adj = adj || want[j-1][1] == want[j][0]
			}
			vfCase(cApp("G_word", cBytes([]byte(lit)), cBytes(c), cNList(offs)), vfKey("word:", lit, "|", string(c)), len(want) > 1,
				[]string{"G_word", "lit=" + litClass, fmt.Sprint("adjacent=", adj)}, map[string]any{"literal": lit, "content": string(c), "offsets": fmt.Sprint(offs)})
		}
	}
}

// deterministic part, once per run: literals of every first/last byte class combination against the fixed document shapes
// (content and file names), and the byte classes of characterClass through the scan loop.
func vfC02WordCorners(t *testing.T) {
	lits := []string{
		"get", "a", "x1", "foo_bar", "a a", "a.b", "Get", // word .. word
		".get", "->next", "$x", " a", "éa", "(a", // non-word .. word
		"get(", "x.", "a ", "aé", "f()", "next->", // word .. non-word
		".", "->", "..", "(a)", ".a.", "é", "世", " ", "- -", // non-word .. non-word
		"a\nb", "a\n", "\na", // literals holding a newline (line mode breaks the ranges)
	}
	for _, lit := range lits {
		texts := vfC02WordDocs(lit, nil, 0)
		vfC02WordCheck(t, lit, texts, false, "corner")
		if !strings.Contains(lit, "\n") {
			vfC02WordCheck(t, lit, texts, true, "corner")
		}
	}
	// every byte value in front of "a ": the occurrence at 3k+1 is accepted iff byte k is no word character
	var data []byte
	var want []uint64
	for b := 0; b < 256; b++ {
		data = append(data, byte(b), 'a', ' ')
		if !vfC02IsWordByte(byte(b)) {
			want = append(want, uint64(3*b+1))
		}
	}
	offs, _ := vfC02WordScan("a", data)
	if fmt.Sprint(offs) != fmt.Sprint(want) {
		vfOracleFail("word-scan:byte-classes", "wordMatchTree.matches: \\ba\\b after each byte value: accepted exactly after non-word bytes",
			map[string]any{"got_offsets": fmt.Sprint(offs), "want": fmt.Sprint(want)})
	}
	vfCase(cApp("G_word", cBytes([]byte("a")), cBytes(data), cNList(offs)), "word:byte-classes", true, []string{"G_word", "byte-classes"}, map[string]any{"offsets": fmt.Sprint(offs)})
}
