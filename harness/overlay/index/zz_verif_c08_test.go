package index

// C08 correspondence + oracle: case-insensitive literal search evaluated (a) as query.Substring (trigram case variants +
// caseFoldingEqualsRunes) and (b) as the equivalent query.Regexp forced through the regexp engine (a concatenation of
// one-rune character classes, which regexpToMatchTreeRecursive cannot distill), on a one-document shard built with the
// real ShardBuilder. Observables: files and match ranges (byte offset, byte size) of indexData.Search.
// Mapped into /repo/index by `go test -overlay`.

import (
	"bytes"
	"context"
	"fmt"
	stdregexp "regexp"
	"regexp/syntax"
	"slices"
	"sort"
	"strings"
	"testing"
	"unicode"
	"unicode/utf8"

	"github.com/grafana/regexp"

	"github.com/sourcegraph/zoekt"
	"github.com/sourcegraph/zoekt/internal/syntaxutil"
	"github.com/sourcegraph/zoekt/query"
)

type vfC08Mem struct{ data []byte }

func (s *vfC08Mem) Name() string                        { return "verif-mem-c08" }
func (s *vfC08Mem) Close()                              {}
func (s *vfC08Mem) Size() (uint32, error)               { return uint32(len(s.data)), nil }
func (s *vfC08Mem) Read(off, sz uint32) ([]byte, error) { return s.data[off : off+sz], nil }

func vfC08Build(t testing.TB, content string) *indexData {
	b, err := NewShardBuilder(&zoekt.Repository{Name: "r"})
	if err != nil {
		t.Fatal(err)
	}
	if err := b.Add(Document{Name: "f.txt", Content: []byte(content)}); err != nil {
		t.Fatal(err)
	}
	var buf bytes.Buffer
	if err := b.Write(&buf); err != nil {
		t.Fatal(err)
	}
	s, err := NewSearcher(&vfC08Mem{buf.Bytes()})
	if err != nil {
		t.Fatal(err)
	}
	return s.(*indexData)
}

type vfC08Range struct{ off, sz int }

// vfC08Search returns the matched files and the ranges in f.txt.
func vfC08Search(t testing.TB, d *indexData, q query.Q) (files []string, rs []vfC08Range, panicked string) {
	defer func() {
		if r := recover(); r != nil {
			panicked = fmt.Sprint(r)
		}
	}()
	res, err := d.Search(context.Background(), q, &zoekt.SearchOptions{ChunkMatches: true})
	if err != nil {
		return nil, nil, "error: " + err.Error()
	}
	for _, f := range res.Files {
		files = append(files, f.FileName)
		for _, cm := range f.ChunkMatches {
			for _, r := range cm.Ranges {
				rs = append(rs, vfC08Range{int(r.Start.ByteOffset), int(r.End.ByteOffset - r.Start.ByteOffset)})
			}
		}
	}
	sort.Slice(rs, func(i, j int) bool { return rs[i].off < rs[j].off })
	return files, rs, ""
}

func vfC08RegexpQuery(p []rune) *query.Regexp {
	re := &syntax.Regexp{Op: syntax.OpConcat}
	for _, c := range p {
		re.Sub = append(re.Sub, &syntax.Regexp{Op: syntax.OpCharClass, Rune: []rune{c, c}})
	}
	return &query.Regexp{Regexp: re, Content: true, CaseSensitive: false}
}

func vfC08InOrbit(c, x rune) bool {
	if c == x {
		return true
	}
	for y := unicode.SimpleFold(c); y != c; y = unicode.SimpleFold(y) {
		if y == x {
			return true
		}
	}
	return false
}

// vfC08Sel recomputes the offsets of the two selective trigrams chosen by iterateNgrams (same functions, same index).
func vfC08Sel(d *indexData, pat string) (sel []int, freqZero bool) {
	ngramOffs := splitNGrams([]byte(pat))
	slices.SortFunc(ngramOffs, runeNgramOff.Compare)
	frequencies := make([]uint32, 0, len(ngramOffs))
	indexMap := make([]int, len(ngramOffs))
	ngrams := d.ngrams(false)
	for i, o := range ngramOffs {
		var freq uint32
		for _, v := range generateCaseNgrams(o.ngram) {
			freq += ngrams.Get(v).sz
		}
		if freq == 0 {
			return nil, true
		}
		frequencies = append(frequencies, freq)
		indexMap[o.index] = i
	}
	first, last := findSelectiveNgrams(ngramOffs, indexMap, frequencies)
	if first.index == last.index {
		return []int{first.index}, false
	}
	return []int{first.index, last.index}, false
}

func vfC08Ranges(rs []vfC08Range) string {
	if len(rs) == 0 {
		return "(@nil (nat*nat))"
	}
	ss := make([]string, len(rs))
	for i, r := range rs {
		ss[i] = fmt.Sprintf("(%d,%d)", r.off, r.sz)
	}
	return "[" + strings.Join(ss, ";") + "]%nat"
}
func vfC08Runes(rs []rune) string {
	if len(rs) == 0 {
		return "(@nil N)"
	}
	ss := make([]string, len(rs))
	for i, r := range rs {
		ss[i] = fmt.Sprint(int(r))
	}
	return "[" + strings.Join(ss, ";") + "]%N"
}

// vfC08Explain looks for a pattern rune whose ToLower-equality and fold-orbit membership differ on the content rune it
// is aligned with in a range reported by exactly one of the two evaluations: the class of the known upstream defect.
func vfC08Explain(p []rune, content string, only []vfC08Range) string {
	for _, r := range only {
		if r.off > len(content) {
			continue
		}
		t := []rune(content[r.off:])
		for k, pc := range p {
			if k >= len(t) {
				break
			}
			lowerEq := unicode.ToLower(pc) == unicode.ToLower(t[k])
			if lowerEq != vfC08InOrbit(pc, t[k]) {
				return fmt.Sprintf("fold-orbit≠tolower:U+%04X", pc)
			}
		}
	}
	return ""
}

func vfC08Diff(a, b []vfC08Range) (onlyA, onlyB []vfC08Range) {
	in := func(x vfC08Range, l []vfC08Range) bool {
		for _, y := range l {
			if x == y {
				return true
			}
		}
		return false
	}
	for _, x := range a {
		if !in(x, b) {
			onlyA = append(onlyA, x)
		}
	}
	for _, x := range b {
		if !in(x, a) {
			onlyB = append(onlyB, x)
		}
	}
	return
}

// related runes of r: its fold orbit, everything with the same lower case, and its case mappings
func vfC08Related(r rune, sameLower map[rune][]rune) []rune {
	seen := map[rune]bool{}
	var out []rune
	add := func(c rune) {
		if !seen[c] && c != '\n' && utf8.ValidRune(c) {
			seen[c] = true
			out = append(out, c)
		}
	}
	add(r)
	for y := unicode.SimpleFold(r); y != r; y = unicode.SimpleFold(y) {
		add(y)
	}
	for _, c := range sameLower[unicode.ToLower(r)] {
		add(c)
	}
	add(unicode.ToLower(r))
	add(unicode.ToUpper(r))
	add(unicode.ToTitle(r))
	return out
}

func vfC08One(t *testing.T, p []rune, content string, class string, agreeAll bool) {
	pat := string(p)
	d := vfC08Build(t, content)
	defer d.Close()
	sq := &query.Substring{Pattern: pat, Content: true, CaseSensitive: false}
	rq := vfC08RegexpQuery(p)
	sf, sr, sp := vfC08Search(t, d, sq)
	rf, rr, rp := vfC08Search(t, d, rq)
	replay := map[string]any{"pattern": pat, "pattern_runes": p, "content": content,
		"substring_ranges": fmt.Sprint(sr), "regexp_ranges": fmt.Sprint(rr), "substring_files": sf, "regexp_files": rf}
	if sp != "" || rp != "" {
		vfOracleFail("search-failed", "Search panicked or failed: "+sp+" / "+rp, replay)
		return
	}
	// ---- Go-side oracle: the property itself, split by cause. Reference = Go's standard regexp engine on the very
	// pattern text zoekt compiles ("(?i)" + RegexpString); the two evaluations agree iff both equal the reference
	// or both deviate identically.
	printed := "(?i)" + syntaxutil.RegexpString(rq.Regexp)
	toRanges := func(idx [][]int) []vfC08Range {
		var out []vfC08Range
		for _, m := range idx {
			out = append(out, vfC08Range{m[0], m[1] - m[0]})
		}
		return out
	}
	std := toRanges(stdregexp.MustCompile(printed).FindAllIndex([]byte(content), -1))
	graf := toRanges(regexp.MustCompile(printed).FindAllIndex([]byte(content), -1))
	replay["reference_ranges"] = fmt.Sprint(std)
	replay["compiled_pattern"] = printed
	if fmt.Sprint(sr) != fmt.Sprint(std) {
		onlyS, onlyR := vfC08Diff(sr, std)
		key := vfC08Explain(p, content, append(onlyS, onlyR...))
		if key == "" {
			key = "other-disagreement:substring-path"
		}
		vfOracleFail(key, fmt.Sprintf("case-insensitive Substring search differs from the (?i) regexp semantics (%s): substring %v, reference %v", key, sr, std), replay)
	}
	if fmt.Sprint(rr) != fmt.Sprint(std) {
		key := "other-disagreement:regexp-path"
		if fmt.Sprint(rr) == fmt.Sprint(graf) {
			// the vendored engine itself deviates from the standard engine: its case-insensitive literal-prefix scan compares
			// a window of len(prefix) BYTES, which fails when a fold partner has a different UTF-8 length
			key = "engine-divergence:other"
			for _, pc := range p {
				mixed := false
				for y := unicode.SimpleFold(pc); y != pc; y = unicode.SimpleFold(y) {
					if utf8.RuneLen(y) != utf8.RuneLen(pc) {
						mixed = true
					}
				}
				if mixed {
					key = fmt.Sprintf("engine-divergence:grafana-fold-prefix:U+%04X", pc)
					break
				}
			}
		}
		vfOracleFail(key, fmt.Sprintf("case-insensitive Regexp search differs from the standard engine on the same pattern (%s): zoekt %v, reference %v, vendored engine alone %v", key, rr, std, graf), replay)
	}
	if (fmt.Sprint(sf) != fmt.Sprint(rf) || fmt.Sprint(sr) != fmt.Sprint(rr)) && fmt.Sprint(sr) == fmt.Sprint(std) && fmt.Sprint(rr) == fmt.Sprint(std) {
		vfOracleFail("other-disagreement:files", "same ranges but different file lists", replay)
	}
	// ---- correspondence record
	sel, fz := vfC08Sel(d, pat)
	_ = fz
	tr := []rune(content)
	coq := cTuple(vfC08Runes(p), vfC08Runes(tr), cNatList(sel), vfC08Ranges(sr), vfC08Ranges(std))
	nontrivial := len(sr) > 0 || len(rr) > 0
	cls := []string{class, fmt.Sprintf("plen=%d", len(p))}
	if fmt.Sprint(sr) != fmt.Sprint(rr) {
		cls = append(cls, "paths-disagree")
	} else if len(sr) > 0 {
		cls = append(cls, "paths-agree-with-matches")
	}
	if agreeAll {
		cls = append(cls, "pattern-over-agreeing-runes")
	}
	vfCase(coq, vfKey(pat, "|", content), nontrivial, cls, map[string]any{"pattern": pat, "content": content, "substring": fmt.Sprint(sr), "regexp": fmt.Sprint(rr), "reference": fmt.Sprint(std), "sel": sel})
}

func TestVerifC08(t *testing.T) {
	r := vfNewRand(vfSeed())
	if rp := vfReplay(); rp != nil {
		if inner, ok := rp["replay"].(map[string]any); ok {
			p, _ := inner["pattern"].(string)
			c, _ := inner["content"].(string)
			if p != "" {
				vfC08One(t, []rune(p), c, "replay", false)
				return
			}
		}
	}
	n := vfN(400)
	// the table of the toolchain in use
	var tab []rune
	sameLower := map[rune][]rune{}
	for c := rune(0); c <= unicode.MaxRune; c++ {
		if unicode.ToLower(c) != c || unicode.SimpleFold(c) != c {
			tab = append(tab, c)
			sameLower[unicode.ToLower(c)] = append(sameLower[unicode.ToLower(c)], c)
		}
	}
	agree := func(c rune) bool {
		for _, x := range vfC08Related(c, sameLower) {
			if (unicode.ToLower(x) == unicode.ToLower(c)) != vfC08InOrbit(c, x) {
				return false
			}
		}
		return true
	}
	var disagree []rune
	for _, c := range tab {
		if !agree(c) {
			disagree = append(disagree, c)
		}
	}
	vfInfo(map[string]any{"table_rows": len(tab), "disagreeing_runes": len(disagree), "unicode": unicode.Version})
	fill := []rune{'a', 'b', 'x', 'é', 'Z', '1', '_'}
	rowCase := func(c rune, class string) {
		// pattern: c in one of three positions of a 3..5 rune pattern; content: one line per related rune
		pos := r.Intn(3)
		plen := 3 + r.Intn(3)
		if pos >= plen {
			pos = plen - 1
		}
		p := make([]rune, plen)
		for i := range p {
			p[i] = fill[r.Intn(len(fill))]
		}
		p[pos] = c
		var lines []string
		for _, x := range vfC08Related(c, sameLower) {
			q := append([]rune(nil), p...)
			q[pos] = x
			for i := range q { // vary the case of the filler too
				if i != pos && r.Chance(30) {
					q[i] = unicode.ToUpper(q[i])
				}
			}
			lines = append(lines, string(q))
		}
		if r.Chance(50) {
			lines = append(lines, string(p)+string(p)) // adjacent / overlapping occurrences
		}
		if r.Chance(30) {
			lines = append(lines, "noise "+string(fill))
		}
		all := true
		for _, x := range p {
			all = all && agree(x)
		}
		vfC08One(t, p, strings.Join(lines, "\n")+"\n", class, all)
	}
	// generateCaseNgrams on sampled trigrams (second correspondence: the model's product of fold orbits)
	for i := 0; i < 60; i++ {
		var tri [ngramSize]rune
		for k := range tri {
			switch r.Intn(4) {
			case 0:
				tri[k] = fill[r.Intn(len(fill))]
			case 1:
				tri[k] = disagree[r.Intn(len(disagree))]
			default:
				tri[k] = tab[r.Intn(len(tab))]
			}
		}
		var outs []string
		for _, v := range generateCaseNgrams(runesToNGram(tri)) {
			x := ngramToRunes(v)
			outs = append(outs, fmt.Sprintf("(%d,%d,%d)", x[0], x[1], x[2]))
		}
		vfEmit(map[string]any{"kind": "variants", "coq": fmt.Sprintf("(%d,%d,%d,[%s])", tri[0], tri[1], tri[2], strings.Join(outs, ";")),
			"sample": map[string]any{"trigram": string(tri[:]), "variants": len(outs)}})
	}
	done := 0
	// 0. the witnesses of Props/C08.v replayed on the implementation, and a frequency-skewed corpus in which the
	//    selective trigrams do not cover the disagreeing rune (substring-only matches)
	vfC08One(t, []rune("ςab"), "σab\n", "fixed", false)
	vfC08One(t, []rune("abcİ"), "abci\nxbcİ\n", "fixed", false)
	vfC08One(t, []rune("İabcdef"), "iabcdef\nİab İab İab İab abc abc abc bcd bcd bcd\nIabcdef İabcdef\n", "fixed", false)
	vfC08One(t, []rune("kab"), "Kab kab Kab\n", "fixed", true)
	done += 4
	// 1. every disagreeing rune (the class of the known defect), each run
	for _, c := range disagree {
		rowCase(c, "row:disagreeing")
		done++
	}
	// 2. a sample of the other table rows
	for done < n*6/10 {
		c := tab[r.Intn(len(tab))]
		if c == '\n' {
			continue
		}
		rowCase(c, "row:table")
		done++
	}
	// 2b. near misses: a 7-rune pattern L c R whose middle rune c is NOT covered by the two selective trigrams (the trigrams
	//     containing c are made frequent by extra lines), against the same text with c replaced by an UNRELATED rune of the
	//     same UTF-8 length (a neighbour code point): only the verification step can reject it. Neither evaluation may match it.
	nearPool := []rune{'é', 'ä', 'ö', 'ü', 'ß', 'ж', 'б', 'λ', 'σ', '世', '界', 'あ', 'ǆ', 'İ', 'K', 'ſ', 'ẞ', 'Ω', 'я', 'ç'}
	low := []rune("abcdefghmnpqrtuvwxyz")
	for k := 0; k < n/12+8; k++ {
		c := nearPool[r.Intn(len(nearPool))]
		if r.Chance(40) {
			c = tab[r.Intn(len(tab))]
		}
		var c2 rune
		for _, cand := range []rune{c + 1, c - 1, c ^ 1, c + 2, c ^ 2, c + 16} {
			if cand > 0x7f && utf8.ValidRune(cand) && utf8.RuneLen(cand) == utf8.RuneLen(c) && unicode.ToLower(cand) != unicode.ToLower(c) &&
				!vfC08InOrbit(c, cand) && unicode.IsPrint(cand) {
				c2 = cand
				break
			}
		}
		if c2 == 0 || c < 0x80 {
			continue
		}
		pick3 := func() []rune {
			out := make([]rune, 3)
			for i := range out {
				out[i] = low[r.Intn(len(low))]
			}
			return out
		}
		L, R := pick3(), pick3()
		p := append(append(append([]rune{}, L...), c), R...)
		nm := append(append(append([]rune{}, L...), c2), R...)
		mids := []string{string([]rune{L[1], L[2], c}), string([]rune{L[2], c, R[0]}), string([]rune{c, R[0], R[1]})}
		var lines []string
		lines = append(lines, string(p), string(nm))
		for _, m := range mids {
			lines = append(lines, m+" "+m+" "+m)
		}
		if r.Chance(50) {
			lines = append(lines, strings.ToUpper(string(p)))
		}
		all := true
		for _, x := range p {
			all = all && agree(x)
		}
		vfC08One(t, p, strings.Join(lines, "\n")+"\n", "near-miss", all)
	}
	// 3. random strings over disagreeing runes, their relatives and ASCII
	var pool []rune
	for _, c := range disagree {
		pool = append(pool, vfC08Related(c, sameLower)...)
	}
	pool = append(pool, []rune("abkKsSiI")...)
	for done < n {
		plen := 3 + r.Intn(4)
		p := make([]rune, plen)
		for i := range p {
			if r.Chance(60) {
				p[i] = pool[r.Intn(len(pool))]
			} else {
				p[i] = fill[r.Intn(len(fill))]
			}
		}
		var sb strings.Builder
		nl := 1 + r.Intn(4)
		for l := 0; l < nl; l++ {
			k := 1 + r.Intn(3)
			for j := 0; j < k; j++ {
				if r.Chance(70) { // a case/fold variant of the pattern
					for _, c := range p {
						rel := vfC08Related(c, sameLower)
						sb.WriteRune(rel[r.Intn(len(rel))])
					}
				} else {
					sb.WriteRune(pool[r.Intn(len(pool))])
				}
				if r.Chance(30) {
					sb.WriteByte(' ')
				}
			}
			sb.WriteByte('\n')
		}
		all := true
		for _, x := range p {
			all = all && agree(x)
		}
		vfC08One(t, p, sb.String(), "random", all)
		done++
	}
}
