package index

// C10 correspondence (package-internal part): Builder.Add/flush partition, sortDocuments, pooled postingsBuilder.
// Mapped into /repo/index by `go test -overlay`. The end-to-end part (directory searcher over indexes built under
// different configurations) is harness/overlay/search/zz_verif_c10e2e_test.go.

import (
	"bytes"
	"context"
	"encoding/binary"
	"fmt"
	"os"
	"path/filepath"
	"sort"
	"strings"
	"testing"
	"unicode/utf8"

	"github.com/sourcegraph/zoekt"
	"github.com/sourcegraph/zoekt/query"
)

func vfC10ShardDocs(fn string) ([]string, map[string]bool, error) {
	f, err := os.Open(fn)
	if err != nil {
		return nil, nil, err
	}
	inf, err := NewIndexFile(f)
	if err != nil {
		return nil, nil, err
	}
	s, err := NewSearcher(inf)
	if err != nil {
		return nil, nil, err
	}
	defer s.Close()
	res, err := s.Search(context.Background(), &query.Const{Value: true}, &zoekt.SearchOptions{Whole: true})
	if err != nil {
		return nil, nil, err
	}
	var names []string
	skipped := map[string]bool{}
	for _, fm := range res.Files {
		names = append(names, fm.FileName)
		skipped[fm.FileName] = bytes.HasPrefix(fm.Content, []byte(notIndexedMarker))
	}
	return names, skipped, nil
}

// vfC10Written runs the real writePostings and cuts the written bytes back into (ngram, posting data) pairs.
func vfC10Written(pb *postingsBuilder) (pairs [][2][]byte, coq string) {
	var buf bytes.Buffer
	w := &writer{w: &buf}
	var ngramText, charOffsets, endRunes simpleSection
	var postings compoundSection
	writePostings(w, pb, &ngramText, &charOffsets, &postings, &endRunes)
	b := buf.Bytes()
	n := int(ngramText.sz) / 8
	var xs []string
	for i := 0; i < n; i++ {
		ng := b[int(ngramText.off)+8*i : int(ngramText.off)+8*i+8]
		lo := postings.offsets[i]
		hi := postings.data.off + postings.data.sz
		if i+1 < len(postings.offsets) {
			hi = postings.offsets[i+1]
		}
		data := b[lo:hi]
		pairs = append(pairs, [2][]byte{ng, data})
		xs = append(xs, cTuple(cN(binary.BigEndian.Uint64(ng)), cBytes(data)))
	}
	ws := "[]"
	if len(xs) > 0 {
		ws = cList(xs)
	}
	var ro, er []uint64
	for _, x := range pb.runeOffsets {
		ro = append(ro, uint64(x))
	}
	for _, x := range pb.endRunes {
		er = append(er, uint64(x))
	}
	return pairs, cTuple(ws, cNList(ro), cNList(er), cBool(pb.isPlainASCII))
}

func vfC10Rdoc(data []byte) string {
	var xs []string
	for len(data) > 0 {
		c, sz := rune(data[0]), 1
		if data[0] >= utf8.RuneSelf {
			c, sz = utf8.DecodeRune(data)
		}
		xs = append(xs, cTuple(cN(uint64(c)), cN(uint64(sz))))
		data = data[sz:]
	}
	if len(xs) == 0 {
		return "[]"
	}
	return cList(xs)
}

func TestVerifC10(t *testing.T) {
	r := vfNewRand(vfSeed())
	n := vfN(200)
	tmp, err := os.MkdirTemp(os.Getenv("VERIF_TMP"), "c10-")
	if err != nil {
		t.Fatal(err)
	}
	defer os.RemoveAll(tmp)

	// ================= SortCase: real sortDocuments
	for i := 0; i < n; i++ {
		nd := r.Intn(9)
		var todo []*Document
		var keys []string
		for j := 0; j < nd; j++ {
			d := &Document{Name: strings.Repeat("n", 1+r.Intn(4)), Content: bytes.Repeat([]byte("c"), r.Intn(4)*r.Intn(40))}
			if r.Chance(20) {
				d.SkipReason = SkipReasonTooLarge
				d.Content = nil
			}
			d.Category = []FileCategory{FileCategoryDefault, FileCategoryDefault, FileCategoryDefault, FileCategoryTest, FileCategoryVendored, FileCategoryGenerated, FileCategoryConfig, FileCategoryMissing}[r.Intn(8)]
			d.Symbols = make([]DocumentSection, r.Intn(3))
			d.Branches = make([]string, r.Intn(3))
			todo = append(todo, d)
			keys = append(keys, cApp("mkKey", cBool(d.SkipReason != SkipReasonNone), cBool(d.Category == FileCategoryGenerated), cBool(d.Category == FileCategoryVendored),
				cBool(d.Category == FileCategoryTest), cN(uint64(len(d.Name))), cN(uint64(len(d.Symbols))), cN(uint64(len(d.Content))), cN(uint64(len(d.Branches)))))
		}
		orig := map[*Document]int{}
		for j, d := range todo {
			orig[d] = j
		}
		sorted := append([]*Document(nil), todo...)
		sortDocuments(sorted)
		var obs []uint64
		seen := map[*Document]int{}
		for _, d := range sorted {
			obs = append(obs, uint64(orig[d]))
			seen[d]++
		}
		for _, d := range todo {
			if seen[d] != 1 {
				vfOracleFail("sort:not-a-permutation", "sortDocuments dropped or duplicated a document", map[string]any{"n": nd, "order": obs})
				break
			}
		}
		ks := "[]"
		if len(keys) > 0 {
			ks = cList(keys)
		}
		vfCase(cApp("SortCase", ks, cNList(obs)), vfKey("sort", ks), nd >= 3, []string{"sort", fmt.Sprintf("sort-n=%d", nd)}, map[string]any{"kind": "sort", "n": nd, "order": obs})
	}

	// ================= PostCase: one pooled postingsBuilder, reset between shards; oracle: a fresh builder writes the same
	alphabet := []string{"a", "b", "c", "ab", "abc", "é", "世", "x y", "\n", "\xff", "abcd", "bca", "ééé", " "}
	genDoc := func() []byte {
		var b bytes.Buffer
		for k := r.Intn(8); k > 0; k-- {
			b.WriteString(r.Pick(alphabet))
		}
		if r.Chance(8) {
			b.WriteString(strings.Repeat("ab", 60)) // crosses a runeOffsets sampling point, deltas >= 0x80 later
		}
		return b.Bytes()
	}
	np := 4 + n/6
	pooled := newPostingsBuilder(1024)
	pooledUsed := false
	var freshB *postingsBuilder
	for i := 0; i < np; i++ {
		if r.Chance(15) { // now and then start over with a new builder (as when the pool is empty)
			pooled = newPostingsBuilder(1024)
			pooledUsed = false
		}
		if pooledUsed {
			// the model's case starts from a fresh builder: bring the pooled one into "some reachable state" first is the
			// point of the exercise, so cases are chained: every case begins with reset() of whatever the previous left.
			pooled.reset()
		}
		ns := 1 + r.Intn(3)
		var shardsCoq, obsCoq []string
		var sample []any
		nonASCII := false
		for si := 0; si < ns; si++ {
			if si > 0 {
				pooled.reset()
			}
			var docs [][]byte
			for k := r.Intn(4); k > 0; k-- {
				docs = append(docs, genDoc())
			}
			if si > 0 && r.Chance(30) {
				docs = nil // a shard touching nothing: stale postings would be all that is written
			}
			var dc []string
			for _, d := range docs {
				if _, _, err := pooled.newSearchableString(d, nil); err != nil {
					t.Fatal(err)
				}
				dc = append(dc, vfC10Rdoc(d))
				if !utf8.Valid(d) || len(d) != utf8.RuneCount(d) {
					nonASCII = true
				}
			}
			pooledUsed = true
			pairs, oc := vfC10Written(pooled)
			obsCoq = append(obsCoq, oc)
			if len(dc) == 0 {
				shardsCoq = append(shardsCoq, "[]")
			} else {
				shardsCoq = append(shardsCoq, cList(dc))
			}
			sample = append(sample, map[string]any{"docs": fmt.Sprintf("%q", docs), "ngrams": len(pairs)})
			// ---- oracle: a builder that has never been used writes byte-identical postings
			if si > 0 || r.Chance(30) {
				if freshB == nil || true {
					freshB = newPostingsBuilder(1024)
				}
				for _, d := range docs {
					freshB.newSearchableString(d, nil)
				}
				fp, foc := vfC10Written(freshB)
				if foc != oc {
					what := "a pooled postingsBuilder after reset() writes different postings than a fresh one"
					vfOracleFail("postings:reuse-differs", what, map[string]any{"shard_docs": fmt.Sprintf("%q", docs), "history": sample,
						"pooled_ngrams": len(pairs), "fresh_ngrams": len(fp), "pooled": oc, "fresh": foc})
				}
			}
		}
		// the model runs the whole chain from a fresh builder; a case that starts on a used builder is only comparable
		// if reset really forgets everything — which is the property. So chain across cases too.
		vfCase(cApp("PostCase", cList(shardsCoq), cList(obsCoq)), vfKey("post", i, shardsCoq), ns >= 2,
			[]string{"post", fmt.Sprintf("post-shards=%d", ns), fmt.Sprintf("post-nonascii=%v", nonASCII)}, map[string]any{"kind": "post", "shards": sample})
	}

	// ================= PartCase: real Builder, the document -> shard assignment
	nb := 5 + n/40
	for bi := 0; bi < nb; bi++ {
		dir := filepath.Join(tmp, fmt.Sprintf("p%d", bi))
		os.MkdirAll(dir, 0o755)
		shardMax := []int{1, 40, 90, 200, 1 << 20}[r.Intn(5)]
		sizeMax := 120
		nd := r.Intn(12)
		type dd struct {
			name    string
			content []byte
		}
		var docs []dd
		for j := 0; j < nd; j++ {
			c := bytes.Repeat([]byte(r.Pick([]string{"foo ", "bar\n", "baz qux "})), r.Intn(12))
			switch {
			case r.Chance(10):
				c = bytes.Repeat([]byte("large "), 30) // > SizeMax: skipped, only the name counts
			case r.Chance(8):
				c = append(c, 0, 1, 2) // binary: skipped
			}
			docs = append(docs, dd{fmt.Sprintf("d%02d%s.txt", j, strings.Repeat("x", r.Intn(20))), c})
		}
		if nd > 0 && r.Chance(60) {
			// put ShardMax exactly ON a running total (predicted weights), so that `>` vs `>=` in the flush rule matters
			k, sum := 1+r.Intn(nd), 0
			for _, d := range docs {
				w := len(d.name)
				if len(d.content) <= sizeMax && bytes.IndexByte(d.content, 0) < 0 {
					w += len(d.content)
				}
				if sum+w > sum && k > 0 {
					sum += w
					k--
				}
				if k == 0 {
					break
				}
			}
			shardMax = sum
			if r.Chance(30) {
				shardMax = sum / 2 // several boundaries
			}
		}
		var observed [][][]uint64 // per parallelism
		var skippedSeen map[string]bool
		for _, par := range []int{1, 3} {
			pdir := filepath.Join(dir, fmt.Sprint("par", par))
			os.MkdirAll(pdir, 0o755)
			opts := Options{IndexDir: pdir, ShardMax: shardMax, SizeMax: sizeMax, Parallelism: par, DisableCTags: true,
				RepositoryDescription: zoekt.Repository{Name: "repo"}}
			b, err := NewBuilder(opts)
			if err != nil {
				t.Fatal(err)
			}
			for _, d := range docs {
				if err := b.Add(Document{Name: d.name, Content: append([]byte(nil), d.content...)}); err != nil {
					t.Fatal(err)
				}
			}
			if err := b.Finish(); err != nil {
				t.Fatal(err)
			}
			shards := (&opts).FindAllShards()
			idx := map[string]uint64{}
			for j, d := range docs {
				idx[d.name] = uint64(j)
			}
			var part [][]uint64
			count := map[string]int{}
			skipped := map[string]bool{}
			for _, fn := range shards {
				names, sk, err := vfC10ShardDocs(fn)
				if err != nil {
					t.Fatal(err)
				}
				var is []uint64
				for _, nm := range names {
					is = append(is, idx[nm])
					count[nm]++
					skipped[nm] = sk[nm]
				}
				sort.Slice(is, func(a, b int) bool { return is[a] < is[b] })
				part = append(part, is)
			}
			for _, d := range docs {
				if count[d.name] != 1 {
					vfOracleFail("partition:lost-or-duplicated", fmt.Sprintf("document %s is in %d shards", d.name, count[d.name]),
						map[string]any{"shard_max": shardMax, "parallelism": par, "docs": len(docs), "partition": part})
					break
				}
			}
			observed = append(observed, part)
			if par == 1 {
				skippedSeen = skipped
			}
			if vfTier() != "thorough" && bi%2 == 1 {
				break // parallel variant only for every other case in the quick tier
			}
		}
		if len(observed) == 2 && fmt.Sprint(observed[0]) != fmt.Sprint(observed[1]) {
			vfOracleFail("partition:parallelism", "the document->shard assignment depends on Parallelism", map[string]any{"shard_max": shardMax, "p1": observed[0], "p3": observed[1]})
		}
		var ws []uint64
		for _, d := range docs {
			w := len(d.name)
			if !skippedSeen[d.name] {
				w += len(d.content)
			}
			ws = append(ws, uint64(w))
		}
		var ps []string
		for _, p := range observed[0] {
			ps = append(ps, cNList(p))
		}
		vfCase(cApp("PartCase", cN(uint64(shardMax)), cNList(ws), cList(ps)), vfKey("part", bi, shardMax, ws), len(observed[0]) >= 2,
			[]string{"part", fmt.Sprintf("part-shards=%d", len(observed[0]))}, map[string]any{"kind": "part", "shard_max": shardMax, "weights": ws, "partition": observed[0]})
	}
}
