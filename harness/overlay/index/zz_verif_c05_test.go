package index

// C05 correspondence + oracle: query.Simplify, query.Map(q, query.ExpandFileContent) and
// indexData.simplify on generated query trees / shard metadata.  Mapped into /repo/index by
// `go test -overlay`.  Observable = the OUTPUT TREE rendered as a Coq term of Model/Query.v's Q;
// oracle = a reference evaluator run on the original and on the rewritten tree over a small corpus.

import (
	"fmt"
	"math"
	"os"
	"regexp/syntax"
	"sort"
	"strings"
	"testing"
	"time"

	"github.com/RoaringBitmap/roaring/v2"
	"github.com/grafana/regexp"

	"github.com/sourcegraph/zoekt"
	"github.com/sourcegraph/zoekt/query"
)

// ---------------------------------------------------------------- world: shard metadata + corpus

type vfC05Doc struct {
	Repo     int
	Name     string
	Content  string
	Branches []string
	Lang     string
}

type vfC05World struct {
	Repos []zoekt.Repository
	Langs map[string]uint16
	Docs  []vfC05Doc
}

func (w *vfC05World) live(d *vfC05Doc) bool {
	return d.Repo < len(w.Repos) && !w.Repos[d.Repo].Tombstone
}

var (
	vfC05RepoNames = []string{"foo", "bar", "foobar", "x/y", "", "ba"}
	vfC05Words     = []string{"foo", "Foo", "bar", "a", "o", "main", "x", "func", "FOO"}
	vfC05FileNames = []string{"a.go", "foo.c", "Foo.go", "bar/x.py", "README", "o"}
	vfC05Branches  = []string{"HEAD", "main", "dev", "m"}
	vfC05LangPool  = []string{"Go", "C", "Python", ""}
	vfC05MetaKeys  = []string{"k", "team"}
	vfC05MetaVals  = []string{"foo", "bar", "", "x"}
)

func vfC05GenWorld(r *vfRand) *vfC05World {
	w := &vfC05World{Langs: map[string]uint16{}}
	nr := r.Intn(5)
	if r.Chance(70) && nr == 0 {
		nr = 1 + r.Intn(3)
	}
	allTomb := r.Chance(5)
	for i := 0; i < nr; i++ {
		repo := zoekt.Repository{ID: uint32(1 + r.Intn(6)), Name: r.Pick(vfC05RepoNames)}
		repo.Tombstone = allTomb || r.Chance(25)
		if r.Chance(70) {
			repo.RawConfig = map[string]string{}
			for _, f := range []string{"public", "fork", "archived"} {
				switch r.Intn(8) {
				case 0, 1, 2:
					repo.RawConfig[f] = "1"
				case 3, 4:
					repo.RawConfig[f] = "0"
				case 5:
					repo.RawConfig[f] = r.Pick([]string{"", "true", "11", "2"}) // anything but "1" counts as no
				}
			}
			if r.Chance(20) {
				repo.RawConfig[r.Pick([]string{"priority", "Public", "forks"})] = "1" // other keys are ignored
			}
		}
		if r.Chance(60) {
			repo.Metadata = map[string]string{}
			for _, k := range vfC05MetaKeys {
				if r.Chance(60) {
					repo.Metadata[k] = r.Pick(vfC05MetaVals)
				}
			}
		}
		w.Repos = append(w.Repos, repo)
	}
	nd := 4 + r.Intn(3)
	for i := 0; i < nd; i++ {
		d := vfC05Doc{Name: r.Pick(vfC05FileNames), Lang: r.Pick(vfC05LangPool)}
		if nr > 0 {
			d.Repo = r.Intn(nr)
			if i < nr && r.Chance(85) { // usually every repository has a document
				d.Repo = i
			}
		}
		nw := r.Intn(4)
		var ws []string
		for j := 0; j < nw; j++ {
			ws = append(ws, r.Pick(vfC05Words))
		}
		d.Content = strings.Join(ws, " ")
		d.Branches = []string{r.Pick(vfC05Branches)}
		if r.Chance(30) {
			d.Branches = append(d.Branches, r.Pick(vfC05Branches))
		}
		w.Docs = append(w.Docs, d)
		// shard invariant: LanguageMap has a key for the language of every document
		w.Langs[d.Lang] = uint16(len(w.Langs) + 1)
	}
	if r.Chance(30) {
		w.Langs[r.Pick(vfC05LangPool)] = 99
	}
	return w
}

// ---------------------------------------------------------------- tree generator

var vfC05Patterns = []string{"", "a", "foo", "Foo", "bar", "o", "zz"}
var vfC05Regexps = []string{"", "a", "fo+", "(?i)foo", "a|b", "()", "(?:)", "x*", "^$", "bar$", "q"}
var vfC05RepoRegexps = []string{"foo", "^bar$", "", "x", "o+", "^$", "zz"}

func vfC05MustSyntax(p string) *syntax.Regexp {
	re, err := syntax.Parse(p, syntax.Perl)
	if err != nil {
		panic(err)
	}
	return re
}

func vfC05GenBitmap(r *vfRand) *roaring.Bitmap {
	bm := roaring.New()
	n := r.Intn(4)
	for i := 0; i < n; i++ {
		bm.Add(uint32(1 + r.Intn(7)))
	}
	return bm
}

// FileName/Content flags: neither (35%), both (25%), file only (20%), content only (20%)
func vfC05FileContent(r *vfRand) (bool, bool) {
	switch k := r.Intn(100); {
	case k < 35:
		return false, false
	case k < 60:
		return true, true
	case k < 80:
		return true, false
	default:
		return false, true
	}
}

func vfC05GenAtom(r *vfRand) query.Q {
	switch r.Intn(17) {
	case 0:
		return &query.Const{Value: r.Bool()}
	case 1, 2:
		fn, ct := vfC05FileContent(r)
		return &query.Substring{Pattern: r.Pick(vfC05Patterns), CaseSensitive: r.Bool(), FileName: fn, Content: ct}
	case 3, 4:
		fn, ct := vfC05FileContent(r)
		return &query.Regexp{Regexp: vfC05MustSyntax(r.Pick(vfC05Regexps)), CaseSensitive: r.Bool(), FileName: fn, Content: ct}
	case 5:
		if r.Bool() {
			return &query.Symbol{Expr: &query.Substring{Pattern: r.Pick(vfC05Patterns)}}
		}
		return &query.Symbol{Expr: &query.Regexp{Regexp: vfC05MustSyntax(r.Pick(vfC05Regexps))}}
	case 6:
		return &query.Language{Language: r.Pick([]string{"Go", "C", "Python", "", "Rust"})}
	case 7:
		return &query.Repo{Regexp: regexp.MustCompile(r.Pick(vfC05RepoRegexps))}
	case 8:
		return &query.RepoRegexp{Regexp: regexp.MustCompile(r.Pick(vfC05RepoRegexps))}
	case 9:
		br := &query.BranchesRepos{}
		n := r.Intn(4)
		for i := 0; i < n; i++ {
			br.List = append(br.List, query.BranchRepos{Branch: r.Pick([]string{"HEAD", "main", "dev", "m", ""}), Repos: vfC05GenBitmap(r)})
		}
		return br
	case 10:
		return &query.RepoIDs{Repos: vfC05GenBitmap(r)}
	case 11:
		rs := &query.RepoSet{Set: map[string]bool{}}
		n := r.Intn(4)
		for i := 0; i < n; i++ {
			rs.Set[r.Pick(vfC05RepoNames)] = !r.Chance(12)
		}
		return rs
	case 12:
		fs := &query.FileNameSet{Set: map[string]struct{}{}}
		n := r.Intn(3)
		for i := 0; i < n; i++ {
			fs.Set[r.Pick(vfC05FileNames)] = struct{}{}
		}
		return fs
	case 13:
		return &query.Branch{Pattern: r.Pick([]string{"", "HEAD", "main", "m", "dev", "zz"}), Exact: r.Chance(40)}
	case 14:
		return &query.Meta{Field: r.Pick([]string{"k", "team", "nope"}), Value: regexp.MustCompile(r.Pick(vfC05RepoRegexps))}
	case 15:
		flags := []query.RawConfig{query.RcOnlyPublic, query.RcOnlyPrivate, query.RcOnlyForks, query.RcNoForks, query.RcOnlyArchived, query.RcNoArchived}
		var rc query.RawConfig
		n := r.Intn(4)
		for i := 0; i < n; i++ {
			rc |= flags[r.Intn(len(flags))]
		}
		if r.Chance(8) {
			rc |= 256
		}
		return rc
	default:
		return &query.Const{Value: r.Bool()}
	}
}

// the atoms indexData.simplify decides per shard (drawn from vfC05GenAtom by rejection)
func vfC05GenShardAtom(r *vfRand) query.Q {
	for {
		a := vfC05GenAtom(r)
		switch a.(type) {
		case *query.Repo, *query.RepoRegexp, *query.BranchesRepos, *query.RepoSet, query.RawConfig, *query.RepoIDs, *query.Language, *query.Meta:
			return a
		}
	}
}

// Boost weights arrive over gRPC as proto doubles: every float64 bit pattern is a possible weight.  Half of the
// Boost nodes carry an ordinary weight, the other half NaN (two payloads: NaN != NaN, so any rewrite/harness
// code comparing trees by value instead of by bits would never see a fixpoint), +-Inf, +-0, negative, huge, denormal.
// Trees are compared through their Coq rendering (math.Float64bits), never with == / reflect.DeepEqual.
var vfC05BoostWeights = []float64{0.5, 1, 2, 0.5, 1, 2, 1.5, 20,
	math.NaN(), math.Float64frombits(0xfff8000000000000), math.Inf(1), math.Inf(-1), 0, math.Copysign(0, -1), -1, math.MaxFloat64, 5e-324}

func vfC05BoostWeight(r *vfRand) float64 { return vfC05BoostWeights[r.Intn(len(vfC05BoostWeights))] }

func vfC05GenTree(r *vfRand, depth int) query.Q {
	if depth <= 0 || r.Chance(30) {
		return vfC05GenAtom(r)
	}
	switch r.Intn(10) {
	case 0, 1, 2:
		return &query.And{Children: vfC05GenChildren(r, depth)}
	case 3, 4, 5:
		return &query.Or{Children: vfC05GenChildren(r, depth)}
	case 6, 7:
		return &query.Not{Child: vfC05GenTree(r, depth-1)}
	case 8:
		return &query.Type{Type: uint8(r.Intn(3)), Child: vfC05GenTree(r, depth-1)}
	default:
		return &query.Boost{Boost: vfC05BoostWeight(r), Child: vfC05GenTree(r, depth-1)}
	}
}

func vfC05GenChildren(r *vfRand, depth int) []query.Q {
	n := r.Intn(4)
	if r.Chance(15) {
		n = 1
	}
	if n == 0 && r.Bool() {
		return nil // nil vs empty slice
	}
	cs := make([]query.Q, 0, n)
	for i := 0; i < n; i++ {
		cs = append(cs, vfC05GenTree(r, depth-1))
	}
	return cs
}

// ---------------------------------------------------------------- canonical rendering as a Coq term

func vfC05QList(qs []query.Q) string {
	if len(qs) == 0 {
		return "[]"
	}
	ss := make([]string, len(qs))
	for i, q := range qs {
		ss[i] = vfC05Coq(q)
	}
	return cList(ss)
}

func vfC05Rx(re *syntax.Regexp) string {
	return "{| rx_src := " + cStr(re.String()) + "; rx_op := " + cN(uint64(re.Op)) + " |}"
}

func vfC05Ids(bm *roaring.Bitmap) string {
	var ids []uint64
	if bm != nil {
		for _, x := range bm.ToArray() {
			ids = append(ids, uint64(x))
		}
	}
	return cNList(ids)
}

func vfC05Coq(q query.Q) string {
	switch s := q.(type) {
	case *query.Const:
		return cApp("QConst", cBool(s.Value))
	case *query.Substring:
		return cApp("QSubstring", cStr(s.Pattern), cBool(s.CaseSensitive), cBool(s.FileName), cBool(s.Content))
	case *query.Regexp:
		return cApp("QRegexp", vfC05Rx(s.Regexp), cBool(s.CaseSensitive), cBool(s.FileName), cBool(s.Content))
	case *query.Symbol:
		return cApp("QSymbol", vfC05Coq(s.Expr))
	case *query.Language:
		return cApp("QLanguage", cStr(s.Language))
	case *query.Repo:
		return cApp("QRepo", cStr(s.Regexp.String()))
	case *query.RepoRegexp:
		return cApp("QRepoRegexp", cStr(s.Regexp.String()))
	case *query.BranchesRepos:
		if len(s.List) == 0 {
			return "(QBranchesRepos [])"
		}
		var l []string
		for _, br := range s.List {
			l = append(l, cPair(cStr(br.Branch), vfC05Ids(br.Repos)))
		}
		return cApp("QBranchesRepos", cList(l))
	case *query.RepoIDs:
		return cApp("QRepoIDs", vfC05Ids(s.Repos))
	case *query.RepoSet:
		if len(s.Set) == 0 {
			return "(QRepoSet [])"
		}
		var l []string
		for _, k := range vfSortedKeys(s.Set) {
			l = append(l, cPair(cStr(k), cBool(s.Set[k])))
		}
		return cApp("QRepoSet", cList(l))
	case *query.FileNameSet:
		if len(s.Set) == 0 {
			return "(QFileNameSet [])"
		}
		var l []string
		for _, k := range vfSortedKeys(s.Set) {
			l = append(l, cStr(k))
		}
		return cApp("QFileNameSet", cList(l))
	case *query.Type:
		return cApp("QType", cN(uint64(s.Type)), vfC05Coq(s.Child))
	case *query.Boost:
		return cApp("QBoost", cN(math.Float64bits(s.Boost)), vfC05Coq(s.Child))
	case *query.Branch:
		return cApp("QBranch", cStr(s.Pattern), cBool(s.Exact))
	case *query.Meta:
		return cApp("QMeta", cStr(s.Field), cStr(s.Value.String()))
	case query.RawConfig:
		return cApp("QRawConfig", cN(uint64(s)))
	case *query.And:
		return cApp("QAnd", vfC05QList(s.Children))
	case *query.Or:
		return cApp("QOr", vfC05QList(s.Children))
	case *query.Not:
		return cApp("QNot", vfC05Coq(s.Child))
	}
	return fmt.Sprintf("(QUNKNOWN_%T)", q)
}

// ---------------------------------------------------------------- reference evaluator (Go oracle)

func vfC05Sel(f func(name bool) bool, fileName, content bool) bool {
	if fileName == content {
		return f(true) || f(false)
	}
	return f(fileName)
}

func vfC05Eval(w *vfC05World, q query.Q, d *vfC05Doc) bool {
	var repo *zoekt.Repository
	if d.Repo < len(w.Repos) {
		repo = &w.Repos[d.Repo]
	}
	onRepo := func(p func(r *zoekt.Repository) bool) bool { return repo != nil && p(repo) }
	switch s := q.(type) {
	case *query.Const:
		return s.Value
	case *query.Substring:
		return vfC05Sel(func(name bool) bool {
			text := d.Content
			if name {
				text = d.Name
			}
			if s.CaseSensitive {
				return strings.Contains(text, s.Pattern)
			}
			return strings.Contains(strings.ToLower(text), strings.ToLower(s.Pattern))
		}, s.FileName, s.Content)
	case *query.Regexp:
		src := s.Regexp.String()
		if !s.CaseSensitive {
			src = "(?i)" + src
		}
		re := regexp.MustCompile(src)
		return vfC05Sel(func(name bool) bool {
			if name {
				return re.MatchString(d.Name)
			}
			return re.MatchString(d.Content)
		}, s.FileName, s.Content)
	case *query.Symbol:
		// opaque atom: some fixed function of (expression, document)
		return vfC05Eval(w, s.Expr, d) && len(d.Content)%2 == 0
	case *query.Language:
		return d.Lang == s.Language
	case *query.Repo:
		return onRepo(func(r *zoekt.Repository) bool { return s.Regexp.MatchString(r.Name) })
	case *query.RepoRegexp:
		return onRepo(func(r *zoekt.Repository) bool { return s.Regexp.MatchString(r.Name) })
	case *query.BranchesRepos:
		for _, br := range s.List {
			for _, b := range d.Branches {
				if b == br.Branch && onRepo(func(r *zoekt.Repository) bool { return br.Repos.Contains(r.ID) }) {
					return true
				}
			}
		}
		return false
	case *query.RepoIDs:
		return onRepo(func(r *zoekt.Repository) bool { return s.Repos.Contains(r.ID) })
	case *query.RepoSet:
		return onRepo(func(r *zoekt.Repository) bool { return s.Set[r.Name] })
	case *query.FileNameSet:
		_, ok := s.Set[d.Name]
		return ok
	case *query.Type:
		return vfC05Eval(w, s.Child, d)
	case *query.Boost:
		return vfC05Eval(w, s.Child, d)
	case *query.Branch:
		for _, b := range d.Branches {
			if (s.Exact && b == s.Pattern) || (!s.Exact && strings.Contains(b, s.Pattern)) {
				return true
			}
		}
		return false
	case *query.Meta:
		return onRepo(func(r *zoekt.Repository) bool {
			v, ok := r.Metadata[s.Field]
			return ok && s.Value.MatchString(v)
		})
	case query.RawConfig:
		// independent of encodeRawConfig: every Only* flag needs the value "1" for its field, every No*/Private flag
		// anything else (incl. absence); bits 6 and 7 of the truncated mask can never be satisfied.
		// A document without repository (empty shard) has mask 0.
		m := uint8(s)
		if repo == nil {
			return m == 0
		}
		for i, f := range []string{"public", "fork", "archived"} {
			one := repo.RawConfig[f] == "1"
			if m>>(2*i)&1 != 0 && !one {
				return false
			}
			if m>>(2*i)&2 != 0 && one {
				return false
			}
		}
		return m>>6 == 0
	case *query.And:
		for _, c := range s.Children {
			if !vfC05Eval(w, c, d) {
				return false
			}
		}
		return true
	case *query.Or:
		for _, c := range s.Children {
			if vfC05Eval(w, c, d) {
				return true
			}
		}
		return false
	case *query.Not:
		return !vfC05Eval(w, s.Child, d)
	}
	panic(fmt.Sprintf("vfC05Eval: unknown node %T", q))
}

// selected documents (bit set over the corpus); liveOnly restricts to documents Search would visit
func vfC05Select(w *vfC05World, q query.Q, liveOnly bool) string {
	var sb strings.Builder
	for i := range w.Docs {
		d := &w.Docs[i]
		switch {
		case liveOnly && !w.live(d):
			sb.WriteByte('-')
		case vfC05Eval(w, q, d):
			sb.WriteByte('1')
		default:
			sb.WriteByte('0')
		}
	}
	return sb.String()
}

// shape of a (shrunk) tree: node kinds with the attributes the rewrites look at; used as finding key
func vfC05Shape(q query.Q) string {
	e := func(empty bool) string {
		if empty {
			return "empty"
		}
		return "nonempty"
	}
	list := func(qs []query.Q) string {
		var ss []string
		for _, c := range qs {
			ss = append(ss, vfC05Shape(c))
		}
		return strings.Join(ss, " ")
	}
	switch s := q.(type) {
	case *query.Const:
		return fmt.Sprint("const:", s.Value)
	case *query.Substring:
		return fmt.Sprintf("substr[%s,file=%v,content=%v]", e(s.Pattern == ""), s.FileName, s.Content)
	case *query.Regexp:
		return fmt.Sprintf("regexp[op=%d,file=%v,content=%v]", s.Regexp.Op, s.FileName, s.Content)
	case *query.Symbol:
		return "symbol"
	case *query.Language:
		return "lang"
	case *query.Repo:
		return "repo"
	case *query.RepoRegexp:
		return "reporegexp"
	case *query.BranchesRepos:
		return fmt.Sprintf("branchesrepos[%d]", len(s.List))
	case *query.RepoIDs:
		return fmt.Sprintf("repoids[%s]", e(s.Repos.IsEmpty()))
	case *query.RepoSet:
		allTrue := true
		for _, v := range s.Set {
			allTrue = allTrue && v
		}
		return fmt.Sprintf("reposet[%s,alltrue=%v]", e(len(s.Set) == 0), allTrue)
	case *query.FileNameSet:
		return fmt.Sprintf("filenameset[%s]", e(len(s.Set) == 0))
	case *query.Type:
		return "(type " + vfC05Shape(s.Child) + ")"
	case *query.Boost:
		return "(boost " + vfC05Shape(s.Child) + ")"
	case *query.Branch:
		return fmt.Sprintf("branch[%s,exact=%v]", e(s.Pattern == ""), s.Exact)
	case *query.Meta:
		return "meta"
	case query.RawConfig:
		return fmt.Sprintf("rawconfig[over8bit=%v]", uint64(s) > 255)
	case *query.And:
		return "(and " + list(s.Children) + ")"
	case *query.Or:
		return "(or " + list(s.Children) + ")"
	case *query.Not:
		return "(not " + vfC05Shape(s.Child) + ")"
	}
	return fmt.Sprintf("%T", q)
}

// one-step shrink candidates: every direct subtree, and the node with one child removed
func vfC05Shrinks(q query.Q) []query.Q {
	var out []query.Q
	drop := func(cs []query.Q, mk func([]query.Q) query.Q) {
		out = append(out, cs...)
		for i := range cs {
			n := append(append([]query.Q{}, cs[:i]...), cs[i+1:]...)
			out = append(out, mk(n))
		}
		for i := range cs {
			for _, sc := range vfC05Shrinks(cs[i]) {
				n := append([]query.Q{}, cs...)
				n[i] = sc
				out = append(out, mk(n))
			}
		}
	}
	switch s := q.(type) {
	case *query.And:
		drop(s.Children, func(cs []query.Q) query.Q { return &query.And{Children: cs} })
	case *query.Or:
		drop(s.Children, func(cs []query.Q) query.Q { return &query.Or{Children: cs} })
	case *query.Not:
		out = append(out, s.Child)
		for _, sc := range vfC05Shrinks(s.Child) {
			out = append(out, &query.Not{Child: sc})
		}
	case *query.Type:
		out = append(out, s.Child)
		for _, sc := range vfC05Shrinks(s.Child) {
			out = append(out, &query.Type{Type: s.Type, Child: sc})
		}
	case *query.Boost:
		out = append(out, s.Child)
		for _, sc := range vfC05Shrinks(s.Child) {
			out = append(out, &query.Boost{Boost: s.Boost, Child: sc})
		}
	}
	return out
}

type vfC05Rewrite struct {
	name     string
	liveOnly bool
	f        func(w *vfC05World, q query.Q) query.Q
}

func vfC05IndexData(w *vfC05World) *indexData {
	return &indexData{
		repoMetaData: w.Repos,
		metaData:     zoekt.IndexMetadata{IndexFeatureVersion: FeatureVersion, LanguageMap: w.Langs},
	}
}

var vfC05Rewrites = []vfC05Rewrite{
	{"Simplify", false, func(w *vfC05World, q query.Q) query.Q { return query.Simplify(q) }},
	{"ExpandFileContent", false, func(w *vfC05World, q query.Q) query.Q { return query.Map(q, query.ExpandFileContent) }},
	{"indexData.simplify", true, func(w *vfC05World, q query.Q) query.Q { return vfC05IndexData(w).simplify(q) }},
}

// does rewrite rw change the selected documents of q in world w?
func vfC05Fails(w *vfC05World, rw *vfC05Rewrite, q query.Q) (bool, string, string, query.Q) {
	before := vfC05Select(w, q, rw.liveOnly)
	out := rw.f(w, q)
	after := vfC05Select(w, out, rw.liveOnly)
	return before != after, before, after, out
}

func vfC05WorldJSON(w *vfC05World) map[string]any {
	var repos []map[string]any
	for _, r := range w.Repos {
		repos = append(repos, map[string]any{"id": r.ID, "name": r.Name, "tombstone": r.Tombstone, "rawconfig": r.RawConfig, "metadata": r.Metadata})
	}
	return map[string]any{"repos": repos, "languageMap": vfSortedKeys(w.Langs), "docs": w.Docs}
}

func vfC05CoqWorld(w *vfC05World, q query.Q) (repos, langs, retab string) {
	var rs []string
	subjects := map[string]bool{}
	for _, r := range w.Repos {
		var meta []string
		for _, k := range vfSortedKeys(r.Metadata) {
			meta = append(meta, cPair(cStr(k), cStr(r.Metadata[k])))
			subjects[r.Metadata[k]] = true
		}
		ml := "[]"
		if len(meta) > 0 {
			ml = cList(meta)
		}
		subjects[r.Name] = true
		var rc []string
		for _, k := range vfSortedKeys(r.RawConfig) {
			rc = append(rc, cPair(cStr(k), cStr(r.RawConfig[k])))
		}
		rcl := "[]"
		if len(rc) > 0 {
			rcl = cList(rc)
		}
		rs = append(rs, cTuple(cBool(r.Tombstone), cN(uint64(r.ID)), cStr(r.Name), rcl, ml))
	}
	repos = "[]"
	if len(rs) > 0 {
		repos = cList(rs)
	}
	var ls []string
	for _, k := range vfSortedKeys(w.Langs) {
		ls = append(ls, cStr(k))
	}
	langs = "[]"
	if len(ls) > 0 {
		langs = cList(ls)
	}
	res := map[string]*regexp.Regexp{}
	query.VisitAtoms(q, func(a query.Q) {
		switch s := a.(type) {
		case *query.Repo:
			res[s.Regexp.String()] = s.Regexp
		case *query.RepoRegexp:
			res[s.Regexp.String()] = s.Regexp
		case *query.Meta:
			res[s.Value.String()] = s.Value
		}
	})
	var tab []string
	srcs := make([]string, 0, len(res))
	for k := range res {
		srcs = append(srcs, k)
	}
	sort.Strings(srcs)
	subj := vfSortedKeys(subjects)
	for _, src := range srcs {
		for _, s := range subj {
			tab = append(tab, cTuple(cStr(src), cStr(s), cBool(res[src].MatchString(s))))
		}
	}
	retab = "[]"
	if len(tab) > 0 {
		retab = cList(tab)
	}
	return
}

// every node of the tree, including the expression below Symbol
func vfC05Walk(q query.Q, f func(query.Q)) {
	f(q)
	switch s := q.(type) {
	case *query.And:
		for _, c := range s.Children {
			vfC05Walk(c, f)
		}
	case *query.Or:
		for _, c := range s.Children {
			vfC05Walk(c, f)
		}
	case *query.Not:
		vfC05Walk(s.Child, f)
	case *query.Type:
		vfC05Walk(s.Child, f)
	case *query.Boost:
		vfC05Walk(s.Child, f)
	case *query.Symbol:
		vfC05Walk(s.Expr, f)
	}
}

// CRef case: the Go reference evaluator's verdict per document, to be compared with the model's eval
func vfC05RefCase(w *vfC05World, q query.Q) string {
	repos, langs, retab := vfC05CoqWorld(w, q)
	subjects := map[string]bool{}
	var docs, sel []string
	for i := range w.Docs {
		d := &w.Docs[i]
		subjects[d.Name], subjects[d.Content] = true, true
		bs := "[]"
		if len(d.Branches) > 1 {
			var l []string
			for _, b := range d.Branches[1:] {
				l = append(l, cStr(b))
			}
			bs = cList(l)
		}
		docs = append(docs, cTuple(cNat(d.Repo), cStr(d.Name), cStr(d.Content), cStr(d.Branches[0]), bs, cStr(d.Lang)))
		sel = append(sel, cBool(vfC05Eval(w, q, d)))
	}
	seen := map[string]bool{}
	var tab []string
	vfC05Walk(q, func(a query.Q) {
		s, ok := a.(*query.Regexp)
		if !ok {
			return
		}
		src := s.Regexp.String()
		k := fmt.Sprint(src, s.CaseSensitive)
		if seen[k] {
			return
		}
		seen[k] = true
		csrc := src
		if !s.CaseSensitive {
			csrc = "(?i)" + src
		}
		re := regexp.MustCompile(csrc)
		for _, subj := range vfSortedKeys(subjects) {
			tab = append(tab, cTuple(cStr(src), cBool(s.CaseSensitive), cStr(subj), cBool(re.MatchString(subj))))
		}
	})
	rxtab := "[]"
	if len(tab) > 0 {
		rxtab = cList(tab)
	}
	return cApp("CRef", repos, langs, retab, rxtab, vfC05Coq(q), cList(docs), cList(sel))
}

// class label of the Boost weights in a tree: "" (no Boost node), "boost=ordinary", or "boost=special"
// / "boost=nan" / "boost=inf" (the strongest kind present: nan > inf > other special values)
func vfC05BoostClass(q query.Q) string {
	rank := map[string]int{"": 0, "boost=ordinary": 1, "boost=special": 2, "boost=inf": 3, "boost=nan": 4}
	best := ""
	up := func(c string) {
		if rank[c] > rank[best] {
			best = c
		}
	}
	var walk func(q query.Q)
	walk = func(q query.Q) {
		switch s := q.(type) {
		case *query.And:
			for _, c := range s.Children {
				walk(c)
			}
		case *query.Or:
			for _, c := range s.Children {
				walk(c)
			}
		case *query.Not:
			walk(s.Child)
		case *query.Type:
			walk(s.Child)
		case *query.Boost:
			switch w := s.Boost; {
			case math.IsNaN(w):
				up("boost=nan")
			case math.IsInf(w, 0):
				up("boost=inf")
			case w <= 0 || w > 1e300 || w < 1e-300:
				up("boost=special")
			default:
				up("boost=ordinary")
			}
			walk(s.Child)
		}
	}
	walk(q)
	return best
}

func vfC05Count(q query.Q) int {
	n := 1
	switch s := q.(type) {
	case *query.And:
		for _, c := range s.Children {
			n += vfC05Count(c)
		}
	case *query.Or:
		for _, c := range s.Children {
			n += vfC05Count(c)
		}
	case *query.Not:
		n += vfC05Count(s.Child)
	case *query.Type:
		n += vfC05Count(s.Child)
	case *query.Boost:
		n += vfC05Count(s.Child)
	}
	return n
}

// A rewrite that does not return (e.g. a fixpoint loop that compares trees by value: NaN != NaN) must end as a
// reported failing input, not as a test timeout: the watchdog records the tree and exits the test binary.
func vfC05Watchdog(what string, replay map[string]any) (stop func()) {
	t := time.AfterFunc(90*time.Second, func() {
		vfOracleFail(what+":does-not-terminate", what+" did not return within 90 s on "+fmt.Sprint(replay["query"]), replay)
		os.Exit(3)
	})
	return func() { t.Stop() }
}

func TestVerifC05(t *testing.T) {
	r := vfNewRand(vfNewRand(vfSeed()).U64()) // the shared splitmix64 seeding makes seed k+1 the stream of seed k shifted by ONE draw: hash the seed first
	n := vfN(300)
	var w *vfC05World
	for i := 0; i < n; i++ {
		if w == nil || i%3 != 1 { // a new world for 2 of 3 trees
			w = vfC05GenWorld(r)
		}
		depth := 1 + r.Intn(4)
		q := vfC05GenTree(r, depth)
		for k := 0; k < 3 && vfC05Count(q) < 3 && r.Chance(85); k++ { // few bare atoms
			q = vfC05GenTree(r, depth+1)
		}
		if i%10 == 0 { // deep nesting of the same kind: several flatten rounds
			for k := 0; k < 2+r.Intn(4); k++ {
				if r.Bool() {
					q = &query.And{Children: []query.Q{q}}
				} else if r.Bool() {
					q = &query.Or{Children: []query.Q{vfC05GenAtom(r), &query.Or{Children: []query.Q{q}}}}
				} else {
					q = &query.And{Children: []query.Q{&query.And{Children: []query.Q{q, vfC05GenAtom(r)}}, vfC05GenAtom(r)}}
				}
			}
		}
		if i%5 == 4 { // focused stream: one or two per-shard atoms in a small context
			q = vfC05GenShardAtom(r)
			switch r.Intn(4) {
			case 0:
				q = &query.Not{Child: q}
			case 1:
				q = &query.And{Children: []query.Q{vfC05GenAtom(r), q}}
			case 2:
				q = &query.Or{Children: []query.Q{q, vfC05GenShardAtom(r)}}
			}
		}
		qCoq := vfC05Coq(q)
		size := vfC05Count(q)
		if i%4 == 0 {
			ref := vfC05RefCase(w, q)
			vfCase(ref, vfKey("ref", ref), size >= 3, []string{"reference-evaluator"}, map[string]any{"rewrite": "reference evaluator", "query": q.String()})
		}
		for ri := range vfC05Rewrites {
			rw := &vfC05Rewrites[ri]
			stop := vfC05Watchdog(rw.name, map[string]any{"rewrite": rw.name, "query": q.String(), "query_coq": qCoq, "boost": vfC05BoostClass(q),
				"world": vfC05WorldJSON(w), "seed": vfSeed(), "n": n, "iteration": i})
			bad, before, after, out := vfC05Fails(w, rw, q)
			stop()
			outCoq := vfC05Coq(out)
			if again := vfC05Coq(q); again != qCoq {
				vfOracleFail(rw.name+":mutates-input", rw.name+" modified the tree it was given",
					map[string]any{"rewrite": rw.name, "query": q.String(), "before": qCoq, "after": again, "seed": vfSeed(), "n": n, "iteration": i})
			}
			if bad {
				// shrink the tree (same world), then classify by shape
				small := q
				for progress := true; progress; {
					progress = false
					for _, c := range vfC05Shrinks(small) {
						if f, _, _, _ := vfC05Fails(w, rw, c); f {
							small, progress = c, true
							break
						}
					}
				}
				_, b2, a2, o2 := vfC05Fails(w, rw, small)
				vfOracleFail(rw.name+":"+vfC05Shape(small),
					rw.name+" changes the set of selected documents: "+small.String()+" => "+o2.String(),
					map[string]any{"rewrite": rw.name, "query": small.String(), "query_coq": vfC05Coq(small), "rewritten": o2.String(),
						"selected_before": b2, "selected_after": a2, "world": vfC05WorldJSON(w),
						"original_query": q.String(), "original_selected_before": before, "original_selected_after": after,
						"seed": vfSeed(), "n": n, "iteration": i})
			}
			var coq string
			switch rw.name {
			case "Simplify":
				coq = cApp("CSimplify", qCoq, outCoq)
			case "ExpandFileContent":
				coq = cApp("CExpand", qCoq, outCoq)
			default:
				repos, langs, retab := vfC05CoqWorld(w, q)
				coq = cApp("CShard", repos, langs, retab, qCoq, outCoq)
			}
			changed := outCoq != qCoq
			class := []string{rw.name, fmt.Sprintf("%s:changed=%v", rw.name, changed), fmt.Sprintf("size=%d", min(size, 12)/3*3)}
			if _, ok := out.(*query.Const); ok {
				class = append(class, rw.name+":out=const")
			}
			if bc := vfC05BoostClass(q); bc != "" {
				class = append(class, bc)
			}
			vfCase(coq, vfKey(rw.name, coq), changed && size >= 3, class,
				map[string]any{"rewrite": rw.name, "query": q.String(), "out": out.String()})
		}
	}
}
