package index

// C29 correspondence + oracle: ranking of real searches over generated corpora (symbols with
// kinds, languages, repo ranks, boosted atoms), line and chunk mode, debug scoring on and off,
// repeated runs; default scorer compared with the Coq model through independently re-derived
// candidate features; BM25 checked by the Go oracle only.

import (
	"bytes"
	"context"
	"crypto/sha1"
	"fmt"
	"math"
	"math/big"
	"os"
	"path"
	"sort"
	"strconv"
	"strings"
	"testing"

	"github.com/sourcegraph/zoekt"
	"github.com/sourcegraph/zoekt/internal/ctags"
	"github.com/sourcegraph/zoekt/query"
)

type vf29Mem struct{ data []byte }

func (s *vf29Mem) Name() string                        { return "vf29" }
func (s *vf29Mem) Close()                              {}
func (s *vf29Mem) Read(off, sz uint32) ([]byte, error) { return s.data[off : off+sz], nil }
func (s *vf29Mem) Size() (uint32, error)               { return uint32(len(s.data)), nil }

type vf29Sym struct {
	Start, End int
	Kind       string
}
type vf29Doc struct {
	Name, Content, Language string
	Syms                    []vf29Sym
}
type vf29Shard struct {
	Repo string
	Rank int
	Docs []vf29Doc
}

var vf29Exts = []string{".go", ".py", ".java", ".md"}
var vf29Langs = map[string]string{".go": "Go", ".py": "Python", ".java": "Java", ".md": "Markdown"}
var vf29Kinds = []string{"function", "class", "struct", "variable", "method", "field", "constant", "interface", "enum", "chapter", "weird", ""}

func vf29GenShards(r *vfRand) []vf29Shard {
	words := []string{"needle", "needle", "Needle", "hay", "stack", "needleX", "xneedle", "foo", "stack_hay", "other", "x.needle", "hayneedle"}
	ns := 1 + r.Intn(3)
	var out []vf29Shard
	id := 0
	ranks := []int{0, 3, 70, 650, 65535}
	rankOff := r.Intn(len(ranks))
	for s := 0; s < ns; s++ {
		sh := vf29Shard{Repo: fmt.Sprintf("repo%d", s), Rank: ranks[(s+rankOff)%len(ranks)]}
		nd := 1 + r.Intn(6)
		for d := 0; d < nd; d++ {
			id++
			ext := ".go"
			if r.Chance(45) {
				ext = r.Pick(vf29Exts)
			}
			var b strings.Builder
			var syms []vf29Sym
			nl := 1 + r.Intn(7)
			for l := 0; l < nl; l++ {
				nw := r.Intn(5)
				for w := 0; w < nw; w++ {
					if w > 0 {
						b.WriteString(r.Pick([]string{" ", " ", ".", "("}))
					}
					word := r.Pick(words)
					st := b.Len()
					b.WriteString(word)
					if r.Chance(30) {
						// a symbol covering the word, part of it, or the word plus more
						s0, e0 := st, b.Len()
						switch r.Intn(4) {
						case 1:
							s0 += r.Intn(2)
						case 2:
							if e0-s0 > 2 {
								e0 -= 1 + r.Intn(2)
							}
						}
						if len(syms) == 0 || syms[len(syms)-1].End <= s0 {
							syms = append(syms, vf29Sym{s0, e0, r.Pick(vf29Kinds)})
						}
					}
				}
				if l < nl-1 || r.Chance(70) {
					b.WriteByte('\n')
				}
			}
			name := fmt.Sprintf("dir/f%d%s", id, ext)
			switch r.Intn(8) {
			case 0:
				name = fmt.Sprintf("dir/needle%s", ext)
				if id > 1 {
					name = fmt.Sprintf("dir%d/needle%s", id, ext)
				}
			case 1:
				name = fmt.Sprintf("needle/f%d%s", id, ext)
			case 2:
				name = fmt.Sprintf("d/xneedle%d%s", id, ext)
			case 3:
				name = fmt.Sprintf("d/stack%d_test%s", id, ext)
			}
			sh.Docs = append(sh.Docs, vf29Doc{Name: name, Content: b.String(), Language: vf29Langs[ext], Syms: syms})
		}
		out = append(out, sh)
	}
	return out
}

func vf29Build(t *testing.T, sh vf29Shard, id int) zoekt.Searcher {
	repo := &zoekt.Repository{ID: uint32(id + 1), Name: sh.Repo, Rank: uint16(sh.Rank)}
	b, err := NewShardBuilder(repo)
	if err != nil {
		t.Fatal(err)
	}
	for _, d := range sh.Docs {
		doc := Document{Name: d.Name, Content: []byte(d.Content), Language: d.Language}
		for _, s := range d.Syms {
			doc.Symbols = append(doc.Symbols, DocumentSection{Start: uint32(s.Start), End: uint32(s.End)})
			doc.SymbolsMetaData = append(doc.SymbolsMetaData, &zoekt.Symbol{Sym: d.Content[s.Start:s.End], Kind: s.Kind})
		}
		if err := b.Add(doc); err != nil {
			t.Fatal(err)
		}
	}
	var buf bytes.Buffer
	if err := b.Write(&buf); err != nil {
		t.Fatal(err)
	}
	s, err := NewSearcher(&vf29Mem{buf.Bytes()})
	if err != nil {
		t.Fatal(err)
	}
	return s
}

type vf29Query struct {
	name    string
	q       query.Q
	weights map[string]float64 // lower-cased pattern -> boost weight
}

// Boost values arrive over gRPC as proto doubles (query.BoostFromProto copies them unchecked) and nested
// boosts multiply (visitMatches: weight*s.boost, starting from 1): every float64, including NaN and +-Inf, can
// be the weight of a match.  vf29Boost wraps child into one or two Boost nodes and returns the product as the
// scorer computes it.
func vf29Boost(r *vfRand, child query.Q) (query.Q, float64, string) {
	ordinary := []float64{2, 0.5, 1.5, 1 + 1e-10, 3, 1}
	special := []float64{math.Inf(1), math.NaN(), math.Inf(-1), 0, -2, 1e300, math.MaxFloat64, 1e100, 1e101, 1e12, 5e-324}
	nested := [][2]float64{{1e200, 1e200}, {0, math.Inf(1)}, {math.Inf(1), 0}, {2, 3}, {1e-200, 1e300}, {-1, math.Inf(-1)}, {math.Inf(1), 0.5}, {1e60, 1e60}}
	switch k := r.Intn(100); {
	case k < 55:
		w := ordinary[r.Intn(len(ordinary))]
		return &query.Boost{Child: child, Boost: w}, w, fmt.Sprint(w)
	case k < 85:
		w := special[r.Intn(len(special))]
		return &query.Boost{Child: child, Boost: w}, w, fmt.Sprint(w)
	default:
		p := nested[r.Intn(len(nested))]
		return &query.Boost{Boost: p[0], Child: &query.Boost{Boost: p[1], Child: child}}, (1 * p[0]) * p[1], fmt.Sprintf("%v x %v", p[0], p[1])
	}
}

// class of a weight (product of the boosts above a match)
func vf29WeightClass(w float64) string {
	switch {
	case math.IsNaN(w):
		return "nan"
	case math.IsInf(w, 1):
		return "+inf"
	case math.IsInf(w, -1):
		return "-inf"
	case w <= 0:
		return "nonpositive"
	case w > 1e99:
		return "huge"
	case w > 1e6:
		return "large"
	}
	return "ordinary"
}

// the strongest weight class of a query (for oracle keys and the class histogram)
func (q *vf29Query) boostClass() string {
	rank := map[string]int{"none": 0, "ordinary": 1, "large": 2, "nonpositive": 3, "huge": 4, "-inf": 5, "nan": 6, "+inf": 7}
	best := "none"
	for _, w := range q.weights {
		if c := vf29WeightClass(w); w != 1 && rank[c] > rank[best] {
			best = c
		}
	}
	return best
}

func vf29GenQuery(r *vfRand) vf29Query {
	sub := func(p string) query.Q { return &query.Substring{Pattern: p} }
	w := map[string]float64{"needle": 1, "stack": 1, "hay": 1}
	shape := r.Intn(12)
	if shape >= 9 { // half of the queries carry a boost
		shape = []int{3, 4, 8}[shape-9]
	}
	switch shape {
	case 0:
		return vf29Query{"needle", sub("needle"), w}
	case 1:
		return vf29Query{"case:yes needle", &query.Substring{Pattern: "needle", CaseSensitive: true}, w}
	case 2:
		return vf29Query{"needle or stack", query.NewOr(sub("needle"), sub("stack")), w}
	case 3:
		b, bw, nm := vf29Boost(r, sub("needle"))
		w["needle"] = bw
		return vf29Query{fmt.Sprintf("boost(%s needle) or stack", nm), query.NewOr(b, sub("stack")), w}
	case 4:
		b, bw, nm := vf29Boost(r, sub("stack"))
		w["stack"] = bw
		return vf29Query{fmt.Sprintf("needle or boost(%s stack) or hay", nm), query.NewOr(sub("needle"), b, sub("hay")), w}
	case 5:
		return vf29Query{"file:needle", &query.Substring{Pattern: "needle", FileName: true}, w}
	case 6:
		return vf29Query{"sym:needle", &query.Symbol{Expr: sub("needle")}, w}
	case 7:
		return vf29Query{"needle and hay", query.NewAnd(sub("needle"), sub("hay")), w}
	default:
		b, bw, nm := vf29Boost(r, query.NewOr(sub("needle"), sub("hay")))
		w["needle"], w["hay"] = bw, bw
		return vf29Query{fmt.Sprintf("boost(%s, needle or hay) or stack", nm), query.NewOr(b, sub("stack")), w}
	}
}

// ---- independent feature extraction (reference implementation of scoreLine's case analysis)
func vf29Class(c byte) int {
	switch {
	case c >= 'a' && c <= 'z':
		return 0
	case c >= 'A' && c <= 'Z':
		return 1
	case c >= '0' && c <= '9':
		return 2
	case c == ' ' || c == '\n':
		return 3
	case c == '.' || c == ',' || c == ';' || c == '"' || c == '\'':
		return 4
	}
	return 5
}

func vf29Rat(f float64) string {
	if math.IsNaN(f) || math.IsInf(f, 0) {
		return "(0%Z, 1%positive)"
	}
	var r big.Rat
	r.SetFloat64(f)
	n, d := r.Num(), r.Denom()
	if n.Sign() < 0 {
		return fmt.Sprintf("((%s)%%Z, %s%%positive)", n.String(), d.String())
	}
	return fmt.Sprintf("(%s%%Z, %s%%positive)", n.String(), d.String())
}

// a weight as the model's xweight: the binary64 value exactly, or its non-finite class
func vf29XW(f float64) string {
	switch {
	case math.IsNaN(f):
		return "XNaN"
	case math.IsInf(f, 1):
		return "XPosInf"
	case math.IsInf(f, -1):
		return "XNegInf"
	}
	var r big.Rat
	r.SetFloat64(f)
	n, d := r.Num(), r.Denom()
	if n.Sign() < 0 {
		return fmt.Sprintf("(XFin (Qmake (%s)%%Z %s%%positive))", n.String(), d.String())
	}
	return fmt.Sprintf("(XFin (Qmake %s%%Z %s%%positive))", n.String(), d.String())
}

func vf29Cand(doc *vf29Doc, fileName bool, off, sz int, weight float64) (string, string) {
	data := doc.Content
	if fileName {
		data = doc.Name
	}
	end := off + sz
	sb := off < len(data) && (off == 0 || vf29Class(data[off-1]) != vf29Class(data[off]))
	eb := end > 0 && (end == len(data) || vf29Class(data[end-1]) != vf29Class(data[end]))
	kind := "(0%N, false, false, false, None)"
	desc := fmt.Sprintf("%q sb=%v eb=%v w=%v", data[off:end], sb, eb, weight)
	if fileName {
		sep := strings.LastIndexByte(data, '/')
		kind = fmt.Sprintf("(1%%N, %v, %v, %v, None)", off == sep+1, end == len(data), sep < off)
		desc += fmt.Sprintf(" file(start=%v end=%v inner=%v)", off == sep+1, end == len(data), sep < off)
	} else {
		best, bestRel := -1, 0.0
		for i, s := range doc.Syms {
			lo, hi := max(s.Start, off), min(s.End, end)
			if hi <= lo || s.End == s.Start {
				continue
			}
			rel := float64(hi-lo) / float64(s.End-s.Start)
			if rel > bestRel {
				best, bestRel = i, rel
			}
		}
		if best >= 0 {
			s := doc.Syms[best]
			ks := scoreSymbolKind(doc.Language, []byte(doc.Name), []byte(doc.Content[s.Start:s.End]), ctags.ParseSymbolKind(s.Kind))
			kind = fmt.Sprintf("(2%%N, %v, %v, false, Some %s)", s.Start == off, s.End == end, vf29Rat(ks))
			desc += fmt.Sprintf(" sym(%q kind=%q start=%v end=%v kindscore=%v)", doc.Content[s.Start:s.End], s.Kind, s.Start == off, s.End == end, ks)
		}
	}
	return cTuple(cBool(sb), cBool(eb), kind, vf29XW(weight)), desc
}

type vf29MatchObs struct {
	pos   int // position in the file (line number / content start offset)
	score float64
	coq   string // the match's line groups as a Coq term
	desc  []string
}

func vf29LineOf(content string, off int) int { return 1 + strings.Count(content[:off], "\n") }

// describes the matches of one FileMatch in returned order
func vf29Matches(doc *vf29Doc, fm *zoekt.FileMatch, q *vf29Query, chunk bool) ([]vf29MatchObs, bool) {
	ok := true
	weightOf := func(fileName bool, off, sz int) float64 {
		data := doc.Content
		if fileName {
			data = doc.Name
		}
		if off+sz > len(data) {
			ok = false
			return 1
		}
		w, found := q.weights[strings.ToLower(data[off:off+sz])]
		if !found {
			ok = false // whole-filename pseudo match or something this harness does not attribute
			return 1
		}
		return w
	}
	var out []vf29MatchObs
	if !chunk {
		for _, lm := range fm.LineMatches {
			var cs, ds []string
			for _, fr := range lm.LineFragments {
				c, d := vf29Cand(doc, lm.FileName, int(fr.Offset), fr.MatchLength, weightOf(lm.FileName, int(fr.Offset), fr.MatchLength))
				cs = append(cs, c)
				ds = append(ds, d)
			}
			ln := int64(lm.LineNumber)
			if lm.FileName {
				ln = -1
			}
			out = append(out, vf29MatchObs{pos: lm.LineNumber, score: lm.Score, coq: cList([]string{cTuple(cZ(ln), cList(cs))}), desc: ds})
		}
		return out, ok
	}
	for _, cm := range fm.ChunkMatches {
		var groups, ds []string
		var cur []string
		curLine := -2
		flush := func() {
			if len(cur) > 0 {
				groups = append(groups, cTuple(cZ(int64(curLine)), cList(cur)))
			}
			cur = nil
		}
		for _, rg := range cm.Ranges {
			off, sz := int(rg.Start.ByteOffset), int(rg.End.ByteOffset-rg.Start.ByteOffset)
			ln := -1
			if !cm.FileName {
				ln = vf29LineOf(doc.Content, off)
			}
			if ln != curLine {
				flush()
				curLine = ln
			}
			c, d := vf29Cand(doc, cm.FileName, off, sz, weightOf(cm.FileName, off, sz))
			cur = append(cur, c)
			ds = append(ds, d)
		}
		flush()
		out = append(out, vf29MatchObs{pos: int(cm.ContentStart.ByteOffset), score: cm.Score, coq: cList(groups), desc: ds})
	}
	return out, ok
}

type vf29Run struct {
	files []zoekt.FileMatch
}

func vf29Search(t *testing.T, searchers []zoekt.Searcher, q query.Q, opts *zoekt.SearchOptions) []zoekt.FileMatch {
	var all []zoekt.FileMatch
	for _, s := range searchers {
		res, err := s.Search(context.Background(), q, opts)
		if err != nil {
			t.Fatal(err)
		}
		all = append(all, res.Files...)
	}
	SortFiles(all)
	return all
}

func vf29AtomCount(debug string) int {
	// "... atom(3):266.67, ..." (absent when the atom score is 0, i.e. a single atom)
	i := strings.Index(debug, "atom(")
	if i < 0 {
		return 1
	}
	n := 0
	fmt.Sscanf(debug[i:], "atom(%d)", &n)
	return n
}

func vf29Sig(fs []zoekt.FileMatch, chunk bool) string {
	var b strings.Builder
	for _, f := range fs {
		fmt.Fprintf(&b, "%s/%s:%x[", f.Repository, f.FileName, math.Float64bits(f.Score))
		if chunk {
			for _, m := range f.ChunkMatches {
				fmt.Fprintf(&b, "%d:%x,", m.ContentStart.ByteOffset, math.Float64bits(m.Score))
			}
		} else {
			for _, m := range f.LineMatches {
				fmt.Fprintf(&b, "%d:%x,", m.LineNumber, math.Float64bits(m.Score))
			}
		}
		b.WriteString("]")
	}
	return b.String()
}

func TestVerifC29(t *testing.T) {
	r := vfNewRand(vfSeed() + 2929)
	n := vfN(200)
	stats := map[string]int{}
	for i := 0; i < n; i++ {
		shards := vf29GenShards(r)
		var searchers []zoekt.Searcher
		docOf := map[string]*vf29Doc{}
		docIdx := map[string]int{}
		shardOf := map[string]*vf29Shard{}
		for si := range shards {
			searchers = append(searchers, vf29Build(t, shards[si], si))
			for di := range shards[si].Docs {
				k := shards[si].Repo + "/" + shards[si].Docs[di].Name
				docOf[k] = &shards[si].Docs[di]
				docIdx[k] = di
				shardOf[k] = &shards[si]
			}
		}
		for rep := 0; rep < 2; rep++ {
			q := vf29GenQuery(r)
			chunk := r.Chance(50)
			bm25 := r.Chance(25)
			base := zoekt.SearchOptions{ChunkMatches: chunk, NumContextLines: r.Intn(2), UseBM25Scoring: bm25}
			dbg := base
			dbg.DebugScore = true
			off1 := vf29Search(t, searchers, q.q, &base)
			on := vf29Search(t, searchers, q.q, &dbg)
			replay := map[string]any{"shards": shards, "query": q.name, "chunk_matches": chunk, "bm25": bm25}
			bc := q.boostClass()
			replay["boost_class"] = bc
			fail := func(key, what string) {
				if bc != "none" && bc != "ordinary" {
					key += ":boost=" + bc
				}
				vfOracleFail(key, what, replay)
			}
			// ---- oracle 1: repeatability (bitwise) and debug neutrality
			sig := vf29Sig(off1, chunk)
			for k := 0; k < 4; k++ {
				if s2 := vf29Sig(vf29Search(t, searchers, q.q, &base), chunk); s2 != sig {
					kind := "default"
					if bm25 {
						kind = "bm25"
					}
					fail("determinism:repeated-search-differs:"+kind, "the same search returned different scores/order on repetition: "+sig+" vs "+s2)
					break
				}
			}
			if s2 := vf29Sig(on, chunk); s2 != sig {
				fail("debug-neutrality:scores-or-order-differ", "DebugScore=true changed scores or order: "+sig+" vs "+s2)
			}
			for _, f := range off1 {
				if f.Debug != "" {
					fail("debug-neutrality:debug-string-without-flag", "FileMatch.Debug set without DebugScore")
				}
			}
			// ---- oracle 2: finite, matches sorted, files sorted except the promotion
			for _, f := range off1 {
				if math.IsNaN(f.Score) || math.IsInf(f.Score, 0) {
					fail("finite:file-score", fmt.Sprintf("file score %v", f.Score))
				}
				prev := math.Inf(1)
				for _, m := range f.LineMatches {
					if math.IsNaN(m.Score) || math.IsInf(m.Score, 0) {
						fail("finite:match-score", fmt.Sprintf("line score %v", m.Score))
					}
					if !(prev >= m.Score) { // NaN-robust: a NaN score is out of order
						fail("order:matches-not-non-increasing", "line matches of "+f.FileName+" not ordered by non-increasing score")
					}
					prev = m.Score
				}
				prev = math.Inf(1)
				for _, m := range f.ChunkMatches {
					if math.IsNaN(m.Score) || math.IsInf(m.Score, 0) {
						fail("finite:match-score", fmt.Sprintf("chunk score %v", m.Score))
					}
					if !(prev >= m.Score) { // NaN-robust: a NaN score is out of order
						fail("order:matches-not-non-increasing", "chunk matches of "+f.FileName+" not ordered by non-increasing score")
					}
					prev = m.Score
				}
			}
			promoted := false
			sortedFrom := func(fs []zoekt.FileMatch) bool {
				for a := 1; a < len(fs); a++ {
					if !(fs[a-1].Score >= fs[a].Score) { // NaN-robust
						return false
					}
				}
				return true
			}
			if !sortedFrom(off1) {
				// the only allowed shape: element 2 promoted; without it the list is sorted; it is novel
				// and scores >= 0.9 x the file it displaced
				var rest []zoekt.FileMatch
				if len(off1) > 3 {
					rest = append(append([]zoekt.FileMatch{}, off1[:2]...), off1[3:]...)
				}
				novel := len(off1) > 3 && path.Ext(off1[2].FileName) != path.Ext(off1[0].FileName) && path.Ext(off1[2].FileName) != path.Ext(off1[1].FileName)
				if len(off1) <= 3 || !sortedFrom(rest) || !novel || !(off1[2].Score >= off1[3].Score*0.9) {
					fail("order:files-not-sorted-beyond-documented-promotion", "files are not in non-increasing score order up to one novel-extension promotion into third place: "+sig)
				}
				promoted = true
			}
			stats["boost="+bc]++
			if bm25 {
				stats["bm25"]++
				stats["bm25:boost="+bc]++
				continue
			}
			// ---- correspondence case (default scorer)
			// A large boost absorbs the tie-breaking terms: files whose scores differ exactly get bit-equal binary64 scores
			// and sort.Sort leaves them in an unspecified order.  The model's comparison tolerates that (rank-wise and
			// identity-wise score agreement) unless boostNovelExtension is active (> 3 files): which file is promoted depends
			// on which of the tied files sit in the first two places, i.e. on the unspecified order.  Those results are
			// checked by the oracles above only.
			if len(off1) > 3 {
				seen := map[uint64]bool{}
				tie := false
				for _, f := range off1 {
					b := math.Float64bits(f.Score)
					if seen[b] {
						tie = true
					}
					seen[b] = true
				}
				if tie {
					stats["skipped:binary64-file-score-ties-with-promotion-active"]++
					continue
				}
			}
			attributable := true
			build := func(fs []zoekt.FileMatch) (string, []string) {
				var obs, descs []string
				for fi := range fs {
					f := &fs[fi]
					k := f.Repository + "/" + f.FileName
					doc := docOf[k]
					ms, ok := vf29Matches(doc, f, &q, chunk)
					if !ok {
						attributable = false
					}
					// index in file order
					idx := make([]int, len(ms))
					order := make([]int, len(ms))
					for a := range order {
						order[a] = a
					}
					sort.SliceStable(order, func(a, b int) bool { return ms[order[a]].pos < ms[order[b]].pos })
					for rank, a := range order {
						idx[a] = rank
					}
					var mo []string
					for a := range ms {
						mo = append(mo, cTuple(cN(uint64(idx[a])), vf29Rat(ms[a].score)))
					}
					mol := "(@nil (N * rq))"
					if len(mo) > 0 {
						mol = cList(mo)
					}
					obs = append(obs, cTuple(cN(uint64(vf29FileID(k))), vf29Rat(f.Score), mol))
					descs = append(descs, fmt.Sprintf("%s score=%v", k, f.Score))
				}
				if len(obs) == 0 {
					return "(@nil (N * rq * list (N * rq)))", descs
				}
				return cList(obs), descs
			}
			obsOff, descs := build(off1)
			obsOn, _ := build(on)
			// inputs, in file-order of matches, taken from the debug run (atom count from the debug string)
			var ins []string
			multi := false
			for fi := range on {
				f := &on[fi]
				k := f.Repository + "/" + f.FileName
				doc := docOf[k]
				ms, _ := vf29Matches(doc, f, &q, chunk)
				sort.SliceStable(ms, func(a, b int) bool { return ms[a].pos < ms[b].pos })
				var ml []string
				for _, m := range ms {
					ml = append(ml, m.coq)
				}
				if len(ms) > 1 {
					multi = true
				}
				mls := "(@nil (list (Z * list rcand)))"
				if len(ml) > 0 {
					mls = cList(ml)
				}
				sh := shardOf[k]
				ins = append(ins, cTuple(cN(uint64(vf29FileID(k))), cN(vf29ExtID(f.FileName)),
					cTuple(cN(uint64(vf29AtomCount(f.Debug))), cZ(int64(sh.Rank)), cZ(int64(docIdx[k])), cZ(int64(len(sh.Docs)+1))), mls))
			}
			if !attributable {
				stats["unattributable"]++
				continue
			}
			if len(ins) == 0 {
				stats["empty"]++
				continue
			}
			// tfScore samples (formula and generated k, b): L = j/16 is exact in binary64
			var tfs []string
			for j := 0; j < 3; j++ {
				L := float64(r.Intn(80)) / 16
				f := r.Intn(40)
				tfs = append(tfs, cTuple(vf29Rat(L), cZ(int64(f)), vf29Rat(tfScore(vf29EnvFloat("VERIF_BM25_K", 1.2), vf29EnvFloat("VERIF_BM25_B", 0.75), L, f))))
			}
			coq := cTuple(cTuple(cList(ins), obsOff, obsOn), cList(tfs))
			class := []string{fmt.Sprintf("chunk=%v", chunk), fmt.Sprintf("files=%d", min(len(on), 6)), fmt.Sprintf("promoted=%v", promoted), "q=" + strings.SplitN(q.name, "(", 2)[0], "boost=" + bc}
			vfCase(coq, fmt.Sprintf("%x", sha1.Sum([]byte(coq))), len(on) >= 2 && multi, class,
				map[string]any{"query": q.name, "chunk": chunk, "files": descs})
		}
	}
	info := map[string]any{"what": "C29 searches"}
	for k, v := range stats {
		info[k] = v
	}
	vfInfo(info)
}

func vf29ExtID(name string) uint64 {
	e := path.Ext(name)
	for k, x := range vf29Exts {
		if x == e {
			return uint64(k)
		}
	}
	return 99
}

func vf29EnvFloat(name string, def float64) float64 {
	if v, err := strconv.ParseFloat(os.Getenv(name), 64); err == nil {
		return v
	}
	return def
}

func vf29FileID(k string) uint32 {
	h := sha1.Sum([]byte(k))
	return uint32(h[0])<<16 | uint32(h[1])<<8 | uint32(h[2])
}
