package index

// C16 correspondence + oracle: random simple shards -> index.Merge -> (tombstone) -> Merge again -> explode.
// For every step the encoded inputs (as held by indexData) and the decoded outputs are emitted as a Coq case
// for Model/MergeDocs.v, and the property itself is evaluated with a fixed query battery (Search + List) over
// inputs vs outputs.

import (
	"context"
	"errors"
	"fmt"
	"os"
	"path/filepath"
	"sort"
	"strconv"
	"strings"
	"testing"

	"github.com/grafana/regexp"
	"github.com/sourcegraph/zoekt"
	"github.com/sourcegraph/zoekt/query"
)

// ---- string table (0 = "")

// "sym:||" (metadata present, all fields empty) has the fixed id 1: Model/MergeDocs.v empty_meta
var c16Strs = map[string]uint64{"": 0, "sym:||": 1}

func c16S(s string) uint64 {
	if v, ok := c16Strs[s]; ok {
		return v
	}
	v := uint64(len(c16Strs))
	c16Strs[s] = v
	return v
}

func c16Ns(xs []string) string {
	ids := make([]uint64, len(xs))
	for i, x := range xs {
		ids[i] = c16S(x)
	}
	return cNList(ids)
}

// ---- generator

type c16RepoSpec struct {
	repo   zoekt.Repository
	docs   []Document
	wide   bool // 33..64 branches
	noMeta bool // symbol sections without symbol metadata
}

var c16Words = []string{"foo", "bar", "baz", "main", "helper", "zoekt", "x1", "alpha"}

func c16GenRepo(r *vfRand, id int, prio int) c16RepoSpec {
	name := fmt.Sprintf("r%d", id)
	allBr := []string{"main", "dev", "release", "HEAD"}
	nb := 1 + r.Intn(3)
	wide := r.Chance(25)
	if wide {
		// a repository may have up to 64 branches (setRepository); the branch mask is a uint64
		nb = 33 + r.Intn(32)
		if r.Chance(30) {
			nb = 64
		}
	}
	off := r.Intn(len(allBr))
	var brs []zoekt.RepositoryBranch
	for i := 0; i < nb; i++ {
		bn := allBr[(off+i)%len(allBr)]
		if i >= len(allBr) {
			bn = fmt.Sprintf("w%d", i)
		}
		brs = append(brs, zoekt.RepositoryBranch{Name: bn, Version: fmt.Sprintf("v%d.%d", id, i)})
	}
	// a shard built from documents that carry symbol sections but no symbol metadata (Document.Symbols set,
	// SymbolsMetaData nil): symbolData.data returns nil for them
	noMeta := r.Chance(20)
	repo := zoekt.Repository{Name: name, ID: uint32(id), Branches: brs, RawConfig: map[string]string{"priority": strconv.Itoa(prio)}}
	subs := []string{}
	if r.Chance(40) {
		repo.SubRepoMap = map[string]*zoekt.Repository{}
		for _, p := range []string{"sub", "vendor/lib"} {
			if r.Chance(60) {
				repo.SubRepoMap[p] = &zoekt.Repository{Name: name + "/" + p, URL: "http://x/" + p, Branches: append([]zoekt.RepositoryBranch(nil), brs...)}
				subs = append(subs, p)
			}
		}
	}
	spec := c16RepoSpec{repo: repo, wide: wide, noMeta: noMeta}
	nd := 1 + r.Intn(4)
	exts := []string{".go", ".py", ".txt", ".c", ""}
	for j := 0; j < nd; j++ {
		var words []string
		nw := 2 + r.Intn(6)
		for k := 0; k < nw; k++ {
			words = append(words, r.Pick(c16Words))
			if r.Chance(25) {
				words = append(words, "\n")
			}
		}
		content := strings.Join(words, " ")
		if r.Chance(30) {
			content += "\n"
		}
		fname := fmt.Sprintf("%s%d%s", r.Pick([]string{"main", "util", "foo", "README"}), j, r.Pick(exts))
		doc := Document{Name: fname, Content: []byte(content)}
		if len(subs) > 0 && r.Chance(50) {
			doc.SubRepositoryPath = r.Pick(subs)
			doc.Name = doc.SubRepositoryPath + "/" + fname
		}
		// non-empty subset of the repo's branches
		pb := 60
		if wide {
			pb = 8
		}
		for _, b := range brs {
			if r.Chance(pb) {
				doc.Branches = append(doc.Branches, b.Name)
			}
		}
		if wide && r.Chance(70) {
			// a document on one of the branches 33..64 (possibly only there)
			hb := brs[32+r.Intn(nb-32)].Name
			if r.Chance(40) {
				doc.Branches = nil
			}
			seen := false
			for _, b := range doc.Branches {
				seen = seen || b == hb
			}
			if !seen {
				doc.Branches = append(doc.Branches, hb)
			}
		}
		if len(doc.Branches) == 0 {
			doc.Branches = []string{brs[r.Intn(len(brs))].Name}
		}
		if r.Chance(30) {
			doc.Language = r.Pick([]string{"Go", "Python", "C", "Rust"})
		}
		// symbols: occurrences of words, non-overlapping, in order
		if r.Chance(60) {
			pos := 0
			for pos < len(content) && len(doc.Symbols) < 3 {
				w := r.Pick(c16Words)
				i := strings.Index(content[pos:], w)
				if i < 0 {
					break
				}
				st := pos + i
				doc.Symbols = append(doc.Symbols, DocumentSection{Start: uint32(st), End: uint32(st + len(w))})
				if noMeta {
					pos = st + len(w)
					continue
				}
				doc.SymbolsMetaData = append(doc.SymbolsMetaData, &zoekt.Symbol{Sym: w, Kind: r.Pick([]string{"function", "var", "class"}),
					Parent: r.Pick([]string{"", "pkg", "Outer"}), ParentKind: r.Pick([]string{"", "package", "class"})})
				pos = st + len(w)
			}
		}
		if r.Chance(8) {
			doc.Content = append([]byte("bin\x00ary"), doc.Content...)
			doc.Symbols, doc.SymbolsMetaData = nil, nil
		}
		spec.docs = append(spec.docs, doc)
	}
	return spec
}

func c16WriteSimple(t *testing.T, dir string, spec c16RepoSpec) string {
	sb := newShardBuilder(0)
	sb.indexFormatVersion = IndexFormatVersion
	repo := spec.repo
	if err := sb.setRepository(&repo); err != nil {
		t.Fatal(err)
	}
	for _, d := range spec.docs {
		dd := d
		dd.Content = append([]byte(nil), d.Content...)
		dd.Symbols = append([]DocumentSection(nil), d.Symbols...)
		dd.SymbolsMetaData = append([]*zoekt.Symbol(nil), d.SymbolsMetaData...)
		if err := sb.Add(dd); err != nil {
			t.Fatalf("harness: Add: %v", err)
		}
	}
	fn := filepath.Join(dir, fmt.Sprintf("%s_v%d.%05d.zoekt", spec.repo.Name, IndexFormatVersion, 0))
	if err := builderWriteAll(fn, sb); err != nil {
		t.Fatal(err)
	}
	return fn
}

// ---- loading and dumping

type c16Loaded struct {
	path string
	f    *os.File
	inf  IndexFile
	d    *indexData
}

func c16Load(t *testing.T, p string) *c16Loaded {
	f, err := os.Open(p)
	if err != nil {
		t.Fatal(err)
	}
	inf, err := NewIndexFile(f)
	if err != nil {
		t.Fatal(err)
	}
	s, err := NewSearcher(inf)
	if err != nil {
		t.Fatalf("harness: load %s: %v", p, err)
	}
	return &c16Loaded{path: p, f: f, inf: inf, d: s.(*indexData)}
}
func (l *c16Loaded) close() { l.d.Close(); l.f.Close() }

func c16RepoCoq(d *indexData, i int) string {
	md := d.repoMetaData[i]
	var brs []string
	for _, b := range md.Branches {
		brs = append(brs, b.Name)
	}
	return fmt.Sprintf("(Build_srepo %s %s %s %s %s)", cN(uint64(md.ID)), cN(uint64(md.GetPriority())), cBool(md.Tombstone), c16Ns(brs), c16Ns(d.subRepoPaths[i]))
}

func c16Syms(t *testing.T, d *indexData, doc uint32) string {
	secs, _, err := d.readDocSections(doc, nil)
	if err != nil {
		t.Fatal(err)
	}
	var xs []string
	for i, s := range secs {
		sym := d.symbols.data(d.fileEndSymbol[doc] + uint32(i))
		meta := uint64(0) // no metadata stored for this section (symbolData.data returns nil)
		if sym != nil {
			meta = c16S("sym:" + sym.Kind + "|" + sym.Parent + "|" + sym.ParentKind)
		}
		xs = append(xs, cTuple(cN(uint64(s.Start)), cN(uint64(s.End)), cN(meta)))
	}
	if len(xs) == 0 {
		return "(@nil (N * N * N))"
	}
	return cList(xs)
}

// encoded shard as a Coq term
func c16ShardCoq(t *testing.T, d *indexData) string {
	var repos, docs []string
	for i := range d.repoMetaData {
		repos = append(repos, c16RepoCoq(d, i))
	}
	maxCode := -1
	for c := range d.languageMap {
		if int(c) > maxCode {
			maxCode = int(c)
		}
	}
	var langs []string
	for c := 0; c <= maxCode; c++ {
		langs = append(langs, d.languageMap[uint16(c)])
	}
	for doc := uint32(0); int(doc) < len(d.fileBranchMasks); doc++ {
		content, err := d.readContents(doc)
		if err != nil {
			t.Fatal(err)
		}
		repoID := int(d.repos[doc])
		nb := len(d.repoMetaData[repoID].Branches)
		mask := d.fileBranchMasks[doc]
		var bits []string
		for i := 0; i < nb || mask>>uint(i) != 0; i++ {
			bits = append(bits, cBool(mask>>uint(i)&1 == 1))
		}
		bl := "(@nil bool)"
		if len(bits) > 0 {
			bl = cList(bits)
		}
		cat, _ := d.getCategory(doc).encode()
		docs = append(docs, fmt.Sprintf("(Build_sdoc %s %s %s %s %s %s %s %s)", cN(c16S("name:"+string(d.fileName(doc)))), cN(c16S("content:"+string(content))),
			cNat(repoID), bl, cNat(int(d.getLanguage(doc))), cNat(int(d.subRepos[doc])), c16Syms(t, d, doc), cN(uint64(cat))))
	}
	lst := func(xs []string, ty string) string {
		if len(xs) == 0 {
			return "(@nil " + ty + ")"
		}
		return cList(xs)
	}
	return fmt.Sprintf("(Build_shard %s %s %s)", lst(repos, "srepo"), c16Ns(langs), lst(docs, "sdoc"))
}

// decoded view of a shard (what addDocument would read) + repo list, as a Coq oshard
func c16ViewCoq(t *testing.T, d *indexData) (string, int) {
	var repos, ents []string
	for i := range d.repoMetaData {
		repos = append(repos, c16RepoCoq(d, i))
	}
	for doc := uint32(0); int(doc) < len(d.fileBranchMasks); doc++ {
		repoID := int(d.repos[doc])
		if d.repoMetaData[repoID].Tombstone {
			continue
		}
		content, err := d.readContents(doc)
		if err != nil {
			t.Fatal(err)
		}
		// bit i of the mask = branch i of the repository (all 64 bits; NOT addDocument's own walk)
		var brs []string
		mask := d.fileBranchMasks[doc]
		for i := 0; i < 64; i++ {
			if mask>>uint(i)&1 == 1 {
				if i < len(d.repoMetaData[repoID].Branches) {
					brs = append(brs, d.repoMetaData[repoID].Branches[i].Name)
				} else {
					brs = append(brs, "")
				}
			}
		}
		cat, _ := d.getCategory(doc).encode()
		dd := fmt.Sprintf("(Build_ddoc %s %s %s %s %s %s %s)", cN(c16S("name:"+string(d.fileName(doc)))), cN(c16S("content:"+string(content))), c16Ns(brs),
			cN(c16S(d.languageMap[d.getLanguage(doc)])), cN(c16S(d.subRepoPaths[repoID][d.subRepos[doc]])), c16Syms(t, d, doc), cN(uint64(cat)))
		ents = append(ents, cPair(cN(uint64(d.repoMetaData[repoID].ID)), dd))
	}
	lst := func(xs []string, ty string) string {
		if len(xs) == 0 {
			return "(@nil " + ty + ")"
		}
		return cList(xs)
	}
	return cPair(lst(repos, "srepo"), lst(ents, "(N * ddoc)")), len(ents)
}

// ---- the property itself: a fixed battery of searches + List over a set of shards

func c16Battery() map[string]query.Q {
	sub := func(p string) query.Q { return &query.Substring{Pattern: p, Content: true} }
	return map[string]query.Q{
		"all":          &query.Const{Value: true},
		"foo":          sub("foo"),
		"bar-cs":       &query.Substring{Pattern: "bar", Content: true, CaseSensitive: true},
		"file:main":    &query.Substring{Pattern: "main", FileName: true},
		"file:sub/":    &query.Substring{Pattern: "sub/", FileName: true},
		"branch:dev":   query.NewAnd(&query.Branch{Pattern: "dev"}, sub("a")),
		"branch:=main": query.NewAnd(&query.Branch{Pattern: "main", Exact: true}, &query.Const{Value: true}),
		"lang:Go":      &query.Language{Language: "Go"},
		"lang:Python":  query.NewAnd(&query.Language{Language: "Python"}, sub("foo")),
		"sym:foo":      &query.Symbol{Expr: &query.Substring{Pattern: "foo", Content: true}},
		"sym:helper":   &query.Symbol{Expr: &query.Substring{Pattern: "helper", Content: true}},
		"re:ba[rz]":    &query.Regexp{Regexp: mustParseRE("ba[rz] "), Content: true},
		"not-foo":      query.NewAnd(&query.Not{Child: sub("foo")}, sub("bar")),
		"repo:r1":      query.NewAnd(&query.Repo{Regexp: regexp.MustCompile("r1")}, &query.Const{Value: true}),
		"binary":       sub("NOT-INDEXED"),
		"branch:=w40":  query.NewAnd(&query.Branch{Pattern: "w40", Exact: true}, &query.Const{Value: true}),
		"branch:w5":    query.NewAnd(&query.Branch{Pattern: "w5"}, sub("a")),
	}
}

// proj: a fragment's SymbolInfo whose Kind, Parent and ParentKind are all empty is rendered like a missing SymbolInfo
// (only used to CLASSIFY a difference that the strict comparison found, see c16Compare)
func c16SafeSearch(ctx context.Context, d *indexData, q query.Q) (sr *zoekt.SearchResult, err error, panicked any) {
	defer func() {
		if r := recover(); r != nil {
			panicked = r
		}
	}()
	sr, err = d.Search(ctx, q, &zoekt.SearchOptions{Whole: true})
	return
}

func c16SafeList(ctx context.Context, d *indexData) (rl *zoekt.RepoList, err error, panicked any) {
	defer func() {
		if r := recover(); r != nil {
			panicked = r
		}
	}()
	rl, err = d.List(ctx, &query.Const{Value: true}, &zoekt.ListOptions{Field: zoekt.RepoListFieldRepos})
	return
}

func c16Results(t *testing.T, ds []*indexData, proj bool) map[string][]string {
	out := map[string][]string{}
	ctx := context.Background()
	for name, q := range c16Battery() {
		var rows []string
		for _, d := range ds {
			sr, err, pnc := c16SafeSearch(ctx, d, q)
			if pnc != nil {
				// a shard on which Search panics (e.g. a branch bit without a branch): reported as a result row, so that
				// the comparison inputs vs outputs fails with a concrete replay instead of the harness crashing
				rows = append(rows, fmt.Sprintf("SEARCH PANICS on %s: %v", d.String(), pnc))
				continue
			}
			if err != nil {
				t.Fatalf("harness: search %s: %v", name, err)
			}
			for _, f := range sr.Files {
				var lm []string
				for _, m := range f.LineMatches {
					frs := []string{}
					for _, fr := range m.LineFragments {
						s := fmt.Sprintf("%d+%d@%d", fr.LineOffset, fr.MatchLength, fr.Offset)
						if fr.SymbolInfo != nil && !(proj && fr.SymbolInfo.Kind == "" && fr.SymbolInfo.Parent == "" && fr.SymbolInfo.ParentKind == "") {
							s += fmt.Sprintf("{%s,%s,%s,%s}", fr.SymbolInfo.Sym, fr.SymbolInfo.Kind, fr.SymbolInfo.Parent, fr.SymbolInfo.ParentKind)
						}
						frs = append(frs, s)
					}
					lm = append(lm, fmt.Sprintf("%d:%q:%v:%v", m.LineNumber, m.Line, m.FileName, frs))
				}
				brs := append([]string(nil), f.Branches...)
				sort.Strings(brs)
				rows = append(rows, fmt.Sprintf("repo=%s id=%d file=%s sub=%s|%s lang=%s br=%v ver=%s content=%q sum=%x lines=%v",
					f.Repository, f.RepositoryID, f.FileName, f.SubRepositoryName, f.SubRepositoryPath, f.Language, brs, f.Version, f.Content, f.Checksum, lm))
			}
		}
		sort.Strings(rows)
		out[name] = rows
	}
	// List
	var rows []string
	for _, d := range ds {
		rl, err, pnc := c16SafeList(ctx, d)
		if pnc != nil {
			rows = append(rows, fmt.Sprintf("LIST PANICS on %s: %v", d.String(), pnc))
			continue
		}
		if err != nil {
			t.Fatalf("harness: list: %v", err)
		}
		for _, e := range rl.Repos {
			var subs []string
			for k, v := range e.Repository.SubRepoMap {
				subs = append(subs, k+"="+v.Name)
			}
			sort.Strings(subs)
			rows = append(rows, fmt.Sprintf("repo=%s id=%d branches=%v subs=%v raw=%v docs=%d content=%d hasSymbols=%v",
				e.Repository.Name, e.Repository.ID, e.Repository.Branches, subs, e.Repository.RawConfig, e.Stats.Documents, e.Stats.ContentBytes, e.Repository.HasSymbols))
		}
	}
	sort.Strings(rows)
	out["LIST"] = rows
	// file categories (generated / vendored / test / binary ...: they feed the ranking, no query selects on them): per
	// document of a live repository, read with the accessor the scorer uses
	var cats []string
	for _, d := range ds {
		for doc := uint32(0); int(doc) < len(d.fileBranchMasks); doc++ {
			md := d.repoMetaData[d.repos[doc]]
			if md.Tombstone {
				continue
			}
			cats = append(cats, fmt.Sprintf("repo=%s file=%s category=%v", md.Name, d.fileName(doc), d.getCategory(doc)))
		}
	}
	sort.Strings(cats)
	out["CATEGORY"] = cats
	return out
}

func c16Compare(t *testing.T, step string, ins, outs []*indexData, replay map[string]any) {
	// "tombstoned repositories are dropped": none may be carried into an output shard
	for _, d := range outs {
		for _, md := range d.repoMetaData {
			if md.Tombstone {
				rp := map[string]any{"step": step, "repo": md.Name, "shard": d.String()}
				for k, v := range replay {
					rp[k] = v
				}
				vfOracleFail(step+":tombstoned-not-dropped", "tombstoned repository "+md.Name+" was copied into output shard "+d.String(), rp)
			}
		}
	}
	a, b := c16Results(t, ins, false), c16Results(t, outs, false)
	var pa, pb map[string][]string
	for _, name := range vfSortedKeys(a) {
		if strings.Join(a[name], "\n") != strings.Join(b[name], "\n") {
			rp := map[string]any{"step": step, "query": name, "over_inputs": a[name], "over_outputs": b[name]}
			for k, v := range replay {
				rp[k] = v
			}
			if pa == nil {
				pa, pb = c16Results(t, ins, true), c16Results(t, outs, true)
			}
			key, what := step+":"+name, fmt.Sprintf("%s: query %s returns different results over outputs than over inputs", step, name)
			if strings.Join(pa[name], "\n") == strings.Join(pb[name], "\n") {
				// the ONLY difference: a symbol section stored without metadata (SymbolInfo nil over the input) comes back
				// with empty metadata (SymbolInfo{Sym, "", "", ""}) — own key so that nothing else hides behind it
				key, what = "nil-symbol-metadata-becomes-empty", fmt.Sprintf("%s: query %s: matches in symbol sections stored WITHOUT metadata carry an empty SymbolInfo over the outputs (none over the inputs); everything else equal", step, name)
			}
			vfOracleFail(key, what, rp)
		}
	}
}

func c16Data(ls []*c16Loaded) []*indexData {
	var ds []*indexData
	for _, l := range ls {
		ds = append(ds, l.d)
	}
	return ds
}

// ---- steps

func c16SafeMerge(dir string, files ...IndexFile) (tmp, dst string, err error, panicked any) {
	defer func() {
		if r := recover(); r != nil {
			panicked = r
		}
	}()
	tmp, dst, err = Merge(dir, files...)
	return
}

func c16SafeExplode(dir string, f IndexFile) (names map[string]string, err error, panicked any) {
	defer func() {
		if r := recover(); r != nil {
			panicked = r
		}
	}()
	names, err = explode(dir, f)
	return
}

// where the tombstoned repositories (with documents) sit in merge's processing order, and whether one has >= 2 documents
func c16TombClasses(ins []*c16Loaded) []string {
	ds := append([]*indexData(nil), c16Data(ins)...)
	sort.SliceStable(ds, func(i, j int) bool { return ds[i].repoMetaData[0].GetPriority() > ds[j].repoMetaData[0].GetPriority() })
	type rp struct {
		tomb bool
		docs int
	}
	var seq []rp
	for _, d := range ds {
		cnt := make([]int, len(d.repoMetaData))
		for _, x := range d.repos {
			cnt[x]++
		}
		for i, md := range d.repoMetaData {
			if cnt[i] > 0 {
				seq = append(seq, rp{md.Tombstone, cnt[i]})
			}
		}
	}
	set := map[string]bool{}
	for i, x := range seq {
		if !x.tomb {
			continue
		}
		switch {
		case i == 0:
			set["tomb-first"] = true
		case i == len(seq)-1:
			set["tomb-last"] = true
		default:
			set["tomb-middle"] = true
		}
		if x.docs >= 2 {
			set["tomb-multi-doc"] = true
		}
	}
	return vfSortedKeys(set)
}

// a simple (v16) shard is tombstoned through a .meta file holding its ONE repository object (SetTombstone writes
// the array form of compound shards, which a v16 shard does not load)
func c16TombstoneSimple(t *testing.T, fn string) {
	repos, _, err := ReadMetadataPath(fn)
	if err != nil || len(repos) != 1 {
		t.Fatalf("harness: metadata of %s: %v", fn, err)
	}
	repos[0].Tombstone = true
	tmp, dst, err := JsonMarshalRepoMetaTemp(fn, repos[0])
	if err != nil {
		t.Fatal(err)
	}
	if err := os.Rename(tmp, dst); err != nil {
		t.Fatal(err)
	}
}

// index into a repo list by position class: 0 = first, 1 = middle, 2 = last
func c16PosPick(r *vfRand, n int) int {
	switch r.Intn(3) {
	case 0:
		return 0
	case 1:
		return n / 2
	}
	return n - 1
}

func c16Merge(t *testing.T, dir string, ins []*c16Loaded, step string, class []string, specs any) *c16Loaded {
	var files []IndexFile
	var inCoq []string
	for _, l := range ins {
		files = append(files, l.inf)
		inCoq = append(inCoq, c16ShardCoq(t, l.d))
	}
	tmp, dst, err, pnc := c16SafeMerge(dir, files...)
	if pnc != nil {
		vfCase(cTuple("0%N", cList(inCoq), "true", "(@nil oshard)"), vfKey(step, inCoq), true, append(class, "merge-panic"), map[string]any{"panic": fmt.Sprint(pnc)})
		vfOracleFail(step+":panic", "index.Merge panics on well-formed input shards: "+fmt.Sprint(pnc), map[string]any{"step": step, "specs": specs, "panic": fmt.Sprint(pnc)})
		return nil
	}
	if err != nil {
		vfCase(cTuple("0%N", cList(inCoq), "true", "(@nil oshard)"), vfKey(step, inCoq), true, append(class, "merge-error"), map[string]any{"err": err.Error()})
		// the generated inputs are valid shards with live repositories: refusing to merge them loses them
		vfOracleFail(step+":error", "index.Merge fails on well-formed input shards: "+err.Error(), map[string]any{"step": step, "specs": specs, "err": err.Error()})
		return nil
	}
	if err := os.Rename(tmp, dst); err != nil {
		t.Fatal(err)
	}
	if _, _, err := ReadMetadataPath(dst); errors.Is(err, ErrEmptyShard) {
		// every input repository was tombstoned: the compound holds nothing and does not load
		vfCase(cTuple("0%N", cList(inCoq), "false", cList([]string{cPair("(@nil srepo)", "(@nil (N * ddoc))")})), vfKey(step, inCoq), true,
			append(class, "empty-output"), map[string]any{"step": step, "inputs": len(ins), "docs_out": 0, "specs": specs})
		c16Compare(t, step, c16Data(ins), nil, map[string]any{"specs": specs})
		return nil
	}
	out := c16Load(t, dst)
	view, n := c16ViewCoq(t, out.d)
	vfCase(cTuple("0%N", cList(inCoq), "false", cList([]string{view})), vfKey(step, inCoq), true, class,
		map[string]any{"step": step, "inputs": len(ins), "docs_out": n, "specs": specs})
	c16Compare(t, step, c16Data(ins), []*indexData{out.d}, map[string]any{"specs": specs})
	return out
}

func c16Explode(t *testing.T, dir string, in *c16Loaded, class []string, specs any) []*c16Loaded {
	inCoq := c16ShardCoq(t, in.d)
	names, err, pnc := c16SafeExplode(dir, in.inf)
	if pnc != nil {
		vfCase(cTuple("1%N", cList([]string{inCoq}), "true", "(@nil oshard)"), vfKey("explode", inCoq), true, append(class, "explode-panic"), map[string]any{"panic": fmt.Sprint(pnc)})
		vfOracleFail("explode:panic", "explode panics on a well-formed compound shard: "+fmt.Sprint(pnc), map[string]any{"step": "explode", "specs": specs, "panic": fmt.Sprint(pnc)})
		return nil
	}
	if err != nil {
		vfCase(cTuple("1%N", cList([]string{inCoq}), "true", "(@nil oshard)"), vfKey("explode", inCoq), true, append(class, "explode-error"), map[string]any{"err": err.Error()})
		vfOracleFail("explode:error", "explode fails on a well-formed compound shard: "+err.Error(), map[string]any{"step": "explode", "specs": specs, "err": err.Error()})
		return nil
	}
	var outs []*c16Loaded
	for tmp, dst := range names {
		if err := os.Rename(tmp, dst); err != nil {
			t.Fatal(err)
		}
		outs = append(outs, c16Load(t, dst))
	}
	// order of the compound's repo list
	pos := map[string]int{}
	for i, md := range in.d.repoMetaData {
		if _, ok := pos[md.Name]; !ok {
			pos[md.Name] = i
		}
	}
	sort.Slice(outs, func(i, j int) bool { return pos[outs[i].d.repoMetaData[0].Name] < pos[outs[j].d.repoMetaData[0].Name] })
	var views []string
	for _, o := range outs {
		v, _ := c16ViewCoq(t, o.d)
		views = append(views, v)
	}
	vl := "(@nil oshard)"
	if len(views) > 0 {
		vl = cList(views)
	}
	vfCase(cTuple("1%N", cList([]string{inCoq}), "false", vl), vfKey("explode", inCoq), true, class, map[string]any{"step": "explode", "outputs": len(outs), "specs": specs})
	c16Compare(t, "explode", []*indexData{in.d}, c16Data(outs), map[string]any{"specs": specs})
	return outs
}

func c16SpecSummary(specs []c16RepoSpec) []map[string]any {
	var out []map[string]any
	for _, s := range specs {
		var docs []map[string]any
		for _, d := range s.docs {
			docs = append(docs, map[string]any{"name": d.Name, "content": string(d.Content), "branches": d.Branches, "lang": d.Language, "sub": d.SubRepositoryPath, "symbols": d.Symbols})
		}
		var brs []string
		for _, b := range s.repo.Branches {
			brs = append(brs, b.Name)
		}
		out = append(out, map[string]any{"repo": s.repo.Name, "priority": s.repo.RawConfig["priority"], "branches": brs, "docs": docs, "symbols_without_metadata": s.noMeta})
	}
	return out
}

func TestVerifC16(t *testing.T) {
	r := vfNewRand(vfSeed())
	n := vfN(60)
	base, err := os.MkdirTemp(os.Getenv("VERIF_TMP"), "c16-")
	if err != nil {
		t.Fatal(err)
	}
	defer os.RemoveAll(base)
	emitted := 0
	for it := 0; emitted < n; it++ {
		dir := filepath.Join(base, fmt.Sprint("it", it))
		for _, s := range []string{"in", "m1", "in2", "m2", "ex"} {
			os.MkdirAll(filepath.Join(dir, s), 0o755)
		}
		prios := []int{10, 20, 30, 40, 50, 60, 70}
		for i := len(prios) - 1; i > 0; i-- {
			j := r.Intn(i + 1)
			prios[i], prios[j] = prios[j], prios[i]
		}
		k := 1 + r.Intn(4)
		var specs []c16RepoSpec
		var ins []*c16Loaded
		for i := 0; i < k; i++ {
			s := c16GenRepo(r, i+1, prios[i])
			specs = append(specs, s)
			ins = append(ins, c16Load(t, c16WriteSimple(t, filepath.Join(dir, "in"), s)))
		}
		sum := c16SpecSummary(specs)
		class := []string{fmt.Sprintf("repos=%d", k)}
		specClasses := func(specs []c16RepoSpec) []string {
			var w, nm bool
			for _, s := range specs {
				w, nm = w || s.wide, nm || s.noMeta
			}
			var out []string
			if w {
				out = append(out, "branches>32")
			}
			if nm {
				out = append(out, "symbols-without-metadata")
			}
			return out
		}
		class = append(class, specClasses(specs)...)
		m1 := c16Merge(t, filepath.Join(dir, "m1"), ins, "merge", class, sum)
		emitted++
		if m1 == nil {
			continue
		}
		cur := m1
		if r.Chance(70) {
			// tombstone one or two repos of the compound (first / middle / last of its repo list, or any), add fresh
			// simple shards (some of them tombstoned through their own .meta), merge again
			var ids []uint32
			for _, md := range m1.d.repoMetaData {
				ids = append(ids, md.ID)
			}
			m1.close()
			nt := 1 + r.Intn(2)
			tomb := []string{}
			for i := 0; i < nt && i < k; i++ {
				id := ids[c16PosPick(r, len(ids))]
				if i > 0 {
					id = ids[r.Intn(len(ids))]
				}
				if err := SetTombstone(m1.path, id); err != nil {
					t.Fatal(err)
				}
				tomb = append(tomb, fmt.Sprint("r", id))
			}
			m1 = c16Load(t, m1.path)
			ins2 := []*c16Loaded{m1}
			k2 := r.Intn(3)
			for i := 0; i < k2; i++ {
				s := c16GenRepo(r, k+i+1, prios[k+i])
				specs = append(specs, s)
				fn := c16WriteSimple(t, filepath.Join(dir, "in2"), s)
				if r.Chance(35) {
					c16TombstoneSimple(t, fn)
					tomb = append(tomb, s.repo.Name)
				}
				ins2 = append(ins2, c16Load(t, fn))
			}
			if r.Bool() && len(ins2) > 1 {
				ins2[0], ins2[len(ins2)-1] = ins2[len(ins2)-1], ins2[0]
			}
			sum = c16SpecSummary(specs)
			class2 := []string{fmt.Sprintf("repos=%d", k+k2), "compound-input", fmt.Sprintf("tombstones=%d", len(tomb))}
			class2 = append(class2, specClasses(specs)...)
			class2 = append(class2, c16TombClasses(ins2)...)
			m2 := c16Merge(t, filepath.Join(dir, "m2"), ins2, "merge-with-tombstones", class2, map[string]any{"specs": sum, "tombstoned": tomb})
			emitted++
			if m2 != nil {
				cur = m2
				if r.Chance(40) && len(cur.d.repoMetaData) > 1 {
					cur.close()
					id := cur.d.repoMetaData[c16PosPick(r, len(cur.d.repoMetaData))].ID
					if err := SetTombstone(cur.path, id); err != nil {
						t.Fatal(err)
					}
					cur = c16Load(t, cur.path)
					class2 = append(class2, "explode-with-tombstone")
				}
				c16Explode(t, filepath.Join(dir, "ex"), cur, class2, map[string]any{"specs": sum, "tombstoned": tomb})
				emitted++
			}
		} else {
			c16Explode(t, filepath.Join(dir, "ex"), cur, class, sum)
			emitted++
		}
		os.RemoveAll(dir)
	}
	vfInfo(map[string]any{"cases": emitted, "strings": len(c16Strs)})
}
