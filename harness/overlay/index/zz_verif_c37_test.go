package index

// C37 correspondence + oracle: tagsToSections.Convert and ShardBuilder.Add on generated
// (content, ctags entries) pairs; ShardBuilder.Add on arbitrary section lists; and the tie of
// coq/Lib/Utf8.v to Go's unicode/utf8. Mapped into /repo/index by `go test -overlay`.

import (
	"bytes"
	"fmt"
	"strings"
	"testing"
	"unicode/utf8"

	"github.com/sourcegraph/zoekt"
	"github.com/sourcegraph/zoekt/internal/ctags"
)

var vfC37Words = []string{"foo", "bar", "fo", "o", "foobar", "x", "main", "aa", "aaa", "é", "func", "日本", "😀", "ñé", "\t"}

// stray bytes that make a content invalid UTF-8 (never NUL: Add's binary-file path is outside the model)
var vfC37Stray = []string{"\x80", "\xbf", "\xc3", "\xe6\x97", "\xf0\x9f\x98", "\xc0\x80", "\xed\xa0\x80", "\xf4\x90\x80\x80", "\xff", "\xe0\x80\x80"}

func vfC37GenContent(r *vfRand, invalid bool) []byte {
	var b bytes.Buffer
	nl := 1 + r.Intn(6)
	if r.Chance(6) {
		nl = 0
	}
	for i := 0; i < nl; i++ {
		nw := r.Intn(5)
		if r.Chance(70) {
			nw = 2 + r.Intn(4)
		}
		for j := 0; j < nw; j++ {
			b.WriteString(r.Pick(vfC37Words))
			if invalid && r.Chance(25) {
				b.WriteString(r.Pick(vfC37Stray))
			}
			if r.Chance(60) {
				b.WriteByte(' ')
			}
		}
		if i < nl-1 || r.Chance(60) {
			b.WriteByte('\n')
		}
	}
	if r.Chance(5) {
		b.WriteString("\r\n")
	}
	if invalid && r.Chance(25) {
		// a truncated multi-byte sequence at the very end of the file
		b.WriteString(r.Pick([]string{"\xc3", "\xe6", "\xe6\x97", "\xf0\x9f", "\xf0\x9f\x98"}))
	}
	return b.Bytes()
}

// vfC37Add runs ShardBuilder.Add (copies of all inputs) and returns its error; a run-time panic inside Add is
// recovered and reported as panicked = true. NewShardBuilder is expensive (it pre-sizes for a 100 MB shard), so the
// builder is reused: Add's verdict on a document's sections does not depend on earlier documents, accepted or not
// (only rune/byte base offsets move). It is replaced every 256 calls.
var vfC37Builder *ShardBuilder
var vfC37BuilderUses int

func vfC37Add(t *testing.T, content []byte, secs []DocumentSection, meta []*zoekt.Symbol) (err error, panicked bool) {
	if vfC37Builder == nil || vfC37BuilderUses >= 256 {
		b, berr := NewShardBuilder(&zoekt.Repository{Name: "r"})
		if berr != nil {
			t.Fatal(berr)
		}
		vfC37Builder, vfC37BuilderUses = b, 0
	}
	vfC37BuilderUses++
	secs2 := append([]DocumentSection(nil), secs...)
	meta2 := append([]*zoekt.Symbol(nil), meta...)
	c2 := append([]byte(nil), content...)
	defer func() {
		if r := recover(); r != nil {
			err, panicked = fmt.Errorf("panic: %v", r), true
		}
	}()
	err = vfC37Builder.Add(Document{Name: "f.go", Content: c2, Symbols: secs2, SymbolsMetaData: meta2, Language: "Go"})
	return
}

func vfC37Verdict(err error, panicked bool) uint64 {
	switch {
	case panicked:
		return 2
	case err != nil:
		return 1
	}
	return 0
}

func TestVerifC37(t *testing.T) {
	r := vfNewRand(vfSeed())
	n := vfN(300)
	names := []string{"foo", "bar", "fo", "o", "foobar", "x", "main", "aa", "aaa", "é", "func", "", "zzz", "oo", "a", "ob", "\n", "o b", "日", "本", "😀", "é", "�"}
	badNames := []string{"\xc3", "\xa9", "\xe6\x97", "\x97\xa5", "o\xc3", "\xa9 ", "\xf0\x9f", "\x9f\x98\x80", "\x80", "\xff", "\xe6", "\xa5\xe6"}
	kinds := []string{"function", "var", "class", ""}
	var conv tagsToSections // reused across cases: exercises nlsBuf reuse
	for i := 0; i < n; i++ {
		// streams: 0 = well-formed (valid content, valid names); 1 = invalid content, valid names (still inside
		// the property's domain: the theorem quantifies over ALL contents); 2 = invalid-UTF-8 names (outside the
		// domain: only the correspondence is checked for Add's verdict).
		stream := 0
		if k := r.Intn(100); k >= 85 {
			stream = 2
		} else if k >= 70 {
			stream = 1
		}
		content := vfC37GenContent(r, stream >= 1 && r.Chance(80))
		lines := bytes.Split(content, []byte("\n"))
		nlines := len(lines)
		nt := r.Intn(9)
		if r.Chance(6) {
			nt = 12 + r.Intn(30) // >= 12 sections: sort.Sort leaves its insertion-sort regime
		}
		var tags []*ctags.Entry
		var ctags_ []string
		namesValid := true
		for j := 0; j < nt; j++ {
			line := r.Intn(nlines+3) - 1
			if r.Chance(75) {
				line = 1 + r.Intn(nlines)
			}
			if r.Chance(3) {
				line = -5
			}
			name := r.Pick(names)
			if line >= 1 && line <= len(lines) && r.Chance(70) {
				// mostly pick a (sub)word that occurs on the chosen line
				if l := lines[line-1]; len(l) > 0 {
					if stream == 2 && r.Chance(70) {
						// byte-offset slice: may cut a rune in half
						a := r.Intn(len(l))
						b := a + 1 + r.Intn(4)
						if b > len(l) {
							b = len(l)
						}
						name = string(l[a:b])
					} else {
						// ctags names reach Convert through go-ctags' JSON decoding, hence are always valid
						// UTF-8: slice on rune boundaries of the valid parts only.
						rs := []rune(string(l))
						a := r.Intn(len(rs))
						b := a + 1 + r.Intn(4)
						if b > len(rs) {
							b = len(rs)
						}
						name = string(rs[a:b]) // invalid bytes of l became U+FFFD: name is valid UTF-8
					}
				}
			} else if stream == 2 && r.Chance(40) {
				name = r.Pick(badNames)
			} else if r.Chance(8) {
				name = "" // empty names land on the line start
			}
			if !utf8.ValidString(name) {
				namesValid = false
			}
			kind := r.Pick(kinds)
			tags = append(tags, &ctags.Entry{Name: name, Line: line, Kind: kind, Parent: fmt.Sprint("p", j)})
			ctags_ = append(ctags_, cTuple(cZ(int64(line)), cStr(name), cN(uint64(j))))
		}
		if r.Chance(10) {
			conv = tagsToSections{}
		}
		secs, meta, err := conv.Convert(content, tags)
		// ---- Go-side oracle: the property itself
		fail := func(what string) {
			var ts []map[string]any
			for _, e := range tags {
				ts = append(ts, map[string]any{"line": e.Line, "name": e.Name, "name_hex": fmt.Sprintf("%x", e.Name)})
			}
			vfOracleFail("convert:"+strings.SplitN(what, ":", 2)[0], what, map[string]any{"content": string(content), "content_hex": fmt.Sprintf("%x", content), "tags": ts, "sections": fmt.Sprint(secs)})
		}
		if err != nil {
			fail("Convert returned an error")
		}
		if len(secs) != len(meta) {
			fail("sections and metadata differ in length")
		}
		for k, s := range secs {
			if s.Start > s.End || int(s.End) > len(content) {
				fail("section outside content")
				continue
			}
			if k > 0 && secs[k-1].End > s.Start {
				fail("sections unsorted or overlapping")
			}
			if k < len(meta) && string(content[s.Start:s.End]) != meta[k].Sym {
				fail("section does not cover the symbol name")
			}
			if bytes.IndexByte(content[s.Start:s.End], '\n') >= 0 {
				fail("section spans lines")
			}
		}
		// ---- ShardBuilder.Add acceptance
		aerr, apanic := vfC37Add(t, content, secs, meta)
		if aerr != nil && namesValid {
			// names that are not valid UTF-8 cannot reach Convert (JSON decoding) and are outside the property's
			// domain; for them only model == implementation is checked below.
			fail("ShardBuilder.Add rejects the derived sections: " + aerr.Error())
		}
		// ---- correspondence record
		var rows []string
		for k, s := range secs {
			var pid uint64
			fmt.Sscanf(meta[k].Parent, "p%d", &pid)
			rows = append(rows, cTuple(cN(uint64(s.Start)), cN(uint64(s.End)), cStr(meta[k].Sym), cN(pid)))
		}
		outs := "[]"
		if len(rows) > 0 {
			outs = cList(rows)
		}
		tl := "[]"
		if len(ctags_) > 0 {
			tl = cList(ctags_)
		}
		coq := cApp("CConv", cBytes(content), tl, outs, cN(vfC37Verdict(aerr, apanic)))
		sb := "secs<2"
		if len(secs) >= 12 {
			sb = "secs>=12"
		} else if len(secs) >= 2 {
			sb = "secs=2..11"
		}
		class := []string{"conv", fmt.Sprintf("conv:stream=%d", stream), "conv:" + sb, fmt.Sprintf("conv:accepted=%v", aerr == nil),
			fmt.Sprintf("conv:content-valid=%v", utf8.Valid(content)), fmt.Sprintf("conv:names-valid=%v", namesValid)}
		vfCase(coq, vfKey("conv", string(content), ctags_), len(secs) >= 2,
			class, map[string]any{"kind": "conv", "content": string(content), "content_hex": fmt.Sprintf("%x", content), "tags": len(tags), "sections": fmt.Sprint(secs), "add_err": fmt.Sprint(aerr)})
	}

	// ---- ShardBuilder.Add on arbitrary section lists (<= 8 sections: Go's sort.Sort is an insertion sort there,
	// which is what the model's stable sort describes; verdicts on unsorted inputs with equal Starts depend on it)
	for i := 0; i < n/2; i++ {
		content := vfC37GenContent(r, r.Chance(40))
		// rune boundaries of Go's decoding
		var bounds []int
		for p := 0; p < len(content); {
			bounds = append(bounds, p)
			_, sz := utf8.DecodeRune(content[p:])
			p += sz
		}
		bounds = append(bounds, len(content))
		ns := r.Intn(6)
		var secs []DocumentSection
		pos := 0
		for j := 0; j < ns; j++ {
			a := pos + r.Intn(4)
			b := a + r.Intn(4)
			if a >= len(bounds) {
				a = len(bounds) - 1
			}
			if b >= len(bounds) {
				b = len(bounds) - 1
			}
			pos = b
			secs = append(secs, DocumentSection{Start: uint32(bounds[a]), End: uint32(bounds[b])})
		}
		if len(bounds) >= 3 && r.Chance(30) {
			// a section among the last rune boundaries of the file
			a := len(bounds) - 1 - r.Intn(3)
			b := a + r.Intn(len(bounds)-a)
			if uint32(bounds[a]) >= uint32(bounds[pos]) {
				secs = append(secs, DocumentSection{Start: uint32(bounds[a]), End: uint32(bounds[b])})
			}
		}
		mut := "none"
		if len(secs) > 0 && r.Chance(60) {
			k := r.Intn(len(secs))
			switch r.Intn(8) {
			case 0:
				mut = "start+1"
				secs[k].Start++
			case 1:
				mut = "end+1"
				secs[k].End++
			case 2:
				mut = "end-1"
				if secs[k].End > 0 {
					secs[k].End--
				}
			case 3:
				mut = "swap"
				j := r.Intn(len(secs))
				secs[k], secs[j] = secs[j], secs[k]
			case 4:
				mut = "start>end"
				secs[k].Start, secs[k].End = secs[k].End, secs[k].Start
			case 5:
				mut = "past-end"
				secs[k].End = uint32(len(content) + r.Intn(3))
			case 6:
				mut = "dup"
				secs = append(secs, secs[k])
			case 7:
				mut = "at-end"
				secs = append(secs, DocumentSection{Start: uint32(len(content)), End: uint32(len(content))})
			}
		}
		meta := make([]*zoekt.Symbol, len(secs))
		var ss []string
		for k := range secs {
			meta[k] = &zoekt.Symbol{Sym: "s"}
			ss = append(ss, cTuple(cN(uint64(secs[k].Start)), cN(uint64(secs[k].End))))
		}
		aerr, apanic := vfC37Add(t, content, secs, meta)
		kind := "ok"
		if aerr != nil {
			switch {
			case apanic:
				kind = "panic"
			case strings.Contains(aerr.Error(), "no rune for section boundary"):
				kind = "no-rune"
			case strings.Contains(aerr.Error(), "overlap"):
				kind = "overlap"
			case strings.Contains(aerr.Error(), "past end"):
				kind = "past-end"
			default:
				kind = "other"
			}
		}
		sl := "(@nil (N * N))"
		if len(ss) > 0 {
			sl = cList(ss)
		}
		vfCase(cApp("CAdd", cBytes(content), sl, cN(vfC37Verdict(aerr, apanic))), vfKey("add", string(content), ss), len(secs) >= 1,
			[]string{"add", "add:mut=" + mut, "add:verdict=" + kind},
			map[string]any{"kind": "add", "content": string(content), "content_hex": fmt.Sprintf("%x", content), "sections": fmt.Sprint(secs), "add_err": fmt.Sprint(aerr)})
	}
}

// ---------------------------------------------------------------------------------------------------------
// Tie of coq/Lib/Utf8.v to unicode/utf8.

func vfC37Decode(s []byte) (items [][2]uint64) {
	for len(s) > 0 {
		rn, sz := utf8.DecodeRune(s)
		items = append(items, [2]uint64{uint64(rn), uint64(sz)})
		s = s[sz:]
	}
	return
}

// vfC37Row emits Go's decoding of prefix+[b] for every b in 0..255, run-length compressed (see CUtf8Row in
// coq/Model/Ctags.v). The compression is re-expanded and compared with the observations before it is emitted.
func vfC37Row(t *testing.T, prefix []byte, class string) {
	obs := make([][][2]uint64, 256)
	for b := 0; b < 256; b++ {
		obs[b] = vfC37Decode(append(append([]byte(nil), prefix...), byte(b)))
	}
	type run struct {
		lo, hi int
		items  [][3]uint64 // rune at lo, slope, width
	}
	var runs []run
	fits := func(ru run, b int) bool {
		if len(obs[b]) != len(ru.items) {
			return false
		}
		for k, it := range ru.items {
			if obs[b][k][1] != it[2] || obs[b][k][0] != it[0]+it[1]*uint64(b-ru.lo) {
				return false
			}
		}
		return true
	}
	for b := 0; b < 256; {
		ru := run{lo: b, hi: b}
		for _, it := range obs[b] {
			ru.items = append(ru.items, [3]uint64{it[0], 0, it[1]})
		}
		if b+1 < 256 && len(obs[b+1]) == len(obs[b]) { // slopes from the next observation
			for k := range ru.items {
				if d := obs[b+1][k][0] - obs[b][k][0]; d == 1 {
					ru.items[k][1] = 1
				}
			}
		}
		for ru.hi+1 < 256 && fits(ru, ru.hi+1) {
			ru.hi++
		}
		runs = append(runs, ru)
		b = ru.hi + 1
	}
	var rs []string
	next := 0
	for _, ru := range runs {
		if ru.lo != next {
			t.Fatalf("vfC37Row: runs do not tile at %d", next)
		}
		for b := ru.lo; b <= ru.hi; b++ {
			if !fits(ru, b) {
				t.Fatalf("vfC37Row: run does not reproduce the observation at %x %x", prefix, b)
			}
		}
		next = ru.hi + 1
		var its []string
		for _, it := range ru.items {
			its = append(its, cTuple(cN(it[0]), cN(it[1]), cN(it[2])))
		}
		rs = append(rs, cTuple(cN(uint64(ru.lo)), cN(uint64(ru.hi)), cList(its)))
	}
	if next != 256 {
		t.Fatalf("vfC37Row: runs end at %d", next)
	}
	vfCase(cApp("CUtf8Row", cBytes(prefix), cList(rs)), vfKey("utf8row", fmt.Sprintf("%x", prefix)), len(prefix) >= 1 && prefix[0] >= 0xC2,
		[]string{"utf8", class}, map[string]any{"kind": "utf8row", "prefix_hex": fmt.Sprintf("%x", prefix), "runs": len(runs)})
}

func TestVerifC37Utf8(t *testing.T) {
	r := vfNewRand(vfSeed() + 77)
	n := vfN(300)
	thorough := vfTier() == "thorough"
	// exhaustive: all 1-byte and all 2-byte strings
	vfC37Row(t, nil, "utf8:row1-exhaustive")
	for b0 := 0; b0 < 256; b0++ {
		vfC37Row(t, []byte{byte(b0)}, "utf8:row2-exhaustive")
	}
	// 3- and 4-byte strings: exhaustive in the last byte, earlier bytes from the boundary values of every
	// lead class / accept range (thorough: ALL 3-byte strings)
	leads := []byte{0x7f, 0x80, 0xbf, 0xc0, 0xc1, 0xc2, 0xdf, 0xe0, 0xe1, 0xec, 0xed, 0xee, 0xef, 0xf0, 0xf1, 0xf3, 0xf4, 0xf5, 0xff}
	seconds := []byte{0x00, 0x41, 0x7f, 0x80, 0x8f, 0x90, 0x9f, 0xa0, 0xbf, 0xc0, 0xff}
	for _, b0 := range leads {
		for _, b1 := range seconds {
			if thorough || b0 >= 0xe0 || r.Chance(20) {
				vfC37Row(t, []byte{b0, b1}, "utf8:row3")
			}
		}
	}
	if thorough {
		// all 3-byte strings exhaustively
		for b0 := 0; b0 < 256; b0++ {
			for b1 := 0; b1 < 256; b1++ {
				vfC37Row(t, []byte{byte(b0), byte(b1)}, "utf8:row3-exhaustive")
			}
		}
	}
	for _, b0 := range []byte{0xf0, 0xf1, 0xf3, 0xf4, 0xf5, 0xe0, 0xed} {
		for _, b1 := range seconds {
			for _, b2 := range []byte{0x7f, 0x80, 0xbf, 0xc0} {
				if thorough || r.Chance(25) {
					vfC37Row(t, []byte{b0, b1, b2}, "utf8:row4")
				}
			}
		}
	}
	// random valid strings and mutations of them
	special := []rune{0, 0x41, 0x7f, 0x80, 0x7ff, 0x800, 0xfff, 0x1000, 0xd7ff, 0xe000, 0xfffd, 0xffff, 0x10000, 0x3ffff, 0x40000, 0xfffff, 0x100000, 0x10ffff}
	genRune := func() rune {
		switch r.Intn(6) {
		case 0:
			return special[r.Intn(len(special))]
		case 1:
			return rune(r.Intn(0x80))
		case 2:
			return rune(0x80 + r.Intn(0x800-0x80))
		case 3:
			x := rune(0x800 + r.Intn(0x10000-0x800))
			if x >= 0xd800 && x <= 0xdfff {
				x = 0xd7ff
			}
			return x
		case 4:
			return rune(0x10000 + r.Intn(0x110000-0x10000))
		}
		return rune('a' + r.Intn(26))
	}
	for i := 0; i < n; i++ {
		var s []byte
		for k, m := 0, r.Intn(9); k < m; k++ {
			s = utf8.AppendRune(s, genRune())
		}
		mut := "valid"
		if r.Chance(65) && len(s) > 0 {
			k := r.Intn(len(s))
			switch r.Intn(6) {
			case 0:
				mut = "flip"
				s[k] ^= byte(1 << r.Intn(8))
			case 1:
				mut = "truncate"
				s = s[:k]
			case 2:
				mut = "insert-byte"
				s = append(s[:k:k], append([]byte{byte(r.Intn(256))}, s[k:]...)...)
			case 3:
				mut = "insert-stray"
				s = append(s[:k:k], append([]byte(r.Pick(vfC37Stray)), s[k:]...)...)
			case 4:
				mut = "delete-byte"
				s = append(s[:k:k], s[k+1:]...)
			case 5:
				mut = "random-bytes"
				for j := range s {
					if r.Chance(50) {
						s[j] = byte(r.Intn(256))
					}
				}
			}
		}
		var dec []string
		for _, it := range vfC37Decode(s) {
			dec = append(dec, cTuple(cN(it[0]), cN(it[1])))
		}
		dl := "(@nil (N * N))"
		if len(dec) > 0 {
			dl = cList(dec)
		}
		reenc := []byte(string([]rune(string(s))))
		vfCase(cApp("CUtf8", cBytes(s), dl, cBool(utf8.Valid(s)), cN(uint64(utf8.RuneCount(s))), cBytes(reenc)),
			vfKey("utf8", fmt.Sprintf("%x", s)), len(s) >= 2,
			[]string{"utf8", "utf8:str:" + mut, fmt.Sprintf("utf8:str:valid=%v", utf8.Valid(s))},
			map[string]any{"kind": "utf8", "hex": fmt.Sprintf("%x", s)})
	}
	// encoder on arbitrary non-negative runes (surrogates and > MaxRune encode U+FFFD)
	for i := 0; i < n/3+len(special); i++ {
		var x rune
		switch {
		case i < len(special):
			x = special[i]
		case r.Chance(15):
			x = rune(0xd800 + r.Intn(0x800))
		case r.Chance(15):
			x = rune(0x110000 + r.Intn(0x1000000))
		case r.Chance(10):
			x = []rune{0xd7ff, 0xd800, 0xdfff, 0xe000, 0x10ffff, 0x110000, 0x7fffffff}[r.Intn(7)]
		default:
			x = genRune()
		}
		enc := utf8.AppendRune(nil, x)
		vfCase(cApp("CEnc", cN(uint64(x)), cBytes(enc)), vfKey("enc", x), x >= 0x80,
			[]string{"utf8", fmt.Sprintf("utf8:enc:len=%d", len(enc)), fmt.Sprintf("utf8:enc:validrune=%v", utf8.ValidRune(x))},
			map[string]any{"kind": "enc", "rune": x})
	}
}
