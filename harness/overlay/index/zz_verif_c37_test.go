package index

// C37 correspondence + oracle: tagsToSections.Convert and ShardBuilder.Add on generated
// (content, ctags entries) pairs. Mapped into /repo/index by `go test -overlay`.

import (
	"bytes"
	"fmt"
	"testing"

	"github.com/sourcegraph/zoekt"
	"github.com/sourcegraph/zoekt/internal/ctags"
)

func vfC37GenContent(r *vfRand) []byte {
	words := []string{"foo", "bar", "fo", "o", "foobar", "x", "main", "aa", "aaa", "é", "func"}
	var b bytes.Buffer
	nl := r.Intn(7)
	for i := 0; i < nl; i++ {
		nw := r.Intn(5)
		for j := 0; j < nw; j++ {
			b.WriteString(r.Pick(words))
			if r.Chance(60) {
				b.WriteByte(' ')
			}
		}
		if i < nl-1 || r.Chance(60) {
			b.WriteByte('\n')
		}
	}
	if r.Chance(5) {
		b.WriteString("\r\n")
	}
	return b.Bytes()
}

func TestVerifC37(t *testing.T) {
	r := vfNewRand(vfSeed())
	n := vfN(300)
	names := []string{"foo", "bar", "fo", "o", "foobar", "x", "main", "aa", "aaa", "é", "func", "", "zzz", "oo", "a", "ob", "\n", "o b"}
	kinds := []string{"function", "var", "class", ""}
	var conv tagsToSections // reused across cases: exercises nlsBuf reuse
	for i := 0; i < n; i++ {
		content := vfC37GenContent(r)
		nlines := bytes.Count(content, []byte("\n")) + 1
		nt := r.Intn(9)
		var tags []*ctags.Entry
		var ctags_ []string
		for j := 0; j < nt; j++ {
			line := r.Intn(nlines+3) - 1
			if r.Chance(3) {
				line = -5
			}
			name := r.Pick(names)
			if ls := bytes.Split(content, []byte("\n")); line >= 1 && line <= len(ls) && r.Chance(70) {
				// mostly pick a (sub)word that occurs on the chosen line
				if l := ls[line-1]; len(l) > 0 {
					// ctags names reach Convert through go-ctags' JSON decoding, hence are always valid UTF-8:
					// slice the line on rune boundaries only.
					rs := []rune(string(l))
					a := r.Intn(len(rs))
					b := a + 1 + r.Intn(4)
					if b > len(rs) {
						b = len(rs)
					}
					name = string(rs[a:b])
				}
			}
			kind := r.Pick(kinds)
			tags = append(tags, &ctags.Entry{Name: name, Line: line, Kind: kind, Parent: fmt.Sprint("p", j)})
			ctags_ = append(ctags_, cTuple(cZ(int64(line)), cStr(name), cN(uint64(j))))
		}
		if r.Chance(10) {
			conv = tagsToSections{}
		}
		secs, meta, err := conv.Convert(content, tags)
		// ---- Go-side oracle: the property itself
		fail := func(what string) {
			var ts []map[string]any
			for _, e := range tags {
				ts = append(ts, map[string]any{"line": e.Line, "name": e.Name})
			}
			vfOracleFail("convert:"+what, what, map[string]any{"content": string(content), "tags": ts, "sections": fmt.Sprint(secs)})
		}
		if err != nil {
			fail("Convert returned an error")
		}
		if len(secs) != len(meta) {
			fail("sections and metadata differ in length")
		}
		nls := []int{}
		for k, c := range content {
			if c == '\n' {
				nls = append(nls, k)
			}
		}
		for k, s := range secs {
			if s.Start > s.End || int(s.End) > len(content) {
				fail("section outside content")
				continue
			}
			if k > 0 && secs[k-1].End > s.Start {
				fail("sections unsorted or overlapping")
			}
			if k < len(meta) && string(content[s.Start:s.End]) != meta[k].Sym {
				fail("section does not cover the symbol name")
			}
			if bytes.IndexByte(content[s.Start:s.End], '\n') >= 0 {
				fail("section spans lines")
			}
		}
		// ---- ShardBuilder.Add acceptance
		b, berr := NewShardBuilder(&zoekt.Repository{Name: "r"})
		if berr != nil {
			t.Fatal(berr)
		}
		secs2 := append([]DocumentSection(nil), secs...)
		meta2 := append([]*zoekt.Symbol(nil), meta...)
		c2 := append([]byte(nil), content...)
		for k := range c2 { // Add rejects nothing for NULs here, but keep content text-like
			if c2[k] == 0 {
				c2[k] = ' '
			}
		}
		aerr := b.Add(Document{Name: "f.go", Content: c2, Symbols: secs2, SymbolsMetaData: meta2})
		if aerr != nil {
			fail("ShardBuilder.Add rejects the derived sections: " + aerr.Error())
		}
		// ---- correspondence record
		var rows []string
		for k, s := range secs {
			var pid uint64
			fmt.Sscanf(meta[k].Parent, "p%d", &pid)
			rows = append(rows, cTuple(cN(uint64(s.Start)), cN(uint64(s.End)), cStr(meta[k].Sym), cN(pid)))
		}
		outs := "[]"
		if len(rows) > 0 {
			outs = cList(rows)
		}
		tl := "[]"
		if len(ctags_) > 0 {
			tl = cList(ctags_)
		}
		coq := cTuple(cBytes(content), tl, outs, cBool(aerr == nil))
		class := []string{fmt.Sprintf("tags=%d", nt), fmt.Sprintf("secs=%d", len(secs))}
		vfCase(coq, vfKey(string(content), ctags_), len(secs) >= 2,
			class, map[string]any{"content": string(content), "tags": len(tags), "sections": fmt.Sprint(secs)})
	}
}
