package index

// C06: query strings mean what doc/query_syntax.md says.  Mapped into /repo/index by `go test -overlay`.
//
// The harness generates abstract queries of the documented grammar (dExpr below - the Go twin of
// coq/Model/QueryDoc.v's dexpr), prints them, and
//   (oracle)  evaluates them with an independent reference evaluator (refEval: Go regexp directly on a small
//             corpus of two repositories) and compares the selected documents with what query.Parse + Search on
//             in-memory shards select;
//   (tie)     emits (abstract query, printed string, engine answers, Parse's result tree) so that the Coq side
//             checks  render dq = string,  model-parse string = Go's tree,  Simplify (den dq) = Go's tree.

import (
	"bytes"
	"context"
	"encoding/hex"
	"fmt"
	"regexp"
	"regexp/syntax"
	"sort"
	"strings"
	"testing"

	gregexp "github.com/grafana/regexp"

	"github.com/sourcegraph/zoekt"
	"github.com/sourcegraph/zoekt/languages"
	"github.com/sourcegraph/zoekt/query"
)

// ---------------------------------------------------------------- abstract syntax of the documented grammar

type dWord struct {
	quoted bool
	v      string
}

type dExpr struct {
	kind   string // text field bool case type neg group
	field  string // content file regex repo sym branch lang meta | archived fork public
	meta   string
	alias  bool
	w      dWord
	bval   bool
	flavor int // 0 yes 1 no 2 auto
	rtype  int // 0 filematch 1 filename 2 file 3 repo
	sub    *dExpr
	group  [][]*dExpr
}

func c06hS(s string) string {
	if s == "" {
		return "(@nil N)"
	}
	return "(hx \"" + hex.EncodeToString([]byte(s)) + "\")"
}

func (w dWord) coq() string {
	if w.quoted {
		return "(WQuoted " + c06hS(w.v) + ")"
	}
	return "(WPlain " + c06hS(w.v) + ")"
}

func (w dWord) render() string {
	if !w.quoted {
		return w.v
	}
	var b strings.Builder
	b.WriteByte('"')
	for i := 0; i < len(w.v); i++ {
		if w.v[i] == '"' || w.v[i] == '\\' {
			b.WriteByte('\\')
		}
		b.WriteByte(w.v[i])
	}
	b.WriteByte('"')
	return b.String()
}

var c06Prefix = map[string][2]string{"content": {"content:", "c:"}, "file": {"file:", "f:"}, "regex": {"regex:", "regex:"}, "repo": {"repo:", "r:"},
	"sym": {"sym:", "sym:"}, "branch": {"branch:", "b:"}, "lang": {"lang:", "lang:"}}
var c06FieldCoq = map[string]string{"content": "FContent", "file": "FFile", "regex": "FRegex", "repo": "FRepo", "sym": "FSym", "branch": "FBranch", "lang": "FLang"}
var c06Flavor = []string{"yes", "no", "auto"}
var c06FlavorCoq = []string{"CYes", "CNo", "CAuto"}
var c06RType = []string{"filematch", "filename", "file", "repo"}
var c06RTypeCoq = []string{"TFileMatch", "TFileName", "TFile", "TRepo"}

func (e *dExpr) render(sp string) string {
	switch e.kind {
	case "text":
		return e.w.render()
	case "field":
		if e.field == "meta" {
			return "meta." + e.meta + ":" + e.w.render()
		}
		p := c06Prefix[e.field]
		if e.alias {
			return p[1] + e.w.render()
		}
		return p[0] + e.w.render()
	case "bool":
		if e.bval {
			return e.field + ":yes"
		}
		return e.field + ":no"
	case "case":
		return "case:" + c06Flavor[e.flavor]
	case "type":
		if e.alias {
			return "t:" + c06RType[e.rtype]
		}
		return "type:" + c06RType[e.rtype]
	case "neg":
		return "-" + e.sub.render(sp)
	case "group":
		return "(" + sp + c06RenderQuery(e.group, sp) + ")"
	}
	panic("kind")
}

func c06RenderQuery(q [][]*dExpr, sp string) string {
	var cs []string
	for _, c := range q {
		var es []string
		for _, e := range c {
			es = append(es, e.render(sp))
		}
		cs = append(cs, strings.Join(es, " "))
	}
	return strings.Join(cs, " or ")
}

func (e *dExpr) coq() string {
	b2 := func(b bool) string {
		if b {
			return "true"
		}
		return "false"
	}
	switch e.kind {
	case "text":
		return "(DText " + e.w.coq() + ")"
	case "field":
		f := c06FieldCoq[e.field]
		if e.field == "meta" {
			f = "(FMeta " + c06hS(e.meta) + ")"
		}
		return "(DField " + f + " " + b2(e.alias) + " " + e.w.coq() + ")"
	case "bool":
		return "(DBool " + map[string]string{"archived": "BArchived", "fork": "BFork", "public": "BPublic"}[e.field] + " " + b2(e.bval) + ")"
	case "case":
		return "(DCase " + c06FlavorCoq[e.flavor] + ")"
	case "type":
		return "(DType " + b2(e.alias) + " " + c06RTypeCoq[e.rtype] + ")"
	case "neg":
		return "(DNeg " + e.sub.coq() + ")"
	case "group":
		return "(DGroup " + c06QueryCoq(e.group) + ")"
	}
	panic("kind")
}

func c06QueryCoq(q [][]*dExpr) string {
	var cs []string
	for _, c := range q {
		var es []string
		for _, e := range c {
			es = append(es, e.coq())
		}
		cs = append(cs, "["+strings.Join(es, "; ")+"]")
	}
	return "[" + strings.Join(cs, "; ") + "]"
}

// ---------------------------------------------------------------- corpus: two repositories, two shards

type c06Doc struct {
	repo     int
	name     string
	content  string
	branches []string
	lang     string
	syms     []string // symbol names: the first occurrence of each in content is a symbol section (in order)
}

type c06Repo struct {
	name string
	raw  map[string]string
	meta map[string]string
	brs  []string
}

var c06Repos = []c06Repo{
	{"github.com/acme/foo", map[string]string{"public": "1", "fork": "0", "archived": "0"}, map[string]string{"license": "MIT", "team": "core"}, []string{"main", "dev"}},
	{"gitlab.com/Bar/legacy", map[string]string{"public": "0", "fork": "1", "archived": "1"}, map[string]string{"license": "Apache-2.0"}, []string{"main", "release"}},
}

var c06Docs = []c06Doc{
	{0, "cmd/main.go", "package main\nfunc Hello() { foo bar }\n", []string{"main"}, "Go", []string{"Hello"}},
	{0, "lib/Foo.py", "def hello():\n    return 'Foo Bar'\n", []string{"main", "dev"}, "Python", []string{"hello"}},
	{0, "README.md", "hello world\nabc a.b x+y\n", []string{"dev"}, "Markdown", nil},
	{0, "foo", "", []string{"main"}, "Text", nil},
	{1, "src/bar.go", "package bar\nvar Hello = \"q\\\"r\"\n", []string{"main"}, "Go", []string{"Hello"}},
	{1, "src/hello_world.py", "print('hello world')  # FOO\n", []string{"release"}, "Python", nil},
	{1, "docs/a b.txt", "a b\nfoo(bar)\n", []string{"main", "release"}, "Text", nil},
	// three documents that differ ONLY in letter case (names, contents, symbols)
	{0, "src/Case.txt", "const USER_id = GetGetuser(xABy) HELLO\n", []string{"main"}, "Text", []string{"USER_id", "GetGetuser"}},
	{0, "src/case.txt", "const user_id = getgetuser(xaby) hello\n", []string{"main"}, "Text", []string{"user_id", "getgetuser"}},
	{1, "SRC/CASE.TXT", "CONST USER_ID = GETGETUSER(XABY) HELLO\n", []string{"main"}, "Text", []string{"USER_ID", "GETGETUSER"}},
	// text that reads like regexp syntax: a pattern that is wrongly taken for a literal (or a literal wrongly taken for
	// a pattern) selects this document
	{1, "etc/ops.txt", "hel{2}o fo{2} wor{1,}ld us{1,2}er b{0,1}ar a{b x{,2}y k}\nhel+o fo* ba?r [fF]oo foo|zzz h.llo ^main bar$ (?i:f)oo\n", []string{"main"}, "Text", nil},
}

func (d *c06Doc) sections() []DocumentSection {
	var out []DocumentSection
	from := 0
	for _, sy := range d.syms {
		i := strings.Index(d.content[from:], sy)
		if i < 0 {
			panic("corpus: symbol " + sy + " not in " + d.name)
		}
		out = append(out, DocumentSection{Start: uint32(from + i), End: uint32(from + i + len(sy))})
		from += i + len(sy)
	}
	return out
}

func c06Shards(t *testing.T) []zoekt.Searcher {
	var out []zoekt.Searcher
	for ri, r := range c06Repos {
		var brs []zoekt.RepositoryBranch
		for _, b := range r.brs {
			brs = append(brs, zoekt.RepositoryBranch{Name: b, Version: "v"})
		}
		b, err := NewShardBuilder(&zoekt.Repository{Name: r.name, ID: uint32(ri + 1), Branches: brs, RawConfig: r.raw, Metadata: r.meta})
		if err != nil {
			t.Fatal(err)
		}
		for _, d := range c06Docs {
			if d.repo != ri {
				continue
			}
			if err := b.Add(Document{Name: d.name, Content: []byte(d.content), Branches: d.branches, Language: d.lang, Symbols: d.sections()}); err != nil {
				t.Fatal(err)
			}
		}
		var buf bytes.Buffer
		if err := b.Write(&buf); err != nil {
			t.Fatal(err)
		}
		s, err := NewSearcher(&memSeeker{buf.Bytes()})
		if err != nil {
			t.Fatal(err)
		}
		out = append(out, s)
	}
	return out
}

// ---------------------------------------------------------------- reference evaluator (independent reading of the document)

func c06HasUpper(s string) bool {
	for i := 0; i < len(s); i++ {
		if s[i] >= 'A' && s[i] <= 'Z' {
			return true
		}
	}
	return false
}

// pattern matching of the document: a Go regular expression; case:yes exact, case:no insensitive, case:auto
// sensitive iff the pattern has an upper-case letter
// true = what the implementation does for upper-case letters that occur only inside a negated class [^A-Z]
// (they are not seen: regexp/syntax has already complemented the class); reported under its own finding key
var c06NegClassLenient = false

// upper-case letters outside negated character classes
func c06HasUpperOutsideNeg(s string) bool {
	for i := 0; i < len(s); i++ {
		if s[i] == '\\' {
			i++
			continue
		}
		if s[i] == '[' && i+1 < len(s) && s[i+1] == '^' {
			j := strings.IndexByte(s[i:], ']')
			if j < 0 {
				return c06HasUpper(s)
			}
			i += j
			continue
		}
		if s[i] >= 'A' && s[i] <= 'Z' {
			return true
		}
	}
	return false
}

// true = what the implementation does for a pattern with a case-insensitive flag group, (?i:f)oo or (?i)foo: the
// fold-case literal of the syntax tree carries the UPPER-case rune, so the pattern counts as containing an upper-case
// letter although its text has none; reported under its own finding key
var c06FoldGroupLenient = false

// true = what the implementation does for a pattern with a Perl / POSIX / Unicode class that contains letters of
// both cases (\w, \pL, [[:alpha:]] ...): the class of the syntax tree has upper-case range bounds, so the pattern
// counts as containing an upper-case letter although its text has none; reported under its own finding key
var c06ClassEscapeLenient = false
var c06ClassEscapeRe = regexp.MustCompile(`\\w|\\p\{?L|\[\[:(?:upper|alpha|alnum|word|graph|print|xdigit):\]\]`)

func c06Match(v string, flavor int, target string) bool {
	upper := c06HasUpper(v)
	if c06NegClassLenient {
		upper = c06HasUpperOutsideNeg(v)
	}
	if c06FoldGroupLenient && strings.Contains(v, "(?i") {
		upper = true
	}
	if c06ClassEscapeLenient && c06ClassEscapeRe.MatchString(v) {
		upper = true
	}
	sensitive := flavor == 0 || (flavor == 2 && upper)
	// ^ and $ are read per line (a code search reports matching lines; the document does not say)
	p := "(?m)" + v
	if !sensitive {
		p = "(?im)" + v
	}
	re, err := regexp.Compile(p)
	if err != nil {
		panic("reference evaluator: bad pattern " + v)
	}
	return re.MatchString(target)
}

// false = the strict reading of the document (regex: matches content); true = what the implementation does
// (regex: behaves like a bare pattern).  The difference is reported under its own finding key.
var c06RegexLenient = false

func c06FindCase(q [][]*dExpr, inh int) int {
	k := inh
	for _, c := range q {
		for _, e := range c {
			if e.kind == "case" {
				k = e.flavor
			}
		}
	}
	return k
}

func c06EvalQuery(q [][]*dExpr, inh int, d *c06Doc) bool {
	k := c06FindCase(q, inh)
	for _, c := range q {
		all := true
		for _, e := range c {
			if e.kind == "case" || e.kind == "type" {
				continue
			}
			if !c06Eval(e, k, d) {
				all = false
				break
			}
		}
		if all {
			return true
		}
	}
	return false
}

func c06Eval(e *dExpr, k int, d *c06Doc) bool {
	r := c06Repos[d.repo]
	switch e.kind {
	case "text":
		return c06Match(e.w.v, k, d.content) || c06Match(e.w.v, k, d.name)
	case "field":
		switch e.field {
		case "content":
			return c06Match(e.w.v, k, d.content)
		case "file":
			return c06Match(e.w.v, k, d.name)
		case "regex":
			// the document: "regex: - Matches content using a regular expression"
			return c06Match(e.w.v, k, d.content) || (c06RegexLenient && c06Match(e.w.v, k, d.name))
		case "repo":
			return regexp.MustCompile(e.w.v).MatchString(r.name)
		case "sym":
			// "Searches for symbol names": the pattern matches (inside) the name of one of the document's symbols
			for _, sy := range d.syms {
				if c06Match(e.w.v, k, sy) {
					return true
				}
			}
			return false
		case "branch":
			for _, b := range d.branches {
				if strings.Contains(b, e.w.v) {
					return true
				}
			}
			return false
		case "lang":
			l, ok := languages.GetLanguageByNameOrAlias(e.w.v)
			return ok && l == d.lang
		case "meta":
			v, ok := r.meta[e.meta]
			return ok && regexp.MustCompile(e.w.v).MatchString(v)
		}
		panic("field " + e.field)
	case "bool":
		return (r.raw[e.field] == "1") == e.bval
	case "neg":
		return !c06Eval(e.sub, k, d)
	case "group":
		return c06EvalQuery(e.group, k, d)
	}
	panic("kind " + e.kind)
}

// ---------------------------------------------------------------- generator

type c06Gen struct {
	r      *vfRand
	evalOK bool // the query is also reference-evaluated on the corpus
	rx     bool // regexp words derived from the case-pair documents
	kinds  map[string]string // class labels of the generated words
	allCase bool             // every group of this query (at every depth) carries a case: directive
}

var c06Plain = []string{"foo", "Foo", "hello", "Hello", "bar", "a.b", "x+y", "fo+", "[a-c]b", "main", "world", "o", "FOO", "hel+o", "q", "é"}
var c06Quoted = []string{"hello world", "Foo Bar", "a b", "q\"r", "foo(bar)", "(foo|hello) ", "x\\+y", "or", "f:x", "-foo", "package main", "case:yes", "a\\.b", "\\(bar\\)", " ", "(a|B)", "\\\\"}

// regexps derived from a word of the case-pair documents: the word is cut into segments and every segment is
// printed as a literal or below a regexp operator (class, repetition, group, alternation), so that the
// upper-case letters of the pattern end up at every kind of position of the syntax tree - in particular ONLY
// below repetition / group operators.  The pattern always keeps one literal segment, so it never matches the
// empty string.  With lower=true the whole pattern is lower-cased (no upper-case letter: insensitive in auto).
type c06Seg struct {
	text  string
	upper bool
}

var c06RxTargets = [][]c06Seg{
	{{"USER", true}, {"_id", false}},
	{{"Get", true}, {"Get", true}, {"user", false}},
	{{"x", false}, {"AB", true}, {"y", false}},
	{{"= ", false}, {"Get", true}, {"Getuser", true}},
	{{") ", false}, {"HELLO", true}},
	{{"C", true}, {"ase.txt", false}},
	{{"const ", false}, {"USER", true}},
	{{"H", true}, {"ello", false}},
	{{"F", true}, {"oo", false}},
	{{"user", false}, {"_", false}, {"id", false}},
	{{"get", false}, {"user", false}, {"(", false}},
}

func c06RxQuote(t string) string { return regexp.QuoteMeta(t) }

func (g *c06Gen) rxSeg(sg c06Seg, underOp bool) string {
	r := g.r
	lit := c06RxQuote(sg.text)
	allUp := sg.text == strings.ToUpper(sg.text) && sg.text != strings.ToLower(sg.text)
	n := len(sg.text)
	var opts []string
	if !underOp {
		opts = append(opts, lit)
	}
	if allUp {
		opts = append(opts, "[A-Z]+", "[A-Z]*", fmt.Sprintf("[A-Z]{0,%d}", n), fmt.Sprintf("[A-Z]{1,%d}", n+1),
			"(?:"+lit+")+", "("+lit+")+", "(?:"+lit+"|zzz)?", "(?:[A-Z]|[0-9])+", "(?:"+lit+"){0,2}")
		var q strings.Builder // U?S?E?R? : every letter below its own '?'
		for i := 0; i < n; i++ {
			q.WriteString(sg.text[i:i+1] + "?")
		}
		opts = append(opts, q.String())
		if !underOp {
			opts = append(opts, fmt.Sprintf("[A-Z]{%d}", n), fmt.Sprintf("[A-Z]{%d,}", n), "["+sg.text+"]+", "(?:"+lit+"|zzz)", "("+lit+")")
		}
	} else if sg.upper { // mixed case, e.g. Get
		opts = append(opts, "(?:"+lit+")+", "("+lit+")+", "(?:"+lit+")?", "(?:"+lit+"){1,2}", "(?:"+lit+"|Zzz)*",
			sg.text[:1]+"?"+c06RxQuote(sg.text[1:]), "[A-Z]?"+c06RxQuote(sg.text[1:]), "(?:[A-Z]"+c06RxQuote(sg.text[1:])+")+")
		if !underOp {
			opts = append(opts, "[A-Z]"+c06RxQuote(sg.text[1:]), "("+lit+")", "(?:"+lit+"|Zzz)")
		}
	} else {
		opts = append(opts, lit, lit, lit, "(?:"+lit+")+", "[a-z_ =.]+", "[a-z_ =.]*", "("+lit+")", ".{0,1}"+lit)
		if r.Chance(15) { // a negated class: its upper-case letters are not in the syntax tree any more
			opts = []string{"[^A-Z]+", fmt.Sprintf("[^A-Z]{%d}", n), "[^A-Z(]*"}
		}
	}
	return r.Pick(opts)
}

func (g *c06Gen) rxWord() dWord {
	r := g.r
	segs := c06RxTargets[r.Intn(len(c06RxTargets))]
	underOp := r.Chance(60) // all upper-case letters below an operator
	keep := -1              // one lower-case segment stays a literal
	for i, sg := range segs {
		if !sg.upper && (keep < 0 || r.Bool()) {
			keep = i
		}
	}
	var b strings.Builder
	for i, sg := range segs {
		if i == keep {
			b.WriteString(c06RxQuote(sg.text))
		} else {
			b.WriteString(g.rxSeg(sg, underOp))
		}
	}
	v := b.String()
	if r.Chance(20) {
		v = strings.ReplaceAll(strings.ToLower(v), "[^a-z", "[^A-Z")
	}
	quoted := strings.ContainsAny(v, " ()\"\\") || r.Chance(25)
	return dWord{quoted, v}
}

// the words of the corpus that the two generators below derive their patterns from
var c06OpWords = []string{"hello", "foo", "Foo", "bar", "world", "Hello", "main", "user", "getuser", "abc", "package", "README", "HELLO", "legacy", "xaby", "FOO"}

// a pattern that is a corpus word with exactly ONE kind of regexp operator in it - for every metacharacter of
// regexp/syntax (. + * ? {n} {n,} {n,m} | ( ) [ ] ^ $ and the backslash escapes), so that "is this atom a
// literal or a regexp" is decided for every operator on its own - and, as the other half of "patterns without
// regex operators behave as literals", words with punctuation that is NOT an operator ({ } , alone)
func (g *c06Gen) opWord() (dWord, string) {
	r := g.r
	w := r.Pick(c06OpWords)
	n := len(w)
	i := r.Intn(n) // position of the operand
	dbl := -1      // a doubled letter, e.g. ll in hello
	for k := 0; k+1 < n; k++ {
		if w[k] == w[k+1] {
			dbl = k
		}
	}
	c := w[i : i+1]
	var v, kind string
	switch r.Intn(16) {
	case 0:
		kind, v = "dot", w[:i]+"."+w[i+1:]
	case 1:
		kind = "plus"
		if dbl >= 0 && r.Bool() {
			v = w[:dbl+1] + "+" + w[dbl+2:]
		} else {
			v = w[:i+1] + "+" + w[i+1:]
		}
	case 2:
		kind = "star"
		if r.Bool() {
			v = w[:i+1] + "*" + w[i+1:]
		} else {
			v = w[:i] + "z*" + w[i:]
		}
	case 3:
		kind = "quest"
		if r.Bool() {
			v = w[:i+1] + "?" + w[i+1:]
		} else {
			v = w[:i] + "z?" + w[i:]
		}
	case 4:
		kind = "repeat-n"
		if dbl >= 0 {
			v = w[:dbl+1] + "{2}" + w[dbl+2:]
		} else {
			v = w[:i+1] + r.Pick([]string{"{1}", "{2}"}) + w[i+1:]
		}
	case 5:
		kind = "repeat-n-"
		if dbl >= 0 && r.Bool() {
			v = w[:dbl+1] + r.Pick([]string{"{2,}", "{1,}"}) + w[dbl+2:]
		} else {
			v = w[:i+1] + r.Pick([]string{"{1,}", "{0,}"}) + w[i+1:]
		}
	case 6:
		kind = "repeat-n-m"
		if dbl >= 0 && r.Bool() {
			v = w[:dbl+1] + r.Pick([]string{"{1,2}", "{2,3}", "{0,2}"}) + w[dbl+2:]
		} else {
			v = w[:i+1] + r.Pick([]string{"{1,2}", "{0,1}", "{1,1}"}) + w[i+1:]
		}
	case 7:
		kind = "alternate"
		v = r.Pick([]string{w + "|zzz", "zzz|" + w, w[:i+1] + "|" + w})
	case 8:
		kind = "group"
		j := i + 1 + r.Intn(n-i)
		v = w[:i] + "(" + w[i:j] + ")" + w[j:]
	case 9:
		kind = "class"
		v = w[:i] + r.Pick([]string{"[" + c + "]", "[" + c + "z]", "[" + c + "-" + c + "]", "[z" + c + "]"}) + w[i+1:]
	case 10:
		kind, v = "begin", "^"+w
	case 11:
		kind, v = "end", w+"$"
	case 12:
		kind = "escape"
		v = r.Pick([]string{w[:i] + `\w` + w[i+1:], `\b` + w, w + `\b`, w[:i] + c06HexEscape(w[i]) + w[i+1:], w[:i] + `\` + r.Pick([]string{".", "+", "{", "|"}) + w[i:], w[:i] + `\pL` + w[i+1:]})
	case 13, 14:
		// no operator at all: braces / commas that do not form a counted repetition are ordinary characters
		kind = "literal-punct"
		v = r.Pick([]string{w[:i+1] + "{" + w[i+1:], w[:i+1] + "}" + w[i+1:], w[:i+1] + "{,2}" + w[i+1:], w[:i+1] + "," + w[i+1:], "a{b", "k}", "x{,2}y", w + "{", w[:i+1] + "{x}" + w[i+1:], w[:i+1] + "-" + w[i+1:], w + "=", w[:i+1] + "#" + w[i+1:]})
	default:
		kind, v = "literal-word", w
	}
	quoted := strings.ContainsAny(v, " ()\"\\") || r.Chance(20)
	return dWord{quoted, v}, "single-operator-atom:" + kind
}

// \xNN for a lower-case letter (an escape that denotes an upper-case letter makes the pattern "contain an upper-case
// letter" for the implementation but not for a textual reading - not a question this check asks)
func c06HexEscape(c byte) string {
	if c >= 'A' && c <= 'Z' {
		return string(rune(c))
	}
	return fmt.Sprintf(`\x%02x`, c)
}

// classes and flag groups that regexp/syntax simplifies to FOLD-CASE literals: [fF], [fF]oo, [hH][eE]llo,
// (?i:f)oo, (?i:foo), (?i)foo - the literal carries syntax.FoldCase, its rune is the upper-case one
func (g *c06Gen) foldWord() (dWord, string) {
	r := g.r
	w := r.Pick(c06OpWords)
	if r.Chance(25) {
		w = w[:1+r.Intn(2)] // very short: the whole pattern becomes one fold-case literal
	}
	n := len(w)
	letter := func(c byte) bool { return (c|0x20) >= 'a' && (c|0x20) <= 'z' }
	both := func(c byte) string {
		lo, up := string(rune(c|0x20)), string(rune(c&^0x20))
		if r.Bool() {
			return "[" + lo + up + "]"
		}
		return "[" + up + lo + "]"
	}
	var v, kind string
	switch r.Intn(7) {
	case 0, 1: // a prefix of k letters as classes, the rest literal
		kind = "class-prefix"
		k := 1 + r.Intn(n)
		if r.Chance(30) {
			k = n
			kind = "class-all"
		}
		for i := 0; i < n; i++ {
			if i < k && letter(w[i]) {
				v += both(w[i])
			} else {
				v += w[i : i+1]
			}
		}
	case 2: // one letter somewhere
		kind = "class-one"
		i := r.Intn(n)
		v = w[:i] + both(w[i]) + w[i+1:]
	case 3: // a flag group around a part of the word
		kind = "flag-group-part"
		if r.Chance(60) { // lower-case words whose upper-case spelling occurs in the corpus
			w = r.Pick([]string{"hello", "foo", "user", "getuser", "xaby"})
			n = len(w)
		}
		i := r.Intn(n)
		j := i + 1 + r.Intn(n-i)
		v = w[:i] + "(?i:" + strings.ToLower(w[i:j]) + ")" + w[j:]
	case 4:
		kind, v = "flag-group-all", "(?i:"+strings.ToLower(w)+")"
	case 5:
		kind, v = "flag-prefix", "(?i)"+strings.ToLower(w)
	default: // both spellings as an alternation of single letters: (?:f|F)oo
		kind = "alt-one"
		i := r.Intn(n)
		v = w[:i] + "(?:" + string(rune(w[i]|0x20)) + "|" + string(rune(w[i]&^0x20)) + ")" + w[i+1:]
	}
	quoted := strings.ContainsAny(v, " ()\"\\") || r.Chance(20)
	return dWord{quoted, v}, "fold-literal-atom:" + kind
}

// words whose other spellings (lower / capitalised / upper) occur in other documents
var c06CaseWords = []string{"hello", "Hello", "HELLO", "foo", "Foo", "FOO", "user", "USER", "getuser", "xaby", "XABY", "case", "Case", "bar", "Bar"}

func (g *c06Gen) word() dWord {
	if g.allCase && g.r.Chance(60) { // the selection depends on the case flavour in force
		return dWord{g.r.Chance(20), g.r.Pick(c06CaseWords)}
	}
	if g.r.Chance(14) {
		w, k := g.opWord()
		g.kinds[w.v] = k
		return w
	}
	if g.r.Chance(12) {
		w, k := g.foldWord()
		g.kinds[w.v] = k
		return w
	}
	if g.rx && g.r.Chance(40) {
		return g.rxWord()
	}
	if g.r.Chance(35) {
		return dWord{true, g.r.Pick(c06Quoted)}
	}
	return dWord{false, g.r.Pick(c06Plain)}
}

func (g *c06Gen) atom() *dExpr {
	r := g.r
	if g.allCase && r.Chance(60) { // mostly patterns: the atoms that a case: directive governs
		switch r.Intn(4) {
		case 0:
			return &dExpr{kind: "field", field: "content", alias: r.Bool(), w: g.word()}
		case 1:
			return &dExpr{kind: "field", field: "file", alias: r.Bool(), w: g.word()}
		}
		return &dExpr{kind: "text", w: g.word()}
	}
	switch r.Intn(13) {
	case 0, 1, 2, 3:
		return &dExpr{kind: "text", w: g.word()}
	case 4:
		return &dExpr{kind: "field", field: "content", alias: r.Bool(), w: g.word()}
	case 5:
		w := g.word()
		if r.Chance(40) {
			w = dWord{r.Bool(), r.Pick([]string{"go", "py", "Foo", "main", "README", "src/", "\\.go$", "a b", "md$"})}
			if strings.ContainsAny(w.v, " ") {
				w.quoted = true
			}
		}
		return &dExpr{kind: "field", field: "file", alias: r.Bool(), w: w}
	case 6:
		return &dExpr{kind: "field", field: "regex", w: g.word()}
	case 7:
		return &dExpr{kind: "field", field: "repo", alias: r.Bool(), w: dWord{r.Chance(30), r.Pick([]string{"acme", "foo$", "Bar", "bar", "git(hub|lab)", "zzz", "\\.com/", "legacy"})}}
	case 8:
		if r.Bool() {
			return &dExpr{kind: "field", field: "branch", alias: r.Bool(), w: dWord{r.Chance(30), r.Pick([]string{"main", "dev", "release", "e", "zzz", "mai"})}}
		}
		return &dExpr{kind: "field", field: "sym", w: g.word()}
	case 9:
		return &dExpr{kind: "field", field: "lang", w: dWord{r.Chance(30), r.Pick([]string{"go", "python", "Go", "markdown", "zzz", "text", "py"})}}
	case 10:
		return &dExpr{kind: "field", field: "meta", meta: r.Pick([]string{"license", "team", "a.b", "zzz"}), w: dWord{r.Chance(30), r.Pick([]string{"MIT", "Apache-.*", "core", "^M", "zzz", "."})}}
	case 11:
		return &dExpr{kind: "bool", field: r.Pick([]string{"archived", "fork", "public"}), bval: r.Bool()}
	}
	return &dExpr{kind: "field", field: "branch", alias: r.Bool(), w: dWord{false, r.Pick([]string{"main", "dev", "release"})}}
}

func (g *c06Gen) expr(depth int) *dExpr {
	r := g.r
	if r.Chance(18) {
		return &dExpr{kind: "neg", sub: g.expr(depth)}
	}
	if depth > 0 && r.Chance(30) {
		return &dExpr{kind: "group", group: g.query(depth - 1)}
	}
	return g.atom()
}

// a group: 1-3 conjunctions of 1-3 expressions, at most one case: and one type: directive anywhere in it
func (g *c06Gen) query(depth int) [][]*dExpr {
	r := g.r
	var q [][]*dExpr
	nc := 1 + r.Intn(3)
	if r.Chance(50) {
		nc = 1
	}
	for i := 0; i < nc; i++ {
		var c []*dExpr
		ne := 1 + r.Intn(3)
		if g.allCase { // small conjunctions: a wrong flavour is not hidden by the other members
			ne = 1 + r.Intn(2)
		}
		for j := 0; j < ne; j++ {
			c = append(c, g.expr(depth))
		}
		q = append(q, c)
	}
	ins := func(e *dExpr) {
		ci := r.Intn(len(q))
		p := r.Intn(len(q[ci]) + 1)
		c := append([]*dExpr{}, q[ci][:p]...)
		c = append(c, e)
		q[ci] = append(c, q[ci][p:]...)
	}
	if g.allCase || r.Chance(30) {
		ins(&dExpr{kind: "case", flavor: r.Intn(3)})
	}
	if r.Chance(15) {
		t := r.Pick([]string{"0", "1", "2", "3"})
		ins(&dExpr{kind: "type", alias: r.Bool(), rtype: int(t[0] - '0')})
	}
	return q
}

// ---------------------------------------------------------------- engine answers + tree rendering (same formats as the C07 harness)

func c06Rx(r *syntax.Regexp) string {
	return fmt.Sprintf("{| rx_src := %s; rx_op := %s |}", c06hS(r.String()), cN(uint64(r.Op)))
}

func c06Q(q query.Q) string {
	switch s := q.(type) {
	case nil:
		return "(QCase [110;105;108]%N)"
	case *query.Const:
		return cApp("QConst", cBool(s.Value))
	case *query.Substring:
		return cApp("QSubstring", c06hS(s.Pattern), cBool(s.CaseSensitive), cBool(s.FileName), cBool(s.Content))
	case *query.Regexp:
		return cApp("QRegexp", c06Rx(s.Regexp), cBool(s.CaseSensitive), cBool(s.FileName), cBool(s.Content))
	case *query.Symbol:
		return cApp("QSymbol", c06Q(s.Expr))
	case *query.Language:
		return cApp("QLanguage", c06hS(s.Language))
	case *query.Repo:
		return cApp("QRepo", c06hS(s.Regexp.String()))
	case *query.Type:
		return cApp("QType", cN(uint64(s.Type)), c06Q(s.Child))
	case *query.Branch:
		return cApp("QBranch", c06hS(s.Pattern), cBool(s.Exact))
	case *query.Meta:
		return cApp("QMeta", c06hS(s.Field), c06hS(s.Value.String()))
	case query.RawConfig:
		return cApp("QRawConfig", cN(uint64(s)))
	case *query.And:
		return cApp("QAnd", c06QList(s.Children))
	case *query.Or:
		return cApp("QOr", c06QList(s.Children))
	case *query.Not:
		return cApp("QNot", c06Q(s.Child))
	}
	return "(QCase [63]%N)"
}

func c06QList(qs []query.Q) string {
	if len(qs) == 0 {
		return "(@nil Q)"
	}
	var p []string
	for _, q := range qs {
		p = append(p, c06Q(q))
	}
	return cList(p)
}

func c06Words(q [][]*dExpr, out map[string]bool) {
	for _, c := range q {
		for _, e := range c {
			for e.kind == "neg" {
				e = e.sub
			}
			switch e.kind {
			case "text", "field":
				out[e.w.v] = true
			case "group":
				c06Words(e.group, out)
			}
		}
	}
}

// query/parse.go's regexpFlags (unexported); only used for the trees of patterns that RegexpQuery turned into a
// Substring (a Regexp carries its own tree)
const c06RegexpFlags = syntax.ClassNL | syntax.PerlX | syntax.UnicodeGroups

func c06Tables(texts map[string]bool) (string, string, string) {
	var rows, lits []string
	rx := map[string]string{}
	var keys []string
	for k := range texts {
		keys = append(keys, k)
	}
	sort.Strings(keys)
	for _, t := range keys {
		rq := "RQErr"
		q, err := query.RegexpQuery(t, false, false)
		if err == nil {
			switch s := q.(type) {
			case *query.Substring:
				rq = cApp("RQLit", c06hS(s.Pattern))
				if re, perr := syntax.Parse(t, c06RegexpFlags); perr == nil {
					lits = append(lits, cTuple(c06hS(t), c06Re(query.OptimizeRegexp(re, c06RegexpFlags))))
				}
			case *query.Regexp:
				rq = cApp("RQRx", c06Rx(s.Regexp))
				rx[s.Regexp.String()] = c06Re(s.Regexp)
				lits = append(lits, cTuple(c06hS(t), c06Re(s.Regexp)))
			}
		}
		_, cerr := gregexp.Compile(t)
		lang := "None"
		if l, ok := languages.GetLanguageByNameOrAlias(t); ok {
			lang = cSome(c06hS(l))
		}
		rows = append(rows, cTuple(c06hS(t), cTuple(rq, cBool(cerr == nil), lang)))
	}
	table := "[]"
	if len(rows) > 0 {
		table = cList(rows)
	}
	var rr []string
	for _, k := range vfSortedKeys(rx) {
		rr = append(rr, cTuple(c06hS(k), rx[k]))
	}
	rxt := "[]"
	if len(rr) > 0 {
		rxt = cList(rr)
	}
	lt := "[]"
	if len(lits) > 0 {
		lt = cList(lits)
	}
	return table, rxt, lt
}

// the syntax tree of a *syntax.Regexp as a term of coq/Model/Regex.v's [re]; the model of LowerRegexp /
// Regexp.Equal (coq/Model/RegexCase.v) decides case:auto on it - the implementation's answer is NOT fed in
func c06Re(re *syntax.Regexp) string {
	subs := func() string {
		if len(re.Sub) == 0 {
			return "(@nil ZV.Model.Regex.re)"
		}
		ss := make([]string, len(re.Sub))
		for i, s := range re.Sub {
			ss[i] = c06Re(s)
		}
		return "[" + strings.Join(ss, "; ") + "]"
	}
	runes := func() string {
		if len(re.Rune) == 0 {
			return "(@nil N)"
		}
		ss := make([]string, len(re.Rune))
		for i, c := range re.Rune {
			ss[i] = fmt.Sprint(int64(c))
		}
		return "[" + strings.Join(ss, ";") + "]%N"
	}
	switch re.Op {
	case syntax.OpNoMatch:
		return "RNoMatch"
	case syntax.OpEmptyMatch:
		return "REmpty"
	case syntax.OpLiteral:
		return fmt.Sprintf("(RLit %v %s)", re.Flags&syntax.FoldCase != 0, runes())
	case syntax.OpCharClass:
		if len(re.Rune) == 0 {
			return "(RClass (@nil (N*N)))"
		}
		var ss []string
		for i := 0; i+1 < len(re.Rune); i += 2 {
			ss = append(ss, fmt.Sprintf("(%d,%d)", re.Rune[i], re.Rune[i+1]))
		}
		return "(RClass [" + strings.Join(ss, ";") + "]%N)"
	case syntax.OpAnyCharNotNL:
		return "RAnyNotNL"
	case syntax.OpAnyChar:
		return "RAny"
	case syntax.OpBeginLine:
		return "RBeginLine"
	case syntax.OpEndLine:
		return "REndLine"
	case syntax.OpBeginText:
		return "RBeginText"
	case syntax.OpEndText:
		return "REndText"
	case syntax.OpWordBoundary:
		return "RWordB"
	case syntax.OpNoWordBoundary:
		return "RNoWordB"
	case syntax.OpCapture:
		return "(RCapture " + c06Re(re.Sub[0]) + ")"
	case syntax.OpStar:
		return "(RStar " + c06Re(re.Sub[0]) + ")"
	case syntax.OpPlus:
		return "(RPlus " + c06Re(re.Sub[0]) + ")"
	case syntax.OpQuest:
		return "(RQuest " + c06Re(re.Sub[0]) + ")"
	case syntax.OpRepeat:
		mx := "None"
		if re.Max >= 0 {
			mx = fmt.Sprintf("(Some %d%%nat)", re.Max)
		}
		return fmt.Sprintf("(RRepeat %d%%nat %s %s)", re.Min, mx, c06Re(re.Sub[0]))
	case syntax.OpConcat:
		return "(RConcat " + subs() + ")"
	case syntax.OpAlternate:
		return "(RAlt " + subs() + ")"
	}
	return fmt.Sprintf("(RInvalidOp%d)", re.Op) // does not type-check: a new op breaks the run loudly
}

// the result type of the outermost group: the smallest code of its type: directives (0 filematch, 1 filename, 2 repo; 100 none)
func c06TopType(q [][]*dExpr) int {
	t := 100
	for _, c := range q {
		for _, e := range c {
			if e.kind == "type" {
				code := []int{0, 1, 1, 2}[e.rtype]
				if code < t {
					t = code
				}
			}
		}
	}
	return t
}

// where the upper-case letters of a pattern sit in its syntax tree (computed on regexp/syntax's parse of the
// word itself, for the input histogram): "only below a repetition/group operator", "also at sequence level", none
func c06RxUpperClass(v string) string {
	re, err := syntax.Parse(v, syntax.Perl)
	if err != nil {
		return ""
	}
	if re.Op == syntax.OpLiteral {
		return ""
	}
	top, under := false, false
	var walk func(r *syntax.Regexp, u bool)
	walk = func(r *syntax.Regexp, u bool) {
		switch r.Op {
		case syntax.OpLiteral, syntax.OpCharClass:
			for _, c := range r.Rune {
				if c >= 'A' && c <= 'Z' {
					if u {
						under = true
					} else {
						top = true
					}
				}
			}
		case syntax.OpStar, syntax.OpPlus, syntax.OpQuest, syntax.OpRepeat, syntax.OpCapture:
			walk(r.Sub[0], true)
		default:
			for _, x := range r.Sub {
				walk(x, u)
			}
		}
	}
	walk(re, false)
	switch {
	case under && !top:
		return "rx-upper-only-below-operator"
	case top:
		return "rx-upper-at-sequence-level"
	}
	return "rx-no-upper"
}

func c06Shape(q [][]*dExpr) (depth, n int, feats map[string]bool) {
	feats = map[string]bool{}
	var walk func(q [][]*dExpr, d int)
	walk = func(q [][]*dExpr, d int) {
		if d > depth {
			depth = d
		}
		if len(q) > 1 {
			feats["or"] = true
		}
		for _, c := range q {
			for _, e := range c {
				n++
				for e.kind == "neg" {
					feats["neg"] = true
					e = e.sub
				}
				switch e.kind {
				case "group":
					feats["group"] = true
					walk(e.group, d+1)
				case "case":
					feats["case"] = true
					if d > 0 {
						feats["inner-case"] = true
						if e.flavor == 2 {
							feats["inner-case-auto"] = true
						}
					}
				case "type":
					feats["type"] = true
				case "text", "field":
					if e.w.quoted {
						feats["quoted"] = true
					}
				}
			}
		}
	}
	walk(q, 0)
	return
}

// ---------------------------------------------------------------- the test

func TestVerifC06(t *testing.T) {
	r := vfNewRand(vfSeed() + 606)
	n := vfN(500)
	shards := c06Shards(t)
	ctx := context.Background()
	contentMatches := 0 // line matches that are not file-name matches, in the last search
	search := func(q query.Q) (map[string]bool, string) {
		got := map[string]bool{}
		contentMatches = 0
		for _, s := range shards {
			var res *zoekt.SearchResult
			var err error
			pan := func() (p string) {
				defer func() {
					if x := recover(); x != nil {
						p = fmt.Sprint(x)
					}
				}()
				res, err = s.Search(ctx, q, &zoekt.SearchOptions{})
				return ""
			}()
			if pan != "" {
				return nil, "panic: " + pan
			}
			if err != nil {
				return nil, "error: " + err.Error()
			}
			for _, f := range res.Files {
				got[f.Repository+"//"+f.FileName] = true
				for _, lm := range f.LineMatches {
					if !lm.FileName {
						contentMatches++
					}
				}
				for _, cm := range f.ChunkMatches {
					if !cm.FileName {
						contentMatches++
					}
				}
			}
		}
		return got, ""
	}
	seen := map[string]bool{}
	for i := 0; i < n; i++ {
		g := &c06Gen{r: r, evalOK: true, rx: i%3 != 2, kinds: map[string]string{}}
		// 1 query in 7: explicit case: directives in EVERY group, so that each flavour (also an explicit
		// case:auto) occurs inside each other flavour's scope
		g.allCase = r.Chance(15)
		depth := 1 + r.Intn(3)
		dq := g.query(depth)
		s := c06RenderQuery(dq, " ")
		if seen[s] {
			continue
		}
		seen[s] = true
		d, sz, feats := c06Shape(dq)
		replay := map[string]any{"query": s, "abstract": c06QueryCoq(dq)}
		q, err := query.Parse(s)
		res := ""
		if err != nil {
			res = "(@Err Q 0%N)"
			vfOracleFail("documented-query-rejected", "a query of the documented grammar is rejected: "+err.Error(), replay)
		} else {
			res = fmt.Sprintf("(@Ok Q %s)", c06Q(q))
			replay["parsed"] = q.String()
		}
		// ---- reference evaluation on the corpus
		if err == nil && g.evalOK {
			got, serr := search(q)
			if serr != "" {
				vfOracleFail("search:"+serr, "searching the parsed query fails: "+serr, replay)
			} else {
				refDiff := func(lenient int) []string {
					c06RegexLenient = lenient&1 != 0
					c06NegClassLenient = lenient&2 != 0
					c06FoldGroupLenient = lenient&4 != 0
					c06ClassEscapeLenient = lenient&8 != 0
					want := map[string]bool{}
					for di := range c06Docs {
						dd := &c06Docs[di]
						if c06EvalQuery(dq, 2, dd) {
							want[c06Repos[dd.repo].name+"//"+dd.name] = true
						}
					}
					var diff []string
					for k := range want {
						if !got[k] {
							diff = append(diff, "missing "+k)
						}
					}
					for k := range got {
						if !want[k] {
							diff = append(diff, "extra "+k)
						}
					}
					sort.Strings(diff)
					return diff
				}
				// "filename (or file) - Returns only matching filenames": a query whose outermost group carries
				// type:filename reports no content matches
				if c06TopType(dq) == 1 && contentMatches > 0 {
					vfOracleFail("type-filename-returns-content-matches", "type:filename query returns line matches inside file contents", replay)
				}
				if diff := refDiff(0); len(diff) > 0 {
					replay["difference"] = diff
					// which of the known deviations (alone or together) explain the difference?  smallest set first
					known := []struct{ key, what string }{
						{"regex-field-matches-file-names", "regex: is documented to match content but also selects documents by file name"},
						{"auto-case-upper-only-in-negated-class", "case:auto: a pattern whose only upper-case letters are inside a negated class [^A-Z] is searched case-insensitively"},
						{"auto-case-fold-flag-group-without-upper", "case:auto: a pattern with a case-insensitive flag group, (?i:f)oo, and no upper-case letter in its text is searched case-sensitively outside the group"},
						{"auto-case-class-escape-without-upper", "case:auto: a pattern with a class escape that contains letters of both cases (\\w, \\pL) and no upper-case letter in its text is searched case-sensitively"},
					}
					explained := -1
					for _, m := range []int{1, 2, 4, 8, 3, 5, 6, 9, 10, 12, 7, 11, 13, 14, 15} {
						if len(refDiff(m)) == 0 {
							explained = m
							break
						}
					}
					refDiff(0)
					if explained < 0 {
						vfOracleFail("selection-differs", "the parsed query selects other documents than the documented meaning", replay)
					} else {
						for b, k := range known {
							if explained&(1<<b) != 0 {
								vfOracleFail(k.key, k.what, replay)
							}
						}
					}
				}
			}
			// the document writes groups without a blank after '(' - same meaning expected
			sc := c06RenderQuery(dq, "")
			if sc != s {
				qc, cerr := query.Parse(sc)
				rp := map[string]any{"query": sc, "abstract": c06QueryCoq(dq)}
				if cerr != nil {
					vfOracleFail("compact-group:rejected", "a documented query with a group \"(x)\" is rejected: "+cerr.Error(), rp)
				} else if qc.String() != q.String() {
					rp["parsed"] = qc.String()
					rp["parsed_with_blank"] = q.String()
					vfOracleFail("compact-group:differs", "a group written \"(x ...)\" parses differently from \"( x ...)\"", rp)
				}
			}
		}
		texts := map[string]bool{}
		c06Words(dq, texts)
		for _, w := range vfSortedKeys(texts) {
			if c := c06RxUpperClass(w); c != "" {
				feats[c] = true
			}
			if k := g.kinds[w]; k != "" {
				feats[k] = true
			}
		}
		table, rxt, lits := c06Tables(texts)
		coq := cTuple(c06QueryCoq(dq), c06hS(s), table, rxt, lits, res)
		cls := []string{fmt.Sprintf("depth=%d", d), fmt.Sprintf("exprs=%d", min(sz, 8))}
		for _, k := range vfSortedKeys(feats) {
			cls = append(cls, k)
		}
		if g.evalOK {
			cls = append(cls, "ref-evaluated")
		}
		vfCase(coq, s, sz >= 2, cls, map[string]any{"query": s, "parsed": fmt.Sprint(q)})
	}
}
