package index

// C38 correspondence + oracle: Options.GetHash / IndexState / Repository.MergeMutable and real builds.
// Mapped into /repo/index by `go test -overlay`.
//
//  HashCase   pairs of option sets (fields enumerated by reflection: a new field is picked up) -> equal hashes?
//  MergeCase  Repository.MergeMutable on generated records
//  BuildCase  a real Builder run; the record read back from shard 0 vs the requested description / hash
//  StateCase  real IndexState against real index directories (simple, compound+tombstone, truncated,
//             feature-version patched), with the metadata IndexState reads recorded as the model's input
//  oracle     the property itself, end to end: build with o1, ask IndexState(o2) where o2 differs in ONE option,
//             build o2 elsewhere, compare the canonical contents of the two indexes: "equal" + different
//             contents is a failing input (key unhashed:<Field>). Plus: every option of the specification list
//             must change GetHash when flipped.

import (
	"bytes"
	"context"
	"crypto/sha1"
	"fmt"
	"os"
	"path/filepath"
	"reflect"
	"regexp/syntax"
	"sort"
	"strconv"
	"strings"
	"testing"
	"time"

	"github.com/sourcegraph/zoekt"
	"github.com/sourcegraph/zoekt/internal/ctags"
	"github.com/sourcegraph/zoekt/query"
)

// ---------------------------------------------------------------- fake ctags

// A shell implementation of the universal-ctags interactive protocol (go-ctags): one JSON request line
// {"command":..,"filename":..,"size":N} followed by N bytes; replies tag lines and {"_type":"completed"}.
// mode selects the keyword whose following identifier is reported as a symbol ("fail": fatal error at start).
const vfC38FakeScript = `#!/bin/sh
case "$1" in --help) echo "fake ctags +interactive"; exit 0;; esac
KW="@KW@"
echo '{"_type":"program","name":"fake","version":"0"}'
if [ "$KW" = "fail" ]; then echo '{"_type":"error","message":"fake failure","fatal":true}'; exit 1; fi
while IFS= read -r line; do
  size=$(printf '%s' "$line" | sed -n 's/.*"size":\([0-9]*\).*/\1/p')
  fn=$(printf '%s' "$line" | sed -n 's/.*"filename":"\([^"]*\)".*/\1/p')
  content=$(dd bs=1 count="$size" 2>/dev/null)
  printf '%s\n' "$content" | grep -n "^$KW " | while IFS=: read -r ln rest; do
    name=$(printf '%s' "$rest" | sed "s/^$KW //; s/[ (={].*//")
    echo "{\"_type\":\"tag\",\"name\":\"$name\",\"path\":\"$fn\",\"line\":$ln,\"kind\":\"$KW\",\"language\":\"Go\"}"
  done
  echo '{"_type":"completed"}'
done
`

func vfC38FakeBin(t *testing.T, dir, name, mode string) string {
	kw := map[string]string{"u1": "func", "u2": "var", "s1": "type", "s2": "const", "fail": "fail"}[mode]
	p := filepath.Join(dir, name)
	if err := os.WriteFile(p, []byte(strings.ReplaceAll(vfC38FakeScript, "@KW@", kw)), 0o755); err != nil {
		t.Fatal(err)
	}
	return p
}

// ---------------------------------------------------------------- Options <-> Coq (by reflection)

// vfC38Fields: the fields of Options that carry plain values (int/uint/bool/string/[]string/map[string]uint8).
func vfC38Fields() []string {
	var out []string
	rt := reflect.TypeOf(Options{})
	for i := 0; i < rt.NumField(); i++ {
		f := rt.Field(i)
		if !f.IsExported() {
			continue
		}
		switch f.Type.Kind() {
		case reflect.Int, reflect.Int64, reflect.Uint64, reflect.Uint, reflect.Bool, reflect.String:
			out = append(out, f.Name)
		case reflect.Slice:
			if f.Type.Elem().Kind() == reflect.String {
				out = append(out, f.Name)
			}
		case reflect.Map:
			if f.Type.Key().Kind() == reflect.String && f.Type.Elem().Kind() == reflect.Uint8 {
				out = append(out, f.Name)
			}
		}
	}
	return out
}

func vfC38Val(v reflect.Value) string {
	switch v.Kind() {
	case reflect.Int, reflect.Int64:
		return "(VInt " + cZ(v.Int()) + ")"
	case reflect.Uint64, reflect.Uint:
		return "(VInt " + cZ(int64(v.Uint())) + ")"
	case reflect.Bool:
		return "(VBool " + cBool(v.Bool()) + ")"
	case reflect.String:
		return "(VStr " + cStr(v.String()) + ")"
	case reflect.Slice:
		var xs []string
		for i := 0; i < v.Len(); i++ {
			xs = append(xs, cStr(v.Index(i).String()))
		}
		return "(VStrs " + cList(xs) + ")"
	case reflect.Map:
		var ks []string
		for _, k := range v.MapKeys() {
			ks = append(ks, k.String())
		}
		sort.Strings(ks)
		var xs []string
		for _, k := range ks {
			xs = append(xs, cTuple(cStr(k), cN(v.MapIndex(reflect.ValueOf(k)).Uint())))
		}
		return "(VMap " + cList(xs) + ")"
	}
	panic("vfC38Val: kind " + v.Kind().String())
}

func vfC38OptsCoq(o *Options) string {
	rv := reflect.ValueOf(o).Elem()
	var xs []string
	for _, f := range vfC38Fields() {
		xs = append(xs, cTuple(`"`+f+`"%string`, vfC38Val(rv.FieldByName(f))))
	}
	return cList(xs)
}

func vfC38OptsJSON(o *Options) map[string]any {
	rv := reflect.ValueOf(o).Elem()
	m := map[string]any{}
	for _, f := range vfC38Fields() {
		m[f] = rv.FieldByName(f).Interface()
	}
	return m
}

// vfC38Flip changes field f of o to a different value. Specific alternatives for the known options (chosen so that
// the corpus of the end-to-end oracle is indexed differently), generic ones for everything else / new fields.
type vfC38Env struct {
	u1, u2, s1, s2, fail string
	u1alt, s1alt         string // binaries with the base names of u1 / s1 in another directory, behaving like u2 / s2
}

func vfC38Flip(r *vfRand, o *Options, f string, env *vfC38Env) {
	rv := reflect.ValueOf(o).Elem().FieldByName(f)
	switch f {
	case "SizeMax":
		if o.SizeMax == 1000 {
			o.SizeMax = 100000
		} else {
			o.SizeMax = 1000
		}
		return
	case "TrigramMax":
		switch o.TrigramMax {
		case 50: // to the default, or to another non-default value (both written into the hash)
			if r.Bool() {
				o.TrigramMax = 20000
			} else {
				o.TrigramMax = 70
			}
		default:
			o.TrigramMax = 50
		}
		return
	case "LargeFiles":
		if len(o.LargeFiles) == 0 {
			o.LargeFiles = []string{"big.txt"}
		} else if r.Bool() {
			o.LargeFiles = nil
		} else {
			o.LargeFiles = append(append([]string(nil), o.LargeFiles...), "!big.txt")
		}
		return
	case "CTagsPath":
		if o.CTagsPath == env.u1 {
			o.CTagsPath = env.u2
		} else {
			o.CTagsPath = env.u1
		}
		return
	case "ScipCTagsPath":
		if o.ScipCTagsPath == env.s1 {
			o.ScipCTagsPath = env.s2
		} else {
			o.ScipCTagsPath = env.s1
		}
		return
	case "LanguageMap":
		if len(o.LanguageMap) == 0 {
			o.LanguageMap = ctags.LanguageMap{"go": ctags.ScipCTags}
		} else if o.LanguageMap["go"] == ctags.ScipCTags && r.Bool() {
			o.LanguageMap = ctags.LanguageMap{"go": ctags.NoCTags}
		} else {
			o.LanguageMap = nil
		}
		return
	case "Parallelism":
		o.Parallelism = 1 + (o.Parallelism % 3)
		return
	case "ShardMax":
		if o.ShardMax == 600 {
			o.ShardMax = 100 << 20
		} else {
			o.ShardMax = 600
		}
		return
	case "HeapProfileTriggerBytes":
		o.HeapProfileTriggerBytes ^= 1 << 60
		return
	case "ShardPrefixOverride":
		if o.ShardPrefixOverride == "" {
			o.ShardPrefixOverride = "pfx"
		} else {
			o.ShardPrefixOverride = ""
		}
		return
	}
	switch rv.Kind() {
	case reflect.Int, reflect.Int64:
		rv.SetInt(rv.Int()/2 + 7)
	case reflect.Uint64, reflect.Uint:
		rv.SetUint(rv.Uint()/2 + 7)
	case reflect.Bool:
		rv.SetBool(!rv.Bool())
	case reflect.String:
		rv.SetString(rv.String() + "x")
	case reflect.Slice:
		rv.Set(reflect.Append(reflect.AppendSlice(reflect.MakeSlice(rv.Type(), 0, 0), rv), reflect.ValueOf("x")))
	case reflect.Map:
		m := reflect.MakeMap(rv.Type())
		for _, k := range rv.MapKeys() {
			m.SetMapIndex(k, rv.MapIndex(k))
		}
		m.SetMapIndex(reflect.ValueOf("x"), reflect.ValueOf(uint8(1)).Convert(rv.Type().Elem()))
		rv.Set(m)
	}
}

// ---------------------------------------------------------------- list- and map-valued options
//
// LargeFiles ([]string): the ORDER is significant — Options.IgnoreSizeMax scans from the end, the LAST matching pattern
// wins, and a pattern may be negated ("!..."); so a permutation (or a de-duplication) of the same patterns can select a
// different set of files. LanguageMap (map[string]uint8): a Go map has no order; the same entries inserted in another
// order are the same option value and must hash the same (GetHash sorts the keys).

var vfC38Patterns = []string{"big.txt", "!big.txt", "*.txt", "!*.txt", "**/*.txt", "many.txt", "!many.txt", "big.*", "!big.*",
	"gen/**", "!gen/data.big", "**/*.big", "vendor/**", "!vendor/dep/*.go",
	"gr\u00f6\u00dfe/*.txt", "tab\there", "bad\xffutf8", `back\slash"quote`, "\u2028x", "nul\x00"}

// names probed with IgnoreSizeMax: the corpus of the end-to-end oracle plus a few paths the patterns talk about
var vfC38Probes = []string{"small.go", "big.txt", "many.txt", "other.go", "notes.txt", ".hidden.go", "vendor/dep/dep.go", "a_test.go", "gen.pb.go",
	"bin.dat", "gen/data.big", "x/y.big", "gen/z.txt", "big.bin"}

func vfC38GenLargeFiles(r *vfRand) []string {
	n := r.Intn(5)
	var out []string
	for i := 0; i < n; i++ {
		if len(out) > 0 && r.Chance(15) {
			out = append(out, out[r.Intn(len(out))]) // duplicate
		} else {
			out = append(out, r.Pick(vfC38Patterns))
		}
	}
	return out
}

// vfC38ListVariants: rearrangements of a list that keep its SET of elements: reversed, rotated, two swapped, sorted,
// de-duplicated (first occurrences kept), one element duplicated at the end.
func vfC38ListVariants(l []string) map[string][]string {
	out := map[string][]string{}
	cp := func() []string { return append([]string(nil), l...) }
	if len(l) >= 2 {
		rev := cp()
		for i, j := 0, len(rev)-1; i < j; i, j = i+1, j-1 {
			rev[i], rev[j] = rev[j], rev[i]
		}
		out["reversed"] = rev
		out["rotated"] = append(cp()[1:], l[0])
		sw := cp()
		sw[0], sw[1] = sw[1], sw[0]
		out["swapped"] = sw
		so := cp()
		sort.Strings(so)
		out["sorted"] = so
		seen := map[string]bool{}
		var dd []string
		for _, x := range l {
			if !seen[x] {
				seen[x] = true
				dd = append(dd, x)
			}
		}
		out["deduplicated"] = dd
	}
	if len(l) >= 1 {
		out["first-repeated-at-end"] = append(cp(), l[0])
	}
	for k, v := range out {
		if reflect.DeepEqual(v, l) {
			delete(out, k)
		}
	}
	return out
}

func vfC38SameLargeFileDecisions(o1, o2 *Options) (string, bool) {
	for _, n := range vfC38Probes {
		if o1.IgnoreSizeMax(n) != o2.IgnoreSizeMax(n) {
			return n, false
		}
	}
	return "", true
}

// vfC38ReinsertMap: the same map built with another insertion order
func vfC38ReinsertMap(r *vfRand, m ctags.LanguageMap) ctags.LanguageMap {
	if m == nil {
		return nil
	}
	keys := vfSortedKeys(m)
	for i := len(keys) - 1; i > 0; i-- {
		j := r.Intn(i + 1)
		keys[i], keys[j] = keys[j], keys[i]
	}
	out := ctags.LanguageMap{}
	for _, k := range keys {
		out[k] = m[k]
	}
	return out
}

// ---------------------------------------------------------------- the bytes GetHash hashes (ByteCase)

// vfC38RefBytes: a reference encoder of what GetHash feeds into SHA-1, written with strconv only (no fmt): the raw
// CTagsPath, true/false, the decimal SizeMax, the quoted LargeFiles in brackets separated by one space, true/false,
// and the three later additions when they differ from their defaults. It is NOT trusted: the harness checks that
// its SHA-1 is the real GetHash() on every sample, and the Coq byte model must produce exactly these bytes.
func vfC38RefBytes(o *Options) []byte {
	var b []byte
	b = append(b, o.CTagsPath...)
	b = strconv.AppendBool(b, o.CTagsMustSucceed)
	b = strconv.AppendInt(b, int64(o.SizeMax), 10)
	b = append(b, '[')
	for i, s := range o.LargeFiles {
		if i > 0 {
			b = append(b, ' ')
		}
		b = strconv.AppendQuote(b, s)
	}
	b = append(b, ']')
	b = strconv.AppendBool(b, o.DisableCTags)
	if o.TrigramMax != 0 && o.TrigramMax != defaultTrigramMax {
		b = append(b, "trigramMax="...)
		b = strconv.AppendInt(b, int64(o.TrigramMax), 10)
	}
	if o.ScipCTagsPath != "" {
		b = append(b, "scipCTagsPath="...)
		b = strconv.AppendQuote(b, o.ScipCTagsPath)
	}
	for _, k := range vfSortedKeys(o.LanguageMap) {
		b = append(b, "languageMap="...)
		b = strconv.AppendQuote(b, k)
		b = append(b, ':')
		b = strconv.AppendInt(b, int64(o.LanguageMap[k]), 10)
	}
	return b
}

// vfC38QuoteBody: strconv.Quote(s) without the surrounding quotes, and whether it has the shape the proofs assume:
// delimited by double quotes, every double quote inside directly preceded by a backslash.
func vfC38QuoteBody(s string) (string, bool) {
	q := strconv.Quote(s)
	if len(q) < 2 || q[0] != '"' || q[len(q)-1] != '"' {
		return q, false
	}
	body := q[1 : len(q)-1]
	for i := 0; i < len(body); i++ {
		if body[i] == '"' && (i == 0 || body[i-1] != '\\') {
			return body, false
		}
	}
	return body, true
}

func vfC38ByteCase(o *Options) (string, map[string]any) {
	ref := vfC38RefBytes(o)
	refOK := fmt.Sprintf("%x", sha1.Sum(ref)) == o.GetHash()
	shapeOK := true
	var quotes []string
	seen := map[string]bool{}
	strs := append(append([]string{o.ScipCTagsPath}, o.LargeFiles...), vfSortedKeys(o.LanguageMap)...)
	for _, s := range strs {
		if seen[s] {
			continue
		}
		seen[s] = true
		body, ok := vfC38QuoteBody(s)
		shapeOK = shapeOK && ok
		quotes = append(quotes, cTuple(cStr(s), cStr(body)))
	}
	var lf, lm []string
	for _, s := range o.LargeFiles {
		lf = append(lf, cStr(s))
	}
	for _, k := range vfSortedKeys(o.LanguageMap) {
		lm = append(lm, cTuple(cStr(k), cN(uint64(o.LanguageMap[k]))))
	}
	rec := cApp("mkHopts", cStr(o.CTagsPath), cBool(o.CTagsMustSucceed), cZ(int64(o.SizeMax)), cList(lf), cBool(o.DisableCTags),
		cZ(int64(o.TrigramMax)), cStr(o.ScipCTagsPath), cList(lm))
	return cApp("ByteCase", rec, cList(quotes), cBytes(ref), cBool(refOK), cBool(shapeOK)),
		map[string]any{"kind": "bytes", "o": vfC38OptsJSON(o), "ref": string(ref), "ref_sha1_is_gethash": refOK, "quote_shape_ok": shapeOK}
}

// ---------------------------------------------------------------- repositories <-> Coq

func vfC38Branches(bs []zoekt.RepositoryBranch) string {
	if bs == nil {
		return "None"
	}
	var xs []string
	for _, b := range bs {
		xs = append(xs, cTuple(cStr(b.Name), cStr(b.Version)))
	}
	return cSome(cList(xs))
}

func vfC38Map(m map[string]string) string {
	if m == nil {
		return "None"
	}
	var xs []string
	for _, k := range vfSortedKeys(m) {
		xs = append(xs, cTuple(cStr(k), cStr(m[k])))
	}
	return cSome(cList(xs))
}

type vfC38Intern struct{ m map[string]uint64 }

func (in *vfC38Intern) id(s string) uint64 {
	if in.m == nil {
		in.m = map[string]uint64{}
	}
	if v, ok := in.m[s]; ok {
		return v
	}
	v := uint64(len(in.m) + 1)
	in.m[s] = v
	return v
}

func vfC38Repo(r *zoekt.Repository, in *vfC38Intern) string {
	return cApp("mkRepo", cN(uint64(r.ID)), cStr(r.Name), vfC38Branches(r.Branches), vfC38Map(r.RawConfig), cStr(r.URL),
		cStr(r.CommitURLTemplate), cStr(r.FileURLTemplate), cStr(r.LineFragmentTemplate), cN(in.id(r.IndexOptions)), cBool(r.Tombstone))
}

func vfC38RepoJSON(r *zoekt.Repository) map[string]any {
	return map[string]any{"ID": r.ID, "Name": r.Name, "Branches": r.Branches, "BranchesNil": r.Branches == nil, "RawConfig": r.RawConfig,
		"RawConfigNil": r.RawConfig == nil, "URL": r.URL, "CommitURLTemplate": r.CommitURLTemplate, "FileURLTemplate": r.FileURLTemplate,
		"LineFragmentTemplate": r.LineFragmentTemplate, "IndexOptions": r.IndexOptions, "Tombstone": r.Tombstone}
}

func vfC38CopyRepo(r zoekt.Repository) zoekt.Repository {
	c := r
	if r.Branches != nil {
		c.Branches = append([]zoekt.RepositoryBranch{}, r.Branches...)
	}
	if r.RawConfig != nil {
		c.RawConfig = map[string]string{}
		for k, v := range r.RawConfig {
			c.RawConfig[k] = v
		}
	}
	return c
}

func vfC38GenRepo(r *vfRand, id uint32, name string) zoekt.Repository {
	urls := []string{"", "http://a", "http://b"}
	tm := []string{"", "{{.Version}}", "x"}
	d := zoekt.Repository{ID: id, Name: name, URL: r.Pick(urls), CommitURLTemplate: r.Pick(tm), FileURLTemplate: r.Pick(tm), LineFragmentTemplate: r.Pick(tm)}
	switch r.Intn(6) {
	case 0: // nil
	case 1:
		d.Branches = []zoekt.RepositoryBranch{}
	default:
		nb := 1 + r.Intn(3)
		for i := 0; i < nb; i++ {
			d.Branches = append(d.Branches, zoekt.RepositoryBranch{Name: []string{"HEAD", "main", "dev"}[i], Version: r.Pick([]string{"v1", "v2", "v3"})})
		}
	}
	switch r.Intn(5) {
	case 0:
	case 1:
		d.RawConfig = map[string]string{}
	default:
		d.RawConfig = map[string]string{}
		for _, k := range []string{"name", "id", "public", "fork", "archived", "priority"} {
			if r.Chance(35) {
				d.RawConfig[k] = r.Pick([]string{"", "1", "0", "x"})
			}
		}
	}
	return d
}

func vfC38MutateDesc(r *vfRand, d *zoekt.Repository) string {
	switch r.Intn(12) {
	case 0:
		d.ID++
		return "id"
	case 1:
		d.Name += "2"
		return "name"
	case 2:
		if len(d.Branches) > 0 {
			i := r.Intn(len(d.Branches))
			d.Branches[i].Version += "'"
			return "branch-version"
		}
		d.Branches = []zoekt.RepositoryBranch{{Name: "HEAD", Version: "v9"}}
		return "branch-add"
	case 3:
		if d.Branches == nil {
			d.Branches = []zoekt.RepositoryBranch{}
		} else if len(d.Branches) == 0 {
			d.Branches = nil
		} else {
			d.Branches = d.Branches[:len(d.Branches)-1]
		}
		return "branch-set"
	case 4:
		d.URL += "/u"
		return "url"
	case 5:
		d.CommitURLTemplate += "c"
		return "tmpl"
	case 6:
		d.FileURLTemplate += "f"
		return "tmpl"
	case 7:
		d.LineFragmentTemplate += "l"
		return "tmpl"
	case 8:
		if d.RawConfig == nil {
			d.RawConfig = map[string]string{}
		}
		d.RawConfig[r.Pick([]string{"public", "fork", "name", "id", "new"})] = r.Pick([]string{"", "1", "z"})
		return "rawconfig"
	case 9:
		if d.RawConfig != nil && len(d.RawConfig) > 0 {
			for _, k := range vfSortedKeys(d.RawConfig) {
				delete(d.RawConfig, k)
				break
			}
			return "rawconfig-del"
		}
		d.RawConfig = nil
		return "rawconfig-nil"
	}
	return "none"
}

// ---------------------------------------------------------------- canonical contents of an index directory

func vfC38Dump(dir string) (string, error) {
	shards, _ := filepath.Glob(filepath.Join(dir, "*.zoekt"))
	sort.Strings(shards)
	if len(shards) == 0 {
		return "NO-SHARDS", nil
	}
	var lines []string
	repoSyms := map[string]bool{}
	re, _ := syntax.Parse(".", syntax.Perl)
	for _, fn := range shards {
		f, err := os.Open(fn)
		if err != nil {
			return "", err
		}
		inf, err := NewIndexFile(f)
		if err != nil {
			return "", err
		}
		s, err := NewSearcher(inf)
		if err != nil {
			return "", err
		}
		res, err := s.Search(context.Background(), &query.Const{Value: true}, &zoekt.SearchOptions{Whole: true})
		if err != nil {
			s.Close()
			return "", err
		}
		for _, fm := range res.Files {
			lines = append(lines, fmt.Sprintf("doc %s/%s lang=%s br=%v content=%x", fm.Repository, fm.FileName, fm.Language, fm.Branches, sha1.Sum(fm.Content)))
		}
		res, err = s.Search(context.Background(), &query.Symbol{Expr: &query.Regexp{Regexp: re}}, &zoekt.SearchOptions{ChunkMatches: true})
		if err != nil {
			s.Close()
			return "", err
		}
		for _, fm := range res.Files {
			for _, cm := range fm.ChunkMatches {
				for i, rg := range cm.Ranges {
					sym := ""
					if i < len(cm.SymbolInfo) && cm.SymbolInfo[i] != nil {
						sym = cm.SymbolInfo[i].Sym + ":" + cm.SymbolInfo[i].Kind
					}
					lines = append(lines, fmt.Sprintf("sym %s/%s %d-%d %s", fm.Repository, fm.FileName, rg.Start.ByteOffset, rg.End.ByteOffset, sym))
				}
			}
		}
		rl, err := s.List(context.Background(), &query.Const{Value: true}, nil)
		if err == nil {
			for _, e := range rl.Repos {
				// one line per repository, however many shards it was split into (ShardMax is not content-affecting)
				repoSyms[e.Repository.Name] = repoSyms[e.Repository.Name] || e.Repository.HasSymbols
			}
		}
		s.Close()
	}
	for name, hs := range repoSyms {
		lines = append(lines, fmt.Sprintf("repo %s hassymbols=%v", name, hs))
	}
	sort.Strings(lines)
	return strings.Join(lines, "\n"), nil
}

func vfC38Corpus() []Document {
	var big, many bytes.Buffer
	for i := 0; big.Len() < 3000; i++ {
		fmt.Fprintf(&big, "word%d ", i%7)
	}
	for i := 0; i < 400; i++ {
		fmt.Fprintf(&many, "%c%c%c ", 'a'+i%26, 'a'+(i/26)%26, 'a'+(i*7)%26)
	}
	br := []string{"HEAD"}
	return []Document{
		{Name: "small.go", Content: []byte("package a\nfunc Foo() {}\ntype Bar int\nvar Baz = 1\nconst Qux = 2\n"), Branches: br},
		{Name: "big.txt", Content: big.Bytes(), Branches: br},
		{Name: "many.txt", Content: many.Bytes(), Branches: br},
		{Name: "other.go", Content: []byte("package a\nfunc Other() {}\n"), Branches: br},
		// a non-Go document: parsed by universal-ctags even when the language map sends Go to scip-ctags
		{Name: "notes.txt", Content: []byte("notes\nfunc Note\nvar Vee\n"), Branches: br},
		// typical targets of filtering options, so that a NEW option acting on them is observable by the rebuild-and-diff oracle
		{Name: ".hidden.go", Content: []byte("package a\nfunc Hidden() {}\n"), Branches: br},
		{Name: "vendor/dep/dep.go", Content: []byte("package dep\nfunc Dep() {}\n"), Branches: br},
		{Name: "a_test.go", Content: []byte("package a\nfunc TestA() {}\n"), Branches: br},
		{Name: "gen.pb.go", Content: []byte("// Code generated by protoc. DO NOT EDIT.\npackage a\n"), Branches: br},
		{Name: "bin.dat", Content: []byte("abc\x00def"), Branches: br},
	}
}

// vfC38Build runs a real build of the oracle corpus; returns "" or the error text.
func vfC38Build(o Options, docs []Document) string {
	b, err := NewBuilder(o)
	if err != nil {
		return "NewBuilder: " + err.Error()
	}
	for _, d := range docs {
		d2 := d
		d2.Content = append([]byte(nil), d.Content...)
		d2.Branches = nil
		if bs := o.RepositoryDescription.Branches; len(bs) > 0 {
			d2.Branches = []string{bs[0].Name}
		}
		if err := b.Add(d2); err != nil {
			b.Finish()
			return "Add: " + err.Error()
		}
	}
	if err := b.Finish(); err != nil {
		return "Finish: " + err.Error()
	}
	return ""
}

func vfC38StateCode(s IndexState) uint64 {
	switch s {
	case IndexStateMissing:
		return 0
	case IndexStateCorrupt:
		return 1
	case IndexStateVersion:
		return 2
	case IndexStateOption:
		return 3
	case IndexStateMeta:
		return 4
	case IndexStateContent:
		return 5
	case IndexStateEqual:
		return 6
	}
	return 99
}

// vfC38Disk records what IndexState will read for o: findShard + the shard's metadata (tombstoned entries included).
func vfC38Disk(o *Options, in *vfC38Intern) (string, map[string]any) {
	fn := o.findShard()
	if fn == "" {
		return "DNoShard", map[string]any{"shard": ""}
	}
	repos, md, err := ReadMetadataPath(fn)
	if os.IsNotExist(err) {
		return "DNotExist", map[string]any{"shard": fn, "err": "notexist"}
	} else if err != nil {
		return "DReadErr", map[string]any{"shard": filepath.Base(fn), "err": err.Error()}
	}
	var xs []string
	var js []any
	for _, r := range repos {
		xs = append(xs, vfC38Repo(r, in))
		js = append(js, vfC38RepoJSON(r))
	}
	return cApp("DShard", cN(uint64(md.IndexFormatVersion)), cN(uint64(md.IndexFeatureVersion)), cList(xs)),
		map[string]any{"shard": filepath.Base(fn), "format": md.IndexFormatVersion, "feature": md.IndexFeatureVersion, "repos": js}
}

// the specification list of content-affecting options (mirrors content_affecting in coq/Props/C38.v)
var vfC38ContentAffecting = []string{"SizeMax", "TrigramMax", "LargeFiles", "DisableCTags", "CTagsPath", "ScipCTagsPath", "CTagsMustSucceed", "LanguageMap"}

func TestVerifC38(t *testing.T) {
	t0 := time.Now()
	r := vfNewRand(vfSeed())
	n := vfN(300)
	tmp, err := os.MkdirTemp(os.Getenv("VERIF_TMP"), "c38-")
	if err != nil {
		t.Fatal(err)
	}
	defer os.RemoveAll(tmp)
	env := &vfC38Env{
		u1: vfC38FakeBin(t, tmp, "universal-ctags-1", "u1"), u2: vfC38FakeBin(t, tmp, "universal-ctags-2", "u2"),
		s1: vfC38FakeBin(t, tmp, "scip-ctags-1", "s1"), s2: vfC38FakeBin(t, tmp, "scip-ctags-2", "s2"),
		fail: vfC38FakeBin(t, tmp, "universal-ctags-fail", "fail"),
	}
	os.MkdirAll(filepath.Join(tmp, "alt"), 0o755)
	env.u1alt = vfC38FakeBin(t, filepath.Join(tmp, "alt"), "universal-ctags-1", "u2")
	env.s1alt = vfC38FakeBin(t, filepath.Join(tmp, "alt"), "scip-ctags-1", "s2")
	fields := vfC38Fields()
	vfInfo(map[string]any{"options_value_fields": fields})
	in := &vfC38Intern{}
	docs := vfC38Corpus()
	dirN := 0
	newDir := func() string {
		dirN++
		d := filepath.Join(tmp, fmt.Sprintf("d%d", dirN))
		os.MkdirAll(d, 0o755)
		return d
	}
	// a random but valid option set. withCtags: use the fake binaries (slower: spawns processes at build time)
	genOpts := func(withCtags bool) Options {
		o := Options{SizeMax: []int{1000, 100000, 2 << 20}[r.Intn(3)], TrigramMax: []int{20000, 50, 0, 70}[r.Intn(4)], Parallelism: 1,
			ShardMax: []int{100 << 20, 600}[r.Intn(2)], DisableCTags: !withCtags}
		if r.Chance(30) {
			o.LargeFiles = []string{"big.txt"}
		} else if r.Chance(50) {
			o.LargeFiles = vfC38GenLargeFiles(r)
		}
		if withCtags {
			o.CTagsPath = env.u1
			if r.Chance(50) {
				o.ScipCTagsPath = env.s1
			}
			if r.Chance(40) {
				o.LanguageMap = ctags.LanguageMap{"go": ctags.ScipCTags}
				// more entries (languages the corpus does not contain), inserted in random order
				for _, l := range []string{"c", "python", "zig", "ada"} {
					if r.Chance(35) {
						o.LanguageMap[l] = []ctags.CTagsParserType{ctags.NoCTags, ctags.UniversalCTags, ctags.ScipCTags}[r.Intn(3)]
					}
				}
				o.LanguageMap = vfC38ReinsertMap(r, o.LanguageMap)
			}
		} else if r.Chance(30) {
			// paths set although ctags is disabled: still hashed
			o.CTagsPath = r.Pick([]string{env.u1, env.u2, "/nonexistent/ctags"})
		}
		if r.Chance(15) {
			o.CTagsMustSucceed = withCtags
			if withCtags && len(o.LanguageMap) > 0 {
				o.ScipCTagsPath = env.s1 // NewParserBinMap requires the scip binary then
			}
		}
		return o
	}

	// ================= HashCase + hash-level oracle
	nh := n
	for i := 0; i < nh; i++ {
		o1 := genOpts(r.Chance(50))
		o2 := o1
		var flipped []string
		k := r.Intn(4)
		if k == 3 {
			k = 1
		}
		for j := 0; j < k; j++ {
			f := r.Pick(fields)
			vfC38Flip(r, &o2, f, env)
			flipped = append(flipped, f)
		}
		if r.Chance(10) && len(flipped) > 0 { // flip back: equal again through a different path
			o2 = o1
			flipped = append(flipped, "reverted")
		}
		if i%3 == 0 { // list-/map-valued options: same elements, rearranged
			if len(o1.LargeFiles) < 2 {
				for len(o1.LargeFiles) < 2 || reflect.DeepEqual(o1.LargeFiles[0], o1.LargeFiles[1]) {
					o1.LargeFiles = vfC38GenLargeFiles(r)
				}
				o2 = o1
				flipped = nil
			}
			vs := vfC38ListVariants(o1.LargeFiles)
			kind := r.Pick(vfSortedKeys(vs))
			o2.LargeFiles = vs[kind]
			flipped = append(flipped, "LargeFiles:"+kind)
			if len(o1.LanguageMap) > 0 {
				o2.LanguageMap = vfC38ReinsertMap(r, o2.LanguageMap)
			}
		}
		if i%7 == 3 { // splices: move bytes of the concatenated encoding across the boundaries between the hashed values
			o1 = genOpts(false)
			o2 = o1
			flipped = []string{"splice"}
			switch r.Intn(10) {
			case 8: // near misses of a path: another directory, another case, trailing blank / slash (different binaries)
				f := r.Pick([]string{"CTagsPath", "ScipCTagsPath"})
				p := r.Pick([]string{env.u1, env.s1, "/usr/local/bin/ctags", "bin/Universal-Ctags"})
				q := []string{filepath.Join(filepath.Dir(p), "alt", filepath.Base(p)), filepath.Base(p), strings.ToUpper(p), strings.ToLower(p) + " ", p + "/", " " + p}[r.Intn(6)]
				reflect.ValueOf(&o1).Elem().FieldByName(f).SetString(p)
				o2 = o1
				reflect.ValueOf(&o2).Elem().FieldByName(f).SetString(q)
			case 9: // near misses of a pattern list: case, blanks, a pattern and its negation
				o1.LargeFiles = []string{r.Pick(vfC38Patterns), r.Pick(vfC38Patterns)}
				o2.LargeFiles = append([]string(nil), o1.LargeFiles...)
				k := r.Intn(2)
				o2.LargeFiles[k] = []string{strings.ToUpper(o1.LargeFiles[k]), o1.LargeFiles[k] + " ", "!" + o1.LargeFiles[k], strings.TrimPrefix(o1.LargeFiles[k], "!")}[r.Intn(4)]
			case 0: // the unterminated raw CTagsPath absorbs the following %t
				o2.CTagsPath = o1.CTagsPath + fmt.Sprintf("%t", o1.CTagsMustSucceed)
				o2.CTagsMustSucceed = r.Bool()
			case 1: // ... and the %d%q%t after it
				o2.CTagsPath = o1.CTagsPath + fmt.Sprintf("%t%d%q%t", o1.CTagsMustSucceed, o1.SizeMax, o1.LargeFiles, o1.DisableCTags)
			case 2: // one element with a space vs two elements; quotes inside an element
				o1.LargeFiles = []string{"a b", "c"}
				o2.LargeFiles = [][]string{{"a", "b", "c"}, {"a b c"}, {`a" "b`, "c"}, {`a b" "c`}}[r.Intn(4)]
				switch r.Intn(3) {
				case 0: // the same with real patterns and the separators a joined / %v encoding would use (space, comma:
					// doublestar alternations contain commas), the two lists deciding differently about many.txt
					o1.LargeFiles = []string{"many.txt big.txt"}
					o2.LargeFiles = []string{"many.txt", "big.txt"}
				case 1:
					o1.LargeFiles = []string{"{many,big}.txt", "!big.txt"}
					o2.LargeFiles = []string{"{many", "big}.txt,!big.txt"}
				}
			case 3: // digits moving between SizeMax and the list / the tail
				o1.SizeMax, o1.LargeFiles = 12, []string{"3"}
				o2.SizeMax, o2.LargeFiles = 123, []string{""}
			case 4: // the optional tail writes spelled inside a string value
				o1.TrigramMax, o1.ScipCTagsPath = 7, "s"
				o2.TrigramMax, o2.ScipCTagsPath = 0, r.Pick([]string{`trigramMax=7scipCTagsPath="s"`, `s"trigramMax=7`, "s"})
				if r.Bool() {
					o2.CTagsPath = o1.CTagsPath + `trigramMax=7`
				}
			case 5: // language map entries spelled inside a key / inside the scip path
				o1.LanguageMap = ctags.LanguageMap{"a": 1, "b": 2}
				o2.LanguageMap = []ctags.LanguageMap{{`a":1languageMap="b`: 2}, {"a": 1}, {"a": 12}, {"a": 1, "b": 2, "": 0}}[r.Intn(4)]
				if r.Bool() {
					o2.ScipCTagsPath = `x"languageMap="b":2`
				}
			case 6: // the last element of the list absorbs the %t after it
				o1.LargeFiles, o1.DisableCTags = []string{"x"}, true
				o2.LargeFiles, o2.DisableCTags = []string{`x"]true`}, r.Bool()
			case 7: // 0 / default / explicit default of TrigramMax, negative numbers
				o1.TrigramMax = []int{0, 20000, -1, 1}[r.Intn(4)]
				o2.TrigramMax = []int{0, 20000, -1, 1}[r.Intn(4)]
				o2.SizeMax = []int{o1.SizeMax, -o1.SizeMax}[r.Intn(2)]
			}
		}
		h1, h2 := o1.GetHash(), o2.GetHash()
		if h1 == h2 {
			// equal hashes => IndexState can say "equal": every scalar content-affecting option must have the same effective value
			e1, e2 := o1, o2
			e1.SetDefaults()
			e2.SetDefaults()
			for _, f := range []string{"SizeMax", "TrigramMax", "DisableCTags", "CTagsPath", "ScipCTagsPath", "CTagsMustSucceed"} {
				v1, v2 := reflect.ValueOf(e1).FieldByName(f).Interface(), reflect.ValueOf(e2).FieldByName(f).Interface()
				if f == "SizeMax" {
					v1, v2 = o1.SizeMax, o2.SizeMax // GetHash sees the value as given; 0 is only replaced by the builder
				}
				if !reflect.DeepEqual(v1, v2) {
					vfOracleFail("hash-equal:"+f, "two option sets with different "+f+" have the same GetHash(): IndexState reports equal and the re-index is skipped",
						map[string]any{"field": f, "o1": vfC38OptsJSON(&o1), "o2": vfC38OptsJSON(&o2), "hash": h1})
				}
			}
			// ... and the large-file decisions of the two option sets must agree
			if name, same := vfC38SameLargeFileDecisions(&o1, &o2); !same {
				vfOracleFail("hash-equal:LargeFiles", fmt.Sprintf("two LargeFiles lists that decide differently about %q (IgnoreSizeMax: the last matching pattern wins) have the same GetHash(): IndexState reports equal and the re-index is skipped", name),
					map[string]any{"field": "LargeFiles", "name": name, "o1": vfC38OptsJSON(&o1), "o2": vfC38OptsJSON(&o2), "hash": h1,
						"ignoreSizeMax_o1": o1.IgnoreSizeMax(name), "ignoreSizeMax_o2": o2.IgnoreSizeMax(name)})
			}
			if (len(o1.LanguageMap) > 0 || len(o2.LanguageMap) > 0) && !reflect.DeepEqual(o1.LanguageMap, o2.LanguageMap) {
				vfOracleFail("hash-equal:LanguageMap", "two different LanguageMaps have the same GetHash()",
					map[string]any{"field": "LanguageMap", "o1": vfC38OptsJSON(&o1), "o2": vfC38OptsJSON(&o2), "hash": h1})
			}
		}
		{ // the bytes that are hashed: reference encoder vs real hash (here), Coq byte model vs reference encoder (runner)
			bc, bj := vfC38ByteCase(&o2)
			vfCase(bc, vfKey("bytes", bc), len(flipped) > 0, []string{"bytes", fmt.Sprintf("bytes-ref-ok=%v", bj["ref_sha1_is_gethash"])}, bj)
		}
		if len(o1.LanguageMap) > 1 {
			// the same option VALUES (map re-inserted in another order) must hash the same, every time
			o1r := o1
			o1r.LanguageMap = vfC38ReinsertMap(r, o1.LanguageMap)
			if hr := o1r.GetHash(); hr != h1 || o1.GetHash() != h1 {
				vfOracleFail("hash-unstable:LanguageMap", "GetHash() differs between two calls on equal options (map iteration order?)",
					map[string]any{"o1": vfC38OptsJSON(&o1), "hash1": h1, "hash2": hr})
			}
		}
		coq := cApp("HashCase", vfC38OptsCoq(&o1), vfC38OptsCoq(&o2), cBool(h1 == h2))
		vfCase(coq, vfKey("hash", vfC38OptsCoq(&o1), vfC38OptsCoq(&o2)), len(flipped) > 0,
			[]string{"hash", fmt.Sprintf("hash-eq=%v", h1 == h2)}, map[string]any{"kind": "hash", "o1": vfC38OptsJSON(&o1), "flipped": flipped, "equal": h1 == h2})
	}
	for _, f := range vfC38ContentAffecting {
		for i := 0; i < 6; i++ {
			o1 := genOpts(i%2 == 0)
			o2 := o1
			vfC38Flip(r, &o2, f, env)
			if reflect.DeepEqual(reflect.ValueOf(o1).FieldByName(f).Interface(), reflect.ValueOf(o2).FieldByName(f).Interface()) {
				continue
			}
			if f == "TrigramMax" && (o1.TrigramMax == 0 || o2.TrigramMax == 0) {
				o1n, o2n := o1, o2
				o1n.SetDefaults()
				o2n.SetDefaults()
				if o1n.TrigramMax == o2n.TrigramMax {
					continue // 0 means "default": same effective value
				}
			}
			if o1.GetHash() == o2.GetHash() {
				vfOracleFail("unhashed:"+f, "option "+f+" changes what is indexed but GetHash() is the same for different values: IndexState reports equal and the re-index is skipped",
					map[string]any{"field": f, "o1": vfC38OptsJSON(&o1), "o2": vfC38OptsJSON(&o2), "hash": o1.GetHash()})
				break
			}
		}
	}

	vfInfo(map[string]any{"phase": "hash", "t": time.Since(t0).String()})
	// ================= MergeCase
	for i := 0; i < n; i++ {
		a := vfC38GenRepo(r, uint32(1+r.Intn(2)), r.Pick([]string{"repo", "repo2"}))
		a.IndexOptions = r.Pick([]string{"h1", "h2"})
		b := vfC38CopyRepo(a)
		b.IndexOptions = ""
		if r.Chance(25) {
			b = vfC38GenRepo(r, a.ID, a.Name)
		}
		nm := r.Intn(3)
		var muts []string
		for j := 0; j < nm; j++ {
			muts = append(muts, vfC38MutateDesc(r, &b))
		}
		ra := vfC38CopyRepo(a)
		before := vfC38Repo(&a, in)
		bs := vfC38Repo(&b, in)
		mutated, err := ra.MergeMutable(&b)
		obs := "None"
		if err == nil {
			obs = cSome(cTuple(cBool(mutated), vfC38Repo(&ra, in)))
		}
		// oracle: metadata-only merge never touches identity / branches / hash; an error leaves them alone too
		if ra.ID != a.ID || ra.Name != a.Name || !reflect.DeepEqual(ra.Branches, a.Branches) || ra.IndexOptions != a.IndexOptions {
			vfOracleFail("merge:immutable-changed", "MergeMutable changed an immutable field", map[string]any{"r": vfC38RepoJSON(&a), "x": vfC38RepoJSON(&b)})
		}
		if err == nil && !mutated && (a.URL != b.URL || a.CommitURLTemplate != b.CommitURLTemplate || a.FileURLTemplate != b.FileURLTemplate || a.LineFragmentTemplate != b.LineFragmentTemplate) {
			vfOracleFail("merge:missed", "MergeMutable reports no change although a mutable field differs", map[string]any{"r": vfC38RepoJSON(&a), "x": vfC38RepoJSON(&b)})
		}
		cls := "merge-err"
		if err == nil {
			cls = fmt.Sprintf("merge-mutated=%v", mutated)
		}
		vfCase(cApp("MergeCase", before, bs, obs), vfKey("merge", before, bs), nm > 0, []string{"merge", cls},
			map[string]any{"kind": "merge", "r": vfC38RepoJSON(&a), "x": vfC38RepoJSON(&b), "muts": muts})
	}

	vfInfo(map[string]any{"phase": "merge", "t": time.Since(t0).String()})
	// ================= real builds: BuildCase + StateCase
	nb := 6 * (1 + n/1000)
	for bi := 0; bi < nb; bi++ {
		dir := newDir()
		withCtags := bi%3 == 0
		o1 := genOpts(withCtags)
		o1.IndexDir = dir
		id := uint32(1 + r.Intn(3))
		desc := vfC38GenRepo(r, id, r.Pick([]string{"repo", "org/repo"}))
		if desc.RawConfig != nil && r.Chance(50) {
			desc.RawConfig["repoid"] = fmt.Sprint(id)
		}
		o1.RepositoryDescription = vfC38CopyRepo(desc)
		shape := []string{"simple", "simple", "compound", "truncated", "feature-patched", "compound-tombstoned"}[bi%6]
		if msg := vfC38Build(o1, docs[:1+r.Intn(len(docs))]); msg != "" {
			t.Fatalf("build failed: %s", msg)
		}
		o1d := o1
		o1d.SetDefaults() // what the Builder used
		shard0 := o1.shardName(0)
		// ---- BuildCase
		repos, _, err := ReadMetadataPath(shard0)
		if err != nil || len(repos) != 1 {
			t.Fatalf("read back: %v %d", err, len(repos))
		}
		hashOK := repos[0].IndexOptions == o1d.GetHash()
		if !hashOK {
			vfOracleFail("build:hash", "the IndexOptions recorded by a build is not GetHash() of the builder's options", map[string]any{"o": vfC38OptsJSON(&o1d), "stored": repos[0].IndexOptions})
		}
		vfCase(cApp("BuildCase", vfC38OptsCoq(&o1d), vfC38Repo(&desc, in), vfC38Repo(repos[0], in), cBool(hashOK)),
			vfKey("build", bi, vfC38OptsCoq(&o1d), vfC38Repo(&desc, in)), true, []string{"build"},
			map[string]any{"kind": "build", "desc": vfC38RepoJSON(&desc), "stored": vfC38RepoJSON(repos[0])})
		// ---- reshape the directory
		switch shape {
		case "compound", "compound-tombstoned":
			o3 := genOpts(false)
			o3.IndexDir = dir
			o3.RepositoryDescription = vfC38GenRepo(r, id+10, "zzz-other")
			if msg := vfC38Build(o3, docs[:1]); msg != "" {
				t.Fatalf("build failed: %s", msg)
			}
			var files []IndexFile
			for _, p := range []string{shard0, o3.shardName(0)} {
				all := (&Options{IndexDir: dir, RepositoryDescription: zoekt.Repository{Name: map[bool]string{true: desc.Name, false: "zzz-other"}[p == shard0]}}).FindAllShards()
				for _, q := range all {
					f, err := os.Open(q)
					if err != nil {
						t.Fatal(err)
					}
					inf, err := NewIndexFile(f)
					if err != nil {
						t.Fatal(err)
					}
					files = append(files, inf)
				}
			}
			tmpN, dstN, err := Merge(dir, files...)
			if err != nil {
				t.Fatalf("merge: %v", err)
			}
			for _, f := range files {
				f.Close()
			}
			olds, _ := filepath.Glob(filepath.Join(dir, "*.zoekt"))
			for _, p := range olds {
				os.Remove(p)
			}
			if err := os.Rename(tmpN, dstN); err != nil {
				t.Fatal(err)
			}
			if shape == "compound-tombstoned" {
				if err := SetTombstone(dstN, id); err != nil {
					t.Fatalf("tombstone: %v", err)
				}
			}
		case "truncated":
			b, _ := os.ReadFile(shard0)
			os.WriteFile(shard0, b[:len(b)/2], 0o644)
		case "feature-patched":
			b, _ := os.ReadFile(shard0)
			old := []byte(fmt.Sprintf(`"IndexFeatureVersion":%d`, FeatureVersion))
			if FeatureVersion >= 11 && FeatureVersion < 100 && bytes.Count(b, old) == 1 {
				b = bytes.Replace(b, old, []byte(fmt.Sprintf(`"IndexFeatureVersion":%d`, FeatureVersion-1)), 1)
				os.WriteFile(shard0, b, 0o644)
			} else {
				shape = "simple"
			}
		}
		vfInfo(map[string]any{"phase": "built " + shape, "t": time.Since(t0).String()})
		// ---- StateCases against this directory
		nq := 4 + n/12
		for qi := 0; qi < nq; qi++ {
			o2 := o1
			var what []string
			if qi > 0 {
				for j := r.Intn(3); j > 0; j-- {
					f := r.Pick(fields)
					if f == "IndexDir" {
						continue
					}
					vfC38Flip(r, &o2, f, env)
					what = append(what, f)
				}
			}
			if r.Chance(50) {
				o2.SetDefaults()
			}
			d2 := vfC38CopyRepo(desc)
			if qi > 0 {
				for j := r.Intn(3); j > 0; j-- {
					what = append(what, vfC38MutateDesc(r, &d2))
				}
			}
			o2.RepositoryDescription = d2
			diskCoq, diskJS := vfC38Disk(&o2, in)
			st, _ := o2.IndexState()
			skip := o2.IncrementalSkipIndexing()
			if skip != (st == IndexStateEqual) {
				vfOracleFail("skip:state", "IncrementalSkipIndexing disagrees with IndexState", map[string]any{"state": st})
			}
			coq := cApp("StateCase", diskCoq, cN(in.id(o2.GetHash())), vfC38Repo(&d2, in), cN(vfC38StateCode(st)))
			vfCase(coq, vfKey("state", bi, qi, coq), len(what) > 0, []string{"state", "shape=" + shape, "state=" + string(st)},
				map[string]any{"kind": "state", "shape": shape, "changed": what, "disk": diskJS, "desc": vfC38RepoJSON(&d2), "state": st})
			if shape == "feature-patched" && (st == IndexStateEqual || st == IndexStateMeta) {
				vfOracleFail("state:feature-version", "IndexState reports "+string(st)+" for an index written with a different feature version of a supported format version",
					map[string]any{"disk": diskJS, "state": st})
			}
			// ---- oracle on the simple directories: Equal/Meta only if branches, identity and the effective hashed build options agree
			if shape == "simple" && (st == IndexStateEqual || st == IndexStateMeta) {
				if !reflect.DeepEqual(d2.Branches, repos[0].Branches) || d2.Name != desc.Name {
					vfOracleFail("state:branches", "IndexState reports "+string(st)+" although the branches or the name differ from the index",
						map[string]any{"desc": vfC38RepoJSON(&d2), "stored": vfC38RepoJSON(repos[0])})
				}
			}
		}
	}

	vfInfo(map[string]any{"phase": "state", "t": time.Since(t0).String()})
	// ================= end-to-end oracle: flip ONE option, compare IndexState's verdict with the contents of a rebuild
	if os.Getenv("VERIF_C38_NO_E2E") == "" {
		bases := []string{"ctags", "ctags-failing"}
		if vfTier() == "thorough" {
			bases = []string{"plain", "ctags", "ctags-failing"}
		}
		for _, base := range bases {
			o1 := Options{SizeMax: 1000, TrigramMax: 20000, Parallelism: 1, ShardMax: 100 << 20, DisableCTags: true,
				RepositoryDescription: zoekt.Repository{Name: "repo", ID: 7, Branches: []zoekt.RepositoryBranch{{Name: "HEAD", Version: "v1"}}}}
			switch base {
			case "plain":
				// big.txt and many.txt exceed SizeMax; the last matching pattern decides: big.txt is indexed (the second
				// "*.txt" wins over "!big.txt"); after de-duplication it would not be
				o1.LargeFiles = []string{"*.txt", "!big.txt", "*.txt"}
			case "ctags":
				// big.txt is matched by a positive and a LATER negated pattern: not indexed; in any other order it is
				o1.LargeFiles = []string{"*.txt", "!big.txt"}
				o1.DisableCTags = false
				o1.CTagsPath, o1.ScipCTagsPath = env.u1, env.s1
				o1.LanguageMap = ctags.LanguageMap{"go": ctags.ScipCTags}
			case "ctags-failing":
				o1.DisableCTags = false
				o1.CTagsPath = env.fail
			}
			dirA := newDir()
			o1.IndexDir = dirA
			msgA := vfC38Build(o1, docs)
			dumpA, err := vfC38Dump(dirA)
			if err != nil {
				t.Fatalf("dump: %v", err)
			}
			if base == "ctags" && !strings.Contains(dumpA, "\nsym ") {
				t.Fatalf("harness: the fake ctags binaries produced no symbols:\n%s", dumpA)
			}
			if msgA != "" {
				dumpA = "BUILD-ERROR"
				if base != "ctags-failing" {
					t.Fatalf("e2e base build failed: %s", msgA)
				}
			}
			for _, f := range fields {
				if f == "IndexDir" || (base == "ctags-failing" && f != "CTagsMustSucceed") {
					continue
				}
				// the alternatives for field f: one changed value, and for list-valued fields every rearrangement
				// of the same elements (order can matter: LargeFiles)
				type vfAlt struct {
					what string
					o    Options
				}
				oflip := o1
				vfC38Flip(r, &oflip, f, env)
				alts := []vfAlt{{"flip", oflip}}
				if fv := reflect.ValueOf(&o1).Elem().FieldByName(f); fv.Kind() == reflect.Slice && fv.Type().Elem().Kind() == reflect.String {
					vs := vfC38ListVariants(fv.Interface().([]string))
					for _, k := range vfSortedKeys(vs) {
						o3 := o1
						reflect.ValueOf(&o3).Elem().FieldByName(f).Set(reflect.ValueOf(vs[k]))
						alts = append(alts, vfAlt{k, o3})
					}
				}
				// a different binary with the same base name (a hash of the base name only would not notice)
				if f == "CTagsPath" && o1.CTagsPath == env.u1 {
					o3 := o1
					o3.CTagsPath = env.u1alt
					alts = append(alts, vfAlt{"same-basename-other-dir", o3})
				}
				if f == "ScipCTagsPath" && o1.ScipCTagsPath == env.s1 {
					o3 := o1
					o3.ScipCTagsPath = env.s1alt
					alts = append(alts, vfAlt{"same-basename-other-dir", o3})
				}
				for _, alt := range alts {
					o2 := alt.o
					key := "unhashed:" + f
					if alt.what == "same-basename-other-dir" {
						key = "changed:" + f
					} else if alt.what != "flip" {
						key = "rearranged:" + f
					}
					st, _ := o2.IndexState() // against dirA
					if st != IndexStateEqual && vfTier() != "thorough" {
						// a re-index happens anyway; the rebuild comparison is only needed for skipped re-indexes
						vfInfo(map[string]any{"e2e": base, "field": f, "alt": alt.what, "state": st})
						continue
					}
					dirB := newDir()
					o2b := o2
					o2b.IndexDir = dirB
					msgB := vfC38Build(o2b, docs)
					dumpB, err := vfC38Dump(dirB)
					if err != nil {
						t.Fatalf("dump: %v", err)
					}
					if msgB != "" {
						dumpB = "BUILD-ERROR"
					}
					differ := dumpA != dumpB
					vfInfo(map[string]any{"e2e": base, "field": f, "alt": alt.what, "state": st, "content_differs": differ})
					if st == IndexStateEqual && differ {
						vfOracleFail(key, "after changing option "+f+" ("+alt.what+") IndexState still reports equal (re-index skipped) although a rebuild with the new value produces different index contents",
							map[string]any{"field": f, "change": alt.what, "base": base, "o1": vfC38OptsJSON(&o1), "o2": vfC38OptsJSON(&o2), "contents_old": dumpA, "contents_new": dumpB})
					}
					os.RemoveAll(dirB)
				}
			}
		}
	}
}
