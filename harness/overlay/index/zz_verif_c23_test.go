package index

// C23 correspondence + oracle at shard level: indexData.Search / indexData.List on simple and compound
// shards mixing tenants, under {tenant i, no tenant, system} contexts, strict and non-strict mode.
// Mapped into /repo/index by `go test -overlay`; never copied into /repo.

import (
	"bytes"
	"context"
	"fmt"
	"os"
	"path/filepath"
	"reflect"
	"sort"
	"strings"
	"testing"

	"github.com/RoaringBitmap/roaring/v2"
	"github.com/grafana/regexp"

	"github.com/sourcegraph/zoekt"
	"github.com/sourcegraph/zoekt/internal/tenant/systemtenant"
	"github.com/sourcegraph/zoekt/internal/tenant/tenanttest"
	"github.com/sourcegraph/zoekt/query"
)

type vfC23Sub struct{ path, name, url, frag string }
type vfC23Doc struct {
	name, content string
	sub           int // 0 = root, k = subs[k-1]
	fid           uint64
}
type vfC23Repo struct {
	idx               int
	name, marker      string
	shared            bool // the name is also the name of a repository of another tenant in the same shard
	id                uint32
	tenant            int
	tomb              bool
	url, frag         string
	subs              []vfC23Sub
	docs              []vfC23Doc
	meta              map[string]string
	ftomb             map[string]struct{}
	nameID, urlID, frID uint64
}

type vfC23Scenario struct {
	repos []*vfC23Repo // in shard order
	d     *indexData
	ids   map[string]uint64 // string -> model identifier
	kind  string
	dense bool
}

type vfMemFile struct{ b []byte }

func (s *vfMemFile) Name() string { return "vfmem" }
func (s *vfMemFile) Close()       {}
func (s *vfMemFile) Read(off, sz uint32) ([]byte, error) {
	if uint64(off)+uint64(sz) > uint64(len(s.b)) {
		return nil, fmt.Errorf("vfMemFile: read past end")
	}
	return s.b[off : off+sz], nil
}
func (s *vfMemFile) Size() (uint32, error) { return uint32(len(s.b)), nil }

var vfC23Words = []string{"needle", "apple", "banana", "cherry"}

// dense: every repository has 3-5 documents and every document contains the common word "needle" on one or two
// lines (so that a repository reaches ShardRepoMaxMatchCount in {1, 2} before its last document and the FIRST document
// of the repository that follows it in the shard matches as well), more tombstones and file tombstones on first documents.
func vfC23GenRepos(r *vfRand, nrepos int, base int, dense bool) []*vfC23Repo {
	var repos []*vfC23Repo
	for i := 0; i < nrepos; i++ {
		gi := base + i
		marker := fmt.Sprintf("zq%dx", gi)
		tn := 1 + r.Intn(3)
		if r.Chance(7) {
			tn = 0 // repository without a tenant id
		}
		rp := &vfC23Repo{idx: gi, marker: marker, tenant: tn,
			name: fmt.Sprintf("t%d-r%d-%s", tn, gi, marker),
			id:   uint32(7000000 + gi),
			url:  fmt.Sprintf("http://host-%s/{{.Path}}", marker),
			frag: fmt.Sprintf("#L{{.LineNumber}}-%s", marker),
			meta: map[string]string{"k": r.Pick([]string{"yes", "no"}), "secret": "meta" + marker},
		}
		if r.Chance(8) {
			rp.id = 0
		}
		// repository names are unique per tenant only: with some probability this repository gets the NAME of an
		// earlier repository of another tenant (everything else — id, templates, source, metadata — stays its own)
		if i > 0 && r.Chance(40) {
			other := repos[r.Intn(len(repos))]
			clash := other.tenant == tn
			for _, x := range repos {
				if x.name == other.name && x.tenant == tn {
					clash = true
				}
			}
			if !clash {
				if !other.shared {
					other.name = fmt.Sprintf("shared/app%d", other.idx)
					other.shared = true
				}
				rp.name, rp.shared = other.name, true
			}
		}
		if r.Chance(35) {
			ns := 1 + r.Intn(2)
			for k := 0; k < ns; k++ {
				rp.subs = append(rp.subs, vfC23Sub{path: fmt.Sprintf("sub%d", k), name: fmt.Sprintf("subrepo%d-%s", k, marker),
					url: fmt.Sprintf("http://subhost%d-%s/{{.Path}}", k, marker), frag: fmt.Sprintf("#S%d-%s", k, marker)})
			}
		}
		nd := 1 + r.Intn(3)
		if dense {
			nd = 3 + r.Intn(3)
		}
		for j := 0; j < nd; j++ {
			var ws []string
			for k, nw := 0, 1+r.Intn(3); k < nw; k++ {
				ws = append(ws, r.Pick(vfC23Words))
			}
			ws = append(ws, "word"+marker)
			content := strings.Join(ws, " ") + "\n"
			if dense {
				content = "needle " + content
				if r.Chance(40) {
					content += "second line needle " + r.Pick(vfC23Words) + "\n"
				}
			}
			dc := vfC23Doc{name: fmt.Sprintf("%s/f%d.txt", marker, j), content: content, fid: uint64(1000 + gi*10 + j)}
			if len(rp.subs) > 0 && r.Chance(50) {
				dc.sub = 1 + r.Intn(len(rp.subs))
				dc.name = rp.subs[dc.sub-1].path + "/" + dc.name
			}
			rp.docs = append(rp.docs, dc)
		}
		if r.Chance(20) {
			rp.ftomb = map[string]struct{}{rp.docs[r.Intn(len(rp.docs))].name: {}}
		} else if dense && r.Chance(25) {
			rp.ftomb = map[string]struct{}{rp.docs[0].name: {}}
		}
		rp.tomb = r.Chance(12)
		if dense && i > 0 {
			rp.tomb = r.Chance(25)
		}
		repos = append(repos, rp)
	}
	return repos
}

func (rp *vfC23Repo) zoektRepo() *zoekt.Repository {
	zr := &zoekt.Repository{
		TenantID: rp.tenant, ID: rp.id, Name: rp.name, URL: "http://url-" + rp.marker,
		Metadata: rp.meta, Source: "/src/" + rp.marker,
		Branches:          []zoekt.RepositoryBranch{{Name: "main", Version: "v-" + rp.marker}},
		CommitURLTemplate: "http://commit-" + rp.marker + "/{{.Version}}",
		FileURLTemplate:   rp.url, LineFragmentTemplate: rp.frag,
		RawConfig:      map[string]string{"cfg": "raw" + rp.marker},
		FileTombstones: rp.ftomb,
	}
	if len(rp.subs) > 0 {
		zr.SubRepoMap = map[string]*zoekt.Repository{}
		for _, s := range rp.subs {
			zr.SubRepoMap[s.path] = &zoekt.Repository{Name: s.name, URL: "http://suburl-" + rp.marker,
				FileURLTemplate: s.url, LineFragmentTemplate: s.frag,
				Branches: []zoekt.RepositoryBranch{{Name: "main", Version: "sv-" + rp.marker}}}
		}
	}
	return zr
}

func vfC23SimpleShard(t testing.TB, rp *vfC23Repo) []byte {
	b, err := NewShardBuilder(rp.zoektRepo())
	if err != nil {
		t.Fatal(err)
	}
	for _, dc := range rp.docs {
		doc := Document{Name: dc.name, Content: []byte(dc.content), Branches: []string{"main"}}
		if dc.sub > 0 {
			doc.SubRepositoryPath = rp.subs[dc.sub-1].path
		}
		if err := b.Add(doc); err != nil {
			t.Fatal(err)
		}
	}
	var buf bytes.Buffer
	if err := b.Write(&buf); err != nil {
		t.Fatal(err)
	}
	return buf.Bytes()
}

// vfC23Build builds one shard holding the given repositories: a simple shard for one repository, else a
// compound shard made by the real index.Merge from simple shard files.
func vfC23Build(t testing.TB, repos []*vfC23Repo, tag string) *indexData {
	var blob []byte
	if len(repos) == 1 {
		blob = vfC23SimpleShard(t, repos[0])
	} else {
		dir, err := os.MkdirTemp(os.Getenv("VERIF_TMP"), "c23-"+tag+"-")
		if err != nil {
			t.Fatal(err)
		}
		defer os.RemoveAll(dir)
		var files []IndexFile
		for i, rp := range repos {
			fn := filepath.Join(dir, fmt.Sprintf("s%d.zoekt", i))
			if err := os.WriteFile(fn, vfC23SimpleShard(t, rp), 0o600); err != nil {
				t.Fatal(err)
			}
			f, err := os.Open(fn)
			if err != nil {
				t.Fatal(err)
			}
			inf, err := NewIndexFile(f)
			if err != nil {
				t.Fatal(err)
			}
			defer inf.Close()
			files = append(files, inf)
		}
		tmpName, _, err := Merge(dir, files...)
		if err != nil {
			t.Fatal(err)
		}
		blob, err = os.ReadFile(tmpName)
		if err != nil {
			t.Fatal(err)
		}
	}
	s, err := NewSearcher(&vfMemFile{blob})
	if err != nil {
		t.Fatal(err)
	}
	return s.(*indexData)
}

func vfC23NewScenario(t testing.TB, r *vfRand, tag string, base int) *vfC23Scenario {
	nrepos := 1
	if r.Chance(85) {
		nrepos = 2 + r.Intn(4)
	}
	dense := nrepos > 1 && r.Chance(45)
	gen := vfC23GenRepos(r, nrepos, base, dense)
	d := vfC23Build(t, gen, tag)
	sc := &vfC23Scenario{d: d, ids: map[string]uint64{}, kind: fmt.Sprintf("repos=%d", nrepos), dense: dense}
	byName := map[string]*vfC23Repo{} // keyed by Source (unique); names may be shared between tenants
	for _, rp := range gen {
		byName["/src/"+rp.marker] = rp
	}
	if len(d.repoMetaData) != len(gen) {
		t.Fatalf("shard has %d repos, generated %d", len(d.repoMetaData), len(gen))
	}
	for i := range d.repoMetaData {
		rp := byName[d.repoMetaData[i].Source]
		if rp == nil {
			t.Fatalf("unknown repo %q in shard", d.repoMetaData[i].Name)
		}
		// tombstones are set on the loaded shard (what the .meta sidecar does on disk)
		d.repoMetaData[i].Tombstone = rp.tomb
		sc.repos = append(sc.repos, rp)
	}
	for _, rp := range sc.repos {
		g := uint64(rp.idx)
		rp.nameID, rp.urlID, rp.frID = 100+g, 300+g, 500+g
		if v, ok := sc.ids[rp.name]; ok {
			rp.nameID = v // same name, same identifier
		}
		sc.ids[rp.name], sc.ids[rp.url], sc.ids[rp.frag] = rp.nameID, rp.urlID, rp.frID
		for k, s := range rp.subs {
			sc.ids[s.name], sc.ids[s.url], sc.ids[s.frag] = 2000+g*4+uint64(k), 3000+g*4+uint64(k), 4000+g*4+uint64(k)
		}
		for _, dc := range rp.docs {
			sc.ids[dc.name] = dc.fid
		}
	}
	return sc
}

func (sc *vfC23Scenario) id(s string) uint64 {
	if s == "" {
		return 0
	}
	if v, ok := sc.ids[s]; ok {
		return v
	}
	return 999999
}

// ---- query generator + reference evaluator (brute force over the generated documents)

type vfC23Q struct {
	q    query.Q
	eval func(rp *vfC23Repo, dc *vfC23Doc) bool
	desc string
}

func vfC23Atom(r *vfRand, repos []*vfC23Repo) vfC23Q {
	pick := repos[r.Intn(len(repos))]
	switch r.Intn(10) {
	case 0:
		w := r.Pick(vfC23Words)
		return vfC23Q{&query.Substring{Pattern: w, Content: true}, func(_ *vfC23Repo, dc *vfC23Doc) bool { return strings.Contains(dc.content, w) }, "content:" + w}
	case 1:
		w := "word" + pick.marker
		return vfC23Q{&query.Substring{Pattern: w, Content: true}, func(_ *vfC23Repo, dc *vfC23Doc) bool { return strings.Contains(dc.content, w) }, "content:" + w}
	case 2:
		w := r.Pick([]string{"f0.txt", "f1", pick.marker + "/", "sub0"})
		return vfC23Q{&query.Substring{Pattern: w, FileName: true}, func(_ *vfC23Repo, dc *vfC23Doc) bool { return strings.Contains(dc.name, w) }, "file:" + w}
	case 3:
		set := map[string]bool{}
		for _, rp := range repos {
			if r.Chance(50) {
				set[rp.name] = true
			}
		}
		if r.Chance(30) {
			set["unknown-repo"] = true
		}
		return vfC23Q{&query.RepoSet{Set: set}, func(rp *vfC23Repo, _ *vfC23Doc) bool { return set[rp.name] }, fmt.Sprint("reposet:", vfSortedKeys(set))}
	case 4:
		bm := roaring.New()
		var l []uint32
		for _, rp := range repos {
			if r.Chance(50) {
				bm.Add(rp.id)
				l = append(l, rp.id)
			}
		}
		return vfC23Q{&query.RepoIDs{Repos: bm}, func(rp *vfC23Repo, _ *vfC23Doc) bool { return bm.Contains(rp.id) }, fmt.Sprint("repoids:", l)}
	case 5:
		pat := r.Pick([]string{"t1-", "t2-", "t3-", pick.marker, "-r", "nomatch", "shared", pick.name})
		re := regexp.MustCompile(regexp.QuoteMeta(pat))
		return vfC23Q{&query.Repo{Regexp: re}, func(rp *vfC23Repo, _ *vfC23Doc) bool { return strings.Contains(rp.name, pat) }, "repo:" + pat}
	case 6:
		v := r.Pick([]string{"yes", "no", "maybe"})
		re := regexp.MustCompile("^" + v + "$")
		return vfC23Q{&query.Meta{Field: "k", Value: re}, func(rp *vfC23Repo, _ *vfC23Doc) bool { return rp.meta["k"] == v }, "meta.k:" + v}
	case 7:
		bm := roaring.New()
		var l []uint32
		for _, rp := range repos {
			if r.Chance(60) {
				bm.Add(rp.id)
				l = append(l, rp.id)
			}
		}
		return vfC23Q{&query.BranchesRepos{List: []query.BranchRepos{{Branch: "main", Repos: bm}}},
			func(rp *vfC23Repo, _ *vfC23Doc) bool { return bm.Contains(rp.id) }, fmt.Sprint("branchesrepos:main:", l)}
	case 8:
		pat := r.Pick([]string{"t1-", "t2-", pick.marker, "shared", pick.name})
		re := regexp.MustCompile(regexp.QuoteMeta(pat))
		return vfC23Q{&query.RepoRegexp{Regexp: re}, func(rp *vfC23Repo, _ *vfC23Doc) bool { return strings.Contains(rp.name, pat) }, "reporegexp:" + pat}
	default:
		v := r.Chance(85)
		return vfC23Q{&query.Const{Value: v}, func(*vfC23Repo, *vfC23Doc) bool { return v }, fmt.Sprint("const:", v)}
	}
}

func vfC23Query(r *vfRand, repos []*vfC23Repo, depth int) vfC23Q {
	if depth == 0 || r.Chance(45) {
		return vfC23Atom(r, repos)
	}
	a := vfC23Query(r, repos, depth-1)
	switch r.Intn(3) {
	case 0:
		b := vfC23Query(r, repos, depth-1)
		return vfC23Q{&query.And{Children: []query.Q{a.q, b.q}}, func(rp *vfC23Repo, dc *vfC23Doc) bool { return a.eval(rp, dc) && b.eval(rp, dc) }, "(and " + a.desc + " " + b.desc + ")"}
	case 1:
		b := vfC23Query(r, repos, depth-1)
		return vfC23Q{&query.Or{Children: []query.Q{a.q, b.q}}, func(rp *vfC23Repo, dc *vfC23Doc) bool { return a.eval(rp, dc) || b.eval(rp, dc) }, "(or " + a.desc + " " + b.desc + ")"}
	default:
		return vfC23Q{&query.Not{Child: a.q}, func(rp *vfC23Repo, dc *vfC23Doc) bool { return !a.eval(rp, dc) }, "(not " + a.desc + ")"}
	}
}

// ---- reflective walk: every string and every uint32 reachable in a value

func vfWalk(v reflect.Value, strs *[]string, u32s *[]uint32, depth int) {
	if depth > 40 || !v.IsValid() {
		return
	}
	switch v.Kind() {
	case reflect.String:
		*strs = append(*strs, v.String())
	case reflect.Uint32:
		*u32s = append(*u32s, uint32(v.Uint()))
	case reflect.Ptr, reflect.Interface:
		if !v.IsNil() {
			vfWalk(v.Elem(), strs, u32s, depth+1)
		}
	case reflect.Struct:
		for i := 0; i < v.NumField(); i++ {
			vfWalk(v.Field(i), strs, u32s, depth+1)
		}
	case reflect.Slice, reflect.Array:
		if v.Kind() == reflect.Slice && v.Type().Elem().Kind() == reflect.Uint8 {
			*strs = append(*strs, string(v.Bytes()))
			return
		}
		for i := 0; i < v.Len(); i++ {
			vfWalk(v.Index(i), strs, u32s, depth+1)
		}
	case reflect.Map:
		it := v.MapRange()
		for it.Next() {
			vfWalk(it.Key(), strs, u32s, depth+1)
			vfWalk(it.Value(), strs, u32s, depth+1)
		}
	}
}

// vfC23Leaks returns the channels through which a repository the caller may not see shows up in val.
func vfC23Leaks(val any, repos []*vfC23Repo, allowed func(*vfC23Repo) bool) []string {
	var strs []string
	var u32s []uint32
	vfWalk(reflect.ValueOf(val), &strs, &u32s, 0)
	leaks := map[string]bool{}
	for _, rp := range repos {
		if allowed(rp) {
			continue
		}
		for _, s := range strs {
			if strings.Contains(s, rp.marker) {
				switch {
				case s == rp.name:
					leaks["name"] = true
				case s == rp.url:
					leaks["file-url-template"] = true
				case s == rp.frag:
					leaks["line-fragment-template"] = true
				case strings.HasPrefix(s, "subrepo"):
					leaks["subrepo-name"] = true
				case strings.HasPrefix(s, "http://subhost") || strings.HasPrefix(s, "#S"):
					leaks["subrepo-template"] = true
				default:
					leaks["other-string"] = true
				}
			}
		}
		if rp.shared {
			// a shared name is a leak only when no repository the caller may see carries it
			own := false
			for _, x := range repos {
				if allowed(x) && x.name == rp.name {
					own = true
				}
			}
			if !own {
				for _, s := range strs {
					if s == rp.name {
						leaks["name"] = true
					}
				}
			}
		}
		if rp.id != 0 {
			for _, u := range u32s {
				if u == rp.id {
					leaks["repo-id"] = true
				}
			}
		}
	}
	return vfSortedKeys(leaks)
}

func vfPairs(sc *vfC23Scenario, m map[string]string) string {
	type kv struct{ k, v uint64 }
	var l []kv
	for k, v := range m {
		l = append(l, kv{sc.id(k), sc.id(v)})
	}
	sort.Slice(l, func(i, j int) bool { return l[i].k < l[j].k })
	if len(l) == 0 {
		return "[]"
	}
	var xs []string
	for _, p := range l {
		xs = append(xs, cTuple(cN(p.k), cN(p.v)))
	}
	return cList(xs)
}

func vfC23ShardTerm(sc *vfC23Scenario, match func(rp *vfC23Repo, dc *vfC23Doc) bool) string {
	var rs []string
	for _, rp := range sc.repos {
		subs := "[]"
		if len(rp.subs) > 0 {
			var ss []string
			for _, s := range rp.subs {
				ss = append(ss, cTuple(cN(sc.id(s.name)), cN(sc.id(s.url)), cN(sc.id(s.frag))))
			}
			subs = cList(ss)
		}
		rt := cTuple(cN(rp.nameID), cN(uint64(rp.id)), cZ(int64(rp.tenant)), cBool(rp.tomb), cN(rp.urlID), cN(rp.frID), subs)
		var ds []string
		for i := range rp.docs {
			dc := &rp.docs[i]
			_, ft := rp.ftomb[dc.name]
			ds = append(ds, cTuple(cN(dc.fid), cBool(ft), cNat(dc.sub), cBool(match(rp, dc))))
		}
		rs = append(rs, cTuple(rt, cList(ds)))
	}
	return cList(rs)
}

type vfC23Ctx struct {
	ctx  context.Context
	code int64 // -2 system, -1 none, else tenant id
	name string
}

func vfC23Contexts() []vfC23Ctx {
	tenanttest.ResetTestTenants()
	cs := []vfC23Ctx{
		{systemtenant.WithUnsafeContext(context.Background()), -2, "system"},
		{context.Background(), -1, "none"},
	}
	for i := 1; i <= 4; i++ { // tenant 4 owns nothing
		cs = append(cs, vfC23Ctx{tenanttest.NewTestContext(), int64(i), fmt.Sprint("tenant", i)})
	}
	return cs
}

func vfC23Run(t *testing.T, r *vfRand, n int, strict bool) {
	ctxs := vfC23Contexts()
	perScenario := 8
	var sc *vfC23Scenario
	nsc := 0
	for i := 0; i < n; i++ {
		if i%perScenario == 0 {
			nsc++
			sc = vfC23NewScenario(t, r, fmt.Sprint(nsc), 1+r.Intn(5))
		}
		cx := ctxs[r.Intn(len(ctxs))]
		if r.Chance(40) {
			cx = ctxs[2+r.Intn(3)]
		}
		q := vfC23Query(r, sc.repos, 2)
		if sc.dense && r.Chance(50) {
			// a query every document of a dense shard satisfies (alone or under a random conjunct / disjunct)
			w := "needle"
			all := vfC23Q{&query.Substring{Pattern: w, Content: true}, func(_ *vfC23Repo, dc *vfC23Doc) bool { return strings.Contains(dc.content, w) }, "content:" + w}
			switch r.Intn(3) {
			case 0:
				q = all
			case 1:
				a := q
				q = vfC23Q{&query.Or{Children: []query.Q{all.q, a.q}}, func(rp *vfC23Repo, dc *vfC23Doc) bool { return all.eval(rp, dc) || a.eval(rp, dc) }, "(or " + all.desc + " " + a.desc + ")"}
			default:
				a := q
				q = vfC23Q{&query.And{Children: []query.Q{all.q, a.q}}, func(rp *vfC23Repo, dc *vfC23Doc) bool { return all.eval(rp, dc) && a.eval(rp, dc) }, "(and " + all.desc + " " + a.desc + ")"}
			}
		}
		fieldMap := r.Chance(40)
		allowed := func(rp *vfC23Repo) bool {
			if !strict || cx.code == -2 {
				return true
			}
			return cx.code >= 0 && int64(rp.tenant) == cx.code
		}
		replay := map[string]any{"seed": vfSeed(), "case": i, "strict": strict, "ctx": cx.name, "query": q.desc, "query_go": q.q.String()}
		var rdesc []map[string]any
		for _, rp := range sc.repos {
			rdesc = append(rdesc, map[string]any{"name": rp.name, "marker": rp.marker, "tenant": rp.tenant, "id": rp.id, "tombstone": rp.tomb, "docs": len(rp.docs), "subrepos": len(rp.subs)})
		}
		replay["shard"] = rdesc

		opts := zoekt.SearchOptions{}
		if r.Chance(30) {
			opts.ChunkMatches = true
		}
		if r.Chance(20) {
			opts.Whole = true
		}
		if r.Chance(15) {
			opts.DebugScore = true
		}
		res, err := sc.d.Search(cx.ctx, q.q, &opts)
		if err != nil {
			t.Fatalf("Search(%s): %v", q.desc, err)
		}
		// ---- the same search under match-count limits: ShardRepoMaxMatchCount in {0, 1, 2} (the skip-ahead branch of the
		// document loop), ShardMaxMatchCount in {default, 1, 2, 3, 5}.  The number of matches each file match contributes
		// (line matches + chunk ranges) is taken from an unlimited search under the system context with the same options.
		lim := opts
		lim.ShardRepoMaxMatchCount = r.Intn(3)
		if sc.dense && lim.ShardRepoMaxMatchCount == 0 && r.Chance(60) {
			lim.ShardRepoMaxMatchCount = 1 + r.Intn(2)
		}
		if r.Chance(30) {
			lim.ShardMaxMatchCount = []int{1, 2, 3, 5}[r.Intn(4)]
		}
		resLim, err := sc.d.Search(cx.ctx, q.q, &lim)
		if err != nil {
			t.Fatalf("Search(%s, limits): %v", q.desc, err)
		}
		sysOpts := opts
		resSys, err := sc.d.Search(ctxs[0].ctx, q.q, &sysOpts)
		if err != nil {
			t.Fatalf("Search(%s, system): %v", q.desc, err)
		}
		var wrows []string
		for _, f := range resSys.Files {
			wt := len(f.LineMatches)
			for _, cm := range f.ChunkMatches {
				wt += len(cm.Ranges)
			}
			wrows = append(wrows, cTuple(cN(sc.id(f.FileName)), cZ(int64(wt))))
		}
		limDesc := fmt.Sprintf("ShardRepoMaxMatchCount=%d ShardMaxMatchCount=%d", lim.ShardRepoMaxMatchCount, lim.ShardMaxMatchCount)
		for _, ch := range vfC23Leaks(resLim, sc.repos, allowed) {
			rp2 := map[string]any{"op": "search", "options": limDesc, "RepoURLs": resLim.RepoURLs, "LineFragments": resLim.LineFragments}
			var fl []string
			for _, f := range resLim.Files {
				fl = append(fl, f.Repository+"/"+f.FileName)
			}
			rp2["files"] = fl
			for k, v := range replay {
				rp2[k] = v
			}
			vfOracleFail("search-leak:"+ch, "Search with "+limDesc+" under context "+cx.name+" exposes the "+ch+" of a repository of another tenant", rp2)
		}
		// a limited search returns a sub-sequence of the unlimited one (same context), never something else
		{
			unl := map[string]bool{}
			for _, f := range res.Files {
				unl[f.Repository+"\x00"+f.FileName] = true
			}
			for _, f := range resLim.Files {
				if !unl[f.Repository+"\x00"+f.FileName] {
					rp2 := map[string]any{"op": "search", "options": limDesc, "file": f.Repository + "/" + f.FileName}
					for k, v := range replay {
						rp2[k] = v
					}
					vfOracleFail("search-limited:not-in-unlimited", "Search with "+limDesc+" under context "+cx.name+" returns "+f.Repository+"/"+f.FileName+" which the unlimited search under the same context does not return", rp2)
				}
			}
		}
		lopts := &zoekt.ListOptions{Field: zoekt.RepoListFieldRepos}
		if fieldMap {
			lopts.Field = zoekt.RepoListFieldReposMap
		}
		rl, err := sc.d.List(cx.ctx, q.q, lopts)
		if err != nil {
			t.Fatalf("List(%s): %v", q.desc, err)
		}

		// ---- Go-side oracle: the property itself, on every output channel
		for _, ch := range vfC23Leaks(res, sc.repos, allowed) {
			rp2 := map[string]any{"op": "search", "RepoURLs": res.RepoURLs, "LineFragments": res.LineFragments}
			for k, v := range replay {
				rp2[k] = v
			}
			vfOracleFail("search-leak:"+ch, "Search under context "+cx.name+" exposes the "+ch+" of a repository of another tenant", rp2)
		}
		for _, ch := range vfC23Leaks(rl, sc.repos, allowed) {
			rp2 := map[string]any{"op": "list"}
			for k, v := range replay {
				rp2[k] = v
			}
			vfOracleFail("list-leak:"+ch, "List under context "+cx.name+" exposes the "+ch+" of a repository of another tenant", rp2)
		}
		if strict && cx.code == -1 {
			if len(res.Files) != 0 || len(res.RepoURLs) != 0 || len(res.LineFragments) != 0 || len(rl.Repos) != 0 || len(rl.ReposMap) != 0 || rl.Stats.Documents != 0 || rl.Stats.Repos != 0 {
				vfOracleFail("no-tenant-sees-something", "a request without tenant receives results in strict mode", replay)
			}
		}
		// system sees all: every live matching document is returned to the system context
		if cx.code == -2 || !strict {
			want := 0
			for _, rp := range sc.repos {
				for k := range rp.docs {
					_, ft := rp.ftomb[rp.docs[k].name]
					if !rp.tomb && !ft && q.eval(rp, &rp.docs[k]) {
						want++
					}
				}
			}
			if len(res.Files) != want {
				vfOracleFail("system-misses-documents", fmt.Sprintf("system/non-strict context: got %d files, reference evaluation %d", len(res.Files), want), replay)
			}
		}

		// ---- correspondence record
		scan := res.Stats.ShardsScanned > 0
		lsimp := "None"
		if c, ok := sc.d.simplify(q.q).(*query.Const); ok {
			lsimp = cSome(cBool(c.Value))
		}
		var frows []string
		for _, f := range res.Files {
			frows = append(frows, cTuple(cN(sc.id(f.Repository)), cN(uint64(f.RepositoryID)), cN(sc.id(f.FileName)), cN(sc.id(f.SubRepositoryName))))
		}
		ofiles := "[]"
		if len(frows) > 0 {
			ofiles = cList(frows)
		}
		var lnames []uint64
		for _, e := range rl.Repos {
			lnames = append(lnames, sc.id(e.Repository.Name))
		}
		var lids []uint64
		for id := range rl.ReposMap {
			lids = append(lids, uint64(id))
		}
		sort.Slice(lids, func(a, b int) bool { return lids[a] < lids[b] })
		sobs := cTuple(ofiles, vfPairs(sc, res.RepoURLs), vfPairs(sc, res.LineFragments))
		lobs := cTuple(cNList(lnames), cNList(lids), cN(uint64(rl.Stats.Documents)), cN(uint64(rl.Stats.Repos)))
		base := cTuple(cBool(strict), cZ(cx.code), vfC23ShardTerm(sc, q.eval), cBool(scan), lsimp, cBool(fieldMap), sobs, lobs)
		var lrows []string
		for _, f := range resLim.Files {
			lrows = append(lrows, cTuple(cN(sc.id(f.Repository)), cN(uint64(f.RepositoryID)), cN(sc.id(f.FileName)), cN(sc.id(f.SubRepositoryName))))
		}
		olim, wl := "[]", "[]"
		if len(lrows) > 0 {
			olim = cList(lrows)
		}
		if len(wrows) > 0 {
			wl = cList(wrows)
		}
		smax := lim.ShardMaxMatchCount
		if smax == 0 {
			smax = 100000 // SearchOptions.SetDefaults
		}
		coq := cTuple(base, cTuple(cZ(int64(lim.ShardRepoMaxMatchCount)), cZ(int64(smax)), wl, olim))
		// layout: a live repository the caller sees with >= 2 documents is directly followed by one it must not see / a tombstoned one
		ownThenHidden := false
		for k := 0; k+1 < len(sc.repos); k++ {
			a, b := sc.repos[k], sc.repos[k+1]
			if allowed(a) && !a.tomb && len(a.docs) >= 2 && (!allowed(b) || b.tomb) {
				ownThenHidden = true
			}
		}
		foreign := 0
		for _, rp := range sc.repos {
			if !allowed(rp) {
				foreign++
			}
		}
		dupForeign := false // a repository the caller may not see has the name of one it may see
		for _, rp := range sc.repos {
			if rp.shared && !allowed(rp) {
				for _, x := range sc.repos {
					if allowed(x) && x.name == rp.name {
						dupForeign = true
					}
				}
			}
		}
		class := []string{sc.kind, fmt.Sprint("same-name-foreign=", dupForeign), "ctx=" + cx.name, fmt.Sprint("strict=", strict), fmt.Sprint("scan=", scan), "lsimp=" + lsimp,
			fmt.Sprint("files>0=", len(res.Files) > 0), fmt.Sprint("foreign>0=", foreign > 0),
			fmt.Sprint("dense=", sc.dense), fmt.Sprint("repomax=", lim.ShardRepoMaxMatchCount), fmt.Sprint("shardmax=", lim.ShardMaxMatchCount),
			fmt.Sprint("limit-cuts=", len(resLim.Files) < len(res.Files)), fmt.Sprint("own-then-hidden=", ownThenHidden)}
		vfCase(coq, vfKey(nsc, cx.name, q.desc, fieldMap, strict, limDesc), foreign > 0 && scan && len(sc.repos) > 1, class,
			map[string]any{"ctx": cx.name, "query": q.desc, "shard": rdesc, "files": len(res.Files), "repourls": len(res.RepoURLs), "list": len(rl.Repos) + len(rl.ReposMap)})
	}
}

func TestVerifC23(t *testing.T) {
	r := vfNewRand(vfSeed())
	n := vfN(300)
	nStrict := n - n/8
	t.Run("strict", func(t *testing.T) {
		tenanttest.MockEnforce(t)
		vfC23Run(t, r, nStrict, true)
	})
	t.Run("nonstrict", func(t *testing.T) {
		vfC23Run(t, r, n-nStrict, false)
	})
}
