package index

// C29, second correspondence harness (TestVerifC29K): the parts of the ranking that the first harness took
// from the implementation as features are tied to the model here:
//   K  scoreSymbolKind / ctags.ParseSymbolKind  vs  the tables generated into coq/Generated/ScoreConsts.v
//   A  visitMatchAtoms (the atom count of scoreFile) on the real match trees of real queries, with the
//      known map of every matching document, against the "atom(n)" of the DebugScore run
//   T  calculateTermFrequency, scoreFileBM25 and scoreLineBM25: candidates of every matching document
//      (term, important, weight), low priority, lengths  vs  the term-frequency map and the BM25 scores
//      the real search returns
// The per-document state (match tree, known, candidates) is obtained by walking the documents exactly as
// indexData.Search does (vf29kWalk); a disagreement between that walk and Search shows up as a mismatch.

import (
	"context"
	"fmt"
	"math"
	"sort"
	"strings"
	"testing"
	"unicode"
	"unicode/utf8"

	"github.com/sourcegraph/zoekt"
	"github.com/sourcegraph/zoekt/internal/ctags"
	"github.com/sourcegraph/zoekt/query"
)

var vf29kLangs = []string{"Java", "java", "Kotlin", "kotlin", "Go", "go", "C++", "c++", "Scala", "scala", "Python", "python",
	"Ruby", "ruby", "PHP", "php", "GraphQL", "graphql", "Markdown", "markdown", "", "Rust", "JAVA", "GO", "go ", "C", "Php", "TypeScript"}
var vf29kKinds = []string{"accessor", "setter", "getter", "chapter", "class", "classes", "constant", "const", "define", "enum",
	"enumerator", "enumconstant", "enummember", "field", "member", "function", "func", "interface", "local", "method", "methodAlias",
	"alias", "methodSpec", "methodspec", "methodalias", "module", "namespace", "object", "package", "section", "singletonmethod", "struct", "subsection",
	"trait", "type", "typealias", "talias", "typdef", "typedef", "union", "var", "variable", "library", "other", "", "weird", "Class", "FUNCTION",
	"Struct", "TypeAlias", "SingletonMethod", "class ", "kind"}
var vf29kNames = []string{"dir/a.go", "dir/a_test.go", "_test.go", "a_test.go.txt", "test.go", "x/_test.gox", "pkg/b_Test.go", "", "vendor/a.go", "vendor/a_test.go", "node_modules/x.js"}
var vf29kSyms = []string{"Exported", "lower", "", "Éa", "éa", "_X", "9", "X", "\xff", "ǅ"}

func vf29kUpper(sym string) bool {
	ch, _ := utf8.DecodeRuneInString(sym)
	return unicode.IsUpper(ch)
}

func vf29kKindCase(lang, name, sym, kind string) {
	pk := ctags.ParseSymbolKind(kind)
	s := scoreSymbolKind(lang, []byte(name), []byte(sym), pk)
	up := vf29kUpper(sym)
	replay := map[string]any{"language": lang, "filename": name, "sym": sym, "kind": kind, "score": s,
		"how": "scoreSymbolKind(language, filename, sym, ctags.ParseSymbolKind(kind))"}
	if math.IsNaN(s) || math.IsInf(s, 0) || s < 0 {
		vfOracleFail("kind:score-not-finite-or-negative", fmt.Sprintf("scoreSymbolKind = %v", s), replay)
	}
	coq := cTuple(cStr(lang), cStr(name), cBool(up), cStr(kind), cN(uint64(pk)), vf29Rat(s))
	vfEmit(map[string]any{"kind": "kcase", "coq": coq, "key": "k:" + lang + "|" + name + "|" + fmt.Sprint(up) + "|" + kind,
		"nontrivial": s != 100, "class": []string{"K", "lang=" + lang, fmt.Sprintf("up=%v", up), fmt.Sprintf("testgo=%v", strings.HasSuffix(name, "_test.go"))},
		"sample": replay})
}

// ---- the document walk of indexData.Search
func vf29kWalk(t *testing.T, d *indexData, q query.Q, fn func(doc uint32, mt matchTree, known map[matchTree]bool, cp *contentProvider, cands []*candidateMatch)) {
	q = d.simplify(q)
	if c, ok := q.(*query.Const); ok && !c.Value {
		return
	}
	q = query.Map(q, query.ExpandFileContent)
	mt, err := d.newMatchTree(q, matchTreeOpt{})
	if err != nil {
		t.Fatal(err)
	}
	mt, err = pruneMatchTree(mt)
	if err != nil {
		t.Fatal(err)
	}
	if mt == nil {
		return
	}
	var st zoekt.Stats
	cp := &contentProvider{id: d, stats: &st}
	docCount := uint32(len(d.fileBranchMasks))
	lastDoc := -1
next:
	for {
		nextDoc := mt.nextDoc()
		if int(nextDoc) <= lastDoc {
			nextDoc = uint32(lastDoc + 1)
		}
		if nextDoc >= docCount {
			break
		}
		lastDoc = int(nextDoc)
		mt.prepare(nextDoc)
		cp.setDocument(nextDoc)
		known := make(map[matchTree]bool)
		for cost := costMin; cost <= costMax; cost++ {
			if evalMatchTree(cp, cost, known, mt) == matchesNone {
				continue next
			}
		}
		fn(nextDoc, mt, known, cp, d.gatherMatches(nextDoc, mt, known))
	}
}

// the shape of a match tree as visitMatches distinguishes it, with known[child] at every and/or child
func vf29kTree(t matchTree, known map[matchTree]bool, shape *[]string) string {
	kids := func(ch []matchTree) string {
		var parts []string
		for _, c := range ch {
			parts = append(parts, "("+cBool(known[c])+", "+vf29kTree(c, known, shape)+")")
		}
		return "[" + strings.Join(parts, "; ") + "]"
	}
	switch s := t.(type) {
	case *andMatchTree:
		*shape = append(*shape, "and")
		return "(RAnd " + kids(s.children) + ")"
	case *andLineMatchTree:
		*shape = append(*shape, "andline")
		return "(RAndLine " + kids(s.children) + ")"
	case *orMatchTree:
		*shape = append(*shape, "or")
		return "(ROr " + kids(s.children) + ")"
	case *boostMatchTree:
		*shape = append(*shape, "boost")
		return "(RB " + vf29kTree(s.child, known, shape) + ")"
	case *symbolSubstrMatchTree:
		*shape = append(*shape, "symsubstr")
		return "RY"
	case *notMatchTree, *noVisitMatchTree, *fileNameMatchTree:
		*shape = append(*shape, fmt.Sprintf("%T", t))
		return "RS"
	default:
		return "RA"
	}
}

func vf29kQuery(r *vfRand) (string, query.Q) {
	sub := func(p string) query.Q { return &query.Substring{Pattern: p} }
	words := []string{"needle", "stack", "hay", "foo", "other", "Needle", "x.needle"}
	var gen func(depth int) (string, query.Q)
	gen = func(depth int) (string, query.Q) {
		k := r.Intn(13)
		if depth >= 3 && k >= 5 {
			k = r.Intn(5)
		}
		switch k {
		case 0, 1:
			w := r.Pick(words)
			return w, sub(w)
		case 2:
			w := r.Pick(words)
			return "case:" + w, &query.Substring{Pattern: w, CaseSensitive: true}
		case 3:
			w := r.Pick([]string{"needle", "stack", "dir", "test"})
			return "file:" + w, &query.Substring{Pattern: w, FileName: true}
		case 4:
			w := r.Pick([]string{"needle", "stack", "hay"})
			if r.Chance(50) {
				re, err := query.Parse("sym:" + w + ".*")
				if err == nil {
					return "sym:" + w + ".*", re
				}
			}
			return "sym:" + w, &query.Symbol{Expr: sub(w)}
		case 5, 6:
			n := 2 + r.Intn(3)
			var qs []query.Q
			var ns []string
			for i := 0; i < n; i++ {
				nm, q := gen(depth + 1)
				qs, ns = append(qs, q), append(ns, nm)
			}
			return "or(" + strings.Join(ns, ", ") + ")", query.NewOr(qs...)
		case 7, 8:
			n := 2 + r.Intn(3)
			var qs []query.Q
			var ns []string
			for i := 0; i < n; i++ {
				nm, q := gen(depth + 1)
				qs, ns = append(qs, q), append(ns, nm)
			}
			return "and(" + strings.Join(ns, ", ") + ")", query.NewAnd(qs...)
		case 9:
			nm, q := gen(depth + 1)
			w := r.Pick(words)
			return "and(" + w + ", not " + nm + ")", query.NewAnd(sub(w), &query.Not{Child: q})
		case 10:
			nm, q := gen(depth + 1)
			b := []float64{2, 0.5, 3, 1, 1e101, 0, -2, math.Inf(1), math.NaN()}[r.Intn(9)]
			return fmt.Sprintf("boost(%v, %s)", b, nm), &query.Boost{Child: q, Boost: b}
		case 11:
			w := r.Pick([]string{"ne+dle", "st.ck", "ha[xy]", "needle\\w*"})
			re, err := query.Parse("regex:" + w)
			if err != nil {
				return "needle", sub("needle")
			}
			return "regex:" + w, re
		default:
			nm, q := gen(depth + 1)
			return "type:file(" + nm + ")", &query.Type{Type: query.TypeFileName, Child: q}
		}
	}
	return gen(0)
}

func vf29kLowPriority(debug string) bool { return strings.Contains(debug, "(low-priority: true)") }

func TestVerifC29K(t *testing.T) {
	r := vfNewRand(vfSeed() + 292929)
	n := vfN(200)
	// ---- K: the whole language x kind cross with plain arguments, plus random draws of filenames/symbols
	for _, lang := range vf29kLangs {
		for _, kind := range vf29kKinds {
			if vfTier() != "thorough" && !(lang == "Go" || lang == "go") && !r.Chance(12) {
				continue
			}
			vf29kKindCase(lang, "dir/a.go", "lower", kind)
			if lang == "Go" || lang == "go" || vfTier() == "thorough" {
				vf29kKindCase(lang, "dir/a_test.go", "Exported", kind)
				vf29kKindCase(lang, "dir/a.go", "Exported", kind)
				vf29kKindCase(lang, "dir/a_test.go", "lower", kind)
			}
		}
	}
	for i := 0; i < 4*n; i++ {
		vf29kKindCase(r.Pick(vf29kLangs), r.Pick(vf29kNames), r.Pick(vf29kSyms), r.Pick(vf29kKinds))
	}
	// ---- A, T
	stats := map[string]int{}
	for i := 0; i < n; i++ {
		shards := vf29GenShards(r)
		for si := range shards {
			sh := &shards[si]
			s := vf29Build(t, *sh, si)
			d, ok := s.(*indexData)
			if !ok {
				t.Fatalf("searcher is %T", s)
			}
			docByName := map[string]*vf29Doc{}
			total := 0
			for di := range sh.Docs {
				docByName[sh.Docs[di].Name] = &sh.Docs[di]
				total += len(sh.Docs[di].Content)
			}
			for rep := 0; rep < 2; rep++ {
				qname, q := vf29kQuery(r)
				type perDoc struct {
					tree   string
					shape  []string
					cands  []*candidateMatch
					tf     map[string]int
					tfLow  map[string]int
					name   string
					weights []float64
				}
				docs := map[string]*perDoc{}
				vf29kWalk(t, d, q, func(doc uint32, mt matchTree, known map[matchTree]bool, cp *contentProvider, cands []*candidateMatch) {
					pd := &perDoc{name: string(d.fileName(doc))}
					pd.tree = vf29kTree(mt, known, &pd.shape)
					for _, c := range cands {
						cc := *c
						pd.cands = append(pd.cands, &cc)
					}
					pd.tf = cp.calculateTermFrequency(cands, false)
					pd.tfLow = cp.calculateTermFrequency(cands, true)
					docs[pd.name] = pd
				})
				// A: the default scorer with DebugScore
				res, err := s.Search(context.Background(), q, &zoekt.SearchOptions{DebugScore: true})
				if err != nil {
					t.Fatal(err)
				}
				if len(res.Files) != len(docs) {
					vfEmit(map[string]any{"kind": "acase", "coq": "(RS, 999999%N)", "key": "walk-differs:" + qname, "nontrivial": false, "class": []string{"A", "walk-differs"},
						"sample": map[string]any{"query": qname, "walk_docs": len(docs), "search_files": len(res.Files), "shard": sh}})
					stats["walk-differs"]++
					continue
				}
				for _, f := range res.Files {
					pd := docs[f.FileName]
					if pd == nil {
						vfEmit(map[string]any{"kind": "acase", "coq": "(RS, 999999%N)", "key": "walk-misses:" + qname + f.FileName, "nontrivial": false, "class": []string{"A", "walk-differs"},
							"sample": map[string]any{"query": qname, "file": f.FileName}})
						continue
					}
					atoms := vf29AtomCount(f.Debug)
					if !strings.Contains(f.Debug, "atom(") {
						// the atom score is 0 and therefore not printed: atom count 0 or 1
						atoms = -1
					}
					sort.Strings(pd.shape)
					cls := []string{"A", fmt.Sprintf("atoms=%d", atoms)}
					seen := map[string]bool{}
					for _, s := range pd.shape {
						if !seen[s] {
							seen[s] = true
							cls = append(cls, "node="+s)
						}
					}
					obs := cN(uint64(max(atoms, 0)))
					coq := cTuple(pd.tree, obs)
					if atoms < 0 {
						// 0 or 1: encoded as 1000000 + ..., see c29a_ok
						coq = cTuple(pd.tree, "1000000%N")
					}
					vfEmit(map[string]any{"kind": "acase", "coq": coq, "key": "a:" + qname + "|" + pd.tree, "nontrivial": atoms >= 2, "class": cls,
						"sample": map[string]any{"query": qname, "file": f.FileName, "tree": pd.tree, "debug": f.Debug}})
					stats[fmt.Sprintf("atoms=%d", atoms)]++
				}
				// T: BM25, line mode
				resB, err := s.Search(context.Background(), q, &zoekt.SearchOptions{UseBM25Scoring: true, DebugScore: true})
				if err != nil {
					t.Fatal(err)
				}
				for _, f := range resB.Files {
					pd := docs[f.FileName]
					doc := docByName[f.FileName]
					if pd == nil || doc == nil {
						continue
					}
					low := vf29kLowPriority(f.Debug)
					tf := pd.tf
					if low {
						tf = pd.tfLow
					}
					important := func(c *candidateMatch) bool {
						if c.fileName {
							return true
						}
						if c.symbol {
							return true
						}
						for _, sy := range doc.Syms {
							lo, hi := max(sy.Start, int(c.byteOffset)), min(sy.End, int(c.byteOffset+c.byteMatchSz))
							if hi > lo && sy.End > sy.Start {
								return true
							}
						}
						return false
					}
					cand := func(c *candidateMatch) string {
						return cTuple(cBytes(c.substrLowered), cBool(important(c)), vf29XW(c.scoreWeight))
					}
					var cs, tfs, ls []string
					nImportant := 0
					for _, c := range pd.cands {
						cs = append(cs, cand(c))
						if important(c) {
							nImportant++
						}
					}
					for _, k := range vfSortedKeys(tf) {
						tfs = append(tfs, cPair(cStr(k), cZ(int64(tf[k]))))
						if tf[k] < 0 {
							vfOracleFail("bm25:negative-term-frequency", fmt.Sprintf("term %q has frequency %d", k, tf[k]), map[string]any{"query": qname, "file": f.FileName, "shard": sh})
						}
					}
					for _, lm := range f.LineMatches {
						var lcs []string
						llen := 0
						if !lm.FileName {
							// the line's bytes including its terminator
							lines := strings.SplitAfter(doc.Content, "\n")
							if lm.LineNumber >= 1 && lm.LineNumber <= len(lines) {
								llen = len(lines[lm.LineNumber-1])
							}
							for _, c := range pd.cands {
								if !c.fileName && vf29LineOf(doc.Content, int(c.byteOffset)) == lm.LineNumber {
									lcs = append(lcs, cand(c))
								}
							}
						} else {
							for _, c := range pd.cands {
								if c.fileName {
									lcs = append(lcs, cand(c))
								}
							}
						}
						ls = append(ls, cTuple(cBool(lm.FileName), cList(lcs), cZ(int64(llen)), vf29Rat(lm.Score)))
						if math.IsNaN(lm.Score) || math.IsInf(lm.Score, 0) || lm.Score < 0 {
							vfOracleFail("bm25:line-score-not-finite", fmt.Sprintf("line score %v", lm.Score), map[string]any{"query": qname, "file": f.FileName, "shard": sh})
						}
					}
					coq := cTuple(cList(cs), cBool(low), cTuple(cZ(int64(len(doc.Content))), cZ(int64(total)), cZ(int64(len(sh.Docs)))), cList(tfs), vf29Rat(f.Score), cList(ls))
					vfEmit(map[string]any{"kind": "tcase", "coq": coq, "key": "t:" + qname + "|" + f.FileName + "|" + fmt.Sprint(i, si), "nontrivial": len(pd.cands) >= 2,
						"class": []string{"T", fmt.Sprintf("low=%v", low), fmt.Sprintf("important=%v", nImportant > 0), fmt.Sprintf("terms=%d", min(len(tf), 3)), fmt.Sprintf("zero-tf=%v", func() bool {
							for _, v := range tf {
								if v == 0 {
									return true
								}
							}
							return false
						}())},
						"sample": map[string]any{"query": qname, "file": f.FileName, "debug": f.Debug, "score": f.Score, "tf": tf}})
					stats[fmt.Sprintf("bm25 low=%v", low)]++
				}
			}
		}
	}
	info := map[string]any{"what": "C29K walk"}
	for k, v := range stats {
		info[k] = v
	}
	vfInfo(info)
}
