package index

// C28 oracle (the property itself): the same generated corpora and regular-expression queries are searched with the real
// indexData.Search in one process per ZOEKT_RE2_THRESHOLD_BYTES setting (the value is read once per process); this test
// emits, for the setting of its own process, the canonical result (files + match ranges) of every query. The check
// compares the emitted results across settings. Generation depends only on VERIF_SEED, never on the setting.
// Mapped into /repo/index by `go test -overlay`.

import (
	"bytes"
	"context"
	"fmt"
	"os"
	stdregexp "regexp"
	"regexp/syntax"
	"sort"
	"strings"
	"testing"
	"unicode"
	"unicode/utf8"

	"github.com/grafana/regexp"
	re2regexp "github.com/wasilibs/go-re2"

	"github.com/sourcegraph/zoekt"
	"github.com/sourcegraph/zoekt/internal/syntaxutil"
	"github.com/sourcegraph/zoekt/query"
)

type vfC28Mem struct{ data []byte }

func (s *vfC28Mem) Name() string                        { return "verif-mem-c28" }
func (s *vfC28Mem) Close()                              {}
func (s *vfC28Mem) Size() (uint32, error)               { return uint32(len(s.data)), nil }
func (s *vfC28Mem) Read(off, sz uint32) ([]byte, error) { return s.data[off : off+sz], nil }

var vfC28Words = []string{"foo", "Foo", "FOO", "bar", "baz", "ab", "abc", "aab", "aaa", "x", "func", "main", "return", "k", "K", "\u212a",
	"s", "\u017f", "stra\u00dfe", "STRASSE", "\u1e9e", "\u00e9", "\u00c9", "\u03c3\u03b1\u03c2", "\u03a3\u0391\u03a3", "\u03c2", "\u4e16\u754c", "\U0001f600", "x_1", "a1", "__", "0", "42", "\u01c6", "\u01c5", "\u0130", "\u0131", "i"}
var vfC28Seps = []string{" ", " ", " ", "\n", "\n", "\t", ".", ",", "(", ")", "-", "  ", "\n\n", ";", ""}

// valid UTF-8 that is unusual in source files but legal: U+FFFD (a correctly encoded replacement character, as left by a
// lossy transcoding), BOM, line/paragraph separators, noncharacters, the last code point, the code points around the
// surrogate gap, NUL-free control characters, combining marks, zero-width and no-break spaces, CR line ends; alone and
// glued before / after / inside words that the generated patterns match
var vfC28Special = []string{"\ufffd", "\ufffd", "J\ufffdrgen", "\ufffdfoo", "foo\ufffd", "fo\ufffdo", "bar\ufffdbaz", "\ufffd\ufffd",
	"\ufeff", "\ufefffoo", "\u2028", "\u2029", "ab\u2028abc", "\ufffe", "\uffff", "x\uffffx", "\U0010ffff", "aaa\U0010ffff", "\U00010000",
	"\ud7ff", "\ue000", "\x01", "\x1f", "\x7f", "a\x7fb", "\u0085", "\u00a0", "e\u0301", "\u200b", "k\u200bK", "\r\n", "\r", "\v", "\f", "\U000e0001"}

// specialPct: share of words taken from vfC28Special (0 = the plain generator)
func vfC28Doc(r *vfRand, size int, specialPct int) []byte {
	var b bytes.Buffer
	for b.Len() < size {
		if r.Chance(specialPct) {
			b.WriteString(r.Pick(vfC28Special))
		} else {
			b.WriteString(r.Pick(vfC28Words))
		}
		b.WriteString(r.Pick(vfC28Seps))
	}
	return b.Bytes()
}

var vfC28Atoms = []string{"foo", "bar", "ab", "a", "k", "K", "s", "ß", "σ", "ς", "é", "世", "x_1", "ǆ", "i", "İ",
	`\w`, `\W`, `\d`, `\s`, `\S`, `.`, `[a-c]`, `[^a-c]`, `[A-Z]`, `[a-zé]`, `[^\n]`, `[k-l]`, `[σς]`, `\pL`, `\p{Greek}`, `[[:alpha:]]`, `[[:^alpha:]]`, `[\s\S]`, `\x{1F600}`,
	`\b`, `\B`, `^`, `$`, `\A`, `\z`, `(?:)`, ``,
	`\x{FFFD}`, "\ufffd", `[^\x{FFFD}]`, `\x{FEFF}`, `\x{2028}`, `[\x{FFFE}\x{FFFF}]`, `\x{10FFFF}`, `[\x{E000}-\x{10FFFF}]`, `\pC`, `\p{Cf}`, `\PL`, `[^\pL\s]`,
	`[[:cntrl:]]`, `[[:space:]]`, `\x01`, `\x7f`, `\pM`, `\pZ`, `[^\x00-\x7F]`, `\r`}

func vfC28Pattern(r *vfRand, depth int) string {
	k := r.Intn(100)
	if depth <= 0 {
		k = r.Intn(40)
	}
	switch {
	case k < 40:
		return r.Pick(vfC28Atoms)
	case k < 58:
		sub := vfC28Pattern(r, depth-1)
		op := r.Pick([]string{"*", "+", "?", "*?", "+?", "??", "{2}", "{0,2}", "{1,3}", "{2,}", "{1,2}?"})
		return "(?:" + sub + ")" + op
	case k < 66:
		return "(" + vfC28Pattern(r, depth-1) + ")"
	case k < 72:
		return "(?" + r.Pick([]string{"i", "s", "m", "U", "-m", "is"}) + ":" + vfC28Pattern(r, depth-1) + ")"
	case k < 90:
		n := 2 + r.Intn(3)
		var sb strings.Builder
		for i := 0; i < n; i++ {
			sb.WriteString(vfC28Pattern(r, depth-1))
		}
		return sb.String()
	default:
		n := 2 + r.Intn(2)
		var parts []string
		for i := 0; i < n; i++ {
			parts = append(parts, vfC28Pattern(r, depth-1))
		}
		return "(?:" + strings.Join(parts, "|") + ")"
	}
}

func vfC28Canon(files []zoekt.FileMatch) string {
	var out []string
	for _, f := range files {
		var rs []string
		for _, cm := range f.ChunkMatches {
			for _, x := range cm.Ranges {
				rs = append(rs, fmt.Sprintf("%d-%d", x.Start.ByteOffset, x.End.ByteOffset))
			}
		}
		sort.Strings(rs)
		out = append(out, f.FileName+":"+strings.Join(rs, ","))
	}
	sort.Strings(out)
	return strings.Join(out, " | ")
}

// first case-folded LITERAL rune of the compiled pattern (as the engines parse it) that has a fold partner of different
// UTF-8 length: the only situation in which the vendored engine's case-insensitive prefix scan is known to miss matches
func vfC28MixedFold(p string) string {
	re, err := syntax.Parse(p, syntax.Perl)
	if err != nil {
		return ""
	}
	out := ""
	var walk func(re *syntax.Regexp)
	walk = func(re *syntax.Regexp) {
		if out != "" {
			return
		}
		if re.Op == syntax.OpLiteral && re.Flags&syntax.FoldCase != 0 {
			for _, c := range re.Rune {
				for y := unicode.SimpleFold(c); y != c; y = unicode.SimpleFold(y) {
					if utf8.RuneLen(y) != utf8.RuneLen(c) && out == "" {
						out = fmt.Sprintf("U+%04X", c)
					}
				}
			}
		}
		for _, s := range re.Sub {
			walk(s)
		}
	}
	walk(re)
	return out
}

func vfC28RunOne(d *indexData, contents [][]byte, c int, id int, p string, cs bool, setting string) {
	q, err := query.RegexpQuery(p, true, false)
	if err != nil || len(p) > 100 {
		return
	}
	compiled := ""
	switch x := q.(type) {
	case *query.Regexp:
		x.CaseSensitive = cs
		compiled = syntaxutil.RegexpString(x.Regexp)
	case *query.Substring:
		x.CaseSensitive = cs
		compiled = stdregexp.QuoteMeta(x.Pattern)
	}
	if !cs {
		compiled = "(?i)" + compiled
	}
	res := func() (out string) {
		defer func() {
			if e := recover(); e != nil {
				out = "PANIC: " + fmt.Sprint(e)
				if len(out) > 300 {
					out = out[:300]
				}
			}
		}()
		sr, err := d.Search(context.Background(), q, &zoekt.SearchOptions{ChunkMatches: true})
		if err != nil {
			return "ERROR: " + err.Error()
		}
		return vfC28Canon(sr.Files)
	}()
	// classification aid (independent of the setting, so only the process started with VERIF_C28_CLASSIFY=1 computes it):
	// which engine, run directly on the documents, deviates from Go's standard engine, and does RE2 report a match
	// boundary inside a UTF-8 sequence?
	grafanaEqStd, re2EqStd, re2InsideRune, classified := true, true, false, false
	if se, err2 := stdregexp.Compile(compiled); err2 == nil && os.Getenv("VERIF_C28_CLASSIFY") == "1" {
		classified = true
		ge, err1 := regexp.Compile(compiled)
		re, err3 := re2regexp.Compile(compiled)
		for _, content := range contents {
			want := fmt.Sprint(se.FindAllIndex(content, -1))
			if err1 == nil && fmt.Sprint(ge.FindAllIndex(content, -1)) != want {
				grafanaEqStd = false
			}
			if err3 == nil {
				got := re.FindAllIndex(content, -1)
				if fmt.Sprint(got) != want {
					re2EqStd = false
				}
				for _, m := range got {
					for _, o := range m {
						if o < len(content) && !utf8.RuneStart(content[o]) {
							re2InsideRune = true
						}
					}
				}
			} else {
				re2EqStd = false
			}
		}
	}
	vfEmit(map[string]any{"kind": "c28res", "id": fmt.Sprintf("%d/%d", c, id), "corpus": c, "pattern": p, "case_sensitive": cs, "compiled": compiled,
		"setting": setting, "result": res, "nontrivial": res != "" && !strings.HasPrefix(res, "PANIC") && !strings.HasPrefix(res, "ERROR"),
		"classified": classified, "grafana_eq_std": grafanaEqStd, "re2_eq_std": re2EqStd, "re2_inside_rune": re2InsideRune, "mixed_fold_rune": vfC28MixedFold(compiled), "kindq": fmt.Sprintf("%T", q)})
}

func TestVerifC28(t *testing.T) {
	r := vfNewRand(vfSeed())
	setting, isSet := os.LookupEnv("ZOEKT_RE2_THRESHOLD_BYTES")
	if !isSet {
		setting = "(unset)"
	}
	if rp := vfReplay(); rp != nil {
		if inner, ok := rp["replay"].(map[string]any); ok {
			pat, _ := inner["pattern"].(string)
			cs, _ := inner["case_sensitive"].(bool)
			if doc, ok := inner["smallest_differing_document"].(map[string]any); ok && pat != "" {
				content, _ := doc["content"].(string)
				b, err := NewShardBuilder(&zoekt.Repository{Name: "r"})
				if err != nil {
					t.Fatal(err)
				}
				if err := b.Add(Document{Name: "replay.txt", Content: []byte(content)}); err != nil {
					t.Fatal(err)
				}
				var buf bytes.Buffer
				if err := b.Write(&buf); err != nil {
					t.Fatal(err)
				}
				s, err := NewSearcher(&vfC28Mem{buf.Bytes()})
				if err != nil {
					t.Fatal(err)
				}
				vfEmit(map[string]any{"kind": "c28corpus", "corpus": 0, "docs": []map[string]any{{"name": "replay.txt", "bytes": len(content), "content": content}}})
				vfC28RunOne(s.(*indexData), [][]byte{[]byte(content)}, 0, 0, pat, cs, setting)
				return
			}
		}
	}
	nq := vfN(240)
	ncorp := 6
	fixed := []string{`(?i)k`, `k`, `a*`, `\b`, `(?i)stra\x{DF}e`, `(?i)s`, `x*`, `(?:a|ab)(?:c|bcd)?`, `(?i)[k-l]+`, `\bfoo\b`, `^`, `$`, `[^a]*`, `(?i)\x{3C3}\x{3B1}\x{3C2}`, `.*`, `(?s).*`, `\pL+`, `\x{4E16}.`, `(?i)\x{1C6}`, `a+?`, `(?U)a+`, `\s+`, `(?m)^\w+`, `\w+$`, `(?i)\x{130}`, `[[:^alpha:]]+`,
		`foo`, `ba[rz]`, `\x{FFFD}+`, `[^\x{FFFD}\n]+`, `\w+\(`, `(?i)FOO\W`, `\pC+`, `[^\n]+`, `(?m)^.`, `(?m).$`, `\S+`, `[\x{2028}\x{2029}]`, `ab+c?`, `.\x{10FFFF}`, `\x{FEFF}\w+`}
	id := 0
	for c := 0; c < ncorp; c++ {
		// sizes straddle the fixed thresholds 1 / 64 / 4096; every corpus has plain documents and documents with special
		// (valid) code points, small and large, so that for every threshold above the largest document each of them is
		// searched by the grafana engine while the go-re2 program exists
		sizes := []int{0, 5 + r.Intn(20), 30 + r.Intn(30), 60 + r.Intn(8), 100 + r.Intn(200), 300 + r.Intn(600), 1500 + r.Intn(2000), 4090 + r.Intn(12), 5000 + r.Intn(3000)}
		b, err := NewShardBuilder(&zoekt.Repository{Name: "r"})
		if err != nil {
			t.Fatal(err)
		}
		var docs []map[string]any
		var contents [][]byte
		for i, sz := range sizes {
			pct := []int{0, 12, 35, 0, 12, 60}[(i+c)%6]
			content := vfC28Doc(r, sz, pct)
			if !utf8.Valid(content) {
				t.Fatal("generator produced invalid UTF-8")
			}
			name := fmt.Sprintf("d%d.txt", i)
			if err := b.Add(Document{Name: name, Content: content}); err != nil {
				t.Fatal(err)
			}
			docs = append(docs, map[string]any{"name": name, "bytes": len(content), "content": string(content), "special_pct": pct})
			contents = append(contents, content)
		}
		var buf bytes.Buffer
		if err := b.Write(&buf); err != nil {
			t.Fatal(err)
		}
		s, err := NewSearcher(&vfC28Mem{buf.Bytes()})
		if err != nil {
			t.Fatal(err)
		}
		d := s.(*indexData)
		vfEmit(map[string]any{"kind": "c28corpus", "corpus": c, "docs": docs})
		for k := 0; k < nq/ncorp; k++ {
			var p string
			if half := (len(fixed) + 1) / 2; k < half && c < 2 {
				p = fixed[(k+c*half)%len(fixed)]
			} else {
				p = vfC28Pattern(r, 1+r.Intn(3))
			}
			cs := r.Chance(50)
			id++
			vfC28RunOne(d, contents, c, id, p, cs, setting)
		}
		d.Close()
	}
}
