package index

// C17 correspondence + oracle: SetTombstone / UnsetTombstone sequences (with injected failures of
// os.CreateTemp and os.Rename) on real tiny simple and compound shards, each followed by a reload
// (ReadMetadataPath + fresh searcher) and Search/List for boolean queries.
// Mapped into /repo/index by `go test -overlay`.

import (
	"context"
	"encoding/json"
	"fmt"
	"hash/fnv"
	"io"
	"os"
	"path/filepath"
	"regexp"
	"sort"
	"strconv"
	"strings"
	"testing"

	gregexp "github.com/grafana/regexp"

	"github.com/sourcegraph/zoekt"
	"github.com/sourcegraph/zoekt/query"
)

var vfC17Files = []string{"f00.txt", "f01.txt", "f02.txt", "dir/f03.txt", "dir/f04.go", "f05.md"}
var vfC17Words = []string{"alpha", "bravo", "charlie", "delta", "echo", "foxtrot"}
var vfC17Fields = []string{"team", "tier"}
var vfC17Vals = []string{"red", "green", "blue"}

type vfC17Doc struct {
	repo  int
	file  int
	words []int
}

type vfC17Tpl struct {
	path  string
	repos []zoekt.Repository // embedded metadata, shard order
	docs  []vfC17Doc         // shard order
	desc  []map[string]any
}

func vfC17NameID(name string) uint64 {
	var k uint64
	// "repo-<k>" -> 2k, "renamed-<k>" -> 2k+1 (Model/Tombstone.v name_re relies on this coding)
	if _, err := fmt.Sscanf(name, "repo-%d", &k); err == nil {
		return 2 * k
	}
	if _, err := fmt.Sscanf(name, "renamed-%d", &k); err == nil {
		return 2*k + 1
	}
	return 1999999
}

func vfC17Idx(xs []string, x string) uint64 {
	for i, y := range xs {
		if y == x {
			return uint64(i)
		}
	}
	return 99
}

func vfC17MetaTerm(r *zoekt.Repository) string {
	if len(r.Metadata) == 0 {
		return "[]"
	}
	var ts []string
	for _, k := range vfSortedKeys(r.Metadata) {
		ts = append(ts, cTuple(cN(vfC17Idx(vfC17Fields, k)), cN(vfC17Idx(vfC17Vals, r.Metadata[k]))))
	}
	return cList(ts)
}

func vfC17FileID(name string) uint64 {
	for i, f := range vfC17Files {
		if f == name {
			return uint64(i)
		}
	}
	return 99
}

func vfC17Other(r *zoekt.Repository) uint64 {
	c := *r
	c.Tombstone = false
	c.FileTombstones = nil
	c.ID = 0
	c.Name = ""
	b, _ := json.Marshal(&c)
	h := fnv.New32a()
	h.Write(b)
	return uint64(h.Sum32())
}

func vfC17RepoTerm(r *zoekt.Repository) string {
	var ft []uint64
	for k := range r.FileTombstones {
		ft = append(ft, vfC17FileID(k))
	}
	sort.Slice(ft, func(i, j int) bool { return ft[i] < ft[j] })
	return cTuple(cN(uint64(r.ID)), cN(vfC17NameID(r.Name)), cBool(r.Tombstone), cNList(ft), vfC17MetaTerm(r), cN(vfC17Other(r)))
}

func vfC17ReposTerm(rs []*zoekt.Repository) string {
	if len(rs) == 0 {
		return "[]"
	}
	var ts []string
	for _, r := range rs {
		ts = append(ts, vfC17RepoTerm(r))
	}
	return cList(ts)
}

func vfC17BuildTemplate(t *testing.T, r *vfRand, dir string, k int) *vfC17Tpl {
	if err := os.MkdirAll(dir, 0o755); err != nil {
		t.Fatal(err)
	}
	nrepos := 3 + r.Intn(3) // mostly >= 3 repositories: the result-isolation clause needs a third, unrelated repository
	if c := r.Intn(100); c < 12 {
		nrepos = 1
	} else if c < 25 {
		nrepos = 2
	}
	content := map[string][]int{}
	var simple []string
	var desc []map[string]any
	for i := 0; i < nrepos; i++ {
		id := uint32(10*k + i + 1)
		name := fmt.Sprintf("repo-%d", id)
		repo := &zoekt.Repository{ID: id, Name: name, Rank: uint16(r.Intn(100)),
			Branches: []zoekt.RepositoryBranch{{Name: "HEAD", Version: fmt.Sprintf("v%d", i)}}}
		if r.Chance(15) {
			repo.FileTombstones = map[string]struct{}{r.Pick(vfC17Files): {}}
		}
		if r.Chance(65) {
			repo.Metadata = map[string]string{}
			for _, f := range vfC17Fields {
				if r.Chance(70) {
					repo.Metadata[f] = r.Pick(vfC17Vals)
				}
			}
		}
		b, err := NewShardBuilder(repo)
		if err != nil {
			t.Fatal(err)
		}
		nf := 1 + r.Intn(4)
		perm := r.Intn(len(vfC17Files))
		var fdesc []string
		for j := 0; j < nf; j++ {
			fi := (perm + j) % len(vfC17Files)
			var ws []int
			var sb strings.Builder
			nw := 1 + r.Intn(3)
			for w := 0; w < nw; w++ {
				wi := r.Intn(len(vfC17Words))
				ws = append(ws, wi)
				sb.WriteString(vfC17Words[wi])
				sb.WriteString(" ")
			}
			sb.WriteString("\n")
			if err := b.Add(Document{Name: vfC17Files[fi], Content: []byte(sb.String())}); err != nil {
				t.Fatal(err)
			}
			content[name+"\x00"+vfC17Files[fi]] = ws
			fdesc = append(fdesc, vfC17Files[fi]+": "+sb.String())
		}
		p := filepath.Join(dir, fmt.Sprintf("%s_v%d.%05d.zoekt", name, IndexFormatVersion, 0))
		if err := builderWriteAll(p, b); err != nil {
			t.Fatal(err)
		}
		simple = append(simple, p)
		desc = append(desc, map[string]any{"id": id, "name": name, "files": fdesc})
	}
	final := simple[0]
	{ // always a compound (format v17) shard: SetTombstone is only used on those (a v16 shard expects a non-array sidecar)
		var files []IndexFile
		for _, p := range simple {
			f, err := os.Open(p)
			if err != nil {
				t.Fatal(err)
			}
			inf, err := NewIndexFile(f)
			if err != nil {
				t.Fatal(err)
			}
			files = append(files, inf)
		}
		tmpName, dstName, err := Merge(dir, files...)
		if err != nil {
			t.Fatal(err)
		}
		for _, f := range files {
			f.Close()
		}
		if err := os.Rename(tmpName, dstName); err != nil {
			t.Fatal(err)
		}
		for _, p := range simple {
			os.Remove(p)
		}
		final = dstName
	}
	// read back the real layout of the shard
	f, err := os.Open(final)
	if err != nil {
		t.Fatal(err)
	}
	inf, err := NewIndexFile(f)
	if err != nil {
		t.Fatal(err)
	}
	s, err := NewSearcher(inf)
	if err != nil {
		t.Fatal(err)
	}
	d := s.(*indexData)
	tpl := &vfC17Tpl{path: final, desc: desc}
	for i := range d.repoMetaData {
		var c zoekt.Repository
		b, _ := json.Marshal(&d.repoMetaData[i])
		if err := json.Unmarshal(b, &c); err != nil {
			t.Fatal(err)
		}
		tpl.repos = append(tpl.repos, c)
	}
	for doc := uint32(0); doc < uint32(len(d.fileBranchMasks)); doc++ {
		ri := int(d.repos[doc])
		fn := string(d.fileName(doc))
		ws, ok := content[d.repoMetaData[ri].Name+"\x00"+fn]
		if !ok {
			t.Fatalf("unknown document %q in template", fn)
		}
		tpl.docs = append(tpl.docs, vfC17Doc{repo: ri, file: int(vfC17FileID(fn)), words: ws})
	}
	s.Close()
	return tpl
}

type vfC17Q struct {
	q    query.Q
	coq  string
	desc string
	// Go-side reference semantics of the query as written: does document d of repository rp satisfy it?
	ref func(rp *zoekt.Repository, d vfC17Doc) bool
}

func vfC17U64s(xs []uint32) []uint64 {
	out := make([]uint64, len(xs))
	for i, x := range xs {
		out[i] = uint64(x)
	}
	return out
}

// vfC17RepoAtom: a repository-level filter (Repo / RepoRegexp / RepoSet / RepoIDs / Meta). ids = the ids of the
// shard's repositories ("repo-<id>" is the embedded name, "renamed-<id>" what a seeded sidecar may rename it to).
func vfC17RepoAtom(r *vfRand, ids []uint32) vfC17Q {
	// a subset of the shard's repositories (often all but one / exactly as many as may be alive), sometimes plus a foreign id
	var sub []uint32
	switch c := r.Intn(100); {
	case c < 20:
		sub = append(sub, ids...)
		if len(sub) > 1 {
			k := r.Intn(len(sub))
			sub = append(sub[:k], sub[k+1:]...)
		}
	case c < 30:
		sub = append(sub, ids...)
	default:
		for _, id := range ids {
			if r.Chance(50) {
				sub = append(sub, id)
			}
		}
	}
	if r.Chance(15) || len(sub) == 0 {
		sub = append(sub, 9999)
	}
	has := func(id uint32) bool {
		for _, x := range sub {
			if x == id {
				return true
			}
		}
		return false
	}
	switch c := r.Intn(100); {
	case c < 25: // RepoSet over names (embedded and/or renamed)
		set := map[string]bool{}
		var nids []uint64
		for _, id := range sub {
			m := r.Intn(3)
			if m != 1 {
				n := fmt.Sprintf("repo-%d", id)
				set[n] = true
				nids = append(nids, vfC17NameID(n))
			}
			if m != 0 {
				n := fmt.Sprintf("renamed-%d", id)
				set[n] = true
				nids = append(nids, vfC17NameID(n))
			}
		}
		return vfC17Q{&query.RepoSet{Set: set}, "(CRepoSet " + cNList(nids) + ")", fmt.Sprint("reposet ", vfSortedKeys(set)),
			func(rp *zoekt.Repository, _ vfC17Doc) bool { return set[rp.Name] }}
	case c < 50: // RepoIDs
		q := query.NewRepoIDs(sub...)
		return vfC17Q{q, "(CRepoIDs " + cNList(vfC17U64s(sub)) + ")", fmt.Sprint("repoids ", sub),
			func(rp *zoekt.Repository, _ vfC17Doc) bool { return has(rp.ID) }}
	case c < 80: // repo: / RepoRegexp
		pre := r.Intn(3)
		var nums []uint32
		if r.Chance(80) || pre == 0 {
			nums = sub
		}
		pat := []string{"-", "^repo-", "^renamed-"}[pre]
		if len(nums) > 0 {
			var alts []string
			for _, x := range nums {
				alts = append(alts, strconv.Itoa(int(x)))
			}
			pat += "(?:" + strings.Join(alts, "|") + ")$"
		}
		ref := regexp.MustCompile(pat) // reference: the standard library's engine on the name
		var q query.Q
		if r.Bool() {
			q = &query.Repo{Regexp: gregexp.MustCompile(pat)}
		} else {
			q = &query.RepoRegexp{Regexp: gregexp.MustCompile(pat)}
		}
		nl := "[]"
		if len(nums) > 0 {
			nl = cNList(vfC17U64s(nums))
		}
		return vfC17Q{q, "(CRepoRe " + cN(uint64(pre)) + " " + nl + ")", "repo:" + pat,
			func(rp *zoekt.Repository, _ vfC17Doc) bool { return ref.MatchString(rp.Name) }}
	default: // Meta
		f := r.Intn(len(vfC17Fields))
		var vs []uint64
		var alts []string
		for i, v := range vfC17Vals {
			if r.Chance(50) {
				vs = append(vs, uint64(i))
				alts = append(alts, v)
			}
		}
		if len(vs) == 0 {
			vs, alts = []uint64{0}, []string{vfC17Vals[0]}
		}
		pat := "^(?:" + strings.Join(alts, "|") + ")$"
		ref := regexp.MustCompile(pat)
		field := vfC17Fields[f]
		return vfC17Q{&query.Meta{Field: field, Value: gregexp.MustCompile(pat)}, "(CMeta " + cN(uint64(f)) + " " + cNList(vs) + ")",
			"meta." + field + ":" + pat,
			func(rp *zoekt.Repository, _ vfC17Doc) bool {
				v, ok := rp.Metadata[field]
				return ok && ref.MatchString(v)
			}}
	}
}

func vfC17GenQuery(r *vfRand, depth int, names []string, ids []uint32) vfC17Q {
	c := r.Intn(100)
	switch {
	case c < 8:
		b := r.Bool()
		return vfC17Q{&query.Const{Value: b}, "(CConst " + cBool(b) + ")", fmt.Sprint("const ", b), func(*zoekt.Repository, vfC17Doc) bool { return b }}
	case c < 14:
		set := map[string]bool{}
		var nids []uint64
		n := 1 + r.Intn(3)
		if r.Chance(25) { // (almost) every name: simplifyMultiRepo's Const(true) case
			n = 3 * len(names)
		}
		for i := 0; i < n; i++ {
			nm := r.Pick(names)
			if !set[nm] {
				set[nm] = true
				nids = append(nids, vfC17NameID(nm))
			}
		}
		return vfC17Q{&query.RepoSet{Set: set}, "(CRepoSet " + cNList(nids) + ")", fmt.Sprint("reposet ", vfSortedKeys(set)),
			func(rp *zoekt.Repository, _ vfC17Doc) bool { return set[rp.Name] }}
	case c < 42 || (depth == 0 && c < 58):
		return vfC17RepoAtom(r, ids)
	case c < 54 || (depth == 0 && c < 72):
		fi := r.Intn(len(vfC17Files))
		return vfC17Q{&query.Substring{Pattern: vfC17Files[fi], FileName: true, CaseSensitive: true}, "(CFile " + cN(uint64(fi)) + ")", "file:" + vfC17Files[fi],
			func(_ *zoekt.Repository, d vfC17Doc) bool { return d.file == fi }}
	case c < 70 || depth == 0:
		wi := r.Intn(len(vfC17Words))
		return vfC17Q{&query.Substring{Pattern: vfC17Words[wi], Content: true, CaseSensitive: true}, "(CWord " + cN(uint64(wi)) + ")", "content:" + vfC17Words[wi],
			func(_ *zoekt.Repository, d vfC17Doc) bool {
				for _, w := range d.words {
					if w == wi {
						return true
					}
				}
				return false
			}}
	case c < 80:
		a := vfC17GenQuery(r, depth-1, names, ids)
		return vfC17Q{&query.Not{Child: a.q}, "(CNot " + a.coq + ")", "(not " + a.desc + ")",
			func(rp *zoekt.Repository, d vfC17Doc) bool { return !a.ref(rp, d) }}
	case c < 90:
		a := vfC17GenQuery(r, depth-1, names, ids)
		b := vfC17GenQuery(r, depth-1, names, ids)
		return vfC17Q{&query.And{Children: []query.Q{a.q, b.q}}, "(CAnd " + a.coq + " " + b.coq + ")", "(and " + a.desc + " " + b.desc + ")",
			func(rp *zoekt.Repository, d vfC17Doc) bool { return a.ref(rp, d) && b.ref(rp, d) }}
	default:
		a := vfC17GenQuery(r, depth-1, names, ids)
		b := vfC17GenQuery(r, depth-1, names, ids)
		return vfC17Q{&query.Or{Children: []query.Q{a.q, b.q}}, "(COr " + a.coq + " " + b.coq + ")", "(or " + a.desc + " " + b.desc + ")",
			func(rp *zoekt.Repository, d vfC17Doc) bool { return a.ref(rp, d) || b.ref(rp, d) }}
	}
}

type vfC17Obs struct {
	found  []uint64 // document positions
	listed []uint64 // repository ids
	err    string
}

func vfC17CopyFile(dst, src string) error {
	in, err := os.Open(src)
	if err != nil {
		return err
	}
	defer in.Close()
	out, err := os.Create(dst)
	if err != nil {
		return err
	}
	if _, err := io.Copy(out, in); err != nil {
		out.Close()
		return err
	}
	return out.Close()
}

func vfC17CountTmp(dir string) int {
	es, _ := os.ReadDir(dir)
	n := 0
	for _, e := range es {
		if strings.HasSuffix(e.Name(), ".tmp") {
			n++
		}
	}
	return n
}

func vfC17ReposJSON(rs []*zoekt.Repository, maskID uint32, mask bool) string {
	var out []string
	for _, r := range rs {
		c := *r
		if mask && c.ID == maskID {
			c.Tombstone = false
		}
		b, _ := json.Marshal(&c)
		out = append(out, string(b))
	}
	return strings.Join(out, "\n")
}

func TestVerifC17(t *testing.T) {
	r := vfNewRand(vfNewRand(vfSeed()).U64()) // the shared splitmix64 seeding makes seed k+1 the stream of seed k shifted by ONE draw: hash the seed first
	n := vfN(150)
	root := filepath.Join(os.Getenv("VERIF_TMP"), "c17")
	if os.Getenv("VERIF_TMP") == "" {
		root = t.TempDir()
	}
	defer os.RemoveAll(root)
	instrumented := os.Getenv("VERIF_C17_INSTRUMENTED") == "1"
	ctx := context.Background()

	ntpl := 12
	var tpls []*vfC17Tpl
	for k := 0; k < ntpl; k++ {
		tpls = append(tpls, vfC17BuildTemplate(t, r, filepath.Join(root, fmt.Sprintf("tpl%d", k)), k))
	}

	renameInjected, renameObserved := 0, 0
	for ci := 0; ci < n; ci++ {
		tpl := tpls[r.Intn(len(tpls))]
		dir := filepath.Join(root, fmt.Sprintf("case%d", ci))
		if err := os.MkdirAll(dir, 0o755); err != nil {
			t.Fatal(err)
		}
		shard := filepath.Join(dir, filepath.Base(tpl.path))
		missing := r.Chance(4)
		if !missing {
			if err := vfC17CopyFile(shard, tpl.path); err != nil {
				t.Fatal(err)
			}
		}
		classes := []string{fmt.Sprintf("repos=%d", len(tpl.repos))}
		if missing {
			classes = append(classes, "shard-missing")
		}
		// ---- seed the sidecar
		metaTerm := "None"
		seedJSON := ""
		sc := r.Intn(100)
		if !missing && sc < 40 {
			var seeded []*zoekt.Repository
			for i := range tpl.repos {
				var c zoekt.Repository
				b, _ := json.Marshal(&tpl.repos[i])
				json.Unmarshal(b, &c)
				if r.Chance(30) {
					c.Tombstone = true
				}
				if r.Chance(30) {
					c.FileTombstones = map[string]struct{}{}
					for j := 0; j < 1+r.Intn(2); j++ {
						c.FileTombstones[r.Pick(vfC17Files)] = struct{}{}
					}
				} else if r.Chance(20) { // every path of this repository tombstoned: alive, but nothing to find
					c.FileTombstones = map[string]struct{}{}
					for _, d := range tpl.docs {
						if d.repo == i {
							c.FileTombstones[vfC17Files[d.file]] = struct{}{}
						}
					}
				}
				if r.Chance(15) {
					c.Name = fmt.Sprintf("renamed-%d", c.ID)
				}
				if r.Chance(15) {
					c.Rank = uint16(200 + r.Intn(50))
				}
				if r.Chance(15) { // the sidecar's metadata is what Meta filters must see
					c.Metadata = map[string]string{r.Pick(vfC17Fields): r.Pick(vfC17Vals)}
				}
				seeded = append(seeded, &c)
			}
			b, _ := json.Marshal(seeded)
			seedJSON = string(b)
			if err := os.WriteFile(shard+".meta", b, 0o644); err != nil {
				t.Fatal(err)
			}
			metaTerm = cSome(vfC17ReposTerm(seeded))
			classes = append(classes, "sidecar-seeded")
		} else if !missing && sc < 46 {
			if err := os.WriteFile(shard+".meta", nil, 0o644); err != nil {
				t.Fatal(err)
			}
			classes = append(classes, "sidecar-empty")
		} else {
			classes = append(classes, "sidecar-absent")
		}
		// ---- names for repo queries, two fixed queries for the whole case
		names := []string{"repo-9999"}
		for i := range tpl.repos {
			names = append(names, tpl.repos[i].Name, fmt.Sprintf("renamed-%d", tpl.repos[i].ID))
		}
		var ids []uint32
		for i := range tpl.repos {
			ids = append(ids, tpl.repos[i].ID)
		}
		var qs []vfC17Q
		var qd []string
		for i := 0; i < 4; i++ {
			var q vfC17Q
			if i == 0 { // always one bare repository-level filter
				q = vfC17RepoAtom(r, ids)
			} else {
				q = vfC17GenQuery(r, 2, names, ids)
			}
			qs = append(qs, q)
			qd = append(qd, q.desc)
		}

		var history []map[string]any
		replay := func() map[string]any {
			return map[string]any{"template": tpl.desc, "embedded": vfC17ReposJSON(vfPtrs(tpl.repos), 0, false), "sidecar_seed": seedJSON,
				"shard_missing": missing, "ops": history, "queries": qd, "seed": vfSeed(), "case": ci}
		}

		readMeta := func() ([]*zoekt.Repository, error) {
			rs, _, err := ReadMetadataPath(shard)
			return rs, err
		}
		observe := func(eff []*zoekt.Repository) ([]vfC17Obs, string) {
			// fresh searcher = reload of the shard
			f, err := os.Open(shard)
			if err != nil {
				return nil, "[]"
			}
			inf, err := NewIndexFile(f)
			if err != nil {
				f.Close()
				return nil, "[]"
			}
			s, err := NewSearcher(inf)
			if err != nil {
				inf.Close()
				vfOracleFail("reload-fails", "shard does not load after tombstone operation: "+err.Error(), replay())
				return nil, "[]"
			}
			defer s.Close()
			byName := map[string]*zoekt.Repository{}
			byID := map[uint32]*zoekt.Repository{}
			for _, e := range eff {
				byName[e.Name] = e
				byID[e.ID] = e
			}
			pos := map[string]uint64{}
			for i, d := range tpl.docs {
				pos[eff[d.repo].Name+"\x00"+vfC17Files[d.file]] = uint64(i)
			}
			var obs []vfC17Obs
			var terms []string
			for _, q := range qs {
				var o vfC17Obs
				limTerm := cTuple(cN(0), "[]", "[]")
				sr, err := s.Search(ctx, q.q, &zoekt.SearchOptions{})
				if err != nil {
					o.err = err.Error()
					vfOracleFail("search-error", "Search returned an error: "+err.Error(), replay())
				} else {
					for _, fm := range sr.Files {
						p, ok := pos[fm.Repository+"\x00"+fm.FileName]
						if !ok {
							vfOracleFail("search-unknown-doc", "Search returned an unknown document "+fm.Repository+"/"+fm.FileName, replay())
							continue
						}
						o.found = append(o.found, p)
						// oracle: hidden in search
						if e := byName[fm.Repository]; e != nil {
							if e.Tombstone {
								vfOracleFail("hidden-search:repo", fmt.Sprintf("query %s returns file %s of tombstoned repository %s", q.desc, fm.FileName, fm.Repository), replay())
							}
							if _, ft := e.FileTombstones[fm.FileName]; ft {
								vfOracleFail("hidden-search:file", fmt.Sprintf("query %s returns tombstoned path %s of repository %s", q.desc, fm.FileName, fm.Repository), replay())
							}
						}
					}
					sort.Slice(o.found, func(i, j int) bool { return o.found[i] < o.found[j] })
					// oracle: Search returns EXACTLY the documents of alive repositories at non-tombstoned paths that satisfy
					// the query as written (reference evaluation q.ref on the effective metadata)
					got := map[uint64]bool{}
					for _, p := range o.found {
						got[p] = true
					}
					for i, d := range tpl.docs {
						e := eff[d.repo]
						_, ft := e.FileTombstones[vfC17Files[d.file]]
						want := !e.Tombstone && !ft && q.ref(e, d)
						if want && !got[uint64(i)] {
							vfOracleFail("search-exact:missing-doc", fmt.Sprintf("query %s does not return %s/%s although the repository is alive, the path not tombstoned and the query matches", q.desc, e.Name, vfC17Files[d.file]), replay())
						} else if !want && got[uint64(i)] && !e.Tombstone && !ft {
							vfOracleFail("search-exact:unexpected-doc", fmt.Sprintf("query %s returns %s/%s which does not satisfy it", q.desc, e.Name, vfC17Files[d.file]), replay())
						}
					}
					// ---- the same search under SearchOptions.ShardRepoMaxMatchCount in {0, 1, 2} (the skip-ahead branch of the document
					// loop): still nothing hidden, nothing the unlimited search does not return, and per repository exactly the shortest
					// prefix of its unlimited results whose match counts reach the limit (reference computed here from the unlimited result)
					lim := r.Intn(3)
					srl, err := s.Search(ctx, q.q, &zoekt.SearchOptions{ShardRepoMaxMatchCount: lim})
					if err != nil {
						vfOracleFail("search-error", "Search with ShardRepoMaxMatchCount returned an error: "+err.Error(), replay())
					} else {
						var wrows []string
						var want []uint64
						perRepo := map[string]int{}
						for _, fm := range sr.Files {
							p, ok := pos[fm.Repository+"\x00"+fm.FileName]
							if !ok {
								continue
							}
							wt := len(fm.LineMatches)
							for _, cm := range fm.ChunkMatches {
								wt += len(cm.Ranges)
							}
							wrows = append(wrows, cTuple(cN(p), cN(uint64(wt))))
							if lim == 0 || perRepo[fm.Repository] < lim {
								want = append(want, p)
							}
							perRepo[fm.Repository] += wt
						}
						var foundLim []uint64
						for _, fm := range srl.Files {
							p, ok := pos[fm.Repository+"\x00"+fm.FileName]
							if !ok {
								vfOracleFail("search-unknown-doc", "Search returned an unknown document "+fm.Repository+"/"+fm.FileName, replay())
								continue
							}
							foundLim = append(foundLim, p)
							if e := byName[fm.Repository]; e != nil {
								if e.Tombstone {
									vfOracleFail("hidden-search:repo", fmt.Sprintf("query %s with ShardRepoMaxMatchCount=%d returns file %s of tombstoned repository %s", q.desc, lim, fm.FileName, fm.Repository), replay())
								}
								if _, ft := e.FileTombstones[fm.FileName]; ft {
									vfOracleFail("hidden-search:file", fmt.Sprintf("query %s with ShardRepoMaxMatchCount=%d returns tombstoned path %s of repository %s", q.desc, lim, fm.FileName, fm.Repository), replay())
								}
							}
							if !got[p] {
								vfOracleFail("search-limited:not-in-unlimited", fmt.Sprintf("query %s with ShardRepoMaxMatchCount=%d returns %s/%s which the unlimited search does not return", q.desc, lim, fm.Repository, fm.FileName), replay())
							}
						}
						if fmt.Sprint(foundLim) != fmt.Sprint(want) {
							vfOracleFail("search-limited:not-the-prefix", fmt.Sprintf("query %s with ShardRepoMaxMatchCount=%d returns documents %v, expected %v (per repository the shortest prefix of the unlimited result %v reaching the limit)", q.desc, lim, foundLim, want, o.found), replay())
						}
						wl := "[]"
						if len(wrows) > 0 {
							wl = cList(wrows)
						}
						limTerm = cTuple(cN(uint64(lim)), wl, cNList(foundLim))
					}
				}
				rl, err := s.List(ctx, q.q, nil)
				if err != nil {
					o.err = err.Error()
					vfOracleFail("list-error", "List returned an error: "+err.Error(), replay())
				} else {
					for _, e := range rl.Repos {
						o.listed = append(o.listed, uint64(e.Repository.ID))
						if m := byID[e.Repository.ID]; m == nil || m.Tombstone {
							vfOracleFail("hidden-list:repo", fmt.Sprintf("query %s lists tombstoned repository %s", q.desc, e.Repository.Name), replay())
						}
					}
					// oracle: an alive repository with a visible document satisfying the query is listed; a listed repository has
					// one, or has no visible document at all (then List depends on the Const(true) shortcut: known finding)
					lst := map[uint32]bool{}
					for _, e := range rl.Repos {
						lst[e.Repository.ID] = true
					}
					for ri, e := range eff {
						if e.Tombstone {
							continue
						}
						visible, matching := 0, 0
						for _, d := range tpl.docs {
							if _, ft := e.FileTombstones[vfC17Files[d.file]]; d.repo == ri && !ft {
								visible++
								if q.ref(e, d) {
									matching++
								}
							}
						}
						if matching > 0 && !lst[e.ID] {
							vfOracleFail("list-exact:missing-repo", fmt.Sprintf("query %s does not list alive repository %s which has a visible matching document", q.desc, e.Name), replay())
						}
						if matching == 0 && visible > 0 && lst[e.ID] {
							vfOracleFail("list-exact:unexpected-repo", fmt.Sprintf("query %s lists repository %s none of whose %d visible documents satisfies it", q.desc, e.Name, visible), replay())
						}
					}
				}
				obs = append(obs, o)
				terms = append(terms, cTuple(q.coq, cNList(o.found), cNList(o.listed), limTerm))
			}
			return obs, cList(terms)
		}

		eff0, err0 := readMeta()
		shTerm := "None"
		q0Term := "[]"
		var lastObs []vfC17Obs
		if !missing {
			if err0 != nil {
				t.Fatalf("template shard unreadable: %v", err0)
			}
			var rts, dts []string
			for i := range tpl.repos {
				rts = append(rts, vfC17RepoTerm(&tpl.repos[i]))
			}
			for _, d := range tpl.docs {
				ws := make([]uint64, len(d.words))
				for i, w := range d.words {
					ws[i] = uint64(w)
				}
				dts = append(dts, cTuple(cN(uint64(d.repo)), cN(uint64(d.file)), cNList(ws)))
			}
			dl := "[]"
			if len(dts) > 0 {
				dl = cList(dts)
			}
			shTerm = cSome(cTuple(cList(rts), dl))
			lastObs, q0Term = observe(eff0)
		}

		// ---- operations
		nops := 1 + r.Intn(5)
		var opTerms []string
		type opRec struct {
			id     uint32
			flag   bool
			fault  int
			ok     bool
			before []*zoekt.Repository // effective metadata before the op
			obsB   []vfC17Obs
			side   string // sidecar bytes after the op
		}
		var prev *opRec
		eff := eff0
		anyFault, anyRepeat, anyInverse := false, false, false
		for oi := 0; oi < nops; oi++ {
			var id uint32
			flag := r.Bool()
			if r.Chance(80) && len(tpl.repos) > 0 {
				id = tpl.repos[r.Intn(len(tpl.repos))].ID
			} else {
				id = 9999
			}
			if prev != nil && r.Chance(25) {
				id, flag = prev.id, prev.flag
				anyRepeat = true
			} else if prev != nil && r.Chance(35) {
				id, flag = prev.id, !prev.flag
				anyInverse = true
			}
			fault := 0
			if instrumented {
				if c := r.Intn(100); c < 10 {
					fault = 1
				} else if c < 30 {
					fault = 2
				}
			}
			vfC17FailCreateTemp = fault == 1
			vfC17FailRename = fault == 2
			rc0 := vfC17RenameCalls
			var err error
			if flag {
				err = SetTombstone(shard, id)
			} else {
				err = UnsetTombstone(shard, id)
			}
			vfC17FailCreateTemp, vfC17FailRename = false, false
			if fault == 2 {
				renameInjected++
				if vfC17RenameCalls > rc0 {
					renameObserved++
				}
			}
			if fault != 0 {
				anyFault = true
			}
			errs := ""
			if err != nil {
				errs = err.Error()
			}
			history = append(history, map[string]any{"repo_id": id, "tombstone": flag, "fault": []string{"none", "createtemp-fails", "rename-fails"}[fault], "returned": errs})
			after, rerr := readMeta()
			tmps := vfC17CountTmp(dir)
			side, _ := os.ReadFile(shard + ".meta")
			faultName := []string{"no-fault", "createtemp-failure", "rename-failure"}[fault]

			// ---- Go-side oracle of the property
			if tmps != 0 {
				vfOracleFail("temp-left:"+faultName, "temporary file left behind by setTombstone", replay())
			}
			if err == nil {
				if rerr != nil {
					vfOracleFail("success-unreadable:"+faultName, "operation reported success but the metadata cannot be reloaded: "+rerr.Error(), replay())
				} else {
					for _, e := range after {
						if e.ID == id && e.Tombstone != flag {
							vfOracleFail("success-without-effect:"+faultName, fmt.Sprintf("setTombstone(id=%d, %v) returned nil but after reload repository %s has Tombstone=%v", id, flag, e.Name, e.Tombstone), replay())
							break
						}
					}
					if vfC17ReposJSON(after, id, true) != vfC17ReposJSON(eff, id, true) {
						vfOracleFail("isolation:"+faultName, "operation changed other repositories or other metadata", replay())
					}
				}
			} else {
				if (rerr == nil) != (err0 == nil) || (rerr == nil && vfC17ReposJSON(after, 0, false) != vfC17ReposJSON(eff, 0, false)) {
					vfOracleFail("error-changed-state:"+faultName, "operation returned an error but changed the metadata", replay())
				}
			}
			var obs []vfC17Obs
			qTerm := "[]"
			if rerr == nil {
				obs, qTerm = observe(after)
			}
			// ---- oracle: "affects only that repository" at the level of results — for every query the documents found in, and the
			// listing of, every OTHER non-tombstoned repository are identical before and after the operation
			if err == nil && rerr == nil && len(obs) == len(qs) && len(lastObs) == len(qs) && len(after) == len(eff) {
				for qi := range qs {
					for ri := range eff {
						if eff[ri].ID == id || eff[ri].Tombstone || after[ri].Tombstone {
							continue
						}
						proj := func(o vfC17Obs) (string, bool) {
							var ds []uint64
							for _, p := range o.found {
								if tpl.docs[p].repo == ri {
									ds = append(ds, p)
								}
							}
							l := false
							for _, x := range o.listed {
								if x == uint64(eff[ri].ID) {
									l = true
								}
							}
							return fmt.Sprint(ds), l
						}
						fb, lb := proj(lastObs[qi])
						fa, la := proj(obs[qi])
						what := fmt.Sprintf("tombstone=%v on repository id %d changed the results of the untouched repository %s for query %s: ", flag, id, eff[ri].Name, qs[qi].desc)
						if fb != fa {
							vfOracleFail("others-results-changed:search", what+"documents found before "+fb+" after "+fa, replay())
						}
						if lb != la {
							visible := 0
							for _, d := range tpl.docs {
								if _, ft := eff[ri].FileTombstones[vfC17Files[d.file]]; d.repo == ri && !ft {
									visible++
								}
							}
							key := "others-results-changed:list"
							if visible == 0 {
								key += ":repo-without-visible-documents"
							}
							vfOracleFail(key, what+fmt.Sprintf("listed before %v after %v", lb, la), replay())
						}
					}
				}
			}
			cur := &opRec{id: id, flag: flag, fault: fault, ok: err == nil, before: eff, obsB: lastObs, side: string(side)}
			if prev != nil && prev.ok && cur.ok && prev.fault == 0 && cur.fault == 0 && prev.id == id {
				if prev.flag == flag && prev.side != cur.side {
					vfOracleFail("idempotent", "repeating the operation changed the sidecar", replay())
				}
				if prev.flag != flag {
					// unset after set (or set after unset) restores, provided every repository with that id had the
					// restored flag before
					allHad := true
					for _, e := range prev.before {
						if e.ID == id && e.Tombstone != flag {
							allHad = false
						}
					}
					if allHad {
						if vfC17ReposJSON(after, 0, false) != vfC17ReposJSON(prev.before, 0, false) {
							vfOracleFail("inverse-restores:metadata", "set followed by unset (or vice versa) did not restore the metadata", replay())
						}
						if fmt.Sprint(obs) != fmt.Sprint(prev.obsB) {
							vfOracleFail("inverse-restores:results", "set followed by unset (or vice versa) did not restore the search/list results", replay())
						}
					}
				}
			}
			reloadTerm := "None"
			if rerr == nil {
				reloadTerm = cSome(vfC17ReposTerm(after))
				eff = after
			}
			opTerms = append(opTerms, cTuple(cN(uint64(id)), cBool(flag), cN(uint64(fault)),
				cTuple(cBool(err != nil), reloadTerm, cN(uint64(tmps)), qTerm)))
			prev = cur
			lastObs = obs
		}
		if anyFault {
			classes = append(classes, "fault")
		}
		if anyRepeat {
			classes = append(classes, "repeat")
		}
		if anyInverse {
			classes = append(classes, "inverse")
		}
		coq := cTuple(shTerm, metaTerm, q0Term, cList(opTerms))
		vfCase(coq, vfKey(tpl.path, seedJSON, history, qd), !missing && len(tpl.repos) >= 2 && nops >= 2, classes,
			map[string]any{"template": tpl.desc, "sidecar_seed": seedJSON, "ops": history, "queries": qd})
		os.RemoveAll(dir)
	}
	vfInfo(map[string]any{"instrumented": instrumented, "rename_failures_injected": renameInjected, "rename_failures_reached_rename_call": renameObserved})

	// ---- natural (uninstrumented) rename failure: a directory sits at the sidecar path; the metadata read is
	// bypassed with the package's own test hook mockRepos, so CreateTemp succeeds and os.Rename(file, dir) fails.
	for k := 0; k < 2; k++ {
		dir := filepath.Join(root, fmt.Sprintf("natural%d", k))
		shard := filepath.Join(dir, "ghost.zoekt")
		if err := os.MkdirAll(shard+".meta", 0o755); err != nil {
			t.Fatal(err)
		}
		mockRepos = []*zoekt.Repository{{ID: 1, Name: "r1"}, {ID: 2, Name: "r2", Tombstone: k == 1}}
		var err error
		if k == 0 {
			err = SetTombstone(shard, 2)
		} else {
			err = UnsetTombstone(shard, 2)
		}
		mockRepos = nil
		rp := map[string]any{"scenario": "directory at <shard>.meta, mockRepos set, SetTombstone/UnsetTombstone(shard, 2)", "unset": k == 1}
		if err == nil {
			if fi, serr := os.Stat(shard + ".meta"); serr != nil || fi.IsDir() {
				vfOracleFail("success-without-effect:rename-failure", "setTombstone returned nil although renaming the temporary file over the sidecar failed (a directory occupies the sidecar path)", rp)
			}
		}
		if vfC17CountTmp(dir) != 0 {
			vfOracleFail("temp-left:rename-failure", "temporary file left behind after failed rename", rp)
		}
		os.RemoveAll(dir)
	}
}

func vfPtrs(rs []zoekt.Repository) []*zoekt.Repository {
	out := make([]*zoekt.Repository, len(rs))
	for i := range rs {
		out[i] = &rs[i]
	}
	return out
}
