package index

// C07, second half: every query that query.Parse yields can be searched and listed on a (tiny, in-memory) shard,
// and the JSON API handlers (internal/json) answer every request body - well-formed or not - without panicking.
// Mapped into /repo/index by `go test -overlay`.  Oracle only (the parser model is tied in package query).

import (
	"bytes"
	"context"
	"encoding/json"
	"fmt"
	"net/http/httptest"
	"strings"
	"testing"
	"unicode/utf8"

	"github.com/sourcegraph/zoekt"
	zjson "github.com/sourcegraph/zoekt/internal/json"
	"github.com/sourcegraph/zoekt/query"
)

func vfC07bStage(f func()) (pan string) {
	defer func() {
		if r := recover(); r != nil {
			pan = fmt.Sprint(r)
			if len(pan) > 120 {
				pan = pan[:120]
			}
			if pan == "" {
				pan = "panic"
			}
		}
	}()
	f()
	return ""
}

var vfC07bCorpus = []string{
	"", " ", "a", "meta.k:v", "-type:file", "-case:yes", "(-case:yes a)", "type:file", "lang:go", "b:", "meta.:",
	"\\bhello\\b", "case:yes \\bWorld\\b", "f:\\bgo\\b", "-\\bfoo\\b bar", "sym:\\bhello\\b", "foo \\bbar\\b or \\bFOO\\b", // wordMatchTree
	"(type:repo a) b", "x -type:repo", "-t:repo or a", "-(type:file b)", "-(case:yes B)", "type:repo a", "type:filematch a",
	"type:file a", "(type:filematch a) b", "-(type:repo a)", "a or type:repo b", "case:yes -case:no", "sym:a type:repo",
	"f:a case:yes or b", "()", "(a)b c", "f:", "-f:", "lang:", "archived:yes", "fork:no public:yes", "b:x", "r:", "regex:a.*b",
	"sym:hello", "sym:.*", "hello", "hello world", "\"hello world\"", "hel.o", "f:f.go", "c:foo", "r:r", "-r:r", "b:main", "b:HEAD", "-b:main",
	"meta.license:MIT", "meta.license:.*", "-meta.zzz:a", "type:repo", "t:filematch", "type:repo hello", "(?i)HELLO", "case:yes HELLO", "foo|bar", "[a-z]+ o",
	"(?:)", "(hello or foo) -bar", "type:repo (type:file a)", "-(a or b)", "lang:go or lang:python", "t:repo r:r", "type:filename f:go", ".", ".*", "\\bfoo\\b", "^foo$", "o{2}",
}

var vfC07bRich = []string{"(", ")", "\"", "\\", "-", " ", " ", " ", "or", " or ", "a", "o", "hello", "Foo", "f:", "c:", "r:", "b:", "case:yes", "case:no", "t:file", "type:repo",
	"type:filematch", "sym:", "lang:go", "regex:", "archived:yes", "fork:no", "public:yes", "meta.license:", "meta.", ".", "*", "+", "[", "]", "|", "?", "^", "$", "\t", "\n", "\xff", "é"}

func vfC07bGen(r *vfRand) string {
	words := []string{"a", "o", "hello", "World", "fo+", "\"foo bar\"", "main", "f.go", "(?i)FOO", "é", "[a-h]ello"}
	var q func(d int) string
	e := func(d int) string {
		s := ""
		if r.Chance(20) {
			s = "-"
		}
		if d > 0 && r.Chance(30) {
			return s + "(" + q(d-1) + ")"
		}
		switch r.Intn(16) {
		case 0:
			return s + "archived:" + r.Pick([]string{"yes", "no"})
		case 1:
			return s + "case:" + r.Pick([]string{"yes", "no", "auto"})
		case 2:
			return s + "c:" + r.Pick(words)
		case 3:
			return s + "f:" + r.Pick(words)
		case 4:
			return s + "fork:" + r.Pick([]string{"yes", "no"})
		case 5:
			return s + "lang:" + r.Pick([]string{"go", "python", "zzz"})
		case 6:
			return s + "public:" + r.Pick([]string{"yes", "no"})
		case 7:
			return s + "regex:" + r.Pick(words)
		case 8:
			return s + "r:" + r.Pick([]string{"r", "x", "^r$", "."})
		case 9:
			return s + "sym:" + r.Pick(words)
		case 10:
			return s + "b:" + r.Pick([]string{"main", "HEAD", "dev", "\"\""})
		case 11:
			return s + "type:" + r.Pick([]string{"filematch", "filename", "file", "repo"})
		case 12:
			return s + "meta." + r.Pick([]string{"license", "k"}) + ":" + r.Pick([]string{"MIT", ".*", "x"})
		}
		return s + r.Pick(words)
	}
	q = func(d int) string {
		var parts []string
		for i, nc := 0, 1+r.Intn(2); i < nc; i++ {
			var es []string
			for j, ne := 0, 1+r.Intn(3); j < ne; j++ {
				es = append(es, e(d))
			}
			parts = append(parts, strings.Join(es, " "))
		}
		return strings.Join(parts, " or ")
	}
	return q(2)
}

// twins of internal/json's unexported argument structs (what encoding/json decodes a body into)
type vfC07bSearchArgs struct {
	Q       string
	RepoIDs *[]uint32
	Opts    *zoekt.SearchOptions
}
type vfC07bListArgs struct {
	Q    string
	Opts *zoekt.ListOptions
}

// vfC07bEstimate wraps a searcher and reports a chosen ShardFilesConsidered for the EstimateDocCount pre-flight of
// CalculateDefaultSearchLimits, so that the corpus-size dependent arithmetic of the JSON handler is exercised
// for every size class (the real corpus here has three documents).
type vfC07bEstimate struct {
	zoekt.Searcher
	numdocs int
}

func (e *vfC07bEstimate) Search(ctx context.Context, q query.Q, opts *zoekt.SearchOptions) (*zoekt.SearchResult, error) {
	res, err := e.Searcher.Search(ctx, q, opts)
	if err == nil && res != nil && opts != nil && opts.EstimateDocCount {
		res.Stats.ShardFilesConsidered = e.numdocs
	}
	return res, err
}

// vfC07bJCase records one request for the model of the handlers' control flow (coq/Model/JsonApi.v): what the
// decoder, Parse and the searcher did (observed here by calling them directly) and the HTTP status of the handler.
func vfC07bJCase(searcher zoekt.Searcher, path, method string, body []byte, status int) {
	isList := path == "/list"
	var q string
	decoded, hasIDs, hasOpts := false, false, false
	maxDocs, shardMax := 0, 0
	var ids *[]uint32
	var sopts *zoekt.SearchOptions
	var lopts *zoekt.ListOptions
	if isList {
		var a vfC07bListArgs
		if json.NewDecoder(bytes.NewReader(body)).Decode(&a) == nil {
			decoded, q, lopts = true, a.Q, a.Opts
		}
	} else {
		var a vfC07bSearchArgs
		if json.NewDecoder(bytes.NewReader(body)).Decode(&a) == nil {
			decoded, q, ids, sopts = true, a.Q, a.RepoIDs, a.Opts
			hasIDs, hasOpts = a.RepoIDs != nil, a.Opts != nil
			if a.Opts != nil {
				maxDocs, shardMax = a.Opts.MaxDocDisplayCount, a.Opts.ShardMaxMatchCount
			}
		}
	}
	pclass, sclass := 0, 0
	if decoded && (isList || q != "") {
		var pq query.Q
		var perr error
		if vfC07bStage(func() { pq, perr = query.Parse(q) }) != "" {
			return // reported by the oracle
		}
		if perr != nil {
			pclass = 1
		} else {
			var err error
			pan := vfC07bStage(func() {
				if isList {
					_, err = searcher.List(context.Background(), pq, lopts)
				} else {
					if ids != nil {
						pq = query.NewAnd(pq, query.NewRepoIDs(*ids...))
					}
					o := zoekt.SearchOptions{}
					if sopts != nil {
						o = *sopts
					}
					_, err = searcher.Search(context.Background(), pq, &o)
				}
			})
			if pan != "" {
				return // reported by the oracle
			}
			if err != nil {
				sclass = 1
			}
		}
	}
	nz := func(n int) uint64 {
		if n == 0 {
			return 0
		}
		return 1
	}
	coq := cTuple(cBool(isList), cBool(method == "POST"), cBool(decoded), cBool(q == ""), cBool(hasIDs), cBool(hasOpts), cN(nz(maxDocs)), cN(nz(shardMax)),
		cN(uint64(pclass)), cN(uint64(sclass)), cN(uint64(status)))
	vfEmit(map[string]any{"kind": "jcase", "coq": coq, "sample": map[string]any{"path": path, "method": method, "body": string(body[:min(len(body), 200)]), "status": status}})
}

// ---------------------------------------------------------------- cost-level evaluation (coq/Model/MatchCostEval.v)

// the nodes a matches method evaluates through evalMatchTree / delegates to (not: the subtrees a node only uses for
// prepare / nextDoc, like symbolRegexpMatchTree's candidate tree)
func vfC07bChildren(mt matchTree) []matchTree {
	switch s := mt.(type) {
	case *andMatchTree:
		return s.children
	case *andLineMatchTree:
		return s.children
	case *orMatchTree:
		return s.children
	case *notMatchTree:
		return []matchTree{s.child}
	case *fileNameMatchTree:
		return []matchTree{s.child}
	case *boostMatchTree:
		return []matchTree{s.child}
	case *noVisitMatchTree:
		return []matchTree{s.matchTree}
	}
	return nil
}

var vfC07bStateCoq = map[matchesState]string{matchesFound: "SFound", matchesNone: "SNone", matchesRequiresHigherCost: "SHigher"}

// every node's state at this cost level (children first; the root was already evaluated by the loop, so what is
// recorded for it is what the loop saw - evalMatchTree answers decided nodes from `known`)
func vfC07bObs(cp *contentProvider, cost int, known map[matchTree]bool, mt matchTree, nodes *int) string {
	var cs []string
	for _, c := range vfC07bChildren(mt) {
		cs = append(cs, vfC07bObs(cp, cost, known, c, nodes))
	}
	*nodes++
	st := evalMatchTree(cp, cost, known, mt)
	kind := strings.TrimPrefix(fmt.Sprintf("%T", mt), "*index.")
	kids := "(@nil obs)"
	if len(cs) > 0 {
		kids = "[" + strings.Join(cs, "; ") + "]"
	}
	return fmt.Sprintf("(ONode MT_%s %s %s)", kind, vfC07bStateCoq[st], kids)
}

// the document loop of indexData.Search for one query, traced: for every document and every cost level the loop
// visits, the state of every node of the match tree
func vfC07bCostTrace(d *indexData, q query.Q, s string, cls string) {
	q = d.simplify(q)
	if c, ok := q.(*query.Const); ok && !c.Value {
		return
	}
	q = query.Map(q, query.ExpandFileContent)
	mt, err := d.newMatchTree(q, matchTreeOpt{})
	if err != nil {
		return
	}
	mt, err = pruneMatchTree(mt)
	if err != nil || mt == nil {
		return
	}
	var stats zoekt.Stats
	cp := &contentProvider{id: d, stats: &stats}
	docCount := uint32(len(d.fileBranchMasks))
	for doc := uint32(0); doc < docCount; doc++ {
		mt.prepare(doc)
		cp.setDocument(doc)
		known := make(map[matchTree]bool)
		var levels []string
		matched, undecided := true, false
		nodes := 0
		for cost := costMin; cost <= costMax; cost++ {
			st := evalMatchTree(cp, cost, known, mt)
			nodes = 0
			levels = append(levels, fmt.Sprintf("(%d, %s)", cost, vfC07bObs(cp, cost, known, mt, &nodes)))
			if st == matchesRequiresHigherCost && cost == costMax {
				undecided = true
			}
			if st == matchesNone {
				matched = false
				break
			}
		}
		if undecided {
			vfOracleFail("Search:did-not-decide", "the match tree is still undecided at costMax (indexData.Search would log.Panicf)",
				map[string]any{"query": s, "doc": doc, "tree": fmt.Sprint(mt)})
		}
		coq := cTuple("["+strings.Join(levels, "; ")+"]%N", cBool(matched))
		vfEmit(map[string]any{"kind": "mccase", "coq": coq, "key": fmt.Sprintf("%s#%d", s, doc), "nontrivial": nodes >= 2,
			"class":  []string{cls, fmt.Sprintf("nodes=%d", min(nodes, 6)), fmt.Sprintf("levels=%d", len(levels)), fmt.Sprintf("matched=%v", matched)},
			"sample": map[string]any{"query": s, "doc": doc, "tree": fmt.Sprint(mt)}})
	}
}

func TestVerifC07b(t *testing.T) {
	r := vfNewRand(vfSeed() + 77)
	n := vfN(400)
	b, err := NewShardBuilder(&zoekt.Repository{Name: "r", ID: 7, Branches: []zoekt.RepositoryBranch{{Name: "main", Version: "v1"}, {Name: "dev", Version: "v2"}},
		Metadata: map[string]string{"license": "MIT"}})
	if err != nil {
		t.Fatal(err)
	}
	for _, d := range []Document{
		{Name: "f.go", Content: []byte("package hello\nfunc World() { foo bar }\n"), Branches: []string{"main"}, Language: "Go",
			Symbols: []DocumentSection{{8, 13}}, SymbolsMetaData: []*zoekt.Symbol{{Sym: "hello", Kind: "package"}}},
		{Name: "dir/HELLO.py", Content: []byte("hello = 'FOO'\n"), Branches: []string{"main", "dev"}, Language: "Python"},
		{Name: "empty", Content: []byte(""), Branches: []string{"dev"}},
	} {
		if err := b.Add(d); err != nil {
			t.Fatal(err)
		}
	}
	var buf bytes.Buffer
	if err := b.Write(&buf); err != nil {
		t.Fatal(err)
	}
	searcher, err := NewSearcher(&memSeeker{buf.Bytes()})
	if err != nil {
		t.Fatal(err)
	}
	handler := zjson.JSONServer(searcher)
	post := func(path string, body []byte) (code int, pan string) {
		pan = vfC07bStage(func() {
			rec := httptest.NewRecorder()
			handler.ServeHTTP(rec, httptest.NewRequest("POST", path, bytes.NewReader(body)))
			code = rec.Code
			if ct := rec.Header().Get("Content-Type"); ct != "application/json" {
				panic("response without JSON content type")
			}
			var v map[string]any
			if err := json.Unmarshal(rec.Body.Bytes(), &v); err != nil {
				panic("response body is not a JSON object: " + err.Error())
			}
		})
		return
	}

	var ins, classes []string
	var replayBodies []string
	// --replay <file>: the failing query / request body of the replay file goes first
	if rp := vfReplay(); rp != nil {
		if rr, ok := rp["replay"].(map[string]any); ok {
			if q, ok := rr["query"].(string); ok {
				ins, classes = append(ins, q), append(classes, "replay")
			}
			if b, ok := rr["body"].(string); ok {
				replayBodies = append(replayBodies, b)
			}
		}
	}
	for _, s := range vfC07bCorpus {
		ins, classes = append(ins, s), append(classes, "corpus")
	}
	for i := 0; i < n; i++ {
		switch i % 3 {
		case 0, 1:
			ins, classes = append(ins, vfC07bGen(r)), append(classes, "doc-grammar")
		default:
			var sb strings.Builder
			for j, k := 0, 2+r.Intn(8); j < k; j++ {
				sb.WriteString(r.Pick(vfC07bRich))
			}
			ins, classes = append(ins, sb.String()), append(classes, "random-symbols")
		}
	}
	ctx := context.Background()
	seen := map[string]bool{}
	for idx, s := range ins {
		if seen[s] {
			continue
		}
		seen[s] = true
		replay := map[string]any{"query": s, "query_quoted": fmt.Sprintf("%q", s)}
		var q query.Q
		var perr error
		if p := vfC07bStage(func() { q, perr = query.Parse(s) }); p != "" {
			vfOracleFail("Parse:panic", "query.Parse panics: "+p, replay)
			continue
		}
		outcome := map[string]string{"parse": "ok"}
		if perr != nil {
			outcome["parse"] = "error"
		} else {
			replay["parsed"] = fmt.Sprint(q)
			var serr, lerr error
			var sres *zoekt.SearchResult
			if p := vfC07bStage(func() { sres, serr = searcher.Search(ctx, q, &zoekt.SearchOptions{}) }); p != "" {
				outcome["search"] = "panic"
				vfOracleFail("Search:"+p, "Search of the parsed query panics on an in-memory shard: "+p, replay)
			} else if serr != nil {
				outcome["search"] = "error"
			} else {
				outcome["search"] = fmt.Sprintf("ok files=%d", min(len(sres.Files), 3))
			}
			if id, ok := searcher.(*indexData); ok && serr == nil && outcome["search"] != "panic" {
				if p := vfC07bStage(func() { vfC07bCostTrace(id, q, s, classes[idx]) }); p != "" {
					vfOracleFail("CostTrace:"+p, "evaluating the match tree level by level panics: "+p, replay)
				}
			}
			if p := vfC07bStage(func() { _, lerr = searcher.List(ctx, q, nil) }); p != "" {
				outcome["list"] = "panic"
				vfOracleFail("List:"+p, "List of the parsed query panics on an in-memory shard: "+p, replay)
			} else if lerr != nil {
				outcome["list"] = "error"
			} else {
				outcome["list"] = "ok"
			}
			if p := vfC07bStage(func() { _, lerr = searcher.List(ctx, q, &zoekt.ListOptions{Field: zoekt.RepoListFieldReposMap}) }); p != "" {
				vfOracleFail("List:"+p, "List(ReposMap) of the parsed query panics on an in-memory shard: "+p, replay)
			}
		}
		// the same string through the JSON API
		body, _ := json.Marshal(map[string]any{"Q": s})
		for _, path := range []string{"/search", "/list"} {
			code, p := post(path, body)
			if p != "" {
				vfOracleFail("json"+path+":"+p, "JSON API "+path+" panics or answers with a malformed body: "+p, map[string]any{"body": string(body), "path": path})
			} else {
				vfC07bJCase(searcher, path, "POST", body, code)
			}
			outcome["json"+path] = fmt.Sprint(code)
			if perr != nil && s != "" && utf8.ValidString(s) && code != 400 {
				vfOracleFail("json"+path+":status", fmt.Sprintf("JSON API %s answers %d to an unparsable query", path, code), map[string]any{"body": string(body), "path": path})
			}
		}
		var cls []string
		cls = append(cls, classes[idx])
		for _, k := range vfSortedKeys(outcome) {
			cls = append(cls, k+"="+outcome[k])
		}
		vfEmit(map[string]any{"kind": "stage", "key": s, "nontrivial": perr == nil, "class": cls, "sample": map[string]any{"query": fmt.Sprintf("%q", s), "outcome": outcome}})
	}

	// ---- malformed / wrongly typed JSON request bodies
	bodies := []string{"", "{", "}", "null", "[]", "1", "\"x\"", "{}", "{\"Q\":1}", "{\"Q\":null}", "{\"Q\":[\"a\"]}", "{\"Q\":{\"a\":1}}", "{\"q\":\"a\"}",
		"{\"Q\":\"a\",\"Opts\":null}", "{\"Q\":\"a\",\"Opts\":1}", "{\"Q\":\"a\",\"Opts\":{}}", "{\"Q\":\"a\",\"Opts\":{\"MaxDocDisplayCount\":-1}}",
		"{\"Q\":\"a\",\"Opts\":{\"MaxDocDisplayCount\":5}}", "{\"Q\":\"a\",\"Opts\":{\"NumContextLines\":-3}}", "{\"Q\":\"a\",\"Opts\":{\"NumContextLines\":1000000}}",
		"{\"Q\":\"a\",\"RepoIDs\":null}", "{\"Q\":\"a\",\"RepoIDs\":[]}", "{\"Q\":\"a\",\"RepoIDs\":[7]}", "{\"Q\":\"a\",\"RepoIDs\":[-1]}", "{\"Q\":\"a\",\"RepoIDs\":\"x\"}",
		"{\"Q\":\"a\",\"RepoIDs\":[4294967296]}", "{\"Q\":\"hello\",\"Opts\":{\"ChunkMatches\":true}}", "{\"Q\":\"hello\",\"Opts\":{\"Whole\":true,\"MaxWallTime\":1}}",
		"{\"Q\":\"hello\",\"Opts\":{\"MaxMatchDisplayCount\":1,\"MaxDocDisplayCount\":1,\"ShardMaxMatchCount\":1,\"TotalMaxMatchCount\":1}}",
		"{\"Q\":\"hello\",\"Opts\":{\"EstimateDocCount\":true}}", "{\"Q\":\"hello\",\"Opts\":{\"UseBM25Scoring\":true,\"DebugScore\":true}}",
		"{\"Q\":\"\\ud800\"}", "{\"Q\":\"a\"}{\"Q\":\"b\"}", "{\"Q\":\"a\"} trailing", "\xff\xfe", "{\"Q\":\"\xff\"}", "{\"Q\":\"a\",\"Opts\":{\"Field\":99}}", "{\"Opts\":{\"Field\":2}}",
		"{\"Q\":\"r:r\",\"Opts\":{\"Field\":2}}", "{\"Q\":\"r:r\",\"Opts\":{\"Field\":\"x\"}}", "{\"Q\":\"type:repo a\",\"Opts\":{\"MaxDocDisplayCount\":1}}",
		strings.Repeat("[", 10000), "{\"Q\":\"" + strings.Repeat("(", 3000) + "\"}", "{\"Q\":\"" + strings.Repeat("-", 3000) + "a\"}", "{\"Q\":\"" + strings.Repeat("a or ", 2000) + "a\"}"}
	bodies = append(replayBodies, bodies...)
	frag := []string{"{", "}", "[", "]", ":", ",", "\"Q\"", "\"Opts\"", "\"RepoIDs\"", "\"a\"", "\"meta.k:v\"", "\"-case:yes\"", "1", "-1", "null", "true", "1e99", "\"MaxDocDisplayCount\"", "\"Field\"", " ", "\\", "\xff"}
	for i := 0; i < n/2; i++ {
		var sb strings.Builder
		if r.Chance(50) {
			sb.WriteString("{\"Q\":")
		}
		for j, k := 0, 1+r.Intn(8); j < k; j++ {
			sb.WriteString(r.Pick(frag))
		}
		bodies = append(bodies, sb.String())
	}
	// ---- corpus-size classes of CalculateDefaultSearchLimits
	for _, nd := range []int{0, 1, 2, 99, 100, 101, 999, 1000, 1001, 1999, 2000, 9999, 10000, 10001, 10999, 11000, 1000000, 1 << 40, -1, -1000, -20000} {
		h := zjson.JSONServer(&vfC07bEstimate{Searcher: searcher, numdocs: nd})
		for _, md := range []string{"1", "50", "-1", "1000000", "9223372036854775807", "-9223372036854775808"} {
			body := "{\"Q\":\"hello\",\"Opts\":{\"MaxDocDisplayCount\":" + md + "}}"
			rec := httptest.NewRecorder()
			if p := vfC07bStage(func() { h.ServeHTTP(rec, httptest.NewRequest("POST", "/search", strings.NewReader(body))) }); p != "" {
				vfOracleFail("json/search:limits:"+p, fmt.Sprintf("JSON API /search panics while computing default limits for a corpus of %d documents: %s", nd, p),
					map[string]any{"body": body, "path": "/search", "estimated_documents": nd})
			} else {
				vfC07bJCase(searcher, "/search", "POST", []byte(body), rec.Code)
			}
		}
	}
	for _, m := range []string{"GET", "PUT", "DELETE"} {
		for _, path := range []string{"/search", "/list"} {
			rec := httptest.NewRecorder()
			if p := vfC07bStage(func() { handler.ServeHTTP(rec, httptest.NewRequest(m, path, strings.NewReader("{\"Q\":\"a\"}"))) }); p != "" {
				vfOracleFail("json"+path+":"+p, "JSON API "+path+" panics on a "+m+" request: "+p, map[string]any{"method": m, "path": path})
			} else {
				vfC07bJCase(searcher, path, m, []byte("{\"Q\":\"a\"}"), rec.Code)
			}
		}
	}
	for _, body := range bodies {
		for _, path := range []string{"/search", "/list"} {
			code, p := post(path, []byte(body))
			shown := body
			if len(shown) > 200 {
				shown = shown[:200] + "..."
			}
			if p != "" {
				vfOracleFail("json"+path+":"+p, "JSON API "+path+" panics or answers with a malformed body: "+p, map[string]any{"body": body, "path": path})
			} else {
				vfC07bJCase(searcher, path, "POST", []byte(body), code)
			}
			vfEmit(map[string]any{"kind": "stage", "key": path + body, "nontrivial": code == 200, "class": []string{"json-body", fmt.Sprintf("json%s=%d", path, code)},
				"sample": map[string]any{"body": shown, "path": path, "code": code}})
		}
	}
}
