package index

// C22 shared generator / serialiser / Go-side oracle helpers. This file only uses the public zoekt
// API types, so the check also maps a copy of it (package clause rewritten) into package search.

import (
	"bytes"
	"fmt"
	"sort"
	"strings"

	"github.com/sourcegraph/zoekt"
)

var vf22Exts = []string{".go", ".py", ".rs", ".md"}

type vf22Gen struct {
	r      *vfRand
	nextID uint64
	scores map[int]bool
	// diverse: extensions uniform over vf22Exts and scores mostly inside one 0.9-window, so that several
	// files of different novel extensions compete for the promotion (set by the collectSender test)
	diverse bool
}

func vf22ExtID(name string) uint64 {
	i := strings.LastIndexByte(name, '.')
	if i < 0 {
		return 99
	}
	for k, e := range vf22Exts {
		if e == name[i:] {
			return uint64(k)
		}
	}
	return 98
}

// chunk generator: returns the chunk and whether it is well-formed (content = whole lines
// [F, lastEnd+trail], ranges with non-decreasing end lines inside it)
func (g *vf22Gen) chunk(ctx int, wellFormedOnly bool) (zoekt.ChunkMatch, bool) {
	r := g.r
	first := 1 + r.Intn(4) // first range line
	lead := ctx
	if r.Chance(30) {
		lead = r.Intn(ctx + 1)
	}
	if lead > first-1 {
		lead = first - 1
	}
	F := first - lead
	nr := 1 + r.Intn(4)
	var ranges []zoekt.Range
	line := first
	for i := 0; i < nr; i++ {
		st := line
		en := st
		if r.Chance(25) {
			en = st + 1 + r.Intn(2)
		}
		g.nextID++
		ranges = append(ranges, zoekt.Range{
			Start: zoekt.Location{ByteOffset: uint32(g.nextID), LineNumber: uint32(st), Column: 1},
			End:   zoekt.Location{ByteOffset: uint32(g.nextID) + 1, LineNumber: uint32(en), Column: 2},
		})
		// next range: same line, or up to 2*ctx+1 lines further (chunks merge when contexts touch)
		line = en + r.Intn(2*ctx+2)
		if r.Chance(20) {
			line = en
		}
	}
	lastEnd := int(ranges[len(ranges)-1].End.LineNumber)
	trail := ctx
	if r.Chance(35) {
		trail = r.Intn(ctx + 1) // chunk clamped by the end of the file
	}
	var b bytes.Buffer
	for l := F; l <= lastEnd+trail; l++ {
		if l < lastEnd+trail && r.Chance(8) {
			// an empty line
		} else {
			fmt.Fprintf(&b, "L%d", l)
			if r.Chance(30) {
				b.WriteString(" xx")
			}
		}
		if l < lastEnd+trail {
			b.WriteByte('\n')
		}
	}
	// the final line keeps its terminator unless the chunk ends at an unterminated end of file
	if trail == ctx {
		if r.Chance(85) {
			b.WriteByte('\n')
		}
	} else if r.Chance(50) {
		b.WriteByte('\n')
	}
	well := true
	cm := zoekt.ChunkMatch{
		Content:      b.Bytes(),
		ContentStart: zoekt.Location{LineNumber: uint32(F), Column: 1},
		Ranges:       ranges,
	}
	if r.Chance(40) {
		cm.SymbolInfo = make([]*zoekt.Symbol, len(ranges))
		for i := range cm.SymbolInfo {
			if r.Bool() {
				cm.SymbolInfo[i] = &zoekt.Symbol{Sym: fmt.Sprint("s", ranges[i].Start.ByteOffset)}
			}
		}
	}
	if !wellFormedOnly && r.Chance(30) {
		well = false
		switch r.Intn(3) {
		case 0: // decreasing end lines
			cm.Ranges[len(cm.Ranges)-1].End.LineNumber = cm.Ranges[0].End.LineNumber - uint32(r.Intn(2))
		case 1: // content with too few newlines
			cm.Content = bytes.ReplaceAll(cm.Content, []byte("\n"), []byte(" "))
		case 2:
			cm.Content = nil
		}
	}
	return cm, well
}

func (g *vf22Gen) score() float64 {
	for {
		s := 600 + g.r.Intn(900)
		if g.r.Chance(40) || (g.diverse && g.r.Chance(70)) {
			s = 950 + g.r.Intn(120)
		}
		if !g.scores[s] {
			g.scores[s] = true
			return float64(s)
		}
	}
}

// file generator. well=false if any chunk is malformed.
func (g *vf22Gen) file(chunkMode bool, ctx int, malformed bool) (zoekt.FileMatch, bool) {
	r := g.r
	g.nextID++
	id := g.nextID
	ext := vf22Exts[0]
	if r.Chance(45) || g.diverse {
		ext = r.Pick(vf22Exts)
	}
	fm := zoekt.FileMatch{FileName: fmt.Sprintf("d/f%d%s", id, ext), Score: g.score(), RepositoryID: uint32(id)}
	well := true
	both := malformed && r.Chance(10)
	if !chunkMode || both {
		nl := 1 + r.Intn(4)
		if malformed && r.Chance(5) {
			nl = 0
		}
		for i := 0; i < nl; i++ {
			g.nextID++
			lm := zoekt.LineMatch{LineNumber: int(g.nextID)}
			nf := 1 + r.Intn(3)
			if malformed && r.Chance(5) {
				nf = 0
			}
			for j := 0; j < nf; j++ {
				g.nextID++
				lm.LineFragments = append(lm.LineFragments, zoekt.LineFragmentMatch{Offset: uint32(g.nextID), MatchLength: 1})
			}
			fm.LineMatches = append(fm.LineMatches, lm)
		}
	}
	if chunkMode || both {
		nc := 1 + r.Intn(3)
		if malformed && r.Chance(5) {
			nc = 0
		}
		for i := 0; i < nc; i++ {
			cm, w := g.chunk(ctx, !malformed)
			well = well && w
			fm.ChunkMatches = append(fm.ChunkMatches, cm)
		}
	}
	return fm, well
}

func vf22CopyFiles(fs []zoekt.FileMatch) []zoekt.FileMatch {
	out := make([]zoekt.FileMatch, len(fs))
	for i, f := range fs {
		g := f
		g.LineMatches = make([]zoekt.LineMatch, len(f.LineMatches))
		for j, lm := range f.LineMatches {
			l2 := lm
			l2.LineFragments = append([]zoekt.LineFragmentMatch(nil), lm.LineFragments...)
			g.LineMatches[j] = l2
		}
		if f.LineMatches == nil {
			g.LineMatches = nil
		}
		g.ChunkMatches = make([]zoekt.ChunkMatch, len(f.ChunkMatches))
		for j, cm := range f.ChunkMatches {
			c2 := cm
			c2.Content = append([]byte(nil), cm.Content...)
			c2.Ranges = append([]zoekt.Range(nil), cm.Ranges...)
			if cm.SymbolInfo != nil {
				c2.SymbolInfo = append([]*zoekt.Symbol{}, cm.SymbolInfo...)
			}
			g.ChunkMatches[j] = c2
		}
		if f.ChunkMatches == nil {
			g.ChunkMatches = nil
		}
		out[i] = g
	}
	return out
}

// ---- Coq serialisation
func vf22CoqFile(f *zoekt.FileMatch) string {
	var ls, cs []string
	for _, lm := range f.LineMatches {
		var fr []uint64
		for _, x := range lm.LineFragments {
			fr = append(fr, uint64(x.Offset))
		}
		ls = append(ls, cTuple(cN(uint64(lm.LineNumber)), cNList(fr)))
	}
	for _, cm := range f.ChunkMatches {
		var rs []string
		for _, x := range cm.Ranges {
			rs = append(rs, cTuple(cN(uint64(x.Start.ByteOffset)), cN(uint64(x.End.LineNumber))))
		}
		rl := "(@nil (N*N))"
		if len(rs) > 0 {
			rl = cList(rs)
		}
		cs = append(cs, cTuple(cBytes(cm.Content), rl, cBool(cm.SymbolInfo != nil)))
	}
	lsT, csT := "(@nil rline)", "(@nil rchunk)"
	if len(ls) > 0 {
		lsT = cList(ls)
	}
	if len(cs) > 0 {
		csT = cList(cs)
	}
	return cTuple(cN(uint64(f.RepositoryID)), cZ(int64(f.Score)), cN(vf22ExtID(f.FileName)), lsT, csT)
}

func vf22CoqFiles(fs []zoekt.FileMatch) string {
	if len(fs) == 0 {
		return "(@nil rfile)"
	}
	xs := make([]string, len(fs))
	for i := range fs {
		xs[i] = vf22CoqFile(&fs[i])
	}
	return cList(xs)
}

func vf22CoqBatches(bs [][]zoekt.FileMatch) string {
	if len(bs) == 0 {
		return "(@nil (list rfile))"
	}
	xs := make([]string, len(bs))
	for i := range bs {
		xs[i] = vf22CoqFiles(bs[i])
	}
	return cList(xs)
}

type vf22Out struct {
	files   []zoekt.FileMatch
	hasMore bool
}

func vf22CoqCase(mode int, opts *zoekt.SearchOptions, batches [][]zoekt.FileMatch, outs []vf22Out, panicked bool) string {
	obs := "None"
	if !panicked {
		xs := make([]string, len(outs))
		for i, o := range outs {
			xs[i] = cTuple(vf22CoqFiles(o.files), cBool(o.hasMore))
		}
		l := "(@nil (list rfile * bool))"
		if len(xs) > 0 {
			l = cList(xs)
		}
		obs = cSome(l)
	}
	return cTuple(cN(uint64(mode)),
		cTuple(cZ(int64(opts.MaxDocDisplayCount)), cZ(int64(opts.MaxMatchDisplayCount)), cBool(opts.ChunkMatches)),
		vf22CoqBatches(batches), obs)
}

// ---- Go-side oracle: [got] must be the display-limited beginning of the ranked list [ranked]
// (ranked = unlimited result, deep copy).  Returns failure keys with explanations.
func vf22Lines(content []byte) []string {
	if len(content) == 0 {
		return nil
	}
	s := string(content)
	s = strings.TrimSuffix(s, "\n")
	return strings.Split(s, "\n")
}

func vf22MatchCount(f *zoekt.FileMatch, chunkMode bool) int {
	n := 0
	if chunkMode {
		for _, cm := range f.ChunkMatches {
			n += len(cm.Ranges)
		}
	} else {
		for _, lm := range f.LineMatches {
			n += len(lm.LineFragments)
		}
	}
	return n
}

type vf22Fail struct{ key, what string }

// ctx < 0: do not check chunk content (malformed input)
func vf22OraclePrefix(ranked, got []zoekt.FileMatch, opts *zoekt.SearchOptions, ctx int) []vf22Fail {
	var fails []vf22Fail
	add := func(k, w string) { fails = append(fails, vf22Fail{k, w}) }
	chunkMode := opts.ChunkMatches
	D, M := opts.MaxDocDisplayCount, opts.MaxMatchDisplayCount
	if D > 0 && len(got) > D {
		add("limit:doc-count-exceeded", fmt.Sprintf("%d files returned with MaxDocDisplayCount=%d", len(got), D))
	}
	total := 0
	for i := range got {
		total += vf22MatchCount(&got[i], chunkMode)
	}
	if M > 0 && total > M {
		add("limit:match-count-exceeded", fmt.Sprintf("%d matches returned with MaxMatchDisplayCount=%d", total, M))
	}
	// expected sizes: brute force over the flattened ranked list
	wantFiles := len(ranked)
	if D > 0 && wantFiles > D {
		wantFiles = D
	}
	wantTotal := 0
	cutFiles := wantFiles
	for i := 0; i < wantFiles; i++ {
		wantTotal += vf22MatchCount(&ranked[i], chunkMode)
		if M > 0 && wantTotal >= M {
			wantTotal = M
			cutFiles = i + 1
			break
		}
	}
	if len(got) != cutFiles {
		add("prefix:file-count", fmt.Sprintf("got %d files, the ranked prefix under the limits has %d", len(got), cutFiles))
	}
	if total != wantTotal {
		add("prefix:match-total", fmt.Sprintf("got %d matches, the ranked prefix under the limits has %d", total, wantTotal))
	}
	for i := range got {
		if i >= len(ranked) {
			break
		}
		g, w := &got[i], &ranked[i]
		if g.FileName != w.FileName || g.Repository != w.Repository || g.Score != w.Score {
			add("prefix:file-order", fmt.Sprintf("file %d is %s (score %v), ranked result has %s (score %v)", i, g.FileName, g.Score, w.FileName, w.Score))
			continue
		}
		if !chunkMode {
			if len(g.LineMatches) > len(w.LineMatches) {
				add("prefix:line-matches", "more line matches than ranked result")
				continue
			}
			for j := range g.LineMatches {
				gl, wl := g.LineMatches[j], w.LineMatches[j]
				if gl.LineNumber != wl.LineNumber || len(gl.LineFragments) > len(wl.LineFragments) {
					add("prefix:line-matches", fmt.Sprintf("file %s line match %d is not the leading line match", g.FileName, j))
					continue
				}
				if len(gl.LineFragments) < len(wl.LineFragments) && (j != len(g.LineMatches)-1 || i != len(got)-1) {
					add("prefix:line-matches", "a line match other than the last one was cut")
				}
				for k := range gl.LineFragments {
					if gl.LineFragments[k] != wl.LineFragments[k] {
						add("prefix:line-fragments", "fragments differ from the leading fragments")
					}
				}
			}
			if len(g.LineMatches) < len(w.LineMatches) && i != len(got)-1 {
				add("prefix:line-matches", "a file other than the last one was cut")
			}
			continue
		}
		if len(g.ChunkMatches) > len(w.ChunkMatches) {
			add("prefix:chunk-matches", "more chunk matches than ranked result")
			continue
		}
		if len(g.ChunkMatches) < len(w.ChunkMatches) && i != len(got)-1 {
			add("prefix:chunk-matches", "a file other than the last one was cut")
		}
		for j := range g.ChunkMatches {
			gc, wc := &g.ChunkMatches[j], &w.ChunkMatches[j]
			if len(gc.Ranges) > len(wc.Ranges) || len(gc.Ranges) == 0 && len(wc.Ranges) > 0 {
				add("prefix:chunk-ranges", "ranges are not a non-empty prefix")
				continue
			}
			okr := true
			for k := range gc.Ranges {
				if gc.Ranges[k] != wc.Ranges[k] {
					okr = false
				}
			}
			if !okr {
				add("prefix:chunk-ranges", "ranges differ from the leading ranges")
				continue
			}
			if (gc.SymbolInfo == nil) != (wc.SymbolInfo == nil) || gc.SymbolInfo != nil && len(gc.SymbolInfo) != len(gc.Ranges) {
				add("chunk:symbolinfo-length", "SymbolInfo is not nil/len(Ranges) long")
			} else {
				for k := range gc.SymbolInfo {
					if gc.SymbolInfo[k] != wc.SymbolInfo[k] {
						add("chunk:symbolinfo-length", "SymbolInfo differs from the leading entries")
					}
				}
			}
			if len(gc.Ranges) < len(wc.Ranges) && (j != len(g.ChunkMatches)-1 || i != len(got)-1) {
				add("prefix:chunk-ranges", "a chunk other than the very last one was cut")
			}
			if gc.ContentStart != wc.ContentStart {
				add("chunk:content-start", "ContentStart changed")
			}
			if ctx < 0 {
				continue
			}
			// whole lines covering the remaining ranges plus the requested context (as far as the
			// original chunk has it)
			wl := vf22Lines(wc.Content)
			gl := vf22Lines(gc.Content)
			if len(gc.Ranges) == len(wc.Ranges) {
				if !bytes.Equal(gc.Content, wc.Content) {
					add("chunk:content-changed-without-cut", "content of an uncut chunk changed")
				}
				continue
			}
			F := int(wc.ContentStart.LineNumber)
			newLast := int(gc.Ranges[len(gc.Ranges)-1].End.LineNumber)
			oldLast := int(wc.Ranges[len(wc.Ranges)-1].End.LineNumber)
			wantN := newLast - F + 1 + ctx
			if wantN > len(wl) {
				wantN = len(wl)
			}
			hadNL := bytes.HasSuffix(wc.Content, []byte("\n"))
			origTrail := len(wl) - (oldLast - F + 1)
			mk := func(n int, term bool) string {
				if n > len(wl) {
					n = len(wl)
				}
				if n < 0 {
					n = 0
				}
				s := strings.Join(wl[:n], "\n")
				if term {
					s += "\n"
				}
				return s
			}
			_ = gl
			got := string(gc.Content)
			switch {
			case got == mk(wantN, hadNL):
				// whole leading lines; the terminator of the last line is kept iff the original chunk had one
			case hadNL && newLast < oldLast && wantN+1 <= len(wl) && got == mk(wantN+1, false):
				add("chunk:trim-trailing-newline-extra-line", fmt.Sprintf("content %q (last range ends on line %d, %d context lines) cut to %d ranges became %q instead of %q", wc.Content, oldLast, ctx, len(gc.Ranges), gc.Content, mk(wantN, true)))
			case origTrail < ctx && got == mk(newLast-F+1+origTrail, hadNL):
				add("chunk:context-short-when-chunk-was-clamped-at-eof", fmt.Sprintf("content %q has only %d of %d trailing context lines (end of file); cut to %d ranges it keeps %d context lines though %d are available: %q", wc.Content, origTrail, ctx, len(gc.Ranges), origTrail, wantN-(newLast-F+1), gc.Content))
			default:
				add("chunk:content-wrong", fmt.Sprintf("content %q cut to %d ranges became %q, want %q", wc.Content, len(gc.Ranges), gc.Content, mk(wantN, hadNL)))
			}
		}
	}
	return fails
}

func vf22Describe(fs []zoekt.FileMatch, chunkMode bool) []map[string]any {
	var out []map[string]any
	for i := range fs {
		f := &fs[i]
		m := map[string]any{"name": f.FileName, "score": f.Score}
		if chunkMode {
			var cs []map[string]any
			for _, cm := range f.ChunkMatches {
				var ends []int
				for _, r := range cm.Ranges {
					ends = append(ends, int(r.End.LineNumber))
				}
				cs = append(cs, map[string]any{"content": string(cm.Content), "start_line": cm.ContentStart.LineNumber, "range_end_lines": ends, "symbolinfo": cm.SymbolInfo != nil})
			}
			m["chunks"] = cs
		} else {
			var ls []int
			for _, lm := range f.LineMatches {
				ls = append(ls, len(lm.LineFragments))
			}
			m["line_fragments"] = ls
		}
		out = append(out, m)
	}
	return out
}

func vf22SortedByScore(fs []zoekt.FileMatch) bool {
	return sort.SliceIsSorted(fs, func(i, j int) bool { return fs[i].Score > fs[j].Score })
}
