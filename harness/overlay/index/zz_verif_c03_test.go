package index

// C03 correspondence + oracle: line / chunk / column arithmetic of contentprovider.go.
//  (1) direct calls of the unexported helpers (newLinesIndices, newlines.atOffset/lineStart/
//      offsetRangeToLineRange/getLines, columnHelper.get, breakMatchesOnNewlines, chunkCandidates,
//      contentProvider.fillMatches / fillContentMatches / fillChunkMatches on a tiny shard),
//  (2) end-to-end Search (LineMatches and ChunkMatches modes, context 0..3) on tiny shards.
// Every case carries the inputs and the implementation's observed outputs as one Coq term of type
// c03case (coq/Model/Lines.v). Independently the Go oracle below re-derives every reported field from the
// raw content. Mapped into /repo/index by `go test -overlay`.

import (
	"bytes"
	"context"
	"fmt"
	"sort"
	"strings"
	"testing"
	"unicode/utf8"

	"github.com/sourcegraph/zoekt"
	"github.com/sourcegraph/zoekt/query"
)

type vfC03Mem struct{ data []byte }

func (s *vfC03Mem) Name() string { return "vfmem" }
func (s *vfC03Mem) Close()       {}
func (s *vfC03Mem) Read(off, sz uint32) ([]byte, error) {
	if uint64(off)+uint64(sz) > uint64(len(s.data)) {
		return nil, fmt.Errorf("read past end")
	}
	return s.data[off : off+sz], nil
}
func (s *vfC03Mem) Size() (uint32, error) { return uint32(len(s.data)), nil }

func vfC03Searcher(t *testing.T, docs []Document) zoekt.Searcher {
	b, err := NewShardBuilder(&zoekt.Repository{Name: "r"})
	if err != nil {
		t.Fatal(err)
	}
	for _, d := range docs {
		if err := b.Add(d); err != nil {
			t.Fatal(err)
		}
	}
	var buf bytes.Buffer
	if err := b.Write(&buf); err != nil {
		t.Fatal(err)
	}
	s, err := NewSearcher(&vfC03Mem{buf.Bytes()})
	if err != nil {
		t.Fatal(err)
	}
	return s
}

var vfC03Words = []string{"foo", "bar", "fo", "o", "foobar", "x", "main", "aa", "aaa", "é", "世界", "😀", "func", "Foo", "BAR", "ß"}

// layout generator: 0..7 lines; empty lines, CRLF, multi-byte runes, optional trailing newline,
// sometimes invalid UTF-8 bytes.
func vfC03GenContent(r *vfRand, allowInvalid bool) []byte {
	var b bytes.Buffer
	nl := r.Intn(8)
	crlf := r.Chance(15)
	for i := 0; i < nl; i++ {
		nw := r.Intn(5)
		if r.Chance(20) {
			nw = 0
		}
		for j := 0; j < nw; j++ {
			b.WriteString(r.Pick(vfC03Words))
			if r.Chance(60) {
				b.WriteByte(' ')
			}
			if allowInvalid && r.Chance(4) {
				b.WriteByte([]byte{0xC3, 0xFF, 0xA9, 0xE2, 0xF0}[r.Intn(5)])
			}
		}
		if i < nl-1 || r.Chance(60) {
			if crlf {
				b.WriteByte('\r')
			}
			b.WriteByte('\n')
		}
	}
	if r.Chance(5) {
		b.WriteString("\n\n")
	}
	out := b.Bytes()
	return out[:len(out):len(out)] // no spare capacity: slicing past len must panic as it would on shard data
}

func vfC03Class(content []byte) []string {
	var cl []string
	if len(content) == 0 {
		cl = append(cl, "empty")
	} else if content[len(content)-1] != '\n' {
		cl = append(cl, "no-trailing-nl")
	}
	if bytes.Contains(content, []byte("\n\n")) || bytes.HasPrefix(content, []byte("\n")) {
		cl = append(cl, "empty-line")
	}
	if bytes.Contains(content, []byte("\r\n")) {
		cl = append(cl, "crlf")
	}
	if !utf8.Valid(content) {
		cl = append(cl, "invalid-utf8")
	} else if utf8.RuneCount(content) != len(content) {
		cl = append(cl, "multibyte")
	}
	return cl
}

func vfC03Locs(content []byte) []uint64 {
	var o []uint64
	for i, c := range content {
		if c == '\n' {
			o = append(o, uint64(i))
		}
	}
	return o
}

// ---- brute-force reference used by the oracle (independent of the code under test)

// line n (1-based) of content occupies [vfLineStart(n), vfLineStart(n+1)); the terminating newline
// belongs to the line; the number of lines is #newlines+1 (the last one may be empty).
func vfLineStart(content []byte, n int) int {
	if n <= 1 {
		return 0
	}
	seen := 0
	for i, c := range content {
		if c == '\n' {
			seen++
			if seen == n-1 {
				return i + 1
			}
		}
	}
	return len(content)
}
func vfNumLines(content []byte) int { return bytes.Count(content, []byte{'\n'}) + 1 }
func vfLineOf(content []byte, off int) int {
	if off > len(content) {
		off = len(content)
	}
	return bytes.Count(content[:off], []byte{'\n'}) + 1
}
func vfLines(content []byte, lo, hi int) []byte { // lines [lo,hi) clamped to the file
	if lo < 1 {
		lo = 1
	}
	if hi > vfNumLines(content)+1 {
		hi = vfNumLines(content) + 1
	}
	if lo >= hi {
		return nil
	}
	return content[vfLineStart(content, lo):vfLineStart(content, hi)]
}

type vfCand struct {
	fn      bool
	off, sz uint32
}

func vfCandsCoq(cs []vfCand) string {
	if len(cs) == 0 {
		return "[]"
	}
	var xs []string
	for _, c := range cs {
		xs = append(xs, cTuple(cBool(c.fn), cN(uint64(c.off)), cN(uint64(c.sz))))
	}
	return cList(xs)
}
func vfCandsStr(cs []vfCand) string { return fmt.Sprint(cs) }

func vfLmCoq(lms []zoekt.LineMatch) string {
	if len(lms) == 0 {
		return "[]"
	}
	var rows []string
	for _, lm := range lms {
		fr := "[]"
		if len(lm.LineFragments) > 0 {
			var fs []string
			for _, f := range lm.LineFragments {
				fs = append(fs, cTuple(cZ(int64(f.LineOffset)), cN(uint64(f.Offset)), cN(uint64(f.MatchLength))))
			}
			fr = cList(fs)
		}
		rows = append(rows, cTuple(cBytes(lm.Line), cN(uint64(lm.LineStart)), cN(uint64(lm.LineEnd)), cZ(int64(lm.LineNumber)),
			cBytes(lm.Before), cBytes(lm.After), cBool(lm.FileName), fr))
	}
	return cList(rows)
}
func vfLocCoq(l zoekt.Location) string {
	return cTuple(cN(uint64(l.ByteOffset)), cZ(int64(l.LineNumber)), cN(uint64(l.Column)))
}
func vfCmCoq(cms []zoekt.ChunkMatch) string {
	if len(cms) == 0 {
		return "[]"
	}
	var rows []string
	for _, cm := range cms {
		rg := "[]"
		if len(cm.Ranges) > 0 {
			var rs []string
			for _, x := range cm.Ranges {
				rs = append(rs, cTuple(vfLocCoq(x.Start), vfLocCoq(x.End)))
			}
			rg = cList(rs)
		}
		rows = append(rows, cTuple(cBytes(cm.Content), vfLocCoq(cm.ContentStart), rg, cBool(cm.FileName)))
	}
	return cList(rows)
}

// ---- the property oracle on API-level results -------------------------------------------------

// vfC03CheckLines checks the LineMatches of one file (content / name) with `ctx` context lines.
// singleLine: the fragments are known not to contain newlines (always true for Search results).
func vfC03CheckLines(fail func(key, what string), content, name []byte, ctx int, lms []zoekt.LineMatch, singleLine bool) {
	seen := map[int]bool{}
	for _, lm := range lms {
		if lm.FileName {
			if !bytes.Equal(lm.Line, name) {
				fail("line:filename-text", "file-name match does not report the file name as its text")
			}
			for _, f := range lm.LineFragments {
				if int(f.Offset)+f.MatchLength > len(name) || f.LineOffset != int(f.Offset) {
					fail("line:filename-fragment", "file-name fragment outside the name / LineOffset != Offset")
				}
			}
			continue
		}
		if lm.LineStart < 0 || lm.LineStart > lm.LineEnd || lm.LineEnd > len(content) {
			fail("line:bounds", "LineStart/LineEnd outside the file")
			continue
		}
		if !bytes.Equal(lm.Line, content[lm.LineStart:lm.LineEnd]) {
			fail("line:text", "Line != content[LineStart:LineEnd]")
		}
		if lm.LineStart != 0 && content[lm.LineStart-1] != '\n' {
			fail("line:start-not-line-start", "LineStart is not at the beginning of a line")
		}
		if lm.LineEnd != len(content) && (lm.LineEnd == 0 || content[lm.LineEnd-1] != '\n') {
			fail("line:end-not-line-end", "LineEnd is neither the byte after a newline nor the end of the file")
		}
		if lm.LineNumber != vfLineOf(content, lm.LineStart) || lm.LineStart != vfLineStart(content, lm.LineNumber) {
			fail("line:number", "LineNumber does not agree with LineStart")
		}
		if singleLine && lm.LineEnd != vfLineStart(content, lm.LineNumber+1) {
			fail("line:not-single-line", "the reported line is not exactly one line")
		}
		if seen[lm.LineNumber] {
			fail("line:duplicate-line", "the same line is reported twice")
		}
		seen[lm.LineNumber] = true
		if len(lm.LineFragments) == 0 {
			fail("line:no-fragments", "line match without fragments")
		}
		for _, f := range lm.LineFragments {
			if int(f.Offset) < lm.LineStart || int(f.Offset)+f.MatchLength > lm.LineEnd || f.LineOffset != int(f.Offset)-lm.LineStart {
				fail("line:fragment", "fragment not inside its line / LineOffset wrong")
			}
		}
		var wb, wa []byte
		if ctx > 0 {
			wb = vfLines(content, lm.LineNumber-ctx, lm.LineNumber)
			wa = vfLines(content, lm.LineNumber+1, lm.LineNumber+1+ctx)
		}
		if !bytes.Equal(lm.Before, wb) {
			fail("line:before", fmt.Sprintf("Before is not exactly the %d preceding lines (fewer only at the file start)", ctx))
		}
		if !bytes.Equal(lm.After, wa) {
			fail("line:after", fmt.Sprintf("After is not exactly the %d following lines (fewer only at the file end)", ctx))
		}
	}
}

// vfC03CheckChunks checks the ChunkMatches of one file; cms must be in ContentStart order.
func vfC03CheckChunks(fail func(key, what string), content, name []byte, ctx int, cms []zoekt.ChunkMatch, checkCols bool) {
	prevEnd := -1
	prevLast := 0
	for i, cm := range cms {
		if cm.FileName {
			if !bytes.Equal(cm.Content, name) {
				fail("chunk:filename-text", "file-name chunk does not report the file name as its content")
			}
			if cm.ContentStart != (zoekt.Location{ByteOffset: 0, LineNumber: 1, Column: 1}) {
				fail("chunk:filename-start", "file-name chunk does not start at 0/1/1")
			}
			for _, rg := range cm.Ranges {
				for _, l := range []zoekt.Location{rg.Start, rg.End} {
					if int(l.ByteOffset) > len(name) || l.LineNumber != 1 || int(l.Column) != utf8.RuneCount(name[:l.ByteOffset])+1 {
						fail("chunk:filename-range", "file-name range location disagrees with the name")
					}
				}
			}
			continue
		}
		st := int(cm.ContentStart.ByteOffset)
		en := st + len(cm.Content)
		if en > len(content) || !bytes.Equal(cm.Content, content[st:en]) {
			fail("chunk:text", "Content != content[ContentStart : +len]")
			continue
		}
		if st != 0 && content[st-1] != '\n' {
			fail("chunk:start-not-line-start", "chunk does not start at a line start")
		}
		if en != len(content) && (en == 0 || content[en-1] != '\n') {
			fail("chunk:end-not-line-end", "chunk does not end at a line end")
		}
		if int(cm.ContentStart.LineNumber) != vfLineOf(content, st) || cm.ContentStart.Column != 1 || st != vfLineStart(content, int(cm.ContentStart.LineNumber)) {
			fail("chunk:start-location", "ContentStart line/column disagree with its byte offset")
		}
		if len(cm.Ranges) == 0 {
			fail("chunk:no-ranges", "chunk without ranges")
			continue
		}
		first, last := 1<<30, 0
		for _, rg := range cm.Ranges {
			s, e := int(rg.Start.ByteOffset), int(rg.End.ByteOffset)
			if s > e || s < st || e > en {
				fail("chunk:range-outside", "range not contained in its chunk")
				continue
			}
			sl := vfLineOf(content, s)
			el := sl
			if e > s {
				el = vfLineOf(content, e-1)
			}
			if int(rg.Start.LineNumber) != sl {
				fail("chunk:range-start-line", "range start line disagrees with its byte offset")
			}
			if int(rg.End.LineNumber) != el {
				fail("chunk:range-end-line", "range end line is not the line of the last byte of the range")
			}
			if checkCols && int(rg.Start.Column) != utf8.RuneCount(content[vfLineStart(content, sl):s])+1 {
				fail("chunk:range-start-column", "range start column disagrees with its byte offset")
			}
			els := vfLineStart(content, int(rg.End.LineNumber))
			if checkCols && els <= e && int(rg.End.Column) != utf8.RuneCount(content[els:e])+1 {
				fail("chunk:range-end-column", "range end column disagrees with its byte offset")
			}
			if sl < first {
				first = sl
			}
			if el > last {
				last = el
			}
		}
		// 0 = no line scored above zero (scoring itself belongs to C22/C29)
		if BL := int(cm.BestLineMatch); BL != 0 && (BL < first || BL > last) {
			fail("chunk:best-line", "BestLineMatch is not a line holding a range of the chunk")
		}
		wantFirst := first - ctx
		if wantFirst < 1 {
			wantFirst = 1
		}
		if int(cm.ContentStart.LineNumber) != wantFirst {
			fail("chunk:context-before", fmt.Sprintf("chunk does not start exactly %d lines before its first range", ctx))
		}
		if en != vfLineStart(content, last+ctx+1) {
			fail("chunk:context-after", fmt.Sprintf("chunk does not end exactly %d lines after its last range", ctx))
		}
		if i > 0 && prevEnd >= 0 {
			if st < prevEnd {
				fail("chunk:overlap", "chunks of one file overlap or are out of order")
			}
			if first-ctx <= prevLast+ctx {
				fail("chunk:not-merged", "adjacent chunks whose context touches were not merged")
			}
		}
		prevEnd, prevLast = en, last
	}
}

// every candidate starts and ends on a rune boundary of valid UTF-8 content (what Search produces)
func vfC03OnBoundaries(content []byte, cs []vfCand) bool {
	if !utf8.Valid(content) {
		return false
	}
	for _, c := range cs {
		if c.fn {
			continue
		}
		for _, o := range []int{int(c.off), int(c.off + c.sz)} {
			if o < len(content) && !utf8.RuneStart(content[o]) {
				return false
			}
		}
	}
	return true
}

func vfC03Recover(f func()) (panicked bool) {
	defer func() {
		if recover() != nil {
			panicked = true
		}
	}()
	f()
	return false
}

func vfC03GenCands(r *vfRand, content []byte, sorted bool) []vfCand {
	n := len(content)
	k := r.Intn(6)
	var cs []vfCand
	if sorted {
		pos := 0
		for i := 0; i < k && pos <= n; i++ {
			pos += r.Intn(6)
			if pos > n {
				break
			}
			sz := r.Intn(5)
			if r.Chance(10) {
				sz += r.Intn(12)
			}
			if pos+sz > n {
				sz = n - pos
			}
			cs = append(cs, vfCand{false, uint32(pos), uint32(sz)})
			pos += sz
		}
		return cs
	}
	for i := 0; i < k; i++ {
		off := r.Intn(n + 1)
		sz := r.Intn(6)
		if off+sz > n {
			sz = n - off
		}
		cs = append(cs, vfCand{false, uint32(off), uint32(sz)})
	}
	return cs
}

func vfC03ToCM(cs []vfCand) []*candidateMatch {
	var ms []*candidateMatch
	for _, c := range cs {
		ms = append(ms, &candidateMatch{fileName: c.fn, byteOffset: c.off, byteMatchSz: c.sz, scoreWeight: 1})
	}
	return ms
}

func TestVerifC03(t *testing.T) {
	r := vfNewRand(vfSeed())
	n := vfN(300)
	ctxb := context.Background()

	const batch = 25
	for base := 0; base < n; base += batch {
		// one shard per batch of documents: the direct fill* calls and the end-to-end searches share it
		var docs []Document
		byName := map[string][]byte{}
		for j := 0; j < batch && base+j < n; j++ {
			nm := fmt.Sprintf("%s%d.txt", r.Pick([]string{"foo", "dir/bar", "é", "x", "a/b/世界"}), j)
			c := vfC03GenContent(r, r.Chance(25))
			docs = append(docs, Document{Name: nm, Content: c})
			byName[nm] = c
		}
		s := vfC03Searcher(t, docs)
		d := s.(*indexData)
		docID := map[string]uint32{}
		for k := uint32(0); k < uint32(len(d.fileBranchMasks)); k++ {
			docID[string(d.fileName(k))] = k
		}
		for bi := range docs {
			content := docs[bi].Content
			cl := vfC03Class(content)
			locs := vfC03Locs(content)
			nlines := len(locs) + 1
			key := string(content)
			sample := func(extra string) map[string]any { return map[string]any{"content": string(content), "what": extra} }

			// ---------------- (1) helpers, direct
			{
				got := newLinesIndices(content)
				g := make([]uint64, len(got))
				for k, x := range got {
					g[k] = uint64(x)
				}
				vfCase(cApp("K_nl", cBytes(content), cNList(g)), "nl:"+key, len(g) > 1, append([]string{"K_nl"}, cl...), sample("newLinesIndices"))
				nls := newlines{locs: got, fileSize: uint32(len(content))}
				off := uint32(r.Intn(len(content) + 3))
				line := nls.atOffset(off)
				vfCase(cApp("K_at", cNList(g), cN(uint64(len(content))), cN(uint64(off)), cZ(int64(line))), vfKey("at:", key, off), len(g) > 1, []string{"K_at"}, sample(fmt.Sprint("atOffset ", off)))
				if int(off) <= len(content) && line != vfLineOf(content, int(off)) {
					vfOracleFail("atOffset", "atOffset disagrees with the number of newlines before the offset", map[string]any{"content": string(content), "offset": off, "got": line})
				}
				ln := r.Intn(nlines+5) - 2
				ls := nls.lineStart(ln)
				vfCase(cApp("K_ls", cNList(g), cN(uint64(len(content))), cZ(int64(ln)), cN(uint64(ls))), vfKey("ls:", key, ln), len(g) > 1, []string{"K_ls"}, sample(fmt.Sprint("lineStart ", ln)))
				if int(ls) != vfLineStart(content, ln) {
					vfOracleFail("lineStart", "lineStart disagrees with the content", map[string]any{"content": string(content), "line": ln, "got": ls})
				}
				s := uint32(r.Intn(len(content) + 1))
				e := s + uint32(r.Intn(len(content)-int(s)+1))
				if r.Chance(10) {
					e = s
				}
				l1, l2 := nls.offsetRangeToLineRange(s, e)
				vfCase(cApp("K_rng", cNList(g), cN(uint64(len(content))), cN(uint64(s)), cN(uint64(e)), cZ(int64(l1)), cZ(int64(l2))), vfKey("rng:", key, s, e), len(g) > 1, []string{"K_rng"}, sample(fmt.Sprint("range ", s, e)))
				wl2 := vfLineOf(content, int(s))
				if e > s {
					wl2 = vfLineOf(content, int(e)-1)
				}
				if l1 != vfLineOf(content, int(s)) || l2 != wl2 {
					vfOracleFail("offsetRangeToLineRange", "line range does not contain exactly the byte range", map[string]any{"content": string(content), "s": s, "e": e, "got": []int{l1, l2}})
				}
				low := r.Intn(nlines+5) - 2
				high := r.Intn(nlines+5) - 2
				var gl []byte
				p := vfC03Recover(func() { gl = nls.getLines(content, low, high) })
				res := "None"
				if !p {
					res = cSome(cBytes(gl))
				}
				vfCase(cApp("K_gl", cBytes(content), cZ(int64(low)), cZ(int64(high)), res), vfKey("gl:", key, low, high), low < high && len(g) > 1, []string{"K_gl"}, sample(fmt.Sprint("getLines ", low, high)))
				if p || !bytes.Equal(gl, vfLines(content, low, high)) {
					vfOracleFail("getLines", "getLines does not return exactly the whole lines [low,high)", map[string]any{"content": string(content), "low": low, "high": high, "got": string(gl), "panic": p})
				}
			}
			// utf8.RuneCount on raw bytes (validates the decoding-width table of the model)
			{
				var data []byte
				m := r.Intn(12)
				for k := 0; k < m; k++ {
					switch r.Intn(4) {
					case 0:
						data = append(data, byte(r.Intn(256)))
					case 1:
						data = append(data, []byte(r.Pick(vfC03Words))...)
					case 2:
						data = append(data, []byte{0xE0, 0xED, 0xF0, 0xF4, 0xC2, 0xEF, 0xE1, 0xF1}[r.Intn(8)], []byte{0x80, 0x8F, 0x90, 0x9F, 0xA0, 0xBF, 0x7F, 0xC0}[r.Intn(8)])
					default:
						data = utf8.AppendRune(data, rune(r.Intn(0x110000)))
					}
				}
				vfCase(cApp("K_rc", cBytes(data), cN(uint64(utf8.RuneCount(data)))), "rc:"+string(data), !utf8.Valid(data) || utf8.RuneCount(data) != len(data), []string{"K_rc"}, map[string]any{"data": fmt.Sprintf("%x", data)})
			}
			// columnHelper.get sequences
			{
				ch := columnHelper{data: content}
				k := r.Intn(7)
				var calls, outs []string
				off := 0
				mono := !r.Chance(25)
				allBoundary := utf8.Valid(content)
				for j := 0; j < k; j++ {
					if mono {
						off += r.Intn(5)
					} else {
						off = r.Intn(len(content) + 2)
					}
					if off > len(content) && !r.Chance(10) {
						off = len(content)
					}
					lo := vfLineStart(content, vfLineOf(content, off))
					if r.Chance(10) {
						lo = r.Intn(len(content) + 1)
					}
					var col uint32
					p := vfC03Recover(func() { col = ch.get(lo, uint32(off)) })
					calls = append(calls, cTuple(cN(uint64(lo)), cN(uint64(off))))
					if p {
						outs = append(outs, "None")
						break
					}
					outs = append(outs, cSome(cN(uint64(col))))
					// oracle: only for offsets on rune boundaries of the line (what Search produces)
					if !(lo <= off && off <= len(content) && (off == len(content) || utf8.RuneStart(content[off])) && (lo == 0 || content[lo-1] == '\n')) {
						allBoundary = false
					}
					if allBoundary {
						if int(col) != utf8.RuneCount(content[lo:off])+1 {
							vfOracleFail("column", "columnHelper.get disagrees with a fresh rune count from the line start", map[string]any{"content": string(content), "calls": calls, "got": col})
						}
					}
				}
				cs, os_ := "[]", "[]"
				if len(calls) > 0 {
					cs, os_ = cList(calls), cList(outs)
				}
				vfCase(cApp("K_col", cBytes(content), cs, os_), vfKey("col:", key, calls), len(calls) > 1, append([]string{"K_col"}, cl...), sample(fmt.Sprint("columns ", calls)))
			}
			// breakMatchesOnNewlines, chunkCandidates
			{
				cs := vfC03GenCands(r, content, !r.Chance(20))
				var out []*candidateMatch
				p := vfC03Recover(func() { out = breakMatchesOnNewlines(vfC03ToCM(cs), content) })
				res := "None"
				if !p {
					var oc []vfCand
					for _, m := range out {
						oc = append(oc, vfCand{m.fileName, m.byteOffset, m.byteMatchSz})
						if m.byteMatchSz == 0 || bytes.IndexByte(content[m.byteOffset:m.byteOffset+m.byteMatchSz], '\n') >= 0 {
							vfOracleFail("break:piece", "a piece produced by breakMatchesOnNewlines is empty or contains a newline", map[string]any{"content": string(content), "cands": vfCandsStr(cs)})
						}
					}
					res = cSome(vfCandsCoq(oc))
				}
				vfCase(cApp("K_brk", cBytes(content), vfCandsCoq(cs), res), vfKey("brk:", key, cs), len(out) > len(cs), []string{"K_brk"}, sample("break "+vfCandsStr(cs)))

				ctx := r.Intn(4)
				cs2 := vfC03GenCands(r, content, !r.Chance(15))
				nls := newlines{locs: newLinesIndices(content), fileSize: uint32(len(content))}
				chunks := chunkCandidates(vfC03ToCM(cs2), nls, ctx)
				var rows []string
				for _, c := range chunks {
					rows = append(rows, cTuple(cZ(int64(c.firstLine)), cZ(int64(c.lastLine)), cN(uint64(c.minOffset)), cN(uint64(c.maxOffset)), cN(uint64(len(c.candidates)))))
				}
				rs := "[]"
				if len(rows) > 0 {
					rs = cList(rows)
				}
				vfCase(cApp("K_chunk", cBytes(content), cZ(int64(ctx)), vfCandsCoq(cs2), rs), vfKey("chunk:", key, ctx, cs2), len(chunks) > 1 || (len(chunks) == 1 && len(cs2) > 1),
					[]string{"K_chunk", fmt.Sprint("ctx=", ctx)}, sample("chunkCandidates "+vfCandsStr(cs2)))
			}

			// ---------------- (2) fillMatches / fillChunkMatches directly on a tiny shard, arbitrary candidates
			name := []byte(docs[bi].Name)
			{
				opts := &zoekt.SearchOptions{}
				ctx := r.Intn(4)
				sorted := !r.Chance(25)
				cs := vfC03GenCands(r, content, sorted)
				if r.Chance(10) { // file-name candidates only
					cs = nil
					for j := r.Intn(3) + 1; j > 0; j-- {
						o := r.Intn(len(name))
						cs = append(cs, vfCand{true, uint32(o), uint32(r.Intn(len(name) - o + 1))})
					}
					sort.Slice(cs, func(a, b int) bool { return cs[a].off < cs[b].off })
				} else if r.Chance(15) {
					cs = append([]vfCand{{true, 0, uint32(len(name))}}, cs...)
				}
				if len(cs) > 0 {
					nonOverlap := sorted
					fail := func(mode string) func(key, what string) {
						return func(k, what string) {
							vfOracleFail("direct:"+mode+":"+k, what, map[string]any{"content": string(content), "name": string(name), "ctx": ctx, "cands": vfCandsStr(cs)})
						}
					}
					// line mode
					direct := r.Chance(40)
					hasContent := false
					for _, c := range cs {
						if !c.fn {
							hasContent = true
						}
					}
					var lms []zoekt.LineMatch
					cp := &contentProvider{id: d, stats: &zoekt.Stats{}}
					cp.setDocument(docID[string(name)])
					p := vfC03Recover(func() {
						if direct && hasContent {
							var only []vfCand
							for _, c := range cs {
								if !c.fn {
									only = append(only, c)
								}
							}
							lms = cp.fillContentMatches(vfC03ToCM(only), ctx, "", opts)
						} else {
							direct = false
							lms = cp.fillMatches(vfC03ToCM(cs), ctx, "", opts)
						}
					})
					res := "None"
					// fillContentMatches on its own (candidates may span lines): C03_line_match_multiline applies to
					// non-empty, in-bounds, sorted, non-overlapping content candidates
					multiOK := direct && nonOverlap
					for _, c := range cs {
						if !c.fn && c.sz == 0 {
							multiOK = false
						}
					}
					if !p {
						res = cSome(vfLmCoq(lms))
						if nonOverlap && !direct {
							vfC03CheckLines(fail("line"), content, name, ctx, lms, true)
						}
						if multiOK {
							vfC03CheckLines(fail("line-multi"), content, name, ctx, lms, false)
							for _, lm := range lms {
								if len(lm.LineFragments) == 0 {
									continue
								}
								first, last := lm.LineFragments[0], lm.LineFragments[len(lm.LineFragments)-1]
								nl := max(lm.LineNumber, vfLineOf(content, int(last.Offset)+last.MatchLength-1))
								if lm.LineNumber != vfLineOf(content, int(first.Offset)) {
									fail("line-multi")("first-fragment-line", "LineNumber is not the line of the first fragment")
								}
								if lm.LineEnd != vfLineStart(content, nl+1) {
									fail("line-multi")("extension", "Line does not end with the line that holds the last byte of its last fragment")
								}
							}
						}
					} else if !direct {
						fail("line")("panic", "fillMatches panicked on in-bounds candidates")
					} else if multiOK {
						fail("line-multi")("panic", "fillContentMatches panicked on non-empty, in-bounds, sorted, non-overlapping candidates")
					}
					csl := cs
					if direct {
						csl = nil
						for _, c := range cs {
							if !c.fn {
								csl = append(csl, c)
							}
						}
					}
					vfCase(cApp("K_lm", cBytes(content), cBytes(name), cZ(int64(ctx)), cBool(direct), vfCandsCoq(csl), res), vfKey("lm:", key, string(name), ctx, direct, cs), len(lms) > 0,
						append([]string{"K_lm", fmt.Sprint("ctx=", ctx), fmt.Sprint("direct=", direct)}, cl...), sample("fillMatches "+vfCandsStr(csl)))
					// chunk mode
					var cms []zoekt.ChunkMatch
					cp2 := &contentProvider{id: d, stats: &zoekt.Stats{}}
					cp2.setDocument(docID[string(name)])
					p = vfC03Recover(func() { cms = cp2.fillChunkMatches(vfC03ToCM(cs), ctx, "", opts) })
					res = "None"
					if !p {
						res = cSome(vfCmCoq(cms))
						if nonOverlap {
							vfC03CheckChunks(fail("chunk"), content, name, ctx, cms, vfC03OnBoundaries(content, cs))
						}
					} else {
						fail("chunk")("panic", "fillChunkMatches panicked on in-bounds candidates")
					}
					vfCase(cApp("K_cm", cBytes(content), cBytes(name), cZ(int64(ctx)), vfCandsCoq(cs), res), vfKey("cm:", key, string(name), ctx, cs), len(cms) > 0 && len(cs) > 1,
						append([]string{"K_cm", fmt.Sprint("ctx=", ctx), fmt.Sprint("chunks=", len(cms))}, cl...), sample("fillChunkMatches "+vfCandsStr(cs)))
				}
			}

		} // per-document loop

		// ---------------- (3) end-to-end Search on the batch shard
		for qi := 0; qi < 6; qi++ {
			qs := r.Pick([]string{"foo", "bar", "o", "fo", "aa", "case:yes Foo", "case:no foo", "é", "世", "😀", "ß",
				"fo+", "o.b", "[a-z]+", "a+", "(?s)o.b", "\\s+", "o\\n", "\\n", "foo|bar", "f:foo", "f:é", "f:txt o", "foo or f:bar", "x or aa", "main func", "r\\n\\n?f"})
			q, err := query.Parse(qs)
			if err != nil {
				t.Fatalf("parse %q: %v", qs, err)
			}
			ctx := r.Intn(4)
			for _, chunkMode := range []bool{false, true} {
				res, err := s.Search(ctxb, q, &zoekt.SearchOptions{ChunkMatches: chunkMode, NumContextLines: ctx})
				if err != nil {
					t.Fatalf("search %q: %v", qs, err)
				}
				for _, fm := range res.Files {
					c := byName[fm.FileName]
					nm := []byte(fm.FileName)
					fail := func(k, what string) {
						vfOracleFail(fmt.Sprintf("search:%v:%s", chunkMode, k), what, map[string]any{"docs": vfC03DocsReplay(docs), "query": qs, "ctx": ctx, "chunks": chunkMode, "file": fm.FileName})
					}
					fcl := append(vfC03Class(c), fmt.Sprint("ctx=", ctx))
					if !chunkMode {
						lms := append([]zoekt.LineMatch(nil), fm.LineMatches...)
						sort.SliceStable(lms, func(a, b int) bool { return lms[a].LineNumber < lms[b].LineNumber })
						vfC03CheckLines(fail, c, nm, ctx, lms, true)
						var cs []vfCand
						for _, lm := range lms {
							for _, f := range lm.LineFragments {
								cs = append(cs, vfCand{lm.FileName, f.Offset, uint32(f.MatchLength)})
							}
						}
						if len(cs) == 0 { // e.g. a regexp matching only newlines: every piece is dropped in line mode
							continue
						}
						vfCase(cApp("K_lm", cBytes(c), cBytes(nm), cZ(int64(ctx)), "false", vfCandsCoq(cs), cSome(vfLmCoq(lms))), vfKey("slm:", string(c), fm.FileName, ctx, qs), len(lms) > 1 || len(cs) > 1,
							append([]string{"S_lm"}, fcl...), map[string]any{"content": string(c), "query": qs, "ctx": ctx, "file": fm.FileName})
					} else {
						cms := append([]zoekt.ChunkMatch(nil), fm.ChunkMatches...)
						sort.SliceStable(cms, func(a, b int) bool { return cms[a].ContentStart.ByteOffset < cms[b].ContentStart.ByteOffset })
						vfC03CheckChunks(fail, c, nm, ctx, cms, true)
						var cs []vfCand
						for _, cm := range cms {
							for _, rg := range cm.Ranges {
								cs = append(cs, vfCand{cm.FileName, rg.Start.ByteOffset, rg.End.ByteOffset - rg.Start.ByteOffset})
							}
						}
						vfCase(cApp("K_cm", cBytes(c), cBytes(nm), cZ(int64(ctx)), vfCandsCoq(cs), cSome(vfCmCoq(cms))), vfKey("scm:", string(c), fm.FileName, ctx, qs), len(cms) > 1 || len(cs) > 1,
							append([]string{"S_cm", fmt.Sprint("chunks=", len(cms))}, fcl...), map[string]any{"content": string(c), "query": qs, "ctx": ctx, "file": fm.FileName})
					}
				}
			}
		}
	}
}

func vfC03DocsReplay(docs []Document) []map[string]string {
	var o []map[string]string
	for _, d := range docs {
		o = append(o, map[string]string{"name": d.Name, "content": string(d.Content)})
	}
	return o
}

var _ = strings.Repeat
