package index

// C22 correspondence + oracle, direct calls in package index:
//   mode 0: SortAndTruncateFiles on one generated result list
//   mode 1: one NewDisplayTruncator applied to a stream of batches (what limitSender does)

import (
	"crypto/sha1"
	"fmt"
	"testing"

	"github.com/sourcegraph/zoekt"
)

func vf22Opts(r *vfRand, total int, chunkMode bool) *zoekt.SearchOptions {
	o := &zoekt.SearchOptions{ChunkMatches: chunkMode}
	switch r.Intn(4) {
	case 0:
		o.MaxDocDisplayCount = 1 + r.Intn(5)
	case 1:
		o.MaxMatchDisplayCount = 1 + r.Intn(total+2)
	case 2:
		o.MaxDocDisplayCount = 1 + r.Intn(5)
		o.MaxMatchDisplayCount = 1 + r.Intn(total+2)
	case 3:
		if r.Chance(50) {
			o.MaxMatchDisplayCount = 1 + r.Intn(4)
		} else if r.Chance(30) {
			o.MaxDocDisplayCount = -1
		}
	}
	return o
}

func TestVerifC22(t *testing.T) {
	r := vfNewRand(vfSeed())
	n := vfN(300)
	for i := 0; i < n; i++ {
		g := &vf22Gen{r: r, scores: map[int]bool{}}
		chunkMode := r.Chance(60)
		ctx := r.Intn(4)
		malformed := r.Chance(12)
		mode := r.Intn(2)
		nb := 1
		if mode == 1 {
			nb = 1 + r.Intn(4)
		}
		var batches [][]zoekt.FileMatch
		well := true
		total := 0
		for b := 0; b < nb; b++ {
			nf := r.Intn(6)
			if mode == 0 && nf == 0 && r.Chance(80) {
				nf = 1 + r.Intn(5)
			}
			var fs []zoekt.FileMatch
			for k := 0; k < nf; k++ {
				f, w := g.file(chunkMode, ctx, malformed)
				well = well && w
				total += vf22MatchCount(&f, chunkMode)
				fs = append(fs, f)
			}
			batches = append(batches, fs)
		}
		opts := vf22Opts(r, total, chunkMode)
		inputs := make([][]zoekt.FileMatch, len(batches))
		for b := range batches {
			inputs[b] = vf22CopyFiles(batches[b])
		}
		// ---- run the implementation
		var outs []vf22Out
		panicked := false
		func() {
			defer func() {
				if e := recover(); e != nil {
					panicked = true
				}
			}()
			if mode == 0 {
				res := SortAndTruncateFiles(batches[0], opts)
				outs = append(outs, vf22Out{res, true})
			} else {
				tr, _ := NewDisplayTruncator(opts)
				for b := range batches {
					res, more := tr(batches[b])
					outs = append(outs, vf22Out{vf22CopyFiles(res), more})
				}
			}
		}()
		// ---- Go-side oracle of the property
		octx := ctx
		if !well {
			octx = -1
		}
		replay := func() map[string]any {
			var bs []any
			for b := range inputs {
				bs = append(bs, vf22Describe(inputs[b], chunkMode))
			}
			return map[string]any{"mode": mode, "chunk_matches": chunkMode, "num_context_lines": ctx,
				"max_doc_display_count": opts.MaxDocDisplayCount, "max_match_display_count": opts.MaxMatchDisplayCount, "batches": bs}
		}
		if panicked && well {
			vfOracleFail("truncate:panic-on-well-formed-input", "display truncation panicked on a well-formed result", replay())
		}
		if !panicked {
			var ranked, got []zoekt.FileMatch
			if mode == 0 {
				ranked = vf22CopyFiles(inputs[0])
				SortFiles(ranked)
				got = outs[0].files
			} else {
				for b := range inputs {
					ranked = append(ranked, vf22CopyFiles(inputs[b])...)
					got = append(got, outs[b].files...)
				}
			}
			for _, f := range vf22OraclePrefix(ranked, got, opts, octx) {
				rp := replay()
				rp["got"] = vf22Describe(got, chunkMode)
				vfOracleFail(f.key, f.what, rp)
			}
		}
		cut := false
		if !panicked {
			tot := 0
			for _, o := range outs {
				for k := range o.files {
					tot += vf22MatchCount(&o.files[k], chunkMode)
				}
			}
			cut = tot < total
		}
		class := []string{fmt.Sprintf("mode=%d", mode), fmt.Sprintf("chunk=%v", chunkMode), fmt.Sprintf("cut=%v", cut), fmt.Sprintf("panic=%v", panicked), fmt.Sprintf("wellformed=%v", well)}
		coq := vf22CoqCase(mode, opts, inputs, outs, panicked)
		vfCase(coq, fmt.Sprintf("%x", sha1.Sum([]byte(coq))), cut, class, map[string]any{"mode": mode, "opts": fmt.Sprintf("doc=%d match=%d chunk=%v ctx=%d", opts.MaxDocDisplayCount, opts.MaxMatchDisplayCount, chunkMode, ctx), "batches": len(batches), "total_matches": total})
	}
}
