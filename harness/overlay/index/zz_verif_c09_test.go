package index

// C09 correspondence + oracle: real shards are built with ShardBuilder.Add/Write, the bytes and the
// reader's view (NewSearcher over the written bytes) are recorded next to the inputs; the Gallina model
// (Model/Format.v, Model/Btree.v) must produce the same bytes and decode them to the same values.
// The Go-side oracle checks the property itself: every added document is read back identically through
// Search(Const true, Whole) and List. Mapped into /repo/index by `go test -overlay`.

import (
	"bytes"
	"context"
	"encoding/binary"
	"fmt"
	"hash/crc64"
	"os"
	"path/filepath"
	"regexp"
	"regexp/syntax"
	"sort"
	"strings"
	"testing"
	"time"
	"unicode/utf8"

	"github.com/sourcegraph/zoekt"
	"github.com/sourcegraph/zoekt/query"
)

type vfC09Mem struct{ data []byte }

func (s *vfC09Mem) Name() string { return "vf-c09-mem" }
func (s *vfC09Mem) Close()       {}
func (s *vfC09Mem) Read(off, sz uint32) ([]byte, error) {
	if off > off+sz || uint64(off)+uint64(sz) > uint64(len(s.data)) {
		return nil, fmt.Errorf("out of bounds")
	}
	return s.data[off : off+sz], nil
}
func (s *vfC09Mem) Size() (uint32, error) { return uint32(len(s.data)), nil }

type vfC09Doc struct {
	Name     string
	Content  []byte
	Branches []string
	SubRepo  string
	Lang     string
	Skip     SkipReason
	CatSet   bool // Category set by the caller (Builder.Add path): no NUL scan in ShardBuilder.Add
	Syms     []DocumentSection
	Meta     []*zoekt.Symbol
	addErr   bool
}

type vfC09Repo struct {
	Repo zoekt.Repository
	Docs []vfC09Doc
}

type vfC09Shard struct {
	Compound bool
	Repos    []vfC09Repo
	Class    []string
}

// ---- generator

var vfC09Words = []string{"foo", "bar", "baz", "func", "main", " ", "\n", "x", "é", "日本", "ß", "\t", "aaa", "ab", "::", "€", "𝄞", "\xff", "\xc3", "\xe2\x82", "0", "_"}

func vfC09GenContent(r *vfRand, class *[]string) []byte {
	var b bytes.Buffer
	switch k := r.Intn(100); {
	case k < 6:
		*class = append(*class, "content=empty")
	case k < 12: // tiny (1-2 bytes)
		*class = append(*class, "content=tiny")
		b.WriteString(r.Pick([]string{"a", "ab", "é", "\n", "\xff"}))
	case k < 20: // long single line
		*class = append(*class, "content=longline")
		n := 90 + r.Intn(140)
		for i := 0; i < n; i++ {
			b.WriteString(r.Pick([]string{"a", "b", "c", "é", "日"}))
		}
	case k < 32: // multi-byte runes around the 100-rune sampling boundary
		*class = append(*class, "content=sampling-boundary")
		n := 96 + r.Intn(8)
		for i := 0; i < n; i++ {
			b.WriteByte(byte('a' + r.Intn(3)))
		}
		for i := 0; i < 3+r.Intn(5); i++ {
			b.WriteString(r.Pick([]string{"é", "日", "𝄞", "z", "\xff"}))
		}
		n = r.Intn(110)
		for i := 0; i < n; i++ {
			b.WriteByte(byte('a' + r.Intn(3)))
		}
	default:
		n := 1 + r.Intn(40)
		for i := 0; i < n; i++ {
			b.WriteString(r.Pick(vfC09Words))
		}
		if bytes.ContainsAny(b.Bytes(), "\xff\xc3\xe2") {
			*class = append(*class, "content=invalid-utf8")
		} else {
			*class = append(*class, "content=words")
		}
	}
	return b.Bytes()
}

// rune-boundary byte offsets of content (start of every rune as Go's decoder sees it, plus len)
func vfC09Boundaries(c []byte) []uint32 {
	var out []uint32
	for i := range string(c) {
		out = append(out, uint32(i))
	}
	return append(out, uint32(len(c)))
}

func vfC09GenDoc(r *vfRand, repo *zoekt.Repository, subs []string, idx int, class *[]string) vfC09Doc {
	d := vfC09Doc{}
	names := []string{"main.go", "a/b.c", "README.md", "é.txt", "x", "ab", "日本/語.go", "lib/\xff.bin", "very/long/path/to/some/file_name_test.go", ""}
	d.Name = fmt.Sprintf("%s%d", r.Pick(names), idx)
	if r.Chance(5) {
		d.Name = r.Pick(names) // possibly duplicate / empty name
	}
	d.Content = vfC09GenContent(r, class)
	for j, br := range repo.Branches {
		if r.Chance(40) || (len(repo.Branches) == 64 && (j == 63 || r.Chance(50))) {
			d.Branches = append(d.Branches, br.Name)
		}
	}
	if len(subs) > 0 && r.Chance(40) {
		d.SubRepo = r.Pick(subs)
		d.Name = d.SubRepo + "/" + d.Name
	}
	d.Lang = r.Pick([]string{"", "Go", "C", "Markdown", "Zzz"})
	switch k := r.Intn(100); {
	case k < 6:
		d.Skip = SkipReasonTooLarge
	case k < 10:
		d.Skip = SkipReasonTooSmall
	case k < 14:
		d.Skip = SkipReasonTooManyTrigrams
	case k < 17:
		d.Skip = SkipReasonMissing
	case k < 20:
		d.Skip = SkipReasonBinary
	case k < 26: // NUL byte inside the content: detected by ShardBuilder.Add itself
		p := r.Intn(len(d.Content) + 1)
		d.Content = append(append(append([]byte{}, d.Content[:p]...), 0), d.Content[p:]...)
		*class = append(*class, "content=nul")
	}
	if d.Skip != SkipReasonNone {
		*class = append(*class, "skip=preset")
	}
	if r.Chance(15) {
		d.CatSet = true
	}
	// symbols: non-overlapping sections on rune boundaries, distinct starts; sometimes shuffled; rarely invalid
	if r.Chance(55) && len(d.Content) > 0 {
		bs := vfC09Boundaries(d.Content)
		ns := r.Intn(6)
		if r.Chance(10) {
			ns = 8 + r.Intn(20)
		}
		pos := 0
		for j := 0; j < ns && pos < len(bs)-1; j++ {
			s := pos + r.Intn(4)
			if s >= len(bs)-1 {
				s = len(bs) - 2
			}
			if s < pos {
				break
			}
			e := s + 1 + r.Intn(4)
			if r.Chance(25) || e > len(bs)-1 {
				e = len(bs) - 1 // ends at end of file
				if r.Chance(50) && s+1 <= len(bs)-1 {
					e = s + 1
				}
			}
			d.Syms = append(d.Syms, DocumentSection{Start: bs[s], End: bs[e]})
			d.Meta = append(d.Meta, &zoekt.Symbol{Sym: string(d.Content[bs[s]:bs[e]]), Kind: r.Pick([]string{"function", "var", "class", ""}),
				Parent: r.Pick([]string{"", "P", "Outer", "é"}), ParentKind: r.Pick([]string{"", "class", "namespace"})})
			pos = e
			if pos <= s {
				pos = s + 1
			}
		}
		if len(d.Syms) > 1 && r.Chance(30) { // unsorted input (Add sorts); distinct starts => unique order
			for j := len(d.Syms) - 1; j > 0; j-- {
				k := r.Intn(j + 1)
				d.Syms[j], d.Syms[k] = d.Syms[k], d.Syms[j]
				d.Meta[j], d.Meta[k] = d.Meta[k], d.Meta[j]
			}
			*class = append(*class, "symbols=shuffled")
		}
		if len(d.Syms) > 0 {
			*class = append(*class, "symbols=some")
		}
		if len(d.Syms) >= 8 {
			*class = append(*class, "symbols=many")
		}
		if len(d.Syms) > 0 && r.Chance(4) { // invalid: past the end (rejected by Add before any mutation)
			d.Syms[len(d.Syms)-1].End = uint32(len(d.Content)) + 1 + uint32(r.Intn(3))
			if d.Syms[len(d.Syms)-1].Start > d.Syms[len(d.Syms)-1].End {
				d.Syms[len(d.Syms)-1].Start = d.Syms[len(d.Syms)-1].End
			}
			*class = append(*class, "symbols=past-end")
		} else if len(d.Syms) > 1 && r.Chance(4) { // invalid: overlap
			// find the two smallest starts and make the first cover the second's start
			idxs := make([]int, len(d.Syms))
			for j := range idxs {
				idxs[j] = j
			}
			sort.Slice(idxs, func(x, y int) bool { return d.Syms[idxs[x]].Start < d.Syms[idxs[y]].Start })
			if d.Syms[idxs[1]].Start+1 <= uint32(len(d.Content)) {
				d.Syms[idxs[0]].End = d.Syms[idxs[1]].Start + 1
				*class = append(*class, "symbols=overlap")
			}
		}
	}
	return d
}

func vfC09GenShard(r *vfRand, i int) vfC09Shard {
	sh := vfC09Shard{}
	sh.Compound = r.Chance(25)
	nrepos := 1
	if sh.Compound {
		nrepos = 1 + r.Intn(3)
		sh.Class = append(sh.Class, "shard=compound")
	} else {
		sh.Class = append(sh.Class, "shard=simple")
	}
	for ri := 0; ri < nrepos; ri++ {
		repo := zoekt.Repository{Name: fmt.Sprintf("repo%d-%d", i, ri), URL: "https://example.com/r", Source: "src", Rank: uint16(r.Intn(5))}
		if r.Chance(70) {
			repo.ID = uint32(1 + r.Intn(1000))
		}
		nb := r.Intn(4)
		if r.Chance(12) {
			nb = 64
			sh.Class = append(sh.Class, "branches=64")
		}
		for j := 0; j < nb; j++ {
			repo.Branches = append(repo.Branches, zoekt.RepositoryBranch{Name: fmt.Sprintf("b%d", j), Version: fmt.Sprintf("v%d", j)})
		}
		if nb >= 2 && r.Chance(10) { // duplicate branch name: first match wins
			repo.Branches[1].Name = repo.Branches[0].Name
		}
		var subs []string
		if r.Chance(40) {
			repo.SubRepoMap = map[string]*zoekt.Repository{}
			for _, p := range []string{"sub", "a/vendor", "zz"} {
				if r.Chance(60) {
					subs = append(subs, p)
					// sub-repositories carry the parent's branch list (as gitindex builds them; Search indexes sr.Branches by the parent's branch index)
					repo.SubRepoMap[p] = &zoekt.Repository{Name: "sub-" + p, URL: "https://example.com/" + p, Branches: repo.Branches}
				}
			}
		}
		rp := vfC09Repo{Repo: repo}
		nd := r.Intn(6)
		if r.Chance(8) {
			nd = 0
		}
		for j := 0; j < nd; j++ {
			rp.Docs = append(rp.Docs, vfC09GenDoc(r, &repo, subs, j, &sh.Class))
		}
		sh.Repos = append(sh.Repos, rp)
	}
	// which of contents / file names contain non-ASCII bytes is a shard-level property (IndexMetadata.PlainASCII is
	// derived from ALL contents and ALL names): force the four combinations on half of the shards
	mode := i % 6 // 0-3 forced, 4-5 as generated
	ascii := func(b []byte, repl byte) []byte {
		out := append([]byte(nil), b...)
		for k := range out {
			if out[k] >= 0x80 {
				out[k] = repl
			}
		}
		return out
	}
	nonASCIIName := func(n string) string { return r.Pick([]string{"dir_ü/", "日本語/", "é", "a€b/"}) + n }
	ndocs := 0
	for ri := range sh.Repos {
		for di := range sh.Repos[ri].Docs {
			d := &sh.Repos[ri].Docs[di]
			ndocs++
			switch mode {
			case 0: // names only
				d.Content = ascii(d.Content, 'c')
				if !strings.HasPrefix(d.Name, d.SubRepo+"/") || d.SubRepo == "" {
					d.Name = nonASCIIName(string(ascii([]byte(d.Name), 'n')))
				}
			case 1: // contents only
				d.Name = string(ascii([]byte(d.Name), 'n'))
				if len(d.Syms) == 0 && d.Skip == SkipReasonNone {
					d.Content = append(d.Content, []byte(" é日")...)
				}
			case 2: // neither
				d.Content = ascii(d.Content, 'c')
				d.Name = string(ascii([]byte(d.Name), 'n'))
			case 3: // both
				if d.SubRepo == "" {
					d.Name = nonASCIIName(d.Name)
				}
				if len(d.Syms) == 0 && d.Skip == SkipReasonNone {
					d.Content = append(d.Content, []byte(" ß")...)
				}
			}
		}
	}
	if mode < 4 && ndocs > 0 {
		sh.Class = append(sh.Class, "nonascii="+[]string{"names-only", "contents-only", "neither", "both"}[mode])
	} else {
		sh.Class = append(sh.Class, "nonascii=free")
	}
	return sh
}

// a single document whose content has exactly k distinct trigrams (k+2 distinct 2-byte runes)
func vfC09TrigramShard(k int) vfC09Shard {
	var b bytes.Buffer
	for i := 0; i < k+2; i++ {
		b.WriteString(string(rune(0x100 + i)))
	}
	repo := zoekt.Repository{Name: "tri", Branches: []zoekt.RepositoryBranch{{Name: "HEAD", Version: "v"}}}
	return vfC09Shard{Repos: []vfC09Repo{{Repo: repo, Docs: []vfC09Doc{{Name: "t", Content: b.Bytes(), Branches: []string{"HEAD"}}}}},
		Class: []string{fmt.Sprintf("trigrams=%d", k), "shard=simple"}}
}

// ---- build + write

func (sh *vfC09Shard) build() (*ShardBuilder, error) {
	var b *ShardBuilder
	if sh.Compound {
		b = newShardBuilder(0)
		b.indexFormatVersion = NextIndexFormatVersion
	}
	for ri := range sh.Repos {
		rp := &sh.Repos[ri]
		if sh.Compound {
			if err := b.setRepository(&rp.Repo); err != nil {
				return nil, err
			}
		} else {
			var err error
			b, err = NewShardBuilder(&rp.Repo)
			if err != nil {
				return nil, err
			}
		}
		for di := range rp.Docs {
			d := &rp.Docs[di]
			doc := Document{Name: d.Name, Content: append([]byte(nil), d.Content...), Branches: d.Branches, SubRepositoryPath: d.SubRepo,
				Language: d.Lang, SkipReason: d.Skip, Symbols: append([]DocumentSection(nil), d.Syms...), SymbolsMetaData: append([]*zoekt.Symbol(nil), d.Meta...)}
			if d.CatSet {
				doc.Category = FileCategoryDefault
			}
			if err := b.Add(doc); err != nil {
				d.addErr = true
			}
		}
	}
	b.IndexTime = time.Unix(1700000000, 0).UTC()
	b.ID = "vfc09shardid00000000"
	return b, nil
}

// ---- Coq rendering helpers

func vfC09Secs(ss []DocumentSection) string {
	if len(ss) == 0 {
		return "(@nil (N*N))"
	}
	xs := make([]string, len(ss))
	for i, s := range ss {
		xs[i] = cPair(cN(uint64(s.Start)), cN(uint64(s.End)))
	}
	return cList(xs)
}

func vfC09U32s(xs []uint32) string {
	ys := make([]uint64, len(xs))
	for i, x := range xs {
		ys[i] = uint64(x)
	}
	return cNList(ys)
}

func vfC09StrList(xs []string) string {
	if len(xs) == 0 {
		return "(@nil (list N))"
	}
	ys := make([]string, len(xs))
	for i, x := range xs {
		ys[i] = cStr(x)
	}
	return cList(ys)
}

func vfC09Ngrams(bi btreeIndex) string {
	m := bi.DumpMap()
	ks := make([]ngram, 0, len(m))
	for k := range m {
		ks = append(ks, k)
	}
	sort.Slice(ks, func(i, j int) bool { return ks[i] < ks[j] })
	if len(ks) == 0 {
		return "(@nil (N*(N*N)))"
	}
	xs := make([]string, len(ks))
	for i, k := range ks {
		xs[i] = cPair(cN(uint64(k)), cPair(cN(uint64(m[k].off)), cN(uint64(m[k].sz))))
	}
	return cList(xs)
}

func vfC09SkipIdx(s SkipReason) uint64 { return uint64(s) }

// sorted index of the sub-repository path (independent of mkSubRepoIndices)
func vfC09SubIdx(repo *zoekt.Repository, p string) uint64 {
	paths := []string{""}
	for k := range repo.SubRepoMap {
		if k != "" {
			paths = append(paths, k)
		}
	}
	sort.Strings(paths)
	for i, q := range paths {
		if q == p {
			return uint64(i)
		}
	}
	return 1 << 40
}

func vfC09Consts(t *testing.T) {
	var toc indexTOC
	var tags []string
	for _, ts := range toc.sectionsTaggedList() {
		tags = append(tags, fmt.Sprintf("(%s, %s)", cStr(ts.tag), cN(uint64(ts.sec.kind()))))
	}
	var expl []string
	for s := SkipReasonNone; s <= SkipReasonMissing; s++ {
		expl = append(expl, cStr(s.explanation()))
	}
	var legacy []string
	for _, s := range toc.sections() {
		legacy = append(legacy, cN(uint64(s.kind())))
	}
	// the b-tree options actually used at load time
	bi, err := (&indexData{file: &vfC09Mem{nil}}).newBtreeIndex(simpleSection{}, compoundSection{})
	if err != nil {
		t.Fatal(err)
	}
	vfInfo(map[string]any{"what": "consts",
		"btreeBucketSize": bi.bt.opts.bucketSize, "btreeV": bi.bt.opts.v, "ngramEncoding": ngramEncoding, "runeOffsetFrequency": runeOffsetFrequency,
		"IndexFormatVersion": IndexFormatVersion, "NextIndexFormatVersion": NextIndexFormatVersion,
		"FeatureVersion": FeatureVersion, "ReadMinFeatureVersion": ReadMinFeatureVersion, "WriteMinFeatureVersion": WriteMinFeatureVersion,
		"notIndexedMarker": cStr(notIndexedMarker), "tags": cList(tags), "explanations": cList(expl), "legacyKinds": cList(legacy)})
}

// ---- one shard: correspondence record + oracle

func vfC09RunShard(t *testing.T, sh *vfC09Shard, key string) {
	b, err := sh.build()
	if err != nil {
		t.Fatalf("build: %v", err)
	}
	var buf bytes.Buffer
	if err := b.Write(&buf); err != nil {
		t.Fatalf("write: %v", err)
	}
	file := buf.Bytes()
	mem := &vfC09Mem{file}
	replay := func() map[string]any {
		var rs []map[string]any
		for _, rp := range sh.Repos {
			var ds []map[string]any
			for _, d := range rp.Docs {
				ds = append(ds, map[string]any{"name": d.Name, "content": fmt.Sprintf("%q", d.Content), "branches": d.Branches, "subrepo": d.SubRepo,
					"lang": d.Lang, "skip": int(d.Skip), "catset": d.CatSet, "symbols": fmt.Sprint(d.Syms)})
			}
			rs = append(rs, map[string]any{"repo": rp.Repo.Name, "nbranches": len(rp.Repo.Branches), "docs": ds})
		}
		return map[string]any{"compound": sh.Compound, "repos": rs, "key": key}
	}
	fail := func(k, what string) { vfOracleFail("c09:"+k, what, replay()) }

	s, err := NewSearcher(mem)
	if err != nil {
		fail("load", "NewSearcher on a freshly written shard fails: "+err.Error())
		return
	}
	d := s.(*indexData)

	// ---------- Go-side oracle of the property (API level: Search Whole + List) ----------
	type want struct {
		repo, name, content, lang, subName, subPath string
		branches                                   string
		checksum                                   string
	}
	var wants []want
	ndocs := 0
	for _, rp := range sh.Repos {
		for _, dd := range rp.Docs {
			if dd.addErr {
				continue
			}
			ndocs++
			c := dd.Content
			skip := dd.Skip
			if !dd.CatSet && bytes.IndexByte(c, 0) >= 0 {
				skip = SkipReasonBinary
			}
			if skip != SkipReasonNone {
				c = []byte("NOT-INDEXED: " + skip.explanation())
			}
			var brs []string
			seen := map[string]bool{}
			for _, rb := range rp.Repo.Branches { // result order = repository branch order, by mask bit
				for _, x := range dd.Branches {
					if x == rb.Name && !seen[rb.Name] {
						seen[rb.Name] = true
						brs = append(brs, rb.Name)
					}
				}
			}
			w := want{repo: rp.Repo.Name, name: dd.Name, content: string(c), branches: strings.Join(brs, ","), subPath: dd.SubRepo}
			if dd.SubRepo != "" {
				w.subName = rp.Repo.SubRepoMap[dd.SubRepo].Name
			}
			h := crc64.New(crc64.MakeTable(crc64.ISO))
			h.Write(c)
			w.checksum = string(h.Sum(nil))
			w.lang = dd.Lang
			wants = append(wants, w)
		}
	}
	res, err := s.Search(context.Background(), &query.Const{Value: true}, &zoekt.SearchOptions{Whole: true})
	if err != nil {
		fail("search", "Search(Const true, Whole) fails: "+err.Error())
	} else {
		var gots []want
		for _, f := range res.Files {
			g := want{repo: f.Repository, name: f.FileName, content: string(f.Content), branches: strings.Join(f.Branches, ","),
				subName: f.SubRepositoryName, subPath: f.SubRepositoryPath, checksum: string(f.Checksum), lang: f.Language}
			gots = append(gots, g)
		}
		norm := func(ws []want, dropLang bool) []string {
			var out []string
			for _, w := range ws {
				if dropLang && w.lang == "" {
					w.lang = "*"
				}
				out = append(out, fmt.Sprintf("%q", []string{w.repo, w.name, w.content, w.branches, w.subName, w.subPath, w.checksum, w.lang}))
			}
			sort.Strings(out)
			return out
		}
		// language "" is detected from name/content (go-enry, opaque): only explicit languages are compared
		wl := norm(wants, true)
		gl := func() []string {
			// match each got against wants ignoring language where the want has ""
			wantLang := map[string][]string{}
			for _, w := range wants {
				k := fmt.Sprintf("%q", []string{w.repo, w.name, w.content, w.branches, w.subName, w.subPath, w.checksum})
				wantLang[k] = append(wantLang[k], w.lang)
			}
			var out []string
			for _, g := range gots {
				k := fmt.Sprintf("%q", []string{g.repo, g.name, g.content, g.branches, g.subName, g.subPath, g.checksum})
				ls := wantLang[k]
				lang := g.lang
				for j, l := range ls {
					if l == "" || l == g.lang {
						if l == "" {
							lang = "*"
						}
						wantLang[k] = append(ls[:j:j], ls[j+1:]...)
						break
					}
				}
				g.lang = lang
				out = append(out, fmt.Sprintf("%q", []string{g.repo, g.name, g.content, g.branches, g.subName, g.subPath, g.checksum, g.lang}))
			}
			sort.Strings(out)
			return out
		}()
		if len(wl) != len(gl) {
			fail("search-count", fmt.Sprintf("Search returned %d files, %d documents were added", len(gl), len(wl)))
		} else {
			for i := range wl {
				if wl[i] != gl[i] {
					fail("search-doc", fmt.Sprintf("document read back differs: want %.300s got %.300s", wl[i], gl[i]))
					break
				}
			}
		}
	}
	// "read back with identical name" includes being findable by that name: for every document with a valid UTF-8
	// name a case-sensitive substring query and a regexp query on a piece of the name that lies AFTER its last
	// multi-byte rune (if any; >= 3 bytes) must return the document under exactly that name
	for _, w := range wants {
		if !utf8.ValidString(w.name) {
			continue
		}
		cut := 0
		for i, c := range w.name {
			if c >= utf8.RuneSelf {
				cut = i + utf8.RuneLen(c)
			}
		}
		needle := w.name[cut:]
		if len(needle) < 3 {
			needle = w.name
			if rs := []rune(needle); len(rs) > 8 {
				needle = string(rs[len(rs)-8:])
			}
		}
		if utf8.RuneCountInString(needle) < 3 {
			continue
		}
		re, perr := syntax.Parse(regexp.QuoteMeta(needle), syntax.Perl)
		if perr != nil {
			continue
		}
		for _, q := range []query.Q{
			&query.Substring{Pattern: needle, FileName: true, CaseSensitive: true},
			&query.Substring{Pattern: needle, FileName: true},
			&query.Regexp{Regexp: re, FileName: true, CaseSensitive: true},
		} {
			nres, err := s.Search(context.Background(), q, &zoekt.SearchOptions{})
			found := false
			if err == nil {
				for _, f := range nres.Files {
					if f.Repository == w.repo && f.FileName == w.name {
						found = true
					}
				}
			}
			if !found {
				fail("name-search", fmt.Sprintf("document %q of %s is not found by the file-name query %s (err %v)", w.name, w.repo, q.String(), err))
				break
			}
		}
	}
	// the metadata flag Write derives: PlainASCII iff every stored content and every name is ASCII
	{
		plain := true
		for _, w := range wants {
			for _, str := range []string{w.name, w.content} {
				for k := 0; k < len(str); k++ {
					if str[k] >= 0x80 {
						plain = false
					}
				}
			}
		}
		if d.metaData.PlainASCII != plain {
			fail("plain-ascii", fmt.Sprintf("IndexMetadata.PlainASCII = %v, but all-ASCII(contents and names) = %v", d.metaData.PlainASCII, plain))
		}
	}
	rl, err := s.List(context.Background(), &query.Const{Value: true}, nil)
	if err != nil {
		fail("list", "List fails: "+err.Error())
	} else {
		if len(rl.Repos) != len(sh.Repos) {
			fail("list-repos", fmt.Sprintf("List returned %d repos, want %d", len(rl.Repos), len(sh.Repos)))
		} else {
			for i, e := range rl.Repos {
				rp := sh.Repos[i]
				nd := 0
				for _, dd := range rp.Docs {
					if !dd.addErr {
						nd++
					}
				}
				if e.Repository.Name != rp.Repo.Name || e.Repository.ID != rp.Repo.ID || len(e.Repository.Branches) != len(rp.Repo.Branches) ||
					e.Repository.Rank != rp.Repo.Rank || e.Repository.URL != rp.Repo.URL || e.Repository.Source != rp.Repo.Source ||
					len(e.Repository.SubRepoMap) != len(rp.Repo.SubRepoMap) {
					fail("list-meta", fmt.Sprintf("repository metadata differs for %s", rp.Repo.Name))
				}
				for j := range e.Repository.Branches {
					if j < len(rp.Repo.Branches) && e.Repository.Branches[j] != rp.Repo.Branches[j] {
						fail("list-meta", "branch metadata differs")
					}
				}
				if e.Stats.Documents != nd {
					fail("list-docs", fmt.Sprintf("List reports %d documents for %s, want %d", e.Stats.Documents, rp.Repo.Name, nd))
				}
				if e.IndexMetadata.ID != "vfc09shardid00000000" || !e.IndexMetadata.IndexTime.Equal(time.Unix(1700000000, 0)) {
					fail("list-meta", "index metadata (ID / IndexTime) not preserved")
				}
			}
		}
	}
	// symbol ranges and metadata through the reader
	{
		di := uint32(0)
		for _, rp := range sh.Repos {
			for _, dd := range rp.Docs {
				if dd.addErr {
					continue
				}
				secs, _, err := d.readDocSections(di, nil)
				skipped := dd.Skip != SkipReasonNone || (!dd.CatSet && bytes.IndexByte(dd.Content, 0) >= 0)
				wantSecs := append([]DocumentSection(nil), dd.Syms...)
				wantMeta := append([]*zoekt.Symbol(nil), dd.Meta...)
				idx := make([]int, len(wantSecs))
				for j := range idx {
					idx[j] = j
				}
				sort.SliceStable(idx, func(x, y int) bool { return wantSecs[idx[x]].Start < wantSecs[idx[y]].Start })
				if skipped {
					idx = nil
				}
				if err != nil || len(secs) != len(idx) {
					fail("symbols", fmt.Sprintf("doc %d: %d symbol ranges read back, want %d (err %v)", di, len(secs), len(idx), err))
				} else {
					for j, k := range idx {
						if secs[j] != wantSecs[k] {
							fail("symbols", fmt.Sprintf("doc %d: symbol range %d differs", di, j))
							break
						}
						sym := d.symbols.data(d.fileEndSymbol[di] + uint32(j))
						if sym == nil || sym.Kind != wantMeta[k].Kind || sym.Parent != wantMeta[k].Parent || sym.ParentKind != wantMeta[k].ParentKind {
							fail("symbol-meta", fmt.Sprintf("doc %d: symbol metadata %d differs", di, j))
							break
						}
					}
				}
				di++
			}
		}
	}

	// postings: every trigram of every stored content / name is found by btreeIndex.Get and its posting list decodes to
	// exactly the (shard-global) rune offsets where it occurs; brute force over the read-back texts
	vfC09CheckPostings := func(what string, bi btreeIndex, text func(i uint32) []byte) {
		want := map[ngram][]uint32{}
		var runeBase uint32
		for i := uint32(0); i < d.numDocs(); i++ {
			var rs []rune
			for _, r := range string(text(i)) { // invalid bytes decode to U+FFFD, one rune per byte, as utf8.DecodeRune does
				rs = append(rs, r)
			}
			for j := 2; j < len(rs); j++ {
				ng := runesToNGram([3]rune{rs[j-2], rs[j-1], rs[j]})
				want[ng] = append(want[ng], runeBase+uint32(j-2))
			}
			runeBase += uint32(len(rs))
		}
		for ng, offs := range want {
			sec := bi.Get(ng)
			blob, err := d.readSectionBlob(sec)
			got := fromDeltas(blob, nil)
			if err != nil || fmt.Sprint(got) != fmt.Sprint(offs) {
				fail("postings-"+what, fmt.Sprintf("%s trigram %q: posting list read back %v, occurs at %v (err %v)", what, ng.String(), got, offs, err))
				return
			}
			if _, ok := want[ng+1]; !ok {
				if s := bi.Get(ng + 1); s.sz != 0 {
					fail("postings-"+what, fmt.Sprintf("%s trigram %q is absent but Get returns a section", what, (ng + 1).String()))
					return
				}
			}
		}
		if m := bi.DumpMap(); len(m) != len(want) {
			fail("postings-"+what, fmt.Sprintf("%s index holds %d trigrams, the texts contain %d", what, len(m), len(want)))
		}
	}
	vfC09CheckPostings("content", d.contentNgrams, func(i uint32) []byte { c, _ := d.readContents(i); return c })
	vfC09CheckPostings("name", d.fileNameNgrams, func(i uint32) []byte { return d.fileName(i) })

	// ---------- correspondence record ----------
	toc := indexTOC{}
	rd := &reader{r: mem}
	if err := rd.readTOC(&toc); err != nil {
		t.Fatalf("readTOC: %v", err)
	}
	blob := func(sec simpleSection) []byte { return file[sec.off : sec.off+sec.sz] }
	var repos []string
	for _, rp := range sh.Repos {
		var brs []string
		for _, br := range rp.Repo.Branches {
			brs = append(brs, br.Name)
		}
		var docs []string
		for _, dd := range rp.Docs {
			var metas []string
			for _, m := range dd.Meta {
				metas = append(metas, cTuple(cStr(m.Kind), cStr(m.Parent), cStr(m.ParentKind)))
			}
			ms := "(@nil (list N * list N * list N))"
			if len(metas) > 0 {
				ms = cList(metas)
			}
			docs = append(docs, cApp("mkDocIn", cStr(dd.Name), cBytes(dd.Content), cN(vfC09SkipIdx(dd.Skip)), cBool(!dd.CatSet),
				vfC09Secs(dd.Syms), ms, vfC09StrList(dd.Branches), cN(vfC09SubIdx(&rp.Repo, dd.SubRepo))))
		}
		ds := "(@nil doc_in)"
		if len(docs) > 0 {
			ds = cList(docs)
		}
		repos = append(repos, cPair(vfC09StrList(brs), ds))
	}
	rid := "None"
	if toc.reposIDsBitmap.sz > 0 {
		rid = cSome(cBytes(blob(toc.reposIDsBitmap)))
	}
	opq := cApp("mkOpaque", cBytes(b.checksums), cBytes(b.languages), cBytes(b.categories), rid, cBytes(blob(toc.metaData)), cBytes(blob(toc.repoMetaData)))
	// the reader's view
	var douts []string
	for i := uint32(0); i < d.numDocs(); i++ {
		c, _ := d.readContents(i)
		secs, _, _ := d.readDocSections(i, nil)
		nls, _, _ := d.readNewlines(i, nil)
		douts = append(douts, cApp("mkDocOut", cBytes(d.fileName(i)), cBytes(c), cN(d.fileBranchMasks[i]), vfC09Secs(secs), vfC09U32s(nls),
			cN(uint64(d.subRepos[i])), cN(uint64(d.repos[i]))))
	}
	dos := "(@nil doc_out)"
	if len(douts) > 0 {
		dos = cList(douts)
	}
	rom := func(m runeOffsetMap) string {
		if len(m) == 0 {
			return "(@nil (N*N))"
		}
		xs := make([]string, len(m))
		for i, c := range m {
			xs[i] = cPair(cN(uint64(c.runeOffset)), cN(uint64(c.byteOffset)))
		}
		return cList(xs)
	}
	var symouts []string
	nsym := uint32(len(d.symbols.symMetaData) / 16)
	for i := uint32(0); i < nsym; i++ {
		sy := d.symbols.data(i)
		symouts = append(symouts, cTuple(cStr(sy.Kind), cStr(sy.Parent), cStr(sy.ParentKind)))
	}
	sos := "(@nil (list N * list N * list N))"
	if len(symouts) > 0 {
		sos = cList(symouts)
	}
	obs := cApp("mkObs", dos, vfC09U32s(d.fileEndSymbol), vfC09Secs(d.runeDocSections), vfC09U32s(d.fileEndRunes), vfC09U32s(d.fileNameEndRunes),
		rom(d.runeOffsets), rom(d.fileNameRuneOffsets), vfC09Ngrams(d.contentNgrams), vfC09Ngrams(d.fileNameNgrams), sos)
	coq := cApp("CShard", cBool(sh.Compound), cList(repos), opq, cBytes(file), obs, cBool(d.metaData.PlainASCII))
	nontrivial := ndocs >= 2 || len(file) > 3000
	vfCase(coq, key, nontrivial, append(sh.Class, fmt.Sprintf("docs=%d", min(ndocs, 6))), map[string]any{"key": key, "docs": ndocs, "bytes": len(file), "compound": sh.Compound})
}

// ---- b-tree algorithm with small parameters (inner-node splits are reached with few keys)

func vfC09RunBtree(r *vfRand, i int) {
	bucket := []int{2, 4, 4, 6, 8, 2, 10}[r.Intn(7)] // even only: the split keeps 2*(bucketSize/2) keys (btreeBucketSize is even)
	v := 2 + r.Intn(3)
	n := r.Intn(120)
	if r.Chance(20) {
		n = r.Intn(6)
	}
	if r.Chance(10) {
		n = 200 + r.Intn(200)
	}
	if r.Chance(15) {
		n = bucket / 2 * (1 + r.Intn(40)) // exact multiples of the half bucket
	}
	keys := make([]uint64, 0, n)
	cur := uint64(r.Intn(5))
	for j := 0; j < n; j++ {
		cur += 1 + uint64(r.Intn(4))
		keys = append(keys, cur)
	}
	bt := newBtree(btreeOpts{bucketSize: bucket, v: v})
	for _, k := range keys {
		bt.insert(ngram(k))
	}
	bt.freeze()
	var probes []uint64
	for p := uint64(0); p <= cur+3; p++ {
		probes = append(probes, p)
	}
	var outs []string
	for _, p := range probes {
		bi, po := bt.find(ngram(p))
		outs = append(outs, cPair(cN(uint64(bi)), cN(uint64(po))))
		// oracle: the bucket found must be the one that contains p if p is a key
		for idx, k := range keys {
			if k == p {
				// buckets: all but the last hold bucket/2 keys
				wantB := idx / (bucket / 2)
				if bucket/2 == 0 {
					break
				}
				if wantB > bt.lastBucketIndex {
					wantB = bt.lastBucketIndex
				}
				if bi != wantB || po != wantB*(bucket/2) {
					vfOracleFail("c09:btree-find", fmt.Sprintf("find(%d) = (%d,%d), key is at index %d (bucket %d)", p, bi, po, idx, wantB),
						map[string]any{"bucketSize": bucket, "v": v, "keys": keys, "probe": p})
				}
			}
		}
	}
	coq := cApp("CBtree", cNat(bucket), cNat(v), cNList(keys), cNList(probes), cList(outs), cZ(int64(bt.lastBucketIndex)))
	vfCase(coq, vfKey("bt", bucket, v, keys), n > bucket, []string{"btree", fmt.Sprintf("btree-leaves=%d", min((bt.lastBucketIndex+1)/4*4, 40))},
		map[string]any{"bucketSize": bucket, "v": v, "nkeys": n})
}

// ---- codec cases (arbitrary, unsorted uint32/uint16 inputs exercise the wrap law)

func vfC09RunCodec(r *vfRand, i int) {
	n := r.Intn(12)
	kind := r.Intn(3)
	var xs []uint64
	for j := 0; j < n; j++ {
		var x uint64
		switch r.Intn(4) {
		case 0:
			x = uint64(r.Intn(200))
		case 1:
			x = r.U64() & 0xffffffff
		case 2:
			x = []uint64{0, 127, 128, 16383, 16384, 0xffff, 0x10000, 0xffffffff, 0x7fffffff, 0x80000000}[r.Intn(10)]
		default:
			x = uint64(r.Intn(70000))
		}
		if kind == 1 {
			x &= 0xffff
		}
		xs = append(xs, x)
	}
	var enc []byte
	var dec []uint64
	switch kind {
	case 0:
		in := make([]uint32, len(xs))
		for j, x := range xs {
			in[j] = uint32(x)
		}
		enc = toSizedDeltas(in)
		for _, x := range fromSizedDeltas(enc, nil) {
			dec = append(dec, uint64(x))
		}
	case 1:
		in := make([]uint16, len(xs))
		for j, x := range xs {
			in[j] = uint16(x)
		}
		enc = toSizedDeltas16(in)
		for _, x := range fromSizedDeltas16(enc, nil) {
			dec = append(dec, uint64(x))
		}
	default:
		if len(xs)%2 == 1 {
			xs = xs[1:]
		}
		var in []DocumentSection
		for j := 0; j+1 < len(xs); j += 2 {
			in = append(in, DocumentSection{Start: uint32(xs[j]), End: uint32(xs[j+1])})
		}
		enc = marshalDocSections(in)
		for _, s := range unmarshalDocSections(enc, nil) {
			dec = append(dec, uint64(s.Start), uint64(s.End))
		}
	}
	if fmt.Sprint(dec) != fmt.Sprint(xs) && !(len(dec) == 0 && len(xs) == 0) {
		vfOracleFail("c09:codec-roundtrip", fmt.Sprintf("delta coding kind %d does not round-trip", kind), map[string]any{"kind": kind, "in": xs, "out": dec})
	}
	coq := cApp("CCodec", cN(uint64(kind)), cNList(xs), cBytes(enc), cNList(dec))
	vfCase(coq, vfKey("codec", kind, xs), len(xs) >= 2, []string{fmt.Sprintf("codec=%d", kind)}, map[string]any{"kind": kind, "in": xs})
}


// ---- sequences of documents through ONE DocChecker / ONE index.Builder (the checker's trigram map is reused)

// independent verdict of one document: a function of the document and the options only
func vfC09IndepVerdict(content []byte, sizeMax, trigMax int, allow bool) SkipReason {
	switch {
	case len(content) > sizeMax && !allow:
		return SkipReasonTooLarge
	case len(content) == 0:
		return SkipReasonNone
	case len(content) < 3:
		return SkipReasonTooSmall
	case bytes.IndexByte(content, 0) >= 0:
		return SkipReasonBinary
	case len(content)-2 <= trigMax || allow:
		return SkipReasonNone
	}
	rs := []rune(string(content)) // invalid bytes become U+FFFD one by one, as utf8.DecodeRune does
	set := map[[3]rune]bool{}
	for i := 2; i < len(rs); i++ {
		set[[3]rune{rs[i-2], rs[i-1], rs[i]}] = true
	}
	if len(set) > trigMax {
		return SkipReasonTooManyTrigrams
	}
	return SkipReasonNone
}

func vfC09GenSeqDoc(r *vfRand, sizeMax, trigMax int) ([]byte, string) {
	var b bytes.Buffer
	switch k := r.Intn(100); {
	case k < 22: // many distinct trigrams, within the size limit
		n := trigMax + 3 + r.Intn(10)
		for i := 0; i < n && b.Len() < sizeMax-4; i++ {
			b.WriteString(string(rune(0x100 + r.Intn(400))))
		}
		return b.Bytes(), "many-trigrams"
	case k < 50: // longer than TrigramMax bytes but few distinct trigrams: takes the counting path and must pass
		w := r.Pick([]string{"ab", "abc", "xyz ", "é", "a\n", "foo bar "})
		n := trigMax + 3 + r.Intn(sizeMax-trigMax)
		for b.Len() < n && b.Len() < sizeMax-len(w) {
			b.WriteString(w)
		}
		return b.Bytes(), "long-repetitive"
	case k < 58:
		return nil, "empty"
	case k < 64:
		return []byte(r.Pick([]string{"a", "ab", "é"})), "tiny"
	case k < 72:
		return []byte("bin\x00ary content here"), "binary"
	case k < 82: // larger than SizeMax
		for b.Len() <= sizeMax {
			b.WriteString(r.Pick([]string{"large ", "file ", "x"}))
		}
		return b.Bytes(), "too-large"
	default:
		n := 1 + r.Intn(6)
		for i := 0; i < n; i++ {
			b.WriteString(r.Pick(vfC09Words))
		}
		c := bytes.ReplaceAll(b.Bytes(), []byte{0}, []byte{' '})
		return c, "short-text"
	}
}

func vfC09RunSeq(t *testing.T, r *vfRand, i int, e2e bool) {
	trigMax := 5 + r.Intn(14)
	sizeMax := 80 + r.Intn(120)
	nd := 3 + r.Intn(7)
	type sdoc struct {
		name    string
		content []byte
		allow   bool
		kind    string
	}
	var docs []sdoc
	var large []string
	classes := []string{"seq"}
	for j := 0; j < nd; j++ {
		c, kind := vfC09GenSeqDoc(r, sizeMax, trigMax)
		d := sdoc{name: fmt.Sprintf("dir/f%d.txt", j), content: c, kind: kind}
		if r.Chance(12) {
			d.allow = true
			d.name = fmt.Sprintf("dir/big%d.txt", j)
			large = append(large, d.name)
		}
		docs = append(docs, d)
		classes = append(classes, "seqdoc="+kind)
	}
	replay := func() map[string]any {
		var ds []map[string]any
		for _, d := range docs {
			ds = append(ds, map[string]any{"name": d.name, "content": fmt.Sprintf("%q", d.content), "allow": d.allow, "kind": d.kind})
		}
		return map[string]any{"TrigramMax": trigMax, "SizeMax": sizeMax, "docs": ds, "LargeFiles": large}
	}
	// (1) one reused DocChecker, exactly as Builder.Add drives it
	var dc DocChecker
	var verdicts []uint64
	var rows []string
	afterReject := false
	for _, d := range docs {
		var v SkipReason
		if len(d.content) > sizeMax && !d.allow {
			v = SkipReasonTooLarge
		} else {
			v = dc.Check(d.content, trigMax, d.allow)
		}
		want := vfC09IndepVerdict(d.content, sizeMax, trigMax, d.allow)
		if v != want {
			vfOracleFail("c09:docchecker-verdict", fmt.Sprintf("document %s (%s) is classified %q by a DocChecker that has seen earlier documents, but on its own it is %q",
				d.name, d.kind, v.explanation(), want.explanation()), replay())
		}
		if afterReject && d.kind == "long-repetitive" {
			classes = append(classes, "seq=counted-after-reject")
		}
		if v == SkipReasonTooManyTrigrams {
			afterReject = true
		}
		verdicts = append(verdicts, uint64(v))
		rows = append(rows, cPair(cBytes(d.content), cBool(d.allow)))
	}
	coq := cApp("CSeq", cN(uint64(sizeMax)), cN(uint64(trigMax)), cList(rows), cNList(verdicts))
	vfCase(coq, vfKey("seq", i, sizeMax, trigMax, rows), true, classes, map[string]any{"TrigramMax": trigMax, "SizeMax": sizeMax, "docs": nd})
	if !e2e {
		return
	}
	// (2) the same sequence through ONE index.Builder, read back from the shards it wrote
	dir, err := os.MkdirTemp(os.Getenv("VERIF_TMP"), "c09seq")
	if err != nil {
		t.Fatal(err)
	}
	defer os.RemoveAll(dir)
	b, err := NewBuilder(Options{IndexDir: dir, RepositoryDescription: zoekt.Repository{Name: "seqrepo"}, SizeMax: sizeMax, TrigramMax: trigMax,
		LargeFiles: large, DisableCTags: true, Parallelism: 1})
	if err != nil {
		t.Fatal(err)
	}
	for _, d := range docs {
		if err := b.Add(Document{Name: d.name, Content: append([]byte(nil), d.content...)}); err != nil {
			t.Fatal(err)
		}
	}
	if err := b.Finish(); err != nil {
		t.Fatal(err)
	}
	got := map[string]string{}
	shards, _ := filepath.Glob(filepath.Join(dir, "*.zoekt"))
	for _, fn := range shards {
		f, err := os.Open(fn)
		if err != nil {
			t.Fatal(err)
		}
		inf, err := NewIndexFile(f)
		if err != nil {
			t.Fatal(err)
		}
		s, err := NewSearcher(inf)
		if err != nil {
			vfOracleFail("c09:builder-load", "a shard written by index.Builder does not load: "+err.Error(), replay())
			continue
		}
		res, err := s.Search(context.Background(), &query.Const{Value: true}, &zoekt.SearchOptions{Whole: true})
		if err == nil {
			for _, fm := range res.Files {
				got[fm.FileName] = string(fm.Content)
			}
		}
		s.Close()
	}
	for _, d := range docs {
		want := string(d.content)
		if v := vfC09IndepVerdict(d.content, sizeMax, trigMax, d.allow); v != SkipReasonNone {
			want = "NOT-INDEXED: " + v.explanation()
		}
		g, ok := got[d.name]
		if !ok {
			vfOracleFail("c09:builder-missing", fmt.Sprintf("document %s added to index.Builder is not in the shards", d.name), replay())
		} else if g != want {
			vfOracleFail("c09:builder-content", fmt.Sprintf("document %s (%s) added to index.Builder reads back as %.60q, want %.60q", d.name, d.kind, g, want), replay())
		}
	}
}

var _ = binary.BigEndian

func TestVerifC09Consts(t *testing.T) { vfC09Consts(t) }

func TestVerifC09(t *testing.T) {
	r := vfNewRand(vfSeed())
	n := vfN(60)
	vfC09Consts(t)
	// crafted trigram counts around the b-tree bucket sizes (real btreeBucketSize)
	half := btreeBucketSize / 2
	ks := []int{1, half, btreeBucketSize + 1}
	if vfTier() == "thorough" {
		ks = append(ks, 0, 2, btreeBucketSize, half-1, half+1, btreeBucketSize-1, btreeBucketSize+half, 2*btreeBucketSize, 2*btreeBucketSize+1, 3*btreeBucketSize+7)
	}
	for _, k := range ks {
		sh := vfC09TrigramShard(k)
		vfC09RunShard(t, &sh, fmt.Sprintf("tri-%d", k))
	}
	for i := 0; i < n; i++ {
		sh := vfC09GenShard(r, i)
		vfC09RunShard(t, &sh, fmt.Sprintf("shard-%d-%d", vfSeed(), i))
	}
	for i := 0; i < 4*n; i++ {
		vfC09RunBtree(r, i)
	}
	for i := 0; i < 4*n; i++ {
		vfC09RunCodec(r, i)
	}
	for i := 0; i < 6*n; i++ {
		vfC09RunSeq(t, r, i, i < n)
	}
}
