package index

// C11 — tie between the Coq model of the posting-list iterator (coq/Model/FormatPosting.v: cpi_new / cpi_next) and
// newCompressedPostingIterator / compressedPostingIterator.next on ARBITRARY bytes: valid delta lists, lists ending
// inside a varint, overflowing varints, random bytes.  Every case runs under a watchdog (a non-terminating next is an
// oracle failure HANG with the bytes and the limits); Go-side oracle of the iterator's contract: after next(limit)
// first() > limit or first() == MaxUint32, the blob never grows.  Mapped into /repo/index by `go test -overlay`.

import (
	"encoding/binary"
	"fmt"
	"math"
	"testing"
	"time"
)

type vfC11IterObs struct {
	firsts []uint64
	rest   int
	loaded int
	bad    string
	pan    any
}

func vfC11IterRun(blob []byte, limits []uint32) (o vfC11IterObs) {
	defer func() { o.pan = recover() }()
	it := newCompressedPostingIterator(append([]byte(nil), blob...), stringToNGram("abc"))
	o.firsts = append(o.firsts, uint64(it.first()))
	prev := len(it.blob)
	for _, l := range limits {
		it.next(l)
		f := it.first()
		o.firsts = append(o.firsts, uint64(f))
		if !(f > l || f == math.MaxUint32) && o.bad == "" {
			o.bad = fmt.Sprintf("after next(%d) first() = %d", l, f)
		}
		if len(it.blob) > prev && o.bad == "" {
			o.bad = "the blob grew"
		}
		prev = len(it.blob)
	}
	o.rest, o.loaded = len(it.blob), it.indexBytesLoaded
	return
}

func TestVerifC11Iter(t *testing.T) {
	r := vfNewRand(vfSeed())
	n := vfN(300)
	overflow := []byte{0xff, 0xff, 0xff, 0xff, 0xff, 0xff, 0xff, 0xff, 0xff, 0x7f}
	type tc struct {
		blob  []byte
		class string
	}
	valid := func() []byte {
		var b []byte
		k := r.Intn(12)
		for i := 0; i < k; i++ {
			d := uint64(r.Intn(200))
			switch r.Intn(8) {
			case 0:
				d = uint64(r.Intn(1 << 20))
			case 1:
				d = 0
			case 2:
				d = uint64(r.U64() >> uint(r.Intn(64))) // large deltas: uint32 wrap-around
			}
			b = binary.AppendUvarint(b, d)
		}
		return b
	}
	var cases []tc
	for _, d := range [][]byte{nil, {0x80}, {8, 14, 0x8e}, {0x88}, {8, 0x80, 0x80}, append([]byte{8}, append(append([]byte{}, overflow...), 3)...),
		append(append([]byte{}, overflow...), 5), {0xff, 0xff, 0xff, 0xff, 0x0f, 1}, {0xfe, 0xff, 0xff, 0xff, 0x0f, 1, 0x81}, {0, 0, 0, 0x80}} {
		cases = append(cases, tc{d, "directed"})
	}
	for len(cases) < n {
		b := valid()
		class := "valid"
		switch r.Intn(6) {
		case 0: // the list ends inside a varint: continuation bit of the last byte
			if len(b) > 0 {
				b[len(b)-1] |= 0x80
				class = "truncated-last"
			}
		case 1: // continuation bit of some byte (merges two varints / truncates / overflows)
			if len(b) > 0 {
				b[r.Intn(len(b))] |= 0x80
				class = "cont-bit"
			}
		case 2: // an overflowing varint spliced in
			p := 0
			if len(b) > 0 {
				p = r.Intn(len(b) + 1)
			}
			b = append(append(append([]byte{}, b[:p]...), overflow...), b[p:]...)
			if r.Bool() {
				b = append(b[:p+9:p+9], append([]byte{0x80, 0x01}, b[p+10:]...)...) // 11-byte varint
			}
			class = "overflow"
		case 3:
			b = make([]byte, r.Intn(24))
			for i := range b {
				b[i] = byte(r.U64())
				if r.Chance(40) {
					b[i] |= 0x80
				}
			}
			class = "random"
		}
		cases = append(cases, tc{b, class})
	}
	hangs := 0
	for ci, c := range cases {
		// limits: a walk (next(first())), or arbitrary values around the postings
		var limits []uint32
		k := 1 + r.Intn(8)
		probe := vfC11IterObsFirst(c.blob)
		for i := 0; i < k; i++ {
			var l uint32
			switch r.Intn(6) {
			case 0:
				l = uint32(r.Intn(64))
			case 1:
				l = probe + uint32(r.Intn(400))
			case 2:
				l = math.MaxUint32 - uint32(r.Intn(2))
			case 3:
				l = uint32(r.U64())
			default:
				l = probe
				probe += uint32(r.Intn(200))
			}
			limits = append(limits, l)
		}
		done := make(chan vfC11IterObs, 1)
		blob, lim := c.blob, limits
		walk := ci%3 == 0 // complete walk: next(first()) until the iterator is exhausted
		go func() {
			if walk {
				lim = vfC11IterWalkLimits(blob) // needs the iterator itself: computed under the watchdog
			}
			done <- vfC11IterRun(blob, lim)
		}()
		var o vfC11IterObs
		select {
		case o = <-done:
		case <-time.After(20 * time.Second):
			hangs++
			vfOracleFail("c11:iter:HANG:index.(*compressedPostingIterator).next", fmt.Sprintf("compressedPostingIterator does not terminate on the posting list %x (%s; walk=%v limits=%v): a search over a shard that contains this list hangs", c.blob, c.class, walk, limits),
				map[string]any{"blob": fmt.Sprintf("%x", c.blob), "limits": limits, "walk": walk, "class": c.class})
			if hangs >= 3 {
				return // every hanging case leaves a spinning goroutine behind
			}
			continue
		}
		if walk {
			limits = vfC11IterWalkLimits(c.blob)
		}
		key := fmt.Sprintf("%x|%v", c.blob, limits)
		if o.pan != nil {
			// a panic is contained by searchOneShard's recover: no violation of C11 by itself, but the model says the
			// iterator never panics (C11_posting_iter_terminates): reported as a model/implementation disagreement
			vfEmit(map[string]any{"kind": "iter_panic", "blob": fmt.Sprintf("%x", c.blob), "limits": limits, "panic": fmt.Sprint(o.pan)})
			continue
		}
		if o.bad != "" {
			vfOracleFail("c11:iter:contract", fmt.Sprintf("posting list %x limits=%v: %s", c.blob, limits, o.bad), map[string]any{"blob": fmt.Sprintf("%x", c.blob), "limits": limits})
		}
		ls := make([]uint64, len(limits))
		for i, l := range limits {
			ls[i] = uint64(l)
		}
		cl := c.class
		if walk {
			cl += "/walk"
		}
		vfCase(cApp("C11I", cBytes(c.blob), cNList(ls), cNList(o.firsts), cN(uint64(o.rest)), cN(uint64(o.loaded))), key,
			c.class != "valid" && len(c.blob) > 0, cl, map[string]any{"blob": fmt.Sprintf("%x", c.blob), "limits": limits, "firsts": o.firsts})
	}
}

// first() of a fresh iterator (0 when the constructor panics; the run itself reports that)
func vfC11IterObsFirst(blob []byte) (f uint32) {
	defer func() { recover() }()
	return newCompressedPostingIterator(append([]byte(nil), blob...), stringToNGram("abc")).first()
}

// the limits of a complete walk: first(), then first() after each next, until MaxUint32 (at most len(blob)+2 rounds;
// must only be called when the walk is known to terminate or from the watchdogged goroutine)
func vfC11IterWalkLimits(blob []byte) (ls []uint32) {
	defer func() { recover() }()
	it := newCompressedPostingIterator(append([]byte(nil), blob...), stringToNGram("abc"))
	for i := 0; i < len(blob)+2 && it.first() != math.MaxUint32; i++ {
		l := it.first()
		ls = append(ls, l)
		it.next(l)
	}
	return
}
