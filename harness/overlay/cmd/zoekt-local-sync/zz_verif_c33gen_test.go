package main

// C33 translator: regenerates coq/Generated/LocalSyncSinks.v from the CURRENT sources of cmd/zoekt-local-sync (go/ast):
//   ls_sinks      every call of a file-system-mutating function (os.* outside a read-only whitelist, gitindex.IndexGitRepo,
//                 index.NewBuilder) with its enclosing function and the dry-run/force guards that dominate it syntactically;
//   ls_sink_calls every call, inside the package, of a function from which such a sink is reachable, with its guards and
//                 the arguments that carry the mode (force / dry-run);
//   ls_gate       gitindex.indexGitRepo: is there a top-level `if opts.DryRun { return ... }`, and which building calls
//                 (NewBuilder, prepare*Build, builder methods) occur before it.
// Model/LocalSyncSinks.v holds the table the op alphabet of Model/LocalSync.v was written from; Props/C33.v compares.
// The text is handed to the check through a VERIF_OUT record {"kind":"gen","file":...,"text":...}.

import (
	"bytes"
	"fmt"
	"go/ast"
	"go/parser"
	"go/printer"
	"go/token"
	"io/fs"
	"path/filepath"
	"sort"
	"strings"
	"testing"
)

var c33ReadOnlyOS = map[string]bool{"ReadDir": true, "Stat": true, "Lstat": true, "ReadFile": true, "Open": true, "OpenRoot": true,
	"Getenv": true, "Exit": true, "Getwd": true, "IsNotExist": true, "IsExist": true, "Readlink": true, "Hostname": true,
	"LookupEnv": true, "Environ": true, "Executable": true, "UserHomeDir": true, "SameFile": true, "Getpid": true}

func c33Expr(fset *token.FileSet, e ast.Node) string {
	var b bytes.Buffer
	printer.Fprint(&b, fset, e)
	return strings.Join(strings.Fields(b.String()), " ")
}

func c33Modeish(s string) bool {
	l := strings.ToLower(s)
	return strings.Contains(l, "force") || strings.Contains(l, "dry")
}

type c33Call struct {
	fn, callee, guard, args string
	pos                     token.Pos
}

func c33Terminates(b *ast.BlockStmt) bool {
	if b == nil || len(b.List) == 0 {
		return false
	}
	switch s := b.List[len(b.List)-1].(type) {
	case *ast.ReturnStmt:
		return true
	case *ast.BranchStmt:
		return s.Tok == token.CONTINUE || s.Tok == token.BREAK || s.Tok == token.GOTO
	case *ast.ExprStmt:
		if c, ok := s.X.(*ast.CallExpr); ok {
			if id, ok := c.Fun.(*ast.Ident); ok && id.Name == "panic" {
				return true
			}
		}
	}
	return false
}

// c33Walk visits a statement list keeping the mode guards (conditions mentioning force/dry) that dominate each call.
func c33Walk(fset *token.FileSet, fn string, list []ast.Stmt, guards []string, emit func(c *ast.CallExpr, guards []string)) {
	calls := func(n ast.Node, g []string) {
		if n == nil {
			return
		}
		ast.Inspect(n, func(x ast.Node) bool {
			if fl, ok := x.(*ast.FuncLit); ok {
				c33Walk(fset, fn, fl.Body.List, g, emit)
				return false
			}
			if c, ok := x.(*ast.CallExpr); ok {
				emit(c, g)
			}
			return true
		})
	}
	with := func(g []string, c string) []string {
		if !c33Modeish(c) {
			return g
		}
		return append(append([]string{}, g...), c)
	}
	for _, st := range list {
		switch s := st.(type) {
		case *ast.IfStmt:
			if s.Init != nil {
				calls(s.Init, guards)
			}
			calls(s.Cond, guards)
			cond := c33Expr(fset, s.Cond)
			c33Walk(fset, fn, s.Body.List, with(guards, cond), emit)
			neg := "!(" + cond + ")"
			switch e := s.Else.(type) {
			case *ast.BlockStmt:
				c33Walk(fset, fn, e.List, with(guards, neg), emit)
			case *ast.IfStmt:
				c33Walk(fset, fn, []ast.Stmt{e}, with(guards, neg), emit)
			}
			if s.Else == nil && c33Terminates(s.Body) {
				guards = with(guards, neg) // the rest of this list only runs when the condition was false
			}
		case *ast.ForStmt:
			calls(s.Init, guards)
			calls(s.Cond, guards)
			calls(s.Post, guards)
			c33Walk(fset, fn, s.Body.List, guards, emit)
		case *ast.RangeStmt:
			calls(s.X, guards)
			c33Walk(fset, fn, s.Body.List, guards, emit)
		case *ast.BlockStmt:
			c33Walk(fset, fn, s.List, guards, emit)
		case *ast.SwitchStmt:
			calls(s.Init, guards)
			calls(s.Tag, guards)
			for _, cc := range s.Body.List {
				c33Walk(fset, fn, cc.(*ast.CaseClause).Body, guards, emit)
			}
		default:
			calls(st, guards)
		}
	}
}

func c33CoqStr(s string) string { return `"` + strings.ReplaceAll(s, `"`, `""`) + `"` }

func TestVerifC33Gen(t *testing.T) {
	fset := token.NewFileSet()
	pkgs, err := parser.ParseDir(fset, ".", func(fi fs.FileInfo) bool { return !strings.HasSuffix(fi.Name(), "_test.go") }, 0)
	if err != nil {
		t.Fatal(err)
	}
	var funcs []*ast.FuncDecl
	for _, p := range pkgs {
		for _, name := range vfSortedKeys(p.Files) {
			for _, d := range p.Files[name].Decls {
				if fd, ok := d.(*ast.FuncDecl); ok && fd.Body != nil {
					funcs = append(funcs, fd)
				}
			}
		}
	}
	local := map[string]bool{}
	for _, fd := range funcs {
		if fd.Recv == nil {
			local[fd.Name.Name] = true
		}
	}
	var all []c33Call
	for _, fd := range funcs {
		name := fd.Name.Name
		if fd.Recv != nil {
			name = c33Expr(fset, fd.Recv.List[0].Type) + "." + name
		}
		c33Walk(fset, name, fd.Body.List, nil, func(c *ast.CallExpr, guards []string) {
			callee := ""
			switch f := c.Fun.(type) {
			case *ast.Ident:
				if local[f.Name] {
					callee = f.Name
				}
			case *ast.SelectorExpr:
				if x, ok := f.X.(*ast.Ident); ok && (x.Name == "os" || x.Name == "gitindex" || x.Name == "index" || x.Name == "unix" || x.Name == "ioutil") {
					callee = x.Name + "." + f.Sel.Name
				}
			}
			if callee == "" {
				return
			}
			var args []string
			for _, a := range c.Args {
				if cl, ok := a.(*ast.CompositeLit); ok {
					for _, el := range cl.Elts {
						if kv, ok := el.(*ast.KeyValueExpr); ok && c33Modeish(c33Expr(fset, kv)) {
							args = append(args, c33Expr(fset, kv))
						}
					}
				} else if s := c33Expr(fset, a); c33Modeish(s) {
					args = append(args, s)
				}
			}
			all = append(all, c33Call{name, callee, strings.Join(guards, " && "), strings.Join(args, ", "), c.Pos()})
		})
	}
	isSink := func(callee string) bool {
		switch {
		case strings.HasPrefix(callee, "os."):
			return !c33ReadOnlyOS[strings.TrimPrefix(callee, "os.")]
		case strings.HasPrefix(callee, "ioutil."):
			return true
		}
		return callee == "gitindex.IndexGitRepo" || callee == "index.NewBuilder"
	}
	reach := map[string]bool{}
	for _, c := range all {
		if isSink(c.callee) {
			reach[c.fn] = true
		}
	}
	for changed := true; changed; {
		changed = false
		for _, c := range all {
			if reach[c.callee] && !reach[c.fn] {
				reach[c.fn] = true
				changed = true
			}
		}
	}
	sort.SliceStable(all, func(i, j int) bool {
		if all[i].fn != all[j].fn {
			return all[i].fn < all[j].fn
		}
		return all[i].pos < all[j].pos
	})
	var sinks, calls []string
	for _, c := range all {
		switch {
		case isSink(c.callee):
			sinks = append(sinks, fmt.Sprintf("  (%s, %s, %s)", c33CoqStr(c.fn), c33CoqStr(c.callee), c33CoqStr(c.guard)))
		case reach[c.callee]:
			calls = append(calls, fmt.Sprintf("  (%s, %s, %s, %s)", c33CoqStr(c.fn), c33CoqStr(c.callee), c33CoqStr(c.guard), c33CoqStr(c.args)))
		}
	}

	// ---- gitindex.indexGitRepo: the DryRun gate and what is called before it
	gateFound := false
	var before []string
	gfile := filepath.Join("..", "..", "gitindex", "index.go")
	gf, err := parser.ParseFile(fset, gfile, nil, 0)
	if err != nil {
		t.Fatal(err)
	}
	building := func(callee string) bool {
		return callee == "index.NewBuilder" || callee == "prepareNormalBuild" || callee == "prepareDeltaBuild" ||
			strings.HasPrefix(callee, "builder.") || strings.HasPrefix(callee, "os.") && !c33ReadOnlyOS[strings.TrimPrefix(callee, "os.")]
	}
	for _, d := range gf.Decls {
		fd, ok := d.(*ast.FuncDecl)
		if !ok || fd.Name.Name != "indexGitRepo" || fd.Body == nil {
			continue
		}
		for _, st := range fd.Body.List {
			if is, ok := st.(*ast.IfStmt); ok && is.Else == nil && c33Expr(fset, is.Cond) == "opts.DryRun" && c33Terminates(is.Body) {
				if _, ok := is.Body.List[len(is.Body.List)-1].(*ast.ReturnStmt); ok && len(is.Body.List) == 1 {
					gateFound = true
					break
				}
			}
			ast.Inspect(st, func(x ast.Node) bool {
				if c, ok := x.(*ast.CallExpr); ok {
					if s := c33Expr(fset, c.Fun); building(s) {
						before = append(before, s)
					}
				}
				return true
			})
		}
	}
	var bs []string
	for _, b := range before {
		bs = append(bs, c33CoqStr(b))
	}
	lst := func(xs []string) string {
		if len(xs) == 0 {
			return "[]"
		}
		return "[\n" + strings.Join(xs, ";\n") + " ]"
	}
	var sb strings.Builder
	sb.WriteString("(* GENERATED by harness/overlay/cmd/zoekt-local-sync/zz_verif_c33gen_test.go from cmd/zoekt-local-sync/*.go and\n   gitindex/index.go of the checked tree — do not edit *)\n")
	sb.WriteString("From Coq Require Import String List.\nImport ListNotations.\nLocal Open Scope string_scope.\n\n")
	sb.WriteString("(* (enclosing function, file-system-mutating callee, dominating force/dry-run guards) *)\n")
	sb.WriteString("Definition ls_sinks : list (string * string * string) := " + lst(sinks) + ".\n\n")
	sb.WriteString("(* (caller, callee from which a sink is reachable, dominating force/dry-run guards, mode-carrying arguments) *)\n")
	sb.WriteString("Definition ls_sink_calls : list (string * string * string * string) := " + lst(calls) + ".\n\n")
	sb.WriteString("(* gitindex.indexGitRepo: a top-level `if opts.DryRun { return ... }` exists; building calls before it *)\n")
	sb.WriteString(fmt.Sprintf("Definition ls_gate : bool * list string := (%v, %s).\n", gateFound, "["+strings.Join(bs, "; ")+"]"))
	vfEmit(map[string]any{"kind": "gen", "file": "LocalSyncSinks.v", "text": sb.String()})
}
