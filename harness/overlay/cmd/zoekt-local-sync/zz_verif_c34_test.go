package main

// C34: zoekt-local-sync -f makes the index match the discovered repositories. The scenario engine, the Coq
// case encoding and the oracles (independent discovery, exact inventory after a successful sync -f,
// fail-before-change on colliding names, remove -f exactness) live in zz_verif_c33_test.go (lsRun, step).

import "testing"

func TestVerifC34(t *testing.T) {
	lsRun(t, "C34", vfN(120))
}
