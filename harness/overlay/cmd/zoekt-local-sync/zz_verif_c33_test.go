package main

// C33 / C34 correspondence + oracles for cmd/zoekt-local-sync. Mapped into /repo/cmd/zoekt-local-sync by
// `go test -overlay`. A scenario is a history over one scratch world (directory tree with generated git
// repositories, copied from templates made with the git CLI) and one index directory. Every step runs the REAL
// command (execute) as a preview and then with -f on the same state, with snapshots of the index directory in
// between, and emits one Coq case (state, command, observed outputs, inventory read back).

import (
	"bytes"
	"crypto/sha1"
	"fmt"
	"io"
	"io/fs"
	"log"
	"net/url"
	"os"
	"os/exec"
	"path/filepath"
	"regexp"
	"sort"
	"strconv"
	"strings"
	"syscall"
	"testing"
	"time"

	"github.com/sourcegraph/zoekt"
	"github.com/sourcegraph/zoekt/index"
)

// ---------------------------------------------------------------- scratch world

type lsEnv struct {
	t       *testing.T
	r       *vfRand
	base    string // scratch
	w       string // world directory (canonical "")
	idx     string // index directory
	tplWork [3]string
	tplBare [3]string
	tplEmpty string
	head    [3]string
	intern  map[string]uint64
	otherCache map[string][]byte // shards built "by another tool": name\x00source -> file bytes
	// world bookkeeping: canonical source -> repo
	repos map[string]*lsRepo
	forceAdd bool
	profile  string
	wantBoth bool // a repository just moved between roots: prefer syncing both roots
	wantRoots []string // C34: the root set the next sync should preferably use (set by the collision generator)
	lastColl  string   // C34: one of the two colliding directories of the last step (often deleted before the next one)
}

type lsRepo struct {
	kind string // work | bare | empty | gitfile | emptygit
	ver  int
	url  int // 0 none, 1,2: zoekt.web-url variants
}

func lsGit(t *testing.T, dir string, args ...string) string {
	t.Helper()
	cmd := exec.Command("git", args...)
	cmd.Dir = dir
	cmd.Env = append(os.Environ(),
		"GIT_CONFIG_GLOBAL=/dev/null", "GIT_CONFIG_SYSTEM=/dev/null", "GIT_CONFIG_NOSYSTEM=1",
		"GIT_COMMITTER_NAME=V", "GIT_COMMITTER_EMAIL=v@example.com", "GIT_AUTHOR_NAME=V", "GIT_AUTHOR_EMAIL=v@example.com",
		"GIT_COMMITTER_DATE=2024-01-01T00:00:00Z", "GIT_AUTHOR_DATE=2024-01-01T00:00:00Z")
	out, err := cmd.CombinedOutput()
	if err != nil {
		t.Fatalf("git %v: %v\n%s", args, err, out)
	}
	return strings.TrimSpace(string(out))
}

func lsNewEnv(t *testing.T, tag string) *lsEnv {
	defer lsTimed("templates")()
	log.SetOutput(io.Discard)
	tmp := os.Getenv("VERIF_TMP")
	if tmp == "" {
		tmp = t.TempDir()
	}
	base := filepath.Join(tmp, "ls-"+tag)
	os.RemoveAll(base)
	if err := os.MkdirAll(base, 0o755); err != nil {
		t.Fatal(err)
	}
	base, _ = filepath.EvalSymlinks(base)
	e := &lsEnv{t: t, r: vfNewRand(vfSeed() + uint64(len(tag))*7919), base: base, w: filepath.Join(base, "w"), idx: filepath.Join(base, "idx"),
		intern: map[string]uint64{}, otherCache: map[string][]byte{}, repos: map[string]*lsRepo{}}
	tpl := filepath.Join(base, "tpl")
	for v := 0; v < 3; v++ {
		d := filepath.Join(tpl, fmt.Sprintf("work%d", v))
		os.MkdirAll(d, 0o755)
		lsGit(t, d, "init", "-q", "-b", "main", ".")
		os.WriteFile(filepath.Join(d, "README.md"), []byte(fmt.Sprintf("version %d of the repository\n", v)), 0o644)
		if v == 2 { // the "big" version: several shards under a small -shard_limit
			for k := 0; k < 4; k++ {
				os.WriteFile(filepath.Join(d, fmt.Sprintf("big%d.txt", k)), bytes.Repeat([]byte(fmt.Sprintf("line %d of a bigger file %d\n", k, v)), 60), 0o644)
			}
		}
		lsGit(t, d, "add", ".")
		lsGit(t, d, "commit", "-q", "-m", "c")
		os.RemoveAll(filepath.Join(d, ".git", "hooks"))
		e.head[v] = lsGit(t, d, "rev-parse", "HEAD")
		e.tplWork[v] = d
		b := filepath.Join(tpl, fmt.Sprintf("bare%d.git", v))
		lsGit(t, tpl, "clone", "-q", "--bare", d, b)
		os.RemoveAll(filepath.Join(b, "hooks"))
		// a bare clone records the origin; drop it so that work and bare copies carry the same metadata
		lsGit(t, b, "remote", "remove", "origin")
		e.tplBare[v] = b
	}
	e.tplEmpty = filepath.Join(tpl, "empty")
	os.MkdirAll(e.tplEmpty, 0o755)
	lsGit(t, e.tplEmpty, "init", "-q", "-b", "main", ".")
	os.RemoveAll(filepath.Join(e.tplEmpty, ".git", "hooks"))
	return e
}

func lsCopyTree(t *testing.T, src, dst string) {
	err := filepath.WalkDir(src, func(p string, d fs.DirEntry, err error) error {
		if err != nil {
			return err
		}
		rel, _ := filepath.Rel(src, p)
		q := filepath.Join(dst, rel)
		if d.IsDir() {
			return os.MkdirAll(q, 0o755)
		}
		b, err := os.ReadFile(p)
		if err != nil {
			return err
		}
		return os.WriteFile(q, b, 0o644)
	})
	if err != nil {
		t.Fatal(err)
	}
}

func (e *lsEnv) canon(p string) string { // real path under the world -> canonical path
	if p == e.w {
		return "/"
	}
	if strings.HasPrefix(p, e.w+"/") {
		return p[len(e.w):]
	}
	return p
}

var lsURLs = []string{"", "http://example.com/one", "http://example.com/two"}

func (e *lsEnv) writeURL(dir string, rp *lsRepo) {
	if rp.kind != "work" && rp.kind != "bare" {
		return
	}
	cfg := filepath.Join(dir, ".git", "config")
	if rp.kind == "bare" {
		cfg = filepath.Join(dir, "config")
	}
	b, err := os.ReadFile(cfg)
	if err != nil {
		e.t.Fatal(err)
	}
	s := string(b)
	if i := strings.Index(s, "[zoekt]"); i >= 0 {
		s = s[:i]
	}
	if rp.url != 0 {
		s += "[zoekt]\n\tweb-url = " + lsURLs[rp.url] + "\n"
	}
	os.WriteFile(cfg, []byte(s), 0o644)
}

// addRepo materialises a repository of the given kind at canonical path c (relative to the world).
func (e *lsEnv) addRepo(c string, kind string, ver int) {
	dir := filepath.Join(e.w, c)
	os.RemoveAll(dir)
	os.MkdirAll(filepath.Dir(dir), 0o755)
	switch kind {
	case "work":
		lsCopyTree(e.t, e.tplWork[ver], dir)
	case "bare":
		lsCopyTree(e.t, e.tplBare[ver], dir)
	case "empty":
		lsCopyTree(e.t, e.tplEmpty, dir)
	case "gitfile":
		os.MkdirAll(dir, 0o755)
		os.WriteFile(filepath.Join(dir, ".git"), []byte("this is not a gitdir pointer\n"), 0o644)
	case "emptygit":
		os.MkdirAll(filepath.Join(dir, ".git"), 0o755)
	}
	e.repos[c] = &lsRepo{kind: kind, ver: ver}
}

func (e *lsEnv) dropUnder(c string) {
	for k := range e.repos {
		if k == c || strings.HasPrefix(k, c+"/") {
			delete(e.repos, k)
		}
	}
}

// fpString: the fingerprint string a build of the repository at canonical source c records under options hash oh
func (e *lsEnv) fpString(oh, c string) string {
	rp := e.repos[c]
	if rp == nil {
		return ""
	}
	return oh + "|" + e.head[rp.ver] + "|" + lsURLs[rp.url] + "|"
}

func (e *lsEnv) internFP(s string) uint64 {
	if v, ok := e.intern[s]; ok {
		return v
	}
	v := uint64(len(e.intern) + 1)
	e.intern[s] = v
	return v
}

// ---------------------------------------------------------------- Coq encoding of the state

func lsSegs(p string) []string { // canonical "/a/b" -> [a b]
	var out []string
	for _, s := range strings.Split(p, "/") {
		if s != "" {
			out = append(out, s)
		}
	}
	return out
}

func cStrList(xs []string) string {
	if len(xs) == 0 {
		return "(@nil (list N))"
	}
	ss := make([]string, len(xs))
	for i, x := range xs {
		ss[i] = cStr(x)
	}
	return cList(ss)
}

// treeTerm encodes the directory as a Model.LocalSync.node. The contents of directories named ".git" or
// "objects" are elided (the generator never nests repositories inside them).
func lsTreeTerm(t *testing.T, dir string, name string) string {
	if name == "objects" {
		return "(NDir [])"
	}
	if name == ".git" { // only what discovery looks at when such a directory is given as a ROOT: its .git and objects entries
		var ch []string
		if st, err := os.Lstat(filepath.Join(dir, ".git")); err == nil && st.IsDir() {
			ch = append(ch, cPair(cStr(".git"), "(NDir [])"))
		}
		if st, err := os.Stat(filepath.Join(dir, "objects")); err == nil && st.IsDir() {
			ch = append(ch, cPair(cStr("objects"), "(NDir [])"))
		}
		if len(ch) == 0 {
			return "(NDir [])"
		}
		return "(NDir " + cList(ch) + ")"
	}
	ents, err := os.ReadDir(dir)
	if err != nil {
		t.Fatal(err)
	}
	var ch []string
	for _, en := range ents {
		p := filepath.Join(dir, en.Name())
		st, err := os.Lstat(p)
		if err != nil {
			t.Fatal(err)
		}
		var n string
		switch {
		case st.IsDir():
			n = lsTreeTerm(t, p, en.Name())
		case st.Mode().IsRegular():
			n = "NFile"
		default:
			n = "NOther"
		}
		ch = append(ch, cPair(cStr(en.Name()), n))
	}
	if len(ch) == 0 {
		return "(NDir [])"
	}
	return "(NDir " + cList(ch) + ")"
}

var lsShardRe = regexp.MustCompile(`^(.*)_v(\d+)\.(\d{5})\.zoekt$`)

// lsFileKey decodes a shard file name into the model's key (name, number).
func lsFileKey(fn string) (string, int) {
	if m := lsShardRe.FindStringSubmatch(fn); m != nil && m[2] == strconv.Itoa(index.IndexFormatVersion) {
		if n, err := url.QueryUnescape(m[1]); err == nil && url.QueryEscape(n) == m[1] {
			k, _ := strconv.Atoi(m[3])
			return n, k
		}
	}
	return "\x00" + fn, 0
}

type lsShard struct {
	file   string
	key    string
	num    int
	repo   string
	source string
	fp     uint64
	fpstr  string
	bad    bool
}

func lsShardFP(r *zoekt.Repository) string {
	br := fmt.Sprint(r.Branches)
	if len(r.Branches) == 1 && r.Branches[0].Name == "HEAD" {
		br = r.Branches[0].Version
	}
	return r.IndexOptions + "|" + br + "|" + r.URL + "|" + r.CommitURLTemplate + r.FileURLTemplate + r.LineFragmentTemplate
}

func (e *lsEnv) readInv() []lsShard {
	ents, err := os.ReadDir(e.idx)
	if err != nil {
		return nil
	}
	var out []lsShard
	for _, en := range ents {
		if en.IsDir() || filepath.Ext(en.Name()) != ".zoekt" {
			continue
		}
		k, n := lsFileKey(en.Name())
		sh := lsShard{file: en.Name(), key: k, num: n}
		repos, _, err := index.ReadMetadataPathAlive(filepath.Join(e.idx, en.Name()))
		if err != nil || len(repos) != 1 {
			sh.bad = true
		} else {
			sh.repo = repos[0].Name
			sh.source = e.canon(repos[0].Source)
			sh.fpstr = lsShardFP(repos[0])
			sh.fp = e.internFP(sh.fpstr)
		}
		out = append(out, sh)
	}
	return out
}

func lsInvTerm(inv []lsShard) string {
	if len(inv) == 0 {
		return "(@nil shard)"
	}
	var ss []string
	for _, s := range inv {
		ss = append(ss, cApp("mkShard", cPair(cStr(s.key), cNat(s.num)), cStr(s.repo), cStr(s.source), cN(s.fp), cBool(s.bad)))
	}
	return cList(ss)
}

// worldFP: fingerprint a build with the given options hash would record, per repository directory of the world
func (e *lsEnv) worldFPTerm(optsHash string) (string, map[string]uint64) {
	m := map[string]uint64{}
	var ss []string
	for _, c := range vfSortedKeys(e.repos) {
		rp := e.repos[c]
		if rp.kind == "work" || rp.kind == "bare" {
			fp := e.internFP(optsHash + "|" + e.head[rp.ver] + "|" + lsURLs[rp.url] + "|")
			m[c] = fp
			ss = append(ss, cPair(cStr(c), cSome(cN(fp))))
		} else {
			ss = append(ss, cPair(cStr(c), "None"))
		}
		if rp.kind == "work" {
			if st, err := os.Stat(filepath.Join(e.w, c, ".git", ".git")); err == nil && st.IsDir() {
				fp := e.internFP(optsHash + "|" + e.head[0] + "||")
				m[c+"/.git"] = fp
				ss = append(ss, cPair(cStr(c+"/.git"), cSome(cN(fp))))
			}
		}
	}
	if len(ss) == 0 {
		return "(@nil (list N * option N))", m
	}
	return cList(ss), m
}

// ---------------------------------------------------------------- snapshots

type lsStat struct {
	size  int64
	sum   string
	mtime int64
	ino   uint64
	mode  fs.FileMode
}

// snapshot of the index directory: every entry (recursively) + the directory itself ("." entry; absent if missing)
func lsSnapshot(dir string) map[string]lsStat {
	defer lsTimed("snapshot")()
	out := map[string]lsStat{}
	filepath.WalkDir(dir, func(p string, d fs.DirEntry, err error) error {
		if err != nil {
			return nil
		}
		st, err := os.Lstat(p)
		if err != nil {
			return nil
		}
		rel, _ := filepath.Rel(dir, p)
		s := lsStat{size: st.Size(), mtime: st.ModTime().UnixNano(), mode: st.Mode()}
		if sys, ok := st.Sys().(*syscall.Stat_t); ok {
			s.ino = sys.Ino
		}
		if st.Mode().IsRegular() {
			b, _ := os.ReadFile(p)
			s.sum = fmt.Sprintf("%x", sha1.Sum(b))
		}
		if st.IsDir() {
			s.size = 0
		}
		out[rel] = s
		return nil
	})
	return out
}

func lsSnapDiff(a, b map[string]lsStat) []string {
	var d []string
	for k, x := range a {
		y, ok := b[k]
		if !ok {
			d = append(d, "deleted:"+k)
		} else if x != y {
			d = append(d, "changed:"+k)
		}
	}
	for k := range b {
		if _, ok := a[k]; !ok {
			d = append(d, "created:"+k)
		}
	}
	sort.Strings(d)
	return d
}

// ---------------------------------------------------------------- running the command, parsing its output

var lsRemRe = regexp.MustCompile(`^(Would remove|Removing) (.*) \(repository ("(?:[^"\\]|\\.)*"), source (.*): (repository is no longer selected|explicitly selected|repository is now named ("(?:[^"\\]|\\.)*"))\)$`)
var lsIdxRe = regexp.MustCompile(`^(Indexing|Would index|Indexed|Up to date) ("(?:[^"\\]|\\.)*") from (.*)$`)

type lsLine struct {
	kind   string // would-remove removing indexing would-index indexed up-to-date pass-f
	file   string // shard file name (removals)
	name   string
	source string
	reason string // not-selected | explicit | renamed
	now    string
}

func (e *lsEnv) parseOut(out string) []lsLine {
	var ls []lsLine
	for _, l := range strings.Split(strings.TrimSuffix(out, "\n"), "\n") {
		if l == "" {
			continue
		}
		if l == "Pass -f to apply these changes." {
			ls = append(ls, lsLine{kind: "pass-f"})
			continue
		}
		if m := lsRemRe.FindStringSubmatch(l); m != nil {
			name, err := strconv.Unquote(m[3])
			if err != nil {
				e.t.Fatalf("unparsable line %q", l)
			}
			x := lsLine{kind: map[string]string{"Would remove": "would-remove", "Removing": "removing"}[m[1]], file: filepath.Base(m[2]), name: name, source: e.canon(m[4])}
			if filepath.Dir(m[2]) != e.idx {
				e.t.Fatalf("removal outside the index directory: %q", l)
			}
			switch {
			case m[5] == "repository is no longer selected":
				x.reason = "not-selected"
			case m[5] == "explicitly selected":
				x.reason = "explicit"
			default:
				x.reason = "renamed"
				x.now, _ = strconv.Unquote(m[6])
			}
			ls = append(ls, x)
			continue
		}
		if m := lsIdxRe.FindStringSubmatch(l); m != nil {
			name, err := strconv.Unquote(m[2])
			if err != nil {
				e.t.Fatalf("unparsable line %q", l)
			}
			ls = append(ls, lsLine{kind: map[string]string{"Indexing": "indexing", "Would index": "would-index", "Indexed": "indexed", "Up to date": "up-to-date"}[m[1]], name: name, source: e.canon(m[3])})
			continue
		}
		e.t.Fatalf("unparsable output line %q", l)
	}
	return ls
}

func lsLinesTerm(ls []lsLine) string {
	if len(ls) == 0 {
		return "(@nil line)"
	}
	var ss []string
	for _, l := range ls {
		switch l.kind {
		case "pass-f":
			ss = append(ss, "LPassF")
		case "would-remove", "removing":
			k, n := lsFileKey(l.file)
			reason := "RNotSelected"
			if l.reason == "explicit" {
				reason = "RExplicit"
			} else if l.reason == "renamed" {
				reason = cApp("RRenamed", cStr(l.now))
			}
			a := cApp("mkAction", cPair(cStr(k), cNat(n)), cStr(l.name), cStr(l.source), reason)
			if l.kind == "would-remove" {
				ss = append(ss, cApp("LWouldRemove", a))
			} else {
				ss = append(ss, cApp("LRemoving", a))
			}
		default:
			c := map[string]string{"indexing": "LIndexing", "would-index": "LWouldIndex", "indexed": "LIndexed", "up-to-date": "LUpToDate"}[l.kind]
			ss = append(ss, cApp(c, cStr(l.name), cStr(l.source)))
		}
	}
	return cList(ss)
}

func lsStatus(err error) uint64 {
	if err == nil {
		return 0
	}
	s := err.Error()
	switch {
	case strings.Contains(s, "duplicate repository name"):
		return 1
	case strings.Contains(s, "was discovered by more than one root"):
		return 2
	case strings.HasPrefix(s, "stat root") || strings.Contains(s, "is not a directory") || strings.HasPrefix(s, "duplicate root") ||
		strings.Contains(s, "cannot derive a repository name"):
		return 3
	case strings.HasPrefix(s, "read metadata from") || strings.Contains(s, "repositories, want 1"):
		return 4
	case strings.HasPrefix(s, "index \""):
		return 5
	case strings.HasSuffix(s, "not found") && strings.HasPrefix(s, "repository "):
		return 6
	case strings.Contains(s, "is ambiguous"):
		return 7
	}
	return 99
}

type lsCmd struct {
	remove bool
	roots  []string // canonical
	sels   []string // canonical selectors
	extra  []string // extra flags (sync)
}

func (e *lsEnv) args(c lsCmd, force bool) []string {
	var a []string
	if c.remove {
		a = append(a, "remove", "-index", e.idx)
		if force {
			a = append(a, "-f")
		}
		for _, s := range c.sels {
			if strings.HasPrefix(s, "/") {
				s = e.w + s
			}
			a = append(a, s)
		}
		return a
	}
	a = append(a, "-index", e.idx, "-disable_ctags", "-submodules=false", "-parallelism=1")
	a = append(a, c.extra...)
	if force {
		a = append(a, "-f")
	}
	for _, r := range c.roots {
		a = append(a, e.w+r)
	}
	return a
}

func (e *lsEnv) optsHash(c lsCmd) string {
	flags, cfg := newSyncFlagSet("x", io.Discard)
	if err := flags.Parse(e.args(c, false)); err != nil {
		e.t.Fatal(err)
	}
	cfg.buildOptions.SetDefaults()
	return cfg.buildOptions.GetHash()
}

var lsTimes = map[string]time.Duration{}

func lsTimed(k string) func() {
	t0 := time.Now()
	return func() { lsTimes[k] += time.Since(t0) }
}

func (e *lsEnv) exec(c lsCmd, force bool) (string, error) {
	defer lsTimed(fmt.Sprintf("exec-force=%v", force))()
	var out, errOut bytes.Buffer
	err := execute(e.args(c, force), &out, &errOut)
	return out.String(), err
}

func (c lsCmd) term() string {
	if c.remove {
		return cApp("CRemove", cStrList(c.sels))
	}
	var rs []string
	for _, r := range c.roots {
		rs = append(rs, cStrList(lsSegs(r)))
	}
	if len(rs) == 0 {
		return "(CSync [])"
	}
	return cApp("CSync", cList(rs))
}

// ---------------------------------------------------------------- independent discovery (oracle side)

type lsSpec struct {
	name, source string
	root         int // position of the root (in the command line) under which it was found
}

// lsCollision: two discovered repositories that would get the same name, or one directory reached twice
type lsCollision struct {
	what     string // "name" | "source"
	sameRoot bool
	a, b     lsSpec
}

func (c lsCollision) String() string {
	where := "under different roots"
	if c.sameRoot {
		where = "under the same root"
	}
	if c.what == "name" {
		return fmt.Sprintf("name %q for %s and %s (%s)", c.a.name, c.a.source, c.b.source, where)
	}
	return fmt.Sprintf("directory %s discovered twice as %q and %q (%s)", c.a.source, c.a.name, c.b.name, where)
}

// lsIndependentDiscover finds the repositories below the roots the plain way: recursive descent with os.Stat,
// outermost repository wins. Every discovered directory is compared with EVERY other one (whichever roots they
// were found under): returns the specs, the colliding pairs (same name / same directory) and whether a root is bad.
func (e *lsEnv) independentDiscover(roots []string) (specs []lsSpec, colls []lsCollision, rootErr bool) {
	seenRoot := map[string]bool{}
	for _, r := range roots {
		real := e.w + r
		st, err := os.Stat(real)
		if err != nil || !st.IsDir() || seenRoot[r] {
			return nil, nil, true
		}
		seenRoot[r] = true
	}
	var rec func(ri int, root, dir string)
	rec = func(ri int, root, dir string) {
		rel, _ := filepath.Rel(root, dir)
		name := filepath.ToSlash(rel)
		if rel == "." {
			name = filepath.Base(root)
		}
		hit := false
		if st, err := os.Stat(filepath.Join(dir, ".git")); err == nil && (st.IsDir() || st.Mode().IsRegular()) {
			hit = true
		} else if strings.HasSuffix(filepath.Base(dir), ".git") {
			if st, err := os.Stat(filepath.Join(dir, "objects")); err == nil && st.IsDir() {
				hit = true
				name = strings.TrimSuffix(name, ".git")
			}
		}
		if hit {
			if name == "" { // a root called ".git" that is a bare repository: no name can be derived
				rootErr = true
			}
			specs = append(specs, lsSpec{name, e.canon(dir), ri})
			return
		}
		ents, _ := os.ReadDir(dir)
		for _, en := range ents {
			if en.IsDir() {
				rec(ri, root, filepath.Join(dir, en.Name()))
			}
		}
	}
	for i, r := range roots {
		rec(i, e.w+r, e.w+r)
	}
	if rootErr {
		return nil, nil, true
	}
	for i := range specs {
		for j := i + 1; j < len(specs); j++ {
			switch {
			case specs[i].name == specs[j].name:
				colls = append(colls, lsCollision{"name", specs[i].root == specs[j].root, specs[i], specs[j]})
			case normalizeSourceOracle(specs[i].source) == normalizeSourceOracle(specs[j].source):
				colls = append(colls, lsCollision{"source", specs[i].root == specs[j].root, specs[i], specs[j]})
			}
		}
	}
	sort.SliceStable(specs, func(i, j int) bool { return specs[i].name < specs[j].name })
	return specs, colls, false
}

// lsNearMiss: two discovered names that differ only by a ".git" suffix or one trailing character (measured for the
// evidence: the generator must produce near-misses of the collision rule that are NOT collisions)
func lsNearMiss(specs []lsSpec) bool {
	for i := range specs {
		for j := range specs {
			a, b := specs[i].name, specs[j].name
			if i != j && a != b && (a+".git" == b || (len(b) == len(a)+1 && strings.HasPrefix(b, a))) {
				return true
			}
		}
	}
	return false
}

// ---------------------------------------------------------------- one step = one case

type lsStepResult struct {
	coq        string
	nontrivial bool
	class      []string
	sample     map[string]any
	aborted    bool
}

func lsNames(ls []lsLine, kind string) []string {
	var out []string
	for _, l := range ls {
		if l.kind == kind {
			if kind == "would-remove" || kind == "removing" {
				out = append(out, l.file)
			} else {
				out = append(out, l.name)
			}
		}
	}
	sort.Strings(out)
	return out
}

func lsEq(a, b []string) bool {
	if len(a) != len(b) {
		return false
	}
	for i := range a {
		if a[i] != b[i] {
			return false
		}
	}
	return true
}

func lsHas(xs []string, x string) bool {
	for _, y := range xs {
		if x == y {
			return true
		}
	}
	return false
}

// step runs command c as a preview and then forced on the current state. which: "C33" or "C34" selects the oracles.
func (e *lsEnv) step(c lsCmd, which string, history []string) (res lsStepResult) {
	t := e.t
	invBefore := e.readInv()
	tree := lsTreeTerm(t, e.w, "")
	oh := ""
	if !c.remove {
		oh = e.optsHash(c)
	}
	fpTerm, fpMap := e.worldFPTerm(oh)
	replay := func() map[string]any {
		var inv []string
		for _, s := range invBefore {
			inv = append(inv, fmt.Sprintf("%s: repo=%q source=%s fp=%s bad=%v", s.file, s.repo, s.source, s.fpstr, s.bad))
		}
		var world []string
		for _, k := range vfSortedKeys(e.repos) {
			world = append(world, fmt.Sprintf("%s kind=%s ver=%d url=%d", k, e.repos[k].kind, e.repos[k].ver, e.repos[k].url))
		}
		return map[string]any{"seed": vfSeed(), "history": history, "world": world, "index_before": inv,
			"command": strings.Join(e.args(c, false), " "), "world_dir": e.w}
	}

	snap0 := lsSnapshot(e.idx)
	dryOut, dryErr := e.exec(c, false)
	snap1 := lsSnapshot(e.idx)
	if d := lsSnapDiff(snap0, snap1); len(d) > 0 {
		rp := replay()
		rp["diff"] = d
		rp["preview_output"] = dryOut
		kind := "sync"
		if c.remove {
			kind = "remove"
		}
		vfOracleFail("preview-mutates-index-dir:"+kind+":"+strings.SplitN(d[0], ":", 2)[0], "the preview (no -f) changed the index directory", rp)
		res.aborted = true
		return res
	}
	forceOut, forceErr := e.exec(c, true)
	snap2 := lsSnapshot(e.idx)
	invAfter := e.readInv()
	dry := e.parseOut(dryOut)
	force := e.parseOut(forceOut)
	ds, fsx := lsStatus(dryErr), lsStatus(forceErr)
	_, lockErr := os.Stat(filepath.Join(e.idx, lockFileName))

	// ---- C33: the SAME command without -f once more, on the state the forced run left (preview, -f, preview)
	var dry2 []lsLine
	var ds2 uint64
	var dry2Out string
	var dry2Err error
	var snap3 map[string]lsStat
	if which == "C33" {
		dry2Out, dry2Err = e.exec(c, false)
		snap3 = lsSnapshot(e.idx)
		dry2 = e.parseOut(dry2Out)
		ds2 = lsStatus(dry2Err)
	}

	// ---- file-level facts of the forced run
	gone := func(f string) bool { _, ok := snap2[f]; return !ok }
	rewritten := func(f string) bool {
		a, ok1 := snap0[f]
		b, ok2 := snap2[f]
		return ok2 && (!ok1 || a != b)
	}
	untouched := func(f string) bool {
		a, ok1 := snap0[f]
		b, ok2 := snap2[f]
		return ok1 && ok2 && a == b
	}
	shardFile := func(name string) string { return url.QueryEscape(name) + fmt.Sprintf("_v%d.%05d.zoekt", index.IndexFormatVersion, 0) }

	kind := "sync"
	if c.remove {
		kind = "remove"
	}
	var collClass []string
	if which == "C33" {
		rp := func(extra map[string]any) map[string]any {
			m := replay()
			m["preview_output"] = dryOut
			m["forced_output"] = forceOut
			m["preview_error"] = fmt.Sprint(dryErr)
			m["forced_error"] = fmt.Sprint(forceErr)
			m["forced_fs_diff"] = lsSnapDiff(snap0, snap2)
			for k, v := range extra {
				m[k] = v
			}
			return m
		}
		if ds != fsx {
			vfOracleFail(fmt.Sprintf("%s:preview-and-forced-run-fail-differently:%d/%d", kind, ds, fsx), "the preview and the forced run disagree on success", rp(nil))
		}
		// removals: announced == performed (performed = "Removing" lines confirmed by the file-system diff)
		wr := lsNames(dry, "would-remove")
		var performed []string
		for _, f := range lsNames(force, "removing") {
			if gone(f) || rewritten(f) {
				performed = append(performed, f)
			} else {
				vfOracleFail(kind+":removal-reported-but-file-untouched", "the forced run printed Removing for a file it left in place", rp(map[string]any{"file": f}))
			}
		}
		if !lsEq(wr, performed) {
			vfOracleFail(kind+":announced-removals-differ-from-performed", "the preview's Would remove lines are not the removals performed with -f", rp(map[string]any{"announced": wr, "performed": performed}))
		}
		// files that disappeared without any announcement: only higher-numbered shards of a re-indexed repository may
		wi := lsNames(dry, "would-index")
		utd := lsNames(dry, "up-to-date")
		for f := range snap0 {
			if f == "." || !gone(f) || lsHas(wr, f) || lsHas(wr, strings.TrimSuffix(f, ".meta")) {
				continue
			}
			n, _ := lsFileKey(strings.TrimSuffix(f, ".meta"))
			if !lsHas(wi, n) {
				vfOracleFail(kind+":unannounced-deletion", "the forced run deleted a file the preview did not announce", rp(map[string]any{"file": f}))
			}
		}
		// indexing: announced "Would index" <=> shard 0 of that name (re)written; "Up to date" <=> untouched
		for _, n := range wi {
			if !rewritten(shardFile(n)) {
				vfOracleFail(kind+":would-index-announced-but-not-indexed", "the preview announced indexing that -f did not perform", rp(map[string]any{"name": n}))
			}
		}
		for _, n := range utd {
			if !untouched(shardFile(n)) {
				k, why := "other", "its first shard is not in the prune plan: the preview's own index-state decision differs from the forced run's"
				if lsHas(wr, shardFile(n)) {
					k, why = "first-shard-in-prune-plan", "its shard is removed by the same run's pruning first"
				}
				vfOracleFail(kind+":up-to-date-announced-but-reindexed["+k+"]",
					"the preview printed Up to date for a repository that -f re-indexes ("+why+")", rp(map[string]any{"name": n}))
			}
		}
		// anything (re)written that was not announced
		for f := range snap2 {
			if f == "." || f == lockFileName || !rewritten(f) {
				continue
			}
			n, _ := lsFileKey(strings.TrimSuffix(f, ".meta"))
			if !lsHas(wi, n) {
				vfOracleFail(kind+":unannounced-write", "the forced run wrote a file the preview did not announce", rp(map[string]any{"file": f}))
			}
		}
		// ---- preview, -f, preview: the second preview changes nothing either, and after a SUCCESSFUL forced sync it has
		// nothing left to announce (every discovered repository "Up to date", no removal, no error): sync is idempotent
		rp2 := func(extra map[string]any) map[string]any {
			m := rp(extra)
			m["second_preview_output"] = dry2Out
			m["second_preview_error"] = fmt.Sprint(dry2Err)
			return m
		}
		if d := lsSnapDiff(snap2, snap3); len(d) > 0 {
			vfOracleFail("preview-mutates-index-dir:"+kind+":"+strings.SplitN(d[0], ":", 2)[0]+"[second-preview]",
				"the preview run after the forced run changed the index directory", rp2(map[string]any{"diff": d}))
		}
		if !c.remove && (fsx == 0 || fsx == 5) { // 5: some repositories could not be indexed; the run went on with the others
			wr2, wi2 := lsNames(dry2, "would-remove"), lsNames(dry2, "would-index")
			if len(wr2)+len(wi2) > 0 || ds2 != fsx {
				key, what := "sync:second-preview-announces-work", "after a successful sync -f"
				if fsx == 5 {
					key, what = key+"[after-index-failures]", "after a sync -f that pruned and indexed what it could (some repositories cannot be indexed)"
				}
				vfOracleFail(key, what+" the same command without -f still announces removals or indexing (or ends differently): sync -f is not idempotent",
					rp2(map[string]any{"would_remove": wr2, "would_index": wi2, "second_preview_status": ds2}))
			}
			// and it reports exactly the repositories the forced run worked on
			var worked []string
			for _, l := range force {
				if l.kind == "indexing" {
					worked = append(worked, l.name)
				}
			}
			sort.Strings(worked)
			if utd2 := lsNames(dry2, "up-to-date"); fsx == 0 && ds2 == 0 && len(wi2) == 0 && !lsEq(utd2, worked) {
				vfOracleFail("sync:second-preview-up-to-date-set-differs",
					"the repositories reported Up to date after sync -f are not those the forced run indexed or found up to date",
					rp2(map[string]any{"up_to_date": utd2, "forced_run_repositories": worked}))
			}
		}
		if c.remove && fsx == 0 {
			// a removal that was performed is not announced again
			for _, f := range lsNames(dry2, "would-remove") {
				if lsHas(lsNames(force, "removing"), f) {
					vfOracleFail("remove:second-preview-announces-performed-removal",
						"after remove -f the same command without -f announces the removal of a shard that -f reported as removed", rp2(map[string]any{"file": f}))
				}
			}
		}
	}
	if which == "C34" {
		rp := func(extra map[string]any) map[string]any {
			m := replay()
			m["forced_output"] = forceOut
			m["forced_error"] = fmt.Sprint(forceErr)
			var inv []string
			for _, s := range invAfter {
				inv = append(inv, fmt.Sprintf("%s: repo=%q source=%s fp=%s bad=%v", s.file, s.repo, s.source, s.fpstr, s.bad))
			}
			m["index_after"] = inv
			for k, v := range extra {
				m[k] = v
			}
			return m
		}
		shardsOnly := func(s map[string]lsStat) map[string]lsStat {
			o := map[string]lsStat{}
			for k, v := range s {
				if strings.HasSuffix(k, ".zoekt") || strings.HasSuffix(k, ".meta") {
					o[k] = v
				}
			}
			return o
		}
		if !c.remove {
			specs, colls, rootErr := e.independentDiscover(c.roots)
			dup := len(colls) > 0
			if dup {
				e.lastColl = colls[0].b.source
			}
			// which kind of collision the layout contains (evidence histogram) — over ALL pairs of discovered
			// directories, inside one root as well as across roots
			for _, cl := range colls {
				where := "cross-root"
				if cl.sameRoot {
					where = "same-root"
				}
				collClass = append(collClass, "collision="+cl.what+":"+where)
			}
			sort.Strings(collClass)
			collClass = lsUniq(collClass)
			if rootErr {
				collClass = append(collClass, "collision=bad-root")
			} else if !dup && lsNearMiss(specs) {
				collClass = append(collClass, "collision=near-miss-only")
			}
			if dup || rootErr {
				// "if two discovered repositories would get the same name the command fails before changing the index"
				key, what := "sync:bad-root-accepted", "a root is missing, not a directory, repeated, or a repository under it would get the empty name"
				var cs []string
				if dup {
					where := "cross-root"
					if colls[0].sameRoot {
						where = "same-root"
					}
					key = "sync:duplicate-" + colls[0].what + "-accepted:" + where
					what = "two discovered repositories would get the same name"
					if colls[0].what == "source" {
						what = "one repository is discovered through two roots"
					}
					what += " (" + colls[0].String() + ")"
					for _, cl := range colls {
						cs = append(cs, cl.String())
					}
				}
				extra := map[string]any{"collisions": cs, "preview_error": fmt.Sprint(dryErr)}
				changed := lsSnapDiff(shardsOnly(snap0), shardsOnly(snap2))
				if len(changed) > 0 {
					extra["diff"] = changed
				}
				if forceErr == nil {
					w := what + " but sync -f succeeded"
					if len(changed) > 0 {
						w += " and changed the index"
					}
					vfOracleFail(key, w, rp(extra))
				} else if len(changed) > 0 {
					vfOracleFail("sync:failed-discovery-changed-index", what+": sync -f failed but changed shards before failing", rp(extra))
				}
				if dryErr == nil {
					vfOracleFail(strings.Replace(key, "-accepted", "-accepted-by-preview", 1), what+" but the preview (no -f) succeeded", rp(extra))
				}
			} else if fsx >= 1 && fsx <= 3 {
				vfOracleFail("sync:valid-layout-rejected", "sync -f failed in discovery although the roots are valid and no names or sources collide", rp(nil))
			} else if fsx == 0 || fsx == 5 {
				// the forced run prints one Indexing line per discovered repository: compare with the independent discovery
				var got, exp []string
				for _, l := range force {
					if l.kind == "indexing" {
						got = append(got, l.name+" <- "+l.source)
					}
				}
				for _, sp := range specs {
					exp = append(exp, sp.name+" <- "+sp.source)
				}
				sort.Strings(got)
				sort.Strings(exp)
				if !lsEq(got, exp) {
					vfOracleFail("sync:discovered-set-differs", "the repositories sync -f works on are not those found by an independent walk for .git / bare *.git", rp(map[string]any{"got": got, "want": exp}))
				}
			}
			if !dup && !rootErr && (fsx == 0 || fsx == 5) { // also when some repositories failed to index: the others converge
				// exactly one up-to-date repository per discovered spec, nothing else
				want := map[string]lsSpec{}
				for _, s := range specs {
					want[s.name] = s
				}
				seen0 := map[string]bool{}
				for _, sh := range invAfter {
					s, ok := want[sh.repo]
					switch {
					case sh.bad:
						vfOracleFail("sync:unreadable-shard-after-success", "an unreadable shard is left after a successful sync -f", rp(map[string]any{"file": sh.file}))
					case !ok:
						vfOracleFail("sync:extra-repository-after-success", "the index holds a repository that was not discovered", rp(map[string]any{"file": sh.file, "repo": sh.repo}))
					case normalizeSourceOracle(sh.source) != s.source:
						vfOracleFail("sync:wrong-source-after-success", "a shard of a discovered name points at another source", rp(map[string]any{"file": sh.file, "source": sh.source, "want": s.source}))
					case fpMap[s.source] != 0 && sh.fp != fpMap[s.source]:
						vfOracleFail("sync:stale-shard-after-success", "a shard of a discovered repository is not up to date after sync -f", rp(map[string]any{"file": sh.file, "fp": sh.fpstr}))
					case sh.key != sh.repo:
						vfOracleFail("sync:shard-file-name-mismatch", "shard file name does not belong to the repository it holds", rp(map[string]any{"file": sh.file, "repo": sh.repo}))
					}
					if sh.num == 0 && sh.key == sh.repo {
						if seen0[sh.repo] {
							vfOracleFail("sync:duplicate-repository-after-success", "two first shards for one repository", rp(map[string]any{"repo": sh.repo}))
						}
						seen0[sh.repo] = true
					}
				}
				for n, sp := range want {
					if !seen0[n] && fpMap[sp.source] != 0 {
						vfOracleFail("sync:missing-repository-after-success", "a discovered repository has no shard after a successful sync -f", rp(map[string]any{"name": n}))
					}
				}
				for f := range snap2 {
					if strings.HasSuffix(f, ".zoekt.meta") {
						if _, ok := snap2[strings.TrimSuffix(f, ".meta")]; !ok {
							vfOracleFail("sync:orphan-sidecar-after-success", "a .meta sidecar is left without its shard", rp(map[string]any{"file": f}))
						}
					}
				}
				// a second forced run has nothing to do (converged)
				again, err2 := "", error(nil)
				if fsx == 0 {
					again, err2 = e.exec(c, false)
				}
				for _, l := range e.parseOut(again) {
					if l.kind == "would-remove" || l.kind == "would-index" {
						vfOracleFail("sync:not-converged", "a preview right after a successful sync -f still announces work", rp(map[string]any{"preview": again, "err": fmt.Sprint(err2)}))
						break
					}
				}
			}
		} else {
			// remove -f deletes exactly the shards (and sidecars) of the selected records
			sel := map[string]bool{} // files expected to go
			okSel := true
			for _, s := range c.sels {
				type rk struct{ n, s string }
				m := map[rk]bool{}
				for _, sh := range invBefore {
					if sh.repo == s {
						m[rk{sh.repo, normalizeSourceOracle(sh.source)}] = true
					}
				}
				if len(m) == 0 {
					for _, sh := range invBefore {
						if ns := normalizeSourceOracle(sh.source); ns != "" && ns == normalizeSourceOracle(s) {
							m[rk{sh.repo, ns}] = true
						}
					}
				}
				if len(m) != 1 {
					okSel = false
					break
				}
				for k := range m {
					for _, sh := range invBefore {
						if sh.repo == k.n && normalizeSourceOracle(sh.source) == k.s {
							sel[sh.file] = true
						}
					}
				}
			}
			anyBad := false
			for _, sh := range invBefore {
				anyBad = anyBad || sh.bad
			}
			if anyBad || !okSel {
				if forceErr == nil {
					vfOracleFail("remove:bad-selection-accepted", "remove -f succeeded on a selector that matches no or several records (or an unreadable index)", rp(nil))
				}
				if d := lsSnapDiff(shardsOnly(snap0), shardsOnly(snap2)); len(d) > 0 {
					vfOracleFail("remove:failed-remove-changed-index", "remove -f failed but changed shards", rp(map[string]any{"diff": d}))
				}
			} else {
				if forceErr != nil {
					vfOracleFail("remove:valid-selection-rejected", "remove -f failed on selectors that each match one record", rp(nil))
				}
				for f := range shardsOnly(snap0) {
					want := sel[strings.TrimSuffix(f, ".meta")]
					if want && !gone(f) {
						vfOracleFail("remove:selected-shard-kept", "remove -f left a file of the selected repository", rp(map[string]any{"file": f}))
					}
					if !want && !untouched(f) {
						vfOracleFail("remove:unselected-shard-touched", "remove -f touched a file of another repository", rp(map[string]any{"file": f}))
					}
				}
				for f := range shardsOnly(snap2) {
					if _, ok := snap0[f]; !ok {
						vfOracleFail("remove:created-file", "remove -f created a shard", rp(map[string]any{"file": f}))
					}
				}
			}
		}
	}

	// non-shard files are never touched by a forced run (both properties)
	for f, a := range snap0 {
		if f == "." || f == lockFileName || strings.HasSuffix(f, ".zoekt") || strings.HasSuffix(f, ".zoekt.meta") {
			continue
		}
		if b, ok := snap2[f]; !ok || a != b {
			m := replay()
			m["file"] = f
			vfOracleFail(kind+":foreign-file-touched", "the forced run changed a file of the index directory that is not a shard", m)
		}
	}

	res.coq = cApp("mkCase", tree, fpTerm, lsInvTerm(invBefore), c.term(),
		lsLinesTerm(dry), cN(ds), lsLinesTerm(force), cN(fsx), cBool(lockErr == nil), lsInvTerm(invAfter))
	if which == "C33" { // Model/LocalSyncIdem.v: the shared case + the second preview's output and error class
		res.coq = cApp("mkCase3", res.coq, lsLinesTerm(dry2), cN(ds2))
	}
	nrm, nidx, nutd := len(lsNames(dry, "would-remove")), len(lsNames(dry, "would-index")), len(lsNames(dry, "up-to-date"))
	res.nontrivial = nrm+nidx > 0 || ds != 0
	// which IndexState branch each previewed decision came from (measured, for the evidence histogram)
	var why []string
	if !c.remove {
		byFile := map[string]lsShard{}
		for _, sh := range invBefore {
			byFile[sh.file] = sh
		}
		wr := lsNames(dry, "would-remove")
		for _, l := range dry {
			if l.kind != "would-index" && l.kind != "up-to-date" {
				continue
			}
			sh, ok := byFile[shardFile(l.name)]
			want := e.fpString(oh, l.source)
			switch {
			case l.kind == "up-to-date":
				why = append(why, "decision=equal")
			case !ok:
				why = append(why, "decision=missing")
			case lsHas(wr, sh.file) && sh.fpstr == want:
				why = append(why, "decision=pruned-but-otherwise-equal(moved)")
			case lsHas(wr, sh.file):
				why = append(why, "decision=pruned-and-stale")
			case strings.SplitN(sh.fpstr, "|", 2)[0] != strings.SplitN(want, "|", 2)[0]:
				why = append(why, "decision=option-mismatch")
			case strings.Split(sh.fpstr, "|")[1] != strings.Split(want, "|")[1]:
				why = append(why, "decision=content-mismatch")
			default:
				why = append(why, "decision=meta-mismatch")
			}
		}
	}
	for _, l := range dry {
		if _, k := lsFileKey(l.file); l.kind == "would-remove" && k >= 1 {
			why = append(why, "prune=multi-shard")
			break
		}
	}
	defer func() { res.class = append(append(res.class, why...), collClass...) }()
	res.class = []string{kind, fmt.Sprintf("status=%d", ds), fmt.Sprintf("removals=%d", min(nrm, 3)), fmt.Sprintf("index=%d", min(nidx, 3)), fmt.Sprintf("uptodate=%d", min(nutd, 3))}
	res.sample = map[string]any{"command": strings.Join(e.args(c, false), " "), "preview": dryOut, "forced": forceOut, "status": ds, "preview_error": fmt.Sprint(dryErr), "forced_error": fmt.Sprint(forceErr)}
	return res
}

func normalizeSourceOracle(s string) string {
	if s == "" {
		return ""
	}
	if filepath.Base(s) == ".git" {
		return filepath.Dir(s)
	}
	return s
}

// ---------------------------------------------------------------- generator

var lsRoots = []string{"/r1", "/r2", "/r1/team", "/r3.git"}
var lsRels = []string{"a", "b", "team/a", "team/b", "a.git", "team/c.git", "b.git", "a/inner", "deep/x/y", "kit.git", "team/a/sub", "ü", "sp ace"}

func (e *lsEnv) randomRepoPath() string {
	root := e.r.Pick([]string{"/r1", "/r1", "/r2", "/r2", "/r3.git"})
	if e.r.Chance(4) {
		return root // repository at the root itself
	}
	return root + "/" + e.r.Pick(lsRels)
}

func (e *lsEnv) existing() []string { return vfSortedKeys(e.repos) }

func lsUniq(xs []string) []string { // xs sorted
	var out []string
	for i, x := range xs {
		if i == 0 || xs[i-1] != x {
			out = append(out, x)
		}
	}
	return out
}

// collide (profile C34) builds layouts around the rule "two discovered repositories must not get the same name":
// the name is the path relative to the root with ".git" trimmed for bare repositories, so a bare `x.git` and a
// working tree `x` collide wherever they sit — next to each other under ONE root (also nested: a/x.git + a/x) or
// under two roots; one directory reached through two overlapping roots collides with itself; `x.git.git`, a working
// tree called `x.git`, `x2` next to `x` are near-misses that must be accepted.
func (e *lsEnv) collide(history *[]string) bool {
	note := func(f string, a ...any) { *history = append(*history, fmt.Sprintf(f, a...)) }
	var cands []string // existing repositories below a root (not the root itself), of a kind discovery reports
	for _, c := range e.existing() {
		k := e.repos[c].kind
		if len(lsSegs(c)) >= 2 && !(k == "bare" && !strings.HasSuffix(c, ".git")) {
			cands = append(cands, c)
		}
	}
	if len(cands) == 0 {
		return false
	}
	c := cands[e.r.Intn(len(cands))]
	segs := lsSegs(c)
	root, rel := "/"+segs[0], strings.Join(segs[1:], "/")
	if strings.HasPrefix(c, "/r1/team/") && e.r.Chance(30) { // also seen from the nested root r1/team
		root, rel = "/r1/team", strings.Join(segs[2:], "/")
	}
	bareHere := e.repos[c].kind == "bare"
	base := rel // the name discovery gives it
	if bareHere {
		base = strings.TrimSuffix(rel, ".git")
	}
	otherRoot := map[string]string{"/r1": "/r2", "/r2": "/r1", "/r3.git": "/r2", "/r1/team": "/r2"}[root]
	add := func(p, kind string) {
		e.dropUnder(p)
		ver := e.r.Intn(3)
		e.addRepo(p, kind, ver)
		note("add %s kind=%s ver=%d", p, kind, ver)
	}
	twin := func(r string) (string, string) { // the path and kind under root r that gets the same name as c
		if bareHere {
			return r + "/" + base, "work"
		}
		return r + "/" + base + ".git", "bare"
	}
	switch k := e.r.Intn(100); {
	case k < 40: // same root: bare x.git next to the working tree x (flat or nested, whatever c is)
		p, kind := twin(root)
		add(p, kind)
		note("collide same-root: %s ~ %s", c, p)
		e.wantRoots = e.r.Pick3([]string{root}, []string{root, otherRoot}, []string{otherRoot, root})
	case k < 60: // two roots: the same relative path again (same kind, or its bare/working-tree twin)
		p, kind := otherRoot+"/"+rel, e.repos[c].kind
		if e.r.Chance(50) {
			p, kind = twin(otherRoot)
		}
		add(p, kind)
		note("collide cross-root: %s ~ %s", c, p)
		e.wantRoots = e.r.Pick3([]string{root, otherRoot}, []string{otherRoot, root}, []string{"/r1", "/r2", "/r3.git"})
	case k < 66 && e.repos[c].kind == "work": // c/.git is itself a working tree (git directory c/.git/.git): c and c/.git are ONE source for pruning
		lsCopyTree(e.t, filepath.Join(e.tplWork[0], ".git"), filepath.Join(e.w, c, ".git", ".git"))
		note("nested git directory %s/.git/.git", c)
		e.wantRoots = e.r.Pick3([]string{root, c + "/.git"}, []string{c + "/.git", root}, []string{c, c + "/.git"})
	case k < 72: // the same directory reachable twice: overlapping roots
		if !strings.HasPrefix(c, "/r1/team/") {
			p := "/r1/team/" + e.r.Pick([]string{"a", "b", "c.git"})
			kind := "work"
			if strings.HasSuffix(p, ".git") {
				kind = "bare"
			}
			add(p, kind)
		}
		note("collide overlapping roots")
		e.wantRoots = e.r.Pick3([]string{"/r1", "/r1/team"}, []string{"/r1/team", "/r1"}, []string{"/r2", "/r1/team", "/r1"})
	default: // near-misses: accepted layouts close to the rule
		var p, kind string
		switch e.r.Intn(4) {
		case 0:
			p, kind = root+"/"+base+".git.git", "bare" // named base.git
		case 1:
			p, kind = root+"/"+base+"2", "work"
		case 2:
			p, kind = root+"/"+base+".git", "work" // a working tree whose directory is called x.git: not trimmed
			if !bareHere && e.r.Chance(50) {
				p, kind = root+"/"+base+".git", "emptygit"
			}
		default:
			p, kind = root+"/"+base+".git", "empty-dir" // x.git without objects: not a repository at all
		}
		if p == c {
			return false
		}
		if kind == "empty-dir" {
			e.dropUnder(p)
			os.RemoveAll(e.w + p)
			os.MkdirAll(e.w+p+"/refs", 0o755)
			note("near-miss: %s (no objects) next to %s", p, c)
		} else {
			add(p, kind)
			note("near-miss: %s next to %s", p, c)
		}
		e.wantRoots = e.r.Pick3([]string{root}, []string{root, otherRoot}, []string{otherRoot, root})
	}
	return true
}

func (r *vfRand) Pick3(a, b, c []string) []string { return [][]string{a, b, c}[r.Intn(3)] }

func (e *lsEnv) mutate(history *[]string) {
	defer lsTimed("mutate")()
	note := func(f string, a ...any) { *history = append(*history, fmt.Sprintf(f, a...)) }
	ex := e.existing()
	k := e.r.Intn(100)
	if e.profile == "C34" { // layouts matter more than histories: more adds/renames/clutter, fewer moves
		k = []int{10, 10, 10, 10, 10, 30, 52, 52, 60, 64, 72, 80, 85, 92, 92, 95}[e.r.Intn(16)]
		if !e.forceAdd && e.r.Chance(22) && e.collide(history) {
			return
		}
	}
	switch {
	case k < 25 || len(ex) == 0 || e.forceAdd: // add
		c := e.randomRepoPath()
		kind := "work"
		if strings.HasSuffix(c, ".git") {
			kind = "bare"
			if e.r.Chance(10) {
				kind = "work"
			}
		} else if e.r.Chance(8) {
			kind = "bare" // bare repository without the .git suffix: not discovered
		}
		if e.r.Chance(10) {
			kind = e.r.Pick([]string{"empty", "gitfile", "emptygit"})
		}
		e.dropUnder(c)
		ver := e.r.Intn(3)
		e.addRepo(c, kind, ver)
		note("add %s kind=%s ver=%d", c, kind, ver)
	case k < 50: // move to the other root, same relative path (same name)
		c := ex[e.r.Intn(len(ex))]
		segs := lsSegs(c)
		if len(segs) < 2 {
			return
		}
		other := map[string]string{"r1": "r2", "r2": "r1", "r3.git": "r1"}[segs[0]]
		d := "/" + other + "/" + strings.Join(segs[1:], "/")
		if _, err := os.Lstat(e.w + d); err == nil {
			return
		}
		os.MkdirAll(filepath.Dir(e.w+d), 0o755)
		if err := os.Rename(e.w+c, e.w+d); err != nil {
			return
		}
		for k2, v := range e.repos {
			if k2 == c || strings.HasPrefix(k2, c+"/") {
				delete(e.repos, k2)
				e.repos[d+k2[len(c):]] = v
			}
		}
		note("move %s -> %s", c, d)
		e.wantBoth = true
	case k < 58: // rename within the root
		c := ex[e.r.Intn(len(ex))]
		segs := lsSegs(c)
		if len(segs) < 2 {
			return
		}
		d := "/" + segs[0] + "/" + e.r.Pick(lsRels)
		if _, err := os.Lstat(e.w + d); err == nil || strings.HasPrefix(d, c+"/") {
			return
		}
		if strings.HasSuffix(c, ".git") != strings.HasSuffix(d, ".git") && e.repos[c].kind == "bare" {
			return
		}
		os.MkdirAll(filepath.Dir(e.w+d), 0o755)
		if err := os.Rename(e.w+c, e.w+d); err != nil {
			return
		}
		for k2, v := range e.repos {
			if k2 == c || strings.HasPrefix(k2, c+"/") {
				delete(e.repos, k2)
				e.repos[d+k2[len(c):]] = v
			}
		}
		note("rename %s -> %s", c, d)
	case k < 70: // new commit
		c := ex[e.r.Intn(len(ex))]
		rp := e.repos[c]
		if rp.kind != "work" && rp.kind != "bare" {
			return
		}
		nested := false
		for k2 := range e.repos {
			if strings.HasPrefix(k2, c+"/") {
				nested = true
			}
		}
		if nested {
			return
		}
		ver := (rp.ver + 1 + e.r.Intn(2)) % 3
		u := rp.url
		e.addRepo(c, rp.kind, ver)
		e.repos[c].url = u
		e.writeURL(e.w+c, e.repos[c])
		note("update %s ver=%d", c, ver)
	case k < 82: // metadata change only (zoekt.web-url; no new commit): IndexStateMeta for a repository that is in the index
		e.metaChange(ex, note)
	case k < 90: // delete
		c := ex[e.r.Intn(len(ex))]
		os.RemoveAll(e.w + c)
		e.dropUnder(c)
		note("delete %s", c)
	default: // clutter that must not be taken for a repository
		root := e.r.Pick([]string{"/r1", "/r2"})
		switch e.r.Intn(5) {
		case 0:
			os.MkdirAll(e.w+root+"/docs/notes", 0o755)
			os.WriteFile(e.w+root+"/docs/readme.txt", []byte("x"), 0o644)
			note("clutter docs in %s", root)
		case 1:
			os.MkdirAll(e.w+root+"/notbare.git/refs", 0o755)
			note("clutter notbare.git (no objects) in %s", root)
		case 2:
			os.MkdirAll(e.w+root+"/objfile.git", 0o755)
			os.WriteFile(e.w+root+"/objfile.git/objects", []byte("x"), 0o644)
			note("clutter objfile.git (objects is a file) in %s", root)
		case 3:
			os.MkdirAll(e.w+root+"/fifo", 0o755)
			syscall.Mkfifo(e.w+root+"/fifo/.git", 0o644)
			note("clutter fifo/.git in %s", root)
		case 4:
			os.MkdirAll(e.w+root+"/plain/objects", 0o755)
			note("clutter plain/objects in %s", root)
		}
	}
}

// metaChange: zoekt.web-url of one repository changes (no new commit) — preferably a repository the index currently
// holds — and the next sync preferably uses its root.
func (e *lsEnv) metaChange(ex []string, note func(f string, a ...any)) {
	if len(ex) == 0 {
		return
	}
	c := ex[e.r.Intn(len(ex))]
	var indexed []string // prefer a repository the index currently holds, and sync its root next
	for _, sh := range e.readInv() {
		if rp := e.repos[normalizeSourceOracle(sh.source)]; rp != nil && !sh.bad && (rp.kind == "work" || rp.kind == "bare") {
			indexed = append(indexed, normalizeSourceOracle(sh.source))
		}
	}
	if len(indexed) > 0 && e.r.Chance(80) {
		c = indexed[e.r.Intn(len(indexed))]
	}
	rp := e.repos[c]
	rp.url = (rp.url + 1 + e.r.Intn(2)) % 3
	e.writeURL(e.w+c, rp)
	note("url %s -> %d", c, rp.url)
	if segs := lsSegs(c); len(segs) >= 1 && e.wantRoots == nil {
		root := "/" + segs[0]
		other := map[string]string{"/r1": "/r2", "/r2": "/r1", "/r3.git": "/r1"}[root]
		e.wantRoots = e.r.Pick3([]string{root, other}, []string{other, root}, []string{root})
	}
}

func (e *lsEnv) pickRoots() []string {
	var roots []string
	if w := e.wantRoots; w != nil {
		e.wantRoots = nil
		if e.r.Chance(75) {
			return w
		}
	}
	if e.wantBoth {
		e.wantBoth = false
		if e.r.Chance(80) {
			return []string{"/r1", "/r2"}
		}
	}
	if e.r.Chance(5) { // "<working tree>/.git" as a root: a bare repository whose name would be empty
		for _, c := range e.existing() {
			if e.repos[c].kind == "work" {
				return e.r.Pick3([]string{c + "/.git", "/r2"}, []string{"/r1", c + "/.git"}, []string{c + "/.git"})
			}
		}
	}
	switch k := e.r.Intn(100); {
	case k < 45:
		roots = []string{"/r1", "/r2"}
	case k < 60:
		roots = []string{"/r1"}
	case k < 70:
		roots = []string{"/r2", "/r1"}
	case k < 78:
		roots = []string{"/r1/team", "/r2"}
	case k < 84:
		roots = []string{"/r1", "/r1/team"} // overlapping
	case k < 90:
		roots = []string{"/r1", "/r2", "/r3.git"}
	case k < 93:
		roots = []string{"/r2", "/r3.git"}
	case k < 95:
		roots = []string{"/r1", "/r1"} // duplicate root
	case k < 97:
		roots = []string{"/r1", "/nope"}
	default:
		roots = []string{"/r1/team/a", "/r2"}
	}
	return roots
}

// otherToolShard drops a shard as another indexer would have written it (arbitrary name/source, no HEAD branch).
func (e *lsEnv) otherToolShard(name, source string) {
	key := name + "\x00" + source
	fn := url.QueryEscape(name) + fmt.Sprintf("_v%d.%05d.zoekt", index.IndexFormatVersion, 0)
	b, ok := e.otherCache[key]
	if !ok {
		dir := filepath.Join(e.base, "other")
		os.RemoveAll(dir)
		os.MkdirAll(dir, 0o755)
		src := source
		if strings.HasPrefix(src, "/") {
			src = e.w + src
		}
		opts := index.Options{IndexDir: dir, RepositoryDescription: zoekt.Repository{Name: name, Source: src}, DisableCTags: true}
		opts.SetDefaults()
		bld, err := index.NewBuilder(opts)
		if err != nil {
			e.t.Fatal(err)
		}
		bld.AddFile("f.txt", []byte("other tool\n"))
		if err := bld.Finish(); err != nil {
			e.t.Fatal(err)
		}
		b, err = os.ReadFile(filepath.Join(dir, fn))
		if err != nil {
			e.t.Fatal(err)
		}
		e.otherCache[key] = b
	}
	os.MkdirAll(e.idx, 0o755)
	os.WriteFile(filepath.Join(e.idx, fn), b, 0o644)
}

func (e *lsEnv) resetScenario() {
	os.RemoveAll(e.w)
	os.RemoveAll(e.idx)
	for _, r := range []string{"/r1/team", "/r2", "/r3.git"} {
		os.MkdirAll(e.w+r, 0o755)
	}
	e.repos = map[string]*lsRepo{}
	e.wantRoots, e.lastColl = nil, ""
}

func (e *lsEnv) pickSelectors(inv []lsShard) []string {
	var sels []string
	n := 1 + e.r.Intn(2)
	for i := 0; i < n; i++ {
		switch k := e.r.Intn(100); {
		case k < 45 && len(inv) > 0:
			sels = append(sels, inv[e.r.Intn(len(inv))].repo)
		case k < 75 && len(inv) > 0:
			s := inv[e.r.Intn(len(inv))].source
			if e.r.Chance(25) {
				s += "/.git"
			}
			sels = append(sels, s)
		case k < 85:
			sels = append(sels, "/r1/"+e.r.Pick(lsRels))
		default:
			sels = append(sels, e.r.Pick([]string{"nosuch", "a", "team/a", "b"}))
		}
	}
	return sels
}

// lsRun drives scenarios until n cases were emitted.
func lsRun(t *testing.T, which string, n int) {
	e := lsNewEnv(t, which)
	e.profile = which
	cases := 0
	for sc := 0; cases < n; sc++ {
		e.resetScenario()
		var history []string
		// initial population
		for i, k := 0, 2+e.r.Intn(4); i < k; i++ {
			e.forceAdd = true
			e.mutate(&history)
		}
		e.forceAdd = false
		for i, k := 0, e.r.Intn(3); i < k; i++ {
			e.mutate(&history)
		}
		if e.r.Chance(15) {
			os.MkdirAll(e.idx, 0o755) // empty index directory instead of a missing one
		}
		if e.r.Chance(60) { // start most histories from an index that is up to date for some root set (set-up, not a case)
			pre := lsCmd{roots: e.pickRoots()}
			if which == "C33" && e.r.Chance(35) { // with a tiny shard limit: the bigger repositories occupy several shard files
				pre.extra = []string{"-shard_limit=4000"}
			}
			e.exec(pre, true)
			history = append(history, "setup: "+strings.Join(e.args(pre, true), " "))
		}
		steps := 3 + e.r.Intn(4)
		for st := 0; st < steps && cases < n; st++ {
			if st > 0 {
				if p := e.lastColl; p != "" { // mostly resolve the last collision so that later steps sync again
					e.lastColl = ""
					if e.r.Chance(65) {
						os.RemoveAll(e.w + p)
						e.dropUnder(p)
						history = append(history, "delete "+p)
					}
				}
				for i, k := 0, e.r.Intn(3); i < k; i++ {
					e.mutate(&history)
				}
			}
			// C33: a repository that occupies SEVERAL shard files leaves the selection (deleted, or its root is not synced
			// next): all of its shards must be announced and removed, none may be left for the next preview to find
			if which == "C33" && st > 0 {
				var multi []string
				for _, sh := range e.readInv() {
					if c := normalizeSourceOracle(sh.source); sh.num >= 1 && !sh.bad && e.repos[c] != nil && !lsHas(multi, c) {
						multi = append(multi, c)
					}
				}
				if len(multi) == 0 && e.r.Chance(12) { // a metadata-only change of an indexed repository (IndexStateMeta), then sync its root
					e.metaChange(e.existing(), func(f string, a ...any) { history = append(history, fmt.Sprintf(f, a...)) })
				}
				if len(multi) > 0 && e.r.Chance(55) {
					c := multi[e.r.Intn(len(multi))]
					if segs := lsSegs(c); e.r.Chance(50) || len(segs) < 2 {
						os.RemoveAll(e.w + c)
						e.dropUnder(c)
						history = append(history, "delete "+c+" (multi-shard)")
					} else {
						other := map[string]string{"r1": "/r2", "r2": "/r1", "r3.git": "/r1"}[segs[0]]
						e.wantRoots = e.r.Pick3([]string{other}, []string{other, "/r3.git"}, []string{other})
						history = append(history, "next sync leaves out the root of "+c+" (multi-shard)")
					}
				}
			}
			// adversities in the index directory
			if e.r.Chance(12) {
				nm := e.r.Pick([]string{"a", "other/tool", "team/a", "zz"})
				src := e.r.Pick([]string{"", "/r1/a", "/r2/a", "/elsewhere/x", "/r1/team/a/.git"})
				e.otherToolShard(nm, src)
				history = append(history, fmt.Sprintf("other-tool shard name=%q source=%q", nm, src))
			}
			if e.r.Chance(8) {
				os.MkdirAll(e.idx, 0o755)
				os.WriteFile(filepath.Join(e.idx, "notes.txt"), []byte("keep me"), 0o644)
				history = append(history, "foreign file notes.txt")
			}
			if e.r.Chance(3) {
				os.MkdirAll(e.idx, 0o755)
				os.WriteFile(filepath.Join(e.idx, "junk_v16.00000.zoekt"), []byte("not a shard"), 0o644)
				history = append(history, "corrupt shard junk_v16.00000.zoekt")
			}
			if e.r.Chance(35) { // the lock file is not part of the state a preview may rely on: an index filled by other tools has none
				if os.Remove(filepath.Join(e.idx, lockFileName)) == nil {
					history = append(history, "lock file deleted")
				}
			}
			if e.r.Chance(10) { // a metadata sidecar next to a shard (as written by metadata-only updates)
				if inv0 := e.readInv(); len(inv0) > 0 {
					sh := inv0[e.r.Intn(len(inv0))]
					if !sh.bad {
						p := filepath.Join(e.idx, sh.file)
						if repos, _, err := index.ReadMetadataPathAlive(p); err == nil && len(repos) == 1 {
							if tmp, final, err := index.JsonMarshalRepoMetaTemp(p, repos[0]); err == nil {
								os.Rename(tmp, final)
								history = append(history, "sidecar "+sh.file+".meta")
							}
						}
					}
				}
			}
			var c lsCmd
			inv := e.readInv()
			if len(inv) > 0 && e.r.Chance(25) {
				c = lsCmd{remove: true, sels: e.pickSelectors(inv)}
				if which == "C33" && e.r.Chance(25) { // an AMBIGUOUS selector: a second record (another tool's shard under another
					// name) with the source of an indexed repository, selected by that source: both modes must refuse alike
					var cands []lsShard
					for _, sh := range inv {
						if !sh.bad && strings.HasPrefix(sh.source, "/") && sh.repo != "zz" {
							cands = append(cands, sh)
						}
					}
					if len(cands) > 0 {
						sh := cands[e.r.Intn(len(cands))]
						e.otherToolShard("zz", sh.source)
						history = append(history, fmt.Sprintf("other-tool shard name=%q source=%q (same source as %q)", "zz", sh.source, sh.repo))
						c.sels = e.r.Pick3([]string{sh.source}, []string{sh.repo, sh.source}, []string{sh.source + "/.git"})
					}
				}
			} else {
				c = lsCmd{roots: e.pickRoots()}
				if e.r.Chance(8) {
					c.extra = []string{"-file_limit=100000"} // another IndexOptions hash: everything is stale
				}
				if e.r.Chance(map[string]int{"C33": 30, "C34": 10}[which]) { // a forced sync with a tiny shard limit first: multi-shard repositories (set-up, not a case)
					pre := c
					pre.extra = append([]string{"-shard_limit=4000"}, c.extra...)
					e.exec(pre, true)
					history = append(history, "setup: "+strings.Join(e.args(pre, true), " "))
				}
			}
			history = append(history, "RUN "+strings.Join(e.args(c, false), " "))
			res := e.step(c, which, history)
			if res.aborted {
				break
			}
			vfCase(res.coq, fmt.Sprintf("%x", sha1.Sum([]byte(res.coq))), res.nontrivial, res.class, res.sample)
			cases++
			if e.r.Chance(50) {
				os.Remove(filepath.Join(e.idx, "junk_v16.00000.zoekt"))
			}
		}
	}
	os.RemoveAll(e.base)
	vfInfo(map[string]any{"times": fmt.Sprint(lsTimes)})
}

func TestVerifC33(t *testing.T) {
	lsRun(t, "C33", vfN(120))
}
