package main

// C15 (directory half) correspondence + oracle: generated directory trees on a scratch directory through
// the real indexArg; shards read back with index.NewSearcher; document multiset compared with a Go oracle
// that walks the scratch directory itself (os.ReadDir/Lstat/Readlink, not filepath.Walk) and with the Coq
// model (Model/DirWalk.v: index_arg). Mapped into cmd/zoekt-index by `go test -overlay`.

import (
	"bytes"
	"context"
	"fmt"
	"os"
	"path/filepath"
	"sort"
	"strings"
	"syscall"
	"time"
	"testing"

	"github.com/gobwas/glob"

	"github.com/sourcegraph/zoekt"
	"github.com/sourcegraph/zoekt/ignore"
	"github.com/sourcegraph/zoekt/index"
	"github.com/sourcegraph/zoekt/query"
)

type vfC15Node struct {
	Kind     int // 0 regular file, 1 symlink, 2 other (fifo), 3 directory
	Name     string
	Data     []byte // file content / link target
	Children []*vfC15Node
	What     string // label of the link target class
}

type vfC15Doc struct {
	Name     string
	Content  []byte
	Branches []string
}

var vfC15Names = []string{"a", "b", "src", "main.go", "README.md", "vendor", "node_modules", ".git", ".hg", ".svn", "build",
	"gen", "x.tmp", "é.txt", "a b", ".sourcegraph", "docs", "c#", "out.log", "lib", "ignore", "t.md", "zz"}

func vfC15GenData(r *vfRand, sizeMax int) []byte {
	words := []string{"foo", "bar", "func", "main", "é", "x", "package", "\t", "return 1"}
	switch c := r.Intn(100); {
	case c < 10:
		return []byte{}
	case c < 16:
		return []byte(strings.Repeat("a", 1+r.Intn(2)))
	case c < 24:
		b := []byte("bin" + r.Pick(words))
		b = append(b, 0)
		return append(b, []byte(r.Pick(words))...)
	case c < 34:
		n := sizeMax - 2 + r.Intn(6)
		b := make([]byte, n)
		for i := range b {
			b[i] = "abcdefg \n"[r.Intn(9)]
		}
		return b
	case c < 38:
		return []byte{0xff, 0xfe, 'a', 'b', 0x80, '\n', 'c'}
	}
	var sb strings.Builder
	nl := 1 + r.Intn(3)
	for i := 0; i < nl; i++ {
		nw := 1 + r.Intn(4)
		for j := 0; j < nw; j++ {
			sb.WriteString(r.Pick(words))
			sb.WriteByte(' ')
		}
		if i < nl-1 || r.Bool() {
			sb.WriteByte('\n')
		}
	}
	return []byte(sb.String())
}

func vfC15GenDir(r *vfRand, depth int, sizeMax int, outside string, rootAbs string) []*vfC15Node {
	n := r.Intn(6)
	if depth == 0 {
		n = 1 + r.Intn(7)
	}
	used := map[string]bool{}
	var out []*vfC15Node
	for i := 0; i < n; i++ {
		name := r.Pick(vfC15Names)
		if used[name] {
			continue
		}
		if depth == 0 && name == ".sourcegraph" {
			continue // the root's .sourcegraph is placed by the caller
		}
		used[name] = true
		nd := &vfC15Node{Name: name}
		switch c := r.Intn(100); {
		case c < 45:
			nd.Kind = 0
			nd.Data = vfC15GenData(r, sizeMax)
		case c < 65:
			nd.Kind = 1
			switch k := r.Intn(12); k {
			case 9:
				nd.Data, nd.What = []byte(r.Pick([]string{"./main.go", "src/../main.go", "a//b", "src/", "./"})), "unclean-target"
			case 10:
				nd.Data, nd.What = []byte("../"+filepath.Base(rootAbs)+"/README.md"), "via-parent"
			case 0:
				nd.Data, nd.What = []byte("main.go"), "sibling"
			case 1:
				nd.Data, nd.What = []byte("../src"), "dir-up"
			case 2:
				nd.Data, nd.What = []byte("src"), "dir"
			case 3:
				nd.Data, nd.What = []byte(outside), "outside-file"
			case 4:
				nd.Data, nd.What = []byte("does/not/exist"), "dangling"
			case 5:
				nd.Data, nd.What = []byte(filepath.Join(rootAbs, "README.md")), "absolute-inside"
			case 6:
				nd.Data, nd.What = []byte("."), "self-dir-too-small"
			case 7:
				nd.Data, nd.What = []byte(strings.Repeat("../", 25)+"etc/hostname"), "long-target"
			default:
				nd.Data, nd.What = []byte(filepath.Dir(outside)), "outside-dir"
			}
		case c < 70:
			nd.Kind = 2
		default:
			if depth >= 3 {
				nd.Kind = 0
				nd.Data = vfC15GenData(r, sizeMax)
			} else {
				nd.Kind = 3
				nd.Children = vfC15GenDir(r, depth+1, sizeMax, outside, rootAbs)
			}
		}
		out = append(out, nd)
	}
	sort.Slice(out, func(i, j int) bool { return out[i].Name < out[j].Name })
	return out
}

func vfC15Materialise(dir string, ch []*vfC15Node) error {
	for _, nd := range ch {
		p := filepath.Join(dir, nd.Name)
		switch nd.Kind {
		case 0:
			if err := os.WriteFile(p, nd.Data, 0o644); err != nil {
				return err
			}
		case 1:
			if err := os.Symlink(string(nd.Data), p); err != nil {
				return err
			}
		case 2:
			if err := syscall.Mkfifo(p, 0o644); err != nil {
				return err
			}
		default:
			if err := os.Mkdir(p, 0o755); err != nil {
				return err
			}
			if err := vfC15Materialise(p, nd.Children); err != nil {
				return err
			}
		}
	}
	return nil
}

func vfC15CoqTree(ch []*vfC15Node) string {
	if len(ch) == 0 {
		return "[]"
	}
	xs := make([]string, len(ch))
	for i, nd := range ch {
		var t string
		switch nd.Kind {
		case 0:
			t = "(NFile " + cBytes(nd.Data) + ")"
		case 1:
			t = "(NSymlink " + cBytes(nd.Data) + ")"
		case 2:
			t = "NOther"
		default:
			t = "(NDir " + vfC15CoqTree(nd.Children) + ")"
		}
		xs[i] = cPair(cStr(nd.Name), t)
	}
	return cList(xs)
}

func vfC15AllPaths(prefix string, ch []*vfC15Node, out *[]string, count *int, links *int) {
	for _, nd := range ch {
		p := nd.Name
		if prefix != "" {
			p = prefix + "/" + nd.Name
		}
		*out = append(*out, p)
		*count++
		if nd.Kind == 1 {
			*links++
		}
		if nd.Kind == 3 {
			vfC15AllPaths(p, nd.Children, out, count, links)
		}
	}
}

func vfC15RunIndexArg(arg string, opts index.Options, ig map[string]struct{}) (code int, msg string) {
	defer func() {
		if p := recover(); p != nil {
			code, msg = 2, fmt.Sprint(p)
		}
	}()
	if err := indexArg(arg, opts, ig); err != nil {
		return 1, err.Error()
	}
	return 0, ""
}

func vfC15ReadShards(dir string) ([]vfC15Doc, error) {
	fs, err := filepath.Glob(filepath.Join(dir, "*.zoekt"))
	if err != nil {
		return nil, err
	}
	sort.Strings(fs)
	var docs []vfC15Doc
	for _, fn := range fs {
		f, err := os.Open(fn)
		if err != nil {
			return nil, err
		}
		inf, err := index.NewIndexFile(f)
		if err != nil {
			f.Close()
			return nil, err
		}
		s, err := index.NewSearcher(inf)
		if err != nil {
			inf.Close()
			return nil, err
		}
		res, err := s.Search(context.Background(), &query.Const{Value: true}, &zoekt.SearchOptions{
			Whole: true, ShardMaxMatchCount: 1 << 30, TotalMaxMatchCount: 1 << 30, MaxDocDisplayCount: 1 << 30,
		})
		if err != nil {
			s.Close()
			return nil, err
		}
		for _, fm := range res.Files { // copy before Close: the content aliases the mmapped shard
			d := vfC15Doc{Name: strings.Clone(fm.FileName), Content: append([]byte(nil), fm.Content...)}
			for _, b := range fm.Branches {
				d.Branches = append(d.Branches, strings.Clone(b))
			}
			docs = append(docs, d)
		}
		s.Close()
	}
	return docs, nil
}

func vfC15View(content []byte, sizeMax int) []byte {
	switch {
	case len(content) > sizeMax:
		return []byte("NOT-INDEXED: exceeds the maximum size limit")
	case len(content) == 0:
		return content
	case len(content) < 3:
		return []byte("NOT-INDEXED: contains too few trigrams")
	case bytes.IndexByte(content, 0) >= 0:
		return []byte("NOT-INDEXED: contains binary content")
	}
	return content
}

// vfC15OracleMatcher: the ignore file is honoured only when .sourcegraph is a real directory and
// .sourcegraph/ignore a regular file.
func vfC15OracleMatcher(root string) (*ignore.Matcher, bool, error) {
	st, err := os.Lstat(filepath.Join(root, ".sourcegraph"))
	if err != nil || !st.IsDir() {
		return &ignore.Matcher{}, false, nil
	}
	st, err = os.Lstat(filepath.Join(root, ".sourcegraph", "ignore"))
	if err != nil || !st.Mode().IsRegular() {
		return &ignore.Matcher{}, false, nil
	}
	b, err := os.ReadFile(filepath.Join(root, ".sourcegraph", "ignore"))
	if err != nil {
		return nil, false, err
	}
	m, err := ignore.ParseIgnoreFile(bytes.NewReader(b))
	return m, true, err
}

type vfC15Want struct {
	content []byte
	link    bool
	through []byte // for a link to a readable regular file: what following the link would yield
}

// vfC15OracleWalk: the property's reading of the scratch directory, independent of filepath.Walk.
func vfC15OracleWalk(abs, rel string, igd map[string]struct{}, m *ignore.Matcher, want map[string]vfC15Want) error {
	ents, err := os.ReadDir(abs)
	if err != nil {
		return err
	}
	for _, e := range ents {
		p := filepath.Join(abs, e.Name())
		rp := e.Name()
		if rel != "" {
			rp = rel + "/" + e.Name()
		}
		st, err := os.Lstat(p)
		if err != nil {
			return err
		}
		switch {
		case st.IsDir():
			if _, ok := igd[e.Name()]; ok {
				continue
			}
			if m.Match(rp) {
				continue
			}
			if err := vfC15OracleWalk(p, rp, igd, m, want); err != nil {
				return err
			}
		case st.Mode()&os.ModeSymlink != 0:
			if m.Match(rp) {
				continue
			}
			t, err := os.Readlink(p)
			if err != nil {
				return err
			}
			w := vfC15Want{content: []byte(t), link: true}
			if st2, err := os.Stat(p); err == nil && st2.Mode().IsRegular() {
				w.through, _ = os.ReadFile(p)
			}
			want[rp] = w
		case st.Mode().IsRegular():
			if m.Match(rp) {
				continue
			}
			b, err := os.ReadFile(p)
			if err != nil {
				return err
			}
			want[rp] = vfC15Want{content: b}
		}
	}
	return nil
}

var vfC15Patterns = []string{"vendor", "docs/", "/build", "*.tmp", "**/*.log", "src/gen", "src/*/a", "# a comment", "", "  b  ",
	"**/gen/**", "main.go", "*.md", "é.txt", "lib/", "/a b", "**/zz", "src/main.go", "README.md", "#build", "a/b", "c#"}

func TestVerifC15(t *testing.T) {
	r := vfNewRand(vfSeed())
	n := vfN(150)
	tmp := os.Getenv("VERIF_TMP")
	if tmp == "" {
		tmp = t.TempDir()
	}
	fifoOK := true
	var tIndex time.Duration
	defer func() { vfInfo(map[string]any{"seconds_in_indexArg": tIndex.Seconds()}) }()
	for i := 0; i < n; i++ {
		caseDir, err := os.MkdirTemp(tmp, "c15d-")
		if err != nil {
			t.Fatal(err)
		}
		sizeMax := 24 + r.Intn(40)
		outside := filepath.Join(caseDir, "outside", "secret.txt")
		os.MkdirAll(filepath.Dir(outside), 0o755)
		os.WriteFile(outside, []byte("OUTSIDE the indexed root\n"), 0o644)
		rootBase := "root"
		if r.Chance(5) {
			rootBase = r.Pick([]string{".git", "build", "node_modules"})
		}
		root := filepath.Join(caseDir, rootBase)
		ch := vfC15GenDir(r, 0, sizeMax, outside, root)
		// ---- the ignore file, in one of several shapes
		var lines []string
		np := r.Intn(5)
		var genPaths []string
		{
			a, b := 0, 0
			vfC15AllPaths("", ch, &genPaths, &a, &b)
		}
		for j := 0; j < np; j++ {
			if len(genPaths) == 0 || r.Chance(35) {
				lines = append(lines, r.Pick(vfC15Patterns))
				continue
			}
			// a pattern derived from a path of the tree, so that ignore rules are in effect often
			p := genPaths[r.Intn(len(genPaths))]
			base := p[strings.LastIndex(p, "/")+1:]
			switch r.Intn(7) {
			case 0:
				lines = append(lines, p)
			case 1:
				lines = append(lines, "/"+p)
			case 2:
				if k := strings.LastIndex(p, "/"); k >= 0 {
					lines = append(lines, p[:k]+"/")
				} else {
					lines = append(lines, p+"/")
				}
			case 3:
				lines = append(lines, "**/"+base)
			case 4:
				if k := strings.LastIndex(base, "."); k > 0 {
					lines = append(lines, "**/*"+base[k:])
				} else {
					lines = append(lines, base+"*")
				}
			case 5:
				if k := strings.Index(p, "/"); k >= 0 {
					lines = append(lines, p[:k]+"/*")
				} else {
					lines = append(lines, "?"+string([]rune(base)[1:])) // rune boundary: an invalid UTF-8 pattern does not compile
				}
			default:
				lines = append(lines, "  "+p+"\t")
			}
		}
		igContent := strings.Join(lines, "\n")
		if len(lines) > 0 && r.Bool() {
			igContent += "\n"
		}
		if r.Chance(10) {
			igContent = strings.ReplaceAll(igContent, "\n", "\r\n")
		}
		igMode := "absent"
		switch c := r.Intn(100); {
		case c < 55:
			igMode = "real"
			sub := []*vfC15Node{{Kind: 0, Name: "ignore", Data: []byte(igContent)}}
			if r.Chance(30) {
				sub = append(sub, &vfC15Node{Kind: 0, Name: "other.txt", Data: []byte("other config\n")})
			}
			ch = append(ch, &vfC15Node{Kind: 3, Name: ".sourcegraph", Children: sub})
		case c < 65:
			igMode = "ignore-is-symlink"
			ch = append(ch, &vfC15Node{Kind: 3, Name: ".sourcegraph", Children: []*vfC15Node{{Kind: 1, Name: "ignore", Data: []byte("../.patterns"), What: "ignore-file"}}})
			ch = append(ch, &vfC15Node{Kind: 0, Name: ".patterns", Data: []byte(igContent)})
		case c < 75:
			igMode = "sourcegraph-is-symlink"
			ch = append(ch, &vfC15Node{Kind: 1, Name: ".sourcegraph", Data: []byte(".cfg"), What: "sourcegraph-dir"})
			ch = append(ch, &vfC15Node{Kind: 3, Name: ".cfg", Children: []*vfC15Node{{Kind: 0, Name: "ignore", Data: []byte(igContent)}}})
		case c < 80:
			igMode = "ignore-is-dir"
			ch = append(ch, &vfC15Node{Kind: 3, Name: ".sourcegraph", Children: []*vfC15Node{{Kind: 3, Name: "ignore", Children: []*vfC15Node{{Kind: 0, Name: "x", Data: []byte(igContent)}}}}})
		}
		sort.Slice(ch, func(a, b int) bool { return ch[a].Name < ch[b].Name })
		if !fifoOK {
			var strip func(c []*vfC15Node)
			strip = func(c []*vfC15Node) {
				for _, nd := range c {
					if nd.Kind == 2 {
						nd.Kind, nd.Data = 0, []byte("was a fifo\n")
					}
					strip(nd.Children)
				}
			}
			strip(ch)
		}
		if err := os.Mkdir(root, 0o755); err != nil {
			t.Fatal(err)
		}
		if err := vfC15Materialise(root, ch); err != nil {
			if fifoOK && strings.Contains(err.Error(), "operation not permitted") {
				fifoOK = false
				vfInfo(map[string]any{"note": "mkfifo not permitted in this sandbox; fifo nodes replaced by regular files"})
				os.RemoveAll(caseDir)
				continue
			}
			t.Fatalf("case %d: materialise: %v", i, err)
		}
		var igd map[string]struct{}
		var igdNames []string
		switch c := r.Intn(100); {
		case c < 55:
			igdNames = []string{".git", ".hg", ".svn"}
		case c < 85:
			igdNames = []string{"node_modules", "build", ".git"}
		case c < 92:
			igdNames = []string{"src"}
		}
		if igdNames != nil {
			igd = map[string]struct{}{}
			for _, d := range igdNames {
				igd[d] = struct{}{}
			}
		}
		var branches []zoekt.RepositoryBranch
		var bnames []string
		nb := r.Intn(3)
		for j := 0; j < nb; j++ {
			bn := []string{"main", "dev"}[j]
			branches = append(branches, zoekt.RepositoryBranch{Name: bn, Version: "0123456789abcdef0123456789abcdef01234567"})
			bnames = append(bnames, bn)
		}
		indexDir := filepath.Join(caseDir, "idx")
		os.MkdirAll(indexDir, 0o755)
		shardMax := 1 << 14 // (the default of 100 MB makes every builder pre-size a huge postings map)
		if r.Chance(15) {
			shardMax = 60 + r.Intn(100) // several shards
		}
		opts := index.Options{IndexDir: indexDir, SizeMax: sizeMax, ShardMax: shardMax, DisableCTags: true, Parallelism: 1 + r.Intn(2),
			RepositoryDescription: zoekt.Repository{Name: "repo", Branches: branches}}
		opts.SetDefaults()
		arg := root
		if r.Chance(20) {
			arg = root + "/./" // indexArg cleans its argument
		}
		t0 := time.Now()
		code, msg := vfC15RunIndexArg(arg, opts, igd)
		tIndex += time.Since(t0)
		var docs []vfC15Doc
		if code == 0 {
			docs, err = vfC15ReadShards(indexDir)
			if err != nil {
				t.Fatalf("case %d: reading shards: %v", i, err)
			}
		}
		// ---- verdicts of the real glob engine: (pattern, path) pairs that match, for the harness' own reading of the
		// intended ignore content (the Coq model derives its patterns itself, Model/IgnoreFile.v) and every path of the tree
		if _, perr := ignore.ParseIgnoreFile(strings.NewReader(igContent)); perr != nil {
			t.Fatalf("case %d: generator produced an invalid pattern: %v", i, perr)
		}
		var paths []string
		nodes, links := 0, 0
		vfC15AllPaths("", ch, &paths, &nodes, &links)
		var matched []string
		for _, pat := range vfC15IgnorePatterns(igContent) {
			g, gerr := glob.Compile(pat, '/')
			if gerr != nil {
				t.Fatalf("case %d: pattern %q does not compile: %v", i, pat, gerr)
			}
			for _, p := range paths {
				if g.Match(p) {
					matched = append(matched, cPair(cStr(pat), cStr(p)))
				}
			}
		}
		// ---- Go-side oracle: the property itself, from the file system
		replay := map[string]any{"tree": vfC15Replay(ch), "ignore_dirs": igdNames, "ignore_file_shape": igMode, "ignore_content": igContent,
			"size_max": sizeMax, "root_base": rootBase, "result": code, "message": msg,
			"how": "materialise the tree under <tmp>/<root_base> (kind 0 file, 1 symlink with target data, 2 fifo, 3 dir), run indexArg(root, index.Options{IndexDir, SizeMax, DisableCTags:true}, ignore_dirs as a set), read the shards with index.NewSearcher + Search(Const true, Whole)"}
		want := map[string]vfC15Want{}
		effective := false
		if _, skipRoot := igd[rootBase]; !skipRoot {
			om, eff, err := vfC15OracleMatcher(root)
			if err != nil {
				t.Fatalf("case %d: oracle matcher: %v", i, err)
			}
			effective = eff
			if err := vfC15OracleWalk(root, "", igd, om, want); err != nil {
				t.Fatalf("case %d: oracle walk: %v", i, err)
			}
		}
		switch code {
		case 2:
			vfOracleFail("dir:panic", "indexArg panics: "+msg, replay)
		case 1:
			vfOracleFail("dir:error", "indexArg fails on a readable tree: "+msg, replay)
		default:
			got := map[string][]vfC15Doc{}
			for _, d := range docs {
				got[d.Name] = append(got[d.Name], d)
			}
			for name, w := range want {
				ds := got[name]
				if len(ds) == 0 {
					replay["path"] = name
					vfOracleFail("dir:missing-document", "a regular file or symlink outside ignored directories/patterns has no document", replay)
					break
				}
				if len(ds) > 1 {
					replay["path"] = name
					vfOracleFail("dir:duplicate-document", "more than one document for one path", replay)
					break
				}
				if !bytes.Equal(ds[0].Content, vfC15View(w.content, sizeMax)) {
					replay["path"] = name
					replay["got"] = string(ds[0].Content)
					key := "dir:wrong-content"
					if w.link {
						key = "dir:symlink-content-not-target"
						if w.through != nil && bytes.Equal(ds[0].Content, vfC15View(w.through, sizeMax)) {
							key = "dir:symlink-followed"
						}
					}
					vfOracleFail(key, "the document's content is not the file's content / the link's target", replay)
					break
				}
				if strings.Join(ds[0].Branches, ",") != strings.Join(bnames, ",") {
					replay["path"] = name
					vfOracleFail("dir:wrong-branches", "the document's branches are not the configured branches", replay)
					break
				}
			}
			for name := range got {
				if _, ok := want[name]; !ok {
					replay["path"] = name
					vfOracleFail("dir:extra-document", "a document for a path that is ignored, inside an ignored directory, below a symlink, or not a file", replay)
					break
				}
			}
		}
		// ---- correspondence record
		cdocs := "[]"
		if len(docs) > 0 {
			xs := make([]string, len(docs))
			for j, d := range docs {
				xs[j] = cPair(cStr(d.Name), cBytes(d.Content))
			}
			cdocs = cList(xs)
		}
		cigd := "[]"
		if len(igdNames) > 0 {
			xs := make([]string, len(igdNames))
			for j, d := range igdNames {
				xs[j] = cStr(d)
			}
			cigd = cList(xs)
		}
		cmatched := "[]"
		if len(matched) > 0 {
			cmatched = cList(matched)
		}
		coq := cTuple(cigd, cN(uint64(sizeMax)), cStr(rootBase), vfC15CoqTree(ch), cmatched, cN(uint64(code)), cdocs)
		ruleInEffect := (effective && len(matched) > 0) || len(docs) < vfC15CountLeaves(ch)
		vfCase(coq, vfKey(coq), nodes >= 3 && (links > 0 || ruleInEffect),
			[]string{"ignore-file=" + igMode, fmt.Sprintf("links=%d", min(links, 3)), fmt.Sprintf("docs=%d", min(len(docs)/3*3, 12)),
				fmt.Sprintf("matched=%v", effective && len(matched) > 0), fmt.Sprintf("igd=%s", strings.Join(igdNames, ",")),
				fmt.Sprintf("file-or-link-named-like-ignored-dir=%v", vfC15IgdNamedLeaves(ch, igdNames) > 0)},
			map[string]any{"nodes": nodes, "links": links, "docs": len(docs), "ignore_file": igMode, "matched": len(matched), "result": code})
		os.RemoveAll(caseDir)
	}
}

// vfC15IgdNamedLeaves counts the regular files and symlinks, outside directories ignored by name, whose own name is one of the
// ignored DIRECTORY names (the `.git` file of a submodule or linked worktree, a link called `.hg`): they must be indexed.
func vfC15IgdNamedLeaves(ns []*vfC15Node, igd []string) int {
	c := 0
	for _, n := range ns {
		named := false
		for _, d := range igd {
			if n.Name == d {
				named = true
			}
		}
		switch {
		case n.Kind == 3 && !named:
			c += vfC15IgdNamedLeaves(n.Children, igd)
		case (n.Kind == 0 || n.Kind == 1) && named:
			c++
		}
	}
	return c
}

// vfC15IgnorePatterns: the documented reading of an ignore file (one glob per line relative to the root, blank lines and
// '#' comments skipped, a leading '/' dropped, "**" appended to lines without glob characters), written independently
// of ignore.ParseIgnoreFile.
func vfC15IgnorePatterns(content string) []string {
	lines := strings.Split(content, "\n")
	if len(lines) > 0 && lines[len(lines)-1] == "" {
		lines = lines[:len(lines)-1]
	}
	var out []string
	for _, l := range lines {
		l = strings.Trim(l, " \t\r\n\v\f")
		if l == "" || l[0] == '#' {
			continue
		}
		l = strings.TrimPrefix(l, "/")
		if !strings.ContainsAny(l, ".][*?") {
			l += "**"
		}
		out = append(out, l)
	}
	return out
}

func vfC15CountLeaves(ch []*vfC15Node) int {
	n := 0
	for _, nd := range ch {
		switch nd.Kind {
		case 0, 1:
			n++
		case 3:
			n += vfC15CountLeaves(nd.Children)
		}
	}
	return n
}

func vfC15Replay(ch []*vfC15Node) []map[string]any {
	var out []map[string]any
	for _, nd := range ch {
		m := map[string]any{"kind": nd.Kind, "name": nd.Name}
		if nd.Kind == 0 || nd.Kind == 1 {
			m["data"] = string(nd.Data)
		}
		if nd.Kind == 3 {
			m["children"] = vfC15Replay(nd.Children)
		}
		out = append(out, m)
	}
	return out
}
