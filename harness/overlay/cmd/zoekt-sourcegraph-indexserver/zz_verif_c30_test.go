package main

// C30 correspondence + oracle: random operation histories against the real Queue (queue.go, backoff.go).
// Mapped into /repo/cmd/zoekt-sourcegraph-indexserver by `go test -overlay`.
//
// Time: queue.go calls time.Now() directly (no clock hook). Two regimes make backoff.Allow deterministic
// within a run: backoff 0 (a failed item is allowed again as soon as the clock advanced; the harness waits
// for the clock to advance after every operation) and backoff 1h (a failed item stays blocked for the run).
// The model is evaluated with a logical clock (one tick of 1ns per operation). The backoff struct itself
// takes `now` as an argument and is driven separately with arbitrary times and durations.

import (
	"fmt"
	"sort"
	"strings"
	"testing"
	"time"

	"github.com/sourcegraph/log/logtest"
	"github.com/sourcegraph/zoekt"
)

type vfC30Op struct {
	Op    string   `json:"op"` // add pop bump setindexed removemissing len keys
	ID    uint32   `json:"id,omitempty"`
	Ver   int      `json:"ver,omitempty"`
	State string   `json:"state,omitempty"`
	IDs   []uint32 `json:"ids,omitempty"`
}

func vfC30Opts(id uint32, ver int) IndexOptions {
	if ver == 0 {
		return IndexOptions{RepoID: id}
	}
	return IndexOptions{RepoID: id, Name: fmt.Sprintf("v%d", ver),
		Branches: []zoekt.RepositoryBranch{{Name: "HEAD", Version: fmt.Sprintf("c%d", ver)}}}
}
func vfC30Ver(o IndexOptions) int {
	v := 0
	if o.Name != "" {
		fmt.Sscanf(o.Name, "v%d", &v)
	}
	return v
}

var vfC30States = []indexState{indexStateFail, indexStateSuccess, indexStateSuccessMeta, indexStateNoop, indexStateEmpty}

func vfC30StateCode(s string) uint64 {
	for i, x := range vfC30States {
		if string(x) == s {
			return uint64(i + 1) // fail = 1, others >= 2
		}
	}
	return 0
}

// ---- reference specification (the property itself, independent of heap layout)
type vfC30RefItem struct {
	id      uint32
	ver     int
	optsID  uint32 // RepoID inside the stored options (0 for an item born in SetIndexed)
	indexed bool
	failed  bool
	onQ     bool
	seq     int
	blocked bool
}
type vfC30Ref struct {
	items   map[uint32]*vfC30RefItem
	seq     int
	blockOn bool // regime: a failure blocks re-enqueueing for the rest of the run
}

func (r *vfC30Ref) getOrAdd(id uint32) *vfC30RefItem {
	it := r.items[id]
	if it == nil {
		it = &vfC30RefItem{id: id}
		r.items[id] = it
	}
	return it
}
func (r *vfC30Ref) enqueue(it *vfC30RefItem) {
	if !it.onQ && !it.blocked {
		r.seq++
		it.seq = r.seq
		it.onQ = true
	}
}
func (r *vfC30Ref) keys() []uint32 {
	var ks []uint32
	for k := range r.items {
		ks = append(ks, k)
	}
	sort.Slice(ks, func(i, j int) bool { return ks[i] < ks[j] })
	return ks
}
func vfC30RefLess(x, y *vfC30RefItem) bool {
	if x.indexed != y.indexed {
		return !x.indexed
	}
	if x.failed != y.failed {
		return !x.failed
	}
	return x.seq < y.seq
}
func (r *vfC30Ref) min() *vfC30RefItem {
	var best *vfC30RefItem
	for _, k := range r.keys() {
		it := r.items[k]
		if it.onQ && (best == nil || vfC30RefLess(it, best)) {
			best = it
		}
	}
	return best
}
func (r *vfC30Ref) qlen() int {
	n := 0
	for _, it := range r.items {
		if it.onQ {
			n++
		}
	}
	return n
}

func vfC30Keys(q *Queue) []uint32 {
	var ks []uint32
	q.debugIteratedOrdered(func(it *queueItem) { ks = append(ks, it.repoID) })
	sort.Slice(ks, func(i, j int) bool { return ks[i] < ks[j] })
	return ks
}
func vfC30U32s(xs []uint32) string {
	ys := make([]uint64, len(xs))
	for i, x := range xs {
		ys[i] = uint64(x)
	}
	return cNList(ys)
}
func vfC30Eq(a, b []uint32) bool {
	if len(a) != len(b) {
		return false
	}
	for i := range a {
		if a[i] != b[i] {
			return false
		}
	}
	return true
}
func vfC30Sorted(xs []uint32) []uint32 {
	ys := append([]uint32(nil), xs...)
	sort.Slice(ys, func(i, j int) bool { return ys[i] < ys[j] })
	return ys
}

const vfC30Base = int64(1000000000000000000)

// vfC30Run executes one history on the real queue. Returns the Coq case term, class labels, nontrivial flag.
func vfC30Run(t *testing.T, regime string, ops []vfC30Op) (string, []string, bool) {
	var bd, mx time.Duration
	switch regime {
	case "zero":
		bd, mx = 0, 0
	case "neg":
		bd, mx = -5, time.Hour // NewQueue normalises to 0,0
	case "hour":
		bd, mx = time.Hour, 2 * time.Hour
	case "hourcap":
		bd, mx = 2 * time.Hour, time.Hour // capped branch of Fail
	}
	q := NewQueue(bd, mx, logtest.Scoped(t))
	ref := &vfC30Ref{items: map[uint32]*vfC30RefItem{}, blockOn: regime == "hour" || regime == "hourcap"}
	classes := map[string]bool{"regime=" + regime: true}
	failed := false
	fail := func(i int, key, what string) {
		if failed {
			return
		}
		failed = true
		vfOracleFail(key, what, map[string]any{"regime": regime, "ops": ops[:i+1], "failing_step": i})
	}
	var rows []string
	pops, maxLen := 0, 0
	for i, o := range ops {
		now := vfC30Base + int64(i)
		var obs, opTerm string
		switch o.Op {
		case "add":
			if it := ref.items[o.ID]; it != nil && it.onQ {
				classes["fix-on-heap"] = true
			}
			q.AddOrUpdate(vfC30Opts(o.ID, o.Ver))
			it := ref.getOrAdd(o.ID)
			if it.ver != o.Ver || it.optsID != o.ID {
				it.indexed = false
				it.ver, it.optsID = o.Ver, o.ID
			}
			ref.enqueue(it)
			opTerm, obs = cApp("OAdd", cN(uint64(o.ID)), cN(uint64(o.Ver))), "RUnit"
		case "pop":
			item, ok := q.Pop()
			want := ref.min()
			if ok {
				pops++
				obs = cApp("RPop", cSome(cTuple(cN(uint64(item.Opts.RepoID)), cN(uint64(vfC30Ver(item.Opts))))))
			} else {
				obs = "(RPop None)"
			}
			switch {
			case want == nil && ok:
				fail(i, "pop:from-empty", "Pop yields a repository although nothing is enqueued")
			case want != nil && !ok:
				fail(i, "pop:lost", fmt.Sprintf("Pop reports an empty queue although repository %d is enqueued", want.id))
			case want != nil && (item.Opts.RepoID != want.optsID || vfC30Ver(item.Opts) != want.ver):
				fail(i, "pop:not-minimum", fmt.Sprintf("Pop yields (%d,v%d) but the minimum of the enqueued set under the priority order is repository %d (v%d)", item.Opts.RepoID, vfC30Ver(item.Opts), want.id, want.ver))
			}
			if want != nil {
				want.onQ = false
			}
			opTerm = "OPop"
		case "bump":
			miss := q.Bump(o.IDs)
			var wantMiss []uint32
			for _, id := range o.IDs {
				if it := ref.items[id]; it == nil {
					wantMiss = append(wantMiss, id)
				} else {
					if it.blocked && !it.onQ {
						classes["backoff-blocks"] = true
					}
					ref.enqueue(it)
				}
			}
			if !vfC30Eq(miss, wantMiss) {
				fail(i, "bump:missing", fmt.Sprintf("Bump reports unknown ids %v, the queue does not know %v", miss, wantMiss))
			}
			opTerm, obs = cApp("OBump", vfC30U32s(o.IDs)), cApp("RIds", vfC30U32s(miss))
		case "setindexed":
			it0 := ref.items[o.ID]
			if it0 == nil {
				classes["ghost"] = true
			} else if it0.onQ {
				if o.State == "fail" {
					classes["remove-on-heap"] = true
				} else {
					classes["fix-on-heap"] = true
				}
			}
			q.SetIndexed(vfC30Opts(o.ID, o.Ver), indexState(o.State))
			it := ref.getOrAdd(o.ID)
			it.failed = o.State == "fail"
			if !it.failed {
				it.indexed = it.ver == o.Ver && it.optsID == o.ID
				it.blocked = false
			} else {
				it.blocked = ref.blockOn
				it.onQ = false
			}
			opTerm, obs = cApp("OSetIndexed", cN(uint64(o.ID)), cN(uint64(o.Ver)), cN(vfC30StateCode(o.State))), "RUnit"
		case "removemissing":
			before := ref.keys()
			removed := vfC30Sorted(q.MaybeRemoveMissing(o.IDs))
			set := map[uint32]bool{}
			for _, id := range o.IDs {
				set[id] = true
			}
			var wantRemoved, wantKeys []uint32
			if len(before) != len(o.IDs) {
				classes["rm-run"] = true
				for _, k := range before {
					if set[k] {
						wantKeys = append(wantKeys, k)
					} else {
						wantRemoved = append(wantRemoved, k)
						delete(ref.items, k)
					}
				}
			} else {
				classes["rm-skip"] = true
				wantKeys = before
			}
			after := vfC30Keys(q)
			if !vfC30Eq(removed, wantRemoved) || !vfC30Eq(after, wantKeys) {
				fail(i, "remove-missing:inexact", fmt.Sprintf("MaybeRemoveMissing(%v) on tracked %v: removed %v, now tracks %v; expected removed %v, tracked %v", o.IDs, before, removed, after, wantRemoved, wantKeys))
			}
			opTerm, obs = cApp("ORemoveMissing", vfC30U32s(o.IDs)), cApp("RIds", vfC30U32s(removed))
		case "len":
			l := q.Len()
			if l != ref.qlen() {
				fail(i, "len", fmt.Sprintf("Len = %d, enqueued repositories = %d", l, ref.qlen()))
			}
			opTerm, obs = "OLen", cApp("RLen", cN(uint64(l)))
		case "keys":
			ks := vfC30Keys(q)
			if !vfC30Eq(ks, ref.keys()) {
				fail(i, "keys", fmt.Sprintf("queue tracks %v, expected %v", ks, ref.keys()))
			}
			n := 0
			q.Iterate(func(*IndexOptions) { n++ })
			if n != len(ks) {
				fail(i, "keys:iterate", "Iterate and debugIteratedOrdered disagree on the number of tracked repositories")
			}
			opTerm, obs = "OKeys", cApp("RIds", vfC30U32s(ks))
		default:
			t.Fatalf("unknown op %q", o.Op)
		}
		if l := q.Len(); l > maxLen {
			maxLen = l
		}
		rows = append(rows, cTuple(cZ(now), opTerm, obs))
		// let the clock advance so that a zero backoff has expired at the next operation
		for t0 := time.Now(); !time.Now().After(t0); {
		}
	}
	if maxLen >= 4 {
		classes["maxlen>=4"] = true
	}
	var cl []string
	for k := range classes {
		cl = append(cl, k)
	}
	sort.Strings(cl)
	hist := "[]"
	if len(rows) > 0 {
		hist = cList(rows)
	}
	return cApp("CQueue", cZ(int64(bd)), cZ(int64(mx)), hist), cl, pops >= 2 && maxLen >= 3
}

func vfC30Gen(r *vfRand) (string, []vfC30Op) {
	regime := []string{"zero", "zero", "hour", "hour", "neg", "hourcap"}[r.Intn(6)]
	pool := []uint32{0, 1, 2, 3, 5, 7, 9, 4000000000}
	np := 3 + r.Intn(len(pool)-2)
	pool = pool[:np]
	pick := func() uint32 { return pool[r.Intn(len(pool))] }
	subset := func(p int) []uint32 {
		var out []uint32
		for _, id := range pool {
			if r.Chance(p) {
				out = append(out, id)
			}
		}
		if r.Chance(15) {
			out = append(out, 77) // never added
		}
		if r.Chance(10) && len(out) > 0 {
			out = append(out, out[0]) // duplicate
		}
		return out
	}
	n := 5 + r.Intn(56)
	var ops []vfC30Op
	known := map[uint32]bool{}
	for i := 0; i < n; i++ {
		switch x := r.Intn(100); {
		case x < 30:
			id := pick()
			known[id] = true
			ops = append(ops, vfC30Op{Op: "add", ID: id, Ver: 1 + r.Intn(3)})
		case x < 50:
			ops = append(ops, vfC30Op{Op: "pop"})
		case x < 72:
			st := string(vfC30States[r.Intn(len(vfC30States))])
			if r.Chance(35) {
				st = "fail"
			}
			id, ver := pick(), r.Intn(4)
			known[id] = true
			ops = append(ops, vfC30Op{Op: "setindexed", ID: id, Ver: ver, State: st})
		case x < 82:
			ops = append(ops, vfC30Op{Op: "bump", IDs: subset(50)})
		case x < 90:
			var ids []uint32
			switch r.Intn(3) {
			case 0: // the server's discipline: a subset of what was announced
				for _, id := range pool {
					if known[id] && r.Chance(70) {
						ids = append(ids, id)
					}
				}
			default:
				ids = subset(60)
			}
			ops = append(ops, vfC30Op{Op: "removemissing", IDs: ids})
			for k := range known {
				keep := false
				for _, id := range ids {
					keep = keep || id == k
				}
				if !keep {
					delete(known, k)
				}
			}
		case x < 95:
			ops = append(ops, vfC30Op{Op: "len"})
		default:
			ops = append(ops, vfC30Op{Op: "keys"})
		}
	}
	ops = append(ops, vfC30Op{Op: "keys"}, vfC30Op{Op: "len"})
	if r.Chance(70) {
		ops = append(ops, vfC30Op{Op: "bump", IDs: pool})
	}
	for i := 0; i < len(pool)+1; i++ { // drain: exposes the complete priority order
		ops = append(ops, vfC30Op{Op: "pop"})
	}
	return regime, ops
}

// ---- backoff struct driven directly (it takes `now` as an argument)
func vfC30Backoff(r *vfRand) (string, string) {
	durs := []time.Duration{0, 1, 3, 10, 1000, time.Hour}
	bd, mx := durs[r.Intn(len(durs))], durs[r.Intn(len(durs))]
	b := backoff{backoffDuration: bd, maxBackoff: mx}
	var rows []string
	now := int64(1000)
	n := 3 + r.Intn(12)
	for i := 0; i < n; i++ {
		now += int64(r.Intn(6))
		var opTerm string
		switch r.Intn(4) {
		case 0:
			b.Reset()
			opTerm = "BReset"
		case 1, 2:
			b.Fail(time.Unix(0, now), nopLogger, IndexOptions{})
			opTerm = cApp("BFail", cZ(now))
		default:
			opTerm = cApp("BAllow", cZ(now))
		}
		until := "time_zero"
		if !b.backoffUntil.IsZero() {
			until = cZ(b.backoffUntil.UnixNano())
		}
		rows = append(rows, cTuple(opTerm, cZ(now), cBool(b.Allow(time.Unix(0, now))), cZ(int64(b.consecutiveFailures)), until))
	}
	return cApp("CBackoff", cZ(int64(bd)), cZ(int64(mx)), cList(rows)), fmt.Sprint(bd, mx, rows)
}

var nopLogger = logtest.NoOp(nil)

func TestVerifC30(t *testing.T) {
	if rp := vfReplay(); rp != nil {
		if inner, ok := rp["replay"].(map[string]any); ok {
			rp = inner
		}
		var ops []vfC30Op
		for _, x := range rp["ops"].([]any) {
			m := x.(map[string]any)
			o := vfC30Op{Op: m["op"].(string)}
			if v, ok := m["id"].(float64); ok {
				o.ID = uint32(v)
			}
			if v, ok := m["ver"].(float64); ok {
				o.Ver = int(v)
			}
			if v, ok := m["state"].(string); ok {
				o.State = v
			}
			if v, ok := m["ids"].([]any); ok {
				for _, y := range v {
					o.IDs = append(o.IDs, uint32(y.(float64)))
				}
			}
			ops = append(ops, o)
		}
		regime, _ := rp["regime"].(string)
		coq, cl, nt := vfC30Run(t, regime, ops)
		vfCase(coq, "replay", nt, cl, map[string]any{"regime": regime, "ops": len(ops)})
		return
	}
	r := vfNewRand(vfSeed())
	n := vfN(300)
	for i := 0; i < n; i++ {
		if i%10 == 9 {
			coq, key := vfC30Backoff(r)
			vfCase(coq, key, true, []string{"backoff-unit"}, map[string]any{"backoff": key})
			continue
		}
		regime, ops := vfC30Gen(r)
		coq, cl, nt := vfC30Run(t, regime, ops)
		var sb strings.Builder
		for _, o := range ops {
			fmt.Fprintf(&sb, "%s %d %d %s %v;", o.Op, o.ID, o.Ver, o.State, o.IDs)
		}
		vfCase(coq, regime+":"+sb.String(), nt, cl, map[string]any{"regime": regime, "ops": ops})
	}
}
