package main

// C12 (metadata-only updates) — crash-point / fault enumeration on the REAL mergeMeta (meta.go), whose os.* mutation
// call sites go through the zzfs shim (translator/fsinstrument via -overlay).
//
// mergeMeta follows the same install protocol as Builder.Finish for a delta build without new shards: one temp sidecar
// per shard (jsonMarshalTmpFile), then a rename loop over a Go map.  The model instance is
// `mkBuild true <shards> <shards that already have a sidecar> 0 false false false` (Model/FinishOps.v); the deferred
// os.Remove of the temp names after the rename loop touches temp names only and is dropped from the op list.
//
// Scenario = an index of repository "r" with 1-3 shards (optionally already carrying sidecars from a delta build),
// then mergeMeta with a changed URL.  Runs: undisturbed; killed (freeze) before every mutation; every mutation failing.
// After each run the directory is loaded with search.NewDirectorySearcher:
//   Go oracle: digest(List incl. URL + Search(TRUE, Whole)) is the old or the new one (kill) / the new one when mergeMeta
//   returned nil (fail); correspondence: executed ops + per-slot view to the Coq model (c12_ok).

import (
	"context"
	"crypto/sha1"
	"encoding/hex"
	"encoding/json"
	"fmt"
	"os"
	"path/filepath"
	"regexp"
	"runtime/debug"
	"sort"
	"strconv"
	"strings"
	"testing"

	"github.com/sourcegraph/zoekt"
	"github.com/sourcegraph/zoekt/index"
	"github.com/sourcegraph/zoekt/internal/zzfs"
	"github.com/sourcegraph/zoekt/query"
	"github.com/sourcegraph/zoekt/search"
)

var c12mNameRe = regexp.MustCompile(`^r_v16\.(\d{5})\.zoekt(\.meta)?(\.[0-9*]+\.tmp)?$`)

func c12mName(p string) (string, bool) {
	m := c12mNameRe.FindStringSubmatch(filepath.Base(p))
	if m == nil {
		return "", false
	}
	n, _ := strconv.Atoi(m[1])
	kind := "Shard"
	switch {
	case m[2] != "" && m[3] != "":
		kind = "TmpMeta"
	case m[2] != "":
		kind = "Meta"
	case m[3] != "":
		kind = "TmpShard"
	}
	return fmt.Sprintf("(%s (SReg %d))", kind, n), true
}

const c12mUnknown = "(OWrite (Shard (SReg 99)) Partial, true)"

func c12mOps(log []zzfs.Op) (ops []string, kinds []string) {
	for _, o := range log {
		res := "true"
		switch o.Result {
		case "done", "badwrite":
		case "injected", "failed":
			res = "false"
		default:
			continue
		}
		nm := func(i int) string {
			if i < len(o.Args) {
				if s, ok := c12mName(o.Args[i]); ok {
					return s
				}
			}
			return ""
		}
		kinds = append(kinds, o.Kind+":"+o.Result)
		switch o.Kind {
		case "CreateTemp":
			t := nm(2)
			if t == "" {
				t = nm(1)
			}
			if t == "" {
				ops = append(ops, c12mUnknown)
				continue
			}
			ops = append(ops, "(OCreateTmp "+t+", "+res+")")
			if o.Result == "done" {
				ops = append(ops, "(OWrite "+t+" (Data GNew), true)")
			} else if o.Result == "badwrite" {
				ops = append(ops, "(OWrite "+t+" Partial, false)")
			}
		case "Rename":
			a, b := nm(0), nm(1)
			if a == "" || b == "" {
				ops = append(ops, c12mUnknown)
				continue
			}
			ops = append(ops, "(ORename "+a+" "+b+", "+res+")")
		case "Remove":
			a := nm(0)
			if a == "" {
				ops = append(ops, c12mUnknown)
				continue
			}
			ops = append(ops, "(ORemove "+a+", "+res+")")
		default:
			ops = append(ops, c12mUnknown)
		}
	}
	// the deferred clean-up (os.Remove of every temp name) after the rename loop touches temp names only
	sawRename := false
	for _, o := range ops {
		if strings.HasPrefix(o, "(ORename") {
			sawRename = true
		}
	}
	if sawRename {
		for len(ops) > 0 && strings.HasPrefix(ops[len(ops)-1], "(ORemove (Tmp") {
			ops = ops[:len(ops)-1]
		}
	}
	return ops, kinds
}

type c12mObs struct {
	rows   []string
	digest string
	broken []string
}

func c12mObserve(t *testing.T, dir string, oldMeta map[string]string) c12mObs {
	var o c12mObs
	fns, _ := filepath.Glob(filepath.Join(dir, "*.zoekt"))
	sort.Strings(fns)
	for _, fn := range fns {
		nm, ok := c12mName(fn)
		if !ok {
			continue
		}
		n, _ := strconv.Atoi(strings.TrimRight(nm[strings.Index(nm, "SReg ")+5:], ")"))
		sc := 1
		if _, _, err := index.ReadMetadataPath(fn); err != nil {
			sc = 0
			o.broken = append(o.broken, filepath.Base(fn)+": "+err.Error())
		}
		mc := 0
		if mb, err := os.ReadFile(fn + ".meta"); err == nil && len(mb) > 0 {
			if oldMeta[filepath.Base(fn)] == string(mb) {
				mc = 1
			} else if json.Valid(mb) {
				mc = 2
			} else {
				mc = 3
			}
		}
		o.rows = append(o.rows, cTuple(cN(uint64(n+1)), cN(uint64(sc)), cN(uint64(mc))))
	}
	ss, err := search.NewDirectorySearcher(dir)
	if err != nil {
		t.Fatal(err)
	}
	defer ss.Close()
	var lines []string
	rl, err := ss.List(context.Background(), &query.Const{Value: true}, nil)
	if err != nil {
		t.Fatal(err)
	}
	for _, e := range rl.Repos {
		lines = append(lines, fmt.Sprintf("repo %s id=%d url=%s branches=%v", e.Repository.Name, e.Repository.ID, e.Repository.URL, e.Repository.Branches))
	}
	sr, err := ss.Search(context.Background(), &query.Const{Value: true}, &zoekt.SearchOptions{Whole: true})
	if err != nil {
		t.Fatal(err)
	}
	for _, f := range sr.Files {
		lines = append(lines, fmt.Sprintf("file %s %s %q %v %s", f.Repository, f.FileName, f.Content, f.Branches, f.Version))
	}
	sort.Strings(lines)
	h := sha1.Sum([]byte(strings.Join(lines, "\n")))
	o.digest = hex.EncodeToString(h[:])
	return o
}

func c12mCopyDir(t *testing.T, src, dst string) {
	os.MkdirAll(dst, 0o755)
	es, _ := os.ReadDir(src)
	for _, e := range es {
		b, err := os.ReadFile(filepath.Join(src, e.Name()))
		if err != nil {
			t.Fatal(err)
		}
		os.WriteFile(filepath.Join(dst, e.Name()), b, 0o644)
	}
}

func TestVerifC12Meta(t *testing.T) {
	defer debug.SetGCPercent(debug.SetGCPercent(1000))
	root, err := os.MkdirTemp(os.Getenv("VERIF_TMP"), "c12m-")
	if err != nil {
		t.Fatal(err)
	}
	defer os.RemoveAll(root)
	type scen struct {
		Shards   int  `json:"shards"`
		Sidecars bool `json:"old_sidecars"` // a delta build ran before: every old shard but the newest has a sidecar
	}
	scs := []scen{{1, false}, {2, false}, {3, true}, {2, true}}
	n := vfN(len(scs))
	if n < len(scs) {
		scs = scs[:n]
	}
	desc := func(url string) zoekt.Repository {
		return zoekt.Repository{Name: "r", ID: 7, URL: url, Branches: []zoekt.RepositoryBranch{{Name: "main", Version: "v1"}}}
	}
	for si, sc := range scs {
		sroot := filepath.Join(root, fmt.Sprintf("s%d", si))
		tdir := filepath.Join(sroot, "template")
		zzfs.Reset(zzfs.Plan{})
		// ---- old index
		nfull := sc.Shards
		if sc.Sidecars {
			nfull--
		}
		b, err := index.NewBuilder(index.Options{IndexDir: tdir, ShardMax: 1, Parallelism: 1, DisableCTags: true, RepositoryDescription: desc("http://old")})
		if err != nil {
			t.Fatal(err)
		}
		for i := 0; i < nfull; i++ {
			b.Add(index.Document{Name: fmt.Sprintf("f%d.txt", i), Content: []byte(fmt.Sprintf("content of file %d\n", i)), Branches: []string{"main"}})
		}
		if err := b.Finish(); err != nil {
			t.Fatal(err)
		}
		if sc.Sidecars {
			b, err := index.NewBuilder(index.Options{IndexDir: tdir, ShardMax: 1, Parallelism: 1, DisableCTags: true, IsDelta: true, RepositoryDescription: desc("http://old")})
			if err != nil {
				t.Fatal(err)
			}
			b.MarkFileAsChangedOrRemoved("f0.txt")
			b.Add(index.Document{Name: "f0.txt", Content: []byte("changed content of file 0\n"), Branches: []string{"main"}})
			if err := b.Finish(); err != nil {
				t.Fatal(err)
			}
		}
		oldMeta := map[string]string{}
		var oldmeta []int
		nold := 0
		es, _ := os.ReadDir(tdir)
		for _, e := range es {
			nm, ok := c12mName(e.Name())
			if !ok || strings.HasPrefix(nm, "(Tmp") {
				t.Fatalf("unexpected file %s", e.Name())
			}
			if strings.HasPrefix(nm, "(Shard") {
				nold++
			} else {
				mb, _ := os.ReadFile(filepath.Join(tdir, e.Name()))
				oldMeta[strings.TrimSuffix(e.Name(), ".meta")] = string(mb)
				k, _ := strconv.Atoi(strings.TrimRight(nm[strings.Index(nm, "SReg ")+5:], ")"))
				oldmeta = append(oldmeta, k)
			}
		}
		sort.Ints(oldmeta)
		om := "(@nil nat)"
		if len(oldmeta) > 0 {
			om = cNatList(oldmeta)
		}
		build := fmt.Sprintf("(mkBuild true %d %s 0 false false false)", nold, om)
		oldObs := c12mObserve(t, tdir, oldMeta)
		run := func(idx int, plan zzfs.Plan) (error, []zzfs.Op, c12mObs) {
			dir := filepath.Join(sroot, fmt.Sprintf("run%d", idx))
			c12mCopyDir(t, tdir, dir)
			opts := index.Options{IndexDir: dir, RepositoryDescription: desc("http://new")}
			opts.SetDefaults()
			zzfs.Reset(plan)
			err := mergeMeta(&opts)
			lg := zzfs.Log()
			zzfs.Reset(zzfs.Plan{})
			obs := c12mObserve(t, dir, oldMeta)
			os.RemoveAll(dir)
			return err, lg, obs
		}
		emit := func(kind string, k int, err error, lg []zzfs.Op, obs c12mObs, killed bool) {
			ops, kinds := c12mOps(lg)
			opst := "[]"
			if len(ops) > 0 {
				opst = cList(ops)
			}
			rows := "[]"
			if len(obs.rows) > 0 {
				rows = cList(obs.rows)
			}
			coq := cTuple(build, "(@nil nat)", opst, cBool(killed), cBool(err != nil), rows)
			vfCase(coq, vfKey(coq), kind != "ref", []string{"mergeMeta", "run=" + kind, fmt.Sprintf("old=%d/meta=%d", nold, len(oldmeta))},
				map[string]any{"scenario": sc, "run": "mergeMeta/" + kind, "k": k, "ops": kinds, "view": obs.rows, "err": fmt.Sprint(err)})
		}
		refErr, refLog, refObs := run(0, zzfs.Plan{})
		if refErr != nil {
			vfOracleFail("reference-build-failed", "an undisturbed mergeMeta returns an error: "+refErr.Error(), map[string]any{"scenario": sc})
			continue
		}
		emit("ref", len(refLog), refErr, refLog, refObs, false)
		if refObs.digest == oldObs.digest {
			vfOracleFail("meta-update-has-no-effect", "mergeMeta with a changed URL leaves the served metadata unchanged", map[string]any{"scenario": sc})
		}
		L := len(refLog)
		replay := func(kind string, k int, err error, lg []zzfs.Op, obs c12mObs) map[string]any {
			_, kinds := c12mOps(lg)
			return map[string]any{"scenario": sc, "run": "mergeMeta/" + kind, "op_index": k, "executed_ops": kinds, "view_rows(slot,shard,sidecar)": obs.rows,
				"old_view": oldObs.rows, "new_view": refObs.rows, "error": fmt.Sprint(err)}
		}
		for k := 0; k < L; k++ {
			err, lg, obs := run(1+k, zzfs.Plan{Kill: &zzfs.Sel{Seq: k}, KillMode: "freeze"})
			emit("kill", k, err, lg, obs, true)
			ren := 0
			for _, o := range lg {
				if o.Kind == "Rename" && o.Result == "done" {
					ren++
				}
			}
			win := "rename-loop-window"
			if ren == 0 {
				win = "before-first-rename"
			} else if ren >= nold {
				win = "after-install"
			}
			if len(obs.broken) > 0 {
				vfOracleFail("truncated-or-unloadable-shard-visible:"+win, "after a kill a visible *.zoekt does not load: "+strings.Join(obs.broken, "; "), replay("kill", k, err, lg, obs))
			} else if obs.digest != oldObs.digest && obs.digest != refObs.digest {
				vfOracleFail("mix:mergeMeta:"+win, "after a kill of mergeMeta the searcher sees neither the old nor the new metadata ("+win+")", replay("kill", k, err, lg, obs))
			}
		}
		for j := 0; j < L; j++ {
			modes := []string{"fail"}
			for mi := 0; mi < len(modes); mi++ {
				err, lg, obs := run(1+L+j, zzfs.Plan{Fail: []zzfs.Sel{{Seq: j, Mode: modes[mi]}}})
				emit("fail", j, err, lg, obs, false)
				failed := "?"
				for _, o := range lg {
					if o.Result == "injected" || o.Result == "badwrite" {
						failed = o.Kind
					}
				}
				if failed == "CreateTemp" && modes[mi] == "fail" {
					modes = append(modes, "badwrite")
				}
				if failed == "Remove" {
					continue // the deferred clean-up of temp names; no effect on visible names
				}
				if err == nil && obs.digest != refObs.digest {
					vfOracleFail("success-incomplete:mergeMeta:"+failed, "mergeMeta reported success after a failed "+failed+" but not every sidecar is installed", replay("fail/"+modes[mi], j, err, lg, obs))
				}
				if len(obs.broken) > 0 {
					vfOracleFail("truncated-or-unloadable-shard-visible:fault", "after a failed operation a visible *.zoekt does not load: "+strings.Join(obs.broken, "; "), replay("fail/"+modes[mi], j, err, lg, obs))
				}
			}
		}
		os.RemoveAll(sroot)
	}
}
